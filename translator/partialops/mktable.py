#!/usr/bin/env python3
"""Development aid for C06 (not run by the check): classify the sites of one or more
PartialOps.v inventories by the rules below and print the entries of the discharge table
for coq/Proofs/PrimsSites.v.  A site no rule matches is printed on stderr and the script
exits 1: it needs a conscious decision (a new model primitive, or a reason).

  python3 mktable.py gen1/PartialOps.v [gen2/PartialOps.v ...] > entries.txt
"""
import re
import sys

sites = set()
for f in sys.argv[1:]:
    for line in open(f):
        m = re.match(r'\s*mkSite (.*?);?\s*$', line)
        if not m:
            continue
        parts = re.findall(r'"((?:[^"]|"")*)"', m.group(1))
        if len(parts) == 5:
            sites.add(tuple(parts))

AST = 'AstShape'
GUARD = 'Guarded'
INV = 'Invariant'
OTHER = 'OtherProperty'


def classify(file, fn, kind, op, g):
    # ------------------------------------------------ facts (checks), not partial operations
    if kind == 'check':
        return (INV, 'a check performed by Validate / sinkDetailRuntime.Eval (a fact, not a partial operation)')
    # ------------------------------------------------ sites modelled by primitives (guard required!)
    if file.endswith('rt_arithmetic.go') and kind == 'intdiv' and 'divisor == 0' in g:
        return ('L', 'L_mod')
    if file.endswith('rt_boolean.go') and kind == 'ifaceeq' and 'checkComparable' in g:
        return ('L', {'n1 == n2': 'L_eq', 'n1 != n2': 'L_neq', 'val == i': 'L_in'}[op])
    if file.endswith('rt_value.go') and kind == 'mapkey' and 'Comparable()' in g:
        return ('L', 'L_maplit')
    if file.endswith('varsscope.go') and op == 'listContainer[index]' and 'index >= 0 && index < len(listContainer)' in g:
        return ('L', {'(*varsScope).getValue/func': 'L_get', '(*varsScope).containerAccess': 'L_assign', '(*varsScope).setValue': 'L_setraw'}[fn])
    if fn == '(*delFunc).Run' and kind in ('slice', 'index') and op.startswith('argList') and 'i >= 0 && i < len(argList)' in g:
        return ('L', 'L_del')
    if fn == '(*addFunc).Run' and kind in ('slice', 'index') and op.startswith('argList') and 'i >= 0 && i <= len(argList)' in g:
        return ('L', 'L_add')
    if fn == '(*sinkRuntime).createRule' and kind == 'assert' and op.startswith('val.('):
        return ('L', 'L_sink')
    if fn == '(*sinkRuntime).makeStringList' and kind == 'assert':
        return ('L', 'L_sink')
    # ------------------------------------------------ argument vectors of built-ins
    if file.endswith('func_provider.go') and kind in ('index', 'slice') and re.match(r'args\[', op):
        if 'len(args)' in g:
            return (GUARD, 'the len(args) test in the key dominates the access')
        if fn == '(*rangeFunc).Run':
            return (INV, 'lenargs := len(args): lenargs == 0 sets err and skips the block; args[0] needs lenargs >= 1, args[1] is in the else of lenargs == 1, args[2] under lenargs > 2 (b_range)')
    if file.endswith('func_provider.go') and kind == 'assert':
        if op.startswith('is[') or 'parentMonitor' in op:
            return (INV, 'is["erp"], is["astnode"] are set by identifierRuntime.resolveFunction before every call; is["monitor"] by the sink action; the iterator state by rangeFunc itself')
        if 'stepVal' in op:
            return (INV, 'the iterator state is written by rangeFunc itself as float64')
        if 'NewRuntimeError' in op:
            return (INV, 'ECALRuntimeProvider.NewRuntimeError always returns a *util.RuntimeError')
        if op == 'm.(*engine.RootMonitor)':
            return (INV, 'AddEventAndWait returns the *RootMonitor it was given')
    if fn == '(*docFunc).Run' and kind == 'index' and 'len(c.Children) > 0' in g:
        return (GUARD, 'the length test in the key dominates the access')
    if fn == '(*docFunc).Run' and kind == 'index':
        return (AST, 'the call node has a funccall child with at least one argument when len(args) > 0 (fuzzed: doc with every argument vector)')
    if file.endswith('func_provider.go') and kind == 'mapkey':
        return (INV, 'the key is a string constant or comes from ranging over a map (hashable)')
    if file.endswith('func_provider.go') and kind == 'assert-call':
        return (INV, 'time based triggers are outside the model: AddEvent only fails when the processor is stopped, which the status test above the assertion excludes (trusted)')
    # ------------------------------------------------ AST shape
    if kind in ('index', 'slice') and re.search(r'(Children|Meta)\[', op):
        if 'len(' in g or 'range ' in g or 'for ' in g:
            return (GUARD, 'the length test / loop bound in the key dominates the access')
        return (AST, 'number of children fixed by the parser for this node kind (C07 well-formedness, Validate); fuzzed by stream 2')
    if kind == 'assert-call' and 'len(rt.node.Children)' in op:
        return (AST, 'operator nodes have exactly the asserted number of operands (parser)')
    if kind == 'assert-call' and 'rt.validated' in op:
        return (INV, 'Validate is called before Eval by every entry point (the harness goes through Parse/Validate/Eval)')
    if kind == 'assert-call' and 'AssertOk(evalErr)' in op:
        return (INV, 'a string constant evaluates without error (C14: interpolation errors are inlined)')
    if kind == 'assert-call' and file.endswith('rule.go'):
        return (OTHER, 'C01: a state index is only created for the last kind level')
    if kind == 'assert' and 'NewRuntimeError' in op:
        return (INV, 'ECALRuntimeProvider.NewRuntimeError always returns a *util.RuntimeError')
    if kind == 'assert' and op == 'guardres.(bool)':
        return (INV, 'guardRuntime.Eval returns a bool whenever err == nil')
    if kind == 'assert' and op == 'res.(bool)':
        return (INV, 'inOpRuntime.Eval returns a bool whenever err == nil (L_in)')
    if kind == 'assert' and 'Runtime.(*identifierRuntime)' in op:
        return (AST, 'the second child of an import node is an identifier (parser)')
    if kind == 'assert' and '.(*varsScope)' in op:
        return (INV, 'all scopes are created by NewScope / NewChild as *varsScope')
    # ------------------------------------------------ rt_statements
    if file.endswith('rt_statements.go') and kind == 'index':
        if re.search(r'!\(index >= end\)|len\(vars\) == 1', g):
            return (GUARD, 'the bound test in the key dominates the access')
        if op == 'resList[i]':
            return (INV, 'len(vars) == len(resList) is checked just before the loop over vars')
    if file.endswith('rt_statements.go') and kind == 'mapkey':
        return (INV, 'the key comes from ranging over the same map / is a string (hashable)')
    # ------------------------------------------------ rt_identifier
    if file.endswith('rt_identifier.go') and op == 'args[i]':
        return (GUARD, 'i ranges over args')
    # ------------------------------------------------ rt_value string interpolation
    if fn == '(*stringValueRuntime).Eval' and kind == 'slice':
        return (OTHER, 'C14: interp_total (indices come from strings.Index on the same string)')
    # ------------------------------------------------ varsscope
    if file.endswith('varsscope.go'):
        if kind in ('index', 'slice') and re.search(r'cFields|fields|strings\.Split', op):
            return (INV, 'strings.Split returns at least one element; fields is a non-empty suffix of cFields (recursion only with len(fields) > 1 resp. > 2)')
        if kind == 'mapkey' and 'mapFieldKey(' in op:
            return (INV, 'mapFieldKey returns float64(index) or the string field itself: both hashable')
        if kind == 'mapkey':
            return (INV, 'string / float64 keys are hashable')
    # ------------------------------------------------ engine
    if file.endswith('rule.go'):
        if kind == 'mapkey' and 'isHashable(value)' in g:
            return (OTHER, 'C01: F04 repaired, the value is hashed only when it is hashable')
        if kind == 'mapkey' and op == 'rm.bitsValue[k]':
            return (INV, 'k ranges over the keys of the same map')
        if op == 'event.kind[level]':
            return (GUARD, 'the length test in the key dominates the access')
        if op.startswith('kindMatchLevel['):
            return (OTHER, 'C01: kindMatchLevel is a non-empty suffix of strings.Split (kind indexes recurse only when len > 1)')
        if op == 'ri.rules[i]':
            return (OTHER, 'C01: collection loop over the match bits (capacity finding F03)')
    if file.endswith('threadpool.go'):
        if kind == 'panic':
            return (INV, 'idleTask.Run never returns an error')
        return (GUARD, 'the length test in the key dominates the access (C09 owns the pool)')
    return None


def coq(s):
    return '"' + s + '"'


bad = []
out = []
for s in sorted(sites):
    r = classify(*[x.replace('""', '"') for x in s])
    if r is None:
        bad.append(s)
        continue
    key = '|'.join(s)
    if r[0] == 'L':
        out.append('  (%s, ByLemma _ %s)' % (coq(key), r[1]))
    else:
        out.append('  (%s, %s %s)' % (coq(key), r[0], coq(r[1].replace('"', '""'))))
print(';\n'.join(out))
if bad:
    for b in bad:
        print('UNCLASSIFIED: ' + ' | '.join(b), file=sys.stderr)
    sys.exit(1)
