// Command partialops writes coq/gen/PartialOps.v: the inventory of *partial* Go operations
// (operations that can panic at run time) in the source files anchored by property C06.
//
//	go run -tags verif ./partialops -repo /repo -out DIR
//
// Kinds of sites (go/ast + go/types; dependencies are read from the export data that
// `go list -export -deps` reports, so nothing outside the Go tool-chain is needed):
//
//	assert   x.(T) whose result is not received in the comma-ok form (not a type switch)
//	index    a[i] on a slice, array, string or pointer to array (constant index into an array excluded)
//	slice    a[i:j]
//	intdiv   x / y, x % y (and /=, %=) on integer operands whose divisor is not a non-zero constant
//	mapkey   m[k] where the key type of m is an interface type (hashing an unhashable dynamic value panics)
//	ifaceeq  x == y, x != y where both operands have type interface{} (uncomparable dynamic values panic)
//	assert-call   errorutil.Assert*(...) (panics when the condition does not hold)
//	panic    an explicit call of panic
//	check    (not a partial operation) a condition tested by a Validate method or by sinkDetailRuntime.Eval: a fact the
//	         discharge of an `index` site on AST children may rely on
//
// A site is identified by (file, enclosing function, kind, operation text, guards) — no line
// numbers.  `guards` are the conditions that dominate the operation syntactically (enclosing
// if/else/case/for conditions, left operands of && and ||, and the negated conditions of
// earlier `if c { ...; return }` statements of the enclosing blocks) *restricted to those
// that mention an operand of the operation*.  Moving code, renaming unrelated variables or
// adding unrelated checks leaves the key alone; removing or changing the check that makes
// the operation safe changes it, and so does a new partial operation.
package main

import (
	"bytes"
	"encoding/json"
	"flag"
	"fmt"
	"go/ast"
	"go/constant"
	"go/importer"
	"go/parser"
	"go/printer"
	"go/token"
	"go/types"
	"io"
	"os"
	"os/exec"
	"path/filepath"
	"regexp"
	"sort"
	"strings"
)

// files anchored by C06 (interpreter/rt_general.go holds the operator helpers named as a
// mechanism of the property)
var anchored = []string{
	"interpreter/rt_arithmetic.go",
	"interpreter/rt_boolean.go",
	"interpreter/rt_value.go",
	"interpreter/rt_statements.go",
	"interpreter/rt_identifier.go",
	"interpreter/rt_sink.go",
	"interpreter/rt_general.go",
	"interpreter/func_provider.go",
	"scope/varsscope.go",
	"engine/rule.go",
	"engine/pool/threadpool.go",
	"util/error.go",
}

type site struct {
	File, Func, Kind, Op string
	Guards               []string
}

func (s site) key() string {
	return s.File + "|" + s.Func + "|" + s.Kind + "|" + s.Op + "|" + strings.Join(s.Guards, " && ")
}

type listPkg struct {
	ImportPath string
	Dir        string
	GoFiles    []string
	Export     string
}

func fatal(a ...interface{}) {
	fmt.Fprintln(os.Stderr, append([]interface{}{"partialops:"}, a...)...)
	os.Exit(1)
}

func main() {
	repo := flag.String("repo", "/repo", "repository")
	out := flag.String("out", "", "output directory")
	flag.Parse()
	if *out == "" {
		fatal("missing -out")
	}
	dirs := map[string]bool{}
	for _, f := range anchored {
		dirs["./"+filepath.Dir(f)] = true
	}
	var args []string
	for d := range dirs {
		args = append(args, d)
	}
	sort.Strings(args)
	cmd := exec.Command("go", append([]string{"list", "-tags", "verif", "-export", "-deps", "-json=ImportPath,Dir,GoFiles,Export"}, args...)...)
	cmd.Dir = *repo
	cmd.Stderr = os.Stderr
	b, err := cmd.Output()
	if err != nil {
		fatal("go list failed:", err)
	}
	pkgs := map[string]*listPkg{}
	byDir := map[string]*listPkg{}
	dec := json.NewDecoder(bytes.NewReader(b))
	for {
		var p listPkg
		if err := dec.Decode(&p); err == io.EOF {
			break
		} else if err != nil {
			fatal(err)
		}
		pp := p
		pkgs[p.ImportPath] = &pp
		byDir[p.Dir] = &pp
	}
	fset := token.NewFileSet()
	imp := importer.ForCompiler(fset, "gc", func(path string) (io.ReadCloser, error) {
		p, ok := pkgs[path]
		if !ok || p.Export == "" {
			return nil, fmt.Errorf("no export data for %s", path)
		}
		return os.Open(p.Export)
	})

	var sites []site
	seen := map[string]bool{}
	for _, d := range args {
		abs, _ := filepath.Abs(filepath.Join(*repo, d))
		lp := byDir[abs]
		if lp == nil {
			fatal("package not listed:", abs)
		}
		var files []*ast.File
		names := map[*ast.File]string{}
		for _, gf := range lp.GoFiles {
			f, err := parser.ParseFile(fset, filepath.Join(lp.Dir, gf), nil, 0)
			if err != nil {
				fatal(err)
			}
			files = append(files, f)
			rel, _ := filepath.Rel(*repo, filepath.Join(lp.Dir, gf))
			names[f] = filepath.ToSlash(rel)
		}
		info := &types.Info{Types: map[ast.Expr]types.TypeAndValue{}, Uses: map[*ast.Ident]types.Object{}}
		conf := types.Config{Importer: imp, Error: func(err error) {}}
		if _, err := conf.Check(lp.ImportPath, fset, files, info); err != nil {
			fatal("type check of", lp.ImportPath, "failed:", err)
		}
		for _, f := range files {
			isAnch := false
			for _, a := range anchored {
				if a == names[f] {
					isAnch = true
				}
			}
			if !isAnch {
				continue
			}
			for _, s := range scanFile(fset, info, f, names[f]) {
				if !seen[s.key()] {
					seen[s.key()] = true
					sites = append(sites, s)
				}
			}
		}
	}
	sort.Slice(sites, func(i, j int) bool { return sites[i].key() < sites[j].key() })
	if err := os.MkdirAll(*out, 0o755); err != nil {
		fatal(err)
	}
	if err := os.WriteFile(filepath.Join(*out, "PartialOps.v"), []byte(render(sites)), 0o644); err != nil {
		fatal(err)
	}
}

func coqStr(s string) string {
	var sb strings.Builder
	sb.WriteString("\"")
	for _, r := range s {
		switch {
		case r == '"':
			sb.WriteString("\"\"")
		case r == '\n' || r == '\t':
			sb.WriteString(" ")
		case r < 32 || r > 126:
			sb.WriteString("?")
		default:
			sb.WriteRune(r)
		}
	}
	sb.WriteString("\"")
	return sb.String()
}

func render(sites []site) string {
	var sb strings.Builder
	sb.WriteString("(* GENERATED by /verif/translator/partialops from the current source of /repo — do not edit.\n")
	sb.WriteString("   Inventory of partial Go operations in the files anchored by C06; see the generator for\n")
	sb.WriteString("   the meaning of the fields.  A site is (file, function, kind, operation, guards). *)\n")
	sb.WriteString("From Coq Require Import String List.\nImport ListNotations.\nOpen Scope string_scope.\n\n")
	sb.WriteString("Record psite := mkSite { ps_file : string; ps_func : string; ps_kind : string; ps_op : string; ps_guards : string }.\n\n")
	sb.WriteString("Definition partial_ops : list psite := [\n")
	for i, s := range sites {
		if i > 0 {
			sb.WriteString(";\n")
		}
		fmt.Fprintf(&sb, "  mkSite %s %s %s %s %s", coqStr(s.File), coqStr(s.Func), coqStr(s.Kind), coqStr(s.Op), coqStr(strings.Join(s.Guards, " && ")))
	}
	sb.WriteString("\n].\n")
	return sb.String()
}

// ------------------------------------------------------------------------------------

func text(fset *token.FileSet, n ast.Node) string {
	var buf bytes.Buffer
	printer.Fprint(&buf, fset, n)
	s := buf.String()
	s = regexp.MustCompile(`\s+`).ReplaceAllString(s, " ")
	return s
}

type scanner struct {
	fset  *token.FileSet
	info  *types.Info
	file  string
	fn    string
	stack []ast.Node
	sites []site

	curIdents map[string]bool // identifiers of the operation whose guards are being collected
}

func scanFile(fset *token.FileSet, info *types.Info, f *ast.File, name string) []site {
	sc := &scanner{fset: fset, info: info, file: name}
	for _, d := range f.Decls {
		switch fd := d.(type) {
		case *ast.FuncDecl:
			sc.fn = fd.Name.Name
			if fd.Recv != nil && len(fd.Recv.List) == 1 {
				sc.fn = "(" + text(fset, fd.Recv.List[0].Type) + ")." + fd.Name.Name
			}
			if fd.Body != nil {
				sc.stack = nil
				sc.walk(fd.Body)
				if fd.Name.Name == "Validate" || sc.fn == "(*sinkDetailRuntime).Eval" {
					// the checks a Validate method performs are facts other sites rely on
					ast.Inspect(fd.Body, func(x ast.Node) bool {
						if is, ok := x.(*ast.IfStmt); ok {
							op := text(fset, is.Cond)
							if is.Init != nil {
								op = text(fset, is.Init) + "; " + op
							}
							sc.sites = append(sc.sites, site{File: name, Func: sc.fn, Kind: "check", Op: op})
						}
						return true
					})
				}
			}
		case *ast.GenDecl:
			sc.fn = "<package level>"
			sc.stack = nil
			sc.walk(fd)
		}
	}
	return sc.sites
}

func (sc *scanner) walk(n ast.Node) {
	ast.Inspect(n, func(x ast.Node) bool {
		if x == nil {
			sc.stack = sc.stack[:len(sc.stack)-1]
			return true
		}
		sc.visit(x)
		sc.stack = append(sc.stack, x)
		return true
	})
}

func (sc *scanner) typeOf(e ast.Expr) types.Type {
	if tv, ok := sc.info.Types[e]; ok && tv.Type != nil {
		return tv.Type
	}
	return nil
}

func isEmptyInterface(t types.Type) bool {
	if t == nil {
		return false
	}
	it, ok := t.Underlying().(*types.Interface)
	return ok && it.NumMethods() == 0
}

func isInteger(t types.Type) bool {
	if t == nil {
		return false
	}
	b, ok := t.Underlying().(*types.Basic)
	return ok && b.Info()&types.IsInteger != 0
}

func (sc *scanner) nonZeroConst(e ast.Expr) bool {
	tv, ok := sc.info.Types[e]
	if !ok || tv.Value == nil {
		return false
	}
	return constant.Sign(tv.Value) != 0
}

func (sc *scanner) parent() ast.Node {
	if len(sc.stack) == 0 {
		return nil
	}
	return sc.stack[len(sc.stack)-1]
}

func (sc *scanner) visit(x ast.Node) {
	switch e := x.(type) {
	case *ast.TypeAssertExpr:
		if e.Type == nil {
			return // type switch
		}
		// comma-ok forms: v, ok := x.(T) / v, ok = x.(T) / var v, ok = x.(T)
		switch p := sc.parent().(type) {
		case *ast.AssignStmt:
			if len(p.Lhs) == 2 && len(p.Rhs) == 1 && p.Rhs[0] == ast.Expr(e) {
				return
			}
		case *ast.ValueSpec:
			if len(p.Names) == 2 && len(p.Values) == 1 && p.Values[0] == ast.Expr(e) {
				return
			}
		}
		sc.add("assert", e, []ast.Expr{e.X})
	case *ast.IndexExpr:
		tv, ok := sc.info.Types[e.X]
		if !ok || !tv.IsValue() {
			return // generic instantiation or a type
		}
		switch t := tv.Type.Underlying().(type) {
		case *types.Map:
			// only a key whose *static* type is an interface can hold an unhashable value
			if _, isIface := t.Key().Underlying().(*types.Interface); isIface {
				if itv, ok := sc.info.Types[e.Index]; ok && itv.Value == nil && itv.Type != nil {
					if _, keyIface := itv.Type.Underlying().(*types.Interface); keyIface {
						sc.add("mapkey", e, []ast.Expr{e.Index})
					}
				}
			}
		case *types.Slice, *types.Basic:
			sc.add("index", e, []ast.Expr{e.X, e.Index})
		case *types.Array:
			if itv, ok := sc.info.Types[e.Index]; ok && itv.Value != nil {
				return
			}
			sc.add("index", e, []ast.Expr{e.X, e.Index})
		case *types.Pointer:
			sc.add("index", e, []ast.Expr{e.X, e.Index})
		}
	case *ast.SliceExpr:
		ops := []ast.Expr{e.X}
		for _, b := range []ast.Expr{e.Low, e.High, e.Max} {
			if b != nil {
				ops = append(ops, b)
			}
		}
		if e.Low == nil && e.High == nil {
			return // a[:] cannot fail
		}
		sc.add("slice", e, ops)
	case *ast.BinaryExpr:
		switch e.Op {
		case token.QUO, token.REM:
			if isInteger(sc.typeOf(e)) && !sc.nonZeroConst(e.Y) {
				sc.add("intdiv", e, []ast.Expr{e.Y})
			}
		case token.EQL, token.NEQ:
			if isEmptyInterface(sc.typeOf(e.X)) && isEmptyInterface(sc.typeOf(e.Y)) {
				sc.add("ifaceeq", e, []ast.Expr{e.X, e.Y})
			}
		}
	case *ast.AssignStmt:
		if (e.Tok == token.QUO_ASSIGN || e.Tok == token.REM_ASSIGN) && len(e.Lhs) == 1 && len(e.Rhs) == 1 {
			if isInteger(sc.typeOf(e.Lhs[0])) && !sc.nonZeroConst(e.Rhs[0]) {
				sc.add("intdiv", e, []ast.Expr{e.Rhs[0]})
			}
		}
	case *ast.CallExpr:
		if sel, ok := e.Fun.(*ast.SelectorExpr); ok {
			if id, ok := sel.X.(*ast.Ident); ok && id.Name == "errorutil" && strings.HasPrefix(sel.Sel.Name, "Assert") {
				// the message argument is irrelevant for the identity of the site
				var ops []ast.Expr
				if len(e.Args) > 0 {
					ops = append(ops, e.Args[0])
				}
				sc.addText("assert-call", "errorutil."+sel.Sel.Name+"("+argText(sc.fset, e.Args)+")", x, ops)
			}
		}
		if id, ok := e.Fun.(*ast.Ident); ok && id.Name == "panic" {
			if _, isBuiltin := sc.info.Uses[id].(*types.Builtin); isBuiltin {
				sc.addText("panic", "panic(...)", x, nil)
			}
		}
	}
}

func argText(fset *token.FileSet, args []ast.Expr) string {
	if len(args) == 0 {
		return ""
	}
	return text(fset, args[0])
}

func (sc *scanner) add(kind string, n ast.Node, operands []ast.Expr) {
	sc.addText(kind, text(sc.fset, n), n, operands)
}

var trivial = map[string]bool{"nil": true, "true": true, "false": true, "len": true, "cap": true, "int": true,
	"int64": true, "uint": true, "uint64": true, "float64": true, "string": true, "bool": true, "error": true,
	"interface": true, "map": true, "_": true, "fmt": true, "append": true}

// relevance words of an operation: the printed text of every operand that is not a plain
// constant, and every identifier occurring in an operand.
func (sc *scanner) words(operands []ast.Expr) (idents map[string]bool, texts []string) {
	idents = map[string]bool{}
	for _, o := range operands {
		if tv, ok := sc.info.Types[o]; ok && tv.Value != nil {
			continue
		}
		if _, isIdent := o.(*ast.Ident); !isIdent {
			texts = append(texts, text(sc.fset, o))
		}
		ast.Inspect(o, func(x ast.Node) bool {
			switch v := x.(type) {
			case *ast.SelectorExpr:
				// rt.node.Children: the receiver alone is too weak a link; the whole
				// selector text is matched instead
				return false
			case *ast.Ident:
				if !trivial[v.Name] {
					idents[v.Name] = true
				}
			}
			return true
		})
	}
	return
}

func mentions(guard string, idents map[string]bool, texts []string) bool {
	for _, t := range texts {
		if strings.Contains(guard, t) {
			return true
		}
	}
	for id := range idents {
		if regexp.MustCompile(`(^|[^A-Za-z0-9_.])` + regexp.QuoteMeta(id) + `($|[^A-Za-z0-9_])`).MatchString(guard) {
			return true
		}
	}
	return false
}

func terminates(b *ast.BlockStmt) bool {
	if b == nil || len(b.List) == 0 {
		return false
	}
	switch s := b.List[len(b.List)-1].(type) {
	case *ast.ReturnStmt:
		return true
	case *ast.BranchStmt:
		return s.Tok == token.BREAK || s.Tok == token.CONTINUE || s.Tok == token.GOTO
	case *ast.ExprStmt:
		if c, ok := s.X.(*ast.CallExpr); ok {
			if id, ok := c.Fun.(*ast.Ident); ok && id.Name == "panic" {
				return true
			}
		}
	}
	return false
}

// ifText renders the condition of an if statement; the init statement is part of the guard
// only when it mentions one of the identifiers the operation uses (v, ok := x.(T); ok /
// err = check(x); err != nil).
func (sc *scanner) ifText(s *ast.IfStmt) string {
	c := text(sc.fset, s.Cond)
	if s.Init != nil {
		it := text(sc.fset, s.Init)
		if mentions(it, sc.curIdents, nil) {
			return it + "; " + c
		}
	}
	return c
}

// guards collects the syntactically dominating conditions of node n (innermost last).
func (sc *scanner) guards(n ast.Node) []string {
	var res []string
	path := append(append([]ast.Node{}, sc.stack...), n)
	for i := 0; i+1 < len(path); i++ {
		anc, child := path[i], path[i+1]
		switch a := anc.(type) {
		case *ast.FuncLit:
			_ = a
		case *ast.IfStmt:
			if child == ast.Node(a.Body) {
				res = append(res, sc.ifText(a))
			} else if a.Else != nil && child == ast.Node(a.Else) {
				res = append(res, "!("+sc.ifText(a)+")")
			}
		case *ast.ForStmt:
			if a.Cond != nil && (child == ast.Node(a.Body) || (a.Post != nil && child == ast.Node(a.Post))) {
				res = append(res, "for "+text(sc.fset, a.Cond))
			}
		case *ast.RangeStmt:
			if child == ast.Node(a.Body) {
				res = append(res, "range "+text(sc.fset, a.X))
			}
		case *ast.CaseClause:
			if i > 1 {
				tag := ""
				if sw, ok := path[i-2].(*ast.SwitchStmt); ok && sw.Tag != nil {
					tag = text(sc.fset, sw.Tag)
				}
				if tsw, ok := path[i-2].(*ast.TypeSwitchStmt); ok {
					tag = text(sc.fset, tsw.Assign)
				}
				var cs []string
				for _, e := range a.List {
					cs = append(cs, text(sc.fset, e))
				}
				isBody := true
				for _, e := range a.List {
					if child == ast.Node(e) {
						isBody = false
					}
				}
				if isBody {
					res = append(res, "case "+tag+": "+strings.Join(cs, ", "))
				}
			}
		case *ast.BinaryExpr:
			if child == ast.Node(a.Y) {
				if a.Op == token.LAND {
					res = append(res, text(sc.fset, a.X))
				} else if a.Op == token.LOR {
					res = append(res, "!("+text(sc.fset, a.X)+")")
				}
			}
		case *ast.BlockStmt:
			res = append(res, sc.earlyExits(a.List, child)...)
		}
		if cc, ok := anc.(*ast.CaseClause); ok {
			res = append(res, sc.earlyExits(cc.Body, child)...)
		}
	}
	return res
}

func (sc *scanner) earlyExits(list []ast.Stmt, child ast.Node) []string {
	var res []string
	for _, st := range list {
		if ast.Node(st) == child {
			break
		}
		if is, ok := st.(*ast.IfStmt); ok && is.Else == nil && terminates(is.Body) {
			res = append(res, "!("+sc.ifText(is)+")")
		}
	}
	return res
}

func (sc *scanner) addText(kind, op string, n ast.Node, operands []ast.Expr) {
	idents, texts := sc.words(operands)
	sc.curIdents = idents
	var gs []string
	seen := map[string]bool{}
	for _, g := range sc.guards(n) {
		if mentions(g, idents, texts) && !seen[g] {
			seen[g] = true
			gs = append(gs, g)
		}
	}
	fn := sc.fn
	for _, a := range sc.stack {
		if _, ok := a.(*ast.FuncLit); ok {
			fn += "/func"
		}
	}
	sc.sites = append(sc.sites, site{File: sc.file, Func: fn, Kind: kind, Op: op, Guards: gs})
}
