// Command providers writes coq/gen/Providers.v: the DISPATCH TABLES of the tree-walking
// interpreter, taken from /repo's current source, for the table-fact lemmas of
// coq/Proofs/InterpTables.v (property C06: does Model/Interp.v dispatch on what the code
// dispatches on?).
//
//	go run -tags verif ./providers -repo /repo -out DIR
//
// Source scan (go/ast over the non-test files of <repo>/interpreter; no hook in /repo, the
// tables are unexported):
//
//	provider_map              providerMap: node kind (the VALUE of the parser.NodeX constant, resolved
//	                          through <repo>/parser/const.go) -> name of the runtime constructor
//	provider_map_consts       the same keyed by the NAME of the constant ("NodePLUS")
//	provider_default          the constructor ECALRuntimeProvider.Runtime falls back to for a kind
//	                          that is not a key of providerMap
//	provider_map_other_writes every other place of the package that assigns to / deletes from /
//	                          replaces providerMap ("file|function|statement"); expected empty
//	inbuild_funcs_src         keys of the InbuildFuncMap literal
//	inbuild_other_writes      other writes to InbuildFuncMap inside /repo's non-test code
//
// Linked dump (a throw-away main package in a temporary module whose go.mod replaces
// github.com/krotik/ecal by the ABSOLUTE -repo directory, so a scratch worktree is honoured):
//
//	inbuild_funcs             sorted keys of interpreter.InbuildFuncMap as linked (init-time
//	                          registrations included)
//	inbuild_func_types        name -> Go type of the function object (fmt %T)
//	stdlib_packages           stdlib.GetStdlibSymbols: package names
//	stdlib_consts / stdlib_funcs   "pkg.name" symbols
//
// Everything is sorted by key and keyed by names: reordering the map literals, renaming
// local variables, moving the declarations to another file of the package or reformatting
// does not change the output.  The generator FAILS (exit 1) rather than guesses when a key
// is not a `parser.NodeX` constant / string literal or a table cannot be found.
package main

import (
	"bytes"
	"encoding/json"
	"flag"
	"fmt"
	"go/ast"
	"go/parser"
	"go/printer"
	"go/token"
	"os"
	"os/exec"
	"path/filepath"
	"sort"
	"strconv"
	"strings"
)

func fatal(f string, a ...interface{}) {
	fmt.Fprintf(os.Stderr, "providers: "+f+"\n", a...)
	os.Exit(1)
}

type pair struct{ K, V string }

func sortPairs(l []pair) {
	sort.Slice(l, func(i, j int) bool {
		if l[i].K != l[j].K {
			return l[i].K < l[j].K
		}
		return l[i].V < l[j].V
	})
}

var fset = token.NewFileSet()

func text(n ast.Node) string {
	var b bytes.Buffer
	printer.Fprint(&b, fset, n)
	return strings.Join(strings.Fields(b.String()), " ")
}

// parseDir parses the non-test Go files of a directory (all build tags).
func parseDir(dir string) map[string]*ast.File {
	ents, err := os.ReadDir(dir)
	if err != nil {
		fatal("%v", err)
	}
	res := map[string]*ast.File{}
	for _, e := range ents {
		n := e.Name()
		if e.IsDir() || !strings.HasSuffix(n, ".go") || strings.HasSuffix(n, "_test.go") {
			continue
		}
		f, err := parser.ParseFile(fset, filepath.Join(dir, n), nil, 0)
		if err != nil {
			fatal("%v", err)
		}
		res[n] = f
	}
	return res
}

// stringConsts: the string constants of a package directory, name -> value.
func stringConsts(dir string) map[string]string {
	res := map[string]string{}
	for _, f := range parseDir(dir) {
		for _, d := range f.Decls {
			gd, ok := d.(*ast.GenDecl)
			if !ok || gd.Tok != token.CONST {
				continue
			}
			for _, s := range gd.Specs {
				vs := s.(*ast.ValueSpec)
				for i, n := range vs.Names {
					if i < len(vs.Values) {
						if bl, ok := vs.Values[i].(*ast.BasicLit); ok && bl.Kind == token.STRING {
							if v, err := strconv.Unquote(bl.Value); err == nil {
								res[n.Name] = v
							}
						}
					}
				}
			}
		}
	}
	return res
}

// findMapLiteral: the composite literal a package-level `var name = map[..]..{..}` is initialised with.
func findMapLiteral(files map[string]*ast.File, name string) *ast.CompositeLit {
	var found *ast.CompositeLit
	for fn, f := range files {
		for _, d := range f.Decls {
			gd, ok := d.(*ast.GenDecl)
			if !ok || gd.Tok != token.VAR {
				continue
			}
			for _, s := range gd.Specs {
				vs := s.(*ast.ValueSpec)
				for i, n := range vs.Names {
					if n.Name != name {
						continue
					}
					if i >= len(vs.Values) {
						fatal("%s: %s is declared without a literal", fn, name)
					}
					cl, ok := vs.Values[i].(*ast.CompositeLit)
					if !ok {
						fatal("%s: %s is not initialised with a composite literal: %s", fn, name, text(vs.Values[i]))
					}
					if _, ok := cl.Type.(*ast.MapType); !ok {
						fatal("%s: %s is not a map literal", fn, name)
					}
					if found != nil {
						fatal("%s declared twice", name)
					}
					found = cl
				}
			}
		}
	}
	if found == nil {
		fatal("package-level variable %s not found", name)
	}
	return found
}

func rootIdent(e ast.Expr) string {
	for {
		switch x := e.(type) {
		case *ast.Ident:
			return x.Name
		case *ast.IndexExpr:
			e = x.X
		case *ast.ParenExpr:
			e = x.X
		case *ast.StarExpr:
			e = x.X
		case *ast.SelectorExpr:
			// pkg.Name (qualified use from another package)
			return x.Sel.Name
		default:
			return ""
		}
	}
}

// otherWrites: statements that change the named package-level map after its declaration.
// qualified = true: the map is used from another package as pkg.Name.
func otherWrites(rel string, files map[string]*ast.File, name string, qualified bool) []string {
	var res []string
	is := func(e ast.Expr) bool {
		if qualified {
			switch x := e.(type) {
			case *ast.IndexExpr:
				if s, ok := x.X.(*ast.SelectorExpr); ok {
					return s.Sel.Name == name
				}
			case *ast.SelectorExpr:
				return x.Sel.Name == name
			}
			return false
		}
		switch x := e.(type) {
		case *ast.IndexExpr:
			id, ok := x.X.(*ast.Ident)
			return ok && id.Name == name
		case *ast.Ident:
			return x.Name == name
		}
		return false
	}
	for fn, f := range files {
		for _, d := range f.Decls {
			fd, ok := d.(*ast.FuncDecl)
			if !ok || fd.Body == nil {
				continue
			}
			fname := fd.Name.Name
			if fd.Recv != nil && len(fd.Recv.List) == 1 {
				fname = "(" + text(fd.Recv.List[0].Type) + ")." + fname
			}
			ast.Inspect(fd.Body, func(n ast.Node) bool {
				switch x := n.(type) {
				case *ast.AssignStmt:
					if x.Tok == token.DEFINE {
						return true
					}
					for _, l := range x.Lhs {
						if is(l) {
							res = append(res, rel+"/"+fn+"|"+fname+"|"+text(x))
						}
					}
				case *ast.IncDecStmt:
					if is(x.X) {
						res = append(res, rel+"/"+fn+"|"+fname+"|"+text(x))
					}
				case *ast.CallExpr:
					if id, ok := x.Fun.(*ast.Ident); ok && (id.Name == "delete" || id.Name == "clear") && len(x.Args) > 0 && is(x.Args[0]) {
						res = append(res, rel+"/"+fn+"|"+fname+"|"+text(x))
					}
				}
				return true
			})
		}
	}
	sort.Strings(res)
	return res
}

// valueName: how a map value is named in the table.
func constructorName(e ast.Expr) string {
	switch x := e.(type) {
	case *ast.Ident:
		return x.Name
	case *ast.SelectorExpr:
		return text(x)
	case *ast.FuncLit:
		return "<function literal>"
	}
	return "<" + text(e) + ">"
}

func literalType(e ast.Expr) string {
	switch x := e.(type) {
	case *ast.UnaryExpr:
		if x.Op == token.AND {
			if cl, ok := x.X.(*ast.CompositeLit); ok && cl.Type != nil {
				return "*" + text(cl.Type)
			}
		}
	case *ast.CompositeLit:
		if x.Type != nil {
			return text(x.Type)
		}
	}
	return "<" + text(e) + ">"
}

// defaultConstructor: `return F(erp, node)` as the last statement of (*ECALRuntimeProvider).Runtime.
func defaultConstructor(files map[string]*ast.File) string {
	for _, f := range files {
		for _, d := range f.Decls {
			fd, ok := d.(*ast.FuncDecl)
			if !ok || fd.Name.Name != "Runtime" || fd.Recv == nil || fd.Body == nil || len(fd.Recv.List) != 1 {
				continue
			}
			if !strings.HasSuffix(text(fd.Recv.List[0].Type), "ECALRuntimeProvider") {
				continue
			}
			// the method must consult providerMap and end in a return of a constructor call
			uses := false
			ast.Inspect(fd.Body, func(n ast.Node) bool {
				if ix, ok := n.(*ast.IndexExpr); ok && rootIdent(ix.X) == "providerMap" {
					uses = true
				}
				return true
			})
			if !uses || len(fd.Body.List) == 0 {
				return "<Runtime does not consult providerMap>"
			}
			if rs, ok := fd.Body.List[len(fd.Body.List)-1].(*ast.ReturnStmt); ok && len(rs.Results) == 1 {
				if ce, ok := rs.Results[0].(*ast.CallExpr); ok {
					return constructorName(ce.Fun)
				}
				return "<" + text(rs.Results[0]) + ">"
			}
			return "<no final return>"
		}
	}
	fatal("(*ECALRuntimeProvider).Runtime not found")
	return ""
}

type linked struct {
	Inbuild      map[string]string
	StdlibPkgs   []string
	StdlibConsts []string
	StdlibFuncs  []string
}

const stage2Src = `package main

import (
	"encoding/json"
	"fmt"
	"os"

	"github.com/krotik/ecal/interpreter"
	"github.com/krotik/ecal/stdlib"
)

func main() {
	in := map[string]string{}
	for k, v := range interpreter.InbuildFuncMap {
		in[k] = fmt.Sprintf("%T", v)
	}
	pkgs, consts, funcs := stdlib.GetStdlibSymbols()
	json.NewEncoder(os.Stdout).Encode(map[string]interface{}{
		"Inbuild": in, "StdlibPkgs": pkgs, "StdlibConsts": consts, "StdlibFuncs": funcs,
	})
}
`

func setenvDefault(env []string, k, v string) []string {
	for _, e := range env {
		if strings.HasPrefix(e, k+"=") {
			return env
		}
	}
	return append(env, k+"="+v)
}

// linkedDump builds and runs the dump program against the package AS LINKED from repo.
func linkedDump(repo string) linked {
	abs, err := filepath.Abs(repo)
	if err != nil {
		fatal("%v", err)
	}
	dir, err := os.MkdirTemp("", "verif-providers-")
	if err != nil {
		fatal("%v", err)
	}
	defer os.RemoveAll(dir)
	// the requirements of /repo's own go.mod (versions of its dependencies), replace to the tree
	mod := "module verifproviders\n\ngo 1.23\n\nrequire github.com/krotik/ecal v0.0.0\n\nreplace github.com/krotik/ecal => " + abs + "\n"
	if err := os.WriteFile(filepath.Join(dir, "go.mod"), []byte(mod), 0o644); err != nil {
		fatal("%v", err)
	}
	if b, err := os.ReadFile(filepath.Join(abs, "go.sum")); err == nil {
		os.WriteFile(filepath.Join(dir, "go.sum"), b, 0o644)
	}
	if err := os.WriteFile(filepath.Join(dir, "main.go"), []byte(stage2Src), 0o644); err != nil {
		fatal("%v", err)
	}
	cmd := exec.Command("go", "run", "-tags", "verif", ".")
	cmd.Dir = dir
	env := os.Environ()
	env = setenvDefault(env, "GOFLAGS", "-mod=mod")
	env = setenvDefault(env, "GOPROXY", "off")
	env = setenvDefault(env, "GOSUMDB", "off")
	env = setenvDefault(env, "GOTOOLCHAIN", "local")
	cmd.Env = env
	var stderr bytes.Buffer
	cmd.Stderr = &stderr
	out, err := cmd.Output()
	if err != nil {
		fatal("linked dump failed: %v\n%s", err, stderr.String())
	}
	var l linked
	if err := json.Unmarshal(out, &l); err != nil {
		fatal("linked dump: %v", err)
	}
	return l
}

func coqString(s string) string {
	for i := 0; i < len(s); i++ {
		if s[i] < 32 || s[i] > 126 {
			fatal("non-printable byte in table string %q", s)
		}
	}
	return "\"" + strings.ReplaceAll(s, "\"", "\"\"") + "\""
}

func renderPairs(sb *strings.Builder, name, comment string, l []pair) {
	fmt.Fprintf(sb, "(* %s *)\nDefinition %s : list (string * string) := [", comment, name)
	for i, p := range l {
		sep := ";"
		if i == len(l)-1 {
			sep = ""
		}
		fmt.Fprintf(sb, "\n  (%s, %s)%s", coqString(p.K), coqString(p.V), sep)
	}
	sb.WriteString("\n].\n\n")
}

func renderStrings(sb *strings.Builder, name, comment string, l []string) {
	fmt.Fprintf(sb, "(* %s *)\nDefinition %s : list string := [", comment, name)
	for i, s := range l {
		sep := ";"
		if i == len(l)-1 {
			sep = ""
		}
		fmt.Fprintf(sb, "\n  %s%s", coqString(s), sep)
	}
	if len(l) > 0 {
		sb.WriteString("\n")
	}
	sb.WriteString("].\n\n")
}

func main() {
	repo := flag.String("repo", "/repo", "repository")
	out := flag.String("out", "", "output directory for Providers.v")
	flag.Parse()
	if *out == "" {
		fatal("missing -out")
	}
	consts := stringConsts(filepath.Join(*repo, "parser"))
	files := parseDir(filepath.Join(*repo, "interpreter"))

	// ---- providerMap
	pm := findMapLiteral(files, "providerMap")
	var byValue, byConst []pair
	seen := map[string]bool{}
	for _, el := range pm.Elts {
		kv, ok := el.(*ast.KeyValueExpr)
		if !ok {
			fatal("providerMap: element without a key: %s", text(el))
		}
		var cname, kind string
		switch k := kv.Key.(type) {
		case *ast.SelectorExpr:
			if id, ok := k.X.(*ast.Ident); !ok || id.Name != "parser" {
				fatal("providerMap: key %s is not a constant of package parser", text(k))
			}
			v, ok := consts[k.Sel.Name]
			if !ok {
				fatal("providerMap: key %s is not a string constant of %s/parser", text(k), *repo)
			}
			cname, kind = k.Sel.Name, v
		case *ast.BasicLit:
			v, err := strconv.Unquote(k.Value)
			if k.Kind != token.STRING || err != nil {
				fatal("providerMap: key %s is not a string", text(k))
			}
			cname, kind = "<literal>", v
		default:
			fatal("providerMap: key %s is neither parser.NodeX nor a string literal", text(kv.Key))
		}
		if seen[kind] {
			fatal("providerMap: node kind %q twice", kind)
		}
		seen[kind] = true
		c := constructorName(kv.Value)
		byValue = append(byValue, pair{kind, c})
		byConst = append(byConst, pair{cname, c})
	}
	sortPairs(byValue)
	sortPairs(byConst)
	pmWrites := otherWrites("interpreter", files, "providerMap", false)
	def := defaultConstructor(files)

	// ---- InbuildFuncMap
	im := findMapLiteral(files, "InbuildFuncMap")
	var srcKeys []string
	var srcTypes []pair
	for _, el := range im.Elts {
		kv, ok := el.(*ast.KeyValueExpr)
		if !ok {
			fatal("InbuildFuncMap: element without a key: %s", text(el))
		}
		bl, ok := kv.Key.(*ast.BasicLit)
		if !ok || bl.Kind != token.STRING {
			fatal("InbuildFuncMap: key %s is not a string literal", text(kv.Key))
		}
		k, err := strconv.Unquote(bl.Value)
		if err != nil {
			fatal("InbuildFuncMap: %v", err)
		}
		srcKeys = append(srcKeys, k)
		srcTypes = append(srcTypes, pair{k, literalType(kv.Value)})
	}
	sort.Strings(srcKeys)
	sortPairs(srcTypes)
	imWrites := otherWrites("interpreter", files, "InbuildFuncMap", false)
	// writes from the other packages of /repo (cli, stdlib, engine, ...), non-test code
	filepath.Walk(*repo, func(p string, info os.FileInfo, err error) error {
		if err != nil || !info.IsDir() {
			return nil
		}
		base := filepath.Base(p)
		if p != *repo && (strings.HasPrefix(base, ".") || base == "testdata" || base == "vendor") {
			return filepath.SkipDir
		}
		rel, _ := filepath.Rel(*repo, p)
		if rel == "interpreter" {
			return nil
		}
		imWrites = append(imWrites, otherWrites(filepath.ToSlash(rel), parseDir(p), "InbuildFuncMap", true)...)
		return nil
	})
	sort.Strings(imWrites)

	// ---- as linked
	l := linkedDump(*repo)
	var lk []string
	var lt []pair
	for k, v := range l.Inbuild {
		lk = append(lk, k)
		lt = append(lt, pair{k, v})
	}
	sort.Strings(lk)
	sortPairs(lt)
	sort.Strings(l.StdlibPkgs)
	sort.Strings(l.StdlibConsts)
	sort.Strings(l.StdlibFuncs)

	var sb strings.Builder
	sb.WriteString("(* GENERATED by /verif/translator/providers from the current source of /repo — do not edit.\n" +
		"   Dispatch tables of the interpreter (interpreter/provider.go, interpreter/func_provider.go,\n" +
		"   stdlib); see the generator for how each table is obtained.  All tables are sorted by key. *)\n" +
		"From Coq Require Import String List.\nImport ListNotations.\nOpen Scope string_scope.\n\n")
	renderPairs(&sb, "provider_map", "providerMap: node kind (value of the parser.NodeX constant) -> runtime constructor", byValue)
	renderPairs(&sb, "provider_map_consts", "providerMap keyed by the name of the parser constant", byConst)
	fmt.Fprintf(&sb, "(* the constructor the method ECALRuntimeProvider.Runtime uses for a kind that is no key of providerMap *)\nDefinition provider_default : string := %s.\n\n", coqString(def))
	renderStrings(&sb, "provider_map_other_writes", "statements of package interpreter (non-test) that change providerMap after its declaration", pmWrites)
	renderStrings(&sb, "inbuild_funcs", "interpreter.InbuildFuncMap as linked: sorted keys", lk)
	renderPairs(&sb, "inbuild_func_types", "interpreter.InbuildFuncMap as linked: name -> Go type of the function object", lt)
	renderStrings(&sb, "inbuild_funcs_src", "keys of the InbuildFuncMap literal in the source", srcKeys)
	renderPairs(&sb, "inbuild_func_types_src", "InbuildFuncMap literal: name -> type of the literal value", srcTypes)
	renderStrings(&sb, "inbuild_other_writes", "statements of /repo (non-test) that change InbuildFuncMap after its declaration", imWrites)
	renderStrings(&sb, "stdlib_packages", "stdlib.GetStdlibSymbols: package names", l.StdlibPkgs)
	renderStrings(&sb, "stdlib_consts", "stdlib.GetStdlibSymbols: constants", l.StdlibConsts)
	renderStrings(&sb, "stdlib_funcs", "stdlib.GetStdlibSymbols: functions", l.StdlibFuncs)

	if err := os.MkdirAll(*out, 0o755); err != nil {
		fatal("%v", err)
	}
	if err := os.WriteFile(filepath.Join(*out, "Providers.v"), []byte(sb.String()), 0o644); err != nil {
		fatal("%v", err)
	}
}
