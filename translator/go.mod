module veriftranslator

go 1.23

require github.com/krotik/ecal v0.0.0

require github.com/krotik/common v1.4.4

replace github.com/krotik/ecal => /repo
