// Command sinkclosure is the static tie of property C11.
//
// It parses interpreter/rt_sink.go of the repository under check (go/ast only, no type
// information needed), finds every function literal that becomes the Action of an
// engine.Rule (`x.Action = func(...) {...}` or `engine.Rule{..., Action: func(...) {...}}`)
// and lists the variables that the literal WRITES although they are DECLARED OUTSIDE of it:
//
//   - `x = ...`, `x op= ...`, `x++ / x--`, `a, x = ...` (every left-hand side), `for x = range`,
//   - `x, y := ...` only for the names the statement does not define (Go re-uses a name of the
//     same scope; such a name is necessarily local to the literal and is not listed),
//   - stores through a root variable: `x[i] = ...`, `x.f = ...`, `*x = ...`, `delete(x, k)`,
//     `&x` (address taken: the variable may be written elsewhere),
//
// where the root identifier resolves to a declaration outside the literal: a local, parameter,
// named result or receiver of an enclosing function (`rt.field = ...` is listed as "rt.field"),
// a package-level variable of the file, or a name the file does not declare at all (a
// package-level variable of another file of the package).
//
// Output: <out>/SinkClosure.v with `captured_writes : list string` (sorted, without
// duplicates).  Obligation C11_no_captured_writes: captured_writes = [].
//
// The command fails (exit 1) when no Action literal is found: the rule action is then built
// in a way this scan does not understand and the obligation cannot be established.
package main

import (
	"flag"
	"fmt"
	"go/ast"
	"go/parser"
	"go/token"
	"os"
	"path/filepath"
	"sort"
	"strings"
)

func fatal(msg string) {
	fmt.Fprintln(os.Stderr, "sinkclosure:", msg)
	os.Exit(1)
}

// universe: predeclared identifiers never count as captured variables.
var universe = map[string]bool{"nil": true, "true": true, "false": true, "iota": true, "_": true}

type scan struct {
	fset *token.FileSet
	lit  *ast.FuncLit
	// identifiers that are defining occurrences of a `:=` / range-define inside the literal
	found map[string]int
}

func (s *scan) inside(p token.Pos) bool { return p >= s.lit.Pos() && p < s.lit.End() }

// root returns the root identifier of an assignable expression and the text under which a
// write through it is listed.
func root(e ast.Expr) (*ast.Ident, string) {
	switch x := e.(type) {
	case *ast.Ident:
		return x, x.Name
	case *ast.ParenExpr:
		return root(x.X)
	case *ast.StarExpr:
		id, n := root(x.X)
		return id, n
	case *ast.IndexExpr:
		id, n := root(x.X)
		return id, n
	case *ast.SliceExpr:
		id, n := root(x.X)
		return id, n
	case *ast.SelectorExpr:
		id, n := root(x.X)
		if id == nil {
			return nil, ""
		}
		if _, direct := x.X.(*ast.Ident); direct {
			return id, n + "." + x.Sel.Name
		}
		return id, n
	case *ast.TypeAssertExpr:
		return root(x.X)
	}
	return nil, ""
}

// write records a write to the variable behind e if it is declared outside the literal.
func (s *scan) write(e ast.Expr) {
	id, name := root(e)
	if id == nil || universe[id.Name] {
		return
	}
	if id.Obj != nil {
		if id.Obj.Kind != ast.Var {
			return
		}
		if s.inside(id.Obj.Pos()) {
			return // declared inside the literal: per invocation
		}
	}
	// id.Obj == nil: not declared in this file -> package-level variable of another file
	s.found[name]++
}

func (s *scan) run() {
	ast.Inspect(s.lit.Body, func(n ast.Node) bool {
		switch x := n.(type) {
		case *ast.AssignStmt:
			for _, l := range x.Lhs {
				if x.Tok == token.DEFINE {
					// a defining occurrence resolves to this very statement
					if id, ok := l.(*ast.Ident); ok && id.Obj != nil && id.Obj.Decl == x {
						continue
					}
				}
				s.write(l)
			}
		case *ast.IncDecStmt:
			s.write(x.X)
		case *ast.RangeStmt:
			if x.Tok == token.ASSIGN {
				if x.Key != nil {
					s.write(x.Key)
				}
				if x.Value != nil {
					s.write(x.Value)
				}
			}
		case *ast.UnaryExpr:
			if x.Op == token.AND {
				if _, isLit := x.X.(*ast.CompositeLit); !isLit {
					s.write(x.X)
				}
			}
		case *ast.CallExpr:
			if f, ok := x.Fun.(*ast.Ident); ok && f.Obj == nil && f.Name == "delete" && len(x.Args) > 0 {
				s.write(x.Args[0])
			}
		}
		return true
	})
}

// actionLiterals finds the function literals that become a rule's Action.
func actionLiterals(f *ast.File) []*ast.FuncLit {
	var res []*ast.FuncLit
	ast.Inspect(f, func(n ast.Node) bool {
		switch x := n.(type) {
		case *ast.AssignStmt:
			for i, l := range x.Lhs {
				sel, ok := l.(*ast.SelectorExpr)
				if !ok || sel.Sel.Name != "Action" || i >= len(x.Rhs) {
					continue
				}
				if lit, ok := x.Rhs[i].(*ast.FuncLit); ok {
					res = append(res, lit)
				} else {
					fatal(fmt.Sprintf("%v: the rule Action is not assigned a function literal; the closure scan cannot follow it", x.Pos()))
				}
			}
		case *ast.CompositeLit:
			isRule := false
			switch t := x.Type.(type) {
			case *ast.SelectorExpr:
				isRule = t.Sel.Name == "Rule"
			case *ast.Ident:
				isRule = t.Name == "Rule"
			}
			if !isRule {
				return true
			}
			for _, el := range x.Elts {
				kv, ok := el.(*ast.KeyValueExpr)
				if !ok {
					continue
				}
				if k, ok := kv.Key.(*ast.Ident); ok && k.Name == "Action" {
					if lit, ok := kv.Value.(*ast.FuncLit); ok {
						res = append(res, lit)
					} else {
						fatal(fmt.Sprintf("%v: the rule Action is not a function literal; the closure scan cannot follow it", kv.Pos()))
					}
				}
			}
		}
		return true
	})
	return res
}

func coqString(s string) string {
	return "\"" + strings.ReplaceAll(s, "\"", "\"\"") + "\""
}

func main() {
	repo := flag.String("repo", "/repo", "repository")
	out := flag.String("out", "", "output directory for SinkClosure.v")
	show := flag.Bool("print", false, "print the captured writes (one per line) instead of writing a file")
	flag.Parse()
	file := filepath.Join(*repo, "interpreter", "rt_sink.go")
	fset := token.NewFileSet()
	f, err := parser.ParseFile(fset, file, nil, 0) // object resolution ON (needed for Ident.Obj)
	if err != nil {
		fatal(err.Error())
	}
	lits := actionLiterals(f)
	if len(lits) == 0 {
		fatal("no function literal is assigned to a rule's Action in " + file)
	}
	found := map[string]int{}
	for _, lit := range lits {
		s := &scan{fset: fset, lit: lit, found: found}
		s.run()
	}
	names := make([]string, 0, len(found))
	for n := range found {
		names = append(names, n)
	}
	sort.Strings(names)
	if *show {
		for _, n := range names {
			fmt.Println(n)
		}
		return
	}
	if *out == "" {
		fatal("missing -out")
	}
	var sb strings.Builder
	sb.WriteString("(* gen/SinkClosure.v -- GENERATED by translator/sinkclosure from interpreter/rt_sink.go; do not edit.\n")
	sb.WriteString("   Variables written inside the function literal that becomes engine.Rule.Action although they are\n")
	sb.WriteString("   declared outside of it (shared by all invocations of the sink). *)\n")
	sb.WriteString("From Coq Require Import String List.\nImport ListNotations.\nOpen Scope string_scope.\n\n")
	fmt.Fprintf(&sb, "Definition action_literals : nat := %d.\n\n", len(lits))
	q := make([]string, len(names))
	for i, n := range names {
		q[i] = coqString(n)
	}
	fmt.Fprintf(&sb, "Definition captured_writes : list string := [%s].\n", strings.Join(q, "; "))
	if err := os.MkdirAll(*out, 0o755); err != nil {
		fatal(err.Error())
	}
	if err := os.WriteFile(filepath.Join(*out, "SinkClosure.v"), []byte(sb.String()), 0o644); err != nil {
		fatal(err.Error())
	}
}
