// Command sharedwrites is the static scan behind property C13 ("no package-level state is
// written after init" in parser/ and interpreter/).  It emits <out>/SharedWrites.v.
//
//	go run ./sharedwrites -repo /repo -out DIR [-pkgs parser,interpreter]
//
// WHAT IS SCANNED.  Every non-test .go file of the packages that the default build
// configuration (this GOOS/GOARCH, no `verif` tag) compiles.  Files that are only compiled
// with the `verif` tag are verification hooks and are skipped; a file excluded for any other
// reason (other OS, other tag) is listed in `unscanned_files` (obligation: empty), so that a
// write cannot hide behind a build constraint.  The packages are type-checked (go/types,
// imports from source), so "package-level variable" is decided by the type checker, not by
// spelling: shadowing locals, struct fields and methods of the same name are not confused.
//
// WHAT COUNTS AS A WRITE (one entry of `shared_writes` each).  The ROOT operand of an
// expression is found by stripping parentheses, index, slice, field selection and pointer
// dereference (x[i], x[i:j], x.f, *x, (x)); `pkg.V` is the variable V of package pkg.  If the
// root is a package-level variable (of this or of any other package) these statements are
// writes to shared state:
//
//	assign   x = v, x.f = v, x[k] = v, *x = v and every op-assignment (+=, |=, ...); this covers
//	         map-index stores and append-to-self (x = append(x, v))
//	incdec   x++, x--
//	delete   delete(x, k); clear(x)
//	append   append(x, v...) whose result goes anywhere else: append may write into the
//	         shared backing array
//	copy     copy(x, src)
//	range    for x[k] = range ..., for x = range ...   (assignment form)
//	atomic   sync/atomic calls that modify (Add*, Store*, Swap*, CompareAndSwap*, And*, Or*) with &x as
//	         first argument, and the modifying methods of the sync/atomic types called on x
//	addr     &x (or &x.f, &x[i]) anywhere else: the address of shared state escapes
//	         (json.Unmarshal(b, &x), p := &x; *p = ...)
//	alias    the same statements rooted at a LOCAL variable of pointer, map or slice type that
//	         was bound in the same function directly from an expression rooted at a
//	         package-level variable (p := table[k]; p.f = v  /  for _, p := range table { p.f = v }),
//	         with at least one dereference step between the local and the written location
//
// WHAT DOES NOT COUNT.  `:=` (it always declares function-local variables); writes to fields
// of objects reached through parameters, receivers or results of calls (local objects, or
// aliasing that is not visible in the function - see LIMITS); method calls on package-level
// values (loggers, sync.Mutex, regexp objects, ...) other than the sync/atomic types;
// statements that are executed directly by a function `init()` or by a package-level
// variable initialiser (they run before any parse can).  Function literals are separate
// functions: a literal inside init() or inside an initialiser is scanned (it may run later).
//
// PROTECTED.  A write is flagged protected when (a) it is a sync/atomic operation (guard
// "atomic"), or (b) it lies, inside one function body (function literals are bodies of their
// own and inherit nothing), lexically after a statement `X.Lock()` that is a direct statement
// of a block enclosing the write, with no statement in between that contains `X.Unlock()`
// (a `defer X.Unlock()` does not end the region), where Lock is the method of sync.Mutex or
// sync.RWMutex as resolved by the type checker (RLock does not protect a write).  The guard
// is the printed mutex expression.  `guards_consistent` (Spec/ReentrantSpec.v) additionally
// demands that all accesses of one variable use the same guard.
//
// READS.  `shared_reads` lists every read of a package-level variable that (1) is of map type
// (map reads are safe only if nobody writes) or (2) is written somewhere in `shared_writes`;
// with the same protected/guard information (RLock counts for reads; atomic Load counts).
//
// LIMITS (trusted base of C13): aliasing through parameters, receivers, struct fields and
// call results is not tracked (a method that mutates its receiver, called on a shared
// prototype); unsafe and reflection are not interpreted; cgo is not scanned.  The dynamic
// tie (forced interleaving, concurrent streams, race detector) is the cross-check.
//
// Sites are keyed by package + function + statement text, never by line number.
package main

import (
	"bytes"
	"encoding/json"
	"flag"
	"fmt"
	"go/ast"
	"go/build"
	"go/importer"
	"go/parser"
	"go/printer"
	"go/token"
	"go/types"
	"io"
	"os"
	"os/exec"
	"path/filepath"
	"sort"
	"strings"
)

type site struct {
	Pkg, Func, Var, Kind, Text string
	Protected                  bool
	Guard                      string
	IsMap                      bool
}

func fatal(msg string) {
	fmt.Fprintln(os.Stderr, "sharedwrites:", msg)
	os.Exit(1)
}

func main() {
	repo := flag.String("repo", "/repo", "repository")
	out := flag.String("out", "", "output directory")
	pkgs := flag.String("pkgs", "parser,interpreter", "package directories, comma separated")
	jsonOut := flag.String("json", "", "also write the lists as JSON to this file")
	flag.Parse()
	if *out == "" {
		fatal("missing -out")
	}
	abs, err := filepath.Abs(*repo)
	if err != nil {
		fatal(err.Error())
	}
	var writes, reads []site
	var unscanned, scanned []string
	for _, p := range strings.Split(*pkgs, ",") {
		w, r, un, sc := scanPackage(abs, p)
		writes = append(writes, w...)
		reads = append(reads, r...)
		unscanned = append(unscanned, un...)
		scanned = append(scanned, sc...)
	}
	// reads: keep maps and variables that are written
	written := map[string]bool{}
	for _, w := range writes {
		written[w.Var] = true
	}
	var keep []site
	for _, r := range reads {
		if r.IsMap || written[r.Var] {
			keep = append(keep, r)
		}
	}
	sortSites(writes)
	sortSites(keep)
	if err := os.MkdirAll(*out, 0o755); err != nil {
		fatal(err.Error())
	}
	if err := os.WriteFile(filepath.Join(*out, "SharedWrites.v"), []byte(render(writes, keep, unscanned, scanned)), 0o644); err != nil {
		fatal(err.Error())
	}
	if *jsonOut != "" {
		// the same lists for the C13 harness (which scans the tree it actually tests)
		b, _ := json.MarshalIndent(map[string]interface{}{"writes": writes, "reads": keep, "unscanned": unscanned, "scanned": scanned}, "", " ")
		if err := os.WriteFile(*jsonOut, b, 0o644); err != nil {
			fatal(err.Error())
		}
	}
}

func sortSites(s []site) {
	sort.SliceStable(s, func(i, j int) bool {
		a, b := s[i], s[j]
		if a.Pkg != b.Pkg {
			return a.Pkg < b.Pkg
		}
		if a.Func != b.Func {
			return a.Func < b.Func
		}
		if a.Text != b.Text {
			return a.Text < b.Text
		}
		return a.Kind < b.Kind
	})
}

// ---------------------------------------------------------------------------------------

type scanner struct {
	fset   *token.FileSet
	info   *types.Info
	pkg    *types.Package
	dir    string
	writes []site
	reads  []site
}

func scanPackage(repo, dir string) (writes, reads []site, unscanned, scanned []string) {
	full := filepath.Join(repo, dir)
	entries, err := os.ReadDir(full)
	if err != nil {
		fatal(err.Error())
	}
	ctx := build.Default
	ctx.BuildTags = nil
	vctx := build.Default
	vctx.BuildTags = []string{"verif"}
	fset := token.NewFileSet()
	var files []*ast.File
	for _, e := range entries {
		n := e.Name()
		if e.IsDir() || !strings.HasSuffix(n, ".go") || strings.HasSuffix(n, "_test.go") {
			continue
		}
		ok, err := ctx.MatchFile(full, n)
		if err != nil {
			fatal(err.Error())
		}
		if !ok {
			vok, _ := vctx.MatchFile(full, n)
			if !vok {
				unscanned = append(unscanned, dir+"/"+n)
			}
			continue
		}
		f, err := parser.ParseFile(fset, filepath.Join(full, n), nil, parser.ParseComments)
		if err != nil {
			fatal(err.Error())
		}
		if len(f.Imports) > 0 {
			for _, im := range f.Imports {
				if im.Path.Value == "\"C\"" {
					unscanned = append(unscanned, dir+"/"+n+" (cgo)")
				}
			}
		}
		files = append(files, f)
		scanned = append(scanned, dir+"/"+n)
	}
	if len(files) == 0 {
		fatal("no files in " + full)
	}
	info := &types.Info{
		Types:      map[ast.Expr]types.TypeAndValue{},
		Defs:       map[*ast.Ident]types.Object{},
		Uses:       map[*ast.Ident]types.Object{},
		Selections: map[*ast.SelectorExpr]*types.Selection{},
	}
	var terrs []string
	conf := types.Config{Importer: exportImporter(fset, repo), Error: func(err error) { terrs = append(terrs, err.Error()) }}
	pkg, _ := conf.Check("github.com/krotik/ecal/"+dir, fset, files, info)
	if len(terrs) > 0 {
		fatal("type errors in " + dir + ": " + strings.Join(terrs[:min(len(terrs), 5)], "; "))
	}
	s := &scanner{fset: fset, info: info, pkg: pkg, dir: dir}
	for _, f := range files {
		for _, d := range f.Decls {
			switch d := d.(type) {
			case *ast.FuncDecl:
				if d.Body == nil {
					continue
				}
				name := d.Name.Name
				if d.Recv != nil && len(d.Recv.List) > 0 {
					name = recvName(d.Recv.List[0].Type) + "." + name
				}
				isInit := d.Recv == nil && d.Name.Name == "init"
				s.scanBody(name, d.Body, isInit)
			case *ast.GenDecl:
				if d.Tok != token.VAR {
					continue
				}
				for _, sp := range d.Specs {
					vs := sp.(*ast.ValueSpec)
					vname := "_"
					if len(vs.Names) > 0 {
						vname = vs.Names[0].Name
					}
					for _, v := range vs.Values {
						// the initialiser itself runs at init time; function literals in it may run later
						s.scanLits("var "+vname, v)
					}
				}
			}
		}
	}
	return s.writes, s.reads, unscanned, scanned
}

// exportImporter resolves imports through compiler export data: one `go list -export -deps`
// in the translator module, whose replace directive is redirected to the scanned repository
// by a temporary -modfile (nothing is ever written into the repository).
var exportFiles map[string]string

func exportImporter(fset *token.FileSet, repo string) types.Importer {
	if exportFiles == nil {
		exportFiles = map[string]string{}
		moddir := findModule()
		mod, err := os.ReadFile(filepath.Join(moddir, "go.mod"))
		if err != nil {
			fatal(err.Error())
		}
		tmp, err := os.MkdirTemp("", "sharedwrites")
		if err != nil {
			fatal(err.Error())
		}
		defer os.RemoveAll(tmp)
		modfile := filepath.Join(tmp, "scan.mod")
		os.WriteFile(modfile, []byte(strings.ReplaceAll(string(mod), "=> /repo", "=> "+repo)), 0o644)
		if sum, err := os.ReadFile(filepath.Join(repo, "go.sum")); err == nil {
			os.WriteFile(filepath.Join(tmp, "scan.sum"), sum, 0o644)
		}
		cmd := exec.Command("go", "list", "-modfile="+modfile, "-export", "-deps", "-f", "{{.ImportPath}}={{.Export}}",
			"github.com/krotik/ecal/parser", "github.com/krotik/ecal/interpreter")
		cmd.Dir = moddir
		cmd.Env = append(os.Environ(), "GOFLAGS=-mod=mod", "GOPROXY=off", "GOSUMDB=off", "GOTOOLCHAIN=local")
		var stderr bytes.Buffer
		cmd.Stderr = &stderr
		b, err := cmd.Output()
		if err != nil {
			fatal("go list -export failed: " + err.Error() + "\n" + stderr.String())
		}
		for _, line := range strings.Split(string(b), "\n") {
			if i := strings.Index(line, "="); i > 0 && i+1 < len(line) {
				exportFiles[line[:i]] = line[i+1:]
			}
		}
	}
	return importer.ForCompiler(fset, "gc", func(path string) (io.ReadCloser, error) {
		f, ok := exportFiles[path]
		if !ok {
			return nil, fmt.Errorf("no export data for %s", path)
		}
		return os.Open(f)
	})
}

// findModule locates the translator module (go.mod with `module veriftranslator`) from the
// working directory upwards, or below it.
func findModule() string {
	wd, _ := os.Getwd()
	for d := wd; ; d = filepath.Dir(d) {
		for _, c := range []string{d, filepath.Join(d, "translator")} {
			if b, err := os.ReadFile(filepath.Join(c, "go.mod")); err == nil && strings.Contains(string(b), "module veriftranslator") {
				return c
			}
		}
		if d == filepath.Dir(d) {
			break
		}
	}
	fatal("cannot find the veriftranslator module from " + wd)
	return ""
}

func recvName(e ast.Expr) string {
	switch t := e.(type) {
	case *ast.StarExpr:
		return recvName(t.X)
	case *ast.Ident:
		return t.Name
	case *ast.IndexExpr:
		return recvName(t.X)
	case *ast.IndexListExpr:
		return recvName(t.X)
	}
	return "?"
}

// scanLits scans the function literals below n as functions of their own.
func (s *scanner) scanLits(prefix string, n ast.Node) {
	k := 0
	ast.Inspect(n, func(x ast.Node) bool {
		if fl, ok := x.(*ast.FuncLit); ok {
			k++
			s.scanBody(fmt.Sprintf("%s.func%d", prefix, k), fl.Body, false)
			return false
		}
		return true
	})
}

func (s *scanner) text(n ast.Node) string {
	var b bytes.Buffer
	printer.Fprint(&b, s.fset, n)
	t := strings.Join(strings.Fields(b.String()), " ")
	if len(t) > 160 {
		t = t[:157] + "..."
	}
	return t
}

// pkgVar reports whether id denotes a package-level variable and returns its qualified name.
func (s *scanner) pkgVar(id *ast.Ident) (string, *types.Var, bool) {
	obj := s.info.Uses[id]
	if obj == nil {
		obj = s.info.Defs[id]
	}
	v, ok := obj.(*types.Var)
	if !ok || v.IsField() || v.Pkg() == nil {
		return "", nil, false
	}
	if v.Parent() != v.Pkg().Scope() {
		return "", nil, false
	}
	return v.Pkg().Path() + "." + v.Name(), v, true
}

// root strips index / slice / selector / star / paren; returns the root identifier and the
// number of dereference-like steps.
func (s *scanner) root(e ast.Expr) (*ast.Ident, int) {
	steps := 0
	for {
		switch t := e.(type) {
		case *ast.ParenExpr:
			e = t.X
		case *ast.IndexExpr:
			e = t.X
			steps++
		case *ast.SliceExpr:
			e = t.X
			steps++
		case *ast.StarExpr:
			e = t.X
			steps++
		case *ast.SelectorExpr:
			// pkg.V ?
			if id, ok := t.X.(*ast.Ident); ok {
				if _, isPkg := s.info.Uses[id].(*types.PkgName); isPkg {
					return t.Sel, steps
				}
			}
			if sel, ok := s.info.Selections[t]; ok && sel.Kind() != types.FieldVal {
				return nil, 0 // method value
			}
			e = t.X
			steps++
		case *ast.Ident:
			return t, steps
		default:
			return nil, 0
		}
	}
}

func isRefType(t types.Type) bool {
	if t == nil {
		return false
	}
	switch t.Underlying().(type) {
	case *types.Pointer, *types.Map, *types.Slice:
		return true
	}
	return false
}

func isMapType(t types.Type) bool {
	if t == nil {
		return false
	}
	_, ok := t.Underlying().(*types.Map)
	return ok
}

type lockEvent struct {
	guard string
	write bool // Lock (true) / RLock (false)
}

// mutexCall recognises X.Lock() / X.RLock() / X.Unlock() / X.RUnlock() of sync.Mutex / sync.RWMutex.
func (s *scanner) mutexCall(e ast.Expr) (guard, method string, ok bool) {
	call, isCall := e.(*ast.CallExpr)
	if !isCall {
		return
	}
	sel, isSel := call.Fun.(*ast.SelectorExpr)
	if !isSel {
		return
	}
	selection, has := s.info.Selections[sel]
	if !has {
		return
	}
	f, isF := selection.Obj().(*types.Func)
	if !isF {
		return
	}
	switch f.FullName() {
	case "(*sync.Mutex).Lock", "(*sync.RWMutex).Lock":
		return s.text(sel.X), "Lock", true
	case "(*sync.RWMutex).RLock":
		return s.text(sel.X), "RLock", true
	case "(*sync.Mutex).Unlock", "(*sync.RWMutex).Unlock":
		return s.text(sel.X), "Unlock", true
	case "(*sync.RWMutex).RUnlock":
		return s.text(sel.X), "RUnlock", true
	}
	return
}

// guardFor finds the lock protecting a node given the chain of enclosing (block statements, index).
type frame struct {
	list []ast.Stmt
	idx  int
}

func (s *scanner) guardFor(chain []frame, forWrite bool) (string, bool) {
	for i := len(chain) - 1; i >= 0; i-- {
		fr := chain[i]
		unlocked := map[string]bool{}
		runlocked := map[string]bool{}
		for j := fr.idx - 1; j >= 0; j-- {
			st := fr.list[j]
			if es, ok := st.(*ast.ExprStmt); ok {
				if g, m, ok := s.mutexCall(es.X); ok {
					switch m {
					case "Lock":
						if !unlocked[g] {
							return g, true
						}
					case "RLock":
						if !forWrite && !runlocked[g] {
							return g, true
						}
					case "Unlock":
						unlocked[g] = true
					case "RUnlock":
						runlocked[g] = true
					}
					continue
				}
			}
			// a statement that contains an unlock somewhere ends every region of that guard
			ast.Inspect(st, func(n ast.Node) bool {
				switch t := n.(type) {
				case *ast.FuncLit, *ast.DeferStmt:
					return false
				case *ast.CallExpr:
					if g, m, ok := s.mutexCall(t); ok {
						if m == "Unlock" {
							unlocked[g] = true
						} else if m == "RUnlock" {
							runlocked[g] = true
						}
					}
				}
				return true
			})
		}
	}
	return "", false
}

func atomicKind(name string) string {
	switch {
	case strings.HasPrefix(name, "Load"):
		return "read"
	case strings.HasPrefix(name, "Add"), strings.HasPrefix(name, "Store"), strings.HasPrefix(name, "Swap"),
		strings.HasPrefix(name, "CompareAndSwap"), strings.HasPrefix(name, "And"), strings.HasPrefix(name, "Or"):
		return "write"
	}
	return ""
}

// scanBody scans one function body.  skipDirect: statements executed directly by the body are
// init-time (function init); only the function literals inside are scanned.
func (s *scanner) scanBody(fname string, body *ast.BlockStmt, skipDirect bool) {
	if skipDirect {
		s.scanLits(fname, body)
		return
	}
	aliases := map[types.Object]string{} // local variable -> package-level variable it was bound from
	handled := map[ast.Node]bool{}       // nodes already classified (so that they are not read again)
	litN := 0

	record := func(kind string, stmt ast.Node, target ast.Expr, chain []frame, atomic bool) {
		id, steps := s.root(target)
		if id == nil {
			return
		}
		var vname string
		var isMap bool
		if q, v, ok := s.pkgVar(id); ok {
			vname = q
			isMap = isMapType(v.Type())
		} else if obj := s.info.Uses[id]; obj != nil && aliases[obj] != "" && steps > 0 {
			vname = aliases[obj]
			kind = "alias-" + kind
		} else {
			return
		}
		st := site{Pkg: s.dir, Func: fname, Var: vname, Kind: kind, Text: s.text(stmt), IsMap: isMap}
		if atomic {
			st.Protected, st.Guard = true, "atomic"
		} else if g, ok := s.guardFor(chain, true); ok {
			st.Protected, st.Guard = true, g
		}
		s.writes = append(s.writes, st)
		handled[id] = true
	}

	var walkStmts func(list []ast.Stmt, chain []frame)
	var walkNode func(n ast.Node, chain []frame)

	// expressions: builtin calls, atomics, &x, reads
	walkExpr := func(e ast.Node, stmt ast.Node, chain []frame) {
		if e == nil {
			return
		}
		ast.Inspect(e, func(n ast.Node) bool {
			switch t := n.(type) {
			case *ast.FuncLit:
				litN++
				s.scanBody(fmt.Sprintf("%s.func%d", fname, litN), t.Body, false)
				return false
			case *ast.CallExpr:
				// builtins
				if id, ok := t.Fun.(*ast.Ident); ok {
					if _, isB := s.info.Uses[id].(*types.Builtin); isB && len(t.Args) > 0 {
						switch id.Name {
						case "delete", "clear":
							record("delete", stmt, t.Args[0], chain, false)
						case "copy":
							record("copy", stmt, t.Args[0], chain, false)
						case "append":
							if len(t.Args) > 1 {
								// append-to-self is reported by the assignment; anything else here
								if as, ok := stmt.(*ast.AssignStmt); !(ok && len(as.Lhs) == 1 && len(as.Rhs) == 1 && as.Rhs[0] == ast.Expr(t) && s.text(as.Lhs[0]) == s.text(t.Args[0])) {
									record("append", stmt, t.Args[0], chain, false)
								}
							}
						}
					}
				}
				// sync/atomic functions and methods
				if sel, ok := t.Fun.(*ast.SelectorExpr); ok {
					if f, ok := s.info.Uses[sel.Sel].(*types.Func); ok && f.Pkg() != nil && f.Pkg().Path() == "sync/atomic" {
						k := atomicKind(f.Name())
						sig, _ := f.Type().(*types.Signature)
						if sig != nil && sig.Recv() == nil && len(t.Args) > 0 {
							if u, ok := t.Args[0].(*ast.UnaryExpr); ok && u.Op == token.AND {
								if k == "write" {
									record("atomic", stmt, u.X, chain, true)
								} else if k == "read" {
									if id, _ := s.root(u.X); id != nil {
										if q, v, ok := s.pkgVar(id); ok {
											s.reads = append(s.reads, site{Pkg: s.dir, Func: fname, Var: q, Kind: "atomic-load", Text: s.text(stmt), Protected: true, Guard: "atomic", IsMap: isMapType(v.Type())})
											handled[id] = true
										}
									}
								}
								handled[u] = true
							}
						} else if sig != nil && sig.Recv() != nil {
							if k == "write" {
								record("atomic", stmt, sel.X, chain, true)
							} else if k == "read" {
								if id, _ := s.root(sel.X); id != nil {
									if q, v, ok := s.pkgVar(id); ok {
										s.reads = append(s.reads, site{Pkg: s.dir, Func: fname, Var: q, Kind: "atomic-load", Text: s.text(stmt), Protected: true, Guard: "atomic", IsMap: isMapType(v.Type())})
										handled[id] = true
									}
								}
							}
						}
					}
				}
			case *ast.UnaryExpr:
				if t.Op == token.AND && !handled[t] {
					if _, isLit := t.X.(*ast.CompositeLit); !isLit {
						record("addr", stmt, t.X, chain, false)
					}
				}
			case *ast.Ident:
				if handled[t] {
					return true
				}
				if q, v, ok := s.pkgVar(t); ok {
					r := site{Pkg: s.dir, Func: fname, Var: q, Kind: "read", Text: s.text(stmt), IsMap: isMapType(v.Type())}
					if g, ok := s.guardFor(chain, false); ok {
						r.Protected, r.Guard = true, g
					}
					s.reads = append(s.reads, r)
				}
			}
			return true
		})
	}

	bindAlias := func(lhs ast.Expr, rhs ast.Expr) {
		id, ok := lhs.(*ast.Ident)
		if !ok || id.Name == "_" {
			return
		}
		obj := s.info.Defs[id]
		if obj == nil {
			obj = s.info.Uses[id]
		}
		if obj == nil || !isRefType(obj.Type()) {
			return
		}
		if _, _, isPkg := s.pkgVar(id); isPkg {
			return
		}
		if u, ok := rhs.(*ast.UnaryExpr); ok && u.Op == token.AND {
			rhs = u.X
		}
		rid, _ := s.root(rhs)
		if rid == nil {
			return
		}
		if q, _, ok := s.pkgVar(rid); ok {
			aliases[obj] = q
		} else if o := s.info.Uses[rid]; o != nil && aliases[o] != "" {
			aliases[obj] = aliases[o]
		}
	}

	walkNode = func(n ast.Node, chain []frame) {
		switch t := n.(type) {
		case nil:
		case *ast.BlockStmt:
			if t != nil {
				walkStmts(t.List, chain)
			}
		case *ast.AssignStmt:
			if t.Tok != token.DEFINE {
				for _, l := range t.Lhs {
					record("assign", t, l, chain, false)
					// index / pointer sub-expressions of the target are reads
					switch lt := l.(type) {
					case *ast.IndexExpr:
						walkExpr(lt.Index, t, chain)
					}
				}
			}
			for _, r := range t.Rhs {
				walkExpr(r, t, chain)
			}
			if len(t.Lhs) == len(t.Rhs) {
				for i := range t.Lhs {
					bindAlias(t.Lhs[i], t.Rhs[i])
				}
			} else if len(t.Rhs) == 1 {
				bindAlias(t.Lhs[0], t.Rhs[0]) // v, ok := m[k]
			}
			if t.Tok != token.DEFINE {
				for _, l := range t.Lhs {
					// reads inside the target of a compound target that is not itself shared
					if id, _ := s.root(l); id == nil || !handled[id] {
						walkExpr(l, t, chain)
					}
				}
			}
		case *ast.IncDecStmt:
			record("incdec", t, t.X, chain, false)
			if id, _ := s.root(t.X); id == nil || !handled[id] {
				walkExpr(t.X, t, chain)
			}
		case *ast.RangeStmt:
			hdr := &ast.RangeStmt{Key: t.Key, Value: t.Value, Tok: t.Tok, X: t.X, Body: &ast.BlockStmt{}}
			if t.Tok == token.ASSIGN {
				if t.Key != nil {
					record("range", hdr, t.Key, chain, false)
				}
				if t.Value != nil {
					record("range", hdr, t.Value, chain, false)
				}
			}
			walkExpr(t.X, hdr, chain)
			if t.Tok == token.DEFINE {
				if t.Value != nil {
					bindAlias(t.Value, t.X)
				}
				if t.Key != nil && isMapType(s.info.TypeOf(t.X)) {
					// keys of a shared map with pointer keys
					bindAlias(t.Key, t.X)
				}
			}
			walkNode(t.Body, chain)
		case *ast.ExprStmt:
			walkExpr(t.X, t, chain)
		case *ast.DeclStmt:
			if gd, ok := t.Decl.(*ast.GenDecl); ok {
				for _, sp := range gd.Specs {
					if vs, ok := sp.(*ast.ValueSpec); ok {
						for _, v := range vs.Values {
							walkExpr(v, t, chain)
						}
						if len(vs.Names) == len(vs.Values) {
							for i := range vs.Names {
								bindAlias(vs.Names[i], vs.Values[i])
							}
						}
					}
				}
			}
		case *ast.IfStmt:
			hdr := &ast.IfStmt{Cond: t.Cond, Body: &ast.BlockStmt{}}
			if t.Init != nil {
				walkStmts([]ast.Stmt{t.Init}, chain)
			}
			walkExpr(t.Cond, hdr, chain)
			walkNode(t.Body, chain)
			if t.Else != nil {
				walkNode(t.Else, chain)
			}
		case *ast.ForStmt:
			if t.Init != nil {
				walkStmts([]ast.Stmt{t.Init}, chain)
			}
			if t.Cond != nil {
				walkExpr(t.Cond, t.Cond, chain)
			}
			if t.Post != nil {
				walkStmts([]ast.Stmt{t.Post}, chain)
			}
			walkNode(t.Body, chain)
		case *ast.SwitchStmt:
			if t.Init != nil {
				walkStmts([]ast.Stmt{t.Init}, chain)
			}
			if t.Tag != nil {
				walkExpr(t.Tag, t.Tag, chain)
			}
			walkNode(t.Body, chain)
		case *ast.TypeSwitchStmt:
			if t.Init != nil {
				walkStmts([]ast.Stmt{t.Init}, chain)
			}
			walkStmts([]ast.Stmt{t.Assign}, chain)
			walkNode(t.Body, chain)
		case *ast.CaseClause:
			for _, e := range t.List {
				walkExpr(e, e, chain)
			}
			walkStmts(t.Body, chain)
		case *ast.SelectStmt:
			walkNode(t.Body, chain)
		case *ast.CommClause:
			if t.Comm != nil {
				walkStmts([]ast.Stmt{t.Comm}, chain)
			}
			walkStmts(t.Body, chain)
		case *ast.LabeledStmt:
			walkStmts([]ast.Stmt{t.Stmt}, chain)
		case *ast.GoStmt:
			walkExpr(t.Call, t, chain)
		case *ast.DeferStmt:
			walkExpr(t.Call, t, chain)
		case *ast.ReturnStmt:
			for _, r := range t.Results {
				walkExpr(r, t, chain)
			}
		case *ast.SendStmt:
			walkExpr(t.Chan, t, chain)
			walkExpr(t.Value, t, chain)
		case *ast.BranchStmt, *ast.EmptyStmt:
		default:
			if st, ok := n.(ast.Stmt); ok {
				walkExpr(st, st, chain)
			}
		}
	}

	walkStmts = func(list []ast.Stmt, chain []frame) {
		for i, st := range list {
			c := append(append([]frame{}, chain...), frame{list, i})
			walkNode(st, c)
		}
	}

	walkStmts(body.List, nil)
}

// ---------------------------------------------------------------------------------------

func coqString(s string) string {
	var b strings.Builder
	b.WriteByte('"')
	for i := 0; i < len(s); i++ {
		c := s[i]
		switch {
		case c == '"':
			b.WriteString("\"\"")
		case c < 32 || c > 126:
			b.WriteByte('?')
		default:
			b.WriteByte(c)
		}
	}
	b.WriteByte('"')
	return b.String()
}

func coqBool(b bool) string {
	if b {
		return "true"
	}
	return "false"
}

func render(writes, reads []site, unscanned, scanned []string) string {
	var sb strings.Builder
	sb.WriteString("(* GENERATED by /verif/translator/sharedwrites from /repo's current source - do not edit.\n")
	sb.WriteString("   Static scan for property C13: accesses of package-level variables in parser/ and\n")
	sb.WriteString("   interpreter/ outside init() and package-level initialisers.  What counts is documented\n")
	sb.WriteString("   in translator/sharedwrites/main.go. *)\n")
	sb.WriteString("From Coq Require Import List String Bool.\nImport ListNotations.\nLocal Open Scope string_scope.\n\n")
	sb.WriteString("Record shared_access := mkSA {\n  sa_pkg : string;        (* package directory *)\n  sa_func : string;       (* enclosing function; literals are <outer>.funcN *)\n  sa_var : string;        (* qualified package-level variable *)\n  sa_kind : string;       (* assign | incdec | delete | append | copy | range | atomic | addr | alias-* | read | atomic-load *)\n  sa_text : string;       (* the statement *)\n  sa_protected : bool;    (* under X.Lock() .. X.Unlock() of a sync mutex, or a sync/atomic operation *)\n  sa_guard : string;      (* the mutex expression, \"atomic\", or \"\" *)\n  sa_is_map : bool        (* the variable has map type *)\n}.\nDefinition shared_write := shared_access.\nDefinition shared_read := shared_access.\n\n")
	emit := func(name, ty string, l []site) {
		fmt.Fprintf(&sb, "Definition %s : list %s := [", name, ty)
		for i, w := range l {
			if i > 0 {
				sb.WriteString(";")
			}
			fmt.Fprintf(&sb, "\n  mkSA %s %s %s %s\n       %s\n       %s %s %s", coqString(w.Pkg), coqString(w.Func), coqString(w.Var), coqString(w.Kind),
				coqString(w.Text), coqBool(w.Protected), coqString(w.Guard), coqBool(w.IsMap))
		}
		if len(l) > 0 {
			sb.WriteString("\n")
		}
		sb.WriteString("].\n\n")
	}
	sb.WriteString("(* every statement that writes a package-level variable after init *)\n")
	emit("shared_writes", "shared_write", writes)
	sb.WriteString("Definition unprotected_writes : list shared_write :=\n  filter (fun w => negb (sa_protected w)) shared_writes.\n\n")
	sb.WriteString("(* reads of package-level maps and of every variable that shared_writes writes *)\n")
	emit("shared_reads", "shared_read", reads)
	strs := func(name string, l []string) {
		fmt.Fprintf(&sb, "Definition %s : list string := [", name)
		for i, u := range l {
			if i > 0 {
				sb.WriteString("; ")
			}
			sb.WriteString(coqString(u))
		}
		sb.WriteString("].\n\n")
	}
	sb.WriteString("(* files of the packages that no scanned build configuration compiles (other OS / tag), cgo files *)\n")
	strs("unscanned_files", unscanned)
	strs("scanned_files", scanned)
	return sb.String()
}
