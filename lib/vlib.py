"""Shared driver code for /verif/bin/check.

Flow of one check (DESIGN.md 2.3):
  1. regenerate coq/gen/*.v from /repo's current source (translators), write-if-changed
  2. `make` the Coq development (full .vo build); Props/Cxx.vo must build
  3. Print Assumptions for every theorem of Props/Cxx.v (fresh coqc run)
  4. build the Go harness against /repo (build tag verif) and run the property's
     sub-command: it executes the implementation, applies Spec oracles that need no
     model, and writes cases_*.v with the implementation's observations
  5. coqc every cases file: the Coq side evaluates model and Spec on each case and prints
     the list of (case id, verdict) that do not agree
  6. verdict, evidence, replay files
"""
import concurrent.futures
import fcntl
import glob
import hashlib
import json
import os
import re
import subprocess
import sys
import time

VERIF = os.path.dirname(os.path.dirname(os.path.abspath(__file__)))
REPO = os.environ.get("VERIF_REPO", "/repo")
COQ_MAIN = os.path.join(VERIF, "coq")
COQ = COQ_MAIN   # replaced below for a scratch worktree
ALT = os.path.abspath(REPO) != "/repo"   # a scratch worktree: separate work dir, no evidence, no gen
WORK = os.path.join(VERIF, ".work") if not ALT else os.path.join(VERIF, ".work", "alt-" + hashlib.sha1(os.path.abspath(REPO).encode()).hexdigest()[:8])
if ALT:
    # a private copy of the Coq development (sources and compiled files, timestamps kept), so
    # that tables regenerated from the scratch worktree do not disturb the main tree
    COQ = os.path.join(WORK, "coq")
GOENV = dict(os.environ, GOFLAGS="-mod=mod", GOPROXY="off", GOSUMDB="off", GOTOOLCHAIN="local",
             CGO_ENABLED=os.environ.get("CGO_ENABLED", "0"))

# vernacular that declares an axiom or switches a kernel check off: only when it starts a
# sentence (so a constructor or identifier called Parameter does not trip the gate);
# `admit`/`Admitted`/`give_up` anywhere
FORBIDDEN = re.compile(r"(?:(?:^|[.]\s)\s*(?:Local\s+|Global\s+|Polymorphic\s+|#\[[^\]]*\]\s*)*"
                       r"(Axiom|Axioms|Parameter|Parameters|Conjecture|Conjectures|Admit Obligations|"
                       r"Variable|Variables|Hypothesis|Hypotheses)\b)|"
                       r"\b(Admitted|admit|give_up)\b|Unset\s+Guard|Unset\s+Positivity|Unset\s+Universe|"
                       r"bypass_check|type-in-type|impredicative-set", re.M)


def log(*a):
    print(*a, file=sys.stderr, flush=True)


def run(cmd, cwd=None, env=None, timeout=1200, shell=False):
    """Run a command, return (rc, stdout+stderr)."""
    try:
        p = subprocess.run(cmd, cwd=cwd, env=env, timeout=timeout, shell=shell,
                           stdout=subprocess.PIPE, stderr=subprocess.STDOUT)
        return p.returncode, p.stdout.decode("utf-8", "replace")
    except subprocess.TimeoutExpired as e:
        out = (e.stdout or b"").decode("utf-8", "replace")
        return 124, out + "\n[timeout after %ss]" % timeout


class Lock:
    def __init__(self, name, main=False):
        base = os.path.join(VERIF, ".work") if main else WORK
        os.makedirs(base, exist_ok=True)
        self.path = os.path.join(base, name + ".lock")

    def __enter__(self):
        self.f = open(self.path, "w")
        fcntl.flock(self.f, fcntl.LOCK_EX)
        return self

    def __exit__(self, *a):
        fcntl.flock(self.f, fcntl.LOCK_UN)
        self.f.close()


def write_if_changed(path, content):
    try:
        if open(path).read() == content:
            return False
    except OSError:
        pass
    os.makedirs(os.path.dirname(path), exist_ok=True)
    tmp = path + ".tmp%d" % os.getpid()
    open(tmp, "w").write(content)
    os.replace(tmp, path)
    return True


# --------------------------------------------------------------------------- translators

def regenerate():
    """Run the translators against /repo; returns (ok, message, failed_generators).
    gen/*.v are rewritten only when their content changes so that make re-checks exactly
    what moved.  The core translator (translator/main.go: tokens, grammar, printer tables)
    and every extra generator (translator/<name>/main.go, its own main package taking
    -repo and -out) run separately, so a generator that fails only affects the properties
    that list it under "generators" in their propcfg."""
    tdir = os.path.join(VERIF, "translator")
    if not os.path.exists(os.path.join(tdir, "go.mod")):
        return True, "no translator", []
    if ALT:
        os.makedirs(COQ, exist_ok=True)
        with Lock("coq"), Lock("coq", main=True):
            run(["rsync", "-a", "--delete", "--exclude", "gen/*.v", "--exclude", "gen/*.vo", "--exclude", "gen/*.glob",
                 "--exclude", "gen/*.vos", "--exclude", "gen/*.vok", "--exclude", ".*.aux", "--exclude", "Makefile*",
                 "--exclude", ".Makefile.d", "--exclude", "_CoqProject", COQ_MAIN + "/", COQ + "/"])
    failed = []
    msgs = []
    with Lock("gen"):
        run(["cp", os.path.join(REPO, "go.sum"), os.path.join(tdir, "go.sum")])
        out_dir = os.path.join(WORK, "gen_new")
        os.makedirs(out_dir, exist_ok=True)
        for f in glob.glob(os.path.join(out_dir, "*.v")):
            os.remove(f)
        gens = [("core", ".")]
        for d in sorted(glob.glob(os.path.join(tdir, "*", "main.go"))):
            name = os.path.basename(os.path.dirname(d))
            if name != "stage2":
                gens.append((name, "./" + name))
        for name, pkg in gens:
            rc, out = run(["go", "run", "-tags", "verif", pkg, "-repo", REPO, "-out", out_dir], cwd=tdir, env=GOENV, timeout=600)
            if rc != 0:
                failed.append(name)
                msgs.append("generator %s failed:\n%s" % (name, out[-2000:]))
        for f in sorted(glob.glob(os.path.join(out_dir, "*.v"))):
            dst = os.path.join(COQ, "gen", os.path.basename(f))
            write_if_changed(dst, open(f).read())
            if ALT:
                # compiled files copied from the main tree were built against the main tree's
                # tables: force make to rebuild every table that differs and its dependents
                try:
                    same = open(os.path.join(COQ_MAIN, "gen", os.path.basename(f))).read() == open(dst).read()
                except OSError:
                    same = False
                if not same:
                    os.utime(dst, None)
    return "core" not in failed, "\n".join(msgs), failed


# --------------------------------------------------------------------------- coq build

def coq_files():
    res = []
    for d in ("Common", "gen", "Model", "Spec", "Proofs", "Props", "Run"):
        res += sorted(glob.glob(os.path.join(COQ, d, "*.v")))
    return [os.path.relpath(f, COQ) for f in res]


def ensure_makefile():
    files = coq_files()
    proj = "-Q . Ecal\n-arg -w -arg -notation-overridden,-deprecated-hint-without-locality,-deprecated-instance-without-locality,-deprecated-hint-rewrite-without-locality\n" + "\n".join(files) + "\n"
    changed = write_if_changed(os.path.join(COQ, "_CoqProject"), proj)
    if changed or not os.path.exists(os.path.join(COQ, "Makefile")):
        rc, out = run(["coq_makefile", "-f", "_CoqProject", "-o", "Makefile"], cwd=COQ)
        if rc != 0:
            raise RuntimeError("coq_makefile failed: " + out)


def strip_comments(txt):
    prev = None
    while prev != txt:
        prev = txt
        txt = re.sub(r"\(\*(?:(?!\(\*|\*\)).)*\*\)", " ", txt, flags=re.S)
    return txt


def closure_files(targets):
    """The .v files (relative to coq/) that the given .v files depend on, via coqdep."""
    ensure_makefile()
    rc, out = run(["coqdep", "-Q", ".", "Ecal"] + coq_files(), cwd=COQ, timeout=300)
    deps = {}
    for line in out.splitlines():
        if ":" not in line:
            continue
        lhs, rhs = line.split(":", 1)
        vos = [x for x in lhs.split() if x.endswith(".vo")]
        if not vos:
            continue
        deps[vos[0][:-1]] = [x[:-1] for x in rhs.split() if x.endswith(".vo")]
    seen = set()
    todo = list(targets)
    while todo:
        f = todo.pop()
        if f in seen:
            continue
        seen.add(f)
        todo += deps.get(f, [])
    return sorted(seen)


def source_gate(files):
    """No Admitted / admit / Axiom / Parameter / Variable outside a section / ... in the given
    files.  (Variable/Hypothesis are allowed inside a Section.)"""
    bad = []
    for f in files:
        try:
            txt = strip_comments(open(os.path.join(COQ, f)).read())
        except OSError:
            continue
        # blank out section bodies for the Variable/Hypothesis test
        depth = 0
        outside = []
        for sentence in re.split(r"(?<=[.])\s", txt):
            st = sentence.strip()
            if re.match(r"Section\s+\w+", st):
                depth += 1
            elif re.match(r"End\s+\w+", st) and depth > 0:
                depth -= 1
            outside.append((depth, st))
        for depth, st in outside:
            m = FORBIDDEN.search(st if st.endswith(".") else st + ".")
            if not m:
                continue
            word = m.group(1) or m.group(2) or m.group(0)
            if word in ("Variable", "Variables", "Hypothesis", "Hypotheses") and depth > 0:
                continue
            bad.append("%s: %s" % (f, word.strip()))
    return bad


def build_target(target, timeout=3000, lockname=None):
    """make the given .vo targets (and what they depend on). Returns (ok, log).
    Phase 1 under the global lock: the shared files (Common/, gen/) — normally a no-op.
    Phase 2 under a per-property lock: the targets themselves, so that a long proof of one
    property does not block the checks of the others."""
    with Lock("coq"):
        ensure_makefile()
        shared = [f + "o" for f in coq_files() if f.startswith("Common/") or f.startswith("gen/")]
        rc, out = run(["make", "-j8"] + shared, cwd=COQ, timeout=timeout)
        if rc != 0:
            return False, out
    with Lock("coq-" + (lockname or re.sub(r"\W+", "_", target)[:40])):
        rc, out = run(["make", "-j8"] + target.split(), cwd=COQ, timeout=timeout)
        return rc == 0, out


def prop_files(prop):
    """Props/Cxx.v plus the optional Props/Cxx_*.v (e.g. Cxx_history.v: refutations of the
    full statement for the code as it was before a repair)."""
    return [os.path.relpath(f, COQ) for f in sorted(glob.glob(os.path.join(COQ, "Props", prop + ".v")) +
                                                   glob.glob(os.path.join(COQ, "Props", prop + "_*.v")))]


def theorems_of(prop):
    res = []
    for f in prop_files(prop):
        txt = strip_comments(open(os.path.join(COQ, f)).read())
        res += re.findall(r"^\s*Theorem\s+(\w+)", txt, flags=re.M)
    return res


def print_assumptions(prop, thms, workdir):
    """Fresh coqc run printing the assumptions of each theorem; returns {thm: [axioms]}."""
    src = "".join("From Ecal Require Import %s.\n" % f[:-2].replace("/", ".") for f in prop_files(prop))
    for t in thms:
        src += 'Goal True. idtac "@@THM %s". exact I. Qed.\nPrint Assumptions %s.\n' % (t, t)
    src += 'Goal True. idtac "@@END". exact I. Qed.\n'
    p = os.path.join(workdir, "pa_%s.v" % prop)
    open(p, "w").write(src)
    rc, out = run(["coqc", "-Q", COQ, "Ecal", p], cwd=workdir, timeout=600)
    res = {}
    if rc != 0:
        return None, out
    cur = None
    for line in out.splitlines():
        m = re.match(r"@@THM (\w+)", line)
        if m:
            cur = m.group(1)
            res[cur] = []
            continue
        if line.startswith("@@END"):
            cur = None
            continue
        if cur is None:
            continue
        if "Closed under the global context" in line or line.strip() in ("", "Axioms:"):
            continue
        m = re.match(r"^(\S+)\s*:", line)
        if m:
            res[cur].append(m.group(1))
    return res, out


def coqchk(prop, timeout=2400):
    """Thorough tier: re-check the compiled closure of the property's Props files with the
    independent checker (coqchk -o prints the axioms of EVERYTHING loaded, incl. the standard
    library's primitive-float / primitive-integer declarations).  Returns (status, axioms, log):
    status in ok / failed / timeout."""
    mods = ["Ecal." + f[:-2].replace("/", ".") for f in prop_files(prop)]
    t0 = time.time()
    with Lock("coq-" + prop):
        rc, out = run(["coqchk", "-silent", "-o", "-Q", ".", "Ecal"] + mods, cwd=COQ, timeout=timeout)
    if rc == 124:
        return "timeout", [], out[-800:]
    if rc != 0:
        return "failed", [], out[-1500:]
    ax = []
    sect = None
    for line in out.splitlines():
        m = re.match(r"^\* (.*?):\s*(.*)$", line)
        if m:
            sect = m.group(1)
            if sect == "Axioms" and m.group(2).strip() not in ("", "<none>"):
                ax.append(m.group(2).strip())
            continue
        if sect == "Axioms" and line.strip():
            ax.append(line.strip())
    bad_sections = re.findall(r"^\* (Constants/Inductives relying on type-in-type|Constants/Inductives relying on unsafe \(co\)fixpoints|Inductives whose positivity is assumed): (?!<none>)(.*)$", out, flags=re.M)
    if bad_sections:
        return "failed", ax, "coqchk reports: " + "; ".join("%s: %s" % b for b in bad_sections)
    return "ok", ax, "%.0f s" % (time.time() - t0)


# --------------------------------------------------------------------------- harness

def harness_bin(prop):
    return os.path.join(WORK, "harness-%s.bin" % prop)


def build_harness(prop):
    """One binary per property: common files + the files tagged `//go:build cxx` of that property,
    so that a property file that does not compile (yet) cannot break the other checks."""
    hdir = os.path.join(VERIF, "harness")
    with Lock("harness"):
        run(["cp", os.path.join(REPO, "go.sum"), os.path.join(hdir, "go.sum")])
        cmd = ["go", "build", "-tags", "verif " + prop.lower(), "-o", harness_bin(prop)]
        if ALT:
            mod = open(os.path.join(hdir, "go.mod")).read().replace("=> /repo", "=> " + os.path.abspath(REPO))
            modfile = os.path.join(WORK, "harness.mod")
            open(modfile, "w").write(mod)
            run(["cp", os.path.join(REPO, "go.sum"), os.path.join(WORK, "harness.sum")])
            cmd.append("-modfile=" + modfile)
        rc, out = run(cmd + ["."], cwd=hdir, env=GOENV, timeout=900)
        return rc == 0, out


def run_harness(prop, tier, seed, outdir, extra=None, timeout=3000):
    cmd = [harness_bin(prop), prop, "-tier", tier, "-seed", str(seed), "-out", outdir]
    if extra:
        cmd += extra
    rc, out = run(cmd, cwd=os.path.join(VERIF, "harness"), env=GOENV, timeout=timeout)
    return rc, out


def eval_cases(outdir, case_files, timeout=1500):
    """coqc every cases file (in parallel); returns (list of (id, verdict), errors)."""
    bad = []
    errors = []
    ncases = [0]

    def one(f):
        rc, out = run(["coqc", "-Q", COQ, "Ecal", f], cwd=outdir, timeout=timeout)
        return f, rc, out

    with concurrent.futures.ThreadPoolExecutor(max_workers=int(os.environ.get("VERIF_JOBS", "8"))) as ex:
        for f, rc, out in ex.map(one, case_files):
            if rc != 0:
                errors.append("%s: coqc failed:\n%s" % (f, out[-3000:]))
                continue
            m = re.search(r"M\s*=\s*(.*?)\n\s*:\s*list", out, flags=re.S)
            if not m:
                errors.append("%s: no result printed:\n%s" % (f, out[-2000:]))
                continue
            body = m.group(1)
            found = re.findall(r"\(\s*(\d+)(?:%\w+)?\s*,\s*(\d+)(?:%\w+)?\s*\)", body)
            k = re.search(r"K\s*=\s*\(\s*(\d+)(?:%\w+)?\s*,\s*(\d+)(?:%\w+)?\s*\)", out)
            if not k or int(k.group(1)) != len(found):
                errors.append("%s: could not read the mismatch list reliably:\n%s" % (f, out[-1500:]))
                continue
            ncases[0] += int(k.group(2))
            for a, b in found:
                bad.append((int(a), int(b)))
    for f in case_files:
        for ext in (".vo", ".vok", ".vos", ".glob"):
            try:
                os.remove(os.path.join(outdir, f[:-2] + ext))
            except OSError:
                pass
        try:
            os.remove(os.path.join(outdir, "." + f[:-2] + ".aux"))
        except OSError:
            pass
    return bad, errors, ncases[0]


# --------------------------------------------------------------------------- findings

def known_findings(prop):
    """Lines of KNOWN_FINDINGS.txt: 'finding: property=Cxx key=<key> <text>' (suppressing) and
    'fixed: property=Cxx <commit> <text>' (suppressing nothing)."""
    res = {}
    try:
        for line in open(os.path.join(VERIF, "KNOWN_FINDINGS.txt")):
            m = re.match(r"finding:\s+property=(\w+)\s+key=(\S+)\s+(.*)", line.strip())
            if m and m.group(1) == prop:
                res[m.group(2)] = m.group(3)
    except OSError:
        pass
    return res


# --------------------------------------------------------------------------- evidence

def write_evidence(prop, tier, seed, coverage, assumptions, wall, violations):
    ev = {
        "property_id": prop,
        "tier": tier,
        "seed": seed,
        "level": "proof",
        "coverage": coverage,
        "assumptions": assumptions,
        "wall_s": round(wall, 2),
        "violations": violations,
    }
    os.makedirs(os.path.join(VERIF, "evidence"), exist_ok=True)
    p = os.path.join(VERIF, "evidence", prop + ".json")
    tmp = p + ".tmp"
    json.dump(ev, open(tmp, "w"), indent=1, sort_keys=True)
    os.replace(tmp, p)


def write_replay(prop, kind, payload):
    os.makedirs(os.path.join(VERIF, "replays"), exist_ok=True)
    h = hashlib.sha1(json.dumps(payload, sort_keys=True, default=str).encode()).hexdigest()[:10]
    p = os.path.join(VERIF, "replays", "%s-%s.json" % (prop, h))
    json.dump({"property": prop, "kind": kind, "payload": payload,
               "replay_cmd": "bin/check %s --replay %s" % (prop, p)}, open(p, "w"), indent=1, default=str)
    return p


# --------------------------------------------------------------------------- main flow

def check(prop, tier, seed, cfg, replay=None):
    """cfg: dict(verdicts={code: (key, text, is_spec_violation)}, trusted=[...], assumptions=[...],
    harness_timeout=..)"""
    t0 = time.time()
    workdir = os.path.join(WORK, prop)
    os.makedirs(workdir, exist_ok=True)
    for f in glob.glob(os.path.join(workdir, "cases_*")) + glob.glob(os.path.join(workdir, "*.json")):
        os.remove(f)
    broken = []      # (what, detail)  proof obligations / ties that no longer check
    violations = []  # (key, desc, replay payload) concrete failing inputs
    notes = []

    gated = closure_files(prop_files(prop) + [os.path.relpath(f, COQ) for f in sorted(glob.glob(os.path.join(COQ, "Run", "Run%s*.v" % prop)))])
    gate = source_gate(gated)
    if gate:
        broken.append(("source-gate", "forbidden vernacular in the files this property depends on: " + ", ".join(gate[:5])))

    ok, out, failed_gens = regenerate()
    for g in failed_gens:
        if g == "core" or g in cfg.get("generators", []):
            broken.append(("translator", "generator %s: %s" % (g, out[-1500:])))

    ok, out = build_target(" ".join(f + "o" for f in prop_files(prop)), lockname=prop)
    thms = theorems_of(prop)
    proofs_ok = ok
    if not ok:
        m = re.search(r'File "([^"]+)", line (\d+).*?\n(Error.*?)(?:\n\n|\Z)', out, flags=re.S)
        detail = ("%s line %s: %s" % (m.group(1), m.group(2), m.group(3)[:600])) if m else out[-1500:]
        broken.append(("proof", "Props/%s.vo does not build: %s" % (prop, detail)))
    run_files = [os.path.relpath(f, COQ) for f in sorted(glob.glob(os.path.join(COQ, "Run", "Run%s*.v" % prop)))]
    runok, out2 = build_target(" ".join(f + "o" for f in run_files), lockname=prop)
    if not runok:
        broken.append(("model", "Run/Run%s.vo does not build: %s" % (prop, out2[-800:])))

    axioms = {}
    if proofs_ok:
        axioms, paout = print_assumptions(prop, thms, workdir)
        if axioms is None:
            broken.append(("proof", "Print Assumptions failed: " + paout[-800:]))
            axioms = {}
            proofs_ok = False

    chk = None
    if proofs_ok and tier == "thorough" and not replay and os.environ.get("VERIF_NO_COQCHK") != "1":
        status, chk_ax, chk_log = coqchk(prop)
        foreign = [a for a in chk_ax if not a.startswith("Coq.")]
        chk = {"status": status, "axioms_of_loaded_libraries": chk_ax, "note": chk_log}
        if status == "failed":
            broken.append(("proof", "coqchk rejects the compiled files of Props/%s*.vo: %s" % (prop, chk_log)))
        elif foreign:
            broken.append(("proof", "coqchk -o lists axioms outside Coq's standard library: " + ", ".join(foreign[:10])))
        elif status == "timeout":
            notes.append("coqchk did not finish within its time limit (not counted)")

    ok, out = build_harness(prop)
    result = None
    bad = []
    skipped = 0
    if not ok:
        broken.append(("harness-build", "the correspondence harness does not compile against /repo: " + out[-1500:]))
    elif runok:
        extra = ["-replay", replay] if replay else None
        rc, out = run_harness(prop, tier, seed, workdir, extra, timeout=cfg.get("harness_timeout", 3000))
        if rc != 0:
            broken.append(("harness-run", "harness exited %d: %s" % (rc, out[-1500:])))
        else:
            result = json.load(open(os.path.join(workdir, "result.json")))
            for v in result["violations"]:
                violations.append((v["key"], v["desc"], v["replay"]))
            bad, errs, nchecked = eval_cases(workdir, result.get("case_files") or [])
            if not errs and nchecked != (result.get("cases_emitted") or 0):
                errs.append("Coq evaluated %d cases but the harness emitted %d" % (nchecked, result["cases_emitted"]))
            for e in errs:
                broken.append(("correspondence", e[-1200:]))
            descs = json.load(open(os.path.join(workdir, "cases.json")))
            for cid, code in bad:
                key, text, kind = cfg["verdicts"].get(code, ("verdict-%d" % code, "model and implementation differ", "model"))
                d = descs.get(str(cid))
                if kind == "skip":
                    skipped += 1
                elif kind == "spec":
                    violations.append((key, text, d))
                else:
                    broken.append(("correspondence", "%s (case %d: %s)" % (text, cid, json.dumps(d)[:400])))

    # ---- verdict
    known = known_findings(prop)
    reported = []
    known_hit = {}
    for key, desc, payload in violations:
        if key in known:
            known_hit.setdefault(key, 0)
            known_hit[key] += 1
            continue
        reported.append((key, desc, payload))
    for key, n in sorted(known_hit.items()):
        print("KNOWN-FINDING: property=%s %s (%d cases, key=%s)" % (prop, known[key], n, key))

    exit_code = 0
    lines = []
    if reported:
        # one replay per distinct key, smallest payload first
        seen = set()
        for key, desc, payload in sorted(reported, key=lambda r: len(json.dumps(r[2], default=str))):
            if key in seen:
                continue
            seen.add(key)
            p = write_replay(prop, "input", {"key": key, "what": desc, "case": payload,
                                              "broken_obligations": [b[1][:300] for b in broken]})
            lines.append("VIOLATION property=%s replay=%s" % (prop, p))
        exit_code = 1
    elif broken:
        p = write_replay(prop, "obligation", {"no_longer_checks": [{"what": w, "detail": d} for w, d in broken],
                                               "search": "the implementation and the model were searched with the Spec oracle on %d cases; no failing input was found" % (result["evaluations"] if result else 0)})
        lines.append("VIOLATION property=%s replay=%s no-failing-input-found" % (prop, p))
        exit_code = 1
    for l in lines:
        print(l)

    # ---- evidence
    allax = sorted({a for t in axioms.values() for a in t})
    coverage = {
        "obligations": len(thms) + 1,
        "discharged": (len(thms) if proofs_ok else 0) + (1 if (result is not None and not [b for b in broken if b[0] in ("correspondence", "model", "harness-build", "harness-run", "translator")]) else 0),
        "checker_cmd": "cd %s && make -j16 Props/%s.vo  (coqc 8.16.1, full .vo build); Print Assumptions per theorem; correspondence: coqc cases_*.v with vm_compute" % (COQ, prop),
        "trusted_base": ["Coq 8.16.1 kernel incl. vm_compute (no native_compute)",
                         "axioms reported by Print Assumptions: " + (", ".join(allax) if allax else "none (closed under the global context) for all of: " + ", ".join(thms))]
                        + cfg.get("trusted", []),
        "theorems": thms,
        "gated_files": gated,
        "axioms_per_theorem": axioms,
        "obligation_note": "obligations = theorems of Props/%s.v + 1 correspondence obligation (model = implementation on every generated case)" % prop,
    }
    if result:
        coverage.update({
            "evaluations": result["evaluations"],
            "distinct_nontrivial": result["distinct_nontrivial"],
            "rule": result["rule"],
            "samples": (result.get("samples") or [])[:8] or [{"note": "no sample recorded by the harness"}],
            "distribution": result["distribution"],
            "exhaustive": result["exhaustive"],
            "extra": result["extra"],
            "correspondence_mismatches": len(bad) - skipped,
            "not_comparable": skipped,
            "known_findings_hit": known_hit,
        })
    if chk is not None:
        coverage["coqchk"] = chk
        coverage["checker_cmd"] += "; thorough tier: coqchk -silent -o on the property's Props modules (independent re-check of the compiled closure)"
    coverage["broken_obligations"] = [{"what": w, "detail": d[:500]} for w, d in broken]
    if not replay and not ALT:
        write_evidence(prop, tier, seed, coverage, cfg.get("assumptions", []), time.time() - t0,
                   len(reported) + (1 if (broken and not reported) else 0))
    log("%s: %s in %.1fs (%d theorems, %d cases, %d mismatches, %d broken)" % (
        prop, "OK" if exit_code == 0 else "VIOLATION", time.time() - t0, len(thms),
        result["evaluations"] if result else 0, len(bad), len(broken)))
    return exit_code
