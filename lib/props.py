"""Per-property configuration of the generic check flow (lib/vlib.py).

verdicts: code printed by Run/RunCxx.check_all -> (finding key, text, kind)
  kind "spec":  the implementation's observation contradicts the Spec (a concrete failing input)
  kind "model": model and implementation differ on something the Spec does not fix
                (correspondence broken; reported as no-failing-input-found unless a spec
                violation is found as well)
  kind "skip":  case not comparable (counted only)
"""

COMMON_TRUST = [
    "correspondence harness /verif/harness (Go, mine): generators, canonicalisation, recover/time-out wrappers",
    "driver /verif/bin/check + lib/vlib.py (Python, mine)",
]

PROPS = {
    "C14": dict(
        verdicts={
            1: ("interp-output", "the string the implementation returned differs from the single-pass Spec result", "spec"),
            2: ("interp-evaluations", "the implementation evaluated the counted expression a different number of times than the literal contains it", "spec"),
            3: (None, "a code evaluated by the model is missing from the evaluator table", "skip"),
        },
        trusted=COMMON_TRUST + [
            "modelled, not verified: the evaluator (parse+validate+eval+fmt.Sprint of one code) is a Section variable in all theorems and a finite table measured on the implementation in the correspondence; escape processing is taken from the lexer (Token.Val)",
        ],
        assumptions=["a string literal is evaluated by stringValueRuntime.Eval only (the harness goes through the public Parse/Validate/Eval API)"],
    ),
}
