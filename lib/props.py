"""Per-property configuration of the generic check flow (lib/vlib.py), one JSON file per
property under lib/propcfg/Cxx.json:

  verdicts: {"<code printed by Run/RunCxx.check_all>": [finding key | null, text, kind]}
     kind "spec":  the implementation's observation contradicts the Spec (a concrete failing input)
     kind "model": model and implementation differ on something the Spec does not fix
                   (correspondence broken; reported as no-failing-input-found unless a spec
                   violation is found as well)
     kind "skip":  case not comparable (counted only)
  trusted:      trusted-base entries specific to the property (modelled-not-verified parts ...)
  assumptions:  what the check assumes
  manifest:     {text, note, technique, design_ref} for MANIFEST.json (bin/mkmanifest)
  harness_timeout (optional, seconds)
"""
import glob
import json
import os

COMMON_TRUST = [
    "correspondence harness /verif/harness (Go, mine): generators, canonicalisation, recover/time-out wrappers",
    "driver /verif/bin/check + lib/vlib.py (Python, mine)",
]


def load():
    res = {}
    d = os.path.join(os.path.dirname(os.path.abspath(__file__)), "propcfg")
    for f in sorted(glob.glob(os.path.join(d, "C*.json"))):
        cfg = json.load(open(f))
        cfg["verdicts"] = {int(k): tuple(v) for k, v in cfg.get("verdicts", {}).items()}
        cfg["trusted"] = COMMON_TRUST + cfg.get("trusted", [])
        res[os.path.basename(f)[:-5]] = cfg
    return res


PROPS = load()
