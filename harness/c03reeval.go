//go:build c03

package main

// C03 — re-evaluation stream.  An operator expression over the VARIABLES va, vb is parsed and
// validated once; the SAME runtime object tree is then evaluated several times under
// different bindings of the variables (the last binding returns to the first), directly, as
// the body of a function that is called several times, and as the body of a loop.  Every
// single evaluation becomes one case: the expression's real tokens and tree, the bindings of
// that evaluation as the scope, and what the implementation returned that time.  A runtime
// component that keeps state between evaluations (a cached pattern, a memoised operand)
// shows up as a value that differs from the model's evaluation on the current bindings.

import (
	"fmt"
	"regexp"
	"strings"
	"time"

	"github.com/krotik/ecal/interpreter"
	"github.com/krotik/ecal/parser"
	"github.com/krotik/ecal/scope"
)

type c03re struct {
	Expr  string   `json:"expr"`  // expression over va, vb
	Mode  string   `json:"mode"`  // direct | func | loop
	Binds [][2]int `json:"binds"` // indices into c03vars: values of va, vb per evaluation
	Like  bool     `json:"like,omitempty"`
}

func c03copyVal(v interface{}) interface{} {
	if l, ok := v.([]interface{}); ok {
		return append([]interface{}{}, l...)
	}
	return v
}

func c03reeval(c *Ctx, d c03re) {
	lr := guarded(3*time.Second, func() (interface{}, error) { return parser.LexToList("c03", d.Expr), nil })
	if lr.Panicked || lr.TimedOut {
		c.Dist["skipped_lexer_did_not_return"]++
		return
	}
	toks := lr.Val.([]parser.LexToken)
	tokTerms := []string{}
	for _, t := range toks {
		tokTerms = append(tokTerms, c03tok(t))
	}
	erp := interpreter.NewECALRuntimeProvider("c03", nil, nil)
	pr := guarded(3*time.Second, func() (interface{}, error) { return parser.ParseWithRuntime("c03", d.Expr, erp) })
	if pr.Panicked || pr.TimedOut || pr.Err != nil {
		c.Dist["reeval_expression_not_parsed"]++
		return
	}
	ast := pr.Val.(*parser.ASTNode)
	if vr := guarded(3*time.Second, func() (interface{}, error) { return nil, ast.Runtime.Validate() }); vr.Panicked || vr.TimedOut || vr.Err != nil {
		c.Dist["reeval_expression_not_validated"]++
		return
	}
	var nb strings.Builder
	c03node(&nb, ast)
	treeTerm := "(PTree " + nb.String() + ")"

	// what the implementation returned at each evaluation
	results := make([]callResult, len(d.Binds))
	switch d.Mode {
	case "direct":
		vs := scope.NewScope(scope.GlobalScope)
		for i, b := range d.Binds {
			vs.SetValue("va", c03copyVal(c03vars[b[0]].Val))
			vs.SetValue("vb", c03copyVal(c03vars[b[1]].Val))
			results[i] = guarded(3*time.Second, func() (interface{}, error) {
				return ast.Runtime.Eval(vs, make(map[string]interface{}), erp.NewThreadID())
			})
		}
	default:
		var prog string
		if d.Mode == "func" {
			calls := []string{}
			for _, b := range d.Binds {
				calls = append(calls, fmt.Sprintf("f(%s, %s)", c03vars[b[0]].Name, c03vars[b[1]].Name))
			}
			prog = "func f(va, vb) {\n  return " + d.Expr + "\n}\n[" + strings.Join(calls, ", ") + "]"
		} else {
			rows := []string{}
			for _, b := range d.Binds {
				rows = append(rows, fmt.Sprintf("[%s, %s]", c03vars[b[0]].Name, c03vars[b[1]].Name))
			}
			prog = "r := []\nfor [va, vb] in [" + strings.Join(rows, ", ") + "] {\n  r := add(r, " + d.Expr + ")\n}\nr"
		}
		er := guarded(5*time.Second, func() (interface{}, error) { return evalProgram("c03", prog, c03scope(), nil) })
		l, ok := er.Val.([]interface{})
		if er.Panicked || er.TimedOut || er.Err != nil || !ok || len(l) != len(d.Binds) {
			// bindings are chosen so that every evaluation yields a value; an operand error
			// ends the whole program and leaves nothing to attribute to one evaluation
			c.Dist["reeval_program_without_result_list"]++
			return
		}
		for i := range d.Binds {
			results[i] = callResult{Val: l[i]}
		}
	}

	for i, b := range d.Binds {
		va, vb := c03vars[b[0]].Val, c03vars[b[1]].Val
		env := CoqList([]string{"(" + c03b("va") + ", " + c03coqValue(va) + ")", "(" + c03b("vb") + ", " + c03coqValue(vb) + ")"})
		rx := []string{}
		if d.Like {
			subj, pat := fmt.Sprint(va), fmt.Sprint(vb)
			res := "None"
			if re, err := regexp.Compile(pat); err == nil {
				res = "(Some " + CoqBool(re.MatchString(subj)) + ")"
			}
			rx = append(rx, fmt.Sprintf("(%s, %s, %s)", c03b(pat), c03b(subj), res))
		}
		obs := c03obsTerm(c, ast, results[i])
		id := c.NewID()
		term := fmt.Sprintf("mkCase %d %s %s None %s %s %s", id, CoqList(tokTerms), treeTerm, env, CoqList(rx), obs)
		c.Dist["reeval_"+d.Mode]++
		c.AddCase(id, term, c03case{Src: d.Expr, Re: &d, Step: i}, fmt.Sprint(d.Expr, d.Mode, d.Binds[:i+1]), true)
	}
}

// index of a pool variable of the wanted kind
func c03pickVar(c *Ctx, kind string, fit float64) int {
	if kind == "any" || kind == "" || c.Rng.Float64() > fit {
		return c.Rng.Intn(len(c03vars))
	}
	var cand []int
	for i, v := range c03vars {
		if v.Kind == kind {
			cand = append(cand, i)
		}
	}
	return cand[c.Rng.Intn(len(cand))]
}

// k bindings for an operator, the last one returning to the first
func c03bindings(c *Ctx, o c03op, k int, fit float64) [][2]int {
	res := make([][2]int, 0, k)
	for len(res) < k-1 {
		l, r := o.L, o.R
		if l == "cmp" {
			l = []string{"num", "str"}[c.Rng.Intn(2)]
			r = l
		}
		b := [2]int{c03pickVar(c, l, fit), c03pickVar(c, r, fit)}
		// consecutive evaluations differ in the second operand (the pattern of `like`)
		if n := len(res); n > 0 && res[n-1][1] == b[1] {
			continue
		}
		res = append(res, b)
	}
	return append(res, res[0])
}

func c03reevalStreams(c *Ctx) int {
	before := c.Evals
	type opx struct {
		o    c03op
		expr string
	}
	var ops []opx
	for _, o := range c03bin[:19] {
		ops = append(ops, opx{o, "va " + o.Text + " vb"})
	}
	for _, o := range c03pre {
		p := o
		p.R = "any"
		ops = append(ops, opx{p, o.Text + " va"})
	}
	for _, x := range ops {
		if c.Enough() {
			break
		}
		like := x.o.Key == "OLike"
		n := c.Pick(2, 10)
		if like {
			n = c.Pick(6, 30)
		}
		for s := 0; s < n; s++ {
			c03reeval(c, c03re{Expr: x.expr, Mode: "direct", Binds: c03bindings(c, x.o, 4, 0.85), Like: like})
		}
		// inside a function called several times / a loop body: bindings that yield values
		for _, mode := range []string{"func", "loop"} {
			m := 1
			if like {
				m = 3
			}
			for s := 0; s < m; s++ {
				c03reeval(c, c03re{Expr: x.expr, Mode: mode, Binds: c03bindings(c, x.o, 4, 1), Like: like})
			}
		}
	}
	return c.Evals - before
}
