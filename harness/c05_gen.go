//go:build c05

package main

// C05 — program generators: fixed corpus, exhaustive sequences over a statement pool, and a
// seeded random generator that tracks an approximate kind for every name so that most
// programs run to the end (an ill-typed program is still a valid case: the reference
// semantics says "error" for it too).

import "math/rand"

func c05prog(stream string, probes []*c05Expr, ss ...*c05Stmt) *c05Prog {
	return &c05Prog{Stream: stream, Prog: ss, Probes: probes}
}

func pv(names ...string) []*c05Expr {
	var r []*c05Expr
	for _, n := range names {
		r = append(r, eVar(n))
	}
	return r
}

// ---- corpus ------------------------------------------------------------------------------
func c05corpus() []*c05Prog {
	n := eNum
	s := eStr
	v := eVar
	counter := sFunc("c", prm("d"),
		sLet("e", v("d")),
		sReturn(eFunc(prm("g"), sAssign("e", eBin("+", v("e"), v("g"))), sReturn(v("e")))))
	tmplA := sAssign("a", eMap(
		s("x"), n(1),
		s("init"), eFunc(prm("d"), sAssignP("this", []*c05Acc{dot("x")}, v("d")), sMark(s("initA")), sReturn(eNull())),
		s("getx"), eFunc(nil, sReturn(ePath("this", dot("x"))))))
	tmplB := sAssign("b", eMap(
		s("y"), n(2), s("x"), n(7),
		s("gety"), eFunc(nil, sReturn(ePath("this", dot("y"))))))
	tmplC := sAssign("c", eMap(
		s("super"), eList(v("a"), v("b")),
		s("z"), n(3),
		s("init"), eFunc([]c05Param{{Name: "d"}, {Name: "e", Dflt: n(9)}},
			sExpr(eCall("super", []*c05Acc{idx(n(0))}, v("d"))),
			sAssignP("this", []*c05Acc{dot("z")}, v("e")), sMark(s("initC")), sReturn(eNull()))))
	return []*c05Prog{
		// F08 and its relatives first
		c05prog("corpus", []*c05Expr{ePath("a", idx(n(1))), eBuiltin("len", v("a"))},
			sAssign("a", eMap(n(1), n(2))), sAssignP("a", []*c05Acc{idx(n(1))}, n(5)), sMark(ePath("a", idx(n(1))))),
		c05prog("corpus", []*c05Expr{ePath("a", idx(n(1))), eBuiltin("len", v("a"))},
			sAssign("a", eMap(n(1), n(2), s("k"), n(3))), sExpr(eBuiltin("del", v("a"), n(1))), sMark(eBuiltin("len", v("a")))),
		c05prog("corpus", []*c05Expr{ePath("a", idx(n(1)), idx(n(2)))},
			sAssign("a", eMap(n(1), eMap(n(2), n(3)))), sAssignP("a", []*c05Acc{idx(n(1)), idx(n(2))}, n(9)), sMark(v("a"))),
		c05prog("corpus", []*c05Expr{ePath("a", dot("x"), idx(n(2)))},
			sAssign("a", eMap(s("x"), eMap(n(2), n(3)))), sAssignP("a", []*c05Acc{dot("x"), idx(n(2))}, n(9)), sMark(eBuiltin("len", ePath("a", dot("x"))))),
		c05prog("corpus", []*c05Expr{ePath("a", idx(n(1)), idx(n(0)))},
			sAssign("a", eMap(n(1), eList(n(1), n(2)))), sAssignP("a", []*c05Acc{idx(n(1)), idx(n(0))}, n(9)), sMark(v("a"))),
		c05prog("corpus", pv("a"),
			sAssign("a", eMap()), sAssignP("a", []*c05Acc{idx(n(1))}, n(5)), sMark(ePath("a", idx(n(1)))),
			sExpr(eBuiltin("del", v("a"), n(1))), sMark(eBuiltin("len", v("a")))),
		// default values see the definition scope
		c05prog("corpus", nil,
			sAssign("a", n(5)), sFunc("b", []c05Param{{Name: "c"}, {Name: "d", Dflt: v("a")}}, sReturn(v("d"))),
			sFunc("e", nil, sLet("a", n(7)), sReturn(eCall("b", nil, n(1)))), sMark(eCall("e", nil))),
		// scoping
		c05prog("corpus", pv("a", "b"),
			sAssign("a", n(1)), sIf(eBool(true), blk(sAssign("a", n(2)), sAssign("b", n(3)), sMark(v("b"))), nil), sMark(v("a")), sMark(v("b"))),
		c05prog("corpus", pv("a"),
			sAssign("a", n(1)), sIf(eBool(true), blk(sLet("a", n(2)), sIf(eBin("==", v("a"), n(2)), blk(sAssign("a", n(3))), nil), sMark(v("a"))), nil), sMark(v("a"))),
		c05prog("corpus", pv("a", "b", "d"),
			sAssign("a", n(0)), sFunc("c", nil, sAssign("a", eBin("+", v("a"), n(1))), sAssign("b", n(5)), sLet("d", n(6)), sReturn(v("b"))),
			sMark(eCall("c", nil)), sMark(eCall("c", nil))),
		c05prog("corpus", pv("a", "b", "e"),
			sAssign("a", n(9)), sFor("a", eList(n(1), n(2)), sAssign("b", v("a")), sLet("e", v("a")), sMark(v("e"))), sMark(v("a"))),
		// closures, fresh locals per call, recursion
		c05prog("corpus", pv("e", "d"),
			counter, sAssign("a", eCall("c", nil, n(10))), sAssign("b", eCall("c", nil, n(20))),
			sMark(eCall("a", nil, n(1))), sMark(eCall("a", nil, n(1))), sMark(eCall("b", nil, n(5)))),
		c05prog("corpus", nil,
			sFunc("a", []c05Param{{Name: "b"}, {Name: "c", Dflt: n(0)}},
				sIf(eBin("<", v("b"), n(1)), blk(sReturn(v("c"))), nil),
				sReturn(eCall("a", nil, eBin("-", v("b"), n(1)), eBin("+", v("c"), v("b"))))),
			sMark(eCall("a", nil, n(4)))),
		c05prog("corpus", nil,
			sFunc("a", []c05Param{{Name: "b"}, {Name: "c", Dflt: n(2)}, {Name: "d"}}, sReturn(eList(v("b"), v("c"), v("d")))),
			sMark(eCall("a", nil)), sMark(eCall("a", nil, n(1))), sMark(eCall("a", nil, n(1), n(5))),
			sMark(eCall("a", nil, n(1), n(5), n(6))), sMark(eCall("a", nil, n(1), n(5), n(6), n(7)))),
		// a closure captures its definition scope, not the scope of the caller
		c05prog("corpus", nil,
			sAssign("a", n(1)), sFunc("b", nil, sReturn(v("a"))),
			sFunc("c", nil, sLet("a", n(2)), sReturn(eCall("b", nil))), sMark(eCall("c", nil)), sAssign("a", n(3)), sMark(eCall("c", nil))),
		// by value / by reference
		c05prog("corpus", pv("a", "c"),
			sAssign("a", eList(n(1), n(2), n(3))), sAssign("b", v("a")), sAssignP("b", []*c05Acc{idx(n(0))}, n(7)),
			sAssign("c", n(1)), sAssign("d", v("c")), sAssign("d", n(2)),
			sFunc("e", prm("g", "d"), sAssignP("g", []*c05Acc{idx(n(-1))}, n(8)), sAssign("d", n(0)), sReturn(v("d"))),
			sMark(eCall("e", nil, v("a"), v("c")))),
		// containers
		c05prog("corpus", pv("a"),
			sAssign("a", eMap(s("x"), eMap(s("y"), eList(n(1), eMap(s("z"), n(5)))))),
			sAssignP("a", []*c05Acc{dot("x"), dot("y"), idx(n(1)), dot("z")}, n(6)),
			sMark(ePath("a", idx(s("x")), idx(s("y")), idx(n(-1)), idx(s("z")))),
			sAssign("b", n(1)), sAssignP("a", []*c05Acc{dot("x"), dot("y"), idx(v("b"))}, n(4)), sMark(v("a"))),
		c05prog("corpus", pv("a", "b"),
			sAssign("a", eList(n(1), n(2), n(3))), sAssign("a", eBuiltin("add", v("a"), n(9), n(1))), sMark(v("a")),
			sAssign("a", eBuiltin("add", v("a"), n(8))), sAssign("a", eBuiltin("add", v("a"), n(7), n(5))), sMark(v("a")),
			sAssign("a", eBuiltin("del", v("a"), n(0))), sAssign("a", eBuiltin("del", v("a"), n(4))), sMark(v("a")),
			sAssign("b", eBuiltin("concat", v("a"), eList(n(0)), v("a"))), sMark(eBuiltin("len", v("b")))),
		c05prog("corpus", pv("a"),
			sAssign("a", eMap(s("x"), n(1), n(2), n(3))), sAssignP("a", []*c05Acc{idx(s("y"))}, n(4)), sAssignP("a", []*c05Acc{idx(n(2))}, n(5)),
			sMark(eBuiltin("len", v("a"))), sExpr(eBuiltin("del", v("a"), s("x"))), sExpr(eBuiltin("del", v("a"), n(2))), sMark(v("a"))),
		// objects
		c05prog("corpus", []*c05Expr{ePath("d", dot("x")), ePath("a", dot("x")), eBuiltin("len", v("d"))},
			tmplA, sAssign("d", eBuiltin("new", v("a"), n(5))), sMark(eCall("d", []*c05Acc{dot("getx")})),
			sAssignP("d", []*c05Acc{dot("x")}, n(6)), sAssign("e", ePath("d", dot("getx"))), sMark(eCall("e", nil))),
		c05prog("corpus", []*c05Expr{ePath("d", dot("x")), ePath("d", dot("y")), ePath("d", dot("z")), ePath("e", dot("z")), ePath("c", dot("z"))},
			tmplA, tmplB, tmplC, sAssign("d", eBuiltin("new", v("c"), n(4), n(8))), sAssign("e", eBuiltin("new", v("c"), n(1))),
			sMark(eCall("d", []*c05Acc{dot("getx")})), sMark(eCall("d", []*c05Acc{dot("gety")}))),
		// result independence of concat (capacity of the first argument, empty other arguments)
		c05prog("corpus", pv("a", "b", "c"),
			sAssign("a", eList(n(1), n(2), n(3))), sAssign("b", eBuiltin("concat", v("a"), eList(n(4)))),
			sAssign("c", eBuiltin("concat", v("a"), eList(n(5)))), sMark(eList(v("a"), v("b"), v("c")))),
		c05prog("corpus", pv("a", "b"),
			sAssign("a", eList(n(1), n(2))), sAssign("b", eBuiltin("concat", v("a"), eList())),
			sAssignP("b", []*c05Acc{idx(n(0))}, n(100)), sMark(eList(v("a"), v("b"))),
			sAssignP("a", []*c05Acc{idx(n(1))}, n(7)), sMark(eList(v("a"), v("b")))),
		c05prog("corpus", pv("a", "b", "c", "d"),
			sAssign("a", eList()), sAssign("b", eBuiltin("concat", v("a"), eList(), v("a"))),
			sAssign("b", eBuiltin("add", v("b"), n(1))), sAssign("c", eBuiltin("concat", eList(n(9)), v("b"), eList())),
			sAssign("d", eBuiltin("concat", v("c"), v("c"))), sAssignP("d", []*c05Acc{idx(n(0))}, n(0)), sMark(eList(v("a"), v("b"), v("c"), v("d")))),
		// a block that is entered again: the reference semantics leaves this open (informational)
		c05prog("corpus", pv("a"),
			sFor("b", eList(n(1), n(2)), sIf(eBin("==", v("b"), n(1)), blk(sAssign("a", n(1))), nil), sMark(v("a")), sAssign("a", n(2)))),
	}
}

// ---- exhaustive: all sequences over a pool of short statements --------------------------------
func c05pool() []func() *c05Stmt {
	n := eNum
	v := eVar
	return []func() *c05Stmt{
		func() *c05Stmt { return sAssign("a", n(1)) },
		func() *c05Stmt { return sAssign("b", v("a")) },
		func() *c05Stmt { return sLet("a", n(2)) },
		func() *c05Stmt { return sIf(eBool(true), blk(sAssign("a", n(3))), nil) },
		func() *c05Stmt { return sIf(eBool(true), blk(sLet("a", n(4)), sAssign("b", v("a"))), nil) },
		func() *c05Stmt { return sIf(eBool(true), blk(sAssign("b", n(5)), sMark(v("b"))), nil) },
		func() *c05Stmt { return sFunc("c", nil, sAssign("a", n(6)), sReturn(v("a"))) },
		func() *c05Stmt { return sFunc("c", prm("a"), sAssign("a", n(7)), sAssign("b", n(8)), sReturn(v("a"))) },
		func() *c05Stmt { return sMark(eCall("c", nil, n(9))) },
		func() *c05Stmt { return sMark(eList(v("a"), v("b"))) },
		func() *c05Stmt { return sFor("b", eList(n(1), n(2)), sAssign("a", v("b"))) },
		func() *c05Stmt {
			return sFunc("c", nil, sLet("b", n(10)), sReturn(eFunc(nil, sAssign("b", eBin("+", v("b"), n(1))), sReturn(v("b")))))
		},
		func() *c05Stmt { return sAssign("a", eCall("c", nil)) },
		func() *c05Stmt { return sMark(eCall("a", nil)) },
	}
}

// Result independence of the list built-ins.  concat returns a NEW list and leaves its arguments
// usable (ecal.md: "The result is a new list"): writing through the result must not show in an
// argument, a second concat on the same first argument must not change the first result, also
// when the other arguments are empty and whatever the spare capacity of the first argument is
// (list literals are built with append: lengths 0..5 have capacities 0,1,2,4,4,8).
// add / del return the modified list and only the returned value may be used further
// (ecal.md), so for them the result is read, never the argument.
func c05listPool() []func() *c05Stmt {
	n := eNum
	v := eVar
	return []func() *c05Stmt{
		func() *c05Stmt { return sAssign("a", eList(n(1), n(2), n(3))) },
		func() *c05Stmt { return sAssign("a", eList()) },
		func() *c05Stmt { return sAssign("a", eList(n(1), n(2), n(3), n(4), n(5))) },
		func() *c05Stmt { return sAssign("b", eBuiltin("concat", v("a"), eList(n(4)))) },
		func() *c05Stmt { return sAssign("c", eBuiltin("concat", v("a"), eList(n(5)))) },
		func() *c05Stmt { return sAssign("b", eBuiltin("concat", v("a"), eList())) },
		func() *c05Stmt { return sAssignP("b", []*c05Acc{idx(n(0))}, n(100)) },
		func() *c05Stmt { return sAssign("c", eBuiltin("concat", v("a"), v("b"), eList())) },
		func() *c05Stmt { return sAssignP("a", []*c05Acc{idx(n(-1))}, n(7)) },
		func() *c05Stmt { return sAssign("c", eBuiltin("add", eBuiltin("concat", v("a"), eList()), n(6))) },
		func() *c05Stmt { return sAssign("b", eBuiltin("del", eBuiltin("concat", v("b"), eList()), n(0))) },
	}
}

// all sequences up to maxLen-1 statements, and every stride-th sequence of maxLen statements
// (maxLen 4: over the first ten statements of the pool)
func c05exhaustive(pool []func() *c05Stmt, stream string, probes []string, maxLen int, stride int, emit func(p *c05Prog)) {
	count := 0
	var rec func(prefix []int)
	rec = func(prefix []int) {
		if len(prefix) > 0 {
			count++
			if len(prefix) < maxLen || count%stride == 0 {
				var ss []*c05Stmt
				for _, i := range prefix {
					ss = append(ss, pool[i]())
				}
				emit(c05prog(stream, pv(probes...), ss...))
			}
		}
		if len(prefix) == maxLen {
			return
		}
		lim := len(pool)
		if maxLen > 3 && lim > 10 {
			lim = 10
		}
		for i := 0; i < lim; i++ {
			rec(append(append([]int{}, prefix...), i))
		}
	}
	rec(nil)
}

// ---- random programs ---------------------------------------------------------------------------
type c05kind int

const (
	kAny c05kind = iota
	kNum
	kStr
	kBool
	kList
	kMap
	kFunc
	kTmpl
	kObj
)

type c05finfo struct {
	params []c05kind
	ret    c05kind
	retF   *c05finfo // when ret == kFunc
}

type c05tinfo struct {
	fields  []string          // data properties (numbers)
	methods map[string]int    // name -> arity
	initAr  int               // -1: no constructor
}

type c05env struct {
	kinds map[string]c05kind
	funcs map[string]*c05finfo
	tmpls map[string]*c05tinfo
}

func (e *c05env) clone() *c05env {
	r := &c05env{map[string]c05kind{}, map[string]*c05finfo{}, map[string]*c05tinfo{}}
	for k, v := range e.kinds {
		r.kinds[k] = v
	}
	for k, v := range e.funcs {
		r.funcs[k] = v
	}
	for k, v := range e.tmpls {
		r.tmpls[k] = v
	}
	return r
}

func (e *c05env) set(x string, k c05kind) {
	e.kinds[x] = k
	delete(e.funcs, x)
	delete(e.tmpls, x)
}

func (e *c05env) ofKind(k c05kind) []string {
	var r []string
	for _, n := range c05Names {
		if e.kinds[n] == k {
			if _, ok := e.kinds[n]; ok {
				r = append(r, n)
			}
		}
	}
	return r
}

type c05gen struct {
	c     *Ctx
	depth int // nesting of blocks / functions
}

func (g *c05gen) rng() *rand.Rand { return g.c.Rng }
func (g *c05gen) n(k int) int     { return g.c.Rng.Intn(k) }
func (g *c05gen) name() string    { return c05Names[g.n(len(c05Names))] }
func (g *c05gen) pick(l []string) string { return l[g.n(len(l))] }

var c05strs = []string{"s", "t", "uv"}
var c05fields = []string{"x", "y", "z"}

func (g *c05gen) key() *c05Expr {
	if g.n(2) == 0 {
		return eNum(int64(g.n(3)))
	}
	return eStr(g.pick(c05fields))
}

func (g *c05gen) scalar() *c05Expr {
	switch g.n(6) {
	case 0:
		return eStr(g.pick(c05strs))
	case 1:
		return eBool(g.n(2) == 0)
	case 2:
		return eNull()
	}
	return eNum(int64(g.n(7) - 1))
}

func (g *c05gen) expr(env *c05env, want c05kind, d int) *c05Expr {
	if want == kAny {
		want = []c05kind{kNum, kNum, kStr, kBool, kList, kMap}[g.n(6)]
	}
	vars := env.ofKind(want)
	if len(vars) > 0 && g.n(3) == 0 {
		return eVar(g.pick(vars))
	}
	switch want {
	case kNum:
		if d > 0 {
			switch g.n(8) {
			case 0, 1:
				op := "+"
				if g.n(2) == 0 {
					op = "-"
				}
				return eBin(op, g.expr(env, kNum, d-1), g.expr(env, kNum, d-1))
			case 2:
				if l := append(env.ofKind(kList), env.ofKind(kMap)...); len(l) > 0 {
					return eBuiltin("len", eVar(g.pick(l)))
				}
			case 3:
				if l := env.ofKind(kList); len(l) > 0 {
					return ePath(g.pick(l), idx(eNum(int64(g.n(4)-1))))
				}
			case 4:
				if l := env.ofKind(kMap); len(l) > 0 {
					if g.n(2) == 0 {
						return ePath(g.pick(l), dot(g.pick(c05fields)))
					}
					return ePath(g.pick(l), idx(g.key()))
				}
			case 5:
				if c := g.callOf(env, kNum, d-1); c != nil {
					return c
				}
			}
		}
		if len(vars) > 0 && g.n(2) == 0 {
			return eVar(g.pick(vars))
		}
		return eNum(int64(g.n(7) - 1))
	case kStr:
		return eStr(g.pick(c05strs))
	case kBool:
		if d > 0 {
			if g.n(2) == 0 {
				return eBin("<", g.expr(env, kNum, d-1), g.expr(env, kNum, d-1))
			}
			return eBin("==", g.expr(env, kNum, d-1), g.expr(env, kNum, d-1))
		}
		return eBool(g.n(2) == 0)
	case kList:
		if d > 0 && g.n(5) == 0 {
			if l := env.ofKind(kList); len(l) > 0 {
				return eBuiltin("concat", eVar(g.pick(l)), g.expr(env, kList, d-1))
			}
		}
		var es []*c05Expr
		for i := g.n(4); i > 0; i-- {
			if d > 0 && g.n(5) == 0 {
				es = append(es, g.expr(env, kAny, d-1))
			} else {
				es = append(es, g.expr(env, kNum, 0))
			}
		}
		return eList(es...)
	case kMap:
		r := &c05Expr{K: "map"}
		for i := g.n(4); i > 0; i-- {
			var val *c05Expr
			if d > 0 && g.n(4) == 0 {
				val = g.expr(env, kAny, d-1)
			} else {
				val = g.expr(env, kNum, 0)
			}
			r.Kvs = append(r.Kvs, [2]*c05Expr{g.key(), val})
		}
		return r
	}
	return g.scalar()
}

// Values that are stored INTO an existing container must not be able to reach that container:
// the implementation prints values in many places (return, comparison, error texts) and a
// cyclic list / map ends the whole process with a stack overflow (C06).  Such values are
// therefore literals or arithmetic (which yields a scalar or an error), never a bare name.
func (g *c05gen) safeNum(env *c05env) *c05Expr {
	e := g.expr(env, kNum, 1)
	if e.K == "path" || e.K == "call" {
		return eBin("+", e, eNum(0))
	}
	return e
}

func (g *c05gen) safeLit(k c05kind) *c05Expr {
	if k == kList {
		var es []*c05Expr
		for i := g.n(4); i > 0; i-- {
			es = append(es, g.scalar())
		}
		return eList(es...)
	}
	r := &c05Expr{K: "map"}
	for i := g.n(4); i > 0; i-- {
		r.Kvs = append(r.Kvs, [2]*c05Expr{g.key(), g.scalar()})
	}
	return r
}

func (g *c05gen) safeVal(env *c05env) *c05Expr {
	switch g.n(6) {
	case 0:
		return g.safeLit(kList)
	case 1:
		return g.safeLit(kMap)
	case 2:
		return g.scalar()
	}
	return g.safeNum(env)
}

// a call of a known function whose result has the wanted kind
func (g *c05gen) callOf(env *c05env, want c05kind, d int) *c05Expr {
	var cands []string
	for _, n := range c05Names {
		if fi, ok := env.funcs[n]; ok && env.kinds[n] == kFunc && (want == kAny || fi.ret == want) {
			cands = append(cands, n)
		}
	}
	if len(cands) == 0 {
		return nil
	}
	f := g.pick(cands)
	return eCall(f, nil, g.args(env, env.funcs[f], d)...)
}

// arguments: usually as many as parameters, sometimes fewer or more
func (g *c05gen) args(env *c05env, fi *c05finfo, d int) []*c05Expr {
	n := len(fi.params)
	switch g.n(6) {
	case 0:
		if n > 0 {
			n--
		}
	case 1:
		n++
	}
	var r []*c05Expr
	for i := 0; i < n; i++ {
		k := kNum
		if i < len(fi.params) {
			k = fi.params[i]
		}
		if k == kNum {
			r = append(r, g.safeNum(env))
		} else {
			r = append(r, g.expr(env, k, d))
		}
	}
	return r
}

func (g *c05gen) funcLit(env *c05env, d int, wantRet c05kind) ([]c05Param, []*c05Stmt, *c05finfo) {
	inner := env.clone()
	fi := &c05finfo{}
	var ps []c05Param
	used := map[string]bool{}
	for i := g.n(4); i > 0; i-- {
		p := g.name()
		if used[p] {
			continue
		}
		used[p] = true
		k := []c05kind{kNum, kNum, kNum, kList, kMap}[g.n(5)]
		prm := c05Param{Name: p}
		if k == kNum && g.n(3) == 0 {
			if vs := env.ofKind(kNum); len(vs) > 0 && g.n(2) == 0 {
				prm.Dflt = eVar(g.pick(vs)) // a default that reads the definition scope
			} else {
				prm.Dflt = eNum(int64(g.n(9)))
			}
		}
		ps = append(ps, prm)
		fi.params = append(fi.params, k)
		inner.set(p, k)
	}
	body := g.block(inner, d, 1+g.n(3), true)
	switch {
	case wantRet == kFunc || (wantRet == kAny && d > 0 && g.n(6) == 0):
		// return a closure over the locals of this call
		ips, ibody, ifi := g.funcLit(inner, d-1, kNum)
		fi.ret, fi.retF = kFunc, ifi
		body = append(body, sReturn(eFunc(ips, ibody...)))
	default:
		if wantRet == kAny {
			wantRet = []c05kind{kNum, kNum, kNum, kList, kMap}[g.n(5)]
		}
		fi.ret = wantRet
		body = append(body, sReturn(g.expr(inner, wantRet, 1)))
	}
	return ps, body, fi
}

func (g *c05gen) recursive(env *c05env, f string) *c05Stmt {
	p, q := "b", "c"
	if f == "b" {
		p = "d"
	}
	if f == "c" {
		q = "e"
	}
	env.set(f, kFunc)
	env.funcs[f] = &c05finfo{params: []c05kind{kNum}, ret: kNum}
	return sFunc(f, []c05Param{{Name: p}, {Name: q, Dflt: eNum(int64(g.n(3)))}},
		sIf(eBin("<", eVar(p), eNum(1)), blk(sReturn(eVar(q))), nil),
		sReturn(eCall(f, nil, eBin("-", eVar(p), eNum(1)), eBin("+", eVar(q), eVar(p)))))
}

func (g *c05gen) template(env *c05env, t string) *c05Stmt {
	ti := &c05tinfo{methods: map[string]int{}, initAr: -1}
	m := &c05Expr{K: "map"}
	add := func(k string, v *c05Expr) { m.Kvs = append(m.Kvs, [2]*c05Expr{eStr(k), v}) }
	// super templates: earlier templates only (no cycles)
	var supers []*c05Expr
	for _, n := range c05Names {
		if n != t && env.kinds[n] == kTmpl && g.n(2) == 0 && len(supers) < 2 {
			supers = append(supers, eVar(n))
			st := env.tmpls[n]
			ti.fields = append(ti.fields, st.fields...)
			for k, a := range st.methods {
				ti.methods[k] = a
			}
			if st.initAr >= 0 {
				ti.initAr = st.initAr
			}
		}
	}
	if len(supers) > 0 {
		add("super", eList(supers...))
	}
	for _, f := range c05fields {
		if g.n(2) == 0 {
			add(f, eNum(int64(g.n(5))))
			ti.fields = append(ti.fields, f)
		}
	}
	if len(ti.fields) == 0 {
		add("x", eNum(1))
		ti.fields = []string{"x"}
	}
	f0 := g.pick(ti.fields)
	if g.n(3) > 0 {
		body := []*c05Stmt{}
		if len(supers) > 0 && g.n(3) > 0 {
			body = append(body, sExpr(eCall("super", []*c05Acc{idx(eNum(0))}, eVar("d"))))
		}
		body = append(body, sAssignP("this", []*c05Acc{dot(f0)}, eVar("d")), sMark(eStr("init"+t)), sReturn(eNull()))
		ps := []c05Param{{Name: "d"}}
		if g.n(2) == 0 {
			ps = append(ps, c05Param{Name: "e", Dflt: eNum(int64(g.n(5)))})
			body = append([]*c05Stmt{sAssignP("this", []*c05Acc{dot("w")}, eVar("e"))}, body...)
		}
		add("init", eFunc(ps, body...))
		ti.initAr = len(ps)
	}
	if g.n(3) > 0 {
		add("get"+f0, eFunc(nil, sReturn(ePath("this", dot(f0)))))
		ti.methods["get"+f0] = 0
	}
	if g.n(3) > 0 {
		add("set"+f0, eFunc(prm("d"), sAssignP("this", []*c05Acc{dot(f0)}, eVar("d")), sReturn(eVar("this"))))
		ti.methods["set"+f0] = 1
	}
	env.set(t, kTmpl)
	env.tmpls[t] = ti
	return sAssign(t, m)
}

func (g *c05gen) numArgs(env *c05env, n int) []*c05Expr {
	switch g.n(6) {
	case 0:
		if n > 0 {
			n--
		}
	case 1:
		n++
	}
	var r []*c05Expr
	for i := 0; i < n; i++ {
		r = append(r, g.safeNum(env))
	}
	return r
}

func (g *c05gen) stmt(env *c05env, d int, inFunc bool) []*c05Stmt {
	x := g.name()
	switch g.n(29) {
	case 27, 28:
		return g.scenarioLists(env)
	case 24, 25:
		return g.scenarioRef(env)
	case 26:
		if !inFunc {
			return g.scenarioObj(env)
		}
	case 0, 1, 2:
		k := []c05kind{kNum, kNum, kStr, kBool, kList, kMap}[g.n(6)]
		e := g.expr(env, k, 2)
		env.set(x, k)
		return blk(sAssign(x, e))
	case 3:
		k := []c05kind{kNum, kNum, kList, kMap}[g.n(4)]
		e := g.expr(env, k, 2)
		env.set(x, k)
		return blk(sLet(x, e))
	case 4, 5:
		// write through a path
		if l := env.ofKind(kList); len(l) > 0 && g.n(2) == 0 {
			t := g.pick(l)
			return blk(sAssignP(t, []*c05Acc{idx(eNum(int64(g.n(5) - 2)))}, g.safeVal(env)))
		}
		if l := env.ofKind(kMap); len(l) > 0 {
			t := g.pick(l)
			var a *c05Acc
			if g.n(2) == 0 {
				a = dot(g.pick(c05fields))
			} else {
				a = idx(g.key())
			}
			if g.n(4) == 0 {
				// nested: make the field a container first
				inner := g.safeLit([]c05kind{kList, kMap}[g.n(2)])
				var b *c05Acc
				if inner.K == "list" {
					if len(inner.Es) == 0 {
						inner.Es = []*c05Expr{eNum(0)}
					}
					b = idx(eNum(int64(g.n(len(inner.Es)+1) - 1)))
				} else {
					b = idx(g.key())
				}
				return blk(sAssignP(t, []*c05Acc{a}, inner), sAssignP(t, []*c05Acc{a, b}, g.safeNum(env)),
					sMark(ePath(t, a, b)))
			}
			return blk(sAssignP(t, []*c05Acc{a}, g.safeVal(env)))
		}
	case 6, 7:
		if d > 0 {
			inner := env.clone()
			th := g.block(inner, d-1, 1+g.n(3), false)
			var el []*c05Stmt
			if g.n(3) == 0 {
				el = g.block(env.clone(), d-1, 1+g.n(2), false)
			}
			return blk(sIf(g.expr(env, kBool, 1), th, el))
		}
	case 8, 9:
		if d > 0 {
			inner := env.clone()
			var src *c05Expr
			if l := env.ofKind(kList); len(l) > 0 && g.n(2) == 0 {
				src = eVar(g.pick(l))
			} else {
				src = eList(eNum(int64(g.n(3))), eNum(int64(g.n(3)+1)))
				if g.n(3) == 0 {
					src.Es = append(src.Es, eNum(5))
				}
			}
			inner.set(x, kNum)
			body := g.block(inner, d-1, 1+g.n(3), false)
			if _, ok := env.kinds[x]; ok {
				env.set(x, kNum)
			}
			return blk(sFor(x, src, body...))
		}
	case 10, 11:
		if d > 0 {
			ps, body, fi := g.funcLit(env, d-1, kAny)
			env.set(x, kFunc)
			env.funcs[x] = fi
			if g.n(3) == 0 {
				return blk(sAssign(x, eFunc(ps, body...)))
			}
			return blk(sFunc(x, ps, body...))
		}
	case 12, 13, 14:
		if c := g.callOf(env, kAny, 1); c != nil {
			fi := env.funcs[c.X]
			switch g.n(3) {
			case 0:
				return blk(sMark(c))
			case 1:
				return blk(sExpr(c))
			}
			env.set(x, fi.ret)
			if fi.ret == kFunc {
				env.funcs[x] = fi.retF
			}
			return blk(sAssign(x, c))
		}
	case 15:
		return blk(g.recursive(env, x), sMark(eCall(x, nil, eNum(int64(g.n(4))))))
	case 16, 17:
		// list built-ins, the result replaces the argument
		if l := env.ofKind(kList); len(l) > 0 {
			t := g.pick(l)
			switch g.n(5) {
			case 0:
				return blk(sAssign(t, eBuiltin("add", eVar(t), g.expr(env, kAny, 1))))
			case 1:
				return blk(sAssign(t, eBuiltin("add", eVar(t), g.expr(env, kNum, 1), eNum(int64(g.n(3))))))
			case 2:
				return blk(sAssign(t, eBuiltin("del", eVar(t), eNum(int64(g.n(3))))))
			case 3:
				env.set(x, kList)
				return blk(sAssign(x, eBuiltin("concat", eVar(t), g.expr(env, kList, 1))))
			}
			// an alias and a write through it
			env.set(x, kList)
			return blk(sAssign(x, eVar(t)), sAssignP(x, []*c05Acc{idx(eNum(0))}, g.safeNum(env)), sMark(eVar(t)))
		}
	case 18:
		if l := env.ofKind(kMap); len(l) > 0 {
			t := g.pick(l)
			if g.n(2) == 0 {
				return blk(sExpr(eBuiltin("del", eVar(t), g.key())), sMark(eBuiltin("len", eVar(t))))
			}
			env.set(x, kMap)
			return blk(sAssign(x, eVar(t)), sAssignP(x, []*c05Acc{idx(g.key())}, g.safeNum(env)), sMark(eVar(t)))
		}
	case 19:
		if !inFunc {
			return blk(g.template(env, x))
		}
	case 20, 21:
		// objects
		if l := env.ofKind(kTmpl); len(l) > 0 {
			t := g.pick(l)
			ti := env.tmpls[t]
			n := 0
			if ti.initAr > 0 {
				n = ti.initAr
			}
			env.set(x, kObj)
			env.tmpls[x] = ti
			if x == t {
				return nil
			}
			return blk(sAssign(x, eBuiltin("new", append([]*c05Expr{eVar(t)}, g.numArgs(env, n)...)...)),
				sMark(ePath(x, dot(g.pick(ti.fields)))))
		}
	case 22:
		if l := env.ofKind(kObj); len(l) > 0 {
			o := g.pick(l)
			ti := env.tmpls[o]
			var ms []string
			for m := range ti.methods {
				ms = append(ms, m)
			}
			if len(ms) > 0 {
				sortStrings(ms)
				m := g.pick(ms)
				return blk(sMark(eCall(o, []*c05Acc{dot(m)}, g.numArgs(env, ti.methods[m])...)), sMark(ePath(o, dot(g.pick(ti.fields)))))
			}
			return blk(sAssignP(o, []*c05Acc{dot(g.pick(ti.fields))}, g.safeNum(env)))
		}
	}
	// default: observe something
	if g.n(2) == 0 {
		return blk(sMark(eVar(x)))
	}
	return blk(sMark(g.expr(env, kAny, 2)))
}

// a container handed to a function that writes through its parameter and rebinds its scalar
// parameter: the caller sees the write, not the rebinding
func (g *c05gen) scenarioRef(env *c05env) []*c05Stmt {
	names := append([]string{}, c05Names...)
	g.rng().Shuffle(len(names), func(i, j int) { names[i], names[j] = names[j], names[i] })
	t, f, d, p, q := names[0], names[1], names[2], names[3], names[4]
	var lit *c05Expr
	var acc *c05Acc
	if g.n(2) == 0 {
		lit = eList(eNum(1), eNum(2), eNum(3))
		acc = idx(eNum(int64(g.n(5) - 2)))
		env.set(t, kList)
	} else {
		lit = eMap(eStr("x"), eNum(1), eNum(0), eNum(2))
		if g.n(2) == 0 {
			acc = dot(g.pick(c05fields))
		} else {
			acc = idx(g.key())
		}
		env.set(t, kMap)
	}
	env.set(d, kNum)
	env.set(f, kFunc)
	env.funcs[f] = &c05finfo{params: []c05kind{env.kinds[t], kNum}, ret: kNum}
	return blk(sAssign(t, lit), sAssign(d, eNum(int64(5+g.n(3)))),
		sFunc(f, prm(p, q), sAssignP(p, []*c05Acc{acc}, eVar(q)), sAssign(q, eNum(0)), sReturn(eBuiltin("len", eVar(p)))),
		sMark(eCall(f, nil, eVar(t), eVar(d))), sMark(eList(eVar(t), eVar(d))))
}

// result independence of the list built-ins: literals of length 0..5, concat once or twice on the
// same first argument (other arguments possibly empty), a write through a result or an argument,
// then everything is read; add / del are applied to a result (the argument of add / del must not
// be used afterwards)
func (g *c05gen) scenarioLists(env *c05env) []*c05Stmt {
	names := append([]string{}, c05Names...)
	g.rng().Shuffle(len(names), func(i, j int) { names[i], names[j] = names[j], names[i] })
	a, r1, r2 := names[0], names[1], names[2]
	lit := func(n int) *c05Expr {
		var es []*c05Expr
		for i := 0; i < n; i++ {
			es = append(es, eNum(int64(i+1)))
		}
		return eList(es...)
	}
	other := func() []*c05Expr {
		switch g.n(4) {
		case 0:
			return []*c05Expr{eList()}
		case 1:
			return []*c05Expr{eList(), eList()}
		case 2:
			return []*c05Expr{lit(1 + g.n(2)), eList()}
		}
		return []*c05Expr{lit(1 + g.n(3))}
	}
	ss := blk(sAssign(a, lit(g.n(6))))
	env.set(a, kList)
	env.set(r1, kList)
	ss = append(ss, sAssign(r1, eBuiltin("concat", append([]*c05Expr{eVar(a)}, other()...)...)))
	if g.n(3) > 0 {
		ss = append(ss, sAssign(r2, eBuiltin("concat", append([]*c05Expr{eVar(a)}, other()...)...)))
		env.set(r2, kList)
	} else {
		r2 = r1
	}
	w := []string{a, r1, r2}[g.n(3)]
	ss = append(ss, sAssignP(w, []*c05Acc{idx(eNum(int64(g.n(3) - 1)))}, eNum(100)))
	switch g.n(4) {
	case 0:
		ss = append(ss, sAssign(r1, eBuiltin("add", eVar(r1), eNum(50), eNum(0))))
	case 1:
		ss = append(ss, sAssign(r1, eBuiltin("add", eVar(r1), eNum(51))))
	case 2:
		ss = append(ss, sAssign(r1, eBuiltin("del", eVar(r1), eNum(0))))
	}
	ss = append(ss, sMark(eList(eVar(a), eVar(r1), eVar(r2))))
	return ss
}

// two or three templates, an object, its properties and methods
func (g *c05gen) scenarioObj(env *c05env) []*c05Stmt {
	names := append([]string{}, c05Names...)
	g.rng().Shuffle(len(names), func(i, j int) { names[i], names[j] = names[j], names[i] })
	var ss []*c05Stmt
	nt := 2 + g.n(2)
	for i := 0; i < nt; i++ {
		ss = append(ss, g.template(env, names[i]))
	}
	t, o := names[nt-1], names[nt]
	ti := env.tmpls[t]
	n := 0
	if ti.initAr > 0 {
		n = ti.initAr
	}
	ss = append(ss, sAssign(o, eBuiltin("new", append([]*c05Expr{eVar(t)}, g.numArgs(env, n)...)...)))
	env.set(o, kObj)
	env.tmpls[o] = ti
	var fs []*c05Expr
	for _, f := range ti.fields {
		fs = append(fs, ePath(o, dot(f)))
	}
	ss = append(ss, sMark(eList(fs...)), sMark(eBuiltin("len", eVar(o))))
	var ms []string
	for m := range ti.methods {
		ms = append(ms, m)
	}
	sortStrings(ms)
	for _, m := range ms {
		ss = append(ss, sMark(eCall(o, []*c05Acc{dot(m)}, g.numArgs(env, ti.methods[m])...)))
	}
	return ss
}

func sortStrings(l []string) {
	for i := 1; i < len(l); i++ {
		for j := i; j > 0 && l[j] < l[j-1]; j-- {
			l[j], l[j-1] = l[j-1], l[j]
		}
	}
}

func (g *c05gen) block(env *c05env, d int, n int, inFunc bool) []*c05Stmt {
	var ss []*c05Stmt
	// block-local names are declared first, so that what an earlier entry left is never read
	if g.n(3) == 0 {
		x := g.name()
		k := []c05kind{kNum, kNum, kList}[g.n(3)]
		ss = append(ss, sLet(x, g.expr(env, k, 1)))
		env.set(x, k)
	}
	for i := 0; i < n; i++ {
		ss = append(ss, g.stmt(env, d, inFunc)...)
	}
	return ss
}

func (g *c05gen) program() *c05Prog {
	env := &c05env{map[string]c05kind{}, map[string]*c05finfo{}, map[string]*c05tinfo{}}
	var ss []*c05Stmt
	for i := 3 + g.n(8); i > 0; i-- {
		ss = append(ss, g.stmt(env, 2, false)...)
	}
	var probes []*c05Expr
	for i := g.n(3); i > 0; i-- {
		probes = append(probes, g.expr(env, kAny, 2))
	}
	return c05prog("random", probes, ss...)
}
