//go:build c15

package main

// C15, "every suspended thread can be resumed" while OTHER threads of the same debugger run.
//
// One stepper thread runs a loop over a three-deep function call with a breakpoint in the innermost
// function; 2..6 runner threads loop over function calls (every call and return of theirs takes the
// debugger's write lock).  Whenever the stepper is reported suspended it is given a continue
// command (mostly stepout, also stepover / stepin / resume).  Oracles, all against the bound
// c15bound taken twice: (1) the continue command returns; (2) the thread it was addressed to
// leaves its suspension (hook debug.resumed); (3) after the breakpoint is removed every thread
// runs to its end; (4) the stepper's result equals the undebugged result.  A debugger that is
// wedged by a command (recursive read lock, lock held over a wait ..) fails (1) or (2) within
// a handful of commands because a writer is pending practically all the time.

import (
	"fmt"
	"strings"
	"sync"
	"time"

	"github.com/krotik/ecal/interpreter"
	"github.com/krotik/ecal/parser"
	"github.com/krotik/ecal/scope"
	"github.com/krotik/ecal/util"
	"github.com/krotik/ecal/verifhook"
)

const c15busyStepper = `func d3(x) {
  y := x + 1
  return y
}
func d2(x) {
  z := d3(x)
  return z
}
func d1(x) {
  w := d2(x)
  return w
}
r := 0
for i in range(1, %d) {
  r := r + d1(i)
}
r`

const c15busyRunner = `func work(x) {
  return x + 1
}
s := 0
for i in range(1, %d) {
  s := work(s)
}
s`

type c15busyScn struct {
	Kind     string   `json:"kind"` // busy
	Runners  int      `json:"runners"`
	Calls    int      `json:"calls"`    // calls per runner
	Rounds   int      `json:"rounds"`   // loop rounds of the stepper
	Commands []string `json:"commands"` // cycle of commands given at the suspensions
	Max      int      `json:"max_commands"`
}

func c15busyCmd(s string) util.ContType {
	switch s {
	case "stepin":
		return util.StepIn
	case "stepover":
		return util.StepOver
	case "stepout":
		return util.StepOut
	}
	return util.Resume
}

func c15busy(c *Ctx, scn c15busyScn) {
	plain := func(src string) (interface{}, error) {
		erp := interpreter.NewECALRuntimeProvider("c15busy-plain", nil, nil)
		defer erp.Cron.Stop()
		return evalProgram(c15src, src, nil, erp)
	}
	stepSrc := fmt.Sprintf(c15busyStepper, scn.Rounds)
	want := guarded(20*time.Second, func() (interface{}, error) { return plain(stepSrc) })
	if want.Err != nil || want.Panicked || want.TimedOut {
		c.Notes = append(c.Notes, "busy scenario: the plain run of the stepper did not give a result")
		return
	}
	erp := interpreter.NewECALRuntimeProvider("c15busy", nil, nil)
	real := interpreter.NewECALDebugger(scope.NewScope(scope.GlobalScope))
	erp.Debugger = real
	real.BreakOnError(false)
	real.SetBreakPoint(c15src, 2)

	var mu sync.Mutex
	suspended := map[uint64]int{}
	resumed := map[uint64]int{}
	hookSeen := false
	verifhook.SetHandler(func(point string, args ...interface{}) {
		if len(args) == 0 {
			return
		}
		tid, ok := args[0].(uint64)
		if !ok {
			return
		}
		mu.Lock()
		defer mu.Unlock()
		switch point {
		case "debug.suspend":
			hookSeen = true
			suspended[tid]++
		case "debug.resumed":
			resumed[tid]++
		}
	})
	defer verifhook.SetHandler(nil)

	type thread struct {
		tid  uint64
		done chan struct{}
		val  interface{}
		err  error
	}
	start := func(name, src string) *thread {
		ast, err := parser.ParseWithRuntime(name, src, erp)
		if err == nil {
			err = ast.Runtime.Validate()
		}
		if err != nil {
			return nil
		}
		t := &thread{tid: erp.NewThreadID(), done: make(chan struct{})}
		go func() {
			defer close(t.done)
			defer func() {
				if p := recover(); p != nil {
					t.err = fmt.Errorf("panic: %v", p)
				}
			}()
			t.val, t.err = ast.Runtime.Eval(scope.NewScope(scope.GlobalScope), make(map[string]interface{}), t.tid)
			real.RecordThreadFinished(t.tid)
		}()
		return t
	}
	stepper := start(c15src, stepSrc)
	if stepper == nil {
		c.Notes = append(c.Notes, "busy scenario: the stepper program is not valid")
		erp.Cron.Stop()
		return
	}
	var runners []*thread
	for i := 0; i < scn.Runners; i++ {
		if r := start(fmt.Sprintf("runner%d", i), fmt.Sprintf(c15busyRunner, scn.Calls)); r != nil {
			runners = append(runners, r)
		}
	}
	key := fmt.Sprintf("busy|%d|%d|%d|%v", scn.Runners, scn.Calls, scn.Rounds, scn.Commands)
	c.Count(key, true, scn)
	c.Dist["scenario_busy"]++
	finished := func(t *thread) bool {
		select {
		case <-t.done:
			return true
		default:
			return false
		}
	}
	counts := func() (int, int) {
		mu.Lock()
		defer mu.Unlock()
		return suspended[stepper.tid], resumed[stepper.tid]
	}
	given := 0
	violated := false
	// twice the bound before anything is concluded from time
	within := func(f func() bool) bool {
		deadline := time.Now().Add(2 * c15bound)
		for time.Now().Before(deadline) {
			if f() {
				return true
			}
			time.Sleep(200 * time.Microsecond)
		}
		return f()
	}
	for given < scn.Max && !finished(stepper) {
		// wait for the next suspension of the stepper (or its end)
		s0, r0 := counts()
		if !(s0 > r0 && c15reported(real, stepper.tid)) {
			if !within(func() bool {
				s, r := counts()
				return finished(stepper) || (s > r && c15reported(real, stepper.tid))
			}) {
				mu.Lock()
				hs := hookSeen
				mu.Unlock()
				if !hs {
					c.Notes = append(c.Notes, "busy scenario: hook points debug.suspend / debug.resumed not seen")
				} else {
					c.Violate("debugged-thread-stalls", fmt.Sprintf("with %d other threads running, the stepping thread neither suspended nor finished within %v after %d continue commands", len(runners), 2*c15bound, given), scn)
					violated = true
				}
				break
			}
			if finished(stepper) {
				break
			}
		}
		_, rBefore := counts()
		cmd := scn.Commands[given%len(scn.Commands)]
		given++
		c.Dist["busy_cmd_"+cmd]++
		ret := make(chan struct{})
		go func() {
			defer close(ret)
			defer func() { recover() }()
			real.Continue(stepper.tid, c15busyCmd(cmd))
		}()
		if !within(func() bool {
			select {
			case <-ret:
				return true
			default:
				return false
			}
		}) {
			c.Violate("continue-does-not-return", fmt.Sprintf("Continue(%s) for a suspended thread did not return within %v while %d other threads were running (command %d of the scenario); the thread stays suspended", cmd, 2*c15bound, len(runners), given), scn)
			violated = true
			break
		}
		if !within(func() bool { _, r := counts(); return r > rBefore }) {
			c.Violate("lost-wakeup", fmt.Sprintf("a thread reported as suspended was given Continue(%s) while %d other threads were running and did not leave its suspension within %v (command %d of the scenario)", cmd, len(runners), 2*c15bound, given), scn)
			violated = true
			break
		}
	}
	c.Dist["busy_commands_given"] += given
	if !violated {
		// no more suspensions: everything must run to its end, the result must be the plain one
		real.RemoveBreakPoint(c15src, 2)
		stopFeeding := make(chan struct{})
		go func() { // a suspension that was already on its way is continued
			for {
				select {
				case <-stopFeeding:
					return
				default:
				}
				s, r := counts()
				if s > r && c15reported(real, stepper.tid) {
					func() { defer func() { recover() }(); real.Continue(stepper.tid, util.Resume) }()
				}
				time.Sleep(time.Millisecond)
			}
		}()
		all := append([]*thread{stepper}, runners...)
		ok := within(func() bool {
			for _, t := range all {
				if !finished(t) {
					return false
				}
			}
			return true
		}) || within(func() bool { // the stepper's loop may simply be long: a second period
			for _, t := range all {
				if !finished(t) {
					return false
				}
			}
			return true
		})
		close(stopFeeding)
		if !ok {
			n := 0
			for _, t := range all {
				if !finished(t) {
					n++
				}
			}
			c.Violate("debugged-program-does-not-finish", fmt.Sprintf("after the breakpoint was removed %d of %d threads did not run to their end within %v", n, len(all), 4*c15bound), scn)
			violated = true
		} else if stepper.err != nil || fmt.Sprint(stepper.val) != fmt.Sprint(want.Val) {
			c.Violate("result-differs", fmt.Sprintf("the stepped thread ended with %v / %v, the undebugged run gives %v", stepper.val, stepper.err, want.Val), scn)
		} else {
			for _, r := range runners {
				if r.err != nil || fmt.Sprint(r.val) != fmt.Sprint(scn.Calls) {
					c.Violate("result-differs", fmt.Sprintf("a running thread ended with %v / %v instead of %d", r.val, r.err, scn.Calls), scn)
					break
				}
			}
		}
	}
	// clean-up (a wedged debugger keeps its goroutines; they hold no CPU)
	guarded(2*time.Second, func() (interface{}, error) {
		for i := 0; i < 3; i++ {
			real.StopThreads(0)
			time.Sleep(2 * time.Millisecond)
		}
		return nil, nil
	})
	erp.Cron.Stop()
}

func c15busyScenarios(c *Ctx) {
	n := c.Pick(4, 24)
	cycles := [][]string{
		{"stepout"},
		{"stepout", "stepover", "stepout", "resume"},
		{"stepin", "stepout", "stepover"},
		{"resume", "stepout"},
	}
	for i := 0; i < n && !c.Enough(); i++ {
		scn := c15busyScn{Kind: "busy", Runners: 2 + c.Rng.Intn(5), Calls: 30000 + c.Rng.Intn(30000), Rounds: 200,
			Commands: cycles[i%len(cycles)], Max: c.Pick(150, 600)}
		before := len(c.Violations)
		c15busy(c, scn)
		if len(c.Violations) > before {
			break
		}
	}
	c.Extra["busy_scenarios"] = n
	_ = strings.Join
}
