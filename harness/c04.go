//go:build c04

package main

// C04 — control flow and try/except/otherwise/finally.  A *control skeleton* program
// (coq/Model/ControlSyntax.v) is rendered to ECAL source, run by the real interpreter with
// Go functions mark/iter/kv/caught/retv in scope that append events to a trace, and the
// ordered trace plus the way Runtime.Eval ended are handed to Coq, which compares them with
// the Spec semantics (and the model of the repaired code) of the same skeleton.

import (
	"fmt"
	"reflect"
	"strconv"
	"strings"
	"time"

	"github.com/krotik/ecal/parser"
	"github.com/krotik/ecal/scope"
	"github.com/krotik/ecal/util"
)

func init() { register("C04", runC04) }

// ---- skeleton syntax ------------------------------------------------------------------

type c04Stmt struct {
	K    string      `json:"k"`              // mark raise rterr return break continue if cond srcerr range list map try call
	N    int         `json:"n,omitempty"`    // mark number / raised type / returned value / condition count
	A    []int64     `json:"a,omitempty"`    // range: from, to, step; list: elements
	Keys []string    `json:"keys,omitempty"` // map keys
	Br   []c04Branch `json:"br,omitempty"`   // if / elif branches
	Else *[]c04Stmt  `json:"else,omitempty"`
	Body []c04Stmt   `json:"body,omitempty"`
	Cl   []c04Clause `json:"cl,omitempty"`
	Oth  *[]c04Stmt  `json:"oth,omitempty"`
	Fin  *[]c04Stmt  `json:"fin,omitempty"`
	Fail *c04Guard   `json:"fail,omitempty"` // cond: the condition, evaluated once more, logs N and fails with K; srcerr: N, K
}

// a guard: the literal G, or (E != nil) a call of a prelude function that logs mark(E.N) and then
// returns true (O=1) / false (O=0) / fails with error kind K (O=2)
type c04Branch struct {
	G bool      `json:"g"`
	E *c04Guard `json:"e,omitempty"`
	B []c04Stmt `json:"b"`
}

// K: 0 = runtime error (call of an unknown function), t>0 = raise("T<t>", "D<t>", t)
type c04Guard struct {
	N int `json:"n"`
	O int `json:"o"`
	K int `json:"k"`
}

// T: listed types, n>0 = "T<n>", 0 = "Unknown construct"; Bind: 0 none, 1 `as e`, 2 `e`
type c04Clause struct {
	T    []int     `json:"t"`
	Bind int       `json:"bind"`
	H    []c04Stmt `json:"h"`
}

type c04case struct {
	Prog   []c04Stmt `json:"prog"`
	Source string    `json:"source,omitempty"` // rendered ECAL text (information only)
	Origin string    `json:"origin,omitempty"`
}

func c04mark(n int) c04Stmt { return c04Stmt{K: "mark", N: n} }

// ---- rendering to ECAL ----------------------------------------------------------------

type c04render struct {
	sb      strings.Builder
	id      int
	prelude bool
}

func c04typeName(t int) string {
	if t == 0 {
		return "Unknown construct"
	}
	return fmt.Sprintf("T%d", t)
}

func (r *c04render) block(b []c04Stmt) {
	for _, s := range b {
		r.stmt(s)
	}
}

func (r *c04render) stmt(s c04Stmt) {
	w := func(f string, a ...interface{}) { fmt.Fprintf(&r.sb, f, a...) }
	r.id++
	id := r.id
	switch s.K {
	case "mark":
		w("mark(%d)\n", s.N)
	case "raise":
		w("raise(\"T%d\", \"D%d\", %d)\n", s.N, s.N, s.N)
	case "rterr":
		w("nofunc()\n")
	case "return":
		w("return %d\n", s.N)
	case "break":
		w("break\n")
	case "continue":
		w("continue\n")
	case "if":
		for i, br := range s.Br {
			kw := "if"
			if i > 0 {
				kw = "} elif"
			}
			if br.E != nil {
				r.prelude = true
			}
			w("%s %s {\n", kw, c04guardSrc(br))
			r.block(br.B)
		}
		if s.Else != nil {
			w("} else {\n")
			r.block(*s.Else)
		}
		w("}\n")
	case "cond":
		if s.Fail != nil {
			r.prelude = true
			w("c%d := %d\nfor cr%d(c%d, %d) {\nc%d := c%d - 1\n", id, s.N, s.Fail.K, id, s.Fail.N, id, id)
		} else {
			w("c%d := %d\nfor c%d > 0 {\nc%d := c%d - 1\n", id, s.N, id, id, id)
		}
		r.block(s.Body)
		w("}\n")
	case "srcerr":
		r.prelude = true
		w("for x%d in gr%d(%d) {\niter(x%d)\n", id, s.Fail.K, s.Fail.N, id)
		r.block(s.Body)
		w("}\n")
	case "range":
		w("for i%d in range(%d, %d, %d) {\niter(i%d)\n", id, s.A[0], s.A[1], s.A[2], id)
		r.block(s.Body)
		w("}\n")
	case "list":
		var el []string
		for _, x := range s.A {
			el = append(el, fmt.Sprint(x))
		}
		w("for x%d in [%s] {\niter(x%d)\n", id, strings.Join(el, ", "), id)
		r.block(s.Body)
		w("}\n")
	case "map":
		var el []string
		for _, k := range s.Keys {
			el = append(el, fmt.Sprintf("%q : %q", k, "v"+k))
		}
		w("m%d := {%s}\nfor [k%d, v%d] in m%d {\nkv(k%d, v%d)\n", id, strings.Join(el, ", "), id, id, id, id, id)
		r.block(s.Body)
		w("}\n")
	case "try":
		w("try {\n")
		r.block(s.Body)
		for ci, cl := range s.Cl {
			w("} except ")
			var ts []string
			for _, t := range cl.T {
				ts = append(ts, strconv.Quote(c04typeName(t)))
			}
			w("%s", strings.Join(ts, ", "))
			if len(ts) > 0 {
				w(" ")
			}
			ev := fmt.Sprintf("e%dx%d", id, ci)
			switch cl.Bind {
			case 1:
				w("as %s {\ncaught(%s)\n", ev, ev)
			case 2:
				w("%s {\ncaught(%s)\n", ev, ev)
			default:
				w("{\n")
			}
			r.block(cl.H)
		}
		if s.Oth != nil {
			w("} otherwise {\n")
			r.block(*s.Oth)
		}
		if s.Fin != nil {
			w("} finally {\n")
			r.block(*s.Fin)
		}
		w("}\n")
	case "call":
		w("func f%d() {\n", id)
		r.block(s.Body)
		w("}\nretv(f%d())\n", id)
	default:
		panic("c04: unknown statement kind " + s.K)
	}
}

// the prelude declares the functions guards, failing conditions and failing iterated
// expressions call: gt/gf log and answer, gr<k> logs and fails, cr<k>(c, m) is true while c > 0
// and then logs m and fails
func c04prelude() string {
	var sb strings.Builder
	sb.WriteString("func gt(n) {\nmark(n)\nreturn true\n}\nfunc gf(n) {\nmark(n)\nreturn false\n}\n")
	for k := 0; k <= 3; k++ {
		fail := "return nofunc()"
		if k > 0 {
			fail = fmt.Sprintf("raise(\"T%d\", \"D%d\", %d)", k, k, k)
		}
		fmt.Fprintf(&sb, "func gr%d(n) {\nmark(n)\n%s\n}\n", k, fail)
		fmt.Fprintf(&sb, "func cr%d(c, m) {\nif c > 0 {\nreturn true\n}\nmark(m)\n%s\n}\n", k, fail)
	}
	return sb.String()
}

func c04guardSrc(br c04Branch) string {
	if br.E == nil {
		return fmt.Sprint(br.G)
	}
	switch br.E.O {
	case 1:
		return fmt.Sprintf("gt(%d)", br.E.N)
	case 0:
		return fmt.Sprintf("gf(%d)", br.E.N)
	}
	return fmt.Sprintf("gr%d(%d)", br.E.K, br.E.N)
}

func c04source(p []c04Stmt) string {
	r := &c04render{}
	r.block(p)
	src := r.sb.String()
	if r.prelude {
		return c04prelude() + src
	}
	return src
}

// ---- rendering to Coq -----------------------------------------------------------------

func c04ety(t int) string {
	if t == 0 {
		return "EUnknownConstruct"
	}
	return fmt.Sprintf("EUser %d", t)
}

func c04coqBlock(b []c04Stmt) string {
	var items []string
	for _, s := range b {
		items = append(items, c04coqStmt(s))
	}
	return CoqList(items)
}

func c04coqOpt(b *[]c04Stmt) string {
	if b == nil {
		return "None"
	}
	return "(Some " + c04coqBlock(*b) + ")"
}

func c04coqErrk(k int) string {
	if k == 0 {
		return "KRuntime"
	}
	return fmt.Sprintf("(KUser %d)", k)
}

func c04coqGuard(br c04Branch) string {
	if br.E == nil {
		return "GBool " + CoqBool(br.G)
	}
	switch br.E.O {
	case 1:
		return fmt.Sprintf("GEval %d GTrue", br.E.N)
	case 0:
		return fmt.Sprintf("GEval %d GFalse", br.E.N)
	}
	return fmt.Sprintf("GEval %d (GFail %s)", br.E.N, c04coqErrk(br.E.K))
}

func c04coqStmt(s c04Stmt) string {
	switch s.K {
	case "mark":
		return fmt.Sprintf("Mark %d", s.N)
	case "raise":
		return fmt.Sprintf("Raise %d", s.N)
	case "rterr":
		return "RuntimeErr"
	case "return":
		return fmt.Sprintf("Return %d", s.N)
	case "break":
		return "Break"
	case "continue":
		return "Continue"
	case "if":
		var brs []string
		for _, br := range s.Br {
			brs = append(brs, "("+c04coqGuard(br)+", "+c04coqBlock(br.B)+")")
		}
		return "If " + CoqList(brs) + " " + c04coqOpt(s.Else)
	case "cond":
		fail := "None"
		if s.Fail != nil {
			fail = fmt.Sprintf("(Some (%d, %s))", s.Fail.N, c04coqErrk(s.Fail.K))
		}
		return fmt.Sprintf("LoopCond %d %s %s", s.N, fail, c04coqBlock(s.Body))
	case "srcerr":
		return fmt.Sprintf("LoopSrc %d %s %s", s.Fail.N, c04coqErrk(s.Fail.K), c04coqBlock(s.Body))
	case "range":
		return fmt.Sprintf("LoopRange %s %s %s %s", CoqZ(s.A[0]), CoqZ(s.A[1]), CoqZ(s.A[2]), c04coqBlock(s.Body))
	case "list":
		var el []string
		for _, x := range s.A {
			el = append(el, CoqZ(x))
		}
		return "LoopList " + CoqList(el) + " " + c04coqBlock(s.Body)
	case "map":
		var el []string
		for _, k := range s.Keys {
			el = append(el, c04coqKey(k))
		}
		return "LoopMap " + CoqList(el) + " " + c04coqBlock(s.Body)
	case "try":
		var cls []string
		for _, cl := range s.Cl {
			var ts []string
			for _, t := range cl.T {
				ts = append(ts, c04ety(t))
			}
			b := [...]string{"BNone", "BAs", "BIdent"}[cl.Bind]
			cls = append(cls, "("+CoqList(ts)+", "+b+", "+c04coqBlock(cl.H)+")")
		}
		return "Try " + c04coqBlock(s.Body) + " " + CoqList(cls) + " " + c04coqOpt(s.Oth) + " " + c04coqOpt(s.Fin)
	case "call":
		return "FuncCall " + c04coqBlock(s.Body)
	}
	panic("c04: unknown statement kind " + s.K)
}

func c04coqKey(k string) string {
	if k == "" {
		return "[]"
	}
	var el []string
	for i := 0; i < len(k); i++ {
		el = append(el, fmt.Sprintf("%d%%N", k[i]))
	}
	return "[" + strings.Join(el, ";") + "]"
}

// ---- running the implementation -------------------------------------------------------

// c04typeOf maps an error type string to the Coq term of its [ety].
func c04typeOf(ts string, detail string, data interface{}, checkDetail bool) string {
	switch ts {
	case util.ErrUnknownConstruct.Error():
		return "EUnknownConstruct"
	case "UnexpectedError":
		return "(EOther 1)"
	case util.ErrEndOfIteration.Error():
		return "(EOther 2)"
	case util.ErrContinueIteration.Error():
		return "(EOther 3)"
	case util.ErrIsIterator.Error():
		return "(EOther 4)"
	case util.ErrReturn.Error():
		return "(EOther 5)"
	}
	if strings.HasPrefix(ts, "T") {
		if n, err := strconv.Atoi(ts[1:]); err == nil && n > 0 {
			// raise("T<n>", "D<n>", <n>): detail and data must come through unchanged
			if checkDetail {
				if f, ok := data.(float64); !ok || f != float64(n) || detail != fmt.Sprintf("D%d", n) {
					return "(EOther 77)"
				}
			}
			return fmt.Sprintf("(EUser %d)", n)
		}
	}
	return "(EOther 50)"
}

const c04maxEvents = 3000

type c04obs struct {
	events []string
	compl  string
}

func c04run(src string) (c04obs, callResult) {
	var obs c04obs
	add := func(ev string) {
		if len(obs.events) < c04maxEvents {
			obs.events = append(obs.events, ev)
		}
	}
	corrupt := func() { add("EvMark 999999") }
	vs := scope.NewScope(scope.GlobalScope)
	fn := func(f func(args []interface{})) *goFunc {
		return &goFunc{func(args []interface{}) (interface{}, error) { f(args); return nil, nil }}
	}
	num := func(v interface{}) (int64, bool) {
		f, ok := v.(float64)
		if !ok || f != float64(int64(f)) {
			return 0, false
		}
		return int64(f), true
	}
	vs.SetValue("mark", fn(func(a []interface{}) {
		if n, ok := num(a[0]); ok && len(a) == 1 && n >= 0 {
			add(fmt.Sprintf("EvMark %d", n))
		} else {
			corrupt()
		}
	}))
	vs.SetValue("iter", fn(func(a []interface{}) {
		if n, ok := num(a[0]); ok && len(a) == 1 {
			add("EvIter " + CoqZ(n))
		} else {
			corrupt()
		}
	}))
	vs.SetValue("kv", fn(func(a []interface{}) {
		k, ok1 := a[0].(string)
		v, ok2 := a[1].(string)
		if len(a) == 2 && ok1 && ok2 && v == "v"+k {
			add("EvKey " + c04coqKey(k))
		} else {
			corrupt()
		}
	}))
	vs.SetValue("caught", fn(func(a []interface{}) {
		if len(a) != 1 {
			corrupt()
			return
		}
		if a[0] == nil {
			add("EvCaught (EOther 0)") // the variable is not bound
			return
		}
		m, ok := a[0].(map[interface{}]interface{})
		if !ok {
			corrupt()
			return
		}
		add("EvCaught " + c04typeOf(fmt.Sprint(m["type"]), fmt.Sprint(m["detail"]), m["data"], true))
	}))
	vs.SetValue("retv", fn(func(a []interface{}) {
		if len(a) == 1 && a[0] == nil {
			add("EvRet None")
		} else if n, ok := num(a[0]); ok && len(a) == 1 && n >= 0 {
			add(fmt.Sprintf("EvRet (Some %d)", n))
		} else {
			corrupt()
		}
	}))
	r := guarded(5*time.Second, func() (interface{}, error) { return evalProgram("c04", src, vs, nil) })
	if r.TimedOut || r.Panicked {
		return obs, r
	}
	switch e := r.Err.(type) {
	case nil:
		obs.compl = "Normal"
	case *util.RuntimeErrorWithDetail:
		obs.compl = "(Raised " + c04typeOf(e.Type.Error(), e.Detail, e.Data, true) + ")"
	case *util.RuntimeError:
		switch e.Type {
		case util.ErrEndOfIteration:
			obs.compl = "Broke"
		case util.ErrContinueIteration:
			obs.compl = "Continued"
		default:
			obs.compl = "(Raised " + c04typeOf(e.Type.Error(), "", nil, false) + ")"
		}
	default:
		obs.compl = "(Raised (EOther 51))"
		// a *returnValue that reached the top level (return outside any function)
		if v := reflect.ValueOf(r.Err); v.Kind() == reflect.Ptr && v.Elem().Kind() == reflect.Struct && v.Elem().NumField() > 0 {
			if re, ok := v.Elem().Field(0).Interface().(*util.RuntimeError); ok && re != nil && re.Type == util.ErrReturn {
				if n, err := strconv.Atoi(strings.TrimPrefix(re.Detail, "Return value: ")); err == nil && n >= 0 {
					obs.compl = fmt.Sprintf("(Returned %d)", n)
				}
			}
		}
	}
	return obs, r
}

func c04exits(b []c04Stmt, seen map[string]bool) {
	for _, s := range b {
		seen[s.K] = true
		for _, br := range s.Br {
			c04exits(br.B, seen)
			if br.E != nil && br.E.O == 2 {
				seen["failing-guard"] = true
			}
		}
		if s.K == "cond" && s.Fail != nil {
			seen["failing-condition"] = true
		}
		if s.Else != nil {
			c04exits(*s.Else, seen)
		}
		c04exits(s.Body, seen)
		for _, cl := range s.Cl {
			c04exits(cl.H, seen)
			switch {
			case len(cl.T) == 0 && cl.Bind == 0:
				seen["clause-bare"] = true
			case len(cl.T) == 0:
				seen["clause-bare-bound"] = true
			case len(cl.T) == 1 && cl.Bind == 0:
				seen["clause-one-type"] = true
			case len(cl.T) == 1:
				seen["clause-one-type-bound"] = true
			case cl.Bind == 0:
				seen["clause-several-types"] = true
			default:
				seen["clause-several-types-bound"] = true
			}
		}
		if s.Oth != nil {
			seen["otherwise"] = true
			c04exits(*s.Oth, seen)
		}
		if s.Fin != nil {
			seen["finally"] = true
			c04exits(*s.Fin, seen)
		}
	}
}

func c04one(c *Ctx, d c04case) {
	src := c04source(d.Prog)
	d.Source = src
	term := c04coqBlock(d.Prog)
	if _, err := parser.Parse("c04", src); err != nil {
		// the renderer only produces documented syntax
		c.Violate("parse-error", "a rendered skeleton program does not parse: "+err.Error(), d)
		c.Count(term, true, d)
		return
	}
	obs, r := c04run(src)
	switch {
	case r.TimedOut:
		c.Violate("nontermination", "a terminating skeleton program did not finish within 5s", d)
		c.Count(term, true, d)
		return
	case r.Panicked:
		c.Violate("panic", "evaluating a skeleton program panicked: "+r.PanicMsg, d)
		c.Count(term, true, d)
		return
	}
	seen := map[string]bool{}
	c04exits(d.Prog, seen)
	for k := range seen {
		c.Dist["has_"+k]++
	}
	if d.Origin != "" {
		c.Dist["origin_"+d.Origin]++
	}
	c.Dist["ended_"+strings.Fields(strings.Trim(obs.compl, "()"))[0]]++
	id := c.NewID()
	nontrivial := seen["raise"] || seen["rterr"] || seen["return"] || seen["break"] || seen["continue"] ||
		seen["failing-guard"] || seen["failing-condition"] || seen["srcerr"]
	c.AddCase(id, fmt.Sprintf("mkCase %d %s %s %s", id, term, CoqList(obs.events), obs.compl), d, term, nontrivial)
}

// ---- generators -----------------------------------------------------------------------

func c04blk(s ...c04Stmt) []c04Stmt { return s }
func c04opt(s ...c04Stmt) *[]c04Stmt {
	b := append([]c04Stmt{}, s...)
	return &b
}

// the seven ways out of a position
func c04exitStmts() []c04Stmt {
	return []c04Stmt{c04mark(20), {K: "raise", N: 1}, {K: "raise", N: 2}, {K: "rterr"},
		{K: "return", N: 7}, {K: "break"}, {K: "continue"}}
}

// every except-clause shape; h is the handler block of the clause expected to matter
func c04clauseShapes(h []c04Stmt) [][]c04Clause {
	o := c04blk(c04mark(30))
	return [][]c04Clause{
		{},
		{{T: []int{}, Bind: 0, H: h}},
		{{T: []int{}, Bind: 1, H: h}},
		{{T: []int{}, Bind: 2, H: h}},
		{{T: []int{1}, Bind: 0, H: h}},
		{{T: []int{2}, Bind: 0, H: h}},
		{{T: []int{1}, Bind: 1, H: h}},
		{{T: []int{2}, Bind: 1, H: h}},
		{{T: []int{0}, Bind: 0, H: h}},
		{{T: []int{3, 1}, Bind: 0, H: h}},
		{{T: []int{2, 1}, Bind: 1, H: h}},
		{{T: []int{2, 3}, Bind: 0, H: h}},
		{{T: []int{2}, Bind: 0, H: o}, {T: []int{3, 1}, Bind: 1, H: h}, {T: []int{}, Bind: 0, H: o}},
		{{T: []int{1}, Bind: 2, H: h}},
		{{T: []int{1}, Bind: 0, H: h}, {T: []int{}, Bind: 1, H: o}},
		{{T: []int{}, Bind: 0, H: h}, {T: []int{1}, Bind: 1, H: o}},
	}
}

func c04wrap(loopKind int, inner []c04Stmt) []c04Stmt {
	body := append(append(c04blk(c04mark(1)), inner...), c04mark(4))
	var loop c04Stmt
	switch loopKind {
	case 0:
		loop = c04Stmt{K: "list", A: []int64{1, 2}, Body: body}
	case 1:
		loop = c04Stmt{K: "cond", N: 2, Body: body}
	case 2:
		loop = c04Stmt{K: "range", A: []int64{3, 1, -2}, Body: body}
	default:
		loop = c04Stmt{K: "map", Keys: []string{"b", "a"}, Body: body}
	}
	return c04blk(c04Stmt{K: "call", Body: c04blk(loop, c04mark(5))}, c04mark(6))
}

func c04exhaustive(c *Ctx, emit func(c04case)) int {
	n := 0
	loopKinds := c.Pick(1, 4)
	exits := c04exitStmts()
	for pos := 0; pos < 4; pos++ { // 0 try block, 1 handler, 2 otherwise, 3 finally
		for _, x := range exits {
			site := c04blk(c04mark(2), x, c04mark(3))
			h := c04blk(c04mark(10))
			if pos == 1 {
				h = site
			}
			for si, cls := range c04clauseShapes(h) {
				for oth := 0; oth < 2; oth++ {
					for fin := 0; fin < 2; fin++ {
						if (pos == 2 && oth == 0) || (pos == 3 && fin == 0) {
							continue
						}
						for lk := 0; lk < loopKinds; lk++ {
							kind := lk
							if loopKinds == 1 {
								kind = n % 4
							}
							t := c04Stmt{K: "try", Cl: cls}
							switch pos {
							case 0:
								t.Body = site
							case 1:
								t.Body = c04blk(c04mark(2), c04Stmt{K: "raise", N: 1}, c04mark(3))
							default:
								// otherwise needs a normal try block; for finally try both
								if pos == 3 && si%2 == 1 {
									t.Body = c04blk(c04mark(8), c04Stmt{K: "raise", N: 1})
								} else {
									t.Body = c04blk(c04mark(8))
								}
							}
							if oth == 1 {
								t.Oth = c04opt(c04mark(11))
								if pos == 2 {
									t.Oth = &site
								}
							}
							if fin == 1 {
								t.Fin = c04opt(c04mark(12))
								if pos == 3 {
									t.Fin = &site
								}
							}
							emit(c04case{Prog: c04wrap(kind, c04blk(t)), Origin: "exhaustive"})
							n++
						}
					}
				}
			}
		}
	}
	return n
}

// c04guardFamily: guard outcome x position (first / middle clause) x what follows (nothing, elif
// true, elif false, else, elif false + else) x enclosure (none, try with a binding bare clause,
// try with a typed clause, function{loop}); plus failing loop conditions and failing iterated
// expressions with every kind of body exit, enclosed in a try or not.
func c04guardFamily(emit func(c04case)) int {
	n := 0
	enclose := func(inner []c04Stmt, enc int) []c04Stmt {
		switch enc {
		case 1:
			return c04blk(c04Stmt{K: "try", Body: append(inner, c04mark(60)), Cl: []c04Clause{{T: []int{}, Bind: 1, H: c04blk(c04mark(61))}}, Fin: c04opt(c04mark(62))}, c04mark(63))
		case 2:
			return c04blk(c04Stmt{K: "try", Body: append(inner, c04mark(60)), Cl: []c04Clause{{T: []int{1}, Bind: 0, H: c04blk(c04mark(61))}}, Oth: c04opt(c04mark(64))}, c04mark(63))
		case 3:
			return c04wrap(n%4, inner)
		}
		return append(inner, c04mark(63))
	}
	outcomes := []c04Guard{{O: 1}, {O: 0}, {O: 2, K: 1}, {O: 2, K: 0}, {O: 2, K: 2}}
	for _, o := range outcomes {
		for pos := 0; pos < 2; pos++ {
			for follow := 0; follow < 5; follow++ {
				for enc := 0; enc < 4; enc++ {
					s := c04Stmt{K: "if"}
					if pos == 1 {
						s.Br = append(s.Br, c04Branch{E: &c04Guard{N: 50, O: 0}, B: c04blk(c04mark(40))})
					}
					g := o
					g.N = 51
					s.Br = append(s.Br, c04Branch{E: &g, B: c04blk(c04mark(41))})
					switch follow {
					case 1:
						s.Br = append(s.Br, c04Branch{E: &c04Guard{N: 52, O: 1}, B: c04blk(c04mark(42))})
					case 2:
						s.Br = append(s.Br, c04Branch{E: &c04Guard{N: 52, O: 0}, B: c04blk(c04mark(42))})
					case 3:
						s.Else = c04opt(c04mark(43))
					case 4:
						s.Br = append(s.Br, c04Branch{E: &c04Guard{N: 52, O: 0}, B: c04blk(c04mark(42))})
						s.Else = c04opt(c04mark(43))
					}
					emit(c04case{Prog: enclose(c04blk(s), enc), Origin: "guards"})
					n++
				}
			}
		}
	}
	bodies := [][]c04Stmt{c04blk(c04mark(44)), c04blk(c04mark(44), c04Stmt{K: "continue"}, c04mark(45)), c04blk(c04mark(44), c04Stmt{K: "break"})}
	for _, k := range []int{1, 0} {
		for enc := 0; enc < 3; enc++ {
			for _, cnt := range []int{0, 2} {
				for _, b := range bodies {
					emit(c04case{Prog: enclose(c04blk(c04Stmt{K: "cond", N: cnt, Fail: &c04Guard{N: 53, K: k}, Body: b}), enc), Origin: "guards"})
					n++
				}
			}
			emit(c04case{Prog: enclose(c04blk(c04Stmt{K: "srcerr", Fail: &c04Guard{N: 54, K: k}, Body: c04blk(c04mark(46))}), enc), Origin: "guards"})
			n++
		}
	}
	return n
}

// c04reexecFamily: the SAME loop statement executed several times after it was left early.
// inner loop (every kind, ascending / descending / long ranges) left by break / continue / an
// error handled outside the loop / return out of a function called per round / run to the end,
// with the exit as first or as second statement of the body; nested in an outer loop of every
// kind (and, for return, in a function called once per outer round).  A loop must start afresh
// on every execution: state kept from an execution that was left early shows in the iter events.
func c04reexecFamily(emit func(c04case)) int {
	n := 0
	inners := []c04Stmt{
		{K: "range", A: []int64{1, 4, 1}},
		{K: "range", A: []int64{3, 1, -1}},
		{K: "range", A: []int64{0, 9, 3}},
		{K: "range", A: []int64{2, 2, 1}},
		{K: "list", A: []int64{7, 8, 9}},
		{K: "map", Keys: []string{"b", "a", "c"}},
		{K: "cond", N: 3},
	}
	outers := []c04Stmt{
		{K: "list", A: []int64{1, 2, 3}},
		{K: "cond", N: 2},
		{K: "range", A: []int64{1, 2, 1}},
		{K: "map", Keys: []string{"x", "y"}},
	}
	exits := []string{"break", "continue", "raise", "rterr", "return", "none"}
	for _, in := range inners {
		for _, ex := range exits {
			for pos := 0; pos < 2; pos++ {
				for oi, out := range outers {
					if ex == "none" && pos == 1 {
						continue
					}
					var body []c04Stmt
					if pos == 1 {
						body = append(body, c04mark(70))
					}
					switch ex {
					case "break", "continue":
						body = append(body, c04Stmt{K: ex})
					case "raise":
						body = append(body, c04Stmt{K: "raise", N: 1})
					case "rterr":
						body = append(body, c04Stmt{K: "rterr"})
					case "return":
						body = append(body, c04Stmt{K: "return", N: 3})
					}
					if pos == 0 {
						body = append(body, c04mark(71))
					}
					loop := in
					loop.Body = body
					var round []c04Stmt
					switch ex {
					case "raise", "rterr":
						// the error leaves the loop and is handled outside it
						round = c04blk(c04Stmt{K: "try", Body: c04blk(loop, c04mark(72)),
							Cl: []c04Clause{{T: []int{}, Bind: 1, H: c04blk(c04mark(73))}}, Fin: c04opt(c04mark(74))})
					case "return":
						round = c04blk(c04Stmt{K: "call", Body: c04blk(loop, c04mark(72))})
					default:
						round = c04blk(loop, c04mark(72))
					}
					o := out
					o.Body = append(c04blk(c04mark(75)), round...)
					prog := c04blk(o, c04mark(76))
					if oi%2 == 1 {
						// the whole thing inside a function as well
						prog = c04blk(c04Stmt{K: "call", Body: prog}, c04mark(77))
					}
					emit(c04case{Prog: prog, Origin: "reexec"})
					n++
				}
			}
		}
	}
	return n
}

type c04gen struct {
	c    *Ctx
	mark int
}

var c04keyPool = []string{"a", "b", "B", "a0", "10", "9", "ab", "", "z"}

func (g *c04gen) block(depth int, inLoop, inFunc bool) []c04Stmt {
	n := 1 + g.c.Rng.Intn(3)
	var b []c04Stmt
	for i := 0; i < n; i++ {
		b = append(b, g.stmt(depth, inLoop, inFunc))
	}
	return b
}

func (g *c04gen) stmt(depth int, inLoop, inFunc bool) c04Stmt {
	r := g.c.Rng
	if depth <= 0 || r.Intn(10) < 3 {
		// a leaf: mark or a way out
		switch k := r.Intn(12); {
		case k < 5:
			g.mark++
			return c04mark(100 + g.mark)
		case k < 7:
			return c04Stmt{K: "raise", N: 1 + r.Intn(3)}
		case k < 8:
			return c04Stmt{K: "rterr"}
		case k < 9 && inFunc:
			return c04Stmt{K: "return", N: r.Intn(5)}
		case k < 10 && inLoop:
			return c04Stmt{K: "break"}
		case k < 12 && inLoop:
			return c04Stmt{K: "continue"}
		}
		g.mark++
		return c04mark(100 + g.mark)
	}
	switch k := r.Intn(10); {
	case k < 2:
		s := c04Stmt{K: "if"}
		for i := 0; i < 1+r.Intn(3); i++ {
			br := c04Branch{G: r.Intn(2) == 0, B: g.block(depth-1, inLoop, inFunc)}
			if r.Intn(2) == 0 {
				g.mark++
				br.E = &c04Guard{N: 200 + g.mark, O: r.Intn(2)}
				if r.Intn(4) == 0 {
					br.E.O, br.E.K = 2, r.Intn(4)
				}
			}
			s.Br = append(s.Br, br)
		}
		if r.Intn(2) == 0 {
			e := g.block(depth-1, inLoop, inFunc)
			s.Else = &e
		}
		return s
	case k < 5:
		switch r.Intn(4) {
		case 0:
			s := c04Stmt{K: "cond", N: r.Intn(4), Body: g.block(depth-1, true, inFunc)}
			if r.Intn(4) == 0 {
				g.mark++
				s.Fail = &c04Guard{N: 200 + g.mark, K: r.Intn(4)}
			}
			return s
		case 1:
			from := int64(r.Intn(7) - 3)
			step := int64(1 + r.Intn(3))
			cnt := int64(r.Intn(4))
			to := from + cnt*step + int64(r.Intn(int(step))) // the end need not be hit exactly
			if r.Intn(4) == 0 {
				to = from
			}
			if r.Intn(2) == 0 { // downwards
				to = from - (to - from)
				step = -step
			}
			return c04Stmt{K: "range", A: []int64{from, to, step}, Body: g.block(depth-1, true, inFunc)}
		case 2:
			var xs []int64
			for i := 0; i < r.Intn(4); i++ {
				xs = append(xs, int64(r.Intn(9)-3))
			}
			if xs == nil {
				xs = []int64{}
			}
			if r.Intn(8) == 0 {
				g.mark++
				return c04Stmt{K: "srcerr", Fail: &c04Guard{N: 200 + g.mark, K: r.Intn(4)}, Body: g.block(depth-1, true, inFunc)}
			}
			return c04Stmt{K: "list", A: xs, Body: g.block(depth-1, true, inFunc)}
		default:
			perm := r.Perm(len(c04keyPool))
			ks := []string{}
			for i := 0; i < r.Intn(4); i++ {
				ks = append(ks, c04keyPool[perm[i]])
			}
			return c04Stmt{K: "map", Keys: ks, Body: g.block(depth-1, true, inFunc)}
		}
	case k < 9:
		s := c04Stmt{K: "try", Body: g.block(depth-1, inLoop, inFunc), Cl: []c04Clause{}}
		for i := 0; i < r.Intn(4); i++ {
			cl := c04Clause{T: []int{}, Bind: r.Intn(3), H: g.block(depth-1, inLoop, inFunc)}
			for j := 0; j < r.Intn(3); j++ {
				cl.T = append(cl.T, r.Intn(4))
			}
			s.Cl = append(s.Cl, cl)
		}
		if r.Intn(3) == 0 {
			o := g.block(depth-1, inLoop, inFunc)
			s.Oth = &o
		}
		if r.Intn(2) == 0 {
			f := g.block(depth-1, inLoop, inFunc)
			s.Fin = &f
		}
		return s
	default:
		return c04Stmt{K: "call", Body: g.block(depth-1, false, true)}
	}
}

// c04corpus: the witnesses of the repaired defects (Props/C04.v ..._refuted) and the tricky
// shapes named in the design, replayed first on every run.
func c04corpus() [][]c04Stmt {
	bare := func(h ...c04Stmt) []c04Clause {
		return []c04Clause{{T: []int{}, Bind: 0, H: append([]c04Stmt{}, h...)}}
	}
	try := func(body []c04Stmt, cl []c04Clause, oth, fin *[]c04Stmt) c04Stmt {
		if cl == nil {
			cl = []c04Clause{}
		}
		return c04Stmt{K: "try", Body: body, Cl: cl, Oth: oth, Fin: fin}
	}
	raise := func(n int) c04Stmt { return c04Stmt{K: "raise", N: n} }
	ret := func(n int) c04Stmt { return c04Stmt{K: "return", N: n} }
	brk, cont := c04Stmt{K: "break"}, c04Stmt{K: "continue"}
	list := func(xs []int64, b ...c04Stmt) c04Stmt { return c04Stmt{K: "list", A: xs, Body: b} }
	call := func(b ...c04Stmt) c04Stmt { return c04Stmt{K: "call", Body: b} }
	return [][]c04Stmt{
		// F05: a typed clause without `as` must not handle another type
		{try(c04blk(raise(1)), []c04Clause{{T: []int{2}, Bind: 0, H: c04blk(c04mark(1))}}, nil, nil), c04mark(2)},
		// F06: return / break / continue through a bare except
		{call(try(c04blk(ret(1)), bare(c04mark(1)), nil, nil), ret(2))},
		{list([]int64{1, 2}, try(c04blk(brk), bare(c04mark(9)), nil, nil))},
		{list([]int64{1, 2}, try(c04blk(cont), bare(c04mark(9)), nil, nil), c04mark(8))},
		// F07: break in a condition loop
		{{K: "cond", N: 2, Body: c04blk(c04mark(1), brk)}, c04mark(7)},
		// continue in a condition loop
		{{K: "cond", N: 3, Body: c04blk(c04mark(1), cont, c04mark(2))}, c04mark(7)},
		// error / return / break raised inside finally
		{try(c04blk(c04mark(1)), nil, nil, c04opt(raise(1), c04mark(2))), c04mark(3)},
		{try(c04blk(raise(2)), nil, nil, c04opt(raise(1))), c04mark(3)},
		{call(try(c04blk(c04mark(1)), nil, nil, c04opt(ret(5))), ret(6))},
		{list([]int64{1, 2}, try(c04blk(c04mark(1)), nil, nil, c04opt(brk)), c04mark(2))},
		// range with a single element, range(0)-like, downwards not hitting the end
		{{K: "range", A: []int64{3, 3, 1}, Body: c04blk()}},
		{{K: "range", A: []int64{0, 0, 1}, Body: c04blk(c04mark(1))}},
		{{K: "range", A: []int64{10, 3, -3}, Body: c04blk()}},
		{{K: "range", A: []int64{2, 10, 3}, Body: c04blk()}},
		// `as e` / `e` with and without types must bind the error object
		{try(c04blk(raise(1)), []c04Clause{{T: []int{}, Bind: 1, H: c04blk()}}, nil, nil)},
		{try(c04blk(raise(1)), []c04Clause{{T: []int{1}, Bind: 2, H: c04blk()}}, nil, nil)},
		{try(c04blk(c04Stmt{K: "rterr"}), []c04Clause{{T: []int{1}, Bind: 1, H: c04blk()}, {T: []int{0}, Bind: 1, H: c04blk(c04mark(1))}}, nil, nil)},
		// return inside a loop inside try-finally; finally on break and continue
		{call(list([]int64{1, 2, 3}, try(c04blk(ret(4)), nil, nil, c04opt(c04mark(5)))), ret(9))},
		{call(try(c04blk(list([]int64{1, 2}, ret(4))), bare(c04mark(1)), c04opt(c04mark(2)), c04opt(c04mark(3))), c04mark(4))},
		{list([]int64{1, 2, 3}, try(c04blk(cont), nil, nil, c04opt(c04mark(5))), c04mark(6))},
		{list([]int64{1, 2, 3}, try(c04blk(brk), nil, c04opt(c04mark(4)), c04opt(c04mark(5))), c04mark(6))},
		// nested try: inner does not handle, inner finally, outer handles
		{try(c04blk(try(c04blk(raise(1)), []c04Clause{{T: []int{2}, Bind: 1, H: c04blk(c04mark(1))}}, nil, c04opt(c04mark(2)))),
			[]c04Clause{{T: []int{1}, Bind: 1, H: c04blk(c04mark(3))}}, nil, c04opt(c04mark(4)))},
		// error in a handler is not offered to later clauses; error in otherwise is not handled
		{try(c04blk(raise(1)), []c04Clause{{T: []int{1}, Bind: 0, H: c04blk(c04mark(1), raise(2))}, {T: []int{2}, Bind: 0, H: c04blk(c04mark(2))}}, nil, c04opt(c04mark(3)))},
		{try(c04blk(c04mark(0)), bare(c04mark(1)), c04opt(c04mark(2), raise(3)), c04opt(c04mark(3)))},
		// break in a handler / in otherwise acts on the enclosing loop, after finally
		{list([]int64{1, 2}, try(c04blk(raise(1)), bare(brk), nil, c04opt(c04mark(5)))), c04mark(9)},
		{list([]int64{1, 2}, try(c04blk(c04mark(0)), nil, c04opt(brk), c04opt(c04mark(5)))), c04mark(9)},
		// break / continue reach only the innermost loop; return only the innermost function
		{list([]int64{1, 2}, c04Stmt{K: "cond", N: 2, Body: c04blk(c04mark(1), brk)}, c04mark(2))},
		{list([]int64{1, 2}, c04Stmt{K: "range", A: []int64{1, 2, 1}, Body: c04blk(cont, c04mark(1))}, c04mark(2))},
		{call(call(ret(1)), c04mark(2), ret(3)), c04mark(4)},
		// map keys in string order
		{{K: "map", Keys: []string{"b", "a", "B", "a0", "10", "9"}, Body: c04blk()}},
		// a guard that raises: no later guard, no branch, no else; catchable
		{{K: "if", Br: []c04Branch{{E: &c04Guard{N: 1, O: 2, K: 1}, B: c04blk(c04mark(2))}}, Else: c04opt(c04mark(3))}},
		{try(c04blk(c04Stmt{K: "if", Br: []c04Branch{{E: &c04Guard{N: 1, O: 0}, B: c04blk(c04mark(2))}, {E: &c04Guard{N: 3, O: 2, K: 0}, B: c04blk(c04mark(4))}, {E: &c04Guard{N: 5, O: 1}, B: c04blk(c04mark(6))}}}),
			[]c04Clause{{T: []int{0}, Bind: 1, H: c04blk(c04mark(7))}}, nil, nil), c04mark(8)},
		{{K: "cond", N: 1, Fail: &c04Guard{N: 2, K: 2}, Body: c04blk(c04mark(1))}, c04mark(3)},
		{{K: "srcerr", Fail: &c04Guard{N: 1, K: 1}, Body: c04blk(c04mark(2))}, c04mark(3)},
		// if / elif / else: the first true guard only
		{{K: "if", Br: []c04Branch{{G: false, B: c04blk(c04mark(1))}, {G: true, B: c04blk(c04mark(2))}, {G: true, B: c04blk(c04mark(3))}}, Else: c04opt(c04mark(4))}},
		{{K: "if", Br: []c04Branch{{G: false, B: c04blk(c04mark(1))}}, Else: c04opt(c04mark(4))}, {K: "if", Br: []c04Branch{{G: false, B: c04blk(c04mark(5))}}}},
	}
}

func runC04(c *Ctx) error {
	c.Rule = "control skeleton programs (mark / raise T1..T3 / runtime error / return / break / continue / if-elif-else whose guards are literals or logged calls that answer true / false, raise T1..T3 or fail with a runtime error / condition loops (optionally with a condition that finally raises), range, list and map loops, loops over an expression that raises / try with 0..3 except clauses of every shape, otherwise, finally / function call), rendered to ECAL and run by the interpreter: (1) fixed corpus of defect witnesses and tricky shapes, (2a) guards: 5 guard outcomes x first/middle clause x 5 continuations (nothing, elif true, elif false, else, elif false + else) x 4 enclosures, failing loop conditions and failing iterated expressions x body exits x enclosures, (2b) exhaustive: function{loop{try}} with each of 7 exit kinds at each of 4 positions (try block, handler, otherwise, finally) x 16 except-clause shapes x otherwise present/absent x finally present/absent (x 4 loop kinds in the thorough tier, rotating in the quick tier), (2c) re-executed loops: 7 inner loops (ranges ascending / descending / stepped / single element, list, map, condition) left by break / continue / raise or runtime error handled outside the loop / return out of a function called per round / run to the end, exit first or second in the body, inside 4 outer loop kinds (half of them inside a function as well), (3) seeded random nestings up to depth 4 of if/loop/try/function with break/continue only inside a loop of the same function and return only inside a function, ranges terminating; non-trivial = contains an abrupt exit; distinct by skeleton"
	c.BeginCases("From Ecal Require Import Model.ControlSyntax Model.Control Spec.ControlSpec Run.RunC04.\nOpen Scope nat_scope.", "case", 250)

	if c.Replay != "" {
		var d c04case
		if err := c.LoadReplay(&d); err != nil {
			return err
		}
		var ic c04icase
		if err := c.LoadReplay(&ic); err == nil && ic.Stream == "interp" {
			c04interpStream(c, []c04case{d})
			return nil
		}
		c04one(c, d)
		return nil
	}
	stop := false
	// programs for the second stream (three-way tie with the interpreter model): the whole
	// corpus, every k-th program of the systematic families, the first random programs
	var second []c04case
	seq := 0
	emit := func(d c04case) {
		if stop || c.Enough() {
			if !stop {
				c.Notes = append(c.Notes, "sweep stopped early after repeated violations")
			}
			stop = true
			return
		}
		c04one(c, d)
		seq++
		switch d.Origin {
		case "corpus":
			second = append(second, d)
		case "random":
			if len(second) < c.Pick(170, 900) {
				second = append(second, d)
			}
		default:
			if (seq+int(c.Seed))%c.Pick(23, 7) == 0 {
				second = append(second, d)
			}
		}
	}
	for _, p := range c04corpus() {
		emit(c04case{Prog: p, Origin: "corpus"})
	}
	c.Extra["corpus_programs"] = len(c04corpus())
	c.Extra["guard_family_programs"] = c04guardFamily(emit)
	c.Extra["exhaustive_programs"] = c04exhaustive(c, emit)
	c.Extra["reexecuted_loop_programs"] = c04reexecFamily(emit)
	g := &c04gen{c: c}
	nrand := c.Pick(400, 12000)
	for i := 0; i < nrand && !stop; i++ {
		depth := 2 + c.Rng.Intn(3)
		g.mark = 0
		emit(c04case{Prog: g.block(depth, false, false), Origin: "random"})
	}
	c.Extra["random_programs"] = nrand
	c.Exhaustive = false
	if !stop {
		c04interpStream(c, second)
	}
	return nil
}
