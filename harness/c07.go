//go:build c07

package main

// C07 — parsing is total: an error or a well-formed tree, and nothing left running.
//
// Implementation side: parser.Parse on generated source texts under recover + time bound.
// Observed: the (tree, error) pair — tree shape through CoqNode (names, values, flags, lines,
// arity), error class (identity of Error.Type, not its text) + line + pos — and the lexer
// goroutines alive before / after the call.  The Coq side checks the pair against the Spec
// (exclusive, well formed, positioned) and against the parser model run on the token list
// the REAL lexer produced for the same text.

import (
	"bytes"
	"encoding/hex"
	"fmt"
	"os"
	"path/filepath"
	"runtime"
	"runtime/pprof"
	"strings"
	"time"

	"github.com/krotik/ecal/parser"
)

func init() { register("C07", runC07) }

type c07case struct {
	Src    string `json:"src"`     // printable rendering
	SrcHex string `json:"src_hex"` // exact bytes
	Origin string `json:"origin"`
}

func c07desc(src, origin string) c07case {
	return c07case{Src: fmt.Sprintf("%q", src), SrcHex: hex.EncodeToString([]byte(src)), Origin: origin}
}

func c07errKind(t error) int {
	switch t {
	case parser.ErrUnexpectedEnd:
		return 1
	case parser.ErrLexicalError:
		return 2
	case parser.ErrUnknownToken:
		return 3
	case parser.ErrImpossibleNullDenotation:
		return 4
	case parser.ErrImpossibleLeftDenotation:
		return 5
	case parser.ErrUnexpectedToken:
		return 6
	}
	return 0
}

func c07tok(t parser.LexToken) string {
	flags := 0
	if t.Identifier {
		flags |= 1
	}
	if t.AllowEscapes {
		flags |= 2
	}
	val := t.Val
	if t.ID == parser.TokenError || t.ID == parser.TokenPRECOMMENT || t.ID == parser.TokenPOSTCOMMENT {
		val = "" // message / comment text: not an observable of the property
	}
	return fmt.Sprintf("T %d %s %d %d (%d)", int(t.ID), CoqBytes(val), flags, t.Lline, t.Lpos)
}

// lexerGoroutines counts goroutines currently inside parser.(*lexer).run.
func c07lexerGoroutines() int {
	var buf bytes.Buffer
	pprof.Lookup("goroutine").WriteTo(&buf, 2)
	return strings.Count(buf.String(), "parser.(*lexer).run")
}

type c07state struct {
	leakChecks   int
	leaks        int
	knownLexers  int
	canaryBroken bool
}

// settle waits until no more goroutines than base are alive (the lexer goroutine of a finished
// parse needs a moment to return after its channel was drained).
func c07settle(base int) bool {
	for i := 0; i < 2000; i++ {
		if runtime.NumGoroutine() <= base {
			return true
		}
		runtime.Gosched()
	}
	deadline := time.Now().Add(300 * time.Millisecond)
	for time.Now().Before(deadline) {
		if runtime.NumGoroutine() <= base {
			return true
		}
		time.Sleep(time.Millisecond)
	}
	return runtime.NumGoroutine() <= base
}

type c07pair struct {
	ast *parser.ASTNode
}

// canary: state that outlives a call (the temporary "{" entry of the global table) would make
// this program fail.
func c07canary(c *Ctx, st *c07state, after c07case) {
	if st.canaryBroken {
		return
	}
	r := guarded(2*time.Second, func() (interface{}, error) {
		return parser.Parse("c07canary", "x := {1 : [2]}")
	})
	ok := !r.Panicked && !r.TimedOut && r.Err == nil
	if ok {
		n, _ := r.Val.(*parser.ASTNode)
		ok = n != nil && n.Name == parser.NodeASSIGN && len(n.Children) == 2 && n.Children[1] != nil &&
			n.Children[1].Name == parser.NodeMAP
	}
	if !ok {
		st.canaryBroken = true
		c.Violate("parser-state-outlives-call", "after this input a fresh parse of `x := {1 : [2]}` no longer yields a map: parser state survived the call", after)
	}
}

// source texts up to this many bytes are also lexed by the model inside Coq
const c07lexModelMaxSrc = 200

func c07one(c *Ctx, st *c07state, src, origin string) {
	desc := c07desc(src, origin)
	lr := guarded(3*time.Second, func() (interface{}, error) { return parser.LexToList("c07", src), nil })
	if lr.TimedOut || lr.Panicked {
		c.Dist["skipped_lexer_failed"]++ // lexer totality is C18's property
		return
	}
	toks := lr.Val.([]parser.LexToken)
	if len(toks) > 1500 {
		c.Dist["skipped_too_long"]++
		return
	}
	runtime.Gosched()
	base := runtime.NumGoroutine()
	r := guarded(3*time.Second, func() (interface{}, error) {
		n, err := parser.Parse("c07", src)
		return c07pair{n}, err
	})
	key := desc.SrcHex
	nontrivial := len(toks) >= 2
	switch {
	case r.TimedOut:
		c.Violate("nontermination", "parser.Parse did not return within 3s", desc)
		c.Count(key, nontrivial, desc)
		return
	case r.Panicked:
		c.Violate("parser-panic", "parser.Parse panicked: "+r.PanicMsg, desc)
		c.Count(key, nontrivial, desc)
		c.Dist["panic"]++
		c07canary(c, st, desc)
		return
	}
	// goroutine oracle: nothing outlives the call
	if st.leaks < 3 {
		st.leakChecks++
		if !c07settle(base) {
			n := c07lexerGoroutines()
			st.leaks++
			if n > st.knownLexers {
				st.knownLexers = n
				c.Violate("lexer-goroutine-leak", fmt.Sprintf("after parser.Parse returned, %d goroutine(s) are still in parser.(*lexer).run (blocked sending a token nobody receives)", n), desc)
			} else {
				c.Violate("goroutine-leak", "a goroutine started by parser.Parse outlives the call", desc)
			}
		}
	}
	pair := r.Val.(c07pair)
	tree := "None"
	if pair.ast != nil {
		tree = "(Some " + CoqNode(pair.ast) + ")"
	}
	perr := "None"
	if r.Err != nil {
		pe, ok := r.Err.(*parser.Error)
		if !ok {
			c.Violate("error-not-positioned", fmt.Sprintf("parser.Parse returned an error of type %T, not *parser.Error", r.Err), desc)
			c.Count(key, nontrivial, desc)
			return
		}
		perr = fmt.Sprintf("(Some (E %d %d (%d)))", c07errKind(pe.Type), pe.Line, pe.Pos)
		c.Dist[fmt.Sprintf("error_kind_%d", c07errKind(pe.Type))]++
	} else if pair.ast != nil {
		c.Dist["tree"]++
	}
	var ts []string
	for _, t := range toks {
		ts = append(ts, c07tok(t))
	}
	id := c.NewID()
	// the source bytes go along for small texts: Run/RunC07Lex.v runs the LEXER MODEL on them and
	// compares its token list (through the adapter of Model/LexParse.v) with the real one above,
	// so that the composed theorem C07_source_parse_total is about what this check exercises
	srcOpt := "None"
	if len(src) <= c07lexModelMaxSrc {
		srcOpt = "(Some (" + CoqBytes(src) + ")%N)"
		c.Dist["lexer_model_checked"]++
	}
	term := fmt.Sprintf("mkLCase (mkCase %d %s %s %s) %s", id, CoqList(ts), tree, perr, srcOpt)
	c.Dist["origin_"+origin]++
	c.AddCase(id, term, desc, key, nontrivial)
	if r.Err != nil {
		// after every failed parse, so that the input blamed is the one that left the state behind
		c07canary(c, st, desc)
	}
}

// ---- inputs ------------------------------------------------------------------------

// witnesses of the repaired defects and other tricky inputs: replayed first on every run
var c07corpus = []string{
	"a ; \"",                    // F10: ignored skipToken error, nil current node
	"if a { b ; \"",             // F10 inside a block
	"if true { 1 ; ) ; 2 }",     // F10: later statement overwrites the error, nil child
	"a[\"",                      // ignored skipToken(TokenLBRACK) error
	"a b",                       // tree returned together with the error (F11)
	"a := 1 +",                  // error before the end
	") a b c d e f g h",         // error at the first token: lexer left blocked (F11)
	"a b c d e f g h",           // extra token after a complete statement, more tokens pending
	"sink s kindmatch [\"a\"], \"", // lexical error right after the comma between two sink clauses
	"sink s kindmatch [\"a\"],", "f(1, \"", "[1, \"", "{1:2, \"", "func f(a, \"", "try {} except \"a\", \"",
	"a := 1 ; b c d e f g h i",  //
	"mutex \"a\" {}", "import \"a\" as \"b\"", "func \"f\"() {}", "try {} except \"a\" as \"b\" {}", "sink \"s\" {}", "a.\"b\"", "try {} except \"a\" \"b\" {}",
	"if 1 + { { a } { b }",      // temporary "{" entry used as a null denotation: node of kind ""
	"if ( { { a } ) { b }",      //
	"for ( { { a } ) { b }",     //
	"for 1 + { { a } { b }",     //
	"if a { b } elif ( { { c } ) { d }", //
	"", " ", "\n", ";", ";;", "a;", "a;b", "a\nb", "a\n;b", "(", ")", "{", "}", "[", "]", "{}", "[]", "()",
	"return", "return 1", "return\n1", "func f() { return }", "func f() {\n return\n}", "func () {}",
	"func f(a, b=1) { return a + b }", "func f(a,) {}", "func f(", "func f(a", "func f(a b) {}",
	"a.b.c", "a.b(1).c[2].d", "a(1)(2)", "a[1][2]", "a\n[1]", "a.", "a.1", "a(", "a(1,", "a(1 2)", "a[", "a[1", "a[]",
	"[1, 2, 3]", "[1, 2,", "[1 2]", "[,]", "{1:2, 3:4}", "{1:2", "{1}", "{,}",
	"import \"a\" as b", "import a as b", "import \"a\" b", "import \"a\" as 1", "import",
	"sink s kindmatch [\"a\"], priority 1 { a := 1 }", "sink s {}", "sink {}", "sink s 1 2 {}", "sink s kindmatch {}", "sink s ,",
	"if a { 1 } elif b { 2 } else { 3 }", "if a { 1 } else { 2 } else { 3 }", "if a { 1 } elif { 2 }", "if { }", "if a", "if a {", "if a { 1", "if a { 1 ;", "if a { 1 ; }", "if a { ; }", "if a { 1 } else", "if a {} elif",
	"for a in b { c }", "for a > 0 { c }", "for [a, b] in c { d }", "for {}", "for a in b", "for a in b {", "for a in b { break ; continue }",
	"try { a } except \"e\" as x { b } otherwise { c } finally { d }", "try { a } except { b }", "try { a } except x { b }", "try { a } except \"e\", \"f\" { b }", "try { a } except \"e\", { b }",
	"try { a } except as { b }", "try { a } except \"e\" as { b }", "try { a } finally { d } otherwise { c }", "try { a } otherwise { c } except { b }", "try", "try {", "try { a } except", "try { a } except 1 { b }", "try {} finally",
	"mutex m { a }", "mutex { a }", "mutex m", "mutex m {",
	"let a := 1", "let", "not a", "not", "-a", "+a", "- - a", "a - - b", "1 + 2 * 3", "(1 + 2) * 3", "(1 + 2", "1 + 2)", "a := b := c", "a and b or not c", "1 +\n2", "1\n+ 2", "1\n* 2", "a := \n 1",
	"a like b", "a in b", "a notin b", "a hasprefix b", "1 : 2", "a = b", "a == b", "a >= b <= c",
	"true", "false", "null", "break", "continue", "true false", "null.a", "1.a", "\"a\".b", "\"a\" \"b\"", "r\"a\"", "'a'",
	"# comment", "a # comment", "/* c */ a", "a /* c */", "/* c */", "a /* c", "# c\na", "a # c\nb", "if a { # c\n b }",
	"a ?b c", "?b c", "a ; ?b c", "1a", "a := 1a 2", "\"", "'", "a \"", "(\"", "[\"", "{\"", "a(\"", "a.\"", "func \"", "func f(\"", "if \"", "if a \"", "if a {\"", "if a {b\"", "if a {b} \"", "if a {b} else \"", "if a {b} else {\"", "for \"", "try \"", "try { \"", "try {} except \"", "try {} except \"a\" \"", "try {} except \"a\", \"", "try {} except \"a\" as \"", "try {} finally \"", "mutex \"", "mutex a \"", "import \"", "import \"a\" \"", "import \"a\" as \"", "sink \"", "sink a \"", "sink a kindmatch \"", "return \"", "not \"", "1 + \"", "a := \"",
	"a ; )", "a ; ; b", "if a { b ; ; c }", "if a { b ; ) }", "if a { ) ; b }", "if a { b ; ) ; c ; ) }", "func f() { a ; \"", "if a { if b { c ; \"", "if a { b } ; \"",
	"a\xff", "\xff", "\xffa", "a := \"\xff\"", "\x00", "a\x00b", "\x01\x02", "a\tb", "a\rb", "a\x0cb", "\xc3\x28", "\xe2\x82", "a := 1 \x7f", "ä", "aä := 1", "a := 'ä€'",
}

// valid programs in the style of /repo's parser and interpreter tests; mutated below
var c07valid = []string{
	"a := 1 + 2 * 3\nb := a - -1",
	"a := [1, 2, [3, 4]]\nb := {\"x\" : 1, \"y\" : [2]}\nc := a[0] + b.x",
	"import \"foo/bar\" as fb\nfb.run(1, 2)",
	"func add(a, b=2) {\n    return a + b\n}\nres := add(1)",
	"f := func (x) {\n    return x * 2\n}\nf(4)",
	"if a == 1 {\n    b := 1\n} elif a == 2 {\n    b := 2\n} else {\n    b := 3\n}",
	"for i in range(1, 10) {\n    if i % 2 == 0 {\n        continue\n    }\n    log(i)\n}",
	"for [k, v] in m {\n    log(k, v)\n}\nfor a > 0 { a := a - 1; break }",
	"try {\n    raise(\"MyError\", \"detail\", [1])\n} except \"MyError\", \"Other\" as e {\n    log(e)\n} except e {\n    log(1)\n} otherwise {\n    log(2)\n} finally {\n    log(3)\n}",
	"mutex foo {\n    a := 1\n}",
	"sink rule1\n    kindmatch [ \"core.*\" ],\n    scopematch [ \"data.write\" ],\n    statematch { \"val\" : null },\n    priority 10,\n    suppresses [ \"rule2\" ]\n    {\n        log(\"rule1 < \", event)\n    }",
	"let a := 1\n{ \"a\" : a }[\"a\"]",
	"a := not (b and c or d)\ne := a like \"x.*\" or 1 in [1] or 2 notin [3] or \"ab\" hasprefix \"a\" or \"ab\" hassuffix \"b\"",
	"x := a.b.c(1)(2)[3].d\ny := 1 >= 2 or 3 <= 4 or 5 != 6 or 7 > 8 or 9 < 10 // 3",
	"# head comment\na := 1 # trailing\n/* block */ b := \"s{{a}}\" /* after */\nc := r\"raw\"",
	"func fib(n) {\n    if (n <= 1) {\n        return n\n    }\n    return fib(n-1) + fib(n-2)\n}\nlog(fib(12))",
	"a := 1; b := 2; c := a + b",
	"if true { 1 ; 2 ; 3 }",
	"return func () { return null }",
}

func c07repo() string {
	if r := os.Getenv("VERIF_REPO"); r != "" {
		return r
	}
	return "/repo"
}

// c07render joins lexemes with single blanks ("\n" stays a line break)
func c07render(ws []string) string {
	return strings.Join(ws, " ")
}

func c07lexemes(src string) []string {
	// split a program into the source text of its tokens (strings and comments kept whole)
	var res []string
	i := 0
	for i < len(src) {
		ch := src[i]
		switch {
		case ch == '\n':
			res = append(res, "\n")
			i++
		case ch == ' ' || ch == '\t' || ch == '\r':
			i++
		case ch == '"' || ch == '\'':
			j := i + 1
			for j < len(src) && src[j] != ch {
				if src[j] == '\\' {
					j++
				}
				j++
			}
			if j >= len(src) {
				j = len(src) - 1
			}
			res = append(res, src[i:j+1])
			i = j + 1
		case ch == '#':
			j := i
			for j < len(src) && src[j] != '\n' {
				j++
			}
			res = append(res, src[i:j])
			i = j
		case ch == '/' && i+1 < len(src) && src[i+1] == '*':
			j := strings.Index(src[i+2:], "*/")
			if j < 0 {
				j = len(src) - i - 4
			}
			res = append(res, src[i:i+2+j+2])
			i = i + 2 + j + 2
		case strings.ContainsRune("(){}[],;.", rune(ch)):
			res = append(res, string(ch))
			i++
		default:
			j := i
			for j < len(src) && !strings.ContainsRune(" \t\r\n(){}[],;.\"'#", rune(src[j])) {
				j++
			}
			if j == i {
				j = i + 1
			}
			res = append(res, src[i:j])
			i = j
		}
	}
	return res
}

func c07mutations(c *Ctx, prog string, perProg int) []string {
	ws := c07lexemes(prog)
	n := len(ws)
	var res []string
	if n == 0 {
		return res
	}
	strays := []string{";", "}", "{", ")", "(", "]", "[", ",", "\"", "else", "except", "\n", ".", ":=", "+", "#", "/*"}
	cp := func() []string { return append([]string{}, ws...) }
	for k := 0; k < perProg; k++ {
		m := cp()
		i := c.Rng.Intn(n)
		switch c.Rng.Intn(7) {
		case 0: // delete a token
			m = append(m[:i], m[i+1:]...)
		case 1: // duplicate a token
			m = append(m[:i+1], m[i:]...)
		case 2: // swap two neighbours
			if i+1 < n {
				m[i], m[i+1] = m[i+1], m[i]
			}
		case 3: // stray terminator / bracket / keyword
			s := strays[c.Rng.Intn(len(strays))]
			m = append(m[:i], append([]string{s}, m[i:]...)...)
		case 4: // truncate
			m = m[:i]
		case 5: // replace by a stray
			m[i] = strays[c.Rng.Intn(len(strays))]
		case 6: // two independent deletions
			m = append(m[:i], m[i+1:]...)
			if len(m) > 0 {
				j := c.Rng.Intn(len(m))
				m = append(m[:j], m[j+1:]...)
			}
		}
		res = append(res, c07render(m))
	}
	return res
}


// ---- grammar-based generator of (mostly) valid programs -------------------------------

type c07gen struct{ c *Ctx }

func (g c07gen) pick(xs ...string) string { return xs[g.c.Rng.Intn(len(xs))] }

func (g c07gen) expr(d int) string {
	r := g.c.Rng
	if d <= 0 || r.Intn(3) == 0 {
		return g.pick("a", "b", "c", "1", "2.5", "\"s\"", "r\"x\"", "'q'", "true", "false", "null", "a.b", "a.b.c", "f()", "f(1)", "a[0]", "[]", "{}")
	}
	switch r.Intn(12) {
	case 0:
		return g.pick("-", "+", "not ") + g.expr(d-1)
	case 1:
		return "(" + g.expr(d-1) + ")"
	case 2:
		n := r.Intn(4)
		xs := []string{}
		for i := 0; i < n; i++ {
			xs = append(xs, g.expr(d-1))
		}
		return "[" + strings.Join(xs, g.pick(", ", ",", ",\n")) + "]"
	case 3:
		n := r.Intn(3)
		xs := []string{}
		for i := 0; i < n; i++ {
			xs = append(xs, g.expr(d-1)+" : "+g.expr(d-1))
		}
		return "{" + strings.Join(xs, ", ") + "}"
	case 4:
		n := r.Intn(3)
		xs := []string{}
		for i := 0; i < n; i++ {
			xs = append(xs, g.expr(d-1))
		}
		return g.pick("f", "a.g", "m.n.o") + "(" + strings.Join(xs, ", ") + ")" + g.pick("", "", ".x", "[1]", "(2)")
	case 5:
		return g.pick("a", "b.c") + "[" + g.expr(d-1) + "]" + g.pick("", "", ".y", "[0]")
	case 6:
		return "func (" + g.pick("", "x", "x, y", "x, y=1") + ") {" + g.block(d-1) + "}"
	default:
		op := g.pick("+", "-", "*", "/", "//", "%", "==", "!=", ">=", "<=", ">", "<", "and", "or", "like", "in", "notin", "hasprefix", "hassuffix")
		return g.expr(d-1) + " " + op + " " + g.expr(d-1)
	}
}

func (g c07gen) block(d int) string {
	n := g.c.Rng.Intn(3)
	if n == 0 {
		return g.pick("", " ", "\n")
	}
	xs := []string{}
	for i := 0; i < n; i++ {
		xs = append(xs, g.stmt(d))
	}
	sep := g.pick("\n", "\n", " ; ", ";\n")
	return g.pick("\n", " ") + strings.Join(xs, sep) + g.pick("\n", "\n", " ")
}

func (g c07gen) stmt(d int) string {
	r := g.c.Rng
	if d <= 0 {
		return g.pick("a := 1", "f(a)", "break", "continue", "return a", "b")
	}
	switch r.Intn(14) {
	case 0:
		return g.pick("a", "b.c", "a[1]", "[a, b]", "let a") + " := " + g.expr(d)
	case 1:
		s := "if " + g.expr(d-1) + " {" + g.block(d-1) + "}"
		for r.Intn(3) == 0 {
			s += " elif " + g.expr(d-1) + " {" + g.block(d-1) + "}"
		}
		if r.Intn(2) == 0 {
			s += " else {" + g.block(d-1) + "}"
		}
		return s
	case 2:
		return "for " + g.pick("a in "+g.expr(d-1), "[k, v] in "+g.expr(d-1), g.expr(d-1)) + " {" + g.block(d-1) + "}"
	case 3:
		s := "try {" + g.block(d-1) + "}"
		for r.Intn(2) == 0 {
			s += " except " + g.pick("", "\"e1\" ", "\"e1\", \"e2\" ", "e ", "\"e1\" as e ") + "{" + g.block(d-1) + "}"
		}
		if r.Intn(3) == 0 {
			s += " otherwise {" + g.block(d-1) + "}"
		}
		if r.Intn(3) == 0 {
			s += " finally {" + g.block(d-1) + "}"
		}
		return s
	case 4:
		return "mutex m {" + g.block(d-1) + "}"
	case 5:
		return "func " + g.pick("f", "g", "") + "(" + g.pick("", "a", "a, b", "a, b=1, c=\"x\"") + ") {" + g.block(d-1) + "}"
	case 6:
		return "return " + g.expr(d-1)
	case 7:
		return "import \"lib\" as l"
	case 8:
		return "sink s\n kindmatch [\"a.*\"]," + g.pick("", " scopematch [],", " statematch {\"a\" : 1},") + g.pick("", " priority 1,", " suppresses [\"x\"]") + "\n {" + g.block(d-1) + "}"
	case 9:
		return g.pick("# note\n", "/* note */ ") + g.expr(d)
	default:
		return g.expr(d)
	}
}

func (g c07gen) program() string {
	n := 1 + g.c.Rng.Intn(3)
	xs := []string{}
	for i := 0; i < n; i++ {
		xs = append(xs, g.stmt(2+g.c.Rng.Intn(2)))
	}
	return strings.Join(xs, g.pick("\n", "\n", " ; ", "\n\n"))
}


// one valid program per statement kind for the fault injection at every token boundary
var c07faultProgs = []string{
	"sink rule1 kindmatch [\"core.*\", \"x\"], scopematch [\"data.write\"], statematch {\"val\" : null, \"a\" : 1}, priority 10, suppresses [\"rule2\"] { log(\"rule1\", event) ; a := 1 }",
	"sink s\n kindmatch [\"a\"]\n priority 1\n {\n x := 1\n }",
	"import \"foo/bar\" as fb",
	"func add(a, b=2, c=\"x\") {\n return a + b\n}",
	"f := func (x, y=1) { return x * y }",
	"if a == 1 { b := 1 } elif a == 2 { b := 2 ; c := 3 } elif c { d } else { b := 3 }",
	"for i in range(1, 10) { if i % 2 == 0 { continue } ; log(i) ; break }",
	"for [k, v] in m { log(k, v) }",
	"for a > 0 { a := a - 1 }",
	"try { raise(\"MyError\", \"detail\", [1]) } except \"MyError\", \"Other\" as e { log(e) } except e { log(1) } except { log(0) } otherwise { log(2) } finally { log(3) }",
	"mutex foo { a := 1 ; b := 2 }",
	"func f() {\n return\n}\nreturn f(1) + 2",
	"a := [1, 2, [3, 4], {\"x\" : 1, \"y\" : [2, {1 : 2}]}]",
	"x := a.b.c(1, d(2)(3), [4])(5)[6].e[f.g[7]].h",
	"let a := 1\nlet b := a",
	"[a, b] := [1, 2]\nlet [c, d] := x",
	"a := not (b and c or d) ; e := -a + +1 * 2 / 3 // 4 % 5 ; g := a like \"x\" or 1 in [1] or 2 notin [3] or \"ab\" hasprefix \"a\" or \"ab\" hassuffix \"b\" ; h := 1 >= 2 or 3 <= 4 or 5 != 6 or 7 > 8 or 9 < 10 == true",
	"# head\na := 1 # trailing\n/* block */ b := \"s{{a}}\" /* after */\nc := r\"raw\" ; d := 'single'",
}

// c07faults: what is injected at a token boundary. keep = the rest of the program follows.
var c07faults = []struct {
	text string
	keep bool
}{
	{"", false},      // end of input
	{"\"", false},    // unclosed string
	{"$", true},      // invalid identifier character
	{"r\"", false},   // unclosed raw string
	{"/*", false},    // unclosed comment
	{"$", false},     //
	{")", true},      // stray closers and separators
	{"}", true},      //
	{"]", true},      //
	{",", true},      //
	{";", true},      //
}

// c07boundaries: byte offsets between the tokens of src (start of every token but the first, end of input)
func c07boundaries(src string) []int {
	lr := guarded(3*time.Second, func() (interface{}, error) { return parser.LexToList("c07", src), nil })
	if lr.TimedOut || lr.Panicked {
		return nil
	}
	var res []int
	last := -1
	for i, t := range lr.Val.([]parser.LexToken) {
		if i == 0 || t.ID == parser.TokenEOF || t.Pos <= last || t.Pos > len(src) {
			continue
		}
		res = append(res, t.Pos)
		last = t.Pos
	}
	return append(res, len(src))
}

func c07inject(src string, at int, f int) string {
	ft := c07faults[f]
	pre := src[:at]
	if ft.text == "" {
		return pre
	}
	if ft.keep {
		return pre + " " + ft.text + " " + src[at:]
	}
	return pre + " " + ft.text
}

func runC07(c *Ctx) error {
	c.Rule = "source texts: fixed corpus (witnesses of the repaired defects first); all sequences of up to 3 lexemes over the 14-lexeme alphabet {a, 1, \"s\", ( ) { } [ ] ; , := if return} (thorough: up to 3 over 20 lexemes adding + . newline for try func, and up to 4 over the 14), seeded longer ones over a wider alphabet; all byte strings up to length 3 over 12 bytes incl. quote, 0xff, control characters; fault injection at every token boundary of one valid program per statement kind (end of input, unclosed string / raw string / comment, invalid character, stray ) } ] , ; — quick: the first three everywhere and the others in rotation); seeded grammar-generated programs (expressions, assignments, if/elif/else, for, try/except/otherwise/finally, mutex, func, return, import, sink, comments) and single mutations of them; seeded token-level mutations (delete, duplicate, swap, stray terminator/bracket/keyword, truncate) of valid programs and of /repo's example programs; non-trivial = at least 2 tokens; distinct by source bytes"
	c07header := "Set Warnings \"-abstract-large-number\".\nFrom Coq Require Import BinInt.\nFrom Ecal Require Import Common.Bytes Common.Ast Spec.ParseSpec Model.Parser Run.RunC07 Run.RunC07Lex."
	c.BeginCases(c07header, "lcase", 1200)
	st := &c07state{}

	if c.Replay != "" {
		var d c07case
		if err := c.LoadReplay(&d); err != nil {
			return err
		}
		b, err := hex.DecodeString(d.SrcHex)
		if err != nil {
			return err
		}
		c07one(c, st, string(b), "replay")
		c07canary(c, st, d)
		return nil
	}

	seen := map[string]bool{}
	add := func(src, origin string) {
		if seen[src] || c.Enough() {
			return
		}
		seen[src] = true
		c07one(c, st, src, origin)
	}

	for _, s := range c07corpus {
		add(s, "corpus")
	}
	c07canary(c, st, c07desc("<corpus>", "corpus"))
	for _, s := range c07valid {
		add(s, "valid")
	}

	// exhaustive lexeme sequences
	alpha := []string{"a", "1", "\"s\"", "(", ")", "{", "}", "[", "]", ";", ",", ":=", "+", ".", "\n", "if", "for", "try", "func", "return"}
	nseq := 0
	var rec func(al []string, prefix []string, n int)
	rec = func(al []string, prefix []string, n int) {
		if n == 0 {
			return
		}
		for _, s := range al {
			w := append(append([]string{}, prefix...), s)
			add(c07render(w), "lexeme_seq")
			nseq++
			rec(al, w, n-1)
		}
	}
	alpha14 := []string{"a", "1", "\"s\"", "(", ")", "{", "}", "[", "]", ";", ",", ":=", "if", "return"}
	if c.Thorough() {
		rec(alpha, nil, 3)
		c.Extra["exhaustive_lexeme_sequences_len3_alphabet20"] = nseq
		n0 := nseq
		rec(alpha14, nil, 4)
		c.Extra["exhaustive_lexeme_sequences_len4_alphabet14"] = nseq - n0
	} else {
		rec(alpha14, nil, 3)
		c.Extra["exhaustive_lexeme_sequences_len3_alphabet14"] = nseq
	}

	// seeded longer sequences over a wider alphabet
	wide := append(append([]string{}, alpha...), "else", "elif", "except", "finally", "otherwise", "as", "in", "mutex", "sink", "import", "kindmatch", "not", "-", "*", ":", "=", "==", "true", "b", "#c\n", "/*c*/", "\"")
	for i := 0; i < c.Pick(1500, 60000); i++ {
		n := 4 + c.Rng.Intn(7)
		w := make([]string, n)
		for k := range w {
			if c.Rng.Intn(4) == 0 {
				w[k] = wide[c.Rng.Intn(len(wide))]
			} else {
				w[k] = alpha[c.Rng.Intn(len(alpha))]
			}
		}
		add(c07render(w), "lexeme_random")
	}

	// all byte strings up to length 3 over 12 bytes
	balpha := []byte{'a', '1', '"', '{', '}', '(', ';', ' ', '\n', '#', 0xff, 0x01}
	nb := 0
	var brec func(prefix []byte, n int)
	brec = func(prefix []byte, n int) {
		if n == 0 {
			return
		}
		for _, b := range balpha {
			w := append(append([]byte{}, prefix...), b)
			add(string(w), "bytes")
			nb++
			brec(w, n-1)
		}
	}
	brec(nil, 3)
	c.Extra["exhaustive_byte_strings"] = nb

	// seeded random byte strings (invalid UTF-8, control characters)
	balpha2 := []byte("a1\"'{}()[];,.:=+-#/* \n\t\r\\rif") // plus raw bytes below
	for i := 0; i < c.Pick(300, 6000); i++ {
		n := 1 + c.Rng.Intn(10)
		w := make([]byte, n)
		for k := range w {
			switch c.Rng.Intn(6) {
			case 0:
				w[k] = byte(c.Rng.Intn(256))
			case 1:
				w[k] = byte(c.Rng.Intn(32))
			default:
				w[k] = balpha2[c.Rng.Intn(len(balpha2))]
			}
		}
		add(string(w), "bytes_random")
	}

	// fault injection at every token boundary of one valid program per statement kind:
	// quick = end of input, unclosed string and invalid character at every boundary plus one of
	// the other faults in rotation; thorough = every fault at every boundary
	c.BeginCases(c07header, "lcase", 600)
	nfault := 0
	for _, p := range c07faultProgs {
		add(p, "fault_base")
		for bi, at := range c07boundaries(p) {
			for f := range c07faults {
				if !c.Thorough() && f >= 3 && f != 3+bi%(len(c07faults)-3) {
					continue
				}
				add(c07inject(p, at, f), "fault_injection")
				nfault++
			}
		}
	}
	c.Extra["fault_injection_cases"] = nfault

	// generated programs and single mutations of them (larger cases: smaller shards)
	c.BeginCases(c07header, "lcase", 350)
	g := c07gen{c}
	for i := 0; i < c.Pick(1200, 25000); i++ {
		p := g.program()
		if len(p) > 600 {
			continue
		}
		add(p, "generated")
		if i%3 == 0 {
			for _, m := range c07mutations(c, p, 1) {
				add(m, "generated_mutated")
			}
		}
	}

	// mutations of valid programs
	progs := append([]string{}, c07valid...)
	files, _ := filepath.Glob(filepath.Join(c07repo(), "examples", "*", "*.ecal"))
	more, _ := filepath.Glob(filepath.Join(c07repo(), "examples", "*", "*", "*.ecal"))
	nfiles := 0
	for _, f := range append(files, more...) {
		if b, err := os.ReadFile(f); err == nil && len(b) < 20000 {
			progs = append(progs, string(b))
			nfiles++
			add(string(b), "example_file")
		}
	}
	c.Extra["example_files"] = nfiles
	for pi, p := range progs {
		per := c.Pick(40, 600)
		if pi >= len(c07valid) {
			per = c.Pick(0, 40) // large example files
		}
		for _, m := range c07mutations(c, p, per) {
			add(m, "mutation")
		}
	}
	c07canary(c, st, c07desc("<end of sweep>", "end"))
	c.Extra["goroutine_checks"] = st.leakChecks
	c.Extra["lexer_goroutines_at_end"] = c07lexerGoroutines()
	if c.Enough() {
		c.Notes = append(c.Notes, "sweep stopped early after repeated violations")
	}
	c.Exhaustive = false
	return nil
}
