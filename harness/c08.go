//go:build c08

package main

// C08 — formatting preserves program meaning and is idempotent.
//
// For every generated source s that parses: t1 = Parse(s); p = PrettyPrint(t1);
// t2 = Parse(p) must succeed and equal t1 up to positions and comments (node kinds,
// values of strings / numbers / identifiers, nesting, raw-versus-interpolating kind);
// PrettyPrint(t2) == p; evaluating s and p gives the same result; tool.FormatFiles on a
// scratch directory leaves files that parse to the same trees.  These are Spec oracles
// applied to the implementation directly (kind "spec").  In addition the token sequence of
// the REAL output is compared with the token-level Coq model of the printer (kind "model").

import (
	"fmt"
	"os"
	"path/filepath"
	"regexp"
	"sort"
	"strings"
	"time"

	"github.com/krotik/ecal/cli/tool"
	"github.com/krotik/ecal/parser"
)

func init() { register("C08", runC08) }

type c08case struct {
	Family string `json:"family"`
	Source string `json:"source"`
	Eval   bool   `json:"eval,omitempty"`
}

// ---- structural equality up to positions and comments ---------------------------------

func c08hasValue(n *parser.ASTNode) bool {
	return n.Name == parser.NodeSTRING || n.Name == parser.NodeNUMBER || n.Name == parser.NodeIDENTIFIER
}

// c08diff returns "" when the trees are equal, else a description and the two nodes at
// the first difference (pre-order).
func c08diff(a, b *parser.ASTNode, path string) (string, *parser.ASTNode, *parser.ASTNode) {
	if a == nil || b == nil {
		if a == b {
			return "", nil, nil
		}
		return path + ": nil node", a, b
	}
	if a.Name != b.Name {
		return fmt.Sprintf("%s: node kind %q vs %q", path, a.Name, b.Name), a, b
	}
	if c08hasValue(a) {
		av, bv := "", ""
		ar, br := false, false
		if a.Token != nil {
			av, ar = a.Token.Val, a.Token.AllowEscapes
		}
		if b.Token != nil {
			bv, br = b.Token.Val, b.Token.AllowEscapes
		}
		if av != bv {
			return fmt.Sprintf("%s: value %q vs %q", path, av, bv), a, b
		}
		if a.Name == parser.NodeSTRING && ar != br {
			return fmt.Sprintf("%s: string %q raw=%v vs raw=%v", path, av, !ar, !br), a, b
		}
	}
	if len(a.Children) != len(b.Children) {
		return fmt.Sprintf("%s: %d vs %d children", path, len(a.Children), len(b.Children)), a, b
	}
	for i := range a.Children {
		if d, x, y := c08diff(a.Children[i], b.Children[i], path+">"+a.Children[i].Name); d != "" {
			return d, x, y
		}
	}
	return "", nil, nil
}

func c08walk(n *parser.ASTNode, f func(*parser.ASTNode)) {
	if n == nil {
		return
	}
	f(n)
	for _, c := range n.Children {
		c08walk(c, f)
	}
}

func c08hasMeta(n *parser.ASTNode) bool {
	res := false
	c08walk(n, func(x *parser.ASTNode) {
		if len(x.Meta) > 0 {
			res = true
		}
	})
	return res
}

func c08isTimesDiv(n *parser.ASTNode) bool {
	return n != nil && n.Name == parser.NodeTIMES && len(n.Children) == 2 && n.Children[1].Name == parser.NodeDIV
}

func c08isRawMultiline(n *parser.ASTNode) bool {
	return n != nil && n.Name == parser.NodeSTRING && n.Token != nil && !n.Token.AllowEscapes &&
		strings.Contains(n.Token.Val, "\n")
}

// c08class refines a failure key by the two recorded deviations (known findings): the key
// is only used when the FIRST difference is exactly of that shape.
func c08class(t1 *parser.ASTNode, x, y *parser.ASTNode) string {
	if c08isTimesDiv(x) && y != nil && y.Name == parser.NodeDIV {
		return "times-div-brackets"
	}
	if c08contains(t1, c08isReturnOperand) {
		return "return-left-operand"
	}
	if c08isRawMultiline(x) && y != nil && y.Name == parser.NodeSTRING && y.Token != nil &&
		y.Token.Val == x.Token.Val {
		return "raw-multiline-string"
	}
	return ""
}

func c08contains(t *parser.ASTNode, pred func(*parser.ASTNode) bool) bool {
	res := false
	c08walk(t, func(x *parser.ASTNode) {
		if pred(x) {
			res = true
		}
	})
	return res
}

// c08names maps node names to the constants of gen/Tokens.v (cheaper to parse than string literals)
var c08names = map[string]string{
	"and": "NodeAND", "as": "NodeAS", ":=": "NodeASSIGN", "break": "NodeBREAK", "compaccess": "NodeCOMPACCESS",
	"continue": "NodeCONTINUE", "div": "NodeDIV", "divint": "NodeDIVINT", "EOF": "NodeEOF", "==": "NodeEQ",
	"except": "NodeEXCEPT", "false": "NodeFALSE", "finally": "NodeFINALLY", "function": "NodeFUNC",
	"funccall": "NodeFUNCCALL", ">=": "NodeGEQ", ">": "NodeGT", "guard": "NodeGUARD", "hasprefix": "NodeHASPREFIX",
	"hassuffix": "NodeHASSUFFIX", "identifier": "NodeIDENTIFIER", "if": "NodeIF", "import": "NodeIMPORT", "in": "NodeIN",
	"kindmatch": "NodeKINDMATCH", "kvp": "NodeKVP", "<=": "NodeLEQ", "let": "NodeLET", "like": "NodeLIKE",
	"list": "NodeLIST", "loop": "NodeLOOP", "<": "NodeLT", "map": "NodeMAP", "minus": "NodeMINUS", "modint": "NodeMODINT",
	"mutex": "NodeMUTEX", "!=": "NodeNEQ", "not": "NodeNOT", "notin": "NodeNOTIN", "null": "NodeNULL", "number": "NodeNUMBER",
	"or": "NodeOR", "otherwise": "NodeOTHERWISE", "params": "NodePARAMS", "plus": "NodePLUS", "preset": "NodePRESET",
	"priority": "NodePRIORITY", "return": "NodeRETURN", "scopematch": "NodeSCOPEMATCH", "sink": "NodeSINK",
	"statematch": "NodeSTATEMATCH", "statements": "NodeSTATEMENTS", "string": "NodeSTRING", "suppresses": "NodeSUPPRESSES",
	"times": "NodeTIMES", "true": "NodeTRUE", "try": "NodeTRY",
}

// c08node serialises a tree like CoqNode (astemit.go) but without positions and with the
// value only where the token carries one; node names as constants of gen/Tokens.v.
func c08node(sb *strings.Builder, n *parser.ASTNode) {
	if n == nil {
		sb.WriteString("(Nd \"<nil>\" [] 0 0 [])")
		return
	}
	name, ok := c08names[n.Name]
	if !ok {
		name = "\"" + strings.ReplaceAll(n.Name, "\"", "\"\"") + "\""
	}
	flags := 0
	val := ""
	if n.Token != nil {
		if c08hasValue(n) {
			val = n.Token.Val
		}
		if n.Token.Identifier {
			flags |= 1
		}
		if n.Token.AllowEscapes {
			flags |= 2
		}
	}
	fmt.Fprintf(sb, "(Nd %s %s %d 0 ", name, CoqBytes(val), flags)
	if len(n.Children) == 0 {
		sb.WriteString("[])")
		return
	}
	sb.WriteString("[")
	for i, c := range n.Children {
		if i > 0 {
			sb.WriteString("; ")
		}
		c08node(sb, c)
	}
	sb.WriteString("])")
}

func c08tree(n *parser.ASTNode) string {
	var sb strings.Builder
	c08node(&sb, n)
	return sb.String()
}

func c08isReturnOperand(n *parser.ASTNode) bool {
	return n != nil && len(n.Children) == 2 && n.Children[0].Name == parser.NodeRETURN && len(n.Children[0].Children) == 0 &&
		n.Name != parser.NodeSTATEMENTS && n.Name != parser.NodeIF && n.Name != parser.NodeLOOP && n.Name != parser.NodeFUNC
}

// c08innerPreComment reports a pre comment attached to a node that is not the first token
// of a statement: every ancestor up to the enclosing statements node must be an infix node
// with the commented node on its left edge (or an identifier chain head).
func c08innerPreComment(t *parser.ASTNode) bool {
	found := false
	var rec func(n *parser.ASTNode, first bool)
	rec = func(n *parser.ASTNode, first bool) {
		if n == nil {
			return
		}
		for _, m := range n.Meta {
			if m.Type() == parser.MetaDataPreComment && !first {
				found = true
			}
		}
		for i, ch := range n.Children {
			chFirst := false
			switch {
			case n.Name == parser.NodeSTATEMENTS:
				chFirst = true
			case first && i == 0 && len(n.Children) == 2 && parser.VerifNodeBinding(n) > 0:
				chFirst = true
			}
			rec(ch, chFirst)
		}
	}
	rec(t, true)
	return found
}

// c08sameTokens reports whether two texts differ in comments and layout only.
func c08sameTokens(a, b string) bool {
	ta, tb := parser.LexToList("c08", a), parser.LexToList("c08", b)
	var xa, xb []string
	for _, t := range ta {
		if t.ID != parser.TokenPRECOMMENT && t.ID != parser.TokenPOSTCOMMENT {
			xa = append(xa, fmt.Sprint(t.ID, ":", t.Val))
		}
	}
	for _, t := range tb {
		if t.ID != parser.TokenPRECOMMENT && t.ID != parser.TokenPOSTCOMMENT {
			xb = append(xb, fmt.Sprint(t.ID, ":", t.Val))
		}
	}
	return strings.Join(xa, "\x00") == strings.Join(xb, "\x00")
}

// c08commentsOnlyVanish reports whether every comment of the second text also occurs in the
// first one with the same words (comments may move or vanish between the passes; a comment
// whose text changes is a different failure)
func c08commentsOnlyVanish(first, second string) bool {
	words := func(t parser.LexToken) string { return strings.Join(strings.Fields(t.Val), " ") }
	have := map[string]int{}
	for _, t := range parser.LexToList("c08", first) {
		if t.ID == parser.TokenPRECOMMENT || t.ID == parser.TokenPOSTCOMMENT {
			have[words(t)]++
		}
	}
	for _, t := range parser.LexToList("c08", second) {
		if t.ID == parser.TokenPRECOMMENT || t.ID == parser.TokenPOSTCOMMENT {
			w := words(t)
			if have[w] == 0 {
				return false
			}
			have[w]--
		}
	}
	return true
}

// ---- running the implementation -------------------------------------------------------

func c08parse(src string) (*parser.ASTNode, callResult) {
	r := guarded(5*time.Second, func() (interface{}, error) { return parser.Parse("c08", src) })
	if r.Panicked || r.TimedOut || r.Err != nil || r.Val == nil {
		return nil, r
	}
	ast, _ := r.Val.(*parser.ASTNode)
	if ast == nil {
		r.Err = fmt.Errorf("nil tree")
	}
	return ast, r
}

func c08print(t *parser.ASTNode) (string, callResult) {
	r := guarded(5*time.Second, func() (interface{}, error) { return parser.PrettyPrint(t) })
	if r.Panicked || r.TimedOut || r.Err != nil {
		return "", r
	}
	s, _ := r.Val.(string)
	return s, r
}

func c08failure(r callResult) string {
	switch {
	case r.Panicked:
		return "panic: " + r.PanicMsg
	case r.TimedOut:
		return "no result within 5s"
	case r.Err != nil:
		return "error: " + r.Err.Error()
	}
	return "ok"
}

// c08eval evaluates a program in a fresh scope with a, b, c bound to numbers; the result is
// rendered with %v, failures by class only (error / panic / timeout), never by message.
func c08eval(src string) string {
	return c08evalT(src, 3*time.Second)
}

// c08tokens lexes text and renders the tokens the parser sees as Coq terms.
func c08tokens(text string) (string, bool) {
	toks := parser.LexToList("c08", text)
	var items []string
	prev := -1
	for _, t := range toks {
		switch t.ID {
		case parser.TokenError:
			return "", false
		case parser.TokenEOF, parser.TokenPRECOMMENT, parser.TokenPOSTCOMMENT:
			continue
		}
		val := ""
		allow := false
		if t.ID == parser.TokenSTRING || t.ID == parser.TokenNUMBER || t.ID == parser.TokenIDENTIFIER {
			val = t.Val
		}
		if t.ID == parser.TokenSTRING {
			allow = t.AllowEscapes
		}
		nl := prev >= 0 && t.Lline > prev
		prev = t.Lline
		items = append(items, fmt.Sprintf("tk %d %s %s %s", int(t.ID), CoqBytes(val), CoqBool(allow), CoqBool(nl)))
	}
	return CoqList(items), true
}

type c08state struct {
	c         *Ctx
	seenTree  map[string]bool
	files     []c08file
	untouched []c08case // contents the parser rejects: FormatFiles must leave them byte-identical
}

type c08file struct {
	desc   c08case
	t1     *parser.ASTNode
	p      string
	capped bool // byte-level family (c08_bytes.go): at most 8 reports per key
}

func (s *c08state) violate(kind string, refined string, desc c08case, what string) {
	key := kind + "-" + desc.Family
	if refined != "" {
		key = refined
	}
	// a flood of one failure class adds nothing: keep a few inputs per class, count the rest
	s.c.Dist["violations_"+key]++
	if s.c.Dist["violations_"+key] > 8 {
		return
	}
	s.c.Violate(key, what, desc)
}

// one runs all oracles on one source text.
func (s *c08state) one(desc c08case, emitModel bool) {
	c := s.c
	src := desc.Source
	t1, r := c08parse(src)
	if t1 == nil {
		c.Dist["skipped_unparsable_source"]++
		return
	}
	c.Dist["family_"+desc.Family]++
	nontrivial := len(t1.Children) > 0
	p, r := c08print(t1)
	if r.Panicked || r.TimedOut || r.Err != nil {
		s.violate("print-fails", "", desc, "PrettyPrint of a parsed program failed: "+c08failure(r))
		c.Count(src, nontrivial, desc)
		return
	}
	t2, r2 := c08parse(p)
	if t2 == nil {
		k := ""
		if c08innerPreComment(t1) {
			k = "precomment-inner-token"
		}
		s.violate("unparsable-output", k, desc,
			fmt.Sprintf("the pretty printed text does not parse (%s); printed: %q", c08failure(r2), p))
		c.Count(src, nontrivial, desc)
		return
	}
	refined := ""
	if d, x, y := c08diff(t1, t2, t1.Name); d != "" {
		refined = c08class(t1, x, y)
		if refined == "" && c08innerPreComment(t1) {
			refined = "precomment-inner-token"
		}
		s.violate("tree-differs", refined, desc,
			fmt.Sprintf("re-parsing the pretty printed text gives a different tree: %s; printed: %q", d, p))
		if refined == "raw-multiline-string" {
			// the recorded deviation must not hide the rest of the tree, idempotence and the result
			s.behindRawMultiline(desc, t1, t2, p)
		}
	} else {
		// idempotence
		p2, r3 := c08print(t2)
		if r3.Panicked || r3.TimedOut || r3.Err != nil {
			s.violate("second-print-fails", "", desc, "PrettyPrint of the re-parsed program failed: "+c08failure(r3))
		} else if p2 != p {
			k := ""
			if c08hasMeta(t1) && c08sameTokens(p, p2) {
				k = "not-idempotent-comments-only"
				if !c08commentsOnlyVanish(p, p2) {
					k = "not-idempotent-comment-text"
				}
			}
			s.violate("not-idempotent", k, desc,
				fmt.Sprintf("pretty printing the pretty printed text changes it: %q then %q", p, p2))
		}
	}
	// behaviour
	if desc.Eval && refined == "" {
		v1, v2 := c08evalPair(src, p)
		c.Dist["evaluated"]++
		if v1 != v2 {
			k := ""
			if c08contains(t1, c08isTimesDiv) {
				k = "times-div-brackets"
			} else if c08contains(t1, c08isRawMultiline) {
				k = "raw-multiline-string"
			} else if c08contains(t1, c08isReturnOperand) {
				k = "return-left-operand"
			}
			s.violate("eval-differs", k, desc,
				fmt.Sprintf("evaluating the source gives %s, evaluating the pretty printed text %q gives %s", v1, p, v2))
		}
	}
	if len(s.files) < c.Pick(400, 4000) && (c.Evals%5 == 0 || desc.Family == "corpus") {
		s.files = append(s.files, c08file{desc: desc, t1: t1, p: p})
	}
	// model
	if !emitModel {
		c.Count(src, nontrivial, desc)
		return
	}
	tree := c08tree(t1)
	if s.seenTree[tree] {
		c.Count(src, nontrivial, desc)
		return
	}
	s.seenTree[tree] = true
	toks, ok := c08tokens(p)
	if !ok {
		c.Count(src, nontrivial, desc)
		return
	}
	id := c.NewID()
	term := fmt.Sprintf("mkCase %d %s %s %s", id, CoqBool(!c08hasMeta(t1)), tree, toks)
	c.Dist["model_cases"]++
	c.AddCase(id, term, desc, src, nontrivial)
}

// formatFiles runs the in-place format tool over the collected sources.
func (s *c08state) formatFiles() {
	c := s.c
	if len(s.files) == 0 && len(s.untouched) == 0 {
		return
	}
	dir, err := os.MkdirTemp("", "verif-c08-")
	if err != nil {
		c.Notes = append(c.Notes, "could not create scratch directory: "+err.Error())
		return
	}
	defer os.RemoveAll(dir)
	for i, f := range s.files {
		sub := filepath.Join(dir, fmt.Sprintf("d%d", i%7))
		os.MkdirAll(sub, 0o755)
		os.WriteFile(filepath.Join(sub, fmt.Sprintf("f%05d.ecal", i)), []byte(f.desc.Source), 0o644)
	}
	for i, u := range s.untouched {
		sub := filepath.Join(dir, fmt.Sprintf("u%d", i%5))
		os.MkdirAll(sub, 0o755)
		os.WriteFile(filepath.Join(sub, fmt.Sprintf("u%05d.ecal", i)), []byte(u.Source), 0o644)
	}
	os.WriteFile(filepath.Join(dir, "broken.ecal"), []byte("a := ("), 0o644)
	os.WriteFile(filepath.Join(dir, "other.txt"), []byte("a   :=   1"), 0o644)
	// the bound grows with the directory (30 ms per file on top of the two minutes)
	bound := 120*time.Second + time.Duration(len(s.files)+len(s.untouched))*30*time.Millisecond
	r := guarded(bound, func() (interface{}, error) { return nil, tool.FormatFiles(dir, ".ecal") })
	if r.Panicked || r.TimedOut || r.Err != nil {
		c.Violate("formatfiles-fails", "tool.FormatFiles failed on a directory of parseable files: "+c08failure(r),
			c08case{Family: "formatfiles", Source: "<directory>"})
		return
	}
	if b, _ := os.ReadFile(filepath.Join(dir, "broken.ecal")); string(b) != "a := (" {
		c.Violate("formatfiles-touched-unparsable", "FormatFiles rewrote a file that does not parse",
			c08case{Family: "formatfiles", Source: "a := ("})
	}
	if b, _ := os.ReadFile(filepath.Join(dir, "other.txt")); string(b) != "a   :=   1" {
		c.Violate("formatfiles-touched-other", "FormatFiles rewrote a file with another extension",
			c08case{Family: "formatfiles", Source: "a   :=   1"})
	}
	for i, u := range s.untouched {
		b, err := os.ReadFile(filepath.Join(dir, fmt.Sprintf("u%d", i%5), fmt.Sprintf("u%05d.ecal", i)))
		c.Dist["formatfiles_unparsable_files"]++
		if err != nil {
			s.capped("formatfiles-lost-file", "file missing after FormatFiles: "+err.Error(), u)
		} else if string(b) != u.Source {
			s.capped("formatfiles-touched-unparsable",
				fmt.Sprintf("FormatFiles rewrote a file whose content the parser rejects; new content: %q", string(b)), u)
		}
	}
	for i, f := range s.files {
		report := func(key, what string) {
			if f.capped {
				s.capped(key, what, f.desc)
			} else {
				c.Violate(key, what, f.desc)
			}
		}
		b, err := os.ReadFile(filepath.Join(dir, fmt.Sprintf("d%d", i%7), fmt.Sprintf("f%05d.ecal", i)))
		c.Dist["formatfiles_files"]++
		if err != nil {
			report("formatfiles-lost-file", "file missing after FormatFiles: "+err.Error())
			continue
		}
		t3, r3 := c08parse(string(b))
		if t3 == nil && c08innerPreComment(f.t1) {
			report("precomment-inner-token", "after FormatFiles the file no longer parses")
			continue
		}
		if t3 == nil {
			report("formatfiles-unparsable", fmt.Sprintf("after FormatFiles the file no longer parses (%s): %q", c08failure(r3), string(b)))
			continue
		}
		// keyOf names the class of a difference: the recorded deviations, then a changed string
		// VALUE (its own key), then any other difference
		keyOf := func(x, y *parser.ASTNode) string {
			key := c08class(f.t1, x, y)
			if key == "" && c08innerPreComment(f.t1) {
				key = "precomment-inner-token"
			}
			if key == "" && c08isStringValueChange(x, y) {
				key = "formatfiles-string-value-differs"
			}
			if key == "" {
				key = "formatfiles-tree-differs"
			}
			return key
		}
		key := ""
		d, x, y := c08diff(f.t1, t3, f.t1.Name)
		if d != "" {
			key = keyOf(x, y)
			report(key, "after FormatFiles the file parses to a different tree: "+d)
		}
		same := d == ""
		if key == "raw-multiline-string" {
			// what lies behind the recorded deviation (raw flag only, value equal)
			if d2, x2, y2 := c08diffTol(f.t1, t3, f.t1.Name); d2 != "" {
				report(keyOf(x2, y2), "after FormatFiles the file parses to a different tree (beyond the raw flag of a multi-line raw string): "+d2)
			} else {
				same = !c08contains(f.t1, c08isRawMultilineInterp)
			}
		}
		// the file does the same as before
		if f.desc.Eval && same {
			v1, v2 := c08evalPair(f.desc.Source, string(b))
			c.Dist["formatfiles_evaluated"]++
			if v1 != v2 {
				k := "formatfiles-eval-differs"
				if c08contains(f.t1, c08isTimesDiv) {
					k = "times-div-brackets"
				} else if c08contains(f.t1, c08isReturnOperand) {
					k = "return-left-operand"
				}
				report(k, fmt.Sprintf("before FormatFiles evaluating the file gives %s, afterwards (%q) %s", v1, string(b), v2))
			}
		}
	}
}

// ---- generators ----------------------------------------------------------------------

type c08op struct {
	text   string
	infix  bool
	prefix bool
}

// c08operators reads the operator vocabulary from the implementation's own tables.
func c08operators() []c08op {
	text := map[int]string{}
	for k, v := range parser.SymbolMap {
		text[int(v)] = k
	}
	for k, v := range parser.KeywordMap {
		text[int(v)] = k
	}
	var res []c08op
	for _, e := range parser.VerifGrammarTable() {
		t, ok := text[e.Token]
		if !ok || e.Binding == 0 && e.Name != parser.NodeLET {
			continue
		}
		op := c08op{text: t, infix: e.Left == "ldInfix", prefix: e.Null == "ndPrefix"}
		if op.infix || op.prefix {
			res = append(res, op)
		}
	}
	sort.Slice(res, func(i, j int) bool { return res[i].text < res[j].text })
	return res
}

func c08depth2(ops []c08op) []string {
	var res []string
	for _, p := range ops {
		for _, q := range ops {
			if p.infix && q.infix {
				res = append(res,
					fmt.Sprintf("(a %s b) %s c", q.text, p.text), fmt.Sprintf("a %s b %s c", q.text, p.text),
					fmt.Sprintf("a %s (b %s c)", p.text, q.text))
			}
			if p.infix && q.prefix {
				res = append(res,
					fmt.Sprintf("(%s a) %s b", q.text, p.text), fmt.Sprintf("%s a %s b", q.text, p.text),
					fmt.Sprintf("a %s (%s b)", p.text, q.text), fmt.Sprintf("a %s %s b", p.text, q.text),
					fmt.Sprintf("a %s (%s b) %s c", p.text, q.text, p.text), fmt.Sprintf("a %s (%s b) + c", p.text, q.text))
			}
			if p.prefix && q.infix {
				res = append(res, fmt.Sprintf("%s (a %s b)", p.text, q.text), fmt.Sprintf("%s a %s b", p.text, q.text))
			}
			if p.prefix && q.prefix {
				res = append(res, fmt.Sprintf("%s (%s a)", p.text, q.text), fmt.Sprintf("%s %s a", p.text, q.text),
					fmt.Sprintf("%s (%s a) + b", p.text, q.text))
			}
		}
	}
	return res
}

func (s *c08state) randomExpr(ops []c08op, depth int, numeric bool) string {
	c := s.c
	atoms := []string{"a", "b", "c", "1", "2.5", "x.y", "f(a)", "\"s\"", "true", "null", "l[0]", "[a, b]"}
	if numeric {
		atoms = []string{"a", "b", "c", "1", "2.5", "10", "3"}
	}
	if depth == 0 || c.Rng.Intn(5) == 0 {
		return atoms[c.Rng.Intn(len(atoms))]
	}
	for {
		op := ops[c.Rng.Intn(len(ops))]
		if numeric && !strings.Contains("+ - * / // % > < >= <= == != and or not", op.text) {
			continue
		}
		if op.prefix && (!op.infix || c.Rng.Intn(3) == 0) {
			if strings.Contains("let kindmatch scopematch statematch priority suppresses", op.text) {
				continue
			}
			return "(" + op.text + " " + s.randomExpr(ops, depth-1, numeric) + ")"
		}
		if op.infix {
			return "(" + s.randomExpr(ops, depth-1, numeric) + " " + op.text + " " + s.randomExpr(ops, depth-1, numeric) + ")"
		}
	}
}

var c08contexts = []string{"%s", "x := %s", "[%s, 1]", "foo(%s, 2)", "if %s {\n a := 1\n}", "return %s",
	"{1 : %s}", "q[%s]", "for x in %s {\n}", "func f(p=%s) {\n}", "[1, %s]\nb"}

var c08containers = []string{
	"if a {\n%B\n}", "if a {\n%B\n} else {\n%B\n}", "if a {\n%B\n} elif b {\n%B\n} else {\n%B\n}",
	"if true {\n%B\n}", "if a {\n%B\n} elif true {\n%B\n}", "if a {\n%B\n} elif b {\n%B\n}",
	"for a > 0 {\n%B\n}", "for x in range(1, 3) {\n%B\n}", "for [k, v] in m {\n%B\n}",
	"try {\n%B\n} except \"e1\", \"e2\" as e {\n%B\n} except e {\n%B\n} except {\n%B\n} otherwise {\n%B\n} finally {\n%B\n}",
	"try {\n%B\n} finally {\n%B\n}", "try {\n%B\n} except \"a\" {\n%B\n}", "try {\n%B\n} except \"a\", \"b\" e {\n%B\n}",
	"func f(a, b=1) {\n%B\n}", "g := func (a) {\n%B\n}", "func () {\n%B\n}", "func h() {\n%B\n}",
	"sink s kindmatch [\"a.b\"], scopematch [], statematch {\"x\" : 1}, priority 3, suppresses [\"t\"] {\n%B\n}",
	"sink s2\n kindmatch [\"a\", \"b\", \"c\", \"d\", \"e\"]\n priority -1 {\n%B\n}",
	"mutex m {\n%B\n}",
}

var c08leaves = []string{
	"import \"foo/bar\" as fb", "return a + 1", "return", "let a := 1", "a := 1", "[a, b] := [1, 2]",
	"let [a, b] := x", "break", "continue", "a.b.c(1, 2)[2].d := 3", "x := {\"a\" : 1, \"b\" : 2}",
	"x := {\"a\" : 1, \"b\" : 2, \"c\" : 3}", "x := [1, 2, 3, 4]", "x := [1, 2, 3, 4, 5]", "log(\"x\")",
	"x := []", "x := {}", "foo()", "a := 1; b := 2", "x := func (a) {\n return a\n}", "-a", "[1, 2]",
	"(a)", "not a", "{1 : 2}", "\"s\"", "r\"raw {{x}}\"", "a[1][2]", "a.b()", "null", "true",
	"x := a.b[1](2)", "foo([1, 2, 3, 4, 5], {1 : 2, 3 : 4, 5 : 6})", "x := [[1, 2, 3, 4, 5], {}, [], {1 : [1, 2, 3, 4, 5]}]",
	"x := {\"f\" : func (a) {\n return a\n}, \"g\" : 1, \"h\" : [1]}", "return [1, 2, 3, 4, 5]", "return {1 : 2, 3 : 4, 5 : 6}",
	"t=\"x\"", "+a", "x := a - -b", "x := 1e+5", "raise(\"e\", null, [1])", "let (a := 1)", "return not a",
}

func c08fill(tmpl string, blocks []string) string {
	i := 0
	for strings.Contains(tmpl, "%B") {
		tmpl = strings.Replace(tmpl, "%B", blocks[i%len(blocks)], 1)
		i++
	}
	return tmpl
}

func c08listOf(n int, open, close string, elem func(i int) string) string {
	var items []string
	for i := 0; i < n; i++ {
		items = append(items, elem(i))
	}
	return open + strings.Join(items, ", ") + close
}

var c08commentBases = []string{
	"x := [1, 2, 3]\ny := foo(a, b)",
	"x := [\n 1,\n 2,\n 3,\n 4,\n 5\n]\nz := -1",
	"m := {\n \"a\" : 1,\n \"b\" : -2,\n \"c\" : 3\n}",
	"if a == 1 {\n b := a + 2 * c\n} elif b {\n c := 1\n} else {\n return foo(1, [2, 3])\n}",
	"for [k, v] in m {\n log(k, v)\n}\ntry {\n raise(\"x\")\n} except \"x\", \"y\" as e {\n log(e)\n} finally {\n a := 1\n}",
	"func f(a, b=1) {\n return a + b\n}\nx := func (c) {\n return -c\n}",
	"sink s\n kindmatch [\"a\"],\n priority 1\n{\n a := 1\n}",
	"a := b +\n c * d -\n e\nx.y(1)[2].z := not (a and b)",
	"import \"x\" as y\nmutex m {\n a := 1\n}\nlet q := r\"raw\"",
	"x := {\n \"a\" : 1,\n \"b\" : 2\n}\ny := [\n 1,\n 2\n]\nfoo(\n 1,\n 2\n)",
}

func c08quoteForms(v string) []string {
	var res []string
	esc := strings.NewReplacer("\\", "\\\\", "\"", "\\\"", "\n", "\\n", "\t", "\\t")
	res = append(res, "\""+esc.Replace(v)+"\"")
	if !strings.Contains(v, "'") {
		esc2 := strings.NewReplacer("\\", "\\\\", "\n", "\\n", "\t", "\\t")
		res = append(res, "'"+esc2.Replace(v)+"'")
	}
	if !strings.Contains(v, "\"") {
		res = append(res, "r\""+v+"\"")
	}
	if !strings.Contains(v, "'") {
		res = append(res, "r'"+v+"'")
	}
	return res
}

var c08fence = regexp.MustCompile("(?s)```[a-z]*\n(.*?)```")

func c08corpus() []string {
	repo := os.Getenv("VERIF_REPO")
	if repo == "" {
		repo = "/repo"
	}
	var res []string
	filepath.Walk(repo, func(path string, i os.FileInfo, err error) error {
		if err != nil || i.IsDir() {
			return nil
		}
		if strings.HasSuffix(path, ".ecal") {
			if b, err := os.ReadFile(path); err == nil && len(b) < 20000 {
				res = append(res, string(b))
			}
		}
		if strings.HasSuffix(path, "ecal.md") {
			if b, err := os.ReadFile(path); err == nil {
				for _, m := range c08fence.FindAllStringSubmatch(string(b), -1) {
					res = append(res, m[1])
				}
			}
		}
		return nil
	})
	sort.Strings(res)
	return res
}

// ---- comments around the elements of containers -----------------------------------------

var c08elemPool = []string{"1", "-2", "+3", "not x", "\"s\"", "(a + b)", "[1, 2]", "{1 : 2}", "x", "f(1)"}
var c08keyPool = []string{"1", "-2", "+3", "\"k\"", "x", "(a + b)"}

// c08commentForms places a comment relative to element i: after the element (the separator
// leads the next line), after the separator, before the element, between element and separator.
var c08commentForms = []struct{ before, afterElem, afterSep string }{
	{"", " # one\n", ""},
	{"", "", " # one\n"},
	{"/* c */ ", "", ""},
	{"", " /* c */", ""},
	{"/**/", "", ""},
	{"", " #\n", ""},
	{"", "/*\n*/", ""},
	{"", "", " # \n"},
	{"", " # one \x01, 666\n", ""},
	{"", "", " # k\x01a := 666\n"},
	{"/* a := 666 ; # \x02 /* */ ", "", ""},
	{"", " # */ /* {{ ; \" ]\n", ""},
}

// c08commented renders open e0 sep e1 ... close with a comment at element i in the given
// form; onePerLine puts every element on its own line (separator trailing).
func c08commented(open, close string, elems []string, i, form int, onePerLine bool) string {
	f := c08commentForms[form]
	var sb strings.Builder
	sb.WriteString(open)
	for k, e := range elems {
		if onePerLine {
			sb.WriteString("\n ")
		}
		if k == i {
			sb.WriteString(f.before)
		}
		sb.WriteString(e)
		if k == i {
			sb.WriteString(f.afterElem)
		}
		if k < len(elems)-1 {
			sb.WriteString(",")
			if k == i {
				sb.WriteString(f.afterSep)
			}
			sb.WriteString(" ")
		} else if k == i && f.afterSep != "" {
			sb.WriteString(f.afterSep)
		}
	}
	if onePerLine {
		sb.WriteString("\n")
	}
	sb.WriteString(close)
	return sb.String()
}

// commentedContainers: post and pre comments after / before every element of lists (1..7),
// maps (1..4), call arguments (1..6) and parameter lists with presets (1..5), the commented
// element and its successor drawn from the pools (signs, not, strings, brackets, nested
// containers, identifiers, calls).  Quick tier: every position and form, the successor always
// ranging over -n, +n and one rotating further element; thorough: all pairs.
func (s *c08state) commentedContainers() {
	c := s.c
	type shape struct {
		name        string
		open, close string
		maxN        int
		render      func(k int, e string) string
		prefix      string
		suffix      string
		eval        bool
	}
	shapes := []shape{
		{"list", "[", "]", 7, func(k int, e string) string { return e }, "q := ", "\nq", true},
		{"map", "{", "}", 4, func(k int, e string) string { return e }, "q := ", "", false},
		{"call", "foo(", ")", 6, func(k int, e string) string { return e }, "", "", false},
		{"params", "func g(", ") {\n}", 5, func(k int, e string) string { return fmt.Sprintf("p%d=%s", k, e) }, "", "", false},
	}
	n := 0
	for _, sh := range shapes {
		for size := 1; size <= sh.maxN; size++ {
			for i := 0; i < size; i++ {
				for form := range c08commentForms {
					for ai, cur := range c08elemPool {
						for bi, next := range c08elemPool {
							if c.Enough() {
								return
							}
							if !c.Thorough() {
								// rotate the commented element, keep the signed successors
								if form >= 4 && bi != 1 && bi != (size+i)%len(c08elemPool) {
									continue // empty comments: fewer successors
								}
								if ai != (size+i+form)%len(c08elemPool) {
									continue
								}
								if bi != 1 && bi != 2 && bi != (size+2*i+form)%len(c08elemPool) {
									continue
								}
							}
							elems := make([]string, size)
							for k := range elems {
								e := fmt.Sprint(k + 1)
								if k == i {
									e = cur
								} else if k == i+1 {
									e = next
								}
								if sh.name == "map" {
									key := c08keyPool[(k+ai+bi)%len(c08keyPool)]
									if k == i+1 {
										key = c08keyPool[bi%len(c08keyPool)]
									}
									e = key + " : " + e
								}
								elems[k] = sh.render(k, e)
							}
							if i == size-1 && bi > 0 && !c.Thorough() {
								continue // no successor: one variant is enough
							}
							for _, perLine := range []bool{false, true} {
								src := sh.prefix + c08commented(sh.open, sh.close, elems, i, form, perLine) + sh.suffix
								n++
								s.one(c08case{"comment", src, sh.eval}, n%6 == 0 || c.Thorough())
							}
						}
					}
				}
			}
		}
	}
	c.Extra["commented_container_sources"] = n
}

// comment texts: control characters (incl. the printer's internal marker byte 0x01), comment
// and string delimiters, interpolation, separators and text that looks like code
func c08commentTexts() []string {
	res := []string{
		"disabled:\x01a := 666", " one \x01, 666", "\x01", "* /", "/*", "/* x", "#", "## x # y", "\"", "'", "\"open", "r\"",
		"{{", "{{1+2}}", ";", "a; b", "a := 666", ", 666", "*/", "x */ y", "\\", "]", ")", "}", "-1", "+ 1", "ä€",
	}
	for _, ch := range []byte{1, 2, 3, 4, 5, 6, 7, 8, 0x0b, 0x0c, 0x0e, 0x0f, 0x10, 0x11, 0x12, 0x13, 0x14, 0x15, 0x16, 0x17,
		0x18, 0x19, 0x1a, 0x1b, 0x1c, 0x1d, 0x1e, 0x1f, 0x7f} {
		res = append(res, "k"+string([]byte{ch})+"a := 666", string([]byte{ch})+", 666 "+string([]byte{ch}))
	}
	return res
}

// c08asComments renders a text as a line comment and, when it can be one, as a block comment
func c08asComments(text string) []string {
	res := []string{" # " + text + "\n", " #" + text + "\n"}
	if !strings.Contains(text, "*/") && !strings.HasSuffix(text, "*") {
		res = append(res, " /* "+text+" */ ", "\n/*"+text+"\n "+text+" */\n")
	}
	return res
}

// witnesses of the defects (F12, F13, comments, if true) — replayed first on every run
var c08witnesses = []c08case{
	{"expr", "10 - (2 + 3)", true}, {"expr", "not (a and b)", false}, {"expr", "-(a + b)", true},
	{"expr", "a / (b * c)", true}, {"expr", "a == (b == c)", true}, {"expr", "(a == b) * c", false},
	{"expr", "(not a) == b", false}, {"expr", "a * (not b) + c", false}, {"expr", "-(not a) + b", false},
	{"expr", "a := (b := c)", false}, {"expr", "{1 : (2 == 3)}", false}, {"expr", "let (a := 1)", false},
	{"expr", "10 % (7 % 4)", true}, {"expr", "20 // (7 // 2)", true}, {"expr", "2 - (3 - 4)", true},
	{"string", "r\"Foo {{1+2}}\"", true}, {"string", "r\"a\\\"", true}, {"string", "\"a\\\\\"", true},
	{"string", "\"a\\\\\" + \"b\"", true}, {"string", "r'a\"b'", true}, {"string", "x := r\"a\\\"\nb := 1", false},
	{"stmt", "if true {\n a := 1\n}", false}, {"stmt", "if true {\n 5\n}", true},
	{"comment", "x := [1, 2 # two\n]", false}, {"comment", "[1 # one\n, 2]", false}, {"comment", "a # c\n + b", true},
	{"comment", "foo(1 # c\n, 2)", false}, {"comment", "m := {\"a\" : 1, # first\n \"b\" : 2 # second\n}", false},
	{"comment", "x := [\n 1 # c\n, -2, 3, 4, 5]", false}, {"comment", "x := [\n 1 # c\n, 2, 3, 4, 5]", false},
	{"comment", "a := 1 # x, y,\nb := 2", false},
	{"comment", "a := 1 # disabled:\x01a := 666\na", true}, {"comment", "[1 # one \x01, 666\n, 2]", true},
	{"comment", "q := [1 # one \x01, 666\n, 2, 3, 4, 5]\nq", true}, {"comment", "a # \x01\x01b\n-c", false},
	{"comment", "a;\n/* k */ -b + \"x*/y\"", false}, {"comment", "a;\n/* k */ /* j */ (b) # */\n", false},
	{"comment", "a;\n/* k */ -b\nc := [1, /* m */ 2]", false}, {"comment", "if c {\n a;\n /* k */\n +b + r\"*/\"\n}", false},
	{"comment", "/**/a", true}, {"comment", "/**/1", true}, {"comment", "/**/ a", true}, {"comment", "/**/\na", true},
	{"comment", "f(/**/a)", false}, {"comment", "[/**/1]", true}, {"comment", "/* */a", true}, {"comment", "/*\n*/\na", true},
	{"comment", "b := 1\n/*\n*/\na", false}, {"comment", "a #\nb", false}, {"comment", "a # \nb", false},
	{"comment", "if a {\n /**/\n b := 1\n}", false}, {"comment", "/*\n\n*/\na := 1\n/**/\nb := 2", false},
	{"comment", "a := [1 # one\n, +2, 3, 4, 5]", true}, {"comment", "a := {1 : 1 # one\n, +2 : 2, 3 : 3}", false},
	{"comment", "a := [1 # one\n, -2, 3, 4, 5]", true}, {"comment", "foo(1 # one\n, +2, [1, 2, 3, 4, 5])", false},
	{"expr", "a * (b / c)", true}, {"string", "r\"a\n{{1+2}}\"", true},
	// statement separator (C08-5): a statement starting with - + ( continues the previous line
	{"stmt", "a; -b", false}, {"stmt", "a; (b + c) * d", false}, {"stmt", "if a {\n b\n} ; -c", false},
	{"stmt", "a;+b", false}, {"stmt", "a := 1; -a", true}, {"stmt", "a := f; (b + c) * d", false},
	{"stmt", "if a {\n b; -c\n}", false}, {"stmt", "for x in y {\n a; (b + c) * d; +e\n}", false},
	{"stmt", "func f() {\n a; -b; (c) * 2\n}", false}, {"stmt", "g := func () {\n a; -b\n}", false},
	{"stmt", "try {\n a; -b\n} except {\n c; +d\n} finally {\n e; (f) * 1\n}", false},
	{"stmt", "sink s kindmatch [\"a\"] {\n a; -b\n}", false}, {"stmt", "mutex m {\n a; (b) + 1\n}", false},
	{"stmt", "a;\n\n-b", false}, {"stmt", "-a; -b; -c", false},
	{"comment", "a; /* k */ -b", false}, {"comment", "a;\n/* k */\n-b", false}, {"comment", "a # c\n;-b", false},
}

// statement pairs separated by ";" — the second statement starts with a token that may or may not
// continue the first one when the printer puts it on a new line
var c08pairFirst = []string{
	"a", "a := 1", "a := f", "f()", "x[1]", "\"s\"", "1", "if a {\n b\n}", "return a", "a.b", "[1]", "{1 : 2}", "break",
	"not a", "-a", "x := func () {\n}", "for a in b {\n}",
}
var c08pairSecond = []string{
	"-b", "+b", "(b + c) * d", "(b)", "(b).c", "[1, 2]", "[1, 2][0]", "not b", "\"s\"", "r\"s\"", "1", "-1", "+1", "{1 : 2}",
	"-(b + c)", "(-b)", "b",
}

func runC08(c *Ctx) error {
	c.Rule = "sources by family — expr: every operator of parser.astNodeMap (read from the implementation's tables) nested under every other on either side with/without parentheses (exhaustive depth 2) plus seeded random fully parenthesised trees of depth <= 4 in 11 contexts; stmt: every block-bearing statement kind filled with every leaf statement, every ordered pair of leaves, and every container (depth 2); pair: 17 first statements x 17 second statements starting with - + ( [ not, a string, a number, { or an identifier, separated by \";\" at top level, in a block, in a function body and with a blank line, also with /* */ and # comments in front of the second statement and strings / trailing comments containing */ /* # ; further right; container: lists/maps/calls with 0..7 elements; string: values over {a,\",',\\,newline,tab,{{1+2}},{{,}},space,ä,€} up to length 3 in quoted/single-quoted/raw forms, at top level and inside a block; comment: a post or pre comment inserted before every token of 10 base programs, and post/pre comments after/before every element (also between element and separator, separator leading or trailing, one line or one element per line) of lists with 1..7 elements, maps with 1..4 entries, calls with 1..6 arguments and parameter lists with 1..5 presets, the commented element and its successor drawn from {n, -n, +n, not x, string, (a + b), list, map, identifier, call}; comment texts also drawn from a pool with the control characters 0x01-0x08 0x0b 0x0c 0x0e-0x1f 0x7f (0x01 followed by code at every position), * / /* # quotes {{ ; and code-looking text; every comment position also with empty and whitespace-only comments (/**/, /* */, /*<nl>*/, #<nl>, # <nl>); bytes: multi-line raw strings r\"..\" / r'..' over a byte-level value pool (line breaks, blanks and tabs before / after a break, form feed, vertical tab, explicit CR and CR LF, byte order mark, U+0085, U+2028, {{ }}, backslash, comment openers, code-looking text; fixed values plus seeded random ones) in 17 contexts (program result, assignment, len, concatenation, function result, map / list element, comparison, three raw strings in one file, blocks with space and tab indentation, multi-line list, between comments, call argument, raise, sink) and the same values inside block and line comments in 8 positions, every program rendered as a file in 18 conventions applied to the whole text (LF, CR LF, CR LF with final break, mixed even / odd, only the second / only the last break CR LF, CR only, LF CR, CR CR LF, byte order mark with LF / CR LF, trailing blanks with LF / CR LF, form feed, vertical tab, U+0085, U+2028), plus the comment base programs and the repository's programs in every convention; contents that parse run through all oracles and FormatFiles, contents the parser rejects must be left byte-identical by FormatFiles; corpus: .ecal files and ecal.md code blocks of the repository. Oracles: re-parse equal up to positions/comments, idempotence, equal evaluation result, FormatFiles on a scratch directory (tree of the rewritten file equal incl. string values, also behind the recorded raw-flag deviation of multi-line raw strings; equal evaluation result of the file before / after; unparsable contents untouched); model: token sequence of the real output vs the Coq printer model. Non-trivial = the tree has children; distinct by source text"
	c.BeginCases("From Coq Require Import String.\nFrom Ecal Require Import Common.Bytes Common.Ast gen.Tokens Run.RunC08.\nOpen Scope string_scope.", "case", 120)
	s := &c08state{c: c, seenTree: map[string]bool{}}

	if c.Replay != "" {
		var d c08case
		if err := c.LoadReplay(&d); err != nil {
			return err
		}
		if d.Family == "formatfiles" && d.Source == "<directory>" {
			return fmt.Errorf("a FormatFiles failure on the whole directory has no single-input replay")
		}
		s.one(d, true)
		s.files = []c08file{}
		if t1, _ := c08parse(d.Source); t1 != nil {
			if p, r := c08print(t1); !(r.Panicked || r.TimedOut || r.Err != nil) {
				s.files = append(s.files, c08file{desc: d, t1: t1, p: p})
			}
		} else {
			s.untouched = []c08case{d}
		}
		s.formatFiles()
		return nil
	}

	for _, w := range c08witnesses {
		s.one(w, true)
	}
	ops := c08operators()
	c.Extra["operators"] = len(ops)
	// expressions, exhaustive depth 2
	for i, src := range c08depth2(ops) {
		if c.Enough() {
			break
		}
		s.one(c08case{"expr", src, true}, i%4 == 0 || c.Thorough())
		if i%9 == 0 {
			s.one(c08case{"expr", "if " + src + " {\n x := [" + src + ", 1]\n}", false}, c.Thorough())
		}
	}
	// expressions, random deeper trees in contexts
	for i := 0; i < c.Pick(600, 12000) && !c.Enough(); i++ {
		numeric := i%2 == 0
		e := s.randomExpr(ops, 1+c.Rng.Intn(4), numeric)
		ctx := c08contexts[c.Rng.Intn(len(c08contexts))]
		if numeric {
			ctx = "%s"
		}
		s.one(c08case{"expr", fmt.Sprintf(ctx, e), numeric}, i%6 == 0 || c.Thorough())
	}
	// statements
	for _, l := range c08leaves {
		s.one(c08case{"stmt", l, false}, true)
	}
	for ci, cont := range c08containers {
		if c.Enough() {
			break
		}
		for li, l := range c08leaves {
			s.one(c08case{"stmt", c08fill(cont, []string{l}), false}, (ci+li)%4 == 0 || c.Thorough())
			s.one(c08case{"stmt", c08fill(cont, []string{l, "a := 1\n" + l, ""}), false}, (ci+li)%8 == 1 || c.Thorough())
		}
		for ii, inner := range c08containers {
			in := c08fill(inner, []string{"a := 1", "b := 2\nc := 3"})
			s.one(c08case{"stmt", c08fill(cont, []string{in, "x := 1\n" + in + "\ny := 2"}), false}, (ci+ii)%3 == 0 || c.Thorough())
			s.one(c08case{"stmt", "z := 0\n" + c08fill(cont, []string{in}) + "\n" + in, false}, c.Thorough())
		}
	}
	for i, l1 := range c08leaves {
		for j, l2 := range c08leaves {
			if c.Enough() {
				break
			}
			s.one(c08case{"stmt", l1 + "\n" + l2, false}, (i+j)%12 == 0 || c.Thorough())
			if (i+j)%3 == 0 || c.Thorough() {
				s.one(c08case{"stmt", "if a {\n" + l1 + "\n" + l2 + "\n}", false}, false)
			}
		}
	}
	// statement pairs separated by ";" at top level, in a block, in a function, with a blank line
	for i, l1 := range c08pairFirst {
		for j, l2 := range c08pairSecond {
			if c.Enough() {
				break
			}
			s.one(c08case{"pair", l1 + "; " + l2, false}, (i+j)%3 == 0 || c.Thorough())
			s.one(c08case{"pair", "if c {\n " + l1 + "; " + l2 + "\n}", false}, (i+j)%5 == 0 || c.Thorough())
			s.one(c08case{"pair", "func f() {\n " + l1 + "; " + l2 + "; " + l1 + "\n}", false}, (i+j)%7 == 0 || c.Thorough())
			s.one(c08case{"pair", l1 + ";\n\n" + l2 + "\n" + l2, false}, false)
			// comments in front of the second statement, comment / string delimiters further right
			k := i + j
			for vi, src := range []string{
				l1 + ";\n/* k */ " + l2 + " + \"x*/y\"",
				l1 + "; # k\n" + l2 + " # t */ /* ; #",
				l1 + ";\n/* k */\n/* j */ " + l2 + "\nc := \"/* ; */ #\"",
				l1 + ";\n/* k /* # ; */ " + l2 + "\nq := [1, /* m */ 2]",
				l1 + ";\n# k */\n/* j */\n" + l2 + " + r'*/' # /* z",
				"if c {\n " + l1 + ";\n /* k */ " + l2 + " + \"*/\"\n /* e */\n}",
				"func f() {\n " + l1 + "; /* k */ " + l2 + "; /* j */ " + l2 + " # */\n}",
				l1 + " # */\n;\n/* k */ " + l2 + " /* t */\n/* u */ " + l2,
			} {
				if c.Thorough() || (k+vi)%4 == 0 {
					s.one(c08case{"pair", src, false}, (k+vi)%12 == 0 || c.Thorough())
				}
			}
		}
	}
	// containers around the multi-line thresholds
	for n := 0; n <= 7; n++ {
		num := func(i int) string { return fmt.Sprint(i + 1) }
		kvp := func(i int) string { return fmt.Sprintf("\"k%d\" : %d", i, i) }
		neg := func(i int) string { return fmt.Sprintf("-%d", i+1) }
		lst := c08listOf(n, "[", "]", num)
		mp := c08listOf(n, "{", "}", kvp)
		for _, src := range []string{
			lst, mp, "x := " + lst, "x := " + mp, "foo" + c08listOf(n, "(", ")", num), c08listOf(n, "[", "]", neg),
			"x := " + c08listOf(n, "[", "]", func(i int) string { return lst }),
			"x := " + c08listOf(n, "{", "}", func(i int) string { return fmt.Sprintf("%d : %s", i, mp) }),
			"func f" + c08listOf(n, "(", ")", func(i int) string { return fmt.Sprintf("p%d=%s", i, lst) }) + " {\n return " + lst + "\n}",
			"if a {\n for x in " + lst + " {\n y := " + mp + "\n }\n}",
			"return " + lst, "foo(" + lst + ", " + mp + ")", "x[" + lst + "]", "sink s kindmatch " + lst + " statematch " + mp + " {\n}",
		} {
			s.one(c08case{"container", src, n <= 7 && (strings.HasPrefix(src, "[") || strings.HasPrefix(src, "{"))}, true)
		}
	}
	// strings
	pieces := []string{"a", "\"", "'", "\\", "\n", "\t", "{{1+2}}", "{{", "}}", " ", "ä", "€"}
	var values []string
	var rec func(prefix string, n int)
	rec = func(prefix string, n int) {
		values = append(values, prefix)
		if n == 0 {
			return
		}
		for _, p := range pieces {
			rec(prefix+p, n-1)
		}
	}
	rec("", c.Pick(2, 3))
	for i := 0; i < c.Pick(300, 6000); i++ {
		var sb strings.Builder
		for k := 0; k < 3+c.Rng.Intn(6); k++ {
			sb.WriteString(pieces[c.Rng.Intn(len(pieces))])
		}
		values = append(values, sb.String())
	}
	c.Extra["string_values"] = len(values)
	for vi, v := range values {
		if c.Enough() {
			break
		}
		for fi, lit := range c08quoteForms(v) {
			s.one(c08case{"string", lit, true}, (vi+fi)%8 == 0 || c.Thorough())
			if (vi+fi)%4 == 1 {
				s.one(c08case{"string", "if a {\n x := " + lit + "\n y := [" + lit + ", 1]\n}", false}, false)
			}
			if (vi+fi)%16 == 2 {
				s.one(c08case{"string", "x := " + lit + " + " + lit + "\nx", true}, false)
			}
		}
	}
	// comments around every element of lists, maps, call arguments and parameter lists
	s.commentedContainers()
	// comments before / after every token
	for bi, base := range c08commentBases {
		toks := parser.LexToList("c08", base)
		for ti, t := range toks {
			if c.Enough() {
				break
			}
			if t.ID == parser.TokenEOF || t.ID == parser.TokenError {
				continue
			}
			for _, cm := range []string{" # note\n", " /* note */ ", "\n/* multi\n line */\n", " # a, b,\n"} {
				src := base[:t.Pos] + cm + base[t.Pos:]
				s.one(c08case{"comment", src, false}, ti%6 == 0 || c.Thorough())
			}
			// empty and whitespace-only comments
			for ei, cm := range []string{"/**/", " /* */ ", "\n/*\n*/\n", " #\n", " # \n", "/*\n\n */", "/*\t*/"} {
				src := base[:t.Pos] + cm + base[t.Pos:]
				s.one(c08case{"comment", src, false}, (ti+ei)%14 == 0 || c.Thorough())
			}
		}
		// hostile comment texts at every token position (rotating through the pool; the texts
		// holding the printer's marker byte at every position)
		texts := c08commentTexts()
		for ti, t := range toks {
			if c.Enough() {
				break
			}
			if t.ID == parser.TokenEOF || t.ID == parser.TokenError {
				continue
			}
			for xi, text := range texts {
				if !c.Thorough() && xi > 1 && xi != 2+(ti+bi)%(len(texts)-2) {
					continue
				}
				for fi, cm := range c08asComments(text) {
					if !c.Thorough() && fi%2 == 1 && (ti+xi)%3 != 0 {
						continue
					}
					src := base[:t.Pos] + cm + base[t.Pos:]
					s.one(c08case{"comment", src, false}, (ti+xi+fi)%16 == 0 || c.Thorough())
				}
			}
		}
		s.one(c08case{"comment", base + " # trailing", false}, true)
	}
	// programs of the repository
	for _, src := range c08corpus() {
		s.one(c08case{"corpus", src, false}, true)
	}
	// byte-level file contents: CR LF / CR / mixed endings, byte order mark, blanks, form feeds
	// inside multi-line raw strings and comments (c08_bytes.go; after the corpus: its files go to FormatFiles on top of the cap of the other families)
	s.byteLevel()
	s.formatFiles()
	c.Exhaustive = false
	return nil
}
