package main

import (
	"encoding/json"
	"fmt"
	"math/rand"
	"os"
	"path/filepath"
	"sort"
	"strings"
)

// Violation is a failure of the Spec oracle observed directly on the implementation.
type Violation struct {
	Key    string      `json:"key"`    // class of the failure (matched against KNOWN_FINDINGS.txt)
	Desc   string      `json:"desc"`   // what failed
	Replay interface{} `json:"replay"` // concrete input / history
}

// Ctx collects what a sub-command produces.
type Ctx struct {
	Prop   string
	Tier   string
	Seed   int64
	Out    string
	Replay string
	Rng    *rand.Rand

	caseFiles  []string
	cur        *strings.Builder
	curN       int
	shard      int
	header     string
	caseType   string
	perShard   int
	CaseDesc   map[string]interface{} // id -> replayable description
	nextID     int
	Evals      int
	distinct   map[string]bool
	Dist       map[string]int
	Samples    []interface{}
	Violations []Violation
	Rule       string
	Notes      []string
	Exhaustive bool
	Extra      map[string]interface{}
	vcount     map[string]int
	emitted    int
}

func newCtx(prop, tier string, seed int64, out, replay string) *Ctx {
	return &Ctx{Prop: prop, Tier: tier, Seed: seed, Out: out, Replay: replay,
		Rng: rand.New(rand.NewSource(seed)), CaseDesc: map[string]interface{}{},
		distinct: map[string]bool{}, Dist: map[string]int{}, perShard: 1000,
		Extra: map[string]interface{}{}, vcount: map[string]int{}}
}

func (c *Ctx) Thorough() bool { return c.Tier == "thorough" }

// Pick returns q for the quick tier and t for the thorough tier.
func (c *Ctx) Pick(q, t int) int {
	if c.Thorough() {
		return t
	}
	return q
}

// BeginCases sets the preamble (Require lines) and the Coq type of a case.
func (c *Ctx) BeginCases(requires string, caseType string, perShard int) {
	if c.cur != nil && c.curN > 0 && (requires != c.header || caseType != c.caseType) {
		c.flushShard() // cases collected so far belong to the previous preamble
	}
	c.header = requires
	c.caseType = caseType
	if perShard > 0 {
		c.perShard = perShard
	}
}

// NewID hands out the next case id.
func (c *Ctx) NewID() int { c.nextID++; return c.nextID }

// AddCase appends one case term (Coq syntax) to the current shard.
func (c *Ctx) AddCase(id int, term string, desc interface{}, distinctKey string, nontrivial bool) {
	if c.cur == nil {
		c.cur = &strings.Builder{}
		c.curN = 0
	}
	if c.curN > 0 {
		c.cur.WriteString(";\n")
	}
	c.cur.WriteString("  ")
	c.cur.WriteString(term)
	c.curN++
	c.CaseDesc[fmt.Sprint(id)] = desc
	c.Evals++
	if nontrivial {
		c.distinct[distinctKey] = true
	}
	if len(c.Samples) < 5 || (c.Evals%997 == 0 && len(c.Samples) < 12) {
		c.Samples = append(c.Samples, desc)
	}
	if c.curN >= c.perShard {
		c.flushShard()
	}
}

// Count records a case that is checked on the Go side only (no Coq term).
func (c *Ctx) Count(distinctKey string, nontrivial bool, desc interface{}) {
	c.Evals++
	if nontrivial {
		c.distinct[distinctKey] = true
	}
	if len(c.Samples) < 5 || (c.Evals%997 == 0 && len(c.Samples) < 12) {
		c.Samples = append(c.Samples, desc)
	}
}

func (c *Ctx) flushShard() {
	if c.cur == nil || c.curN == 0 {
		return
	}
	name := fmt.Sprintf("cases_%03d.v", c.shard)
	c.shard++
	var sb strings.Builder
	sb.WriteString(c.header)
	sb.WriteString("\nDefinition cases : list " + c.caseType + " := [\n")
	sb.WriteString(c.cur.String())
	sb.WriteString("\n].\n")
	sb.WriteString("Definition M := Eval vm_compute in (check_all cases).\nPrint M.\n")
	sb.WriteString("Definition K := Eval vm_compute in (N.of_nat (length M), N.of_nat (length cases)).\nPrint K.\n")
	c.emitted += c.curN
	if err := os.WriteFile(filepath.Join(c.Out, name), []byte(sb.String()), 0o644); err != nil {
		panic(err)
	}
	c.caseFiles = append(c.caseFiles, name)
	c.cur = nil
	c.curN = 0
}

func (c *Ctx) Violate(key, desc string, replay interface{}) {
	c.Violations = append(c.Violations, Violation{key, desc, replay})
	c.vcount[key]++
}

// Enough reports whether the sweep should stop early: runs that did not terminate leave
// a spinning goroutine behind, and a flood of identical violations adds nothing.
func (c *Ctx) Enough() bool {
	if c.vcount["nontermination"] >= 3 {
		return true
	}
	return len(c.Violations) >= 200
}

func (c *Ctx) finish() error {
	c.flushShard()
	b, _ := json.Marshal(c.CaseDesc)
	if err := os.WriteFile(filepath.Join(c.Out, "cases.json"), b, 0o644); err != nil {
		return err
	}
	keys := []string{}
	for k := range c.Dist {
		keys = append(keys, k)
	}
	sort.Strings(keys)
	res := map[string]interface{}{
		"property":            c.Prop,
		"tier":                c.Tier,
		"seed":                c.Seed,
		"evaluations":         c.Evals,
		"distinct_nontrivial": len(c.distinct),
		"rule":                c.Rule,
		"samples":             c.Samples,
		"distribution":        c.Dist,
		"violations":          c.Violations,
		"case_files":          c.caseFiles,
		"cases_emitted":       c.emitted,
		"notes":               c.Notes,
		"exhaustive":          c.Exhaustive,
		"extra":               c.Extra,
	}
	if c.Violations == nil {
		res["violations"] = []Violation{}
	}
	if c.caseFiles == nil {
		res["case_files"] = []string{}
	}
	b, _ = json.MarshalIndent(res, "", " ")
	return os.WriteFile(filepath.Join(c.Out, "result.json"), b, 0o644)
}

// LoadReplay reads the case description out of a replay file written by the driver.
func (c *Ctx) LoadReplay(into interface{}) error {
	b, err := os.ReadFile(c.Replay)
	if err != nil {
		return err
	}
	var r struct {
		Payload struct {
			Case json.RawMessage `json:"case"`
		} `json:"payload"`
	}
	if err := json.Unmarshal(b, &r); err != nil {
		return err
	}
	return json.Unmarshal(r.Payload.Case, into)
}

// ---- Coq term emission ------------------------------------------------------------

// CoqBytes renders a byte string as a list of N.
func CoqBytes(s string) string {
	if len(s) == 0 {
		return "[]"
	}
	var sb strings.Builder
	sb.WriteString("[")
	for i := 0; i < len(s); i++ {
		if i > 0 {
			sb.WriteString(";")
		}
		fmt.Fprintf(&sb, "%d", s[i])
	}
	sb.WriteString("]")
	return sb.String()
}

func CoqBool(b bool) string {
	if b {
		return "true"
	}
	return "false"
}

func CoqList(items []string) string {
	if len(items) == 0 {
		return "[]"
	}
	return "[" + strings.Join(items, "; ") + "]"
}

func CoqNat(n int) string { return fmt.Sprintf("%d%%nat", n) }

func CoqZ(n int64) string {
	if n < 0 {
		return fmt.Sprintf("(%d)%%Z", n)
	}
	return fmt.Sprintf("%d%%Z", n)
}

func CoqN(n uint64) string { return fmt.Sprintf("%d%%N", n) }

func CoqOpt(s string, ok bool) string {
	if ok {
		return "(Some " + s + ")"
	}
	return "None"
}

// CoqString renders printable ASCII text as a Coq string literal.
func CoqString(s string) string {
	return "\"" + strings.ReplaceAll(s, "\"", "\"\"") + "\"%string"
}
