package main

import (
	"fmt"
	"time"

	"github.com/krotik/ecal/interpreter"
	"github.com/krotik/ecal/parser"
	"github.com/krotik/ecal/scope"
)

// callResult is the outcome of running implementation code under recover and a time bound.
type callResult struct {
	Val      interface{}
	Err      error
	Panicked bool
	PanicMsg string
	TimedOut bool
}

// guarded runs f in its own goroutine, recovering a panic and giving up after d.
// (The code under test has no recover of its own; the recover lives in the harness only.)
func guarded(d time.Duration, f func() (interface{}, error)) callResult {
	ch := make(chan callResult, 1)
	go func() {
		var r callResult
		defer func() {
			if p := recover(); p != nil {
				r.Panicked = true
				r.PanicMsg = fmt.Sprint(p)
			}
			ch <- r
		}()
		r.Val, r.Err = f()
	}()
	select {
	case r := <-ch:
		return r
	case <-time.After(d):
		return callResult{TimedOut: true}
	}
}

// evalProgram parses, validates and evaluates src in scope vs with a fresh runtime provider
// unless one is given.
func evalProgram(name, src string, vs parser.Scope, erp *interpreter.ECALRuntimeProvider) (interface{}, error) {
	if erp == nil {
		erp = interpreter.NewECALRuntimeProvider(name, nil, nil)
	}
	ast, err := parser.ParseWithRuntime(name, src, erp)
	if err != nil {
		return nil, err
	}
	if err = ast.Runtime.Validate(); err != nil {
		return nil, err
	}
	if vs == nil {
		vs = scope.NewScope(scope.GlobalScope)
	}
	return ast.Runtime.Eval(vs, make(map[string]interface{}), erp.NewThreadID())
}

// goFunc adapts a Go closure to util.ECALFunction.
type goFunc struct {
	f func(args []interface{}) (interface{}, error)
}

func (g *goFunc) Run(instanceID string, vs parser.Scope, is map[string]interface{}, tid uint64, args []interface{}) (interface{}, error) {
	return g.f(args)
}
func (g *goFunc) DocString() (string, error) { return "verif harness function", nil }
func (g *goFunc) String() string             { return "goFunc" }
