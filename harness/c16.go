//go:build c16

package main

// C16 — the debugger command interface is total.  Implementation side: a real
// interpreter.NewECALDebugger attached to a runtime provider; a fixed ECAL program is run in
// goroutines which suspend at break points / on an error / block in a harness function, so
// that the debugger is driven into the states {nothing executed, thread running without and
// with interrogation state, suspended at top level, suspended inside nested calls, suspended
// on an error, finished, finished while marked running}; command lines over the vocabulary
// with 0..4 arguments are sent through HandleInput.  Observed per line: panic, time-out,
// result vs. error, json.Marshal of the result, a following write-lock taking command and a
// following "status" within a time bound; the state before the line (measured with "status")
// and the abstraction of every word go to the Coq model which must produce the same class.

import (
	"encoding/json"
	"fmt"
	"sort"
	"strconv"
	"strings"
	"sync"
	"sync/atomic"
	"time"

	"github.com/krotik/ecal/interpreter"
	"github.com/krotik/ecal/parser"
	"github.com/krotik/ecal/scope"
	"github.com/krotik/ecal/util"
)

func init() { register("C16", runC16) }

const c16prog = `func g(x) {
  y := x + 1
  if holdin { hold() }
  return y
}
func f(x) {
  return g(x)
}
func h(x) {
  raise("MyErr", "detail", {1:2, "k":[1,{2:3}]})
}
l := [1,2,3]
a := 1
b := f(a)
if holdtop { hold() }
if doerr {
  h(1)
}
c := 3
`

const (
	c16bpTop    = "src:13" // a := 1      (top level, stack depth 0)
	c16bpNested = "src:2"  // y := x + 1  (inside g called from f: depth 2)
	c16bpLast   = "src:19" // c := 3      (last statement)
	c16timeout  = 2 * time.Second
)

var c16cmdCtor = map[string]string{
	"breakonstart": "CBreakOnStart", "break": "CBreak", "rmbreak": "CRmBreak",
	"disablebreak": "CDisableBreak", "cont": "CCont", "describe": "CDescribe",
	"status": "CStatus", "extract": "CExtract", "inject": "CInject", "lockstate": "CLockState",
}

type c16cfg struct {
	Global  bool `json:"global"`  // debugger created with a global scope
	DoErr   bool `json:"doerr"`   // the program raises an error inside h
	HoldTop bool `json:"holdtop"` // the program blocks in hold() on the top level
	HoldIn  bool `json:"holdin"`  // the program blocks in hold() inside g
	// Val (c16host.go): an ECAL expression whose value is hostile to JSON encoding; the threads then
	// run c16hostProg which holds that value in the global scope, as argument and local variable of
	// the frames of the call stack and in the environment of the raised error
	Val string `json:"val,omitempty"`
	// ErrData: the hostile value also is the data (third argument) of the raised error
	ErrData bool `json:"errdata,omitempty"`
}

// c16desc is the replayable description of one case: the last element of Script is the line
// under test, everything before is the history ("!start" = run the program in a new thread,
// "!release" = let threads blocked in hold() go on, anything else = a command line).
type c16desc struct {
	Cfg    c16cfg        `json:"cfg"`
	Script []string      `json:"script"`
	Stream *c16streamCfg `json:"stream,omitempty"` // instead of a script: a stream of commands against running threads (c16stream.go)
	Race   string        `json:"race,omitempty"`   // first report of the race detector (race stream)
}

type c16thread struct {
	tid    uint64
	done   chan struct{}
	inHold int32
}

type c16scn struct {
	cfg     c16cfg
	dbg     util.ECALDebugger
	erp     *interpreter.ECALRuntimeProvider
	vs      parser.Scope
	threads []*c16thread
	release chan struct{}
	mu      sync.Mutex
	started bool
	dead    bool // a call did not return: the scenario cannot be used any further
}

// c16hold is the ECAL function hold(): blocks a program thread until the harness releases it.
type c16hold struct{ sc *c16scn }

func (h *c16hold) Run(instanceID string, vs parser.Scope, is map[string]interface{}, tid uint64, args []interface{}) (interface{}, error) {
	h.sc.mu.Lock()
	var th *c16thread
	for _, t := range h.sc.threads {
		if t.tid == tid {
			th = t
		}
	}
	rel := h.sc.release
	h.sc.mu.Unlock()
	if th == nil {
		return nil, nil // evaluation of an inject expression: never blocks
	}
	atomic.StoreInt32(&th.inHold, 1)
	<-rel
	atomic.StoreInt32(&th.inHold, 0)
	return nil, nil
}
func (h *c16hold) DocString() (string, error) { return "verif harness hold", nil }

func c16newScn(cfg c16cfg) *c16scn {
	sc := &c16scn{cfg: cfg, release: make(chan struct{})}
	sc.vs = scope.NewScope(scope.GlobalScope)
	sc.vs.SetValue("doerr", cfg.DoErr)
	sc.vs.SetValue("holdtop", cfg.HoldTop)
	sc.vs.SetValue("holdin", cfg.HoldIn)
	sc.vs.SetValue("hold", &c16hold{sc})
	sc.erp = interpreter.NewECALRuntimeProvider("c16", nil, nil)
	if cfg.Global {
		sc.dbg = interpreter.NewECALDebugger(sc.vs)
	} else {
		sc.dbg = interpreter.NewECALDebugger(nil)
	}
	sc.erp.Debugger = sc.dbg
	return sc
}

// start runs the program in a new thread (parsed here: concurrent parsing is C13's topic).
func (sc *c16scn) start() error {
	ast, err := parser.ParseWithRuntime("src", c16program(sc.cfg), sc.erp)
	if err != nil {
		return err
	}
	if err = ast.Runtime.Validate(); err != nil {
		return err
	}
	th := &c16thread{tid: sc.erp.NewThreadID(), done: make(chan struct{})}
	sc.mu.Lock()
	sc.threads = append(sc.threads, th)
	sc.mu.Unlock()
	sc.started = true
	go func() {
		defer close(th.done)
		defer func() { recover() }()
		ast.Runtime.Eval(sc.vs, make(map[string]interface{}), th.tid)
		sc.dbg.RecordThreadFinished(th.tid)
	}()
	return nil
}

func (sc *c16scn) releaseHolds() {
	sc.mu.Lock()
	close(sc.release)
	sc.release = make(chan struct{})
	sc.mu.Unlock()
}

type c16tinfo struct {
	Tid     uint64
	Depth   int
	HasIS   bool
	Running bool
	HasErr  bool
}

type c16state struct {
	Bos     bool
	Bps     map[string]bool
	Threads []c16tinfo
}

// status sends "status" and reads the documented JSON layout of the answer.
func (sc *c16scn) status() (*c16state, string) {
	r := guarded(c16timeout, func() (interface{}, error) { return sc.dbg.HandleInput("status") })
	switch {
	case r.TimedOut:
		return nil, "did not return within the time bound"
	case r.Panicked:
		return nil, "panicked: " + r.PanicMsg
	case r.Err != nil:
		return nil, "returned an error: " + r.Err.Error()
	}
	b, err := json.Marshal(r.Val)
	if err != nil {
		return nil, c16notEncodable + c16blameText(r.Val) + err.Error()
	}
	var st struct {
		Breakonstart bool            `json:"breakonstart"`
		Breakpoints  map[string]bool `json:"breakpoints"`
		Threads      map[string]struct {
			CallStack     []string        `json:"callStack"`
			ThreadRunning *bool           `json:"threadRunning"`
			Error         json.RawMessage `json:"error"`
		} `json:"threads"`
	}
	if err := json.Unmarshal(b, &st); err != nil {
		return nil, "unexpected layout: " + err.Error()
	}
	res := &c16state{Bos: st.Breakonstart, Bps: st.Breakpoints}
	for k, v := range st.Threads {
		tid, _ := strconv.ParseUint(k, 10, 64)
		ti := c16tinfo{Tid: tid, Depth: len(v.CallStack)}
		if v.ThreadRunning != nil {
			ti.HasIS = true
			ti.Running = *v.ThreadRunning
		}
		ti.HasErr = len(v.Error) > 0 && string(v.Error) != "null"
		res.Threads = append(res.Threads, ti)
	}
	sort.Slice(res.Threads, func(i, j int) bool { return res.Threads[i].Tid < res.Threads[j].Tid })
	return res, ""
}

// settle waits until every program thread is finished, blocked in hold() or suspended.
func (sc *c16scn) settle() (*c16state, string) {
	deadline := time.Now().Add(3 * time.Second)
	confirmed := false
	for {
		st, msg := sc.status()
		if st == nil {
			return nil, msg
		}
		ok := true
		for _, th := range sc.threads {
			select {
			case <-th.done:
				continue
			default:
			}
			if atomic.LoadInt32(&th.inHold) == 1 {
				continue
			}
			susp := false
			for _, ti := range st.Threads {
				if ti.Tid == th.tid && ti.HasIS && !ti.Running {
					susp = true
				}
			}
			if !susp {
				ok = false
			}
		}
		if ok && confirmed {
			return st, ""
		}
		if ok {
			// once more after a pause: a thread seen as suspended may be just before its wait
			confirmed = true
			time.Sleep(300 * time.Microsecond)
			continue
		}
		confirmed = false
		if time.Now().After(deadline) {
			return nil, "unsettled"
		}
		time.Sleep(200 * time.Microsecond)
	}
}

// teardown stops the scenario's threads.  StopThreads takes the debugger's locks and every
// thread's condition lock: when it does not return within the bound a lock was left behind
// (the return value tells, the caller reports it).
func (sc *c16scn) teardown() (stopHangs bool) {
	if sc.dead {
		return false
	}
	sc.releaseHolds()
	stop := func() bool {
		r := guarded(c16timeout, func() (interface{}, error) { sc.dbg.StopThreads(0); return nil, nil })
		return r.TimedOut
	}
	if stop() {
		sc.dead = true
		return true
	}
	for round := 0; round < 50; round++ {
		all := true
		for _, th := range sc.threads {
			select {
			case <-th.done:
			case <-time.After(20 * time.Millisecond):
				all = false
			}
		}
		if all {
			break
		}
		// a killed thread stops at its next state; threads may have suspended again meanwhile
		sc.releaseHolds()
		if stop() {
			sc.dead = true
			return true
		}
	}
	sc.erp.Cron.Stop()
	return false
}

// ---- abstraction of words and states into Coq terms --------------------------------------

var c16sources = map[string]int{}

// Words, break point lists and measured states repeat heavily: each distinct one is a named
// Definition in the preamble of the case files (elaborated once per file instead of per case).
const c16preamble = "From Coq Require Import List ZArith NArith.\nFrom Ecal Require Import Model.DebugCmd Run.RunC16.\nImport ListNotations.\n"

var (
	c16defNames = map[string]string{}
	c16defs     strings.Builder
)

func c16def(c *Ctx, prefix, term string) string {
	if n, ok := c16defNames[prefix+term]; ok {
		return n
	}
	n := fmt.Sprintf("%s%d", prefix, len(c16defNames))
	c16defNames[prefix+term] = n
	typ := map[string]string{"w": "token", "b": "list ((N * Z) * bool)", "s": "pre"}[prefix]
	fmt.Fprintf(&c16defs, "Definition %s : %s := %s.\n", n, typ, term)
	// the preamble only ever grows (earlier cases stay valid under it): set it without closing the
	// current case file, which BeginCases would do on a changed preamble
	c.header = c16preamble + c16defs.String()
	return n
}

func c16src(s string) int {
	if id, ok := c16sources[s]; ok {
		return id
	}
	id := len(c16sources) + 1
	c16sources[s] = id
	return id
}

func c16token(w string) string {
	cmd := "None"
	if _, ok := interpreter.DebugCommandsMap[w]; ok {
		cmd = "(Some " + c16cmdCtor[w] + ")"
	}
	num := "None"
	if n, err := strconv.ParseInt(w, 10, 0); err == nil {
		num = fmt.Sprintf("(Some %d%%N)", uint64(n))
	}
	sp := strings.Split(w, ":")
	target := "TgNoColon"
	if len(sp) > 1 {
		if line, err := strconv.Atoi(sp[1]); err == nil {
			target = "(TgLine " + CoqZ(int64(line)) + ")"
		} else {
			target = "TgBadLine"
		}
	}
	b, _ := strconv.ParseBool(w)
	cont := "None"
	switch strings.ToLower(w) {
	case "resume":
		cont = "(Some CtResume)"
	case "stepin":
		cont = "(Some CtStepIn)"
	case "stepover":
		cont = "(Some CtStepOver)"
	case "stepout":
		cont = "(Some CtStepOut)"
	}
	return fmt.Sprintf("(mkTok %s %s %d%%N %s %s %s %s)", cmd, num, c16src(sp[0]), target,
		CoqBool(b), cont, CoqBool(parser.NamePattern.MatchString(w)))
}

func c16bps(m map[string]bool) string {
	keys := make([]string, 0, len(m))
	for k := range m {
		keys = append(keys, k)
	}
	sort.Strings(keys)
	var items []string
	for _, k := range keys {
		sp := strings.SplitN(k, ":", 2)
		line := 0
		if len(sp) == 2 {
			line, _ = strconv.Atoi(sp[1])
		}
		items = append(items, fmt.Sprintf("((%d%%N, %s), %s)", c16src(sp[0]), CoqZ(int64(line)), CoqBool(m[k])))
	}
	return CoqList(items)
}

func c16threads(ts []c16tinfo) string {
	var items []string
	for _, t := range ts {
		is := "None"
		if t.HasIS {
			is = "(Some " + CoqBool(t.Running) + ")"
		}
		items = append(items, fmt.Sprintf("(mkTI %d%%N %s %s %s)", t.Tid, CoqNat(t.Depth), is, CoqBool(t.HasErr)))
	}
	return CoqList(items)
}

func c16stateClass(sc *c16scn, st *c16state) string {
	if !sc.started {
		return "nothing-executed"
	}
	if len(st.Threads) == 0 {
		return "finished"
	}
	var parts []string
	for _, t := range st.Threads {
		switch {
		case !t.HasIS:
			parts = append(parts, "running")
		case t.Running:
			parts = append(parts, "running-interrogated")
		case t.HasErr:
			parts = append(parts, "suspended-on-error")
		case t.Depth == 0:
			parts = append(parts, "suspended-top-level")
		default:
			parts = append(parts, "suspended-in-calls")
		}
	}
	sort.Strings(parts)
	return strings.Join(parts, "+")
}

// ---- running a script -----------------------------------------------------------------------

// c16run executes a script; every command line from index `from` on is a case.
func c16run(c *Ctx, cfg c16cfg, script []string, from int) {
	sc := c16newScn(cfg)
	defer func() {
		if !sc.dead && sc.teardown() {
			c.Violate("debugger-stops-answering", "StopThreads at the end of the scenario did not return within the time bound (a debugger or thread condition lock was left held by an earlier command)", c16desc{Cfg: cfg, Script: script})
		}
	}()
	pre, msg := sc.settle()
	if pre == nil {
		c.Dist["scenario_abandoned_"+msg]++
		return
	}
	for i, line := range script {
		if c.Enough() {
			return
		}
		var post *c16state
		switch line {
		case "!start":
			if len(sc.threads) < 3 {
				if err := sc.start(); err != nil {
					c.Notes = append(c.Notes, "program did not parse: "+err.Error())
					return
				}
			}
		case "!release":
			sc.releaseHolds()
		default:
			desc := c16desc{Cfg: cfg, Script: script[:i+1]}
			var ok bool
			if post, ok = c16line(c, sc, pre, line, desc, i >= from); !ok {
				return
			}
		}
		if post != nil && !strings.HasPrefix(strings.TrimSpace(line), "cont") {
			// only "cont" lets a thread move: the state measured after the line is the next one
			pre = post
			continue
		}
		pre, msg = sc.settle()
		if pre == nil {
			if msg == "unsettled" {
				// a thread neither suspended nor finished in time (C15's lost wake-up): not this property
				c.Dist["scenario_abandoned_unsettled"]++
			} else if i >= from || c16statusKey(msg) != "status-after" {
				// (a status result that cannot be encoded is reported for the set-up part of a script
				// as well: the state was reached by thread events, status is the command under test)
				c.Violate(c16statusKey(msg), "a \"status\" command after the line "+msg, c16desc{Cfg: cfg, Script: script[:i+1]})
				sc.dead = strings.HasPrefix(msg, "did not return")
			}
			return
		}
	}
}

// c16line sends one line; false = the scenario cannot continue.
func c16line(c *Ctx, sc *c16scn, pre *c16state, line string, desc c16desc, record bool) (*c16state, bool) {
	r := guarded(c16timeout, func() (interface{}, error) { return sc.dbg.HandleInput(line) })
	words := strings.Fields(line)
	key := sc.stateKey(pre) + "|" + line
	if r.TimedOut {
		if record {
			c.Violate("nontermination", "HandleInput did not return within the time bound (a lock is held or waited for)", desc)
			c.Count(key, true, desc)
		}
		sc.dead = true
		return nil, false
	}
	if r.Panicked {
		if record {
			c.Violate(c16panicKey(r.PanicMsg), "HandleInput panicked: "+r.PanicMsg, desc)
			c.Count(key, true, desc)
		}
		// the debugger may still be usable (deferred unlock): go on with the scenario
		return nil, true
	}
	obs := 0
	if r.Err != nil {
		obs = 1
	} else if _, err := json.Marshal(r.Val); err != nil {
		if record {
			c.Violate(c16encodeKey(r.Val), "the result cannot be encoded as JSON: "+c16blameText(r.Val)+err.Error(), desc)
			c.Count(key, true, desc)
		}
		return nil, true
	}
	// no lock left held: a command taking the write lock and one taking the read lock return
	p := guarded(c16timeout, func() (interface{}, error) { return sc.dbg.HandleInput("rmbreak c16-no-such-source:1") })
	if p.TimedOut || p.Panicked {
		if record {
			c.Violate("lock-left-held", "a following \"rmbreak\" (write lock) did not return normally", desc)
		}
		sc.dead = p.TimedOut
		return nil, false
	}
	post, msg := sc.status()
	if post == nil {
		if record {
			c.Violate(c16statusKey(msg), "a following \"status\" "+msg, desc)
		}
		sc.dead = strings.HasPrefix(msg, "did not return")
		return nil, false
	}
	if !record {
		return post, true
	}
	var toks []string
	for _, w := range words {
		if _, ok := interpreter.DebugCommandsMap[w]; ok && c16cmdCtor[w] == "" {
			c.Violate("model-vocabulary", "command "+w+" is not in the model", desc)
			return nil, true
		}
		toks = append(toks, c16def(c, "w", c16token(w)))
	}
	id := c.NewID()
	preTerm := c16def(c, "s", fmt.Sprintf("(mkPre %s %s %s %s %s)", CoqBool(sc.cfg.Global), CoqBool(sc.started),
		CoqBool(pre.Bos), c16def(c, "b", c16bps(pre.Bps)), c16threads(pre.Threads)))
	term := fmt.Sprintf("mkCase %d%%N %s %s %d %s", id, preTerm, CoqList(toks), obs, c16def(c, "b", c16bps(post.Bps)))
	cls := c16stateClass(sc, pre)
	c.Dist["state_"+cls]++
	if len(words) > 0 {
		if _, ok := c16cmdCtor[words[0]]; ok {
			c.Dist["cmd_"+words[0]]++
		} else {
			c.Dist["cmd_<unknown>"]++
		}
		c.Dist[fmt.Sprintf("args_%d", len(words)-1)]++
	} else {
		c.Dist["cmd_<empty>"]++
	}
	if obs == 0 {
		c.Dist["obs_result"]++
	} else {
		c.Dist["obs_error"]++
	}
	c.AddCase(id, term, desc, key, len(words) > 0)
	return post, true
}

func c16statusKey(msg string) string {
	if strings.HasPrefix(msg, c16notEncodable) {
		if strings.HasPrefix(msg, c16notEncodable+c16errDataMark) {
			return c16errDataKey
		}
		return "not-json-encodable"
	}
	return "status-after"
}

// c16panicKey names the class of a panic (one replay file is written per key).
func c16panicKey(msg string) string {
	switch {
	case strings.Contains(msg, "nil pointer"):
		return "panic-nil-dereference"
	case strings.Contains(msg, "out of range"):
		return "panic-bounds"
	}
	return "panic"
}

func (sc *c16scn) stateKey(st *c16state) string {
	k := fmt.Sprintf("%v|%v|%v|%v", sc.cfg.Global, sc.started, st.Threads, len(st.Bps))
	if sc.cfg.Val != "" {
		k += fmt.Sprintf("|val %s|%v", sc.cfg.Val, sc.cfg.ErrData)
	}
	return k
}

// ---- input universes ------------------------------------------------------------------------

type c16setup struct {
	Name   string
	Cfg    c16cfg
	Script []string
}

var c16setups = []c16setup{
	{"nothing-executed", c16cfg{Global: true}, nil},
	{"nothing-executed-no-global-scope", c16cfg{}, nil},
	{"suspended-top-level", c16cfg{Global: true}, []string{"break " + c16bpTop, "!start"}},
	{"suspended-top-level-no-global-scope", c16cfg{}, []string{"break " + c16bpTop, "!start"}},
	{"suspended-in-calls", c16cfg{Global: true}, []string{"break " + c16bpNested, "!start"}},
	{"top-level-and-in-calls", c16cfg{Global: true}, []string{"break " + c16bpTop, "break " + c16bpNested, "!start", "!start", "cont 2 resume"}},
	{"running", c16cfg{Global: true, HoldTop: true}, []string{"!start"}},
	{"running-interrogated", c16cfg{Global: true, HoldIn: true}, []string{"break " + c16bpNested, "!start", "cont 1 stepout"}},
	{"finished", c16cfg{Global: true}, []string{"!start"}},
	{"finished-marked-running", c16cfg{Global: true}, []string{"break " + c16bpLast, "!start", "cont 1 resume"}},
	{"suspended-on-error", c16cfg{Global: true, DoErr: true}, []string{"!start"}},
	{"break-on-start", c16cfg{Global: true}, []string{"breakonstart", "!start"}},
}

var (
	c16cmdWords = []string{"breakonstart", "break", "rmbreak", "disablebreak", "cont", "describe", "status",
		"extract", "inject", "lockstate", "foo", "STATUS", "Cont"}
	c16tids  = []string{"1", "2", "77", "-1", "+1", "99999999999999999999", "9223372036854775807", "abc", "1.5"}
	c16bpArg = []string{c16bpTop, c16bpNested, c16bpLast, "other:5", "src:", ":5", "src:x", "src", "a:1:2", "src:-3",
		"src:0", ":", "::", "src:13:junk"}
	c16conts = []string{"resume", "stepin", "stepover", "stepout", "StepOut", "RESUME", "bogus"}
	c16names = []string{"a", "y", "zz", "nope", "9a", "a.b", "l", "l.1", "l.7", ".", "l.-1"}
	c16exprs = []string{"1", "a", "nope", "[1,2]", "{1:2}", "f(1)", "g(2)", "\"s\"", ")", "1+", "l", "hold()"}
	c16bools = []string{"true", "false", "0", "T", "garbage"}
	c16junk  = []string{"%s%d", "'", "{{", "../..", strings.Repeat("x", 300), "ünï", "\x00"}
)

// c16safeExprs drops inject expressions on which the parser or evaluator itself panics or does
// not terminate (C06/C07's topic): inject is restricted to terminating expressions.
func c16safeExprs(c *Ctx, exprs []string) []string {
	var res []string
	for _, e := range exprs {
		vs := scope.NewScope(scope.GlobalScope)
		vs.SetValue("l", []interface{}{1., 2., 3.})
		r := guarded(c16timeout, func() (interface{}, error) { return evalProgram("c16expr", e, vs, nil) })
		if r.Panicked || r.TimedOut {
			c.Notes = append(c.Notes, fmt.Sprintf("inject expression %q left out: evaluating it on its own panics or hangs", e))
			continue
		}
		res = append(res, e)
	}
	return res
}

func c16pool(c *Ctx) []string {
	var p []string
	lists := [][]string{c16tids, c16bpArg, c16conts, c16names, c16exprs, c16bools, c16junk}
	if !c.Thorough() {
		lists = [][]string{{"1", "2", "77", "-1", "99999999999999999999", "abc"},
			{c16bpTop, "other:5", "src:", ":5", "src", "a:1:2", "src:0"}, {"stepout", "resume", "bogus"},
			{"a", "nope", "9a", "l.1"}, {"f(1)", "1+", "{1:2}"}, {"false", "garbage"}, {"%s%d", "\x00"}}
	}
	for _, l := range lists {
		p = append(p, l...)
	}
	seen := map[string]bool{}
	var res []string
	for _, w := range p {
		if !seen[w] {
			seen[w] = true
			res = append(res, w)
		}
	}
	return res
}

func c16sweepLines(c *Ctx, exprs []string) []string {
	var lines []string
	add := func(ws ...string) { lines = append(lines, strings.Join(ws, " ")) }
	pool := c16pool(c)
	add()
	add("   ")
	for _, cw := range c16cmdWords {
		add(cw)
		for _, a := range pool {
			add(cw, a)
		}
	}
	for _, t := range c16tids {
		for _, ct := range c16conts {
			add("cont", t, ct)
		}
		add("describe", t, "1")
		add("cont", t, "resume", "stepout")
	}
	for _, b := range c16bpArg[:6] {
		for _, cw := range []string{"break", "rmbreak", "disablebreak"} {
			add(cw, b, "junk")
		}
	}
	red := []string{"1", "abc", c16bpTop}
	if c.Thorough() {
		red = []string{"1", "2", "77", "abc", c16bpTop, "src", "resume", "a", "true"}
	}
	for _, cw := range c16cmdWords {
		for _, a := range red {
			for _, b := range red {
				add(cw, a, b)
			}
		}
	}
	tids := []string{"1", "77", "abc"}
	names := []string{"a", "nope", "9a"}
	names2 := []string{"zz", "a.b"}
	inames := []string{"a", "l.7", "."}
	iexprs := []string{"1", "nope", "{1:2}", "f(1)", "g(2)", ")", "hold()"}
	if c.Thorough() {
		iexprs = exprs
		tids = []string{"1", "2", "77", "-1", "abc"}
		names = c16names[:7]
		names2 = []string{"zz", "9a", "a.b", "l"}
		inames = c16names
	}
	for _, t := range tids {
		for _, n := range names {
			for _, m := range names2 {
				add("extract", t, n, m)
			}
		}
		for _, n := range inames {
			for _, e := range iexprs {
				if !c16in(exprs, e) {
					continue
				}
				add("inject", t, n, e)
			}
		}
		add("inject", t, "a", "1", "+", "2")
		add("inject", t, "a", "1", "+")
		add("extract", t, "a", "zz", "more")
		add("describe", t, "a", "b", "c")
		add("cont", t, "stepout", "a", "b")
	}
	return lines
}

func c16in(l []string, w string) bool {
	for _, x := range l {
		if x == w {
			return true
		}
	}
	return false
}

func c16randLine(c *Ctx, exprs, pool []string) string {
	pick := func(l []string) string { return l[c.Rng.Intn(len(l))] }
	cw := pick(c16cmdWords)
	n := c.Rng.Intn(5)
	ws := []string{cw}
	shaped := c.Rng.Intn(100) < 60
	for k := 0; k < n; k++ {
		if !shaped {
			ws = append(ws, pick(pool))
			continue
		}
		switch {
		case cw == "break" || cw == "rmbreak" || cw == "disablebreak":
			ws = append(ws, pick(c16bpArg))
		case cw == "breakonstart":
			ws = append(ws, pick(c16bools))
		case k == 0:
			ws = append(ws, pick(c16tids[:4]))
		case cw == "cont":
			ws = append(ws, pick(c16conts))
		case cw == "inject" && k >= 2:
			ws = append(ws, pick(exprs))
		default:
			ws = append(ws, pick(c16names))
		}
	}
	return strings.Join(ws, " ")
}

func runC16(c *Ctx) error {
	c.Rule = "a real debugger (NewECALDebugger on a runtime provider; fixed program run in goroutines) is driven into 12 set-up states {nothing executed, suspended at top level, suspended inside nested calls, one of each, running, running with interrogation state, finished, finished while marked running, suspended on an error, break on start; with/without global scope}; in each, every command word (10 commands + 3 unknown) x 0..1 arguments over the whole argument pool (thread ids valid/unknown/negative/huge/non-numeric, source:line well-/malformed, continue types, names, expressions, booleans, garbage), targeted 2..4 argument lines; the set-up states in which code ran once more with a program that holds a value hostile to JSON encoding (non-finite numbers, nested lists/maps with keys of every kind holding them, function values, strings with control characters / invalid UTF-8; fixed pool + seeded generator) in the global scope, in the arguments and locals of the call-stack frames and in the environment / data of the raised error, under status / lockstate / describe / extract / inject of further such values / stepping with describe after every step; then seeded random scenarios (random configuration, interleaved thread starts / releases / command lines with 0..4 arguments); every line is compared with the model on result-vs-error and the break points afterwards; non-trivial = non-empty line; distinct by (measured state, line)"
	c.BeginCases(c16preamble, "case", 1000)

	if c.Replay != "" {
		var d c16desc
		if err := c.LoadReplay(&d); err != nil {
			return err
		}
		if d.Stream != nil {
			c16streamRun(c, *d.Stream, 0)
			return nil
		}
		c16run(c, d.Cfg, d.Script, len(d.Script)-1)
		return nil
	}

	for w := range interpreter.DebugCommandsMap {
		if c16cmdCtor[w] == "" {
			c.Violate("model-vocabulary", "command "+w+" of DebugCommandsMap is not in the model", c16desc{Cfg: c16cfg{Global: true}, Script: []string{w}})
		}
	}
	for w := range c16cmdCtor {
		if _, ok := interpreter.DebugCommandsMap[w]; !ok {
			c.Violate("model-vocabulary", "command "+w+" of the model is not in DebugCommandsMap", c16desc{Cfg: c16cfg{Global: true}, Script: []string{w}})
		}
	}

	exprs := c16safeExprs(c, c16exprs)
	pool := c16pool(c)

	// corpus: witnesses of the repaired defects first
	corpus := []c16desc{
		{Cfg: c16cfg{Global: true}, Script: []string{"lockstate"}},
		{Cfg: c16cfg{Global: true}, Script: []string{"break " + c16bpTop, "!start", "cont 1 stepout"}},
		{Cfg: c16cfg{Global: true}, Script: []string{"break " + c16bpNested, "!start", "cont 1 stepout", "cont 1 stepout"}},
		{Cfg: c16cfg{Global: true}, Script: []string{"break " + c16bpTop, "!start", "inject 1 a f(1)"}},
		{Cfg: c16cfg{Global: true}, Script: []string{"break " + c16bpNested, "!start", "inject 1 x g(2)"}},
		{Cfg: c16cfg{Global: true, DoErr: true}, Script: []string{"!start", "describe 1"}},
		{Cfg: c16cfg{Global: true, DoErr: true}, Script: []string{"!start", "status"}},
		{Cfg: c16cfg{Global: true}, Script: []string{"breakonstart", "!start", "lockstate"}},
		{Cfg: c16cfg{}, Script: []string{"lockstate", "extract 1 a b", "inject 1 a 1"}},
		// continue a thread that is not suspended but still has its interrogation state, repeatedly
		{Cfg: c16cfg{Global: true}, Script: []string{"break " + c16bpLast, "!start", "cont 1 resume", "cont 1 resume", "cont 1 stepover", "break " + c16bpTop}},
		{Cfg: c16cfg{Global: true, HoldIn: true}, Script: []string{"break " + c16bpNested, "!start", "cont 1 stepout", "cont 1 stepout", "cont 1 resume", "rmbreak src"}},
		// a failing inject expression, then further commands
		{Cfg: c16cfg{Global: true}, Script: []string{"break " + c16bpTop, "!start", "inject 1 a 1+", "inject 1 a )", "inject 1 a 1", "status"}},
	}
	for _, d := range corpus {
		c16run(c, d.Cfg, d.Script, 0)
	}
	c.Extra["corpus_scripts"] = len(corpus)

	// values hostile to JSON encoding in the scopes, call-stack frames and errors of the threads
	c16hostile(c)

	// sweep: every set-up state x lines
	lines := c16sweepLines(c, exprs)
	c.Extra["sweep_lines_per_state"] = len(lines)
	c.Extra["setup_states"] = len(c16setups)
	chunk := 25
	for _, su := range c16setups {
		var cur []string
		flush := func() {
			if len(cur) == 0 || c.Enough() {
				cur = nil
				return
			}
			script := append(append([]string{}, su.Script...), cur...)
			c16run(c, su.Cfg, script, len(su.Script))
			cur = nil
		}
		for _, l := range lines {
			cur = append(cur, l)
			// a line that lets a thread go on ends the chunk: the next lines see the set-up state again
			if len(cur) >= chunk || strings.HasPrefix(l, "cont ") {
				flush()
			}
		}
		flush()
	}

	// repeated continue commands to one thread id: 2..4 in a row over all continue types, in every
	// set-up state (the interesting ones: thread running with interrogation state, thread finished
	// while still marked running - the id stays valid and every further cont must be a no-op that
	// leaves no lock behind); every line is followed by the write-lock probe and "status", the
	// scenario end by StopThreads within the bound
	types := []string{"resume", "stepin", "stepover", "stepout"}
	nrep := 0
	for _, su := range c16setups {
		for _, tid := range []string{"1", "2"} {
			if tid == "2" && su.Name != "top-level-and-in-calls" {
				continue
			}
			for i, t1 := range types {
				for j, t2 := range types {
					if c.Enough() {
						break
					}
					script := append([]string{}, su.Script...)
					script = append(script, "cont "+tid+" "+t1, "cont "+tid+" "+t2, "cont "+tid+" "+types[(i+j)%4])
					if (i+j)%2 == 0 {
						script = append(script, "cont "+tid+" "+types[(i+2*j+1)%4], "break "+c16bpTop, "extract "+tid+" a zz")
					}
					c16run(c, su.Cfg, script, len(su.Script))
					nrep++
				}
			}
		}
	}
	c.Extra["repeated_cont_scripts"] = nrep

	// random scenarios
	nscn := c.Pick(150, 1500)
	for i := 0; i < nscn && !c.Enough(); i++ {
		cfg := c16cfg{Global: c.Rng.Intn(100) < 85, DoErr: c.Rng.Intn(100) < 25,
			HoldTop: c.Rng.Intn(100) < 30, HoldIn: c.Rng.Intn(100) < 30}
		var script []string
		if c.Rng.Intn(100) < 70 {
			for _, b := range []string{c16bpTop, c16bpNested, c16bpLast} {
				if c.Rng.Intn(100) < 50 {
					script = append(script, "break "+b)
				}
			}
		}
		n := 6 + c.Rng.Intn(12)
		for k := 0; k < n; k++ {
			switch r := c.Rng.Intn(100); {
			case r < 12:
				script = append(script, "!start")
			case r < 17:
				script = append(script, "!release")
			case r < 30:
				tid := c16tids[c.Rng.Intn(2)]
				for rep := 1 + c.Rng.Intn(4); rep > 0; rep-- {
					script = append(script, "cont "+tid+" "+c16conts[c.Rng.Intn(4)])
				}
			default:
				script = append(script, c16randLine(c, exprs, pool))
			}
		}
		c16run(c, cfg, script, 0)
	}
	c.Extra["random_scenarios"] = nscn

	// commands while other threads run and make function calls (child processes)
	c16streams(c)
	c.Exhaustive = false
	return nil
}
