//go:build c16

package main

// C16, values that are hostile to JSON encoding.  The property demands of EVERY command in EVERY
// debugger state "a JSON-encodable result or an error".  What describe / status return is made
// of the values the debugged threads hold: the local scope and the global scope of a suspended
// thread, the scope snapshots taken for every frame of the call stack, the environment and the
// data of the error a thread is suspended on.  encoding/json rejects non-finite numbers (ECAL:
// 1/0, -1/0, 0/0, math.sqrt(-1), overflowing products), maps with keys that are not strings
// (every ECAL map), channels / functions inside Go objects; the debugger has to sanitise them.
//
// This file runs the set-up states of c16.go with a program (c16hostProg, same line layout and
// break points as c16prog) that carries one such value - from a fixed pool and from a seeded
// generator (scalars, lists and maps nested up to three levels, keys of every hashable kind,
// ECAL and Go function values, strings with control characters and invalid UTF-8) - in all of
// these places, and sends the commands that show or move values (status, lockstate, describe,
// extract, inject of further hostile expressions, then stepping with describe after every
// step).  Every line goes through c16line: panic, time bound, json.Marshal of the result, lock
// probes, following status, and the comparison with the Coq model.  The oracle is the property
// text only (json.Marshal(result) succeeds); which value sits where is never compared.

import (
	"encoding/json"
	"fmt"
	"math"
	"math/rand"
	"reflect"
	"sort"
	"strings"
	"time"

	"github.com/krotik/ecal/scope"
)

const c16hostProg = `func g(x) {
  y := x
  if holdin { hold() }
  return y
}
func f(x) {
  return g(x)
}
func h(x) {
  raise("MyErr", "detail", %s)
}
hv := %s
a := 1
b := f(hv)
if holdtop { hold() }
if doerr {
  h(hv)
}
c := 3
`

// c16program is the program the threads of a scenario run.
func c16program(cfg c16cfg) string {
	if cfg.Val == "" {
		return c16prog
	}
	data := `{1:2, "k":[1,{2:3}]}`
	if cfg.ErrData {
		data = "x"
	}
	return fmt.Sprintf(c16hostProg, data, cfg.Val)
}

// ---- where in a result does the encoder fail? ----------------------------------------------------

const (
	c16notEncodable = "result is not JSON-encodable: "
	// the one listed finding of this family: a non-finite NUMBER inside the data of a raised error
	// (nothing else below error/Data, and nothing anywhere else, is reported under this key)
	c16errDataKey  = "error-data-nonfinite-number"
	c16errDataMark = "[non-finite number in the data of a raised error] "
)

// c16blame follows a result down to a smallest component json.Marshal rejects: the path to it
// and a description of it.  Objects with a ToJSONObject method (runtime errors) are entered
// through it, as their MarshalJSON does.
func c16blame(v interface{}) (path []string, leaf string) {
	for depth := 0; depth < 64; depth++ {
		if j, ok := v.(interface{ ToJSONObject() map[string]interface{} }); ok {
			if r := guarded(c16timeout, func() (interface{}, error) { return j.ToJSONObject(), nil }); !r.Panicked && !r.TimedOut {
				v = r.Val
			}
		}
		rv := reflect.ValueOf(v)
		for rv.IsValid() && (rv.Kind() == reflect.Interface || rv.Kind() == reflect.Ptr) && !rv.IsNil() {
			rv = rv.Elem()
		}
		if !rv.IsValid() {
			return path, "null"
		}
		var next interface{}
		found := false
		switch rv.Kind() {
		case reflect.Map:
			if rv.Type().Key().Kind() != reflect.String {
				return path, "map with keys of type " + rv.Type().Key().String()
			}
			keys := rv.MapKeys()
			sort.Slice(keys, func(i, j int) bool { return keys[i].String() < keys[j].String() })
			for _, k := range keys {
				e := rv.MapIndex(k)
				if !e.CanInterface() {
					continue
				}
				if _, err := json.Marshal(e.Interface()); err != nil {
					path, next, found = append(path, k.String()), e.Interface(), true
					break
				}
			}
		case reflect.Slice, reflect.Array:
			for i := 0; i < rv.Len(); i++ {
				e := rv.Index(i)
				if !e.CanInterface() {
					continue
				}
				if _, err := json.Marshal(e.Interface()); err != nil {
					path, next, found = append(path, fmt.Sprint(i)), e.Interface(), true
					break
				}
			}
		case reflect.Float64, reflect.Float32:
			if f := rv.Float(); math.IsInf(f, 0) || math.IsNaN(f) {
				return path, "non-finite number"
			}
		}
		if !found {
			return path, "value of type " + rv.Type().String()
		}
		v = next
	}
	return path, "?"
}

func c16isErrDataNonFinite(path []string, leaf string) bool {
	if leaf != "non-finite number" {
		return false
	}
	for i := 0; i+1 < len(path); i++ {
		if path[i] == "error" && path[i+1] == "Data" {
			return true
		}
	}
	return false
}

// c16blameText: "at <path> (<what>): ", preceded by the mark of the listed finding when it is that.
func c16blameText(v interface{}) string {
	path, leaf := c16blame(v)
	t := fmt.Sprintf("at %s (%s): ", strings.Join(path, "/"), leaf)
	if c16isErrDataNonFinite(path, leaf) {
		return c16errDataMark + t
	}
	return t
}

func c16encodeKey(v interface{}) string {
	if c16isErrDataNonFinite(c16blame(v)) {
		return c16errDataKey
	}
	return "not-json-encodable"
}

// ---- the values ------------------------------------------------------------------------------------

var c16big = "1" + strings.Repeat("0", 200) // 1e200: finite, its square is not

var (
	// scalars json.Marshal rejects
	c16nonFinite = []string{"1/0", "-1/0", "0/0", "(1/0)-(1/0)", "1 // 0", "math.sqrt(-1)", "math.log(0)",
		"math.inf(1)", "math.inf(-1)", c16big + " * " + c16big, "-" + c16big + " * " + c16big, "1/0*0"}
	// scalars it accepts (extremes of the accepted range, strings it has to escape or repair)
	c16finite = []string{"0", "-1", "1.5", "0.0000000001", c16big, "-1/(1/0)", "9007199254740993",
		"null", "true", `""`, `"s"`, `"\x00\x01\x1f"`, `"\xff\xfe"`, `"a b"`, `"<&>\"\\"`, `"{{1/0}}"`}
	// function values (ECAL function; the Go object behind hold())
	c16funcs = []string{"f", "hold"}
	// containers: every ECAL map has interface{} keys
	c16hostPool = []string{
		"[1/0]", "[1,[2,-1/0]]", "[0/0, 1]", `{"a":0/0}`, `{"a":{"b":[1/0]}}`, "{1:2}", "{1/0:1}", "{0/0:1, -1/0:2}",
		"{true:1}", "{null:1}", "{f:1}", "{hold:[hold]}", "{1:{2:{3:1/0}}}", "[f]", `{"k":f}`, "[hold, f, 1/0]",
		`{"x":[{"y":math.sqrt(-1)}, "\xff"]}`, "[]", "{}", "[[[[1/0]]]]",
	}
	// expressions injected into a suspended thread
	c16hostInject = []string{"hv", "1/0", "[0/0]", "{1:-1/0}", "f", "math.sqrt(-1)", "hold"}
)

// c16genVal: a random value expression; depth bounds the nesting.
func c16genVal(rng *rand.Rand, depth int) string {
	pick := func(l []string) string { return l[rng.Intn(len(l))] }
	r := rng.Intn(100)
	if depth <= 0 && r >= 55 {
		r = rng.Intn(55)
	}
	switch {
	case r < 30:
		return pick(c16nonFinite)
	case r < 47:
		return pick(c16finite)
	case r < 55:
		return pick(c16funcs)
	case r < 78:
		n := rng.Intn(4)
		items := make([]string, n)
		for i := range items {
			items[i] = c16genVal(rng, depth-1)
		}
		return "[" + strings.Join(items, ", ") + "]"
	default:
		n := 1 + rng.Intn(3)
		var items []string
		for i := 0; i < n; i++ {
			var k string
			switch kr := rng.Intn(10); {
			case kr < 4:
				k = fmt.Sprintf(`"k%d"`, i)
			case kr < 6:
				k = fmt.Sprint(i + 1)
			case kr < 8:
				k = pick(c16nonFinite[:4])
			case kr < 9:
				k = pick([]string{"true", "null", `"\xff"`})
			default:
				k = pick(c16funcs)
			}
			items = append(items, k+":"+c16genVal(rng, depth-1))
		}
		return "{" + strings.Join(items, ", ") + "}"
	}
}

// c16valClass describes the Go value an expression produced (for the coverage figures).
func c16valClass(v interface{}) string {
	switch x := v.(type) {
	case nil:
		return "null"
	case bool:
		return "bool"
	case string:
		return "string"
	case float64:
		if math.IsInf(x, 0) || math.IsNaN(x) {
			return "non-finite-number"
		}
		return "finite-number"
	case []interface{}:
		return "list"
	case map[interface{}]interface{}:
		return "map"
	}
	return "function-or-object"
}

func c16holdsNonFinite(v interface{}) bool {
	switch x := v.(type) {
	case float64:
		return math.IsInf(x, 0) || math.IsNaN(x)
	case []interface{}:
		for _, e := range x {
			if c16holdsNonFinite(e) {
				return true
			}
		}
	case map[interface{}]interface{}:
		for k, e := range x {
			if c16holdsNonFinite(k) || c16holdsNonFinite(e) {
				return true
			}
		}
	}
	return false
}

// c16usableVal evaluates the hostile program on its own (no debugger): a value expression with which
// it does not run to its end is left out with a note (the evaluator itself is C06's topic).
func c16usableVal(c *Ctx, val string) (class string, nonFinite, ok bool) {
	vs := scope.NewScope(scope.GlobalScope)
	for _, n := range []string{"doerr", "holdtop", "holdin"} {
		vs.SetValue(n, false)
	}
	vs.SetValue("hold", &c16hold{&c16scn{}})
	r := guarded(c16timeout, func() (interface{}, error) {
		return evalProgram("c16host", c16program(c16cfg{Val: val}), vs, nil)
	})
	if r.Panicked || r.TimedOut || r.Err != nil {
		c.Notes = append(c.Notes, fmt.Sprintf("hostile value %q left out: the program holding it does not run to its end on its own (%v %v)", val, r.PanicMsg, r.Err))
		return "", false, false
	}
	hv, _, _ := vs.GetValue("hv")
	return c16valClass(hv), c16holdsNonFinite(hv), true
}

// c16hostScript: the lines sent after the set-up part.  Thread 1 (and 2 where a second one exists)
// is shown, its values are copied to the global scope, overwritten with further hostile values,
// and it is stepped through the calls with a describe after every step.
func c16hostScript(su c16setup, inj []string) []string {
	lines := []string{"status", "lockstate", "describe 1", "extract 1 hv e1", "extract 1 x e2", "extract 1 y e3",
		"extract 1 b e4", "describe 1", "status"}
	two := su.Name == "top-level-and-in-calls"
	if two {
		lines = append(lines, "describe 2", "extract 2 x e5", "describe 2")
	}
	lines = append(lines, "inject 1 x hv", "inject 1 q "+inj[0], "describe 1", "inject 1 hv "+inj[1], "inject 1 y "+inj[2],
		"inject 1 zz f", "describe 1", "status", "lockstate")
	steps := []string{"stepover", "stepin", "stepout", "stepin", "resume"}
	for _, s := range steps {
		lines = append(lines, "cont 1 "+s, "describe 1", "status")
		if two {
			lines = append(lines, "cont 2 "+s, "describe 2")
		}
	}
	return append(lines, "describe 1", "lockstate", "status")
}

// c16rawErrData: the state "suspended on an error whose data is the hostile value" without the
// measurement through status (c16run gives a scenario up when status itself cannot be encoded):
// the thread is awaited through describe, then every line is judged on panic, time bound and
// json.Marshal of its result only (no model comparison).
func c16rawErrData(c *Ctx, cfg c16cfg) {
	sc := c16newScn(cfg)
	script := []string{"!start"}
	defer func() {
		if !sc.dead && sc.teardown() {
			c.Violate("debugger-stops-answering", "StopThreads at the end of the scenario did not return within the time bound", c16desc{Cfg: cfg, Script: script})
		}
	}()
	if err := sc.start(); err != nil {
		c.Notes = append(c.Notes, "program did not parse: "+err.Error())
		return
	}
	deadline := time.Now().Add(3 * time.Second)
	for suspended := false; !suspended; {
		r := guarded(c16timeout, func() (interface{}, error) { return sc.dbg.HandleInput("describe 1") })
		if m, ok := r.Val.(map[string]interface{}); ok && m != nil {
			running, has := m["threadRunning"].(bool)
			suspended = has && !running
		}
		if r.TimedOut || r.Panicked || time.Now().After(deadline) {
			c.Dist["scenario_abandoned_unsettled"]++
			sc.dead = r.TimedOut
			return
		}
		time.Sleep(200 * time.Microsecond)
	}
	for _, line := range []string{"describe 1", "status", "lockstate", "extract 1 x e1", "inject 1 q x", "describe 1", "status"} {
		script = append(script, line)
		desc := c16desc{Cfg: cfg, Script: append([]string{}, script...)}
		key := "raw-suspended-on-error|" + cfg.Val + "|" + line
		r := guarded(c16timeout, func() (interface{}, error) { return sc.dbg.HandleInput(line) })
		switch {
		case r.TimedOut:
			c.Violate("nontermination", "HandleInput did not return within the time bound (a lock is held or waited for)", desc)
			sc.dead = true
			return
		case r.Panicked:
			c.Violate(c16panicKey(r.PanicMsg), "HandleInput panicked: "+r.PanicMsg, desc)
		case r.Err == nil:
			if _, err := json.Marshal(r.Val); err != nil {
				c.Violate(c16encodeKey(r.Val), "the result cannot be encoded as JSON: "+c16blameText(r.Val)+err.Error(), desc)
			}
		}
		c.Count(key, true, desc)
		c.Dist["raw_lines_suspended_on_error_with_hostile_data"]++
	}
}

// c16hostSetups: the set-up states of c16.go in which code has run.
func c16hostSetups() []c16setup {
	var res []c16setup
	for _, su := range c16setups {
		if len(su.Script) > 0 {
			res = append(res, su)
		}
	}
	return res
}

func c16hostile(c *Ctx) {
	t0 := time.Now()
	setups := c16hostSetups()
	var always, rotating []c16setup
	for _, su := range setups {
		switch su.Name {
		case "suspended-in-calls", "suspended-on-error":
			always = append(always, su)
		default:
			rotating = append(rotating, su)
		}
	}
	// a generator of its own: the random scenarios and streams of c16.go keep their sequence
	rng := rand.New(rand.NewSource(c.Seed*7919 + 16))

	// the values: the fixed pool (quick tier: a selection), then generated ones
	var vals []string
	if c.Thorough() {
		vals = append(vals, c16nonFinite...)
		vals = append(vals, c16hostPool...)
		vals = append(vals, c16funcs...)
		vals = append(vals, c16finite...)
	} else {
		for _, i := range []int{0, 1, 2, 5, 7, 9} {
			vals = append(vals, c16nonFinite[i])
		}
		for i, v := range c16hostPool {
			if i%3 != 2 || i >= 16 {
				vals = append(vals, v)
			}
		}
		vals = append(vals, c16funcs...)
		vals = append(vals, c16finite[5], c16finite[11], c16finite[12])
	}
	ngen := c.Pick(6, 120)
	for i := 0; i < ngen; i++ {
		vals = append(vals, c16genVal(rng, 1+rng.Intn(3)))
	}
	seen := map[string]bool{}
	nscn, nvals, nListed := 0, 0, 0
	for vi, val := range vals {
		if c.Enough() {
			break
		}
		if seen[val] {
			continue
		}
		seen[val] = true
		class, nonFinite, ok := c16usableVal(c, val)
		if !ok {
			continue
		}
		nvals++
		c.Dist["hostile_value_"+class]++
		if nonFinite {
			c.Dist["hostile_value_holding_a_non_finite_number"]++
		}
		use := append([]c16setup{}, always...)
		use = append(use, rotating[vi%len(rotating)])
		if c.Thorough() {
			use = append(use, rotating[(vi+3)%len(rotating)], rotating[(vi+5)%len(rotating)])
		}
		for si, su := range use {
			if c.Enough() {
				break
			}
			cfg := su.Cfg
			cfg.Val = val
			inj := []string{c16hostInject[(vi+si)%len(c16hostInject)], c16hostInject[(vi+si+1)%len(c16hostInject)],
				c16hostInject[(vi+si+3)%len(c16hostInject)]}
			script := append(append([]string{}, su.Script...), c16hostScript(su, inj)...)
			c16run(c, cfg, script, len(su.Script))
			nscn++
		}
		// the value as the data of the raised error: the states "suspended on an error" and - the
		// error ends the thread when it is continued - "finished"
		// (the listed finding error-data-nonfinite-number is reproduced by the first values that hold a
		// non-finite number and not again after that: every hit is a violation entry)
		if vi%c.Pick(3, 1) == 0 && nonFinite && nListed >= 6 {
			c.Dist["errdata_scenarios_left_out_listed_finding_reproduced_already"]++
		} else if vi%c.Pick(3, 1) == 0 {
			hits := c.vcount[c16errDataKey]
			cfg := c16cfg{Global: true, DoErr: true, Val: val, ErrData: true}
			c16run(c, cfg, []string{"!start", "status", "describe 1", "extract 1 x e1", "describe 1", "cont 1 resume", "status", "describe 1"}, 0)
			c16rawErrData(c, cfg)
			nscn += 2
			if c.vcount[c16errDataKey] > hits {
				nListed++
			}
		}
	}

	// hostile values that only arrive through inject, in the unchanged program of c16.go
	for i, su := range setups {
		if c.Enough() {
			break
		}
		if !c.Thorough() && i%2 == 1 {
			continue
		}
		script := append([]string{}, su.Script...)
		for _, e := range c16hostInject[1:] {
			script = append(script, "inject 1 a "+e, "describe 1", "inject 1 x "+e, "describe 1", "status")
		}
		script = append(script, "extract 1 a e1", "cont 1 stepover", "describe 1", "status")
		c16run(c, su.Cfg, script, len(su.Script))
		nscn++
	}
	c.Extra["hostile_values"] = nvals
	c.Extra["hostile_value_scenarios"] = nscn
	c.Extra["hostile_value_seconds"] = int(time.Since(t0).Seconds())
}
