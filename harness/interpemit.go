//go:build c06 || c04 || c05 || c03

package main

// Shared by the checks that evaluate whole programs on the interpreter model (Model/Interp.v):
// serialisation of the REAL parser's tree, canonical values / error types of the REAL runtime,
// the ParseFloat tables, and one guarded evaluation (moved verbatim out of c06_interp.go).

import (
	"fmt"
	"math"
	"reflect"
	"runtime/debug"
	"sort"
	"strconv"
	"strings"
	"time"

	"github.com/krotik/ecal/interpreter"
	"github.com/krotik/ecal/parser"
	"github.com/krotik/ecal/scope"
	"github.com/krotik/ecal/util"
)

// interpPanicKey names a panic for the known-findings table (C06 replaces it by its own keys).
var interpPanicKey = func(msg, stack string) string { return "panic" }

// ------------------------------------------------------------------------------- tree emission

// c06iNodeConst maps a node name to the constant of gen/Tokens.v (regenerated from /repo) that
// holds it: elaborating a constant is far cheaper for coqc than a string literal.  The term is
// the same [node] CoqNode writes.
var c06iNodeConst = map[string]string{
	parser.NodeAND: "NodeAND", parser.NodeAS: "NodeAS", parser.NodeASSIGN: "NodeASSIGN", parser.NodeBREAK: "NodeBREAK",
	parser.NodeCOMPACCESS: "NodeCOMPACCESS", parser.NodeCONTINUE: "NodeCONTINUE", parser.NodeDIV: "NodeDIV",
	parser.NodeDIVINT: "NodeDIVINT", parser.NodeEQ: "NodeEQ", parser.NodeEXCEPT: "NodeEXCEPT", parser.NodeFALSE: "NodeFALSE",
	parser.NodeFINALLY: "NodeFINALLY", parser.NodeFUNC: "NodeFUNC", parser.NodeFUNCCALL: "NodeFUNCCALL", parser.NodeGEQ: "NodeGEQ",
	parser.NodeGT: "NodeGT", parser.NodeGUARD: "NodeGUARD", parser.NodeHASPREFIX: "NodeHASPREFIX", parser.NodeHASSUFFIX: "NodeHASSUFFIX",
	parser.NodeIDENTIFIER: "NodeIDENTIFIER", parser.NodeIF: "NodeIF", parser.NodeIN: "NodeIN", parser.NodeKVP: "NodeKVP",
	parser.NodeLEQ: "NodeLEQ", parser.NodeLET: "NodeLET", parser.NodeLIKE: "NodeLIKE", parser.NodeLIST: "NodeLIST",
	parser.NodeLOOP: "NodeLOOP", parser.NodeLT: "NodeLT", parser.NodeMAP: "NodeMAP", parser.NodeMINUS: "NodeMINUS",
	parser.NodeMODINT: "NodeMODINT", parser.NodeMUTEX: "NodeMUTEX", parser.NodeNEQ: "NodeNEQ", parser.NodeNOT: "NodeNOT",
	parser.NodeNOTIN: "NodeNOTIN", parser.NodeNULL: "NodeNULL", parser.NodeNUMBER: "NodeNUMBER", parser.NodeOR: "NodeOR",
	parser.NodeOTHERWISE: "NodeOTHERWISE", parser.NodePARAMS: "NodePARAMS", parser.NodePLUS: "NodePLUS", parser.NodePRESET: "NodePRESET",
	parser.NodeRETURN: "NodeRETURN", parser.NodeSTATEMENTS: "NodeSTATEMENTS", parser.NodeSTRING: "NodeSTRING", parser.NodeTIMES: "NodeTIMES",
	parser.NodeTRUE: "NodeTRUE", parser.NodeTRY: "NodeTRY",
}

func c06iNode(sb *strings.Builder, n *parser.ASTNode) {
	if n == nil {
		sb.WriteString("(Nd \"<nil>\" [] 0 0 [])")
		return
	}
	flags, val, line := 0, "", 0
	if n.Token != nil {
		val, line = n.Token.Val, n.Token.Lline
		if n.Token.Identifier {
			flags |= 1
		}
		if n.Token.AllowEscapes {
			flags |= 2
		}
	}
	name, ok := c06iNodeConst[n.Name]
	if !ok {
		name = coqStr(n.Name)
	}
	fmt.Fprintf(sb, "(Nd %s %s %d %d ", name, CoqBytes(val), flags, line)
	if len(n.Children) == 0 {
		sb.WriteString("[])")
		return
	}
	sb.WriteString("[")
	for i, c := range n.Children {
		if i > 0 {
			sb.WriteString("; ")
		}
		c06iNode(sb, c)
	}
	sb.WriteString("])")
}

// c06iTree is CoqNode with the node names written as constants of gen/Tokens.v.
func c06iTree(n *parser.ASTNode) string {
	var sb strings.Builder
	c06iNode(&sb, n)
	return sb.String()
}

// ------------------------------------------------------------------------------- canonical values

const c06iNaN = uint64(0x7FF8000000000001) // Expr.float_bits maps every NaN to this pattern

func c06iBits(f float64) string {
	b := math.Float64bits(f)
	if math.IsNaN(f) {
		b = c06iNaN
	}
	return fmt.Sprintf("%d%%Z", b)
}

// c06iCanon renders a value of the real interpreter as a term of RunC06Interp.oval; containers
// nested deeper than d end in OOther (the model's reify does the same).
func c06iCanon(v interface{}, d int) string {
	switch x := v.(type) {
	case nil:
		return "ONull"
	case bool:
		return "(OBool " + CoqBool(x) + ")"
	case float64:
		return "(ONum " + c06iBits(x) + ")"
	case string:
		return "(OStr " + CoqBytes(x) + ")"
	case []interface{}:
		if d == 0 {
			return "OOther"
		}
		items := make([]string, len(x))
		for i, e := range x {
			items[i] = c06iCanon(e, d-1)
		}
		return "(OList " + CoqList(items) + ")"
	case map[interface{}]interface{}:
		if d == 0 {
			return "OOther"
		}
		items := make([]string, 0, len(x))
		for k, e := range x {
			items = append(items, "("+c06iCanon(k, d-1)+", "+c06iCanon(e, d-1)+")")
		}
		sort.Strings(items)
		return "(OMap " + CoqList(items) + ")"
	case util.ECALFunction:
		return "OFun"
	}
	return "OOther"
}

// c06iErrType is Type.Error() of a runtime error (what an except clause compares with),
// "UnexpectedError" for a plain Go error.
func c06iErrType(err error) string {
	switch e := err.(type) {
	case *util.RuntimeError:
		if e.Type != nil {
			return e.Type.Error()
		}
		return "<nil type>"
	case *util.RuntimeErrorWithDetail:
		if e.RuntimeError != nil && e.Type != nil {
			return e.Type.Error()
		}
		return "<nil type>"
	}
	// *interpreter.returnValue (unexported) embeds *util.RuntimeError
	rv := reflect.ValueOf(err)
	if rv.Kind() == reflect.Ptr && !rv.IsNil() && rv.Elem().Kind() == reflect.Struct {
		if f := rv.Elem().FieldByName("RuntimeError"); f.IsValid() && f.CanInterface() {
			if re, ok := f.Interface().(*util.RuntimeError); ok && re != nil && re.Type != nil {
				return re.Type.Error()
			}
		}
	}
	return "UnexpectedError"
}

type c06iOutcome struct {
	Class    string // value, error, panic, timeout, parse-error
	Obs      string // Coq term of type obs
	Tree     string // Coq term of type node
	Nums     string
	Strs     string
	PanicKey string
	PanicMsg string
	Detail   string
}

// c06iTables collects the number tokens and string literals of the tree with their
// strconv.ParseFloat results.
func c06iTables(n *parser.ASTNode, nums map[string]string, strs map[string]string) {
	if n == nil {
		return
	}
	if n.Token != nil {
		switch n.Name {
		case parser.NodeNUMBER:
			if f, err := strconv.ParseFloat(n.Token.Val, 64); err == nil {
				nums[n.Token.Val] = c06iBits(f)
			}
		case parser.NodeSTRING:
			if f, err := strconv.ParseFloat(n.Token.Val, 64); err == nil {
				strs[n.Token.Val] = "(Some " + c06iBits(f) + ")"
			} else {
				strs[n.Token.Val] = "None"
			}
		}
	}
	for _, c := range n.Children {
		c06iTables(c, nums, strs)
	}
}

func c06iTable(m map[string]string) string {
	keys := make([]string, 0, len(m))
	for k := range m {
		keys = append(keys, k)
	}
	sort.Strings(keys)
	items := make([]string, len(keys))
	for i, k := range keys {
		items[i] = "(" + CoqBytes(k) + ", " + m[k] + ")"
	}
	return CoqList(items)
}

func c06iEval(src string, timeout time.Duration) c06iOutcome {
	type result struct {
		val        interface{}
		err        error
		parseErr   error
		tree       string
		nums, strs string
		pmsg       string
		stack      string
	}
	ch := make(chan result, 1)
	var erp *interpreter.ECALRuntimeProvider
	go func() {
		var r result
		defer func() {
			if p := recover(); p != nil {
				r.pmsg = fmt.Sprint(p)
				if r.pmsg == "" {
					r.pmsg = "panic"
				}
				r.stack = string(debug.Stack())
			}
			ch <- r
		}()
		erp = interpreter.NewECALRuntimeProvider("c06i", nil, nil)
		erp.Cron.Stop()
		ast, err := parser.ParseWithRuntime("c06i", src, erp)
		if err != nil {
			r.parseErr = err
			return
		}
		r.tree = c06iTree(ast)
		nums, strs := map[string]string{}, map[string]string{}
		c06iTables(ast, nums, strs)
		r.nums, r.strs = c06iTable(nums), c06iTable(strs)
		if err = ast.Runtime.Validate(); err != nil {
			r.err = err
			return
		}
		vs := scope.NewScope(scope.GlobalScope)
		r.val, r.err = ast.Runtime.Eval(vs, make(map[string]interface{}), erp.NewThreadID())
	}()
	var r result
	select {
	case r = <-ch:
	case <-time.After(timeout):
		return c06iOutcome{Class: "timeout"}
	}
	if erp != nil && erp.Processor != nil && !erp.Processor.Stopped() {
		done := make(chan struct{})
		go func() { defer func() { recover(); close(done) }(); erp.Processor.Finish() }()
		select {
		case <-done:
		case <-time.After(2 * time.Second):
		}
	}
	o := c06iOutcome{Tree: r.tree, Nums: r.nums, Strs: r.strs}
	switch {
	case r.parseErr != nil:
		o.Class, o.Detail = "parse-error", r.parseErr.Error()
	case r.pmsg != "":
		st := r.stack
		if i := strings.Index(st, "panic("); i >= 0 {
			st = st[i:]
		}
		o.Class, o.Obs, o.PanicKey, o.PanicMsg = "panic", "ObsPanic", interpPanicKey(r.pmsg, st), r.pmsg
	case r.err != nil:
		o.Class, o.Obs, o.Detail = "error", "(ObsError "+CoqBytes(c06iErrType(r.err))+")", r.err.Error()
	default:
		o.Class, o.Obs = "value", "(ObsValue "+c06iCanon(r.val, 12)+")"
	}
	return o
}
