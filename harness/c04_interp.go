//go:build c04

package main

// C04, second stream — THREE-WAY tie: Spec (coq/Spec/ControlSpec.v) = real interpreter =
// interpreter model (coq/Model/Interp.v) on the same skeleton program.
//
// The skeleton is rendered a second time in PURE ECAL: mark / iter / kv / caught / retv are
// ECAL functions appending to a global list L, the program is the body of `func main()`, and
// the text ends in `R := null; try { R := [0, main()] } except e { R := [1, e.type] }; [L, R]`,
// so the whole observation is ONE value of the language.  The real parser's tree of that text
// is serialised and evaluated by the real runtime here and by Model/Interp.v in
// Run/RunC04Interp.v, where the Spec's (trace, completion) is translated to the value the text
// must produce.

import (
	"fmt"
	"strings"
	"time"

	"github.com/krotik/ecal/parser"
)

const c04interpHeader = "From Coq Require Import ZArith NArith String List.\nFrom Ecal Require Import Common.Ast gen.Tokens Model.ControlSyntax Run.RunC06Interp Run.RunC04Interp.\nImport ListNotations.\nOpen Scope string_scope."

const c04purePrelude = `L := []
func mark(n) {
L := add(L, [1, n])
}
func iter(x) {
L := add(L, [2, x])
}
func kv(k, v) {
L := add(L, [3, k, v])
}
func caught(e) {
if e == null {
L := add(L, [4, null])
} else {
L := add(L, [4, e.type])
}
}
func retv(v) {
L := add(L, [5, v])
}
`

const c04pureEpilogue = `R := null
try {
R := [0, main()]
} except e {
R := [1, e.type]
}
[L, R]
`

// c04pureSource is the pure-ECAL rendering of a skeleton program.
func c04pureSource(p []c04Stmt) string {
	r := &c04render{}
	r.block(p)
	var sb strings.Builder
	sb.WriteString(c04purePrelude)
	if r.prelude {
		sb.WriteString(c04prelude())
	}
	sb.WriteString("func main() {\n")
	sb.WriteString(r.sb.String())
	sb.WriteString("}\n")
	sb.WriteString(c04pureEpilogue)
	return sb.String()
}

type c04icase struct {
	Stream string    `json:"stream"` // "interp"
	Prog   []c04Stmt `json:"prog"`
	Source string    `json:"source,omitempty"`
	Origin string    `json:"origin,omitempty"`
}

// The statements of the prelude are the first children of every tree (same text, same lines):
// they are written once per cases file (PRE0 / PRE1 in the preamble) instead of once per case,
// which is what makes the shards small enough for coqc.
var c04prePlain, c04preGuards string

func c04preChildren(src string) string {
	ast, err := parser.Parse("c04i", src)
	if err != nil || ast == nil {
		panic("c04: the prelude does not parse: " + fmt.Sprint(err))
	}
	var parts []string
	for _, ch := range ast.Children {
		parts = append(parts, c06iTree(ch))
	}
	return strings.Join(parts, "; ")
}

func c04interpPreamble() string {
	c04prePlain = c04preChildren(c04purePrelude)
	c04preGuards = c04preChildren(c04purePrelude + c04prelude())
	return c04interpHeader + "\nDefinition PRE0 : list node := [" + c04prePlain + "].\nDefinition PRE1 : list node := [" + c04preGuards + "]."
}

// c04factorTree replaces the prelude children of the root by PRE0 / PRE1.
func c04factorTree(tree string) string {
	for _, p := range []struct{ name, pre string }{{"PRE1", c04preGuards}, {"PRE0", c04prePlain}} {
		if i := strings.Index(tree, "["+p.pre+"; "); i >= 0 && strings.HasSuffix(tree, "])") {
			return tree[:i] + "(" + p.name + " ++ [" + tree[i+len(p.pre)+3:len(tree)-2] + "]))"
		}
	}
	return tree
}

func c04interpOne(c *Ctx, d c04case) {
	src := c04pureSource(d.Prog)
	ic := c04icase{Stream: "interp", Prog: d.Prog, Source: src, Origin: d.Origin}
	term := c04coqBlock(d.Prog)
	o := c06iEval(src, 5*time.Second)
	c.Dist["interp_"+o.Class]++
	switch o.Class {
	case "timeout":
		c.Violate("nontermination", "the pure rendering of a terminating skeleton program did not finish within 5s", ic)
		c.Count("i:"+term, true, ic)
		return
	case "parse-error":
		c.Violate("parse-error", "the pure rendering of a skeleton program does not parse: "+o.Detail, ic)
		c.Count("i:"+term, true, ic)
		return
	case "panic":
		c.Violate("panic", "evaluating the pure rendering of a skeleton program panicked: "+o.PanicMsg, ic)
		c.Count("i:"+term, true, ic)
		return
	}
	tree := c04factorTree(o.Tree)
	if len(tree) > c.Pick(22000, 40000) {
		// coqc needs ~14 ms per 100 bytes of tree term: very large programs are left to the
		// thorough tier (counted)
		c.Dist["interp_skipped_large_tree"]++
		return
	}
	id := c.NewID()
	c.AddCase(id, fmt.Sprintf("mkC4I %d%%N (%s)%%nat %s %s %s %s", id, term, tree, o.Nums, o.Strs, o.Obs), ic, "i:"+term, true)
}

// c04interpStream runs the three-way comparison on the programs collected by the first stream.
func c04interpStream(c *Ctx, progs []c04case) {
	c.flushShard()
	c.BeginCases(c04interpPreamble(), "case4", 10)
	defer c.flushShard()
	for _, d := range progs {
		if c.Enough() {
			return
		}
		c04interpOne(c, d)
	}
	c.Extra["interp_three_way_programs"] = len(progs)
	c.Rule += "  |  second stream (three-way tie with the interpreter model): corpus, a rotating sample of the guard / exhaustive families and random programs rendered in PURE ECAL (logging functions written in ECAL, program inside func main(), observation = the value [L, R]) -> real parse -> the real tree evaluated by the real runtime AND by Model/Interp.v, both compared with the value the Spec's (trace, completion) prescribes"
}
