//go:build c04

package main

// C04, second stream — THREE-WAY tie: Spec (coq/Spec/ControlSpec.v) = real interpreter =
// interpreter model (coq/Model/Interp.v) on the same skeleton program.
//
// The skeleton is rendered a second time in PURE ECAL: mark / iter / kv / caught / retv are
// ECAL functions appending to a global list L, the program is the body of `func main()`, and
// the text ends in `R := null; try { R := [0, main()] } except e { R := [1, e.type] }; [L, R]`,
// so the whole observation is ONE value of the language.  The real parser's tree of that text
// is serialised and evaluated by the real runtime here and by Model/Interp.v in
// Run/RunC04Interp.v, where the Spec's (trace, completion) is translated to the value the text
// must produce.

import (
	"fmt"
	"strings"
	"time"
)

const c04interpHeader = "From Coq Require Import ZArith NArith String List.\nFrom Ecal Require Import Common.Ast gen.Tokens Model.ControlSyntax Run.RunC06Interp Run.RunC04Interp.\nImport ListNotations.\nOpen Scope string_scope."

const c04purePrelude = `L := []
func mark(n) {
L := add(L, [1, n])
}
func iter(x) {
L := add(L, [2, x])
}
func kv(k, v) {
L := add(L, [3, k, v])
}
func caught(e) {
if e == null {
L := add(L, [4, null])
} else {
L := add(L, [4, e.type])
}
}
func retv(v) {
L := add(L, [5, v])
}
`

const c04pureEpilogue = `R := null
try {
R := [0, main()]
} except e {
R := [1, e.type]
}
[L, R]
`

// c04pureSource is the pure-ECAL rendering of a skeleton program.
func c04pureSource(p []c04Stmt) string {
	r := &c04render{}
	r.block(p)
	var sb strings.Builder
	sb.WriteString(c04purePrelude)
	if r.prelude {
		sb.WriteString(c04prelude())
	}
	sb.WriteString("func main() {\n")
	sb.WriteString(r.sb.String())
	sb.WriteString("}\n")
	sb.WriteString(c04pureEpilogue)
	return sb.String()
}

type c04icase struct {
	Stream string    `json:"stream"` // "interp"
	Prog   []c04Stmt `json:"prog"`
	Source string    `json:"source,omitempty"`
	Origin string    `json:"origin,omitempty"`
}

func c04interpOne(c *Ctx, d c04case) {
	src := c04pureSource(d.Prog)
	ic := c04icase{Stream: "interp", Prog: d.Prog, Source: src, Origin: d.Origin}
	term := c04coqBlock(d.Prog)
	o := c06iEval(src, 5*time.Second)
	c.Dist["interp_"+o.Class]++
	switch o.Class {
	case "timeout":
		c.Violate("nontermination", "the pure rendering of a terminating skeleton program did not finish within 5s", ic)
		c.Count("i:"+term, true, ic)
		return
	case "parse-error":
		c.Violate("parse-error", "the pure rendering of a skeleton program does not parse: "+o.Detail, ic)
		c.Count("i:"+term, true, ic)
		return
	case "panic":
		c.Violate("panic", "evaluating the pure rendering of a skeleton program panicked: "+o.PanicMsg, ic)
		c.Count("i:"+term, true, ic)
		return
	}
	id := c.NewID()
	c.AddCase(id, fmt.Sprintf("mkC4I %d%%N (%s)%%nat %s %s %s %s", id, term, o.Tree, o.Nums, o.Strs, o.Obs), ic, "i:"+term, true)
}

// c04interpStream runs the three-way comparison on the programs collected by the first stream.
func c04interpStream(c *Ctx, progs []c04case) {
	c.flushShard()
	c.BeginCases(c04interpHeader, "case4", 40)
	defer c.flushShard()
	for _, d := range progs {
		if c.Enough() {
			return
		}
		c04interpOne(c, d)
	}
	c.Extra["interp_three_way_programs"] = len(progs)
	c.Rule += "  |  second stream (three-way tie with the interpreter model): corpus, a rotating sample of the guard / exhaustive families and random programs rendered in PURE ECAL (logging functions written in ECAL, program inside func main(), observation = the value [L, R]) -> real parse -> the real tree evaluated by the real runtime AND by Model/Interp.v, both compared with the value the Spec's (trace, completion) prescribes"
}
