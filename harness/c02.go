//go:build c02

package main

// C02 — waiting on an event returns after its whole cascade, with exactly its errors.
//
// Implementation side: generated cascade shapes (fan-out <= 4, depth <= 4, skipped children,
// failing rules at any position) are run on the real engine with 1..16 workers and 1..3
// cascades in flight, through Processor.AddEventAndWait / AddEvent (Go API) and through ECAL
// sinks (addEvent / addEventAndWait).  The verifhook observation points of
// fixes/hooks-C02.patch give a global trace of the lock regions of monitor.go, taskqueue.go,
// eventpump.go and processor.go; the rule actions (harness code) add their start/end
// stamps to the same trace.  Coq (Run/RunC02.v) checks that the trace is a run of
// Model/Cascade.v and that the observables obtained through the API are the ones the Spec
// fixes.  "Controlled" runs delay goroutines at hook points chosen from the seed (in
// particular the poster between the zero crossing and the post); "free" runs do not.
// The sweep runs in a child process so that an assertion panic on a worker goroutine is
// reported as a violation instead of killing the check.

import (
	"bytes"
	"encoding/json"
	"fmt"
	"math/rand"
	"os"
	"os/exec"
	"path/filepath"
	"runtime"
	"sort"
	"strconv"
	"strings"
	"sync"
	"sync/atomic"
	"time"

	"github.com/krotik/ecal/engine"
	"github.com/krotik/ecal/interpreter"
	"github.com/krotik/ecal/scope"
	"github.com/krotik/ecal/util"
	"github.com/krotik/ecal/verifhook"
)

func init() { register("C02", runC02) }

// ---- shapes -------------------------------------------------------------------------

type c02child struct {
	Skip bool     `json:"skip,omitempty"`
	Node *c02node `json:"node,omitempty"`
}
type c02rule struct {
	Fail     bool       `json:"fail,omitempty"`
	Children []c02child `json:"children,omitempty"`
}
type c02node struct {
	ID    int       `json:"id"`
	Rules []c02rule `json:"rules"`
}

type c02desc struct {
	Seed     int64      `json:"seed"`
	Mode     string     `json:"mode"` // "controlled", "free", "ecal"
	Workers  int        `json:"workers"`
	Wait     []bool     `json:"wait"`     // per cascade: AddEventAndWait (true) or AddEvent + finish handler
	RootSkip []bool     `json:"rootskip"` // per cascade: the root event triggers no rule
	Shapes   []*c02node `json:"shapes"`
	Corpus   string     `json:"corpus,omitempty"`
	// wide family (mode "wide"): RootRules rules on the root event, each adding MidsPerRule events whose
	// (overlapping) rule actions add LeavesPerMid events each; every leaf action fails
	RootRules    int `json:"rootrules,omitempty"`
	MidsPerRule  int `json:"midsperrule,omitempty"`
	LeavesPerMid int `json:"leavespermid,omitempty"`
	Cascades     int `json:"cascades,omitempty"`
	InFlight     int `json:"inflight,omitempty"`
}

func c02dupID(ids []uint64) (uint64, bool) {
	s := append([]uint64{}, ids...)
	sort.Slice(s, func(i, j int) bool { return s[i] < s[j] })
	for i := 1; i < len(s); i++ {
		if s[i] == s[i-1] {
			return s[i], true
		}
	}
	return 0, false
}

// ---- wide family: many overlapping rule actions creating child monitors at the same time ----
// Free running, Go-side oracles only (no trace: the hook handler only notes created ids, without
// a lock, so that it does not serialise the workers): AllErrors() must be exactly the set of
// failing actions, ids pairwise distinct, handler once, every monitor finished, return after
// the last action.

type c02wideSlot struct {
	arrived int64
	ended   int64
	mons    []engine.Monitor
	mu      sync.Mutex
}

func c02wide(c *Ctx, d *c02desc) {
	const capIDs = 1 << 20
	ids := make([]uint64, capIDs)
	var nids int64
	var hooked int32
	verifhook.SetHandler(func(point string, args ...interface{}) {
		switch point {
		case "c02.mon.created":
			atomic.StoreInt32(&hooked, 1)
			if i := atomic.AddInt64(&nids, 1); i <= capIDs {
				ids[i-1] = c02id(args[1])
			}
		case "c02.root.new":
			if i := atomic.AddInt64(&nids, 1); i <= capIDs {
				ids[i-1] = c02id(args[0])
			}
		}
	})
	defer verifhook.SetHandler(nil)

	proc := engine.NewProcessor(d.Workers)
	slots := make([]atomic.Value, d.InFlight)
	mids := d.RootRules * d.MidsPerRule
	barrier := int64(mids)
	if int64(d.Workers) < barrier {
		barrier = int64(d.Workers)
	}
	for k := 0; k < d.InFlight; k++ {
		k := k
		pre := fmt.Sprintf("w%d", k)
		for ri := 0; ri < d.RootRules; ri++ {
			ri := ri
			proc.AddRule(&engine.Rule{Name: fmt.Sprintf("%s.root.r%d", pre, ri), KindMatch: []string{pre + ".root"}, ScopeMatch: []string{"c02"}, Priority: ri,
				Action: func(p engine.Processor, m engine.Monitor, e *engine.Event, tid uint64) error {
					st := slots[k].Load().(*c02wideSlot)
					for mi := 0; mi < d.MidsPerRule; mi++ {
						cm := m.NewChildMonitor(0)
						st.mu.Lock()
						st.mons = append(st.mons, cm)
						st.mu.Unlock()
						p.AddEvent(engine.NewEvent(fmt.Sprintf("%s.mid.%d.%d", pre, ri, mi), []string{pre, "mid"}, nil), cm)
					}
					atomic.AddInt64(&st.ended, 1)
					if ri == 0 {
						return fmt.Errorf("root rule 0 fails")
					}
					return nil
				}})
		}
		proc.AddRule(&engine.Rule{Name: pre + ".midrule", KindMatch: []string{pre + ".mid"}, ScopeMatch: []string{"c02"},
			Action: func(p engine.Processor, m engine.Monitor, e *engine.Event, tid uint64) error {
				st := slots[k].Load().(*c02wideSlot)
				// line the overlapping actions up (bounded): they create their child monitors at the same time
				atomic.AddInt64(&st.arrived, 1)
				for dl := time.Now().Add(300 * time.Microsecond); atomic.LoadInt64(&st.arrived) < barrier && time.Now().Before(dl); {
					runtime.Gosched()
				}
				local := make([]engine.Monitor, 0, d.LeavesPerMid)
				for j := 0; j < d.LeavesPerMid; j++ {
					cm := m.NewChildMonitor(0)
					local = append(local, cm)
					p.AddEvent(engine.NewEvent(fmt.Sprintf("%s.leaf.%s.%d", pre, strings.TrimPrefix(e.Name(), pre+".mid."), j), []string{pre, "leaf"}, nil), cm)
				}
				st.mu.Lock()
				st.mons = append(st.mons, local...)
				st.mu.Unlock()
				atomic.AddInt64(&st.ended, 1)
				return nil
			}})
		proc.AddRule(&engine.Rule{Name: pre + ".leafrule", KindMatch: []string{pre + ".leaf"}, ScopeMatch: []string{"c02"},
			Action: func(p engine.Processor, m engine.Monitor, e *engine.Event, tid uint64) error {
				st := slots[k].Load().(*c02wideSlot)
				atomic.AddInt64(&st.ended, 1)
				return fmt.Errorf("leaf %s fails", e.Name())
			}})
	}
	proc.Start()
	expectedActions := int64(d.RootRules + mids + mids*d.LeavesPerMid)
	type outcome struct{ key, desc string }
	var omu sync.Mutex
	var outs []outcome
	report := func(key, desc string) {
		omu.Lock()
		outs = append(outs, outcome{key, desc})
		omu.Unlock()
	}
	runOne := func(k int, seq int) {
		pre := fmt.Sprintf("w%d", k)
		st := &c02wideSlot{}
		slots[k].Store(st)
		rm := proc.NewRootMonitor(nil, nil)
		var handler int32
		rm.SetFinishHandler(func(engine.Processor) { atomic.AddInt32(&handler, 1) })
		done := make(chan struct{})
		go func() {
			proc.AddEventAndWait(engine.NewEvent(pre+".root", []string{pre, "root"}, nil), rm)
			close(done)
		}()
		select {
		case <-done:
		case <-time.After(30 * time.Second):
			report("nontermination", fmt.Sprintf("cascade %d: AddEventAndWait did not return within 30s", seq))
			return
		}
		if got := atomic.LoadInt64(&st.ended); got < expectedActions {
			report("return-before-last-action", fmt.Sprintf("cascade %d: AddEventAndWait returned after %d of %d rule actions", seq, got, expectedActions))
		}
		expected := map[string]bool{pre + ".root/" + pre + ".root.r0": true}
		for ri := 0; ri < d.RootRules; ri++ {
			for mi := 0; mi < d.MidsPerRule; mi++ {
				for j := 0; j < d.LeavesPerMid; j++ {
					expected[fmt.Sprintf("%s.leaf.%d.%d.%d/%s.leafrule", pre, ri, mi, j, pre)] = true
				}
			}
		}
		got := map[string]int{}
		n := 0
		for _, te := range rm.AllErrors() {
			for rule := range te.ErrorMap {
				got[te.Event.Name()+"/"+rule]++
				n++
			}
			if te.Monitor.RootMonitor() != rm {
				report("error-attribution", fmt.Sprintf("cascade %d: AllErrors() holds an entry of another root monitor", seq))
			}
		}
		var missing, extra []string
		for kx := range expected {
			if got[kx] != 1 {
				missing = append(missing, fmt.Sprintf("%s x%d", kx, got[kx]))
			}
		}
		for kx := range got {
			if !expected[kx] {
				extra = append(extra, kx)
			}
		}
		if len(missing) > 0 || len(extra) > 0 {
			sort.Strings(missing)
			sort.Strings(extra)
			if len(missing) > 4 {
				missing = missing[:4]
			}
			report("error-report", fmt.Sprintf("cascade %d: AllErrors() has %d entries, %d actions failed; not reported exactly once: %v; unexpected: %v", seq, n, len(expected), missing, extra))
		}
		// the handler and the last callbacks run on the poster's goroutine after the waiter was released
		for i := 0; i < 2000 && atomic.LoadInt32(&handler) == 0; i++ {
			time.Sleep(50 * time.Microsecond)
		}
		if h := atomic.LoadInt32(&handler); h != 1 {
			report("finish-count", fmt.Sprintf("cascade %d: finish handler called %d times", seq, h))
		}
		st.mu.Lock()
		for _, m := range st.mons {
			if cm, ok := m.(*engine.ChildMonitor); ok && !cm.IsFinished() {
				report("unfinished-monitor", fmt.Sprintf("cascade %d: monitor %d is not finished", seq, cm.ID()))
				break
			}
		}
		st.mu.Unlock()
	}
	seq := 0
	for seq < d.Cascades {
		var wg sync.WaitGroup
		for k := 0; k < d.InFlight && seq < d.Cascades; k++ {
			wg.Add(1)
			go func(k, s int) { defer wg.Done(); runOne(k, s) }(k, seq)
			seq++
		}
		wg.Wait()
		omu.Lock()
		stop := len(outs) > 0
		omu.Unlock()
		if stop {
			break
		}
	}
	time.Sleep(2 * time.Millisecond)
	proc.Finish()
	c.Dist["runs_wide"]++
	c.Dist["wide_cascades"] += seq
	c.Dist["wide_leaf_failures"] += seq * mids * d.LeavesPerMid
	if atomic.LoadInt32(&hooked) == 0 {
		c.Extra["fatal"] = "no c02.* observation point fired: fixes/hooks-C02.patch is not applied to the repository under test"
		return
	}
	n := atomic.LoadInt64(&nids)
	if n > capIDs {
		n = capIDs
	}
	if dup, ok := c02dupID(ids[:n]); ok {
		c.Violate("duplicate-monitor-id", fmt.Sprintf("two of the %d monitors created in this run carry the same id %d (RootMonitor.errors and TaskQueue.queues are keyed by monitor id)", n, dup), d)
	}
	for _, o := range outs {
		c.Violate(o.key, o.desc, d)
	}
	c.Count(fmt.Sprintf("wide-%d", d.Seed), true, d)
}

func c02wideDesc(seed int64, cascades int) *c02desc {
	rng := rand.New(rand.NewSource(seed))
	d := &c02desc{Seed: seed, Mode: "wide", Workers: 8 + rng.Intn(9), Cascades: cascades, InFlight: 1 + rng.Intn(3), LeavesPerMid: 2 + rng.Intn(3)}
	if rng.Intn(2) == 0 {
		d.RootRules, d.MidsPerRule = 8+rng.Intn(9), 1 // 8-16 rules on the root event, one overlapping mid-level action each
	} else {
		d.RootRules, d.MidsPerRule = 1, 8+rng.Intn(9) // one root rule, 8-16 overlapping mid-level actions
	}
	if rng.Intn(3) == 0 {
		d.RootRules, d.MidsPerRule = 8, 2
	}
	return d
}

func c02gen(rng *rand.Rand, depth, maxFan int, next *int) *c02node {
	n := &c02node{ID: *next}
	*next++
	nr := 1 + rng.Intn(2)
	budget := maxFan
	for i := 0; i < nr; i++ {
		r := c02rule{Fail: rng.Intn(4) == 0}
		if depth > 0 {
			k := rng.Intn(budget + 1)
			if nr == 1 && rng.Intn(2) == 0 && budget > 0 {
				k = 1 + rng.Intn(budget)
			}
			budget -= k
			for j := 0; j < k; j++ {
				if rng.Intn(5) == 0 {
					r.Children = append(r.Children, c02child{Skip: true})
				} else {
					r.Children = append(r.Children, c02child{Node: c02gen(rng, depth-1, maxFan, next)})
				}
			}
		}
		n.Rules = append(n.Rules, r)
	}
	return n
}

func c02count(n *c02node) (rules int) {
	for _, r := range n.Rules {
		rules++
		for _, ch := range r.Children {
			if ch.Node != nil {
				rules += c02count(ch.Node)
			}
		}
	}
	return
}

// ---- trace --------------------------------------------------------------------------

type c02ev struct {
	point string
	gid   uint64
	a     []uint64
	b     bool
}

type c02rec struct {
	mu     sync.Mutex
	evs    []c02ev
	delays map[string]int // point -> every n-th occurrence is delayed
	hold   time.Duration
	count  map[string]int
	hooked int32
}

func c02gid() uint64 {
	var buf [64]byte
	n := runtime.Stack(buf[:], false)
	f := strings.Fields(string(buf[:n]))
	if len(f) < 2 {
		return 0
	}
	id, _ := strconv.ParseUint(f[1], 10, 64)
	return id
}

func (r *c02rec) add(point string, b bool, a ...uint64) {
	g := c02gid()
	r.mu.Lock()
	r.evs = append(r.evs, c02ev{point, g, a, b})
	r.count[point]++
	k := r.count[point]
	every := r.delays[point]
	r.mu.Unlock()
	if every > 0 && k%every == 0 {
		time.Sleep(r.hold)
	}
}

func c02id(x interface{}) uint64 {
	switch v := x.(type) {
	case uint64:
		return v
	case int:
		return uint64(v)
	case engine.Monitor:
		return v.ID()
	}
	return 0
}

func (r *c02rec) handler(point string, args ...interface{}) {
	if !strings.HasPrefix(point, "c02.") {
		return
	}
	atomic.StoreInt32(&r.hooked, 1)
	switch point {
	case "c02.mon.created":
		// args: root id, monitor, unfinished
		var parent uint64
		if cm, ok := args[1].(*engine.ChildMonitor); ok && cm.Parent != nil {
			parent = cm.Parent.ID()
		}
		r.add(point, false, c02id(args[0]), c02id(args[1]), parent, uint64(args[2].(int)))
	case "c02.mon.finished":
		u := args[2].(int)
		r.add(point, args[3].(bool), c02id(args[0]), c02id(args[1]), uint64(int64(u)))
	case "c02.pump.copied":
		if ev, _ := args[0].(string); ev != engine.MessageRootMonitorFinished {
			return
		}
		r.add(point, false, c02id(args[1]))
	case "c02.tq.check":
		r.add(point, false, c02id(args[0]))
	case "c02.task.procend":
		r.add(point, false, c02id(args[0]), c02id(args[1]), uint64(args[2].(int)))
	default:
		ids := make([]uint64, 0, len(args))
		for _, a := range args {
			ids = append(ids, c02id(a))
		}
		r.add(point, false, ids...)
	}
}

// ---- one run ------------------------------------------------------------------------

type c02cascade struct {
	root     *engine.RootMonitor
	rootID   uint64
	wait     bool
	trig     bool
	expected int64 // rule actions that must have returned
	ended    int64
	handler  int32
	early    bool
	monitors []engine.Monitor
	monEvent map[uint64]string
	mu       sync.Mutex
	errs     [][2]uint64 // (monitor id, rule number)
	attrOK   bool
	returned bool
}

type c02result struct {
	trace    []string
	obs      []string
	complete bool
	labels   int
	problem  string // Go-side failure description ("" = none)
	probKey  string
}

func c02run(d *c02desc) c02result {
	rec := &c02rec{delays: map[string]int{}, count: map[string]int{}, hold: 300 * time.Microsecond}
	rng := rand.New(rand.NewSource(d.Seed*7919 + 13))
	if d.Mode == "controlled" {
		points := []string{"c02.finished.beforePost", "c02.task.procend", "c02.mon.created", "c02.tq.pop",
			"c02.mon.finished", "c02.waiter.done", "c02.tq.push", "c02.mon.failed", "c02.pump.copied", "c02.wait.begin"}
		rec.delays["c02.finished.beforePost"] = 1
		for i := 0; i < 3; i++ {
			rec.delays[points[rng.Intn(len(points))]] = 1 + rng.Intn(3)
		}
		rec.hold = time.Duration(100+rng.Intn(900)) * time.Microsecond
	}
	verifhook.SetHandler(rec.handler)
	defer verifhook.SetHandler(nil)

	proc := engine.NewProcessor(d.Workers)
	ruleNo := map[string]uint64{}
	cas := make([]*c02cascade, len(d.Shapes))
	var reg func(ci int, n *c02node) error
	reg = func(ci int, n *c02node) error {
		kind := fmt.Sprintf("c%d.n%d", ci, n.ID)
		for ri := range n.Rules {
			r := n.Rules[ri]
			name := fmt.Sprintf("%s.r%d", kind, ri)
			num := uint64(len(ruleNo) + 1)
			ruleNo[name] = num
			c := ci
			rule := &engine.Rule{Name: name, KindMatch: []string{kind}, ScopeMatch: []string{"c02"}, Priority: ri,
				Action: func(p engine.Processor, m engine.Monitor, e *engine.Event, tid uint64) error {
					cc := cas[c]
					cc.mu.Lock()
					cc.monEvent[m.ID()] = e.Name()
					cc.mu.Unlock()
					rec.add("act.start", false, m.ID(), num)
					for _, ch := range r.Children {
						cm := m.NewChildMonitor(0)
						cc.mu.Lock()
						cc.monitors = append(cc.monitors, cm)
						cc.mu.Unlock()
						ck := fmt.Sprintf("c%d.skip", c)
						if ch.Node != nil {
							ck = fmt.Sprintf("c%d.n%d", c, ch.Node.ID)
						}
						if _, err := p.AddEvent(engine.NewEvent(ck, strings.Split(ck, "."), nil), cm); err != nil {
							return fmt.Errorf("harness: AddEvent failed: %v", err)
						}
					}
					atomic.AddInt64(&cc.ended, 1)
					rec.add("act.end", r.Fail, m.ID(), num)
					if r.Fail {
						return fmt.Errorf("rule %s fails", name)
					}
					return nil
				}}
			if err := proc.AddRule(rule); err != nil {
				return err
			}
			for _, ch := range r.Children {
				if ch.Node != nil {
					if err := reg(ci, ch.Node); err != nil {
						return err
					}
				}
			}
		}
		return nil
	}
	var res c02result
	for ci, sh := range d.Shapes {
		cas[ci] = &c02cascade{wait: d.Wait[ci], trig: !d.RootSkip[ci], monEvent: map[uint64]string{}, attrOK: true}
		if err := reg(ci, sh); err != nil {
			res.problem, res.probKey = "harness: "+err.Error(), "harness"
			return res
		}
		if !d.RootSkip[ci] {
			cas[ci].expected = int64(c02count(sh))
		}
	}
	proc.Start()
	var wg sync.WaitGroup
	doneCh := make(chan struct{})
	for ci := range d.Shapes {
		cc := cas[ci]
		cc.root = proc.NewRootMonitor(nil, nil)
		cc.rootID = cc.root.ID()
		cc.monitors = append(cc.monitors, cc.root)
		cc.root.SetFinishHandler(func(p engine.Processor) { atomic.AddInt32(&cc.handler, 1) })
	}
	finished := make([]chan struct{}, len(cas))
	for ci := range d.Shapes {
		cc := cas[ci]
		kind := fmt.Sprintf("c%d.n%d", ci, d.Shapes[ci].ID)
		if d.RootSkip[ci] {
			kind = fmt.Sprintf("c%d.skip", ci)
		}
		ev := engine.NewEvent(kind, strings.Split(kind, "."), nil)
		finished[ci] = make(chan struct{})
		wg.Add(1)
		fin := finished[ci]
		go func() {
			defer wg.Done()
			defer close(fin)
			if cc.wait {
				proc.AddEventAndWait(ev, cc.root)
				if atomic.LoadInt64(&cc.ended) < cc.expected {
					cc.early = true
				}
			} else {
				proc.AddEvent(ev, cc.root)
				rec.add("adder.next", false, cc.rootID)
			}
			cc.returned = true
		}()
	}
	go func() { wg.Wait(); close(doneCh) }()
	select {
	case <-doneCh:
	case <-time.After(30 * time.Second):
		res.problem = "AddEventAndWait / AddEvent did not return within 30s"
		res.probKey = "nontermination"
	}
	if res.problem == "" {
		// cascades added without waiting: wait until handler fired and the trace is quiet
		deadline := time.Now().Add(30 * time.Second)
		for {
			ok := true
			for _, cc := range cas {
				if !cc.wait && cc.trig && (atomic.LoadInt32(&cc.handler) == 0 || atomic.LoadInt64(&cc.ended) < cc.expected) {
					ok = false
				}
			}
			if ok {
				break
			}
			if time.Now().After(deadline) {
				res.problem = "cascade added with AddEvent did not finish within 30s"
				res.probKey = "nontermination"
				break
			}
			time.Sleep(200 * time.Microsecond)
		}
	}
	// let the poster goroutines finish their callbacks (RemoveObservers after wg.Done, queue check)
	c02settle(rec)
	if res.problem == "" {
		res.complete = true
	}
	for _, cc := range cas {
		if !cc.returned && res.problem == "" {
			continue
		}
	}
	// observables through the API
	for _, cc := range cas {
		if res.problem != "" {
			break
		}
		for _, te := range cc.root.AllErrors() {
			mid := te.Monitor.ID()
			cc.mu.Lock()
			evn := cc.monEvent[mid]
			cc.mu.Unlock()
			if te.Event == nil || te.Event.Name() != evn || te.Monitor.RootMonitor() != cc.root {
				cc.attrOK = false
			}
			for name := range te.ErrorMap {
				cc.errs = append(cc.errs, [2]uint64{mid, ruleNo[name]})
			}
		}
	}
	proc.Finish()
	if atomic.LoadInt32(&rec.hooked) == 0 {
		res.problem = "no c02.* observation point fired: fixes/hooks-C02.patch is not applied to the repository under test"
		res.probKey = "hooks-missing"
		return res
	}
	// ---- build labels
	rec.mu.Lock()
	evs := rec.evs
	rec.mu.Unlock()
	// oracle: every monitor created during the run has its own id
	{
		var created []uint64
		for _, e := range evs {
			switch e.point {
			case "c02.root.new":
				created = append(created, e.a[0])
			case "c02.mon.created":
				created = append(created, e.a[1])
			}
		}
		if dup, ok := c02dupID(created); ok {
			res.problem = fmt.Sprintf("two monitors created in one run carry the same id %d (RootMonitor.errors and TaskQueue.queues are keyed by monitor id)", dup)
			res.probKey = "duplicate-monitor-id"
			return res
		}
	}
	idmap := map[uint64]int{}
	mid := func(x uint64) int {
		if v, ok := idmap[x]; ok {
			return v
		}
		idmap[x] = len(idmap) + 1
		return idmap[x]
	}
	waitOf := map[uint64]bool{}
	for _, cc := range cas {
		waitOf[cc.rootID] = cc.wait
	}
	activated := map[uint64]bool{}
	poster := map[uint64]uint64{}
	var labels []string
	for _, e := range evs {
		switch e.point {
		case "c02.root.new":
			if _, mine := waitOf[e.a[0]]; !mine {
				continue
			}
			labels = append(labels, fmt.Sprintf("LNewRoot %d %s", mid(e.a[0]), CoqBool(waitOf[e.a[0]])))
		case "c02.obs.waiter":
			labels = append(labels, fmt.Sprintf("LObsWaiter %d", mid(e.a[0])))
		case "c02.obs.handler":
			labels = append(labels, fmt.Sprintf("LObsHandler %d", mid(e.a[0])))
		case "c02.mon.activated":
			activated[e.a[1]] = true
			labels = append(labels, fmt.Sprintf("LActivate %d", mid(e.a[1])))
		case "c02.tq.push":
			labels = append(labels, fmt.Sprintf("LPush %d", mid(e.a[1])))
		case "c02.tq.cleanup":
			labels = append(labels, fmt.Sprintf("LCleanup %d", mid(e.a[0])))
		case "c02.tq.pop":
			labels = append(labels, fmt.Sprintf("LPop %d", mid(e.a[1])))
		case "act.start":
			labels = append(labels, fmt.Sprintf("LActStart %d %d", mid(e.a[0]), e.a[1]))
		case "act.end":
			labels = append(labels, fmt.Sprintf("LActEnd %d %d %s", mid(e.a[0]), e.a[1], CoqBool(e.b)))
		case "c02.mon.created":
			labels = append(labels, fmt.Sprintf("LChild %d %d", mid(e.a[2]), mid(e.a[1])))
		case "c02.mon.finished":
			if e.b {
				poster[e.gid] = e.a[1]
			}
			if activated[e.a[1]] {
				labels = append(labels, fmt.Sprintf("LFinish %d", mid(e.a[1])))
			} else {
				labels = append(labels, fmt.Sprintf("LSkip %d", mid(e.a[1])))
			}
		case "c02.mon.failed":
			labels = append(labels, fmt.Sprintf("LErrAttach %d", mid(e.a[1])))
		case "c02.task.procend":
			labels = append(labels, fmt.Sprintf("LProcEnd %d", mid(e.a[1])))
		case "c02.pump.copied":
			labels = append(labels, fmt.Sprintf("LPost %d", mid(poster[e.gid])))
		case "c02.waiter.done":
			labels = append(labels, fmt.Sprintf("LWaiterDone %d", mid(poster[e.gid])))
		case "c02.handler":
			labels = append(labels, fmt.Sprintf("LHandler %d", mid(poster[e.gid])))
		case "c02.cb.removed":
			labels = append(labels, fmt.Sprintf("LCbRemove %d", mid(poster[e.gid])))
		case "c02.tq.check":
			labels = append(labels, fmt.Sprintf("LTqCheck %d", mid(poster[e.gid])))
		case "c02.wait.begin", "c02.adder.removed", "adder.next":
			labels = append(labels, fmt.Sprintf("LAdderNext %d", mid(e.a[0])))
		case "c02.wait.returned":
			labels = append(labels, fmt.Sprintf("LWaitReturn %d", mid(e.a[0])))
		}
	}
	res.trace = labels
	res.labels = len(labels)
	for _, cc := range cas {
		allfin := true
		for _, m := range cc.monitors {
			switch v := m.(type) {
			case *engine.RootMonitor:
				allfin = allfin && v.IsFinished()
			case *engine.ChildMonitor:
				allfin = allfin && v.IsFinished()
			}
		}
		var pairs [][2]int
		for _, p := range cc.errs {
			pairs = append(pairs, [2]int{mid(p[0]), int(p[1])})
		}
		sort.Slice(pairs, func(i, j int) bool {
			if pairs[i][0] != pairs[j][0] {
				return pairs[i][0] < pairs[j][0]
			}
			return pairs[i][1] < pairs[j][1]
		})
		var ps []string
		for _, p := range pairs {
			ps = append(ps, fmt.Sprintf("(%d, %d)", p[0], p[1]))
		}
		res.obs = append(res.obs, fmt.Sprintf("mkObs %d %s %s %s %d %s %s", mid(cc.rootID), CoqBool(cc.wait), CoqBool(cc.trig),
			CoqList(ps), atomic.LoadInt32(&cc.handler), CoqBool(allfin), CoqBool(cc.early)))
		if !cc.attrOK && res.problem == "" {
			res.problem = "an entry of AllErrors() names an event or root monitor other than the one whose rule failed"
			res.probKey = "error-attribution"
		}
	}
	return res
}

// c02settle waits until no new trace event has arrived for a short while (bounded).
func c02settle(rec *c02rec) {
	last := -1
	stable := 0
	for i := 0; i < 4000 && stable < 8; i++ {
		rec.mu.Lock()
		n := len(rec.evs)
		rec.mu.Unlock()
		if n == last {
			stable++
		} else {
			stable = 0
			last = n
		}
		time.Sleep(150 * time.Microsecond)
	}
}

// ---- ECAL mode: the same shapes as sinks, observed through addEventAndWait's result ---

func c02ecalProgram(d *c02desc) (string, map[string]bool, int) {
	var sb strings.Builder
	failing := map[string]bool{}
	total := 0
	var emit func(n *c02node)
	emit = func(n *c02node) {
		for ri, r := range n.Rules {
			name := fmt.Sprintf("n%dr%d", n.ID, ri)
			total++
			fmt.Fprintf(&sb, "sink %s\n  kindmatch [\"c.n%d\"],\n  priority %d\n{\n", name, n.ID, ri)
			for _, ch := range r.Children {
				if ch.Node != nil {
					fmt.Fprintf(&sb, "  addEvent(\"e%d\", \"c.n%d\", {})\n", ch.Node.ID, ch.Node.ID)
				} else {
					fmt.Fprintf(&sb, "  addEvent(\"skip\", \"c.skip\", {})\n")
				}
			}
			fmt.Fprintf(&sb, "  stamp(\"%s\")\n", name)
			if r.Fail {
				failing[fmt.Sprintf("e%d/%s", n.ID, name)] = true
				fmt.Fprintf(&sb, "  raise(\"boom\")\n")
			}
			fmt.Fprintf(&sb, "}\n")
			for _, ch := range r.Children {
				if ch.Node != nil {
					emit(ch.Node)
				}
			}
		}
	}
	emit(d.Shapes[0])
	fmt.Fprintf(&sb, "res := addEventAndWait(\"e%d\", \"c.n%d\", {})\nseen := stamps()\n[res, seen]\n", d.Shapes[0].ID, d.Shapes[0].ID)
	return sb.String(), failing, total
}

func c02ecal(c *Ctx, d *c02desc) {
	src, failing, total := c02ecalProgram(d)
	var stamps int64
	erp := interpreter.NewECALRuntimeProvider("c02", nil, nil)
	erp.Processor = engine.NewProcessor(d.Workers)
	vs := scope.NewScope(scope.GlobalScope)
	vs.SetValue("stamp", &goFunc{func(args []interface{}) (interface{}, error) {
		atomic.AddInt64(&stamps, 1)
		return nil, nil
	}})
	vs.SetValue("stamps", &goFunc{func(args []interface{}) (interface{}, error) {
		return float64(atomic.LoadInt64(&stamps)), nil
	}})
	r := guarded(40*time.Second, func() (interface{}, error) { return evalProgram("c02", src, vs, erp) })
	key := fmt.Sprintf("ecal-%d", d.Seed)
	c.Dist["ecal_runs"]++
	switch {
	case r.TimedOut:
		c.Violate("nontermination", "ECAL addEventAndWait did not return within 40s", d)
		return
	case r.Panicked:
		c.Violate("assertion-panic", "ECAL run panicked: "+r.PanicMsg, d)
		return
	case r.Err != nil:
		c.Violate("harness", "ECAL program failed: "+r.Err.Error(), d)
		return
	}
	erp.Processor.Finish()
	out, _ := r.Val.([]interface{})
	if len(out) != 2 {
		c.Violate("harness", fmt.Sprintf("unexpected ECAL result %v", r.Val), d)
		return
	}
	seen, _ := out[1].(float64)
	if int(seen) != total {
		c.Violate("return-before-last-action", fmt.Sprintf("addEventAndWait returned after %d of %d sink bodies had finished", int(seen), total), d)
	}
	got := map[string]bool{}
	dup := false
	if lst, ok := out[0].([]interface{}); ok {
		for _, it := range lst {
			m, _ := it.(map[interface{}]interface{})
			ev, _ := m["event"].(map[interface{}]interface{})
			errs, _ := m["errors"].(map[interface{}]interface{})
			for k := range errs {
				kk := fmt.Sprintf("%v/%v", ev["name"], k)
				if got[kk] {
					dup = true
				}
				got[kk] = true
			}
		}
	}
	same := len(got) == len(failing) && !dup
	for k := range failing {
		if !got[k] {
			same = false
		}
	}
	if !same {
		c.Violate("error-report", fmt.Sprintf("addEventAndWait reported %v, the failing (event/sink) pairs are %v", c02keys(got), c02keys(failing)), d)
	}
	c.Count(key, len(failing) > 0, d)
	_ = util.ErrRuntimeError
}

func c02keys(m map[string]bool) []string {
	var ks []string
	for k := range m {
		ks = append(ks, k)
	}
	sort.Strings(ks)
	return ks
}

// ---- descriptions -------------------------------------------------------------------

func c02descFor(seed int64, mode string) *c02desc {
	rng := rand.New(rand.NewSource(seed))
	d := &c02desc{Seed: seed, Mode: mode}
	d.Workers = []int{1, 1, 2, 2, 3, 4, 4, 8, 16}[rng.Intn(9)]
	nc := 1
	if mode != "ecal" {
		nc = []int{1, 1, 2, 3}[rng.Intn(4)]
	}
	for i := 0; i < nc; i++ {
		next := 0
		depth := rng.Intn(5)
		if mode == "ecal" && depth > 3 {
			depth = 3
		}
		d.Shapes = append(d.Shapes, c02gen(rng, depth, 1+rng.Intn(4), &next))
		d.Wait = append(d.Wait, mode == "ecal" || rng.Intn(4) != 0)
		d.RootSkip = append(d.RootSkip, mode != "ecal" && rng.Intn(12) == 0)
	}
	return d
}

func c02corpus() []*c02desc {
	leaf := func(id int, fail bool) *c02node { return &c02node{ID: id, Rules: []c02rule{{Fail: fail}}} }
	// fan-out 2 + skipped child, depth 2, failing rules at the root, in the middle and at a leaf
	a := &c02node{ID: 0, Rules: []c02rule{
		{Children: []c02child{{Node: &c02node{ID: 1, Rules: []c02rule{{Children: []c02child{{Node: leaf(3, true)}}}}}}, {Skip: true}}},
		{Fail: true, Children: []c02child{{Node: leaf(2, false)}}}}}
	var res []*c02desc
	for i, w := range []int{1, 2, 4, 16} {
		res = append(res, &c02desc{Seed: int64(9000 + i), Mode: "controlled", Workers: w, Wait: []bool{true}, RootSkip: []bool{false},
			Shapes: []*c02node{a}, Corpus: "fanout2-depth2-fail-skip"})
	}
	// a skipped root event with and without waiting; a single failing leaf; three cascades at once
	res = append(res, &c02desc{Seed: 9010, Mode: "controlled", Workers: 2, Wait: []bool{true, false}, RootSkip: []bool{true, true},
		Shapes: []*c02node{leaf(0, false), leaf(0, false)}, Corpus: "skipped-root"})
	res = append(res, &c02desc{Seed: 9011, Mode: "controlled", Workers: 1, Wait: []bool{true}, RootSkip: []bool{false},
		Shapes: []*c02node{leaf(0, true)}, Corpus: "single-failing"})
	res = append(res, &c02desc{Seed: 9012, Mode: "controlled", Workers: 3, Wait: []bool{true, true, false}, RootSkip: []bool{false, false, false},
		Shapes: []*c02node{a, leaf(0, true), a}, Corpus: "three-cascades"})
	wideShape := func(mids, leaves int) *c02node {
		id := 1
		root := &c02node{ID: 0, Rules: []c02rule{{}}}
		for i := 0; i < mids; i++ {
			mid := &c02node{ID: id, Rules: []c02rule{{}}}
			id++
			for j := 0; j < leaves; j++ {
				mid.Rules[0].Children = append(mid.Rules[0].Children, c02child{Node: leaf(id, true)})
				id++
			}
			root.Rules[0].Children = append(root.Rules[0].Children, c02child{Node: mid})
		}
		return root
	}
	res = append(res, &c02desc{Seed: 9020, Mode: "free", Workers: 16, Wait: []bool{true}, RootSkip: []bool{false},
		Shapes: []*c02node{wideShape(12, 3)}, Corpus: "wide-12x3-all-leaves-fail"})
	res = append(res, &c02desc{Seed: 9021, Mode: "free", Workers: 8, Wait: []bool{true, true}, RootSkip: []bool{false, false},
		Shapes: []*c02node{wideShape(8, 2), wideShape(8, 4)}, Corpus: "wide-two-in-flight"})
	return res
}

func c02one(c *Ctx, d *c02desc) {
	os.WriteFile(filepath.Join(c.Out, "current.json"), mustJSON(d), 0o644)
	if d.Mode == "ecal" {
		c02ecal(c, d)
		return
	}
	if d.Mode == "wide" {
		c02wide(c, d)
		return
	}
	r := c02run(d)
	key := fmt.Sprintf("%s-%d", d.Mode, d.Seed)
	c.Dist["runs_"+d.Mode]++
	c.Dist[fmt.Sprintf("workers_%02d", d.Workers)]++
	c.Dist[fmt.Sprintf("cascades_%d", len(d.Shapes))]++
	if r.probKey == "hooks-missing" || r.probKey == "harness" {
		c.Notes = append(c.Notes, r.problem)
		c.Extra["fatal"] = r.problem
		return
	}
	if r.problem != "" {
		c.Violate(r.probKey, r.problem, d)
		c.Count(key, true, d)
		return
	}
	nontrivial := false
	for _, s := range d.Shapes {
		if c02count(s) > 1 {
			nontrivial = true
		}
	}
	c.Dist["labels_total"] += r.labels
	id := c.NewID()
	term := fmt.Sprintf("mkCase %d %s %s %s", id, CoqList(r.trace), CoqList(r.obs), CoqBool(r.complete))
	c.AddCase(id, term, d, key, nontrivial)
}

func mustJSON(v interface{}) []byte { b, _ := json.Marshal(v); return b }

func runC02(c *Ctx) error {
	c.Rule = "(a) traced runs: cascade shapes generated from the seed: 1-2 rules per event, fan-out <= 4 per event, depth <= 4, a child is a skipped (non-triggering) event with probability 1/5, a rule fails with probability 1/4 (any position), 1-3 cascades in flight (AddEventAndWait, or AddEvent + finish handler with probability 1/4; root event skipped with probability 1/12), workers from {1,2,3,4,8,16}; controlled runs delay goroutines at seed-chosen hook points (always between the zero crossing and the post), free runs do not; ECAL runs build the same shapes as sinks and observe addEventAndWait's result; a fixed corpus first; (b) wide family, free running, Go-side oracles only: 8-16 workers, a root event with 8-16 rules (or one rule adding 8-16 events) whose 8-16 overlapping mid-level actions are lined up and add 2-4 events each, every leaf action failing, 120 (thorough 600) cascades per run, 1-3 in flight; AllErrors() must equal the failing actions exactly; on every run all monitor ids created must be pairwise distinct; non-trivial = more than one rule action; distinct by (mode, seed)"
	c.BeginCases("From Coq Require Import List.\nImport ListNotations.\nFrom Ecal Require Import Model.Cascade Run.RunC02.", "case", 30)

	if os.Getenv("C02_CHILD") == "" && c.Replay == "" {
		// run the sweep in a child process: a panic on a worker goroutine must not kill the check
		cmd := exec.Command(os.Args[0], os.Args[1:]...)
		cmd.Env = append(os.Environ(), "C02_CHILD=1")
		var stderr bytes.Buffer
		cmd.Stderr = &stderr
		err := cmd.Run()
		if err == nil {
			os.Exit(0)
		}
		var d c02desc
		if b, e := os.ReadFile(filepath.Join(c.Out, "current.json")); e == nil {
			json.Unmarshal(b, &d)
		}
		msg := stderr.String()
		if len(msg) > 1500 {
			msg = msg[:1500]
		}
		if strings.Contains(msg, "panic") || strings.Contains(msg, "fatal error") {
			c.Violate("assertion-panic", "the process running the cascades died: "+msg, &d)
			c.Count("crash", true, &d)
			return nil
		}
		return fmt.Errorf("child process failed: %v: %s", err, msg)
	}

	if c.Replay != "" {
		var d c02desc
		if err := c.LoadReplay(&d); err != nil {
			return err
		}
		c02one(c, &d)
	} else {
		var all []*c02desc
		all = append(all, c02corpus()...)
		nc, nf, ne := c.Pick(150, 1500), c.Pick(150, 1500), c.Pick(40, 400)
		for i := 0; i < nc; i++ {
			all = append(all, c02descFor(c.Seed*100000+int64(i), "controlled"))
		}
		for i := 0; i < nf; i++ {
			all = append(all, c02descFor(c.Seed*100000+50000+int64(i), "free"))
		}
		for i := 0; i < ne; i++ {
			all = append(all, c02descFor(c.Seed*100000+80000+int64(i), "ecal"))
		}
		// wide family: quick 12 runs x 120 cascades, thorough 40 runs x 600 cascades
		for i := 0; i < c.Pick(12, 40); i++ {
			all = append(all, c02wideDesc(c.Seed*100000+90000+int64(i), c.Pick(120, 600)))
		}
		for _, d := range all {
			if c.Enough() || c.Extra["fatal"] != nil {
				break
			}
			c02one(c, d)
		}
	}
	if f, ok := c.Extra["fatal"]; ok {
		return fmt.Errorf("%v", f)
	}
	return nil
}
