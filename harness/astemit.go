package main

import (
	"fmt"
	"strings"

	"github.com/krotik/ecal/parser"
)

// CoqNode serialises an AST produced by the real parser as a term of type Ecal.Common.Ast.node
// (constructor Nd name val flags line children). A nil node becomes the name "<nil>".
func CoqNode(n *parser.ASTNode) string {
	var sb strings.Builder
	coqNode(&sb, n)
	return sb.String()
}

func coqNode(sb *strings.Builder, n *parser.ASTNode) {
	if n == nil {
		sb.WriteString("(Nd \"<nil>\" [] 0 0 [])")
		return
	}
	flags := 0
	val := ""
	line := 0
	if n.Token != nil {
		val = n.Token.Val
		line = n.Token.Lline
		if n.Token.Identifier {
			flags |= 1
		}
		if n.Token.AllowEscapes {
			flags |= 2
		}
	}
	fmt.Fprintf(sb, "(Nd %s %s %d %d ", coqStr(n.Name), CoqBytes(val), flags, line)
	if len(n.Children) == 0 {
		sb.WriteString("[])")
		return
	}
	sb.WriteString("[")
	for i, c := range n.Children {
		if i > 0 {
			sb.WriteString("; ")
		}
		coqNode(sb, c)
	}
	sb.WriteString("])")
}

func coqStr(s string) string {
	return "\"" + strings.ReplaceAll(s, "\"", "\"\"") + "\""
}
