//go:build c14

package main

// C14 — string interpolation.  Implementation side: evaluate a quoted (or raw) string
// literal through the public API in a scope where a, b are strings (possibly containing
// "{{..}}" themselves) and t is a Go function counting its calls; the evaluator table the
// model needs is obtained by evaluating every candidate code on its own.

import (
	"fmt"
	"strings"
	"time"

	"github.com/krotik/ecal/interpreter"
	"github.com/krotik/ecal/parser"
	"github.com/krotik/ecal/scope"
)

func init() { register("C14", runC14) }

type c14env struct {
	Name string
	A, B string
}

var c14envs = []c14env{
	{"plain", "A", "B"},
	{"nested", "{{b}}", "{{t()}}"},
	{"selfrep", "{{a}}", "}}{{"},
}

type c14case struct {
	Raw   bool   `json:"raw"`
	Value string `json:"value"` // intended token value
	Env   string `json:"env"`
}

func c14source(v string, raw bool) string {
	if raw {
		return "r\"" + v + "\""
	}
	r := strings.NewReplacer("\\", "\\\\", "\"", "\\\"", "\n", "\\n")
	return "\"" + r.Replace(v) + "\""
}

func c14scope(env c14env, ticks *int) parser.Scope {
	vs := scope.NewScope(scope.GlobalScope)
	vs.SetValue("a", env.A)
	vs.SetValue("b", env.B)
	vs.SetValue("t", &goFunc{func(args []interface{}) (interface{}, error) {
		*ticks++
		return "T", nil
	}})
	return vs
}

// c14evalCode mirrors what the implementation does with one code: parse, validate, eval,
// fmt.Sprint — or the inline error marker.
func c14evalCode(code string, env c14env) (string, int) {
	ticks := 0
	vs := c14scope(env, &ticks)
	r := guarded(2*time.Second, func() (interface{}, error) {
		erp := interpreter.NewECALRuntimeProvider("c14", nil, nil)
		ast, err := parser.ParseWithRuntime(fmt.Sprintf("String interpolation: %v", code), code, erp)
		if err != nil {
			return nil, err
		}
		if err = ast.Runtime.Validate(); err != nil {
			return nil, err
		}
		return ast.Runtime.Eval(vs.NewChild("c14"), make(map[string]interface{}), erp.NewThreadID())
	})
	if r.Panicked || r.TimedOut {
		return "#<harness: code evaluation did not return>", ticks
	}
	if r.Err != nil {
		return fmt.Sprintf("#%v", r.Err.Error()), ticks
	}
	return fmt.Sprint(r.Val), ticks
}

func c14candidates(v string) []string {
	seen := map[string]bool{}
	var res []string
	for i := 0; i+1 < len(v); i++ {
		if v[i] != '{' || v[i+1] != '{' {
			continue
		}
		for j := i + 2; j+1 < len(v); j++ {
			if v[j] == '}' && v[j+1] == '}' {
				code := v[i+2 : j]
				if !seen[code] {
					seen[code] = true
					res = append(res, code)
				}
			}
		}
	}
	return res
}

func c14one(c *Ctx, desc c14case) {
	var env c14env
	for _, e := range c14envs {
		if e.Name == desc.Env {
			env = e
		}
	}
	v, raw := desc.Value, desc.Raw
	src := c14source(v, raw)
	toks := parser.LexToList("c14", src)
	if len(toks) != 2 || toks[0].ID != parser.TokenSTRING || toks[1].ID != parser.TokenEOF {
		c.Dist["skipped_not_one_string_token"]++
		return
	}
	tokVal := toks[0].Val
	allow := toks[0].AllowEscapes
	ticks := 0
	vs := c14scope(env, &ticks)
	// one parsed and validated tree, evaluated three times in the same environment: the first
	// evaluation goes to Coq; the later ones must give the same text and run t() as often
	// (an evaluation is a function of the literal and the environment, not of earlier evaluations)
	var later []string
	var laterTicks []int
	r := guarded(3*time.Second, func() (interface{}, error) {
		erp := interpreter.NewECALRuntimeProvider("c14", nil, nil)
		ast, err := parser.ParseWithRuntime("c14", src, erp)
		if err != nil {
			return nil, err
		}
		if err = ast.Runtime.Validate(); err != nil {
			return nil, err
		}
		tid := erp.NewThreadID()
		res, err := ast.Runtime.Eval(vs, make(map[string]interface{}), tid)
		if err != nil {
			return res, err
		}
		first := ticks
		for k := 0; k < 2; k++ {
			before := ticks
			res2, err2 := ast.Runtime.Eval(vs, make(map[string]interface{}), tid)
			if err2 != nil {
				later = append(later, "error: "+err2.Error())
			} else {
				later = append(later, fmt.Sprint(res2))
			}
			laterTicks = append(laterTicks, ticks-before)
		}
		ticks = first
		return res, nil
	})
	id := c.NewID()
	switch {
	case r.TimedOut:
		c.Violate("nontermination", "evaluating the literal did not finish within 3s", desc)
		c.Count(fmt.Sprint(desc), true, desc)
		return
	case r.Panicked:
		c.Violate("panic", "evaluating the literal panicked: "+r.PanicMsg, desc)
		c.Count(fmt.Sprint(desc), true, desc)
		return
	case r.Err != nil:
		c.Violate("error", "evaluating the literal returned an error: "+r.Err.Error(), desc)
		c.Count(fmt.Sprint(desc), true, desc)
		return
	}
	out, ok := r.Val.(string)
	if !ok {
		c.Violate("not-a-string", fmt.Sprintf("result is %T", r.Val), desc)
		return
	}
	for k, l := range later {
		if l != out || laterTicks[k] != ticks {
			d := map[string]interface{}{"case": desc, "evaluation": k + 2, "first": out, "later": l, "first_ticks": ticks, "later_ticks": laterTicks[k]}
			c.Violate("interp-history-dependent", fmt.Sprintf("evaluation %d of the same literal in the same environment gave %q (t() ran %d times) after %q (%d times) the first time", k+2, l, laterTicks[k], out, ticks), d)
			break
		}
	}
	var tbl, tickTbl []string
	for _, code := range c14candidates(tokVal) {
		text, n := c14evalCode(code, env)
		tbl = append(tbl, "("+CoqBytes(code)+", "+CoqBytes(text)+")")
		if n > 0 {
			tickTbl = append(tickTbl, fmt.Sprintf("(%s, %d%%nat)", CoqBytes(code), n))
		}
	}
	term := fmt.Sprintf("mkCase %d %s %s %s %s %s %d", id, CoqBool(allow), CoqBytes(tokVal),
		CoqList(tbl), CoqList(tickTbl), CoqBytes(out), ticks)
	nontrivial := false
	if i := strings.Index(tokVal, "{{"); i >= 0 && strings.Contains(tokVal[i+2:], "}}") {
		nontrivial = true
	}
	if raw {
		c.Dist["raw"]++
	} else {
		c.Dist["quoted"]++
	}
	if nontrivial {
		c.Dist["with_expression"]++
	}
	c.Dist["env_"+env.Name]++
	c.AddCase(id, term, desc, fmt.Sprint(desc), nontrivial)
}

func runC14(c *Ctx) error {
	c.Rule = "string literals as token sequences over {'{{','}}','{','}','a','b','t()','\"','x',' '} (exhaustive up to a length bound, then seeded random longer ones with newline and backslash), each in three variable environments (plain / values containing {{..}} / self-reproducing and '}}{{'), quoted and raw; non-trivial = the token value contains '{{' followed later by '}}'; distinct by (value, environment, raw); every literal is evaluated three times on one parsed tree, later evaluations must repeat the first (text and number of t() calls); plus a re-entrant stream (recursion through an interpolated literal, re-evaluation with changing values) checked against strings computed from the program shape"
	c.BeginCases("From Ecal Require Import Common.Bytes Run.RunC14.", "case", 400)

	alphabet := []string{"{{", "}}", "{", "}", "a", "b", "t()", "\"", "x", " "}
	var values []string
	// corpus first: witnesses of the repaired defect
	corpus := []string{"}}{{", "x{{a}}", "{{a}}{{a}}", "x}}{{a}}", "{{b}}}}", "{{", "}}", "{{}}", "{{{a}}}", "{{a}}}", "{{{{a}}}}",
		"{{5 % 'a'}}", "p{{1 %}}q", "{{raise('E','100%d reached %s')}}", "%{{a}}%d", "{{'%v'}}", "{{a}} {{", "x{{{", "{{a}} {{ b }"}
	values = append(values, corpus...)
	maxLen := c.Pick(3, 4)
	var rec func(prefix string, n int)
	rec = func(prefix string, n int) {
		if n == 0 {
			return
		}
		for _, s := range alphabet {
			v := prefix + s
			values = append(values, v)
			rec(v, n-1)
		}
	}
	rec("", maxLen)
	nexh := len(values)
	ext := append(append([]string{}, alphabet...), "\n", "\\", "{{a}}", "{{b}}", "{{t()}}", "{{ a }}", "{{1+}}", "{{a+b}}", "%", "%d", "{{5 % 'a'}}", "{{raise('E','%s')}}")
	for i := 0; i < c.Pick(500, 12000); i++ {
		n := 4 + c.Rng.Intn(9)
		var sb strings.Builder
		for k := 0; k < n; k++ {
			sb.WriteString(ext[c.Rng.Intn(len(ext))])
		}
		values = append(values, sb.String())
	}
	c.Extra["exhaustive_values"] = nexh
	c.Extra["exhaustive_max_tokens"] = maxLen

	if c.Replay != "" {
		var d c14case
		if err := c.LoadReplay(&d); err != nil {
			return err
		}
		c14one(c, d)
		return nil
	}
	for vi, v := range values {
		if c.Enough() {
			c.Notes = append(c.Notes, "sweep stopped early after repeated violations")
			break
		}
		for ei, env := range c14envs {
			// random stream: one environment per value
			if vi >= nexh && ei != vi%len(c14envs) {
				continue
			}
			for _, raw := range []bool{false, true} {
				if raw && (vi%7 != 0 || strings.ContainsAny(v, "\"")) {
					continue
				}
				c14one(c, c14case{raw, v, env.Name})
			}
		}
	}
	c14reentrant(c)
	c.Exhaustive = false
	return nil
}

// c14reentrant: the same literal evaluated while an evaluation of it is still running
// (recursion through an interpolation) and re-evaluated with changing variable values.
// The expected strings are computed here from the shape of the program (Spec: each
// evaluation substitutes its own expressions' values, left to right, once).
func c14reentrant(c *Ctx) {
	nest := func(n int) string { // value of f(n) for  func f(n){ if n==0 {return "x"}; return "a{{f(n-1)}}b" }
		s := "x"
		for i := 0; i < n; i++ {
			s = "a" + s + "b"
		}
		return s
	}
	var tree func(n int) string // "({{tree(n-1)}} n {{tree(n-1)}})" with tree(0) = "."
	tree = func(n int) string {
		if n == 0 {
			return "."
		}
		t := tree(n - 1)
		return "(" + t + " " + fmt.Sprint(n) + " " + t + ")"
	}
	type prog struct {
		src  string
		want string
	}
	var progs []prog
	for n := 0; n <= 5; n++ {
		progs = append(progs, prog{fmt.Sprintf("func f(n) {\n if n == 0 {\n return \"x\"\n }\n return \"a{{f(n-1)}}b\"\n}\nf(%d)", n), nest(n)})
	}
	for n := 0; n <= 4; n++ {
		progs = append(progs, prog{fmt.Sprintf("func tree(n) {\n if n == 0 {\n return \".\"\n }\n return \"({{tree(n-1)}} {{n}} {{tree(n-1)}})\"\n}\ntree(%d)", n), tree(n)})
	}
	// the same literal re-evaluated in a loop with changing values
	progs = append(progs, prog{"r := []\nfor i in range(1, 4) {\n r := add(r, \"<{{i}}:{{i * 2}}>\")\n}\nr", "[<1:2> <2:4> <3:6> <4:8>]"})
	progs = append(progs, prog{"func g(v) {\n return \"[{{v}}]\"\n}\n[g(1), g(r\"{{v}}\"), g(3)]", "[[1] [{{v}}] [3]]"})
	// left to right: expressions with side effects on a shared counter / a variable set by an earlier
	// expression of the same literal / order recorded by a function
	progs = append(progs,
		prog{"c := 0\nfunc n() {\n c := c + 1\n return c\n}\n\"{{n()}}-{{n()}}-{{n()}}\"", "1-2-3"},
		prog{"c := 0\nfunc n() {\n c := c + 1\n return c\n}\n[\"{{n()}}{{n()}}\", \"<{{n()}}|{{n()}}|{{n()}}|{{n()}}>\"]", "[12 <3|4|5|6>]"},
		prog{"o := []\nfunc m(x) {\n o := add(o, x)\n return x\n}\ns := \"{{m(1)}}{{m(2)}}{{m(3)}}{{m(4)}}\"\n[s, o]", "[1234 [1 2 3 4]]"},
		prog{"o := []\nfunc m(x) {\n o := add(o, x)\n return \"\"\n}\ns := \"a{{m('p')}}b{{m('q')}}c{{1 +}}d{{m('r')}}e\"\no", "[p q r]"},
		prog{"c := 10\nfunc n() {\n c := c * 2\n return c\n}\nfunc h() {\n c := c + 1\n return c\n}\n\"{{n()}} {{h()}} {{n()}}\"", "20 21 42"},
	)
	// a failing (unparsable / invalid) expression in front of valid ones, the literal evaluated repeatedly
	progs = append(progs,
		prog{"c := 0\nfunc n() {\n c := c + 1\n return c\n}\nfunc g() {\n return \"{{n()}}|{{n()}}\"\n}\n[g(), g(), g()]", "[1|2 3|4 5|6]"},
		prog{"r := []\nfor i in range(1, 3) {\n s := \"{{i}}/{{i + 10}}/{{i + 20}}\"\n r := add(r, s)\n}\nr", "[1/11/21 2/12/22 3/13/23]"},
	)
	for _, p := range progs {
		desc := map[string]interface{}{"stream": "reentrant", "source": p.src, "expected": p.want}
		r := guarded(5*time.Second, func() (interface{}, error) { return evalProgram("c14", p.src, nil, nil) })
		c.Count("reentrant:"+p.src, true, desc)
		c.Dist["reentrant"]++
		switch {
		case r.TimedOut:
			c.Violate("nontermination", "evaluation did not finish within 5s", desc)
		case r.Panicked:
			c.Violate("panic", "evaluation panicked: "+r.PanicMsg, desc)
		case r.Err != nil:
			c.Violate("error", "evaluation returned an error: "+r.Err.Error(), desc)
		default:
			if got := fmt.Sprint(r.Val); got != p.want {
				desc["got"] = got
				c.Violate("interp-reentrant", "a literal evaluated while another evaluation of the same literal is running (or re-evaluated with new values) gave "+got+" instead of "+p.want, desc)
			}
		}
	}
}
