//go:build c05

package main

// C05, stream I — THREE-WAY tie: reference semantics (coq/Spec/LexSpec.v) = real interpreter =
// interpreter model (coq/Model/Interp.v) on the same generated program of stream P.
//
// The program is rendered a second time in PURE ECAL: `mark` is an ECAL function that appends
// a deep copy of its argument (zsnap: lists and maps copied item by item, scalars and functions
// as they are) to the global list zL; the call-budget function tick() is dropped (programs that
// exceed the budget in the first rendering are skipped); the statements of the program stay at
// the top level (they ARE the global scope the property talks about); the probes run afterwards
// inside try blocks and the text ends in
//
//     [zT, [a, b, c, d, e, g], [zP0, zP1, ...]]
//
// (zT: the marker trace of the program, zPi = [0, marks of probe i] or [1] when it failed), so
// that the whole observation is ONE value of the language.  When the program ends in an error
// that value is never computed: the trace so far (zL) and the globals are then read from the
// global scope (GetValue here, the global scope of the model's final state in Coq).
// The real parser's tree of the text is evaluated by the real runtime here and by
// Model/Interp.v in Run/RunC05Interp.v, where the canonical texts the reference semantics
// prescribes (trace, globals, probes) are compared with the text of the observed values.

import (
	"encoding/json"
	"fmt"
	"regexp"
	"strings"
	"time"

	"github.com/krotik/ecal/interpreter"
	"github.com/krotik/ecal/parser"
	"github.com/krotik/ecal/scope"
)

const c05interpHeader = "From Coq Require Import ZArith NArith String List.\nFrom Ecal Require Import Common.Ast gen.Tokens Model.Scope Spec.LexSpec Run.RunC06Interp Run.RunC05Interp.\nImport ListNotations.\nOpen Scope string_scope.\nOpen Scope N_scope."

// names starting with z never occur in a generated program (a b c d e g this super x y z ...
// are properties, not variables)
const c05purePrelude = `zL := []
func zsnap(zv) {
let zk := 0
try {
zk := len(zv)
zk := 1
} except zz {
zk := 0
}
if zk == 0 {
return zv
}
try {
concat(zv, [])
} except zz {
zk := 2
}
let zr := []
if zk == 1 {
for zx in zv {
zr := add(zr, zsnap(zx))
}
return zr
}
zr := {}
for [zi, zx] in zv {
zr[zi] := zsnap(zx)
}
return zr
}
func mark(zv) {
zL := add(zL, zsnap(zv))
}
`

var c05tickLine = regexp.MustCompile(`(?m)^[ ]*tick\(\)\n`)

// c05pureSource is the pure-ECAL rendering of a program of stream P and its probes.
func c05pureSource(p *c05Prog) string {
	var sb strings.Builder
	sb.WriteString(c05purePrelude)
	sb.WriteString(c05tickLine.ReplaceAllString(c05blockSrc(p.Prog, ""), ""))
	sb.WriteString("zT := zL\nzL := []\n")
	var ps []string
	for i, pe := range p.Probes {
		v := fmt.Sprintf("zP%d", i)
		ps = append(ps, v)
		src := c05tickLine.ReplaceAllString(c05exprSrc(pe, ""), "")
		sb.WriteString(v + " := null\ntry {\nmark(" + src + ")\n" + v + " := [0, zL]\n} except zz {\n" + v + " := [1]\n}\nzL := []\n")
	}
	sb.WriteString("[zT, [" + strings.Join(c05Names, ", ") + "], [" + strings.Join(ps, ", ") + "]]\n")
	return sb.String()
}

// constructs outside Model/Interp.v: objects (new, and with it this / super)
func c05usesObjects(p *c05Prog) bool {
	found := false
	var inExpr func(e *c05Expr)
	var inStmts func(ss []*c05Stmt)
	inExpr = func(e *c05Expr) {
		if e == nil || found {
			return
		}
		if (e.K == "builtin" && e.X == "new") || ((e.K == "path" || e.K == "call") && (e.X == "this" || e.X == "super")) {
			found = true
			return
		}
		for _, x := range e.Es {
			inExpr(x)
		}
		for _, kv := range e.Kvs {
			inExpr(kv[0])
			inExpr(kv[1])
		}
		for _, a := range e.Accs {
			inExpr(a.Idx)
		}
		inExpr(e.A)
		inExpr(e.C)
		for _, q := range e.Params {
			inExpr(q.Dflt)
		}
		inStmts(e.Body)
	}
	inStmts = func(ss []*c05Stmt) {
		for _, s := range ss {
			if found {
				return
			}
			if s.X == "this" || s.X == "super" {
				found = true
				return
			}
			inExpr(s.E)
			for _, a := range s.Accs {
				inExpr(a.Idx)
			}
			for _, q := range s.Params {
				inExpr(q.Dflt)
			}
			inStmts(s.Body)
			inStmts(s.Else)
		}
	}
	inStmts(p.Prog)
	for _, pe := range p.Probes {
		inExpr(pe)
	}
	return found
}

type c05icase struct {
	Stream string     `json:"stream"` // "interp"
	Origin string     `json:"origin,omitempty"`
	Prog   []*c05Stmt `json:"prog"`
	Probes []*c05Expr `json:"probes"`
	Source string     `json:"source,omitempty"`
}

// The statements of the prelude are the first children of every tree (same text, same lines):
// written once per cases file (PRE5).
var c05prePlain string

func c05interpPreamble() string {
	ast, err := parser.Parse("c05i", c05purePrelude)
	if err != nil || ast == nil {
		panic("c05: the prelude does not parse: " + fmt.Sprint(err))
	}
	var parts []string
	for _, ch := range ast.Children {
		parts = append(parts, c06iTree(ch))
	}
	c05prePlain = strings.Join(parts, "; ")
	return c05interpHeader + "\nDefinition PRE5 : list node := [" + c05prePlain + "]."
}

func c05factorTree(tree string) string {
	if i := strings.Index(tree, "["+c05prePlain+"; "); i >= 0 && strings.HasSuffix(tree, "])") {
		return tree[:i] + "(PRE5 ++ [" + tree[i+len(c05prePlain)+3:len(tree)-2] + "]))"
	}
	return tree
}

// c05iEval is c06iEval (interpemit.go) keeping the global scope: when the run ends in an error,
// ErrState is [zL, [a, b, c, d, e, g]] as GetValue on the global scope answers afterwards.
func c05iEval(src string, timeout time.Duration) (c06iOutcome, string) {
	type result struct {
		val        interface{}
		err        error
		parseErr   error
		tree       string
		nums, strs string
		pmsg       string
		errState   string
	}
	ch := make(chan result, 1)
	var erp *interpreter.ECALRuntimeProvider
	go func() {
		var r result
		defer func() {
			if p := recover(); p != nil {
				r.pmsg = fmt.Sprint(p)
				if r.pmsg == "" {
					r.pmsg = "panic"
				}
			}
			ch <- r
		}()
		erp = interpreter.NewECALRuntimeProvider("c05i", nil, nil)
		erp.Cron.Stop()
		ast, err := parser.ParseWithRuntime("c05i", src, erp)
		if err != nil {
			r.parseErr = err
			return
		}
		r.tree = c06iTree(ast)
		nums, strs := map[string]string{}, map[string]string{}
		c06iTables(ast, nums, strs)
		r.nums, r.strs = c06iTable(nums), c06iTable(strs)
		vs := scope.NewScope(scope.GlobalScope)
		if err = ast.Runtime.Validate(); err != nil {
			r.err = err
		} else {
			r.val, r.err = ast.Runtime.Eval(vs, make(map[string]interface{}), erp.NewThreadID())
		}
		if r.err != nil {
			get := func(n string) string {
				v, _, e := vs.GetValue(n)
				if e != nil {
					return "OOther"
				}
				return c06iCanon(v, 11)
			}
			var gl []string
			for _, n := range c05Names {
				gl = append(gl, get(n))
			}
			r.errState = "(OList [" + get("zL") + "; OList " + CoqList(gl) + "])"
		}
	}()
	var r result
	select {
	case r = <-ch:
	case <-time.After(timeout):
		return c06iOutcome{Class: "timeout"}, "ONull"
	}
	if erp != nil && erp.Processor != nil && !erp.Processor.Stopped() {
		done := make(chan struct{})
		go func() { defer func() { recover(); close(done) }(); erp.Processor.Finish() }()
		select {
		case <-done:
		case <-time.After(2 * time.Second):
		}
	}
	o := c06iOutcome{Tree: r.tree, Nums: r.nums, Strs: r.strs}
	es := "ONull"
	switch {
	case r.parseErr != nil:
		o.Class, o.Detail = "parse-error", r.parseErr.Error()
	case r.pmsg != "":
		o.Class, o.Obs, o.PanicMsg = "panic", "ObsPanic", r.pmsg
	case r.err != nil:
		o.Class, o.Obs, o.Detail = "error", "(ObsError "+CoqBytes(c06iErrType(r.err))+")", r.err.Error()
		es = r.errState
	default:
		o.Class, o.Obs = "value", "(ObsValue "+c06iCanon(r.val, 12)+")"
	}
	return o, es
}

func c05interpOne(c *Ctx, p *c05Prog) {
	if c05usesObjects(p) {
		c.Dist["interp_skipped_objects"]++
		return
	}
	n := 0
	c05number(p.Prog, &n)
	// the first rendering decides whether the program stays inside the call budget (the pure
	// rendering has no tick())
	run := c05execute(p)
	if run.Out == "timeout" || run.Exceeded {
		c.Dist["interp_skipped_call_budget"]++
		return
	}
	src := c05pureSource(p)
	ic := c05icase{Stream: "interp", Origin: p.Stream, Prog: p.Prog, Probes: p.Probes, Source: src}
	key := "i:" + src
	o, errState := c05iEval(src, 20*time.Second)
	c.Dist["interp_"+o.Class]++
	switch o.Class {
	case "timeout":
		c.Violate("nontermination", "the pure rendering of a program that ends within the call budget did not finish within 20s:\n"+src, ic)
		c.Count(key, true, ic)
		return
	case "parse-error":
		c.Violate("parse-error", "the pure rendering of a generated program does not parse: "+o.Detail+"\n"+src, ic)
		c.Count(key, true, ic)
		return
	}
	tree := c05factorTree(o.Tree)
	if len(tree) > c.Pick(26000, 40000) {
		// coqc needs ~14 ms per 100 bytes of tree term: very large programs are left to the
		// thorough tier (counted)
		c.Dist["interp_skipped_large_tree"]++
		return
	}
	id := c.NewID()
	c.AddCase(id, fmt.Sprintf("mkC5I %d%%N %s %s %s %s %s %s %s", id, c05stmtsCoq(p.Prog), c05exprsCoq(p.Probes), tree, o.Nums, o.Strs, o.Obs, errState),
		ic, key, len(run.Trace)+len(p.Probes) > 0)
}

func c05interpReplay(c *Ctx, raw json.RawMessage) error {
	var ic c05icase
	if err := json.Unmarshal(raw, &ic); err != nil {
		return err
	}
	c.BeginCases(c05interpPreamble(), "case5", 10)
	c05interpOne(c, &c05Prog{Stream: ic.Origin, Prog: ic.Prog, Probes: ic.Probes})
	return nil
}

// c05interpStream runs the three-way comparison on a sample of the programs of stream P: the
// corpora, every k-th program of the exhaustive families, random programs.
func c05interpStream(c *Ctx) {
	c.flushShard()
	c.BeginCases(c05interpPreamble(), "case5", 10)
	defer c.flushShard()
	total := 0
	emit := func(p *c05Prog) {
		if !c.Enough() {
			c05interpOne(c, p)
			total++
		}
	}
	for _, p := range c05corpus() {
		emit(p)
	}
	for _, p := range c05freshCorpus() {
		emit(p)
	}
	seq := 0
	every := func(k int) func(p *c05Prog) {
		return func(p *c05Prog) {
			seq++
			if (seq+int(c.Seed))%k == 0 {
				emit(p)
			}
		}
	}
	c05exhaustive(c05pool(), "exhaustive", []string{"a", "b"}, c.Pick(3, 4), c.Pick(14, 2), every(c.Pick(17, 29)))
	c05exhaustive(c05listPool(), "exhaustive-lists", []string{"a", "b", "c"}, c.Pick(3, 4), c.Pick(9, 3), every(c.Pick(13, 23)))
	g := &c05gen{c: c}
	for i := 0; i < c.Pick(45, 300) && !c.Enough(); i++ {
		emit(g.program())
	}
	for i := 0; i < c.Pick(15, 100) && !c.Enough(); i++ {
		emit(g.freshProgram())
	}
	c.Extra["interp_three_way_programs"] = total
	c.Rule += "  |  stream I (three-way tie with the interpreter model): the corpora, a rotating sample of the exhaustive families and random programs of stream P (those without objects and inside the call budget) rendered in PURE ECAL (mark written in ECAL: appends a deep copy of its argument to a global list; program at the top level; probes in try blocks; observation = the value [trace, globals, probes], or the error type plus trace and globals read from the global scope) -> real parse -> the real tree evaluated by the real runtime AND by Model/Interp.v, both compared with the canonical texts the reference semantics Spec/LexSpec.v prescribes"
}
