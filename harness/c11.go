//go:build c11

package main

// C11 — concurrent sink invocations are isolated; failures go to their own event.
//
// Implementation side.  One ECAL script declares a shared global function and two sinks with
// the same body; the body reads `event`, keeps the id in a local, calls the Go function mid()
// (a hold point of the schedule controller), reads `event` and the local again, sends the
// local through the shared global function, reports the four values through the Go function
// report() (attributed to the event by the monitor found in the instance state) and then does
// what the event's payload dictates: succeed, raise(type, detail, data), hit a runtime error
// of the interpreter, or `return data`.
//
//   * controlled overlap: invocations are run up to hold points (4 = inside the body at
//     mid(), 7 = the hook "sink.action.evaluated" just before `return err`, 8 = returned) in
//     an enforced order, e.g. A to 7, B to 8, A to 8;
//   * free-running overlap on 2..16 workers.
//
// Everything that runs on pool workers happens in a child process (a Go panic on a worker or
// `fatal error: concurrent map writes` kills the process: that is then an observation, not
// the end of the check).  The per-event observations go to Coq (Run/RunC11.v) where the model
// of the action closure is run on the same schedule.
//
// The static tie is re-evaluated here on the tree the harness is built against (the driver
// regenerates coq/gen/SinkClosure.v for /repo only).

import (
	"bufio"
	"bytes"
	"encoding/json"
	"fmt"
	"math/rand"
	"os"
	"os/exec"
	"path/filepath"
	"runtime"
	"runtime/debug"
	"strconv"
	"strings"
	"sync"
	"sync/atomic"
	"time"

	"github.com/krotik/ecal/engine"
	"github.com/krotik/ecal/interpreter"
	"github.com/krotik/ecal/parser"
	"github.com/krotik/ecal/scope"
	"github.com/krotik/ecal/util"
	"github.com/krotik/ecal/verifhook"
)

func init() { register("C11", runC11) }

// ---------------------------------------------------------------------------- descriptions

type c11Event struct {
	ID     int `json:"id"`
	Kind   int `json:"kind"` // 0 succeed, 1 raise, 2 runtime error, 3 return
	Ty     int `json:"ty"`
	Detail int `json:"detail"`
	Data   int `json:"data"`
	Sink   int `json:"sink"` // 0: sink s1, 1: sink s2
}

type c11Job struct {
	Mode    string     `json:"mode"` // controlled | free | static
	Name    string     `json:"name,omitempty"`
	Workers int        `json:"workers,omitempty"`
	Events  []c11Event `json:"events,omitempty"`
	Dirs    [][2]int   `json:"dirs,omitempty"` // controlled: (invocation, hold point to run it to)
	N       int        `json:"n,omitempty"`    // free: number of events (derived from Seed)
	Seed    int64      `json:"seed,omitempty"`
	Sinks   int        `json:"sinks,omitempty"` // free: 1 = all events to one sink, 2 = two sinks
	// script variant: 0 plain; 1 the scope in which the sinks are declared holds its own variable
	// `event` (the one name the action closure binds) set to a sentinel; 2 as 1, and sink bodies
	// and the shared global function read and write global variables from inside nested
	// for / if / try / mutex blocks (Loop iterations per invocation)
	Variant int      `json:"variant,omitempty"`
	Loop    int      `json:"loop,omitempty"`
	Burst   bool     `json:"burst,omitempty"` // free: AddEvent all at once instead of AddEventAndWait feeders
	// Interp: a FRESH engine and program for this job alone (whatever a runtime component keeps is
	// cold), the sink body builds the type and detail of raise() and a label with interpolated string
	// literals ("T{{..}}"), every event fails with raise(); with Burst the very first evaluations of
	// those literals overlap on the workers
	Interp bool `json:"interp,omitempty"`
	Static  []string `json:"captured_writes,omitempty"`
	Note    string   `json:"note,omitempty"`
}

const c11FreeNote = "free-running overlap: the events are derived from seed and n (event i has id i+1, its kind is drawn from the seed, type/detail/data are functions of the id); the schedule is whatever the pool does and is not reproducible - a replay runs the same stream again and may or may not meet the same overlap; the enforced two-invocation schedules are the deterministic witnesses"

type c11Obs struct {
	HasErr bool     `json:"has_err"`
	Class  int      `json:"class"`
	Ty     int      `json:"ty"`
	Detail int      `json:"detail"`
	Data   int      `json:"data"`
	Env    int      `json:"env"` // id of `event` in the scope attached to the error, -1 none
	Echo   [][4]int `json:"echo"`
	Note   string   `json:"note,omitempty"`
}

type c11Result struct {
	Job         int      `json:"job"`
	Obs         []c11Obs `json:"obs"`
	Problem     string   `json:"problem,omitempty"` // no-progress: ...
	Nudges      int      `json:"nudges"`
	HookMissing bool     `json:"hook_missing,omitempty"`
	OuterAfter  int      `json:"outer_after"`          // number found in the global `event` afterwards (0: none / not a number)
	OuterNote   string   `json:"outer_note,omitempty"` // what else was found there
	Counter     int      `json:"counter"`              // mutex-protected global counter afterwards
	CounterWant int      `json:"counter_want"`
	MapBad      int      `json:"map_bad"` // events whose own key of the global map is missing or wrong
}

func c11Payload(id, kind, sink int) c11Event {
	return c11Event{ID: id, Kind: kind, Ty: (id*7+3)%97 + 1, Detail: (id*13+5)%89 + 1, Data: (id*17+1)%83 + 1, Sink: sink}
}

func c11FreeEvents(j c11Job) []c11Event {
	rng := rand.New(rand.NewSource(j.Seed))
	evs := make([]c11Event, j.N)
	for i := range evs {
		kind := 0
		switch r := rng.Intn(10); {
		case r < 4:
			kind = 0
		case r < 7:
			kind = 1
		case r < 9:
			kind = 2
		default:
			kind = 3
		}
		sink := 0
		if j.Sinks > 1 {
			sink = rng.Intn(2)
		}
		if j.Interp {
			kind = 1
		}
		evs[i] = c11Payload(i+1, kind, sink)
	}
	return evs
}

// ---------------------------------------------------------------------------- child side

const c11Sentinel = 4242

const c11SinkBody = `
{
    id1 := event.state.id
    loc := id1
    mid(id1)
    id2 := event.state.id
    g := echo(loc)
@GLOBALS@
    report(id1, id2, loc, g)
    k := event.state.kind
    if k == 1 {
        raise(event.state.ty, event.state.detail, event.state.data)
    }
    if k == 2 {
        x := 1 + "a"
    }
    if k == 3 {
        return event.state.data
    }
}
`

// c11Script builds the program of a variant (see c11Job.Variant).
func c11Script(variant int) string { return c11ScriptI(variant, false) }

func c11ScriptI(variant int, interp bool) string {
	var sb strings.Builder
	if variant >= 1 {
		// declared BEFORE the sinks, in the scope the sinks are declared in
		fmt.Fprintf(&sb, "event := %d\n", c11Sentinel)
	}
	globals := ""
	echoGlobals := ""
	if variant >= 2 {
		sb.WriteString("counter := 0\nlimit := 1\ngmap := {}\n")
		// a shared global function which does global bookkeeping from nested blocks
		echoGlobals = `
    if limit > 0 {
        for j in range(1, 2) {
            mutex cnt {
                counter := counter + 1
            }
        }
    }`
		// every invocation: Loop times a mutex-protected increment of the global counter from
		// inside for/if/mutex blocks, an unsynchronised write to its OWN key of a global map
		// from inside for/try blocks, reads of a global from inside the blocks
		globals = `
    key := event.state.key
    for i in range(1, event.state.n) {
        if limit > 0 {
            mutex cnt {
                counter := counter + 1
            }
        }
        try {
            gmap[key] := id1 + limit - 1
        } except {
            gmap[key] := 0 - 1
        }
    }`
	}
	sb.WriteString("func echo(x) {\n    y := x" + echoGlobals + "\n    return y\n}\n")
	body := strings.Replace(c11SinkBody, "@GLOBALS@", globals, 1)
	if interp {
		// type and detail are built by interpolated literals from numbers of the event
		body = strings.Replace(body, "raise(event.state.ty, event.state.detail, event.state.data)",
			"lbl := \"<{{event.state.id}}:{{loc}}:{{id2}}>\"\n        if lbl != label(event.state.id) {\n            raise(\"Tbad\", lbl, event.state.data)\n        }\n        raise(\"T{{event.state.tyn}}\", \"D{{event.state.detailn}}\", event.state.data)", 1)
		sb.WriteString("func label(i) {\n    return \"<{{i}}:{{i}}:{{i}}>\"\n}\n")
	}
	sb.WriteString("sink s1\n    kindmatch [ \"c11.a\" ]" + body)
	sb.WriteString("sink s2\n    kindmatch [ \"c11.b\" ]" + body)
	sb.WriteString("sink nudge\n    kindmatch [ \"c11.nudge\" ]\n{\n    n := 1\n}\n")
	return sb.String()
}

// c11Inv is one invocation as the controller sees it.
type c11Inv struct {
	idx     int
	ev      c11Event
	rm      *engine.RootMonitor
	event   *engine.Event
	target  int32 // hold point to stop at (4, 7) or 8
	reached chan int
	release chan struct{}
	done    chan struct{}
	mu      sync.Mutex
	echo    [][4]int
	started bool
	held    bool
}

type c11Engine struct {
	workers   int
	variant   int
	vs        parser.Scope
	loop      atomic.Int64
	erp       *interpreter.ECALRuntimeProvider
	proc      engine.Processor
	byMonitor sync.Map // engine.Monitor -> *c11Inv
	byName    sync.Map // event name -> *c11Inv
	free      atomic.Bool
	completed atomic.Int64
	hookSeen  atomic.Bool
}

// c11Func is a Go function callable from the script; it sees the instance state.
type c11Func struct {
	name string
	eng  *c11Engine
}

func (f *c11Func) Run(instanceID string, vs parser.Scope, is map[string]interface{}, tid uint64, args []interface{}) (interface{}, error) {
	var inv *c11Inv
	if m, ok := is["monitor"]; ok {
		if v, ok := f.eng.byMonitor.Load(m); ok {
			inv = v.(*c11Inv)
		}
	}
	if inv == nil {
		return nil, nil
	}
	switch f.name {
	case "mid":
		if f.eng.free.Load() {
			// widen the overlap a little, differently for different events
			for i := 0; i < inv.ev.ID%4; i++ {
				runtime.Gosched()
			}
			return nil, nil
		}
		f.eng.hold(inv, 4)
	case "report":
		var rec [4]int
		for i := 0; i < 4; i++ {
			rec[i] = -1
			if i < len(args) {
				if x, ok := args[i].(float64); ok {
					rec[i] = int(x)
				}
			}
		}
		inv.mu.Lock()
		inv.echo = append(inv.echo, rec)
		inv.mu.Unlock()
	}
	return nil, nil
}
func (f *c11Func) DocString() (string, error) { return "verif harness function " + f.name, nil }
func (f *c11Func) String() string             { return "c11Func " + f.name }

// hold blocks the invocation at point p if the controller asked for it.
func (e *c11Engine) hold(inv *c11Inv, p int) {
	if atomic.LoadInt32(&inv.target) != int32(p) {
		return
	}
	inv.reached <- p
	<-inv.release
}

func c11NewEngine(workers, variant int) (*c11Engine, error) { return c11NewEngineI(workers, variant, false) }

func c11NewEngineI(workers, variant int, interp bool) (*c11Engine, error) {
	e := &c11Engine{workers: workers, variant: variant}
	e.erp = interpreter.NewECALRuntimeProvider("c11", nil, nil)
	e.erp.Processor = engine.NewProcessor(workers)
	e.erp.Processor.SetFailOnFirstErrorInTriggerSequence(true)
	e.proc = e.erp.Processor
	vs := scope.NewScope(scope.GlobalScope)
	vs.SetValue("mid", &c11Func{"mid", e})
	vs.SetValue("report", &c11Func{"report", e})
	if _, err := evalProgram("c11", c11ScriptI(variant, interp), vs, e.erp); err != nil {
		return nil, fmt.Errorf("the C11 script (variant %d) does not evaluate: %v\n%s", variant, err, c11ScriptI(variant, interp))
	}
	e.vs = vs
	e.proc.Start()
	return e, nil
}

func (e *c11Engine) newInv(idx int, ev c11Event) *c11Inv {
	kind := "c11.a"
	if ev.Sink == 1 {
		kind = "c11.b"
	}
	name := fmt.Sprintf("e%d", ev.ID)
	inv := &c11Inv{idx: idx, ev: ev, target: 8,
		reached: make(chan int, 4), release: make(chan struct{}, 4), done: make(chan struct{})}
	inv.event = engine.NewEvent(name, strings.Split(kind, "."), map[interface{}]interface{}{
		"id": float64(ev.ID), "kind": float64(ev.Kind), "ty": fmt.Sprintf("T%d", ev.Ty),
		"detail": fmt.Sprintf("D%d", ev.Detail), "data": float64(ev.Data),
		"tyn": float64(ev.Ty), "detailn": float64(ev.Detail),
		"key": fmt.Sprintf("k%d", ev.ID), "n": float64(e.loop.Load()),
	})
	inv.rm = e.proc.NewRootMonitor(nil, nil)
	inv.rm.SetFinishHandler(func(p engine.Processor) {
		e.completed.Add(1)
		close(inv.done)
	})
	e.byMonitor.Store(engine.Monitor(inv.rm), inv)
	e.byName.Store(name, inv)
	return inv
}

func (e *c11Engine) forget(invs []*c11Inv) {
	for _, inv := range invs {
		e.byMonitor.Delete(engine.Monitor(inv.rm))
		e.byName.Delete(inv.event.Name())
	}
}

// nudger works around a lost wake-up of the pool (property C09, not this one): when nothing
// completes although events are outstanding, another task is added, which signals the
// workers again.  A real dead-lock is not cured by that and still ends in the time-out.
func (e *c11Engine) nudger(stop chan struct{}, outstanding func() bool, nudges *int64) {
	last := e.completed.Load()
	t := time.NewTicker(25 * time.Millisecond)
	defer t.Stop()
	for {
		select {
		case <-stop:
			return
		case <-t.C:
			cur := e.completed.Load()
			if cur == last && outstanding() {
				atomic.AddInt64(nudges, 1)
				e.proc.AddEvent(engine.NewEvent("nudge", []string{"c11", "nudge"}, map[interface{}]interface{}{}), nil)
			}
			last = cur
		}
	}
}

func c11Num(v interface{}) int {
	switch x := v.(type) {
	case nil:
		return 0
	case float64:
		return int(x)
	}
	return 9003
}

func c11ParseTagged(s, tag string, bad int) int {
	if strings.HasPrefix(s, tag) {
		if n, err := strconv.Atoi(s[len(tag):]); err == nil {
			return n
		}
	}
	return bad
}

// observe reads the per-event error report from the event's monitor.
func (e *c11Engine) observe(inv *c11Inv) c11Obs {
	o := c11Obs{Env: -1}
	inv.mu.Lock()
	o.Echo = append([][4]int{}, inv.echo...)
	inv.mu.Unlock()
	tes := inv.rm.AllErrors()
	if len(tes) == 0 {
		return o
	}
	o.HasErr = true
	if len(tes) != 1 {
		o.Class = 7
		o.Note = fmt.Sprintf("%d task errors for one event", len(tes))
		return o
	}
	te := tes[0]
	want := "s1"
	if inv.ev.Sink == 1 {
		want = "s2"
	}
	err, ok := te.ErrorMap[want]
	if !ok || len(te.ErrorMap) != 1 || te.Event != inv.event {
		o.Class = 7
		o.Note = fmt.Sprintf("error map %v for event %v (expected one entry for %v of %v)", te.ErrorMap, te.Event, want, inv.event)
		return o
	}
	d, ok := err.(*util.RuntimeErrorWithDetail)
	if !ok || d.RuntimeError == nil {
		o.Class = 8
		o.Note = fmt.Sprintf("error of type %T", err)
		return o
	}
	switch {
	case d.Type == util.ErrReturn:
		o.Class = 3
		o.Data = c11Num(d.Data)
		// the detail of a return report names the returned value: it must not name the value of
		// ANOTHER event (numbers in the text; judged only when none of them is this event's own)
		own, foreign := false, 0
		for _, f := range strings.FieldsFunc(d.Detail, func(r rune) bool { return r < '0' || r > '9' }) {
			if n, err := strconv.Atoi(f); err == nil {
				if n == inv.ev.Data {
					own = true
				} else if e.otherData(inv, n) {
					foreign = n
				}
			}
		}
		if !own && foreign != 0 {
			o.Class = 7
			o.Note = fmt.Sprintf("the report of event %d (returned %d) carries the detail %q: the value %d belongs to another event", inv.ev.ID, inv.ev.Data, d.Detail, foreign)
		}
	case d.Type == util.ErrNotANumber:
		o.Class = 2
		o.Data = c11Num(d.Data)
	case d.Type != nil && strings.HasPrefix(d.Type.Error(), "T"):
		o.Class = 1
		o.Ty = c11ParseTagged(d.Type.Error(), "T", 9001)
		o.Detail = c11ParseTagged(d.Detail, "D", 9002)
		o.Data = c11Num(d.Data)
	default:
		o.Class = 9
		o.Note = fmt.Sprintf("error type %v", d.Type)
	}
	if d.Environment != nil {
		if v, ok, _ := d.Environment.GetValue("event"); ok {
			if m, ok := v.(map[interface{}]interface{}); ok {
				if st, ok := m["state"].(map[interface{}]interface{}); ok {
					if id, ok := st["id"].(float64); ok {
						o.Env = int(id)
					}
				}
			}
		}
	}
	return o
}

// otherData: is n the data value of another invocation known to the engine?
func (e *c11Engine) otherData(inv *c11Inv, n int) bool {
	found := false
	e.byName.Range(func(_, v interface{}) bool {
		if o := v.(*c11Inv); o != inv && o.ev.Data == n {
			found = true
			return false
		}
		return true
	})
	return found
}

// resetGlobals puts the global variables of the variant back before a job.
func (e *c11Engine) resetGlobals(j c11Job) {
	loop := j.Loop
	if loop < 1 {
		loop = 1
	}
	e.loop.Store(int64(loop))
	if e.variant >= 1 {
		e.vs.SetValue("event", float64(c11Sentinel))
	}
	if e.variant >= 2 {
		e.vs.SetValue("counter", float64(0))
		e.vs.SetValue("gmap", map[interface{}]interface{}{})
	}
}

// observeGlobals reads them after all invocations of the job returned.
func (e *c11Engine) observeGlobals(invs []*c11Inv, res *c11Result) {
	if e.variant >= 1 {
		v, ok, _ := e.vs.GetValue("event")
		switch x := v.(type) {
		case float64:
			res.OuterAfter = int(x)
		default:
			res.OuterNote = fmt.Sprintf("declared=%v value of type %T", ok, v)
			if m, isMap := v.(map[interface{}]interface{}); isMap {
				res.OuterNote = fmt.Sprintf("the event map of %v", m["name"])
			}
		}
	}
	if e.variant >= 2 {
		if v, _, _ := e.vs.GetValue("counter"); v != nil {
			if x, ok := v.(float64); ok {
				res.Counter = int(x)
			} else {
				res.Counter = -1
			}
		}
		res.CounterWant = len(invs) * (int(e.loop.Load()) + 2)
		v, _, _ := e.vs.GetValue("gmap")
		m, _ := v.(map[interface{}]interface{})
		for _, inv := range invs {
			if x, ok := m[fmt.Sprintf("k%d", inv.ev.ID)].(float64); !ok || int(x) != inv.ev.ID {
				res.MapBad++
			}
		}
		if len(m) != len(invs) {
			res.MapBad++
		}
	}
}

const c11StepTimeout = 20 * time.Second

// controlled runs one enforced schedule.
func (e *c11Engine) controlled(j c11Job, res *c11Result) {
	e.free.Store(false)
	e.resetGlobals(j)
	invs := make([]*c11Inv, len(j.Events))
	for i, ev := range j.Events {
		invs[i] = e.newInv(i, ev)
	}
	defer e.forget(invs)
	stop := make(chan struct{})
	var nudges int64
	go e.nudger(stop, func() bool {
		// outstanding and not parked at a hold point: something should be moving
		for _, inv := range invs {
			inv.mu.Lock()
			moving := inv.started && !inv.held
			inv.mu.Unlock()
			if moving {
				select {
				case <-inv.done:
				default:
					return true
				}
			}
		}
		return false
	}, &nudges)
	defer func() { close(stop); res.Nudges += int(atomic.LoadInt64(&nudges)) }()

	finished := func(inv *c11Inv) bool {
		select {
		case <-inv.done:
			return true
		default:
			return false
		}
	}
	wantedHook := false
	for _, d := range j.Dirs {
		if d[0] < 0 || d[0] >= len(invs) {
			res.Problem = "bad directive"
			return
		}
		inv := invs[d[0]]
		target := d[1]
		if finished(inv) {
			continue
		}
		atomic.StoreInt32(&inv.target, int32(target))
		inv.mu.Lock()
		wasHeld, started := inv.held, inv.started
		inv.held = false
		inv.started = true
		inv.mu.Unlock()
		if !started {
			if _, err := e.proc.AddEvent(inv.event, inv.rm); err != nil {
				res.Problem = "AddEvent: " + err.Error()
				return
			}
		} else if wasHeld {
			inv.release <- struct{}{}
		}
		if target == 7 {
			wantedHook = true
		}
		select {
		case <-inv.reached:
			inv.mu.Lock()
			inv.held = true
			inv.mu.Unlock()
		case <-inv.done:
			// returned (target 8, or it never came by the hold point: the comparison shows it)
		case <-time.After(c11StepTimeout):
			res.Problem = fmt.Sprintf("no-progress: invocation %d did not reach point %d within %v", d[0], target, c11StepTimeout)
			return
		}
	}
	// let everything run to the end
	for _, inv := range invs {
		atomic.StoreInt32(&inv.target, 8)
		inv.mu.Lock()
		wasHeld, started := inv.held, inv.started
		inv.held = false
		inv.started = true
		inv.mu.Unlock()
		if !started {
			e.proc.AddEvent(inv.event, inv.rm)
		} else if wasHeld {
			inv.release <- struct{}{}
		}
	}
	for i, inv := range invs {
		select {
		case <-inv.done:
		case <-time.After(c11StepTimeout):
			res.Problem = fmt.Sprintf("no-progress: invocation %d did not return within %v", i, c11StepTimeout)
			return
		}
	}
	if wantedHook && !e.hookSeen.Load() {
		res.HookMissing = true
	}
	for _, inv := range invs {
		res.Obs = append(res.Obs, e.observe(inv))
	}
	e.observeGlobals(invs, res)
}

// freeRun lets all events overlap as the pool pleases.
func (e *c11Engine) freeRun(j c11Job, res *c11Result) {
	e.free.Store(true)
	e.resetGlobals(j)
	evs := c11FreeEvents(j)
	invs := make([]*c11Inv, len(evs))
	for i, ev := range evs {
		invs[i] = e.newInv(i, ev)
	}
	defer e.forget(invs)
	var added, finishedN atomic.Int64
	stop := make(chan struct{})
	var nudges int64
	go e.nudger(stop, func() bool { return added.Load() > finishedN.Load() }, &nudges)
	defer func() { close(stop); res.Nudges += int(atomic.LoadInt64(&nudges)) }()
	allDone := make(chan struct{})
	go func() {
		if j.Burst {
			for _, inv := range invs {
				added.Add(1)
				e.proc.AddEvent(inv.event, inv.rm)
			}
			for _, inv := range invs {
				<-inv.done
				finishedN.Add(1)
			}
		} else {
			var wg sync.WaitGroup
			next := int64(-1)
			for g := 0; g < 2*e.workers; g++ {
				wg.Add(1)
				go func() {
					defer wg.Done()
					for {
						i := int(atomic.AddInt64(&next, 1))
						if i >= len(invs) {
							return
						}
						added.Add(1)
						e.proc.AddEventAndWait(invs[i].event, invs[i].rm)
						<-invs[i].done
						finishedN.Add(1)
					}
				}()
			}
			wg.Wait()
		}
		close(allDone)
	}()
	limit := 60*time.Second + time.Duration(len(invs))*10*time.Millisecond
	select {
	case <-allDone:
	case <-time.After(limit):
		res.Problem = fmt.Sprintf("no-progress: %d of %d events finished within %v", finishedN.Load(), len(invs), limit)
		return
	}
	for _, inv := range invs {
		res.Obs = append(res.Obs, e.observe(inv))
	}
	e.observeGlobals(invs, res)
}

func c11Child(spec string) {
	b, err := os.ReadFile(spec)
	if err != nil {
		fmt.Fprintln(os.Stderr, "c11 child:", err)
		os.Exit(3)
	}
	var jobs []struct {
		Index int    `json:"index"`
		Job   c11Job `json:"job"`
	}
	if err := json.Unmarshal(b, &jobs); err != nil {
		fmt.Fprintln(os.Stderr, "c11 child:", err)
		os.Exit(3)
	}
	engines := map[int]*c11Engine{}
	var cur atomic.Pointer[c11Engine]
	verifhook.SetHandler(func(point string, args ...interface{}) {
		if point != "sink.action.evaluated" || len(args) < 2 {
			return
		}
		e := cur.Load()
		if e == nil {
			return
		}
		e.hookSeen.Store(true)
		if e.free.Load() {
			return
		}
		name, _ := args[1].(string)
		if v, ok := e.byName.Load(name); ok {
			e.hold(v.(*c11Inv), 7)
		}
	})
	out := bufio.NewWriter(os.Stdout)
	for _, it := range jobs {
		w := it.Job.Workers*10 + it.Job.Variant
		e := engines[w]
		if it.Job.Interp {
			if e, err = c11NewEngineI(it.Job.Workers, it.Job.Variant, true); err != nil {
				fmt.Fprintln(os.Stderr, "c11 child:", err)
				os.Exit(3)
			}
		} else if e == nil {
			if e, err = c11NewEngine(it.Job.Workers, it.Job.Variant); err != nil {
				fmt.Fprintln(os.Stderr, "c11 child:", err)
				os.Exit(3)
			}
			engines[w] = e
		}
		cur.Store(e)
		res := c11Result{Job: it.Index}
		if it.Job.Mode == "free" {
			e.freeRun(it.Job, &res)
		} else {
			e.controlled(it.Job, &res)
		}
		line, _ := json.Marshal(res)
		out.Write(line)
		out.WriteString("\n")
		out.Flush()
		if it.Job.Interp && res.Problem == "" {
			e.proc.Finish()
		}
		if res.Problem != "" {
			// goroutines of this job are stuck: this process is not reusable
			os.Exit(0)
		}
	}
	os.Exit(0)
}

// ---------------------------------------------------------------------------- parent side

type c11Indexed struct {
	Index int    `json:"index"`
	Job   c11Job `json:"job"`
}

// c11RunJobs runs the jobs in child processes; a child that dies is an observation about
// the first job it did not answer.
func c11RunJobs(c *Ctx, jobs []c11Job) (map[int]c11Result, error) {
	results := map[int]c11Result{}
	pending := make([]c11Indexed, len(jobs))
	for i, j := range jobs {
		pending[i] = c11Indexed{i, j}
	}
	round, stuck, died := 0, 0, 0
	for len(pending) > 0 {
		round++
		if c.Enough() || stuck >= 3 || died >= 5 {
			// every stuck job costs a time-out, every crash a process: a few witnesses are enough
			c.Notes = append(c.Notes, fmt.Sprintf("stopped early: %d jobs made no progress, %d processes died, %d jobs not run", stuck, died, len(pending)))
			break
		}
		spec := filepath.Join(c.Out, fmt.Sprintf("c11_jobs_%d.tmp", round))
		b, _ := json.Marshal(pending)
		if err := os.WriteFile(spec, b, 0o644); err != nil {
			return nil, err
		}
		cmd := exec.Command(os.Args[0], "C11", "-out", c.Out, "-tier", c.Tier, "-seed", fmt.Sprint(c.Seed))
		cmd.Env = append(os.Environ(), "VERIF_C11_CHILD="+spec)
		var stderr bytes.Buffer
		cmd.Stderr = &stderr
		stdout, err := cmd.StdoutPipe()
		if err != nil {
			return nil, err
		}
		if err := cmd.Start(); err != nil {
			return nil, err
		}
		answered := map[int]bool{}
		sc := bufio.NewScanner(stdout)
		sc.Buffer(make([]byte, 1<<20), 1<<28)
		for sc.Scan() {
			var r c11Result
			if err := json.Unmarshal(sc.Bytes(), &r); err != nil {
				continue
			}
			results[r.Job] = r
			answered[r.Job] = true
			if strings.HasPrefix(r.Problem, "no-progress") {
				stuck++
			}
		}
		werr := cmd.Wait()
		os.Remove(spec)
		var rest []c11Indexed
		first := true
		for _, it := range pending {
			if answered[it.Index] {
				continue
			}
			if first && werr != nil {
				first = false
				msg := stderr.String()
				key := "process-died"
				switch {
				case strings.Contains(msg, "concurrent map"):
					key = "concurrent-map-access"
				case strings.Contains(msg, "panic:"):
					key = "worker-panic"
				}
				if code, ok := werr.(*exec.ExitError); ok && code.ExitCode() == 3 {
					return nil, fmt.Errorf("child set-up failed: %s", c11Tail(msg, 600))
				}
				died++
				c.Violate(key, "the process running the sink invocations died: "+c11Tail(c11Relevant(msg), 700), it.Job)
				c.Count(fmt.Sprint(it.Index), true, it.Job)
				continue
			}
			rest = append(rest, it)
		}
		if werr == nil && len(rest) == len(pending) {
			return nil, fmt.Errorf("child answered nothing: %s", c11Tail(stderr.String(), 600))
		}
		pending = rest
		if round > 50 {
			c.Notes = append(c.Notes, "gave up restarting child processes after 50 rounds")
			break
		}
	}
	return results, nil
}

func c11Tail(s string, n int) string {
	if len(s) > n {
		return "..." + s[len(s)-n:]
	}
	return s
}

// c11Relevant cuts the pool's "queue is filling up" chatter and keeps the head of a crash report.
func c11Relevant(s string) string {
	s = strings.ReplaceAll(s, "Warning: The thread pool queue is filling up ...", "")
	for _, marker := range []string{"fatal error:", "panic:"} {
		if i := strings.Index(s, marker); i >= 0 {
			s = s[i:]
			break
		}
	}
	if len(s) > 700 {
		s = s[:700]
	}
	return s
}

func c11CoqObs(o c11Obs) string {
	res := "RNone"
	if o.HasErr {
		env := 0
		if o.Env >= 0 {
			env = o.Env
		}
		res = fmt.Sprintf("(RErr %d %d %d %d %d)", o.Class, o.Ty, o.Detail, o.Data, env)
	}
	es := make([]string, len(o.Echo))
	for k, e := range o.Echo {
		q := e
		for x := range q {
			if q[x] < 0 {
				q[x] = 9009
			}
		}
		es[k] = fmt.Sprintf("E %d %d %d %d", q[0], q[1], q[2], q[3])
	}
	return fmt.Sprintf("mkO %s %s", res, CoqList(es))
}

func c11CoqPay(e c11Event) string {
	return fmt.Sprintf("P %d %d %d %d %d", e.ID, e.Kind, e.Ty, e.Detail, e.Data)
}

// c11CoqOuter: the global variable `event` before and after (0 0 when the variant declares none).
func c11CoqOuter(j c11Job, r c11Result) string {
	if j.Variant < 1 {
		return "0 0"
	}
	return fmt.Sprintf("%d %d", c11Sentinel, r.OuterAfter)
}

// c11CoqCase: one enforced schedule = one case.
func c11CoqCase(id int, j c11Job, r c11Result) string {
	ps := make([]string, len(j.Events))
	for i, e := range j.Events {
		ps[i] = c11CoqPay(e)
	}
	ds := make([]string, len(j.Dirs))
	for i, d := range j.Dirs {
		ds[i] = fmt.Sprintf("D %d %d", d[0], d[1])
	}
	os_ := make([]string, len(r.Obs))
	for i, o := range r.Obs {
		os_[i] = c11CoqObs(o)
	}
	return fmt.Sprintf("mkCase %d %s %s %s %s", id, CoqList(ps), CoqList(ds), CoqList(os_), c11CoqOuter(j, r))
}

// c11RepoDir is the directory of the ecal module this binary was built against.
func c11RepoDir() string {
	if bi, ok := debug.ReadBuildInfo(); ok {
		for _, d := range bi.Deps {
			if d.Path == "github.com/krotik/ecal" && d.Replace != nil {
				return d.Replace.Path
			}
		}
	}
	if r := os.Getenv("VERIF_REPO"); r != "" {
		return r
	}
	return "/repo"
}

// c11Static re-runs the closure scan (translator/sinkclosure) on the tree under check.
func c11Static(c *Ctx) error {
	repo := c11RepoDir()
	tdir, _ := filepath.Abs(filepath.Join("..", "translator"))
	cmd := exec.Command("go", "run", "-tags", "verif", "./sinkclosure", "-repo", repo, "-print")
	cmd.Dir = tdir
	var stderr bytes.Buffer
	cmd.Stderr = &stderr
	b, err := cmd.Output()
	if err != nil {
		return fmt.Errorf("closure scan of %s failed: %v %s", repo, err, c11Tail(stderr.String(), 500))
	}
	names := strings.Fields(string(b))
	c.Extra["captured_writes"] = names
	c.Extra["scanned_tree"] = repo
	job := c11Job{Mode: "static", Static: names}
	if len(names) > 0 {
		c.Violate("captured-write", fmt.Sprintf("the rule.Action literal in interpreter/rt_sink.go writes variables declared outside of it (shared by all invocations of the sink): %v", names), job)
	}
	c.Count("static", true, job)
	return nil
}

// c11Race: supporting evidence only (never a verdict): one free-running stream under the Go
// race detector; reports with a frame in the anchored files are counted and noted.
func c11Race(c *Ctx) {
	hdir, _ := filepath.Abs(".")
	bin := filepath.Join(c.Out, "c11-race.bin")
	args := []string{"build", "-race", "-tags", "verif c11", "-o", bin}
	if mf := filepath.Join(filepath.Dir(c.Out), "harness.mod"); c11RepoDir() != "/repo" {
		if _, err := os.Stat(mf); err == nil {
			args = append(args, "-modfile="+mf)
		}
	}
	cmd := exec.Command("go", append(args, ".")...)
	cmd.Dir = hdir
	cmd.Env = append(os.Environ(), "CGO_ENABLED=1")
	if out, err := cmd.CombinedOutput(); err != nil {
		c.Notes = append(c.Notes, "race detector not available: "+c11Tail(string(out), 300))
		return
	}
	defer os.Remove(bin)
	spec := filepath.Join(c.Out, "c11_jobs_race.tmp")
	jobs := []c11Indexed{{0, c11Job{Mode: "free", Workers: 8, N: c.Pick(300, 1500), Seed: c.Seed*1000 + 77, Sinks: 1}}}
	b, _ := json.Marshal(jobs)
	os.WriteFile(spec, b, 0o644)
	defer os.Remove(spec)
	run := exec.Command(bin, "C11", "-out", c.Out, "-tier", c.Tier, "-seed", fmt.Sprint(c.Seed))
	run.Env = append(os.Environ(), "VERIF_C11_CHILD="+spec, "GORACE=halt_on_error=0 history_size=2")
	var stderr bytes.Buffer
	run.Stderr = &stderr
	run.Stdout = nil
	run.Run()
	reports := strings.Split(stderr.String(), "WARNING: DATA RACE")
	anchored, elsewhere := 0, 0
	files := map[string]int{}
	for _, r := range reports[1:] {
		hit := false
		for _, f := range []string{"interpreter/rt_sink.go", "interpreter/rt_func.go", "interpreter/rt_identifier.go", "scope/varsscope.go"} {
			if strings.Contains(r, f) {
				hit = true
				files[f]++
			}
		}
		if hit {
			anchored++
		} else {
			elsewhere++
		}
	}
	c.Extra["race_detector"] = map[string]interface{}{"reports_in_anchored_files": anchored, "reports_elsewhere": elsewhere, "by_file": files}
	if anchored > 0 {
		c.Notes = append(c.Notes, fmt.Sprintf("supporting evidence: the Go race detector reported %d data races with frames in the anchored files %v", anchored, files))
	}
}

// c11Chains: the hold points an invocation can be asked to stop at, ending with "returned".
var c11Chains = [][]int{{8}, {4, 8}, {7, 8}, {4, 7, 8}}

// c11Merges enumerates all interleavings of the chains (one per invocation).
func c11Merges(chains [][]int) [][][2]int {
	var res [][][2]int
	pos := make([]int, len(chains))
	var cur [][2]int
	var rec func()
	rec = func() {
		doneAll := true
		for i, ch := range chains {
			if pos[i] < len(ch) {
				doneAll = false
				cur = append(cur, [2]int{i, ch[pos[i]]})
				pos[i]++
				rec()
				pos[i]--
				cur = cur[:len(cur)-1]
			}
		}
		if doneAll {
			res = append(res, append([][2]int{}, cur...))
		}
	}
	rec()
	return res
}

func c11Jobs(c *Ctx) []c11Job {
	var jobs []c11Job
	ctl := func(name string, workers int, dirs [][2]int, evs ...c11Event) {
		jobs = append(jobs, c11Job{Mode: "controlled", Name: name, Workers: workers, Events: evs, Dirs: dirs})
	}
	// corpus first: the witnesses of the repaired defect (F17) and close relatives
	ctl("A fails, held before return; B succeeds completely; A returns", 2, [][2]int{{0, 7}, {1, 8}, {0, 8}}, c11Payload(1, 1, 0), c11Payload(2, 0, 0))
	ctl("A succeeds, held before return; B fails completely; A returns", 2, [][2]int{{0, 7}, {1, 8}, {0, 8}}, c11Payload(1, 0, 0), c11Payload(2, 1, 0))
	ctl("A fails, held before return; B fails differently; A returns", 2, [][2]int{{0, 7}, {1, 8}, {0, 8}}, c11Payload(1, 1, 0), c11Payload(2, 1, 0))
	ctl("A fails (runtime error), held before return; B returns a value; A returns", 2, [][2]int{{0, 7}, {1, 8}, {0, 8}}, c11Payload(1, 2, 0), c11Payload(2, 3, 0))
	ctl("A held inside the body; B completely; A continues", 2, [][2]int{{0, 4}, {1, 8}, {0, 8}}, c11Payload(1, 1, 0), c11Payload(2, 0, 0))
	ctl("A held inside the body; B held before return; A returns; B returns", 2, [][2]int{{0, 4}, {1, 7}, {0, 8}, {1, 8}}, c11Payload(1, 0, 0), c11Payload(2, 1, 0))
	ctl("different sinks: A fails, held before return; B succeeds; A returns", 2, [][2]int{{0, 7}, {1, 8}, {0, 8}}, c11Payload(1, 1, 0), c11Payload(2, 0, 1))
	jobs = append(jobs, c11Job{Mode: "controlled", Name: "a global variable `event` exists: A fails, held inside the body; B succeeds completely; A continues", Workers: 2, Variant: 1,
		Dirs: [][2]int{{0, 4}, {1, 8}, {0, 8}}, Events: []c11Event{c11Payload(1, 1, 0), c11Payload(2, 0, 0)}})
	jobs = append(jobs, c11Job{Mode: "free", Name: "global bookkeeping from nested blocks, 8 workers", Workers: 8, N: 120, Seed: 11, Sinks: 2, Variant: 2, Loop: 24, Note: c11FreeNote})

	// all enforced schedules of two invocations x outcome pairs x same/different sink
	kindPairs := [][2]int{{1, 0}, {0, 1}, {1, 2}, {3, 1}}
	if c.Thorough() {
		kindPairs = nil
		for a := 0; a < 4; a++ {
			for b := 0; b < 4; b++ {
				kindPairs = append(kindPairs, [2]int{a, b})
			}
		}
	}
	shapes := 0
	for _, ca := range c11Chains {
		for _, cb := range c11Chains {
			for _, dirs := range c11Merges([][]int{ca, cb}) {
				shapes++
				for sinks := 0; sinks < 2; sinks++ {
					for _, kp := range kindPairs {
						ctl("", 2, dirs, c11Payload(1, kp[0], 0), c11Payload(2, kp[1], sinks))
					}
				}
			}
		}
	}
	c.Extra["two_invocation_schedules"] = shapes
	// the same schedules with a global variable `event` (variant 1) and with global
	// bookkeeping from nested blocks (variant 2)
	vk := 0
	for _, ca := range c11Chains {
		for _, cb := range c11Chains {
			for _, dirs := range c11Merges([][]int{ca, cb}) {
				vk++
				kps := [][2]int{{1, 0}, {0, 1}}
				if c.Thorough() {
					kps = kindPairs
				}
				for _, kp := range kps {
					jobs = append(jobs, c11Job{Mode: "controlled", Workers: 2, Dirs: dirs, Variant: 1,
						Events: []c11Event{c11Payload(1, kp[0], 0), c11Payload(2, kp[1], 0)}})
				}
				kp := kindPairs[vk%len(kindPairs)]
				jobs = append(jobs, c11Job{Mode: "controlled", Workers: 2, Dirs: dirs, Variant: 2, Loop: 2,
					Events: []c11Event{c11Payload(1, kp[0], 0), c11Payload(2, kp[1], vk%2)}})
			}
		}
	}
	// random enforced schedules of three and four invocations
	for i := 0; i < c.Pick(150, 3000); i++ {
		n := 3 + c.Rng.Intn(2)
		chains := make([][]int, n)
		evs := make([]c11Event, n)
		for k := 0; k < n; k++ {
			chains[k] = c11Chains[c.Rng.Intn(len(c11Chains))]
			evs[k] = c11Payload(k+1, c.Rng.Intn(4), c.Rng.Intn(2))
		}
		// one random merge
		pos := make([]int, n)
		var dirs [][2]int
		for {
			var open []int
			for k := 0; k < n; k++ {
				if pos[k] < len(chains[k]) {
					open = append(open, k)
				}
			}
			if len(open) == 0 {
				break
			}
			k := open[c.Rng.Intn(len(open))]
			dirs = append(dirs, [2]int{k, chains[k][pos[k]]})
			pos[k]++
		}
		ctl("", n, dirs, evs...)
	}
	// free-running overlap: per worker count streams of every script variant
	for _, w := range []int{2, 3, 4, 8, 16} {
		for s := 0; s < c.Pick(3, 9); s++ {
			j := c11Job{Mode: "free", Workers: w, N: c.Pick(200, 1000), Seed: c.Seed*1000 + int64(w*100+s),
				Sinks: 1 + (s/3+s)%2, Burst: s%2 == 1, Variant: s % 3, Note: c11FreeNote}
			if j.Variant == 2 {
				j.Loop = 24
				j.N = c.Pick(200, 600)
			}
			jobs = append(jobs, j)
		}
	}
	// cold starts: a fresh program per job, every event fails through interpolated literals, the
	// first evaluations overlap (burst)
	nc := c.Pick(48, 400)
	for i := 0; i < nc; i++ {
		w := []int{2, 3, 4, 8, 16}[i%5]
		jobs = append(jobs, c11Job{Mode: "free", Workers: w, N: 2*w + 2, Seed: c.Seed*1000 + 7000 + int64(i), Sinks: 1 + i%2,
			Burst: true, Interp: true, Note: c11FreeNote})
	}
	c.Extra["cold_start_jobs"] = nc
	return jobs
}

func c11Emit(c *Ctx, j c11Job, r c11Result, okRes bool) {
	key, _ := json.Marshal(j)
	if !okRes {
		return
	}
	if strings.HasPrefix(r.Problem, "no-progress") {
		c.Violate("no-progress", "overlapping sink invocations did not finish: "+r.Problem, j)
		c.Count(string(key), true, j)
		return
	}
	if r.Problem != "" {
		c.Notes = append(c.Notes, "job not run: "+r.Problem)
		return
	}
	evs := j.Events
	if j.Mode == "free" {
		evs = c11FreeEvents(j)
	}
	failing := 0
	for _, e := range evs {
		if e.Kind != 0 {
			failing++
		}
		c.Dist[fmt.Sprintf("event_kind_%d", e.Kind)]++
	}
	c.Dist["mode_"+j.Mode]++
	c.Dist[fmt.Sprintf("variant_%d_%s", j.Variant, j.Mode)]++
	c.Dist[fmt.Sprintf("workers_%d", j.Workers)]++
	if j.Variant >= 2 && (r.Counter != r.CounterWant || r.MapBad != 0) {
		// oracle without a model: updates of global variables made inside nested blocks
		c.Violate("shared-globals", fmt.Sprintf("global bookkeeping done by overlapping invocations from inside nested blocks is wrong: the counter incremented only inside `mutex cnt { }` is %d, expected %d; %d events do not find their own key of the global map", r.Counter, r.CounterWant, r.MapBad), j)
	}
	if j.Variant >= 1 && r.OuterAfter != c11Sentinel && r.OuterNote != "" {
		c.Notes = append(c.Notes, "global `event` after the job: "+r.OuterNote)
	}
	c.Dist["invocations"] += len(evs)
	if r.Nudges > 0 {
		c.Dist["pool_nudges"] += r.Nudges
	}
	if j.Mode == "free" {
		// by the theorem the observation of an invocation is a function of its own event under
		// every schedule: every event of the stream is a case of its own (cheap to evaluate)
		if len(r.Obs) != len(evs) {
			c.Violate("no-progress", fmt.Sprintf("%d observations for %d events", len(r.Obs), len(evs)), j)
			return
		}
		for i, e := range evs {
			id := c.NewID()
			term := fmt.Sprintf("mkCase %d [%s] [] [%s] %s", id, c11CoqPay(e), c11CoqObs(r.Obs[i]), c11CoqOuter(j, r))
			c.AddCase(id, term, j, fmt.Sprintf("%s#%d", key, i), e.Kind != 0)
		}
		return
	}
	id := c.NewID()
	c.AddCase(id, c11CoqCase(id, j, r), j, string(key), failing > 0 && len(evs) > 1)
}

func runC11(c *Ctx) error {
	if spec := os.Getenv("VERIF_C11_CHILD"); spec != "" {
		c11Child(spec) // does not return
	}
	c.Rule = "overlapping invocations of sinks whose body echoes `event` through locals and a shared global function and then succeeds / raises (type, detail, data) / hits a runtime error / returns a value as the event's payload dictates: (1) every enforced schedule of two invocations over the hold points {inside the body, before `return err`, returned} x outcome pairs x same/different sink on 2 workers, random enforced schedules of 3-4 invocations; (2) free-running streams on 2,3,4,8,16 workers (feeders with AddEventAndWait or bursts of AddEvent, one root monitor per event); (3) the closure scan of the tree under check.  Observed per event: the error recorded by its monitor (class, type, detail, data, `event` of the attached scope) and the values reported under its monitor; non-trivial = at least two invocations, one of them failing; distinct by job description"
	c.BeginCases("From Coq Require Import List NArith.\nImport ListNotations.\nFrom Ecal Require Import Model.SinkInv Run.RunC11.", "case", c.Pick(300, 1500))

	if c.Replay != "" {
		var j c11Job
		if err := c.LoadReplay(&j); err != nil {
			return err
		}
		if j.Mode == "static" {
			return c11Static(c)
		}
		res, err := c11RunJobs(c, []c11Job{j})
		if err != nil {
			return err
		}
		if r, ok := res[0]; ok {
			if r.HookMissing {
				return fmt.Errorf("the observation point sink.action.evaluated is not present in the tree under check (fixes/hooks-C11.patch)")
			}
			c11Emit(c, j, r, true)
		}
		return nil
	}

	if err := c11Static(c); err != nil {
		return err
	}
	jobs := c11Jobs(c)
	res, err := c11RunJobs(c, jobs)
	if err != nil {
		return err
	}
	for i, j := range jobs {
		r, ok := res[i]
		if ok && r.HookMissing {
			return fmt.Errorf("the observation point sink.action.evaluated is not present in the tree under check (fixes/hooks-C11.patch)")
		}
		c11Emit(c, j, r, ok)
	}
	if c.Thorough() || os.Getenv("VERIF_C11_RACE") != "" {
		c11Race(c)
	}
	c.Exhaustive = false
	return nil
}
