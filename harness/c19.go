//go:build c19

package main

// C19 — the Go function bridge (stdlib.ECALFunctionAdapter).  Implementation side: synthetic
// Go functions of every parameter / result shape are wrapped by stdlib.NewECALFunctionAdapter
// and called (a) directly through Run and (b) from ECAL programs `c19.<name>(<literals>)`,
// the functions of the generated stdlib are called from ECAL programs.  Observables: class
// of the outcome (value / the Go function's own error / another error; a panic leaving Run is
// a violation seen here), the canonicalised result and the parameters the Go function was
// entered with.  The signature handed to the model is derived from the function's
// reflect.Type, only the behaviour term is written next to the function.

import (
	"errors"
	"fmt"
	"math"
	"reflect"
	"sort"
	"strconv"
	"strings"
	"time"
	"unicode"

	"github.com/krotik/ecal/parser"
	"github.com/krotik/ecal/scope"
	"github.com/krotik/ecal/stdlib"
	"github.com/krotik/ecal/util"
)

func init() { register("C19", runC19) }

// ---------------------------------------------------------------- recorder

var (
	c19entered bool
	c19recv    []interface{}
)

// c19recOff: set while several goroutines call bridged functions at the same time (history
// stream, c19_history.go); the recorder is a pair of globals and is not used then
var c19recOff bool

func c19enter(a ...interface{}) {
	if c19recOff {
		return
	}
	c19entered = true
	c19recv = a
}

const c19errText = "c19-callee-error-7f3a91"

var c19err = errors.New(c19errText)

// c19nilErr: a nil *c19nilErr returned as error is a non-nil error value whose Error method panics
type c19nilErr struct{ msg string }

func (e *c19nilErr) Error() string { return e.msg }

// c19msg: the message of an error, computed the way fmt does (a panicking Error method is contained)
func c19msg(err error) string { return fmt.Sprint(err) }

func c19isCalleeError(err error) bool {
	if _, ok := err.(*c19nilErr); ok {
		return true
	}
	return errors.Is(err, c19err) || strings.Contains(c19msg(err), c19errText)
}

// ---------------------------------------------------------------- canonical Coq terms

func c19num(f float64) string {
	b := math.Float64bits(f)
	neg := b>>63 == 1
	exp := int((b >> 52) & 0x7ff)
	man := b & (1<<52 - 1)
	switch {
	case exp == 0x7ff && man != 0:
		return "S754_nan"
	case exp == 0x7ff:
		return "(S754_infinity " + CoqBool(neg) + ")"
	case exp == 0 && man == 0:
		return "(S754_zero " + CoqBool(neg) + ")"
	}
	e := exp - 1075
	if exp == 0 {
		e = -1074
	} else {
		man |= 1 << 52
	}
	for man&1 == 0 {
		man >>= 1
		e++
	}
	es := fmt.Sprint(e)
	if e < 0 {
		es = "(" + es + ")"
	}
	return fmt.Sprintf("(F %s %d %s)", CoqBool(neg), man, es)
}

func c19z(s string) string {
	if strings.HasPrefix(s, "-") {
		return "(" + s + ")"
	}
	return s
}

func c19bytes(s string) string {
	if s == "" {
		return "[]"
	}
	p := make([]string, len(s))
	for i := 0; i < len(s); i++ {
		p[i] = fmt.Sprintf("%d%%N", s[i])
	}
	return "[" + strings.Join(p, ";") + "]"
}

var c19kinds = map[reflect.Kind]string{
	reflect.Int: "KInt", reflect.Int8: "KInt8", reflect.Int16: "KInt16", reflect.Int32: "KInt32", reflect.Int64: "KInt64",
	reflect.Uint: "KUint", reflect.Uint8: "KUint8", reflect.Uint16: "KUint16", reflect.Uint32: "KUint32",
	reflect.Uint64: "KUint64", reflect.Uintptr: "KUintptr",
}

var c19errType = reflect.TypeOf((*error)(nil)).Elem()

// c19type renders a Go type as a gtype term ("" when the model has no such type).
func c19type(t reflect.Type) string {
	if k, ok := c19kinds[t.Kind()]; ok && t.PkgPath() == "" {
		return "(TInt " + k + ")"
	}
	switch {
	case t == c19errType:
		return "TErr"
	case t.Kind() == reflect.Interface && t.NumMethod() == 0:
		return "TIface"
	case t == reflect.TypeOf(float32(0)):
		return "TF32"
	case t == reflect.TypeOf(float64(0)):
		return "TF64"
	case t == reflect.TypeOf(""):
		return "TStr"
	case t == reflect.TypeOf(true):
		return "TBool"
	case t == reflect.TypeOf(map[interface{}]interface{}{}):
		return "TMap"
	case t.Kind() == reflect.Slice:
		if e := c19type(t.Elem()); e != "" {
			return "(TSlice " + e + ")"
		}
	}
	return ""
}

func c19sig(t reflect.Type) (string, bool) {
	var ins, outs []string
	for i := 0; i < t.NumIn(); i++ {
		s := c19type(t.In(i))
		if s == "" {
			return "", false
		}
		ins = append(ins, s)
	}
	for i := 0; i < t.NumOut(); i++ {
		s := c19type(t.Out(i))
		if s == "" {
			return "", false
		}
		outs = append(outs, s)
	}
	return fmt.Sprintf("(mkSig %s %s %s)", CoqList(ins), CoqBool(t.IsVariadic()), CoqList(outs)), true
}

// c19val renders a Go value as a gval term.
func c19val(v interface{}) string {
	if v == nil {
		return "GNil"
	}
	switch x := v.(type) {
	case bool:
		return "(GBool " + CoqBool(x) + ")"
	case float64:
		return "(GF64 " + c19num(x) + ")"
	case float32:
		return "(GF32 " + c19num(float64(x)) + ")"
	case string:
		return "(GStr " + c19bytes(x) + ")"
	case map[interface{}]interface{}:
		return "(GMap 1%N)"
	case util.ECALFunction:
		return "(GFunc 1%N)"
	case error:
		if errors.Is(x, c19err) {
			return "(GErr 1%N)"
		}
		return "(GErr 2%N)"
	}
	rv := reflect.ValueOf(v)
	if k, ok := c19kinds[rv.Kind()]; ok && rv.Type().PkgPath() == "" {
		if rv.CanInt() {
			return "(GInt " + k + " " + c19z(strconv.FormatInt(rv.Int(), 10)) + ")"
		}
		return "(GInt " + k + " " + strconv.FormatUint(rv.Uint(), 10) + ")"
	}
	if rv.Kind() == reflect.Slice {
		if e := c19type(rv.Type().Elem()); e != "" {
			items := make([]string, rv.Len())
			for i := range items {
				items[i] = c19val(rv.Index(i).Interface())
			}
			return "(GSlice " + e + " " + c19list(items) + ")"
		}
	}
	return "(GFunc 99%N)"
}

// c19list renders a list of gval terms with the monomorphic builders of Run/RunC19.v
// (L0..L4, LC): no implicit arguments to infer, much cheaper for coqc than [a;b;c]
func c19list(items []string) string {
	switch {
	case len(items) == 0:
		return "L0"
	case len(items) <= 4:
		return fmt.Sprintf("(L%d %s)", len(items), strings.Join(items, " "))
	}
	return "(LC " + items[0] + " " + c19list(items[1:]) + ")"
}

func c19vals(vs []interface{}) string {
	items := make([]string, len(vs))
	for i, v := range vs {
		items[i] = c19val(v)
	}
	return c19list(items)
}

// ---------------------------------------------------------------- value pool

type c19pv struct {
	Name string      // Coq identifier defined in the header
	Val  interface{} // Go value handed to Run
	Lit  string      // ECAL expression evaluating to the same value
}

var c19map = map[interface{}]interface{}{float64(1): float64(2)}
var c19fobj = &goFunc{func(args []interface{}) (interface{}, error) { return nil, nil }}

var c19pool = []c19pv{
	{"v_null", nil, "null"},
	{"v_true", true, "true"},
	{"v_0", float64(0), "0"},
	{"v_1", float64(1), "1"},
	{"v_m1", float64(-1), "-1"},
	{"v_1h", float64(1.5), "1.5"},
	{"v_255", float64(255), "255"},
	{"v_256", float64(256), "256"},
	{"v_1e10", float64(1e10), "10000000000"},
	{"v_m1e10", float64(-1e10), "-10000000000"},
	{"v_s", "s", "\"s\""},
	{"v_list", []interface{}{float64(1), "a"}, "[1, \"a\"]"},
	{"v_map", c19map, "{1:2}"},
	{"v_func", c19fobj, "c19f"},
}

// reduced pool for the stdlib stream (indices into c19pool)
var c19small = []int{0, 3, 5, 10, 1, 7, 11, 12}

// ---------------------------------------------------------------- synthetic functions

type c19fn struct {
	Name string
	F    interface{}
	Beh  string // beh term
	sig  string
	ad   *stdlib.ECALFunctionAdapter
	nin  int
	ecal string // name under which it is registered in the ECAL stdlib package c19 (no '_' in ECAL identifiers)
	hist bool   // used by the history stream only (c19_history.go), not by the exhaustive sweep
}

func c19echo[T any]() interface{} { return func(a T) T { c19enter(a); return a } }

func c19funcs() []*c19fn {
	echo := "(BRet [RArg 0])"
	fs := []*c19fn{
		{Name: "e_int", F: c19echo[int](), Beh: echo},
		{Name: "e_int8", F: c19echo[int8](), Beh: echo},
		{Name: "e_int16", F: c19echo[int16](), Beh: echo},
		{Name: "e_int32", F: c19echo[int32](), Beh: echo},
		{Name: "e_int64", F: c19echo[int64](), Beh: echo},
		{Name: "e_uint", F: c19echo[uint](), Beh: echo},
		{Name: "e_uint8", F: c19echo[uint8](), Beh: echo},
		{Name: "e_uint16", F: c19echo[uint16](), Beh: echo},
		{Name: "e_uint32", F: c19echo[uint32](), Beh: echo},
		{Name: "e_uint64", F: c19echo[uint64](), Beh: echo},
		{Name: "e_uintptr", F: c19echo[uintptr](), Beh: echo},
		{Name: "e_float32", F: c19echo[float32](), Beh: echo},
		{Name: "e_float64", F: c19echo[float64](), Beh: echo},
		{Name: "e_string", F: c19echo[string](), Beh: echo},
		{Name: "e_bool", F: c19echo[bool](), Beh: echo},
		{Name: "e_iface", F: c19echo[interface{}](), Beh: echo},
		{Name: "e_list", F: c19echo[[]interface{}](), Beh: echo},
		{Name: "e_map", F: c19echo[map[interface{}]interface{}](), Beh: echo},
		{Name: "e_strs", F: c19echo[[]string](), Beh: echo},
		{Name: "e_err", F: func(e error) string { c19enter(e); return "e" }, Beh: "(BRet [RConst (GStr [101%N])])"},
		{Name: "none", F: func() { c19enter() }, Beh: "(BRet [])"},
		{Name: "c_int", F: func() int { c19enter(); return 7 }, Beh: "(BRet [RConst (GInt KInt 7)])"},
		{Name: "c_iface_int", F: func() interface{} { c19enter(); return 5 }, Beh: "(BRet [RConst (GInt KInt 5)])"},
		{Name: "c_u64max", F: func() uint64 { c19enter(); return math.MaxUint64 }, Beh: "(BRet [RConst (GInt KUint64 18446744073709551615)])"},
		{Name: "c_i64big", F: func() int64 { c19enter(); return 1<<53 + 1 }, Beh: "(BRet [RConst (GInt KInt64 9007199254740993)])"},
		{Name: "c_i64odd", F: func() int64 { c19enter(); return 1<<62 + 1<<9 + 1<<8 }, Beh: "(BRet [RConst (GInt KInt64 4611686018427388672)])"},
		{Name: "c_i64min", F: func() int64 { c19enter(); return math.MinInt64 }, Beh: "(BRet [RConst (GInt KInt64 (-9223372036854775808))])"},
		{Name: "c_f32", F: func() float32 { c19enter(); return float32(0.1) }, Beh: "(BRet [RConst (GF32 " + c19num(float64(float32(0.1))) + ")])"},
		{Name: "c_multi", F: func() (int8, uint16, float32, float64, string, bool) { c19enter(); return -3, 65535, 0.5, 2.25, "x", true },
			Beh: "(BRet [RConst (GInt KInt8 (-3)); RConst (GInt KUint16 65535); RConst (GF32 " + c19num(0.5) + "); RConst (GF64 " + c19num(2.25) + "); RConst (GStr [120%N]); RConst (GBool true)])"},
		{Name: "swap", F: func(a int, b string) (string, int) { c19enter(a, b); return b, a }, Beh: "(BRet [RArg 1; RArg 0])"},
		{Name: "two_f64", F: func(a, b float64) float64 { c19enter(a, b); return a }, Beh: echo},
		{Name: "three", F: func(a int8, b uint16, c float32) (float32, uint16, int8) { c19enter(a, b, c); return c, b, a }, Beh: "(BRet [RArg 2; RArg 1; RArg 0])"},
		{Name: "three_ref", F: func(a []interface{}, b map[interface{}]interface{}, c bool) (bool, map[interface{}]interface{}, []interface{}) {
			c19enter(a, b, c)
			return c, b, a
		}, Beh: "(BRet [RArg 2; RArg 1; RArg 0])"},
		{Name: "var_iface", F: func(a ...interface{}) []interface{} { c19enter(a); return a }, Beh: echo},
		{Name: "str_var_iface", F: func(a string, b ...interface{}) (string, []interface{}) { c19enter(a, b); return a, b }, Beh: "(BRet [RArg 0; RArg 1])"},
		{Name: "u8_var_iface", F: func(a uint8, b ...interface{}) (uint8, []interface{}) { c19enter(a, b); return a, b }, Beh: "(BRet [RArg 0; RArg 1])"},
		{Name: "var_str", F: func(a ...string) int { c19enter(a); return 3 }, Beh: "(BRet [RConst (GInt KInt 3)])"},
		{Name: "int_var_int", F: func(a int, b ...int) int { c19enter(a, b); return a }, Beh: echo},
		{Name: "var_list", F: func(a ...[]interface{}) int { c19enter(a); return 4 }, Beh: "(BRet [RConst (GInt KInt 4)])"},
		{Name: "err_nil", F: func(a int) (int, error) { c19enter(a); return a, nil }, Beh: "(BRet [RArg 0; RConst GNil])"},
		{Name: "err_set", F: func(a int) (int, error) { c19enter(a); return a, c19err }, Beh: "(BRet [RArg 0; RConst (GErr 1%N)])"},
		{Name: "only_err_nil", F: func() error { c19enter(); return nil }, Beh: "(BRet [RConst GNil])"},
		{Name: "only_err_set", F: func() error { c19enter(); return c19err }, Beh: "(BRet [RConst (GErr 1%N)])"},
		{Name: "f64_err_set", F: func(a float64, b string) (float64, string, error) { c19enter(a, b); return a, b, c19err }, Beh: "(BRet [RArg 0; RArg 1; RConst (GErr 1%N)])"},
		// witness of fixes/C19-typed-nil-error: the error value's Error method panics
		{Name: "err_typed_nil", F: func() error { c19enter(); var e *c19nilErr; return e }, Beh: "(BRet [RConst (GErr 2%N)])"},
		{Name: "err_not_last", F: func() (error, int) { c19enter(); return c19err, 1 }, Beh: "(BRet [RConst (GErr 1%N); RConst (GInt KInt 1)])"},
		{Name: "panic_str", F: func(a int) int { c19enter(a); panic("boom") }, Beh: "BPanic"},
		{Name: "panic_rt", F: func(a string) string { c19enter(a); var m map[string]int; m[a] = 1; return a }, Beh: "BPanic"},
		{Name: "panic_nil", F: func() { c19enter(); panic(nil) }, Beh: "BPanic"},
		{Name: "panic_err", F: func(a ...interface{}) { c19enter(a); panic(errors.New("an error value as panic value")) }, Beh: "BPanic"},
		{Name: "panic_idx", F: func(a []interface{}) interface{} { c19enter(a); return a[5] }, Beh: "BPanic"},
	}
	fs = append(fs, c19histFuncs()...)
	for i, f := range fs {
		f.ecal = fmt.Sprintf("f%d", i)
		t := reflect.TypeOf(f.F)
		s, ok := c19sig(t)
		if !ok {
			panic("c19: signature of " + f.Name + " has no model type")
		}
		f.sig = s
		f.nin = t.NumIn()
		f.ad = stdlib.NewECALFunctionAdapter(reflect.ValueOf(f.F), "c19 synthetic function "+f.Name)
	}
	return fs
}

// the generated stdlib: ECAL name -> the Go function it bridges (for the signature only)
var c19math = []interface{}{
	"Abs", math.Abs, "Acos", math.Acos, "Acosh", math.Acosh, "Asin", math.Asin, "Asinh", math.Asinh, "Atan", math.Atan,
	"Atan2", math.Atan2, "Atanh", math.Atanh, "Cbrt", math.Cbrt, "Ceil", math.Ceil, "Copysign", math.Copysign,
	"Cos", math.Cos, "Cosh", math.Cosh, "Dim", math.Dim, "Erf", math.Erf, "Erfc", math.Erfc, "Erfcinv", math.Erfcinv,
	"Erfinv", math.Erfinv, "Exp", math.Exp, "Exp2", math.Exp2, "Expm1", math.Expm1, "Floor", math.Floor,
	"Frexp", math.Frexp, "Gamma", math.Gamma, "Hypot", math.Hypot, "Ilogb", math.Ilogb, "Inf", math.Inf,
	"IsInf", math.IsInf, "IsNaN", math.IsNaN, "J0", math.J0, "J1", math.J1, "Jn", math.Jn, "Ldexp", math.Ldexp,
	"Lgamma", math.Lgamma, "Log", math.Log, "Log10", math.Log10, "Log1p", math.Log1p, "Log2", math.Log2,
	"Logb", math.Logb, "Max", math.Max, "Min", math.Min, "Mod", math.Mod, "Modf", math.Modf, "NaN", math.NaN,
	"Nextafter", math.Nextafter, "Nextafter32", math.Nextafter32, "Pow", math.Pow, "Pow10", math.Pow10,
	"Remainder", math.Remainder, "Round", math.Round, "RoundToEven", math.RoundToEven, "Signbit", math.Signbit,
	"Sin", math.Sin, "Sincos", math.Sincos, "Sinh", math.Sinh, "Sqrt", math.Sqrt, "Tan", math.Tan, "Tanh", math.Tanh,
	"Trunc", math.Trunc, "Y0", math.Y0, "Y1", math.Y1, "Yn", math.Yn,
}

func c19lowerFirst(s string) string {
	r := []rune(s)
	r[0] = unicode.ToLower(r[0])
	return string(r)
}

// ---------------------------------------------------------------- one call

type c19case struct {
	Fn   string   `json:"fn"`   // synthetic function name or "stdlib:math.floor"
	Args []string `json:"args"` // "p<i>" pool value i, "b<hex>" float64 with these bits
}

// c19hcase: a case of the history stream (c19_history.go): calls made one after the other by
// one goroutine (Fn "history") / by several goroutines at the same time, one list of calls per
// goroutine (Fn "history-par")
type c19hcase struct {
	Fn  string      `json:"fn"`
	Seq []c19step   `json:"seq,omitempty"`
	Par [][]c19step `json:"par,omitempty"`
}

type c19obs struct {
	cls     int // 0 ok, 1 the function's own error, 2 another error
	res     string
	entered bool
	recv    string
	bad     string // non-empty: a failure visible without the model
}

// c19guarded: the calls take microseconds; a time-out under a heavily loaded machine is
// scheduling starvation, so the call is repeated once with a very generous bound before it
// is reported as not terminating.
func c19guarded(f func() (interface{}, error)) callResult {
	r := guarded(20*time.Second, func() (interface{}, error) { c19entered, c19recv = false, nil; return f() })
	if r.TimedOut {
		time.Sleep(2 * time.Second)
		r = guarded(300*time.Second, func() (interface{}, error) { c19entered, c19recv = false, nil; return f() })
	}
	return r
}

func c19classify(r callResult) c19obs {
	var o c19obs
	switch {
	case r.TimedOut:
		o.bad = "nontermination"
	case r.Panicked:
		o.bad = "panic-escapes: " + r.PanicMsg
	case r.Err != nil:
		o.cls = 2
		if c19isCalleeError(r.Err) {
			o.cls = 1
		}
	default:
		o.res = c19val(r.Val)
	}
	o.entered = c19entered
	if c19entered {
		o.recv = c19vals(c19recv)
	}
	return o
}

func c19decode(a string) (interface{}, string, string, bool) {
	if strings.HasPrefix(a, "p") {
		i, err := strconv.Atoi(a[1:])
		if err != nil || i < 0 || i >= len(c19pool) {
			return nil, "", "", false
		}
		return c19pool[i].Val, c19pool[i].Name, c19pool[i].Lit, true
	}
	if strings.HasPrefix(a, "b") {
		b, err := strconv.ParseUint(a[1:], 16, 64)
		if err != nil {
			return nil, "", "", false
		}
		f := math.Float64frombits(b)
		return f, c19val(f), "", true
	}
	return nil, "", "", false
}

func c19ocls(o c19obs) string {
	switch o.cls {
	case 0:
		return "(OOk " + o.res + ")"
	case 1:
		return "OErrCallee"
	}
	return "OErr"
}

func c19recvTerm(o c19obs) string {
	if o.entered {
		return "(SomeL " + o.recv + ")"
	}
	return "NoneL"
}

// c19one runs one synthetic function on one argument vector, directly and (when every
// argument has an ECAL literal and viaEcal is set) from an ECAL program.
func c19one(c *Ctx, f *c19fn, desc c19case, emit bool, viaEcal bool) {
	args := make([]interface{}, len(desc.Args))
	terms := make([]string, len(desc.Args))
	lits := make([]string, len(desc.Args))
	haveLits := true
	for i, a := range desc.Args {
		v, t, l, ok := c19decode(a)
		if !ok {
			c.Notes = append(c.Notes, "undecodable argument "+a)
			return
		}
		args[i], terms[i], lits[i] = v, t, l
		if l == "" {
			haveLits = false
		}
	}
	key := desc.Fn + "(" + strings.Join(desc.Args, ",") + ")"
	argCopy := c19snap(args)
	r := c19guarded(func() (interface{}, error) {
		return f.ad.Run("c19", scope.NewScope(scope.GlobalScope), make(map[string]interface{}), 1, args)
	})
	o := c19classify(r)
	if o.bad != "" {
		c.Violate(strings.SplitN(o.bad, ":", 2)[0], "ECALFunctionAdapter.Run did not return: "+o.bad, desc)
		c.Count(key, true, desc)
		return
	}
	// history oracle (c19_history.go): the argument list handed in is the caller's; results
	// returned by earlier calls of the sweep are still what they were
	c19sweepAfter(c, c19step{desc.Fn, desc.Args}, args, argCopy, r, o)
	c.Dist[[]string{"run_ok", "run_callee_error", "run_other_error"}[o.cls]]++
	if viaEcal && haveLits {
		src := "func c19f() {\n return 1\n}\nc19." + f.ecal + "(" + strings.Join(lits, ", ") + ")"
		r2 := c19guarded(func() (interface{}, error) { return evalProgram("c19", src, nil, nil) })
		o2 := c19classify(r2)
		c.Dist["via_ecal"]++
		if o2.bad == "" {
			c19sweepAfter(c, c19step{desc.Fn, desc.Args}, nil, nil, r2, o2)
		}
		switch {
		case o2.bad != "":
			c.Violate(strings.SplitN(o2.bad, ":", 2)[0], "calling the bridged function from ECAL did not return: "+o2.bad+" program: "+src, desc)
			return
		case c19isParseError(r2.Err):
			c.Notes = append(c.Notes, "harness: generated ECAL program does not parse: "+src)
			c.Dist["harness_program_does_not_parse"]++
		case r2.Err != nil && !c19isRuntimeError(r2.Err):
			c.Violate("not-a-runtime-error", fmt.Sprintf("the error of an ECAL call of a bridged function is a %T, not a runtime error; program: %s", r2.Err, src), desc)
			return
		case f.Name == "err_typed_nil" && o2.cls != 0 && o.cls != 0 && o2.entered == o.entered:
			// the wrapped message ("<nil>") cannot identify the function's own error; both failed
		case o2.cls != o.cls || o2.res != o.res || o2.entered != o.entered || o2.recv != o.recv:
			c.Violate("ecal-call-differs", fmt.Sprintf("the ECAL call %q and ECALFunctionAdapter.Run on the same values differ: class %d/%d result %s / %s received %s / %s",
				src, o2.cls, o.cls, o2.res, o.res, o2.recv, o.recv), desc)
			return
		}
	}
	if !emit {
		// not handed to the model: beyond 'no panic leaves Run' (above) the Spec demands an error
		// without entering the function when there are more arguments than parameters or a
		// NULL among them (theorems C19_too_many_args_error, C19_null_argument_error)
		hasNil := false
		for _, a := range args {
			if a == nil {
				hasNil = true
			}
		}
		if (len(args) > f.nin || hasNil) && (o.cls == 0 || o.entered) {
			c.Violate("arity-or-null-accepted", "more arguments than parameters or a NULL argument, but the call succeeded or the function was entered", desc)
		}
		c.Count(key, o.entered, desc)
		return
	}
	id := c.NewID()
	term := fmt.Sprintf("mkCase %d s_%s b_%s %s %s %s", id, f.Name, f.Name, c19list(terms), c19ocls(o), c19recvTerm(o))
	c.AddCase(id, term, desc, key, o.entered)
}

func c19isParseError(err error) bool {
	_, ok := err.(*parser.Error)
	return ok
}

func c19isRuntimeError(err error) bool {
	switch err.(type) {
	case *util.RuntimeError, *util.RuntimeErrorWithDetail:
		return true
	}
	return false
}

// c19stdlib calls one function of the generated stdlib from an ECAL program.
func c19stdlib(c *Ctx, name string, sigTerm string, desc c19case) {
	terms := make([]string, len(desc.Args))
	lits := make([]string, len(desc.Args))
	for i, a := range desc.Args {
		_, t, l, ok := c19decode(a)
		if !ok || l == "" {
			return
		}
		terms[i], lits[i] = t, l
	}
	key := desc.Fn + "(" + strings.Join(desc.Args, ",") + ")"
	src := "func c19f() {\n return 1\n}\n" + name + "(" + strings.Join(lits, ", ") + ")"
	r := c19guarded(func() (interface{}, error) { return evalProgram("c19", src, nil, nil) })
	o := c19classify(r)
	switch {
	case o.bad != "":
		c.Violate(strings.SplitN(o.bad, ":", 2)[0], "calling the stdlib function from ECAL did not return: "+o.bad+" program: "+src, desc)
		c.Count(key, true, desc)
		return
	case c19isParseError(r.Err):
		c.Notes = append(c.Notes, "harness: generated ECAL program does not parse: "+src)
		c.Dist["harness_program_does_not_parse"]++
		return
	case r.Err != nil && !c19isRuntimeError(r.Err):
		c.Violate("not-a-runtime-error", fmt.Sprintf("the error of an ECAL call of a stdlib function is a %T; program: %s", r.Err, src), desc)
		return
	case r.Err == nil && c19hasGoNumber(r.Val):
		c.Violate("numeric-result-not-number", fmt.Sprintf("the ECAL call %q returned a Go number that is not a float64: %#v", src, r.Val), desc)
		return
	}
	c.Dist[[]string{"stdlib_ok", "stdlib_callee_error", "stdlib_other_error"}[o.cls]]++
	if sigTerm == "" {
		c.Dist["stdlib_without_signature"]++
		c.Count(key, o.cls == 0, desc)
		return
	}
	id := c.NewID()
	recv := "NoneL"
	if o.cls == 0 {
		recv = "(SomeL L0)" // a library function that returned was entered; what it received is not observable
	}
	term := fmt.Sprintf("mkCase %d %s BOpaque %s %s %s", id, sigTerm, c19list(terms), c19ocls(o), recv)
	c.AddCase(id, term, desc, key, o.cls == 0)
}

// c19hasGoNumber: an integer or float32 anywhere in a result (numbers must be float64)
func c19hasGoNumber(v interface{}) bool {
	switch x := v.(type) {
	case nil, float64, string, bool:
		return false
	case []interface{}:
		for _, e := range x {
			if c19hasGoNumber(e) {
				return true
			}
		}
		return false
	}
	k := reflect.ValueOf(v).Kind()
	_, isInt := c19kinds[k]
	return isInt || k == reflect.Float32
}

// ---------------------------------------------------------------- driver

func c19header(fs []*c19fn, mathSig map[string]string) string {
	var sb strings.Builder
	sb.WriteString("From Coq Require Import ZArith NArith List Bool Floats.SpecFloat.\nImport ListNotations.\n")
	sb.WriteString("From Ecal Require Import Common.Outcome Model.Adapter Run.RunC19.\n")
	for _, p := range c19pool {
		fmt.Fprintf(&sb, "Definition %s : gval := %s.\n", p.Name, c19val(p.Val))
	}
	for _, f := range fs {
		fmt.Fprintf(&sb, "Definition s_%s : sig := %s.\nDefinition b_%s : beh := %s.\n", f.Name, f.sig, f.Name, f.Beh)
	}
	// the signatures of the generated stdlib, by name (used by the history stream)
	names := make([]string, 0, len(mathSig))
	for n := range mathSig {
		names = append(names, n)
	}
	sort.Strings(names)
	for _, n := range names {
		fmt.Fprintf(&sb, "Definition %s : sig := %s.\n", c19mathSigName(n), mathSig[n])
	}
	return sb.String()
}

func c19vectors(n int, pool []int, visit func(idx []int)) {
	idx := make([]int, n)
	var rec func(k int)
	rec = func(k int) {
		if k == n {
			visit(idx)
			return
		}
		for _, p := range pool {
			idx[k] = p
			rec(k + 1)
		}
	}
	rec(0)
}

func c19argNames(idx []int) []string {
	a := make([]string, len(idx))
	for i, p := range idx {
		a[i] = "p" + strconv.Itoa(p)
	}
	return a
}

// numbers at the edges of the integer kinds, of float32 and of exact integer representation
func c19edgeNumbers() []float64 {
	res := []float64{0, math.Copysign(0, -1), 0.5, -0.5, 0.999, -0.999, 1.5, -1.5, 0.1, 1e-300, 5e-324, 1e300,
		math.MaxFloat32, math.MaxFloat32 * (1 + 1e-9), 3.4028235677973366e38, 1e39, -1e39, math.SmallestNonzeroFloat32, 1e-46, 16777217, 33554433.5,
		math.Inf(1), math.Inf(-1), math.NaN(), math.MaxFloat64}
	for _, p := range []int{7, 8, 15, 16, 31, 32, 53, 62, 63, 64, 65} {
		b := math.Ldexp(1, p)
		for _, d := range []float64{-1.5, -1, -0.5, 0, 0.5, 1} {
			res = append(res, b+d, -b+d)
		}
		res = append(res, math.Nextafter(b, 0), math.Nextafter(b, math.Inf(1)), -math.Nextafter(b, 0), -math.Nextafter(b, math.Inf(1)))
	}
	return res
}

func runC19(c *Ctx) error {
	c.Rule = "synthetic Go functions (echo for every numeric kind, string, bool, interface{}, []interface{}, map, []string, error; constant, multi-result, swapping, variadic (interface{}, string, int, list), trailing error nil/non-nil, error not last, five panicking shapes) x every argument vector over the pool {null,true,0,1,-1,1.5,255,256,1e10,-1e10,\"s\",list,map,function} up to the length bound: vectors of length <= parameters+1 go to the model (longer ones: a sample; all of them are checked for 'error, function not entered, no panic'); each also called from an ECAL program and compared with the direct Run; edge and random float64 values for every numeric kind (outside the range guard only the outcome class is compared); every function of the generated stdlib from ECAL programs over a reduced pool; non-trivial = the Go function was entered; distinct by (function, argument vector)"
	fs := c19funcs()
	byName := map[string]*c19fn{}
	stdlib.AddStdlibPkg("c19", "verification harness functions")
	for _, f := range fs {
		byName[f.Name] = f
		if err := stdlib.AddStdlibFunc("c19", f.ecal, f.ad); err != nil {
			return err
		}
	}
	mathSig := map[string]string{}
	for i := 0; i+1 < len(c19math); i += 2 {
		if s, ok := c19sig(reflect.TypeOf(c19math[i+1])); ok {
			mathSig["math."+c19lowerFirst(c19math[i].(string))] = s
		}
	}
	c.BeginCases(c19header(fs, mathSig), "case", c.Pick(1700, 2500))
	mathNin := map[string]int{}
	for i := 0; i+1 < len(c19math); i += 2 {
		mathNin["math."+c19lowerFirst(c19math[i].(string))] = reflect.TypeOf(c19math[i+1]).NumIn()
	}

	if c.Replay != "" {
		var d c19case
		if err := c.LoadReplay(&d); err != nil {
			return err
		}
		if d.Fn == "history" || d.Fn == "history-par" {
			var hd c19hcase
			if err := c.LoadReplay(&hd); err != nil {
				return err
			}
			c19historyReplay(c, c19targets(fs, mathSig), hd)
			return nil
		}
		if strings.HasPrefix(d.Fn, "stdlib:") {
			name := strings.TrimPrefix(d.Fn, "stdlib:")
			c19stdlib(c, name, mathSig[name], d)
			return nil
		}
		f := byName[d.Fn]
		if f == nil {
			return fmt.Errorf("unknown function %q in replay", d.Fn)
		}
		c19one(c, f, d, true, true)
		return nil
	}

	maxLen := c.Pick(3, 4)
	all := make([]int, len(c19pool))
	for i := range all {
		all[i] = i
	}

	// 1. corpus: the shapes the review of the code singled out
	corpus := []c19case{
		{"err_typed_nil", nil},                   // nil pointer returned as error: err.Error() in executeFunction panicked (fix: C19-typed-nil-error)
		{"e_iface", []string{"p0"}},              // NULL for an interface parameter: nil Type dereference under the recover
		{"e_list", []string{"p0"}},               // NULL for []interface{}: zero Value reaches reflect.Call
		{"e_list", []string{"p10"}},              // wrong kind let through to reflect.Call
		{"var_iface", []string{"p0"}},            // NULL as variadic element
		{"str_var_iface", nil},                   // too few for a variadic function
		{"str_var_iface", []string{"p10"}},       // no variadic element
		{"var_iface", []string{"p3", "p3"}},      // two variadic elements
		{"e_uint8", []string{"p4"}},              // -1 for uint8 (outside the guard)
		{"e_uint8", []string{"p7"}},              // 256 for uint8 (outside the guard)
		{"e_uint64", []string{"b43e0000000000000"}}, // 2^63 for uint64 (in range)
		{"e_int64", []string{"b43e0000000000000"}},  // 2^63 for int64 (outside)
		{"e_float32", []string{"b3fb999999999999a"}}, // 0.1 rounds
		{"only_err_set", nil},
		{"err_set", []string{"p3"}},
		{"panic_nil", nil},
		{"panic_rt", []string{"p10"}},
		{"c_u64max", nil},
		{"c_i64big", nil},
	}
	for _, d := range corpus {
		c19one(c, byName[d.Fn], d, true, true)
	}
	c.Extra["corpus"] = len(corpus)

	// 2. exhaustive argument vectors.  Every vector is run on the implementation; which of
	// them are also handed to the model: thorough: all of length <= parameters+1 (the loop of
	// Run never looks at an argument beyond that), quick: all of length <= 2 and those of
	// length 3 over the reduced pool; a random sample of the others.
	reduced := map[int]bool{0: true, 3: true, 4: true, 7: true, 10: true, 11: true}
	sample := c.Pick(12, 300)
	nvec := 0
	for _, f := range fs {
		if c.Enough() {
			c.Notes = append(c.Notes, "sweep stopped early after repeated violations")
			break
		}
		if f.hist {
			continue
		}
		for L := 0; L <= maxLen; L++ {
			var rest [][]int
			c19vectors(L, all, func(idx []int) {
				nvec++
				toModel := L <= f.nin+1
				if toModel && !c.Thorough() && L > 2 {
					for _, p := range idx {
						if !reduced[p] {
							toModel = false
						}
					}
				}
				if toModel {
					c19one(c, f, c19case{f.Name, c19argNames(idx)}, true, true)
					return
				}
				c19one(c, f, c19case{f.Name, c19argNames(idx)}, false, false)
				if c.Rng.Intn(50) == 0 && len(rest) < 4*sample {
					rest = append(rest, append([]int{}, idx...))
				}
			})
			for k := 0; k < sample && k < len(rest); k++ {
				c19one(c, f, c19case{f.Name, c19argNames(rest[k])}, true, true)
			}
		}
	}
	c.Extra["exhaustive_vectors"] = nvec
	c.Extra["max_vector_length"] = maxLen

	// 3. numbers: edges and random bit patterns for every numeric parameter kind
	var numeric []*c19fn
	for _, f := range fs {
		if strings.HasPrefix(f.Name, "e_") && (strings.Contains(f.Name, "int") || strings.Contains(f.Name, "float")) {
			numeric = append(numeric, f)
		}
	}
	numbers := c19edgeNumbers()
	for i := 0; i < c.Pick(90, 2400); i++ {
		switch i % 3 {
		case 0:
			numbers = append(numbers, math.Float64frombits(c.Rng.Uint64()))
		case 1:
			numbers = append(numbers, math.Ldexp(c.Rng.Float64()*2-1, c.Rng.Intn(70)))
		default:
			numbers = append(numbers, math.Trunc(math.Ldexp(c.Rng.Float64()*2-1, c.Rng.Intn(66))))
		}
	}
	for _, x := range numbers {
		a := "b" + strconv.FormatUint(math.Float64bits(x), 16)
		for _, f := range numeric {
			c19one(c, f, c19case{f.Name, []string{a}}, true, false)
		}
		c19one(c, byName["three"], c19case{"three", []string{a, a, a}}, true, false)
	}
	c.Extra["numbers"] = len(numbers)

	// 4. the generated stdlib, from ECAL programs
	_, _, names := stdlib.GetStdlibSymbols()
	sort.Strings(names)
	nstd := 0
	for _, name := range names {
		if c.Enough() {
			break
		}
		if strings.HasPrefix(name, "c19.") {
			continue
		}
		nin, known := mathNin[name]
		if !known {
			nin = 2
		}
		nstd++
		for L := 0; L <= nin+1 && L <= maxLen; L++ {
			pool := c19small
			if !c.Thorough() && L > 2 {
				pool = c19small[:4]
			}
			c19vectors(L, pool, func(idx []int) {
				c19stdlib(c, name, mathSig[name], c19case{"stdlib:" + name, c19argNames(idx)})
			})
		}
	}
	c.Extra["stdlib_functions"] = nstd

	// 5. histories: a value returned to ECAL is not changed by later bridge calls
	c19sweepFinal(c)
	c19history(c, c19targets(fs, mathSig))
	c.Exhaustive = false
	return nil
}

var _ = parser.Scope(nil)
