//go:build c03

package main

// C03, last stream — THREE-WAY tie: focused expression model / operator Spec (coq/Model/Expr.v,
// coq/Spec/ExprSemSpec.v) = real interpreter = interpreter model (coq/Model/Interp.v) on the
// same expression.
//
// The expressions are those of the streams before (corpus, boundary table, operator pairs /
// triples, operand kinds, random trees, re-evaluation stream: read back from the descriptions
// the first streams recorded).  Each becomes a whole PROGRAM in pure ECAL: one assignment per
// variable of the scope, rendered as a literal, then
//
//	R := null
//	try {
//	R := [0, <expr>]
//	} except e {
//	R := [1, e.type]
//	}
//	R
//
// so that the value or the error type of the expression is ONE value of the language.  The
// real parser's tree of that text is evaluated by the real runtime here and by Model/Interp.v in
// Run/RunC03Interp.v; the focused model runs there on the real tree of the BARE expression.
// Skipped and counted: assignments (not evaluated by the first stream either), texts the real
// parser rejects, and constructs outside Model/Interp.v (`like`, string interpolation, calls).

import (
	"fmt"
	"sort"
	"strconv"
	"strings"
	"time"

	"github.com/krotik/ecal/parser"
)

const c03interpHeader = "From Coq Require Import ZArith NArith String List.\nFrom Ecal Require Import Common.Ast gen.Tokens Run.RunC06Interp Run.RunC03Interp.\nImport ListNotations.\nOpen Scope string_scope."

const c03pureEpilogue = "R := null\ntry {\nR := [0, %s]\n} except e {\nR := [1, e.type]\n}\nR\n"

// c03icase is the replayable description of one case of this stream.
type c03icase struct {
	Stream string  `json:"stream"` // "interp"
	Src    string  `json:"src"`
	Binds  *[2]int `json:"binds,omitempty"` // nil: the scope of the first stream; else va, vb = c03vars[...]
	Source string  `json:"source,omitempty"`
	Corpus bool    `json:"corpus,omitempty"`
}

// c03literal renders a value of the scope as an ECAL literal.
func c03literal(v interface{}) (string, bool) {
	switch x := v.(type) {
	case nil:
		return "null", true
	case bool:
		return CoqBool(x), true
	case float64:
		return strconv.FormatFloat(x, 'f', -1, 64), true
	case string:
		if strings.ContainsAny(x, "\"\\\n{") {
			return "", false
		}
		return "\"" + x + "\"", true
	case []interface{}:
		items := make([]string, len(x))
		for i, e := range x {
			s, ok := c03literal(e)
			if !ok {
				return "", false
			}
			items[i] = s
		}
		return "[" + strings.Join(items, ", ") + "]", true
	case map[interface{}]interface{}:
		keys := make([]string, 0, len(x))
		lit := map[string]string{}
		for k, e := range x {
			ks, ok1 := c03literal(k)
			es, ok2 := c03literal(e)
			if !ok1 || !ok2 {
				return "", false
			}
			keys = append(keys, ks)
			lit[ks] = es
		}
		sort.Strings(keys)
		items := make([]string, len(keys))
		for i, k := range keys {
			items[i] = k + " : " + lit[k]
		}
		return "{" + strings.Join(items, ", ") + "}", true
	}
	return "", false
}

// c03ienv: the variables of a case (name, value), the assignments that define them and the
// Coq term of the environment.
func c03ienv(b *[2]int) (vars []c03var) {
	if b == nil {
		return c03vars
	}
	return []c03var{{"va", c03vars[b[0]].Val, c03vars[b[0]].Kind}, {"vb", c03vars[b[1]].Val, c03vars[b[1]].Kind}}
}

func c03assignments(vars []c03var) string {
	var sb strings.Builder
	for _, v := range vars {
		lit, ok := c03literal(v.Val)
		if !ok {
			panic("c03: no literal for the value of " + v.Name)
		}
		sb.WriteString(v.Name + " := " + lit + "\n")
	}
	return sb.String()
}

func c03ienvTerm(vars []c03var) string {
	items := make([]string, len(vars))
	for i, v := range vars {
		items[i] = "(" + CoqBytes(v.Name) + ", " + c06iCanon(v.Val, 12) + ")"
	}
	return CoqList(items)
}

// The assignments of the first stream's scope are the first children of most trees (same text,
// same lines): they are written once per cases file (PRE / ENV in the preamble).
var c03ipre string

func c03interpPreamble() string {
	ast, err := parser.Parse("c03i", c03assignments(c03vars))
	if err != nil || ast == nil {
		panic("c03: the assignments of the scope do not parse: " + fmt.Sprint(err))
	}
	var parts []string
	for _, ch := range ast.Children {
		parts = append(parts, c06iTree(ch))
	}
	c03ipre = strings.Join(parts, "; ")
	return c03interpHeader + "\nDefinition PRE : list node := [" + c03ipre + "].\nDefinition ENV : list (bytes * oval) := " + c03ienvTerm(c03vars) + "."
}

func c03factorTree(tree string) string {
	if i := strings.Index(tree, "["+c03ipre+"; "); i >= 0 && strings.HasSuffix(tree, "])") {
		return tree[:i] + "(PRE ++ [" + tree[i+len(c03ipre)+3:len(tree)-2] + "]))"
	}
	return tree
}

// c03outside names the first construct of a tree that Model/Interp.v does not model ("" if none).
func c03outside(n *parser.ASTNode) string {
	if n == nil {
		return ""
	}
	switch n.Name {
	case parser.NodeLIKE:
		return "like"
	case parser.NodeFUNCCALL:
		return "call"
	case parser.NodeSTRING:
		if n.Token != nil && n.Token.AllowEscapes && strings.Contains(n.Token.Val, "{{") {
			return "interpolation"
		}
	}
	for _, ch := range n.Children {
		if w := c03outside(ch); w != "" {
			return w
		}
	}
	return ""
}

// c03eligible parses the bare expression; it returns its tree, or the reason for skipping it.
func c03eligible(d c03icase) (*parser.ASTNode, string) {
	if strings.Contains(d.Src, ":=") {
		return nil, "assignment"
	}
	pr := guarded(3*time.Second, func() (interface{}, error) { return parser.Parse("c03i", d.Src) })
	if pr.Panicked || pr.TimedOut {
		return nil, "parser_did_not_return"
	}
	if pr.Err != nil {
		return nil, "parse_error"
	}
	ast, _ := pr.Val.(*parser.ASTNode)
	if ast == nil {
		return nil, "parse_error"
	}
	if ast.Name == parser.NodeSTATEMENTS {
		return nil, "not_one_expression"
	}
	if w := c03outside(ast); w != "" {
		return nil, w
	}
	return ast, ""
}

func c03interpOne(c *Ctx, d c03icase) {
	ast, why := c03eligible(d)
	if why != "" {
		c.Dist["interp_skipped_"+why]++
		return
	}
	vars := c03ienv(d.Binds)
	src := c03assignments(vars) + fmt.Sprintf(c03pureEpilogue, d.Src)
	d.Stream, d.Source = "interp", src
	key := "i:" + d.Src + fmt.Sprint(d.Binds)
	o := c06iEval(src, 5*time.Second)
	c.Dist["interp_"+o.Class]++
	switch o.Class {
	case "timeout":
		c.Violate("nontermination", "the program built around an expression did not finish within 5s", d)
		c.Count(key, true, d)
		return
	case "parse-error":
		// the bare expression parses: the rendering is at fault, not the implementation
		c.Notes = append(c.Notes, "three-way stream: the program built around `"+d.Src+"` does not parse: "+o.Detail)
		c.Dist["interp_rendering_does_not_parse"]++
		return
	}
	env, tree := "ENV", c03factorTree(o.Tree)
	if d.Binds != nil {
		env = c03ienvTerm(vars)
	}
	id := c.NewID()
	c.AddCase(id, fmt.Sprintf("mkC3I %d%%N %s %s %s %s %s %s", id, c06iTree(ast), env, tree, o.Nums, o.Strs, o.Obs), d, key, true)
}

// c03interpCandidates reads the expressions of the first streams back from their recorded
// descriptions, in the order they were generated, without duplicates.
func c03interpCandidates(c *Ctx) (corpus, rest []c03icase) {
	ids := make([]int, 0, len(c.CaseDesc))
	for k := range c.CaseDesc {
		if n, err := strconv.Atoi(k); err == nil {
			ids = append(ids, n)
		}
	}
	sort.Ints(ids)
	inCorpus := map[string]bool{}
	for _, s := range c03corpus {
		inCorpus[s] = true
	}
	seen := map[string]bool{}
	for _, id := range ids {
		d, ok := c.CaseDesc[fmt.Sprint(id)].(c03case)
		if !ok {
			continue
		}
		ic := c03icase{Stream: "interp", Src: d.Src}
		if d.Re != nil {
			if d.Step < 0 || d.Step >= len(d.Re.Binds) {
				continue
			}
			b := d.Re.Binds[d.Step]
			ic.Src, ic.Binds = d.Re.Expr, &b
		} else if d.NoEval {
			c.Dist["interp_skipped_assignment"]++
			continue
		}
		key := ic.Src + fmt.Sprint(ic.Binds)
		if seen[key] {
			continue
		}
		seen[key] = true
		if _, why := c03eligible(ic); why != "" {
			c.Dist["interp_skipped_"+why]++
			continue
		}
		if d.Re == nil && inCorpus[d.Src] {
			ic.Corpus = true
			corpus = append(corpus, ic)
		} else {
			rest = append(rest, ic)
		}
	}
	return
}

// c03interpStream runs the three-way comparison: the whole corpus and an evenly spaced sample
// (offset by the seed) of the other expressions of the first streams.
func c03interpStream(c *Ctx, replay *c03icase) {
	c.flushShard()
	// loading Run/RunC03.vo + Run/RunC06Interp.vo costs coqc about 10 s per cases file, one case
	// about 0.2 s: 8 files (the driver's parallelism) in the quick tier
	c.BeginCases(c03interpPreamble(), "case3", c.Pick(30, 100))
	defer c.flushShard()
	if replay != nil {
		c03interpOne(c, *replay)
		return
	}
	corpus, rest := c03interpCandidates(c)
	want := c.Pick(230, 4000) - len(corpus)
	if want < 0 {
		want = 0
	}
	var picked []c03icase
	if want >= len(rest) {
		picked = rest
	} else if want > 0 {
		off := int(c.Seed % 7919)
		for i := 0; i < want; i++ {
			picked = append(picked, rest[(i*len(rest)/want+off)%len(rest)])
		}
	}
	before := c.Evals
	for _, d := range append(append([]c03icase{}, corpus...), picked...) {
		if c.Enough() {
			break
		}
		c03interpOne(c, d)
	}
	c.Extra["interp_three_way_eligible_expressions"] = len(corpus) + len(rest)
	c.Extra["interp_three_way_cases"] = c.Evals - before
	c.Rule += "  |  last stream (three-way tie with the interpreter model): the evaluable expressions of the streams before without `like`, string interpolation and calls (the whole corpus + an evenly spaced sample of the others, offset by the seed) wrapped into a PURE ECAL program: one assignment per variable of the scope (values as literals), then `R := null; try { R := [0, <expr>] } except e { R := [1, e.type] }; R` -> real parse -> the real tree evaluated by the real runtime AND by Model/Interp.v, both compared with the value the focused model / operator Spec prescribes for the bare expression"
}
