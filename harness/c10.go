//go:build c10

package main

// C10 — priorities order execution; the first failing rule ends a trigger sequence.
//
// Implementation side:
//  (a) histories of monitor API calls (NewChildMonitor / Activate / Skip / Finish) on one
//      cascade through the public API, RootMonitor.HighestPriority() read after every call;
//  (b,c) scenarios on a real processor with ONE worker: a gate event holds the worker while
//      the main goroutine queues the initial events of several cascades, then the worker
//      drains the queues; rule actions record their start (event, rule), sample
//      HighestPriority() of their cascade, add child events and fail or succeed by script.
//      Everything recorded is totally ordered (main goroutine while the worker is held, the
//      worker afterwards).  From one run: the queue trace (pushes and pops with the cascade
//      chosen), the monitor history of every cascade with the samples, and per event the
//      sequence of action starts with the error report.

import (
	"fmt"
	"math"
	"os"
	"sort"
	"strings"
	"sync"
	"time"

	"github.com/krotik/ecal/config"
	"github.com/krotik/ecal/engine"
	"github.com/krotik/ecal/interpreter"
	"github.com/krotik/ecal/scope"
)

func init() { register("C10", runC10) }

// ---------------------------------------------------------------- (a) monitor histories

type c10Op struct {
	K string `json:"k"` // "new", "act", "skip", "fin"
	V int    `json:"v"` // priority for "new", monitor handle otherwise
}

type c10MonCase struct {
	Type string  `json:"type"` // "mon"
	Ops  []c10Op `json:"ops"`
}

func c10ints(v []int) string {
	items := make([]string, len(v))
	for i, x := range v {
		items[i] = fmt.Sprint(x)
	}
	return CoqList(items)
}

// c10monFlat: per call  code, argument, number of samples, samples
func c10monFlat(ops []c10Op, obs [][]int) []int {
	var out []int
	code := map[string]int{"new": 0, "act": 1, "skip": 2, "fin": 3}
	for i, o := range ops {
		out = append(out, code[o.K], o.V, len(obs[i]))
		out = append(out, obs[i]...)
	}
	return out
}

func c10raw(kind, id int, data []int) string {
	return fmt.Sprintf("(%d, %d, %s)", kind, id, c10ints(data))
}

var c10proc engine.Processor
var c10ev = engine.NewEvent("c10", []string{"c10", "mon"}, nil)

// c10runMon performs the history on a fresh root monitor; returns HighestPriority() after
// every call.
func c10runMon(ops []c10Op) ([][]int, callResult) {
	var obs [][]int
	r := guarded(5*time.Second, func() (interface{}, error) {
		rm := c10proc.NewRootMonitor(nil, nil)
		mons := []engine.Monitor{rm}
		for _, o := range ops {
			switch o.K {
			case "new":
				mons = append(mons, rm.NewChildMonitor(o.V))
			case "act":
				mons[o.V].Activate(c10ev)
			case "skip":
				mons[o.V].Skip(c10ev)
			case "fin":
				mons[o.V].Finish()
			}
			obs = append(obs, []int{rm.HighestPriority()})
		}
		return nil, nil
	})
	return obs, r
}

func c10monOne(c *Ctx, ops []c10Op, family string) {
	desc := c10MonCase{"mon", ops}
	obs, r := c10runMon(ops)
	key := fmt.Sprint(ops)
	if r.Panicked || r.TimedOut {
		c.Violate("monitor-panic", "a protocol-respecting monitor history panicked or hung: "+r.PanicMsg, desc)
		c.Count(key, true, desc)
		return
	}
	id := c.NewID()
	c.Dist["mon_"+family]++
	nontrivial := false
	for _, o := range ops {
		if o.K == "fin" || o.K == "skip" {
			nontrivial = true
		}
	}
	c.AddCase(id, c10raw(0, id, c10monFlat(ops, obs)), desc, key, nontrivial)
}

// c10orders enumerates (or samples) the protocol-respecting lifecycle orders of monitors
// 0..n (0 = root) after all n children have been created: each monitor is skipped, or
// activated and later finished, or activated only, or left alone when the history ends.
func c10orders(n int, maxLen int, emit func(ops []c10Op)) {
	state := make([]int, n+1) // 0 fresh, 1 active, 2 done
	var cur []c10Op
	var rec func()
	rec = func() {
		moved := false
		if len(cur) < maxLen {
			for i := 0; i <= n; i++ {
				switch state[i] {
				case 0:
					moved = true
					state[i] = 1
					cur = append(cur, c10Op{"act", i})
					rec()
					cur = cur[:len(cur)-1]
					state[i] = 2
					cur = append(cur, c10Op{"skip", i})
					rec()
					cur = cur[:len(cur)-1]
					state[i] = 0
				case 1:
					moved = true
					state[i] = 2
					cur = append(cur, c10Op{"fin", i})
					rec()
					cur = cur[:len(cur)-1]
					state[i] = 1
				}
			}
		}
		if !moved {
			emit(append([]c10Op{}, cur...))
		}
	}
	rec()
}

// c10randomOrder draws one maximal lifecycle order; creation of children may be interleaved.
func c10randomHistory(c *Ctx, nchildren int, prios []int, length int) []c10Op {
	var ops []c10Op
	state := []int{0}
	created := 0
	for len(ops) < length {
		var moves []c10Op
		if created < nchildren {
			moves = append(moves, c10Op{"new", prios[c.Rng.Intn(len(prios))]})
			moves = append(moves, c10Op{"new", prios[c.Rng.Intn(len(prios))]})
		}
		for i, st := range state {
			if st == 0 {
				moves = append(moves, c10Op{"act", i}, c10Op{"act", i}, c10Op{"skip", i})
			} else if st == 1 {
				moves = append(moves, c10Op{"fin", i})
			}
		}
		if len(moves) == 0 {
			break
		}
		m := moves[c.Rng.Intn(len(moves))]
		switch m.K {
		case "new":
			state = append(state, 0)
			created++
		case "act":
			state[m.V] = 1
		case "skip", "fin":
			state[m.V] = 2
		}
		ops = append(ops, m)
	}
	return ops
}

func c10monitorPart(c *Ctx) {
	// corpus first: the witnesses of the two repaired defects and relatives
	corpus := [][]c10Op{
		// F15: root + 3,1,4,5,2; finish the 1, then the root
		{{"act", 0}, {"new", 3}, {"act", 1}, {"new", 1}, {"act", 2}, {"new", 4}, {"act", 3}, {"new", 5}, {"act", 4}, {"new", 2}, {"act", 5}, {"fin", 2}, {"fin", 0}},
		// F16: active child 2, skipped sibling 2
		{{"new", 2}, {"act", 1}, {"new", 2}, {"skip", 2}},
		{{"new", 2}, {"act", 1}, {"new", 2}, {"skip", 2}, {"fin", 1}, {"new", 2}, {"act", 3}},
		// skip before the first activation of the same priority
		{{"new", 7}, {"skip", 1}, {"new", 7}, {"act", 2}},
		{{"new", 1}, {"new", 1}, {"act", 1}, {"act", 2}, {"fin", 1}, {"fin", 2}},
		{{"skip", 0}},
		{{"act", 0}, {"fin", 0}},
		{{"new", -3}, {"act", 1}, {"new", -1}, {"act", 2}, {"fin", 1}},
		{{"new", 5}, {"new", 4}, {"new", 3}, {"new", 2}, {"new", 1}, {"new", 0}, {"act", 1}, {"act", 2}, {"act", 3}, {"act", 4}, {"act", 5}, {"act", 6}, {"fin", 6}, {"fin", 4}, {"fin", 5}, {"fin", 3}, {"fin", 2}, {"fin", 1}},
	}
	for _, h := range corpus {
		c10monOne(c, h, "corpus")
	}
	// exhaustive: <= 2 children, all priority assignments over {0..3}, all orders
	P := []int{0, 1, 2, 3}
	nexh := 0
	for n := 0; n <= 2; n++ {
		total := 1
		for i := 0; i < n; i++ {
			total *= len(P)
		}
		for a := 0; a < total; a++ {
			var pre []c10Op
			x := a
			for i := 0; i < n; i++ {
				pre = append(pre, c10Op{"new", P[x%len(P)]})
				x /= len(P)
			}
			c10orders(n, 2*(n+1), func(ops []c10Op) {
				if c.Enough() {
					return
				}
				nexh++
				c10monOne(c, append(append([]c10Op{}, pre...), ops...), "exhaustive")
			})
		}
	}
	c.Extra["monitor_exhaustive_histories"] = nexh
	// all priority assignments for 3 and 4 children (thorough: + {0..5}), sampled orders
	sample := func(n int, P []int, per int, family string) {
		total := 1
		for i := 0; i < n; i++ {
			total *= len(P)
		}
		for a := 0; a < total && !c.Enough(); a++ {
			var pre []c10Op
			x := a
			for i := 0; i < n; i++ {
				pre = append(pre, c10Op{"new", P[x%len(P)]})
				x /= len(P)
			}
			for k := 0; k < per; k++ {
				// a random maximal order
				state := make([]int, n+1)
				var ops []c10Op
				for {
					var moves []c10Op
					for i, st := range state {
						if st == 0 {
							moves = append(moves, c10Op{"act", i}, c10Op{"act", i}, c10Op{"act", i}, c10Op{"skip", i})
						} else if st == 1 {
							moves = append(moves, c10Op{"fin", i})
						}
					}
					if len(moves) == 0 {
						break
					}
					m := moves[c.Rng.Intn(len(moves))]
					if m.K == "act" {
						state[m.V] = 1
					} else {
						state[m.V] = 2
					}
					ops = append(ops, m)
				}
				c10monOne(c, append(append([]c10Op{}, pre...), ops...), family)
			}
		}
	}
	sample(3, P, c.Pick(6, 40), "assign3")
	sample(4, P, c.Pick(2, 12), "assign4")
	if c.Thorough() {
		P6 := []int{0, 1, 2, 3, 4, 5}
		sample(5, P6, 1, "assign5of6")
		sample(6, []int{0, 1, 2, 3, 4}, 1, "assign6of5")
	}
	// random longer histories with interleaved creation, priorities incl. negative and large
	wide := append([]int{-2, 0, 1, 2, 3, 4, 5, 6, 7, 9, 100}, c10boundary...)
	for i := 0; i < c.Pick(600, 12000) && !c.Enough(); i++ {
		n := 3 + c.Rng.Intn(10)
		c10monOne(c, c10randomHistory(c, n, wide, 6+c.Rng.Intn(30)), "random")
	}
}

// ---------------------------------------------------------------- (b,c) processor scenarios

type c10Add struct {
	Kind int `json:"kind"` // -1 = an event no rule triggers on (skipped)
	Prio int `json:"prio"` // priority of the child monitor
}

type c10Rule struct {
	Prio  int      `json:"prio"`
	Fails bool     `json:"fails"`
	Adds  []c10Add `json:"adds"`
}

type c10Init struct {
	Cascade int `json:"cascade"`
	Kind    int `json:"kind"`
	Prio    int `json:"prio"`
}

type c10Scenario struct {
	Type    string      `json:"type"` // "scenario"
	Flag    bool        `json:"flag"`
	Kinds   [][]c10Rule `json:"kinds"` // rules per event kind; adds only name later kinds
	Initial []c10Init   `json:"initial"`
	Ncasc   int         `json:"ncasc"`
	// history of the processor object before the observed run: the flag is set first, then
	// Resets times "Finish(); Reset(); add the rules again" (what cli/tool does on every
	// (re)load); Provider = the processor of an ECAL runtime provider (flag on by default)
	Resets   int  `json:"resets"`
	Provider bool `json:"provider"`
}

type c10Log struct {
	K       string // "push", "skip", "start"
	Cascade int
	Prio    int
	Task    int
	Kind    int
	Handle  int
	Rule    int
	HP      int
}

func c10ruleID(kind, j int) int { return kind*8 + j + 1 }

type c10Run struct {
	log    []c10Log
	errors map[int][]int // task -> failing rule ids
}

// c10runScenario executes the scenario; ok=false when the run could not be driven (the gate
// was not reached in time — the thread pool's own wake-up weakness, property C09).
func c10runScenario(sc c10Scenario) (*c10Run, bool, string) {
	var mu sync.Mutex
	run := &c10Run{errors: map[int][]int{}}
	var proc engine.Processor
	if sc.Provider {
		// interpreter.NewECALRuntimeProvider switches fail-on-first-error on at construction
		erp := interpreter.NewECALRuntimeProvider("c10", nil, nil)
		defer erp.Cron.Stop()
		proc = erp.Processor
		if proc.Workers() != 1 {
			return nil, false, "provider with several workers"
		}
		if !sc.Flag {
			proc.SetFailOnFirstErrorInTriggerSequence(false)
		}
	} else {
		proc = engine.NewProcessor(1)
		proc.SetFailOnFirstErrorInTriggerSequence(sc.Flag)
	}
	entered := make(chan struct{}, 1)
	release := make(chan struct{})
	nextTask := 1
	taskOf := map[string]int{}       // event name -> task
	cascOf := map[uint64]int{}       // root monitor id -> cascade index
	handles := make([]int, sc.Ncasc) // next monitor handle per cascade (0 is the root)
	for i := range handles {
		handles[i] = 1
	}
	kindOf := map[int]int{}

	must := func(err error) {
		if err != nil {
			panic("harness: " + err.Error())
		}
	}
	// add one event below monitor parent (which belongs to cascade ci)
	var addEvent func(p engine.Processor, parent engine.Monitor, ci int, a c10Add)
	addEvent = func(p engine.Processor, parent engine.Monitor, ci int, a c10Add) {
		task := nextTask
		nextTask++
		child := parent.NewChildMonitor(a.Prio)
		h := handles[ci]
		handles[ci]++
		name := fmt.Sprintf("e%d", task)
		var ev *engine.Event
		if a.Kind < 0 {
			ev = engine.NewEvent(name, []string{"c10", "none"}, nil)
			run.log = append(run.log, c10Log{K: "skip", Cascade: ci, Prio: a.Prio, Task: task, Handle: h})
		} else {
			ev = engine.NewEvent(name, []string{"c10", fmt.Sprintf("k%d", a.Kind)}, nil)
			taskOf[name] = task
			kindOf[task] = a.Kind
			run.log = append(run.log, c10Log{K: "push", Cascade: ci, Prio: a.Prio, Task: task, Kind: a.Kind, Handle: h})
		}
		if _, err := p.AddEvent(ev, child); err != nil {
			panic("harness: AddEvent: " + err.Error())
		}
	}

	addRules := func() {
		must(proc.AddRule(&engine.Rule{Name: "gate", KindMatch: []string{"c10.gate"}, ScopeMatch: []string{}, Priority: 0,
			Action: func(p engine.Processor, m engine.Monitor, e *engine.Event, tid uint64) error {
				entered <- struct{}{}
				<-release
				return nil
			}}))
		for k, rules := range sc.Kinds {
			for j, r := range rules {
				k, j, r := k, j, r
				must(proc.AddRule(&engine.Rule{Name: fmt.Sprintf("k%dr%d", k, j), KindMatch: []string{fmt.Sprintf("c10.k%d", k)},
					ScopeMatch: []string{}, Priority: r.Prio,
					Action: func(p engine.Processor, m engine.Monitor, e *engine.Event, tid uint64) error {
						mu.Lock()
						defer mu.Unlock()
						rm := m.RootMonitor()
						ci := cascOf[rm.ID()]
						run.log = append(run.log, c10Log{K: "start", Cascade: ci, Task: taskOf[e.Name()], Rule: c10ruleID(k, j), HP: rm.HighestPriority()})
						for _, a := range r.Adds {
							addEvent(p, m, ci, a)
						}
						if r.Fails {
							return fmt.Errorf("scripted failure")
						}
						return nil
					}}))
			}
		}
	}
	addRules()
	for i := 0; i < sc.Resets; i++ {
		// Reset only removes the rules (and the trigger cache): the flag is a setting of the
		// processor and stays.  The first round resets a processor that never ran, the
		// later ones one that was started and finished.
		if i > 0 {
			proc.Start()
		}
		proc.Finish()
		must(proc.Reset())
		if len(proc.Rules()) != 0 {
			panic("harness: rules left after Reset")
		}
		addRules()
	}
	proc.Start()
	gateRM := proc.NewRootMonitor(nil, nil)
	if gm, err := proc.AddEvent(engine.NewEvent("gate", []string{"c10", "gate"}, nil), gateRM); err != nil || gm == nil {
		panic(fmt.Sprint("harness: the gate event was not accepted: ", err))
	}
	select {
	case <-entered:
	case <-time.After(20 * time.Millisecond):
		// The pool's Signal can be lost when the worker is between "queue is empty" and
		// its cond.Wait (that is property C09, not this one): WaitAll broadcasts until the
		// pool is drained, which wakes the worker.
		go proc.ThreadPool().WaitAll()
		select {
		case <-entered:
		case <-time.After(5 * time.Second):
			go func() { close(release); proc.Finish() }()
			if os.Getenv("C10_DEBUG") != "" {
				fmt.Fprintf(os.Stderr, "gate not reached: %+v status=%v\n", sc, proc.Status())
			}
			return nil, false, "gate not reached"
		}
	}
	rms := make([]*engine.RootMonitor, sc.Ncasc)
	mu.Lock()
	for i := range rms {
		rms[i] = proc.NewRootMonitor(nil, nil)
		cascOf[rms[i].ID()] = i
	}
	for _, in := range sc.Initial {
		addEvent(proc, rms[in.Cascade], in.Cascade, c10Add{in.Kind, in.Prio})
	}
	mu.Unlock()
	close(release)
	done := make(chan struct{})
	go func() { proc.ThreadPool().WaitAll(); proc.Finish(); close(done) }()
	select {
	case <-done:
	case <-time.After(10 * time.Second):
		return nil, false, "processor did not finish"
	}
	for _, rm := range rms {
		for _, te := range rm.AllErrors() {
			task := taskOf[te.Event.Name()]
			for name := range te.ErrorMap {
				var k, j int
				fmt.Sscanf(name, "k%dr%d", &k, &j)
				run.errors[task] = append(run.errors[task], c10ruleID(k, j))
			}
			sort.Ints(run.errors[task])
		}
	}
	_ = kindOf
	return run, true, ""
}

const c10gateCascade = 1000

func c10scenarioOne(c *Ctx, sc c10Scenario, family string) {
	sc.Type = "scenario"
	var run *c10Run
	var why string
	for attempt := 0; attempt < 3; attempt++ {
		var ok bool
		r := guarded(20*time.Second, func() (interface{}, error) {
			var rr *c10Run
			rr, ok, why = c10runScenario(sc)
			return rr, nil
		})
		if r.Panicked {
			c.Violate("scenario-panic", "the processor scenario panicked: "+r.PanicMsg, sc)
			return
		}
		if r.TimedOut {
			why = "timeout"
			continue
		}
		if ok {
			run = r.Val.(*c10Run)
			break
		}
	}
	if run == nil {
		c.Dist["scenario_not_driven("+why+")"]++
		return
	}
	c.Dist["scenario_"+family]++
	key := fmt.Sprintf("%+v", sc)

	// ---- queue trace
	trace := []int{0, c10gateCascade, 0, 0, 1, c10gateCascade, 0, 0}
	cascOfTask := map[int]int{}
	kindOfTask := map[int]int{}
	handleOfTask := map[int]int{}
	cur := -1
	npops := 0
	// ---- monitor histories
	ops := make([][]c10Op, sc.Ncasc)
	obs := make([][][]int, sc.Ncasc)
	addOp := func(ci int, o c10Op) {
		ops[ci] = append(ops[ci], o)
		obs[ci] = append(obs[ci], nil)
	}
	finishCur := func() {
		if cur >= 0 {
			addOp(cascOfTask[cur], c10Op{"fin", handleOfTask[cur]})
		}
	}
	// ---- rule sequences
	started := map[int][]int{}
	var order []int
	sampleBeforeOps := false
	for _, l := range run.log {
		switch l.K {
		case "push":
			trace = append(trace, 0, l.Cascade, l.Prio, l.Task)
			cascOfTask[l.Task] = l.Cascade
			kindOfTask[l.Task] = l.Kind
			handleOfTask[l.Task] = l.Handle
			addOp(l.Cascade, c10Op{"new", l.Prio})
			addOp(l.Cascade, c10Op{"act", l.Handle})
		case "skip":
			addOp(l.Cascade, c10Op{"new", l.Prio})
			addOp(l.Cascade, c10Op{"skip", l.Handle})
		case "start":
			if l.Task != cur {
				finishCur()
				cur = l.Task
				trace = append(trace, 1, l.Cascade, 0, l.Task)
				npops++
				order = append(order, l.Task)
			}
			started[l.Task] = append(started[l.Task], l.Rule)
			n := len(obs[l.Cascade])
			if n == 0 {
				sampleBeforeOps = true
			} else {
				obs[l.Cascade][n-1] = append(obs[l.Cascade][n-1], l.HP)
			}
		}
	}
	finishCur()
	trace = append(trace, 2, 0, 0, 0)
	if sampleBeforeOps {
		c.Violate("scenario-inconsistent", "an action ran for an event of a cascade that has no monitor yet", sc)
	}
	// every queued event must have been processed ("events the failing rule had added are still processed")
	for task := range cascOfTask {
		if len(started[task]) == 0 {
			c.Violate("event-not-processed", fmt.Sprintf("event e%d was queued but none of its rules ran", task), sc)
		}
	}
	rulesOnly := strings.HasSuffix(family, "-rules-only")
	if !rulesOnly {
		id := c.NewID()
		c.AddCase(id, c10raw(1, id, trace), sc, "q:"+key, npops > 1)
	}
	for ci := 0; ci < sc.Ncasc && !rulesOnly; ci++ {
		if len(ops[ci]) == 0 {
			continue
		}
		id := c.NewID()
		c.AddCase(id, c10raw(0, id, c10monFlat(ops[ci], obs[ci])), sc, fmt.Sprintf("m%d:%s", ci, key), true)
	}
	for _, task := range order {
		k := kindOfTask[task]
		rules := sc.Kinds[k]
		if len(rules) < 2 && !rules[0].Fails {
			continue // a single succeeding rule: nothing to order
		}
		flag := 0
		if sc.Flag {
			flag = 1
		}
		data := []int{flag, len(rules)}
		for j, r := range rules {
			f := 0
			if r.Fails {
				f = 1
			}
			data = append(data, c10ruleID(k, j), r.Prio, f)
		}
		data = append(data, len(started[task]))
		data = append(data, started[task]...)
		data = append(data, len(run.errors[task]))
		data = append(data, run.errors[task]...)
		id := c.NewID()
		c.Dist["rule_sequences"]++
		c.AddCase(id, c10raw(2, id, data),
			sc, fmt.Sprintf("r%d:%s", task, key), true)
	}
}

// boundary values of Go's int: rule priorities are plain ints compared with "<" (any
// arithmetic on them can overflow), monitor priorities likewise; the queue clamps negatives.
var c10boundary = []int{math.MinInt64, math.MinInt64 + 1, -5000000000000000000, -2, -1, 0, 1, 2, 5000000000000000000, math.MaxInt64 - 1, math.MaxInt64}

func c10scenarioPart(c *Ctx) {
	// corpus: fixed tricky scenarios first
	leaf := []c10Rule{{Prio: 0}}
	corpus := []c10Scenario{
		// one cascade, arrival order 2,1,2,1,0 and a negative priority
		{Flag: true, Kinds: [][]c10Rule{leaf}, Ncasc: 1, Initial: []c10Init{{0, 0, 2}, {0, 0, 1}, {0, 0, 2}, {0, 0, 1}, {0, 0, 0}, {0, 0, -4}}},
		// three rules 2,1,0 — the middle one adds an event and fails
		{Flag: true, Kinds: [][]c10Rule{{{Prio: 2}, {Prio: 1, Fails: true, Adds: []c10Add{{1, 3}}}, {Prio: 0}}, leaf}, Ncasc: 1, Initial: []c10Init{{0, 0, 1}}},
		{Flag: false, Kinds: [][]c10Rule{{{Prio: 2, Fails: true}, {Prio: 1, Fails: true, Adds: []c10Add{{1, 3}}}, {Prio: 0}}, leaf}, Ncasc: 1, Initial: []c10Init{{0, 0, 1}}},
		// skipped child next to active ones of the same priority (F16 through the processor)
		{Flag: true, Kinds: [][]c10Rule{{{Prio: 1, Adds: []c10Add{{1, 2}, {-1, 2}, {1, 2}, {-1, 0}}}}, leaf}, Ncasc: 1, Initial: []c10Init{{0, 0, 2}, {0, 0, 3}}},
		// F15 shape through the processor: priorities 3,1,4,5,2 below one event
		{Flag: true, Kinds: [][]c10Rule{{{Prio: 1, Adds: []c10Add{{1, 3}, {1, 1}, {1, 4}, {1, 5}, {1, 2}}}}, leaf}, Ncasc: 1, Initial: []c10Init{{0, 0, 0}}},
		// two cascades
		{Flag: true, Kinds: [][]c10Rule{leaf}, Ncasc: 2, Initial: []c10Init{{0, 0, 3}, {1, 0, 1}, {0, 0, 1}, {1, 0, 3}, {0, 0, 2}, {1, 0, 2}}},
	}
	for _, sc := range corpus {
		c10scenarioOne(c, sc, "corpus")
	}
	// systematic: one event with k rules over priorities {0..3}, the failing rule at any rank
	// (or none, or two), both settings of the flag; every rule adds one child event
	P := 4
	maxK := c.Pick(3, 4)
	nsys := 0
	for k := 1; k <= maxK; k++ {
		total := 1
		for i := 0; i < k; i++ {
			total *= P
		}
		for a := 0; a < total; a++ {
			for f := -1; f <= k; f++ { // -1: none fails; k: the first two fail
				if f == k && k < 2 {
					continue
				}
				for _, flag := range []bool{true, false} {
					if c.Enough() {
						return
					}
					rules := make([]c10Rule, k)
					x := a
					for j := 0; j < k; j++ {
						rules[j] = c10Rule{Prio: x % P, Adds: []c10Add{{1, (x + j) % P}}}
						x /= P
						if j == f || (f == k && j < 2) {
							rules[j].Fails = true
						}
					}
					nsys++
					c10scenarioOne(c, c10Scenario{Flag: flag, Kinds: [][]c10Rule{rules, leaf}, Ncasc: 1, Initial: []c10Init{{0, 0, 1}}}, "systematic")
				}
			}
		}
	}
	c.Extra["systematic_rule_scenarios"] = nsys
	// processor history: the flag is set, then the processor is finished and reset 0, 1 or 2
	// times (rules added again) before the observed event; engine API and runtime provider;
	// 2..3 rules, the failing rule(s) not last
	nreset := 0
	for resets := 0; resets <= 2; resets++ {
		for _, provider := range []bool{false, true} {
			for _, flag := range []bool{true, false} {
				for v := 0; v < c.Pick(4, 16) && !c.Enough(); v++ {
					k := 2 + v%2
					rules := make([]c10Rule, k)
					for j := range rules {
						rules[j] = c10Rule{Prio: j + v/2%2, Adds: []c10Add{{1, (v + j) % 4}}}
					}
					rules[0].Fails = true
					if v%4 >= 2 {
						rules[1].Fails = true
						rules[0].Fails = v%8 >= 4
					}
					nreset++
					c10scenarioOne(c, c10Scenario{Flag: flag, Kinds: [][]c10Rule{rules, leaf}, Ncasc: 1, Initial: []c10Init{{0, 0, 1}, {0, 0, 0}},
						Resets: resets, Provider: provider}, "reset-history-rules-only")
				}
			}
		}
	}
	c.Extra["reset_history_scenarios"] = nreset
	// boundary priorities: every ordered pair of the pool for a 2-rule event, the failing rule at
	// each rank or none, both settings of the flag; each rule adds a child event whose monitor
	// priority is from the pool as well (queue trace and monitor history emitted for a subset)
	B := c10boundary
	nb := 0
	for i := range B {
		for j := range B {
			for f := -1; f < 2; f++ {
				for _, flag := range []bool{true, false} {
					if c.Enough() {
						return
					}
					rules := []c10Rule{
						{Prio: B[i], Fails: f == 0, Adds: []c10Add{{1, B[(i+j)%len(B)]}}},
						{Prio: B[j], Fails: f == 1, Adds: []c10Add{{1, B[(i*3+j+1)%len(B)]}}},
					}
					fam := "boundary-pairs-rules-only"
					if f == -1 && flag {
						fam = "boundary-pairs"
					}
					nb++
					c10scenarioOne(c, c10Scenario{Flag: flag, Kinds: [][]c10Rule{rules, leaf}, Ncasc: 1, Initial: []c10Init{{0, 0, B[(i+2*j)%len(B)]}}}, fam)
				}
			}
		}
	}
	for n := 0; n < c.Pick(150, 3000) && !c.Enough(); n++ {
		rules := make([]c10Rule, 3)
		for j := range rules {
			rules[j] = c10Rule{Prio: B[c.Rng.Intn(len(B))], Fails: c.Rng.Intn(3) == 0, Adds: []c10Add{{1, B[c.Rng.Intn(len(B))]}}}
		}
		nb++
		c10scenarioOne(c, c10Scenario{Flag: c.Rng.Intn(2) == 0, Kinds: [][]c10Rule{rules, leaf}, Ncasc: 1 + c.Rng.Intn(2),
			Initial: []c10Init{{0, 0, B[c.Rng.Intn(len(B))]}, {0, 0, B[c.Rng.Intn(len(B))]}}}, "boundary-triples")
	}
	c.Extra["boundary_priority_scenarios"] = nb
	// random scenarios: 1..3 cascades, 3 levels of kinds, priorities -1..4
	for i := 0; i < c.Pick(250, 5000) && !c.Enough(); i++ {
		nk := 2 + c.Rng.Intn(2)
		kinds := make([][]c10Rule, nk)
		for k := 0; k < nk; k++ {
			nr := 1 + c.Rng.Intn(4)
			if k == nk-1 {
				nr = 1 + c.Rng.Intn(2)
			}
			for j := 0; j < nr; j++ {
				r := c10Rule{Prio: c.Rng.Intn(4), Fails: c.Rng.Intn(4) == 0}
				if k < nk-1 {
					for n := c.Rng.Intn(3); n > 0; n-- {
						kind := k + 1 + c.Rng.Intn(nk-k-1)
						if c.Rng.Intn(5) == 0 {
							kind = -1
						}
						r.Adds = append(r.Adds, c10Add{kind, c.Rng.Intn(6) - 1})
					}
				}
				kinds[k] = append(kinds[k], r)
			}
		}
		nc := 1 + c.Rng.Intn(3)
		var initial []c10Init
		for n := 1 + c.Rng.Intn(7); n > 0; n-- {
			kind := c.Rng.Intn(nk)
			if c.Rng.Intn(8) == 0 {
				kind = -1
			}
			initial = append(initial, c10Init{c.Rng.Intn(nc), kind, c.Rng.Intn(6) - 1})
		}
		c10scenarioOne(c, c10Scenario{Flag: c.Rng.Intn(2) == 0, Kinds: kinds, Ncasc: nc, Initial: initial, Resets: c.Rng.Intn(5) % 3, Provider: c.Rng.Intn(6) == 0}, "random")
	}
}

// ---------------------------------------------------------------- sinks declared in ECAL source

// An ECAL sink declaration goes through interpreter.sinkRuntime.createRule, which turns the
// "priority <number>" of the source into the rule priority: int(math.Floor(value)).
type c10SinkPrio struct {
	Text string `json:"text"` // as written in the source
	Int  int    `json:"int"`  // floor
}

var c10sinkPool = []c10SinkPrio{{"-1000000000", -1000000000}, {"-2", -2}, {"-1", -1}, {"-0.5", -1}, {"0", 0},
	{"0.5", 0}, {"1", 1}, {"1.7", 1}, {"2", 2}, {"1000000000", 1000000000}}

type c10Sink struct {
	Prio  c10SinkPrio `json:"prio"`
	Fails bool        `json:"fails"`
	Adds  bool        `json:"adds"` // addEvent of a child event before returning / raising
}

type c10SinkScenario struct {
	Type  string    `json:"type"` // "sinks"
	Flag  bool      `json:"flag"` // true = the provider's default is left alone
	Sinks []c10Sink `json:"sinks"`
}

func c10sinkSource(sc c10SinkScenario) string {
	var sb strings.Builder
	for j, sk := range sc.Sinks {
		fmt.Fprintf(&sb, "sink s%d\n    kindmatch [ \"c10.k0\" ],\n    priority %s,\n    {\n        c10start(\"s%d\")\n", j, sk.Prio.Text, j)
		if sk.Adds {
			sb.WriteString("        addEvent(\"child\", \"c10.leaf\", {})\n")
		}
		if sk.Fails {
			sb.WriteString("        raise(\"c10fail\", \"scripted failure\")\n")
		}
		sb.WriteString("    }\n")
	}
	sb.WriteString("sink leaf\n    kindmatch [ \"c10.leaf\" ],\n    {\n        c10start(\"leaf\")\n    }\n")
	return sb.String()
}

func c10sinkOne(c *Ctx, sc c10SinkScenario, family string) {
	sc.Type = "sinks"
	var started []int
	leaves := 0
	var errs []int
	var prios []int
	var mu sync.Mutex
	r := guarded(20*time.Second, func() (interface{}, error) {
		erp := interpreter.NewECALRuntimeProvider("c10", nil, nil)
		defer erp.Cron.Stop()
		proc := erp.Processor
		if !sc.Flag {
			proc.SetFailOnFirstErrorInTriggerSequence(false)
		}
		vs := scope.NewScope(scope.GlobalScope)
		vs.SetValue("c10start", &goFunc{func(args []interface{}) (interface{}, error) {
			mu.Lock()
			defer mu.Unlock()
			name := fmt.Sprint(args[0])
			if name == "leaf" {
				leaves++
			} else {
				var j int
				fmt.Sscanf(name, "s%d", &j)
				started = append(started, j+1)
			}
			return nil, nil
		}})
		if _, err := evalProgram("c10", c10sinkSource(sc), vs, erp); err != nil {
			return nil, fmt.Errorf("declaring the sinks: %v", err)
		}
		rules := proc.Rules()
		for j := range sc.Sinks {
			prios = append(prios, rules[fmt.Sprintf("s%d", j)].Priority)
		}
		proc.Start()
		rm := proc.NewRootMonitor(nil, nil)
		if m, err := proc.AddEvent(engine.NewEvent("ev", []string{"c10", "k0"}, nil), rm); err != nil || m == nil {
			return nil, fmt.Errorf("the event was not accepted: %v", err)
		}
		proc.ThreadPool().WaitAll()
		proc.Finish()
		for _, te := range rm.AllErrors() {
			if te.Event.Name() != "ev" {
				continue
			}
			for name := range te.ErrorMap {
				var j int
				fmt.Sscanf(name, "s%d", &j)
				errs = append(errs, j+1)
			}
		}
		sort.Ints(errs)
		return nil, nil
	})
	if r.Panicked || r.TimedOut {
		c.Violate("sink-scenario-panic", "declaring / triggering ECAL sinks panicked or hung: "+r.PanicMsg, sc)
		return
	}
	if r.Err != nil {
		c.Violate("sink-scenario-error", r.Err.Error(), sc)
		return
	}
	c.Dist["sinks_"+family]++
	// (the priority the rule object got is not compared: only the order it produces counts)
	_ = prios
	// events added by actions that ran (the failing one included) are processed
	want := 0
	for _, id := range started {
		if sc.Sinks[id-1].Adds {
			want++
		}
	}
	if leaves != want {
		c.Violate("event-not-processed", fmt.Sprintf("%d child events were added by the sinks that ran, %d were processed", want, leaves), sc)
	}
	flag := 0
	if sc.Flag {
		flag = 1
	}
	data := []int{flag, len(sc.Sinks)}
	for j, sk := range sc.Sinks {
		f := 0
		if sk.Fails {
			f = 1
		}
		data = append(data, j+1, sk.Prio.Int, f)
	}
	data = append(data, len(started))
	data = append(data, started...)
	data = append(data, len(errs))
	data = append(data, errs...)
	id := c.NewID()
	c.Dist["rule_sequences"]++
	c.AddCase(id, c10raw(2, id, data), sc, fmt.Sprintf("%+v", sc), true)
}

func c10sinkPart(c *Ctx) {
	P := c10sinkPool
	n := 0
	// every ordered pair (declaration order = pair order), the failing sink first / second / none
	for i := range P {
		for j := range P {
			for f := -1; f < 2; f++ {
				for _, flag := range []bool{true, false} {
					if !flag && f != 0 && !c.Thorough() {
						continue
					}
					if c.Enough() {
						return
					}
					n++
					c10sinkOne(c, c10SinkScenario{Flag: flag, Sinks: []c10Sink{
						{Prio: P[i], Fails: f == 0, Adds: (i+j)%2 == 0},
						{Prio: P[j], Fails: f == 1, Adds: true}}}, "pairs")
				}
			}
		}
	}
	for k := 0; k < c.Pick(100, 2000) && !c.Enough(); k++ {
		m := 3 + c.Rng.Intn(2)
		sinks := make([]c10Sink, m)
		for j := range sinks {
			sinks[j] = c10Sink{Prio: P[c.Rng.Intn(len(P))], Fails: c.Rng.Intn(3) == 0, Adds: c.Rng.Intn(2) == 0}
		}
		n++
		c10sinkOne(c, c10SinkScenario{Flag: c.Rng.Intn(4) != 0, Sinks: sinks}, "random")
	}
	c.Extra["ecal_sink_scenarios"] = n
}

func runC10(c *Ctx) error {
	c.Rule = "(a) monitor API histories on one cascade: corpus (F15, F16 witnesses), every priority assignment over {0..3} for <=2 children x every protocol-respecting order of activate/skip/finish incl. the root monitor, every assignment for 3 and 4 children x sampled orders (thorough: also {0..5} for 5 and {0..4} for 6 children), random longer histories with interleaved creation and priorities from {-2..100} and the boundary pool {MinInt64, MinInt64+1, -5e18, -2, -1, 0, 1, 2, 5e18, MaxInt64-1, MaxInt64}; HighestPriority() compared after every call.  (b,c) processor scenarios with one worker held by a gate event while the initial events of 1..3 cascades are queued: systematic = one event with 1..3 (thorough 4) rules over priorities {0..3}, the failing rule at every rank / none / two, both settings of fail-on-first-error, every rule adding a child event; reset-history = the flag is set (engine API, or the ECAL runtime provider's default on), then the processor goes 0, 1 or 2 times through Finish(); Reset(); rules added again, before the observed event with a failing non-last rule; boundary = every ordered pair of the boundary pool as the priorities of a 2-rule event (failing rule at each rank / none, both flag settings) and random triples, child monitor priorities from the pool; random = up to 3 levels of event kinds, 1..4 rules each, skipped (non-triggering) child events, priorities -1..4; observed: queue trace (push/pop with the cascade chosen), per-cascade monitor history with HighestPriority() sampled inside every action, per event the action start sequence and the error report.  (d) sinks DECLARED IN ECAL SOURCE on a runtime provider (through sinkRuntime.createRule): priorities written as -1000000000, -2, -1, -0.5, 0, 0.5, 1, 1.7, 2, 1000000000 (rule priority = floor), every ordered pair in declaration order with the failing sink first / second / none, random 3..4-sink events, default flag and flag off; the sink bodies log their start through a Go function, addEvent a child and raise; observed: action start sequence, error report, processing of the added events.  non-trivial = history with a finish or skip / trace with more than one pop / event with several rules or a failing one"
	c.BeginCases("From Coq Require Import List ZArith.\nFrom Ecal Require Import Run.RunC10.\nImport ListNotations.\nOpen Scope Z_scope.", "raw", 1000)
	engine.UnitTestResetIDs()
	config.Config[config.WorkerCount] = 1 // the processor of a runtime provider: one worker, as everywhere here
	c10proc = engine.NewProcessor(1)

	if c.Replay != "" {
		var probe struct {
			Type string `json:"type"`
		}
		if err := c.LoadReplay(&probe); err != nil {
			return err
		}
		if probe.Type == "sinks" {
			var d c10SinkScenario
			if err := c.LoadReplay(&d); err != nil {
				return err
			}
			c10sinkOne(c, d, "replay")
			return nil
		}
		if probe.Type == "mon" {
			var d c10MonCase
			if err := c.LoadReplay(&d); err != nil {
				return err
			}
			c10monOne(c, d.Ops, "replay")
		} else {
			var d c10Scenario
			if err := c.LoadReplay(&d); err != nil {
				return err
			}
			for i := 0; i < 5; i++ { // the cascade choice is random: a few runs
				c10scenarioOne(c, d, "replay")
			}
		}
		return nil
	}
	c10monitorPart(c)
	if !c.Enough() {
		c10scenarioPart(c)
	}
	if !c.Enough() {
		c10sinkPart(c)
	}
	for k := range c.Dist {
		if strings.HasPrefix(k, "scenario_not_driven") {
			c.Notes = append(c.Notes, fmt.Sprintf("%s: %d scenarios could not be driven and were left out", k, c.Dist[k]))
		}
	}
	c.Exhaustive = false
	return nil
}
