//go:build c06

package main

// C06, stream 5 — the interpreter model (coq/Model/Interp.v) against the REAL interpreter on
// whole programs.  A generated program is parsed by the real parser, the real tree is
// serialised (CoqNode) and evaluated by the real runtime (Validate, Eval, recover in this
// harness only); the canonical outcome {value by content, error type, panic} goes into cases
// of Run/RunC06Interp.v, where the model evaluates the SAME tree.
//
// Inputs: a fixed corpus of programs that exercise what the focused models of C03-C06 leave
// out (evaluation order, scopes found again by block, slices sharing their array, the access
// string, the iterator protocol, signals as errors, closures), then seeded random programs:
// valid syntax, ill-typed and boundary operands, nested control flow, functions.

import (
	"fmt"
	"os"
	"strings"
	"time"

)

func init() {
	interpPanicKey = c06panicKey
	register("C06-interp", func(c *Ctx) error { c06interpStream(c); return nil })
	// development aid: print the Coq term of the tree of the program in $VERIF_SRC and its outcome
	register("C06-interp-tree", func(c *Ctx) error {
		o := c06iEval(os.Getenv("VERIF_SRC"), 5*time.Second)
		fmt.Printf("(* %s *)\n%s\n%s\n%s\n%s\n", o.Class, o.Tree, o.Nums, o.Strs, o.Obs)
		return nil
	})
}

const c06interpHeader = "From Coq Require Import ZArith NArith String List.\nFrom Ecal Require Import Common.Ast gen.Tokens Run.RunC06Interp.\nImport ListNotations.\nOpen Scope string_scope."


// c06iOne runs one program and writes its case.
func c06iOne(c *Ctx, family, src string) {
	d := c06case{Stream: "5", Src: src}
	o := c06iEval(src, 5*time.Second)
	c.Dist["s5_"+family+"_"+o.Class]++
	switch o.Class {
	case "timeout":
		c.Dist["timeouts"]++
		c.Count(src, true, d)
		return
	case "parse-error":
		c.Dist["generator_parse_errors"]++
		if len(c.Notes) < 8 {
			c.Notes = append(c.Notes, "stream 5: generated program did not parse: "+src+" :: "+o.Detail)
		}
		return
	case "panic":
		// a panic needs no model: C06_interp_no_panic says the model has none on any input
		// (a panic inside the parser is C07's subject; it is reported here under its own key)
		c.Violate(o.PanicKey, "evaluating the program panicked: "+o.PanicMsg, d)
		c.Count(src, true, d)
		return
	}
	id := c.NewID()
	c.AddCase(id, fmt.Sprintf("mkICase %d%%N %s %s %s %s", id, o.Tree, o.Nums, o.Strs, o.Obs), d, src, o.Class != "value")
}

// ------------------------------------------------------------------------------- corpus

var c06iCorpus = []string{
	// literals, operators, evaluation order
	"1 + 2 * 3",
	"[1, \"a\", true, null, 2.5, [1, [2]], {\"k\" : 1, 2 : [3]}]",
	"[7 // 2, -7 // 2, 7 % 3, -7 % 3, 7 % -3, 1 / 0, -1 / 0, 7.5 % 2]",
	"[1 < 2, \"a\" < \"b\", 1 < \"a\", null < 1, [1] < [2], true >= false, 10 < 9, \"10\" < \"9\"]",
	"[1 == 1, 1 == \"1\", null == null, \"a\" != \"b\", [1] == 1, {} != null]",
	"[1] == [1]",
	"{} != {}",
	"[1 in [1, 2], \"a\" notin [\"b\"], [1] in [1, 2], null in [null]]",
	"1 in [[1]]",
	"[1] in [1, [1]]",
	"1 in 2",
	"[true and false, true or false, not true]",
	"true and 1",
	"1 or true",
	"not 1",
	"-\"a\"",
	"1 + \"a\"",
	"\"a\" + 1",
	"[\"abc\" hasprefix \"ab\", \"abc\" hassuffix \"bc\", 12 hasprefix 1, null hassuffix \">\"]",
	"5 % 0",
	"5 % 0.5",
	"{[1] : 2}",
	"{{} : 2}",
	"{1 : 2, 1 : 3, \"1\" : 4}",
	"x := 0\nfunc f() {\n  x := x + 1\n  return \"a\"\n}\nr := f() >= 1\n[x, r]",
	"x := 0\nfunc f() {\n  x := x + 1\n  return 2\n}\nr := f() >= 1\n[x, r]",
	// variables, scopes
	"a := 1\nb := a + 1\n[a, b, c]",
	"a := 1\nif true {\n  a := 2\n  b := 3\n}\n[a, b]",
	"a := 1\nif true {\n  let a := 2\n  b := a\n}\n[a, b]",
	"r := []\nfor i in range(1, 3) {\n  if true {\n    if x == null {\n      x := i\n    }\n    r := add(r, x)\n  }\n}\nr",
	"r := []\nfor i in range(1, 3) {\n  let y\n  if y == null {\n    y := i\n  }\n  r := add(r, y)\n}\nr",
	"r := []\nfor i in range(1, 3) {\n  if true {\n    y := x\n    x := i\n    r := add(r, y)\n  }\n}\nr",
	"r := []\nfor i in range(1, 2) {\n  for j in range(1, 2) {\n    r := add(r, z)\n    z := j\n  }\n}\nr",
	"r := []\nfor i in range(1, 3) {\n  try {\n    r := add(r, w)\n    w := i\n    raise(\"A\")\n  } except {\n    r := add(r, v)\n    v := i * 10\n  } finally {\n    r := add(r, q)\n    q := i * 100\n  }\n}\nr",
	"r := []\nfunc f(i) {\n  if true {\n    y := x\n    x := i\n    r := add(r, y)\n  }\n}\nf(1)\nf(2)\nr",
	"r := []\nc := 0\nfor c < 3 {\n  c := c + 1\n  mutex mm {\n    r := add(r, t)\n    t := c\n  }\n}\nr",
	"[a, b] := [1, 2]\n[a, b]",
	"[a, b] := [1]\n",
	"[a, b] := 5",
	"[a] := [5]\na",
	"let [a, b] := [1, 2]\n[a, b]",
	"let a.b := 1",
	"1 := 2",
	"[1, a] := [1, 2]",
	// containers, access strings
	"l := [1, 2, 3]\n[l[0], l[-1], l[1 + 1], l[\"1\"]]",
	"l := [1, 2, 3]\nl[3]",
	"l := [1, 2, 3]\nl[-4]",
	"l := [1, 2, 3]\nl[\"a\"]",
	"l := [1, 2, 3]\nl[1.5]",
	"l := [[1, 2], [3, 4]]\nl[1.0]",
	"l := [[1, 2], [3, 4]]\n[l[1][0], l[0][1], l[-1][-1]]",
	"m := {\"a\" : 1, \"b\" : {\"c\" : [5, 6]}, 1 : \"one\", \"2\" : \"two\"}\n[m.a, m[\"a\"], m.b.c[1], m.b[\"c\"][0], m[1], m[2], m.x, m.x.y]",
	"m := {\"a.b\" : 1, \"a\" : {\"b\" : 2}}\nm[\"a.b\"]",
	"m := {1.5 : 1, \"1\" : {\"5\" : 2}}\nm[1.5]",
	"a := 1\na.b",
	"a := 1\na[0]",
	"a := null\na.b",
	"x.y",
	"l := [1, 2, 3]\nl[0] := 9\nl[-1] := 8\nl",
	"l := [1, 2, 3]\nl[3] := 9",
	"l := [1, 2, 3]\nl[\"x\"] := 9",
	"m := {}\nm.a := 1\nm[\"b\"] := 2\nm[3] := 4\nm[3] := 5\nm",
	"m := {1 : 2}\nm[1] := 5\nm[\"1\"] := 6\nm",
	"m := {\"a\" : {}}\nm.a.b := 1\nm.x.y := 2",
	"a := 1\na.b := 2",
	"a := null\na.b := 2",
	"q.b := 2",
	"l := [1, 2, 3]\nk := l\nk[0] := 9\nl",
	"m := {}\nk := m\nk.a := 1\nm",
	// built-ins and slices sharing their array
	"[len([1, 2]), len({}), len({1 : 2})]",
	"len(1)",
	"len()",
	"a := [1, 2, 3]\nb := add(a, 4)\nc := add(a, 5)\n[a, b, c]",
	"a := [1, 2, 3, 4]\nb := add(a, 5)\nc := add(a, 6)\n[a, b, c]",
	"a := [1, 2, 3]\nb := del(a, 0)\n[a, b]",
	"a := [1, 2, 3]\nb := add(a, 9, 1)\n[a, b]",
	"a := [1, 2, 3, 4]\nb := add(a, 9, 1)\n[a, b]",
	"a := [1, 2, 3]\nb := add(a, 9, 3)\nc := add(a, 8, 0)\n[a, b, c]",
	"add([1], 2, 5)",
	"add([1], 2, -1)",
	"add([1], 2, \"1\")",
	"add([1], 2, \"x\")",
	"add(1, 2)",
	"add([1])",
	"add([1], 2, 0, 7)",
	"del([1, 2, 3], 5)",
	"del([1, 2, 3], -1)",
	"del([1, 2, 3], \"1\")",
	"del([1, 2, 3], 1.9)",
	"del([1, 2, 3])",
	"del(1, 2)",
	"m := {1 : 2, \"1\" : 3, \"a\" : 4}\ndel(m, 1)\ndel(m, \"a\")\ndel(m, \"zz\")\nm",
	"concat([1], [2, 3], [])",
	"concat([1], 2)",
	"concat([1])",
	"a := concat([1, 2], [3])\nb := add(a, 4)\nc := add(a, 5)\n[a, b, c]",
	"a := concat([1, 2, 3], [4, 5])\nb := add(a, 6)\nc := add(b, 7)\nd := add(b, 8)\n[a, b, c, d]",
	"l := []\nfor i in range(1, 20) {\n  l := add(l, i)\n}\nk := add(l, 0)\nj := add(l, 1)\n[len(l), k[20], j[20]]",
	"l := []\nfor i in range(1, 40) {\n  l := add(l, i)\n}\nk := add(l, 0)\nj := add(l, 1)\n[len(l), k[40], j[40]]",
	"type(1) == type(1)",
	"[type(1)]",
	"type()",
	"undefinedFunc(1)",
	"a := 1\na(2)",
	"range(3)",
	"r := range(3)",
	// loops
	"r := []\nfor i in range(3) {\n  r := add(r, i)\n}\nr",
	"r := []\nfor i in range(2, 6, 2) {\n  r := add(r, i)\n}\nr",
	"r := []\nfor i in range(5, 1, -2) {\n  r := add(r, i)\n}\nr",
	"r := []\nfor i in range(2, 2) {\n  r := add(r, i)\n}\nr",
	"r := []\nfor i in range(1, 3, 0.5) {\n  r := add(r, i)\n}\nr",
	"r := []\nfor i in range(\"1\", \"3\") {\n  r := add(r, i)\n}\nr",
	"for i in range(\"a\") {\n  1\n}",
	"for i in range() {\n  1\n}",
	"r := []\nfor i in [1, 2, 3] {\n  if i == 2 {\n    continue\n  }\n  r := add(r, i)\n}\nr",
	"r := []\nfor i in [1, 2, 3] {\n  if i == 2 {\n    break\n  }\n  r := add(r, i)\n}\nr",
	"mm := {\"b\" : 1, \"a\" : 2, 3 : 4}\nr := []\nfor [k, v] in mm {\n  r := add(r, [k, v])\n}\nr",
	"mm := {\"b\" : 1, \"a\" : 2}\nr := []\nfor k in mm {\n  r := add(r, k)\n}\nr",
	"for [a, b] in [[1, 2], [3]] {\n  1\n}",
	"for [a, b] in [1] {\n  1\n}",
	"r := []\nfor x in 5 {\n  r := add(r, x)\n}\nr",
	"r := []\nfor x in null {\n  r := add(r, x)\n}\nr",
	"for a.b in [1] {\n  1\n}",
	"for [a, b.c] in [[1, 2]] {\n  1\n}",
	"i := 0\nr := []\nfor i < 3 {\n  i := i + 1\n  if i == 2 {\n    continue\n  }\n  r := add(r, i)\n}\n[i, r]",
	"i := 0\nfor true {\n  i := i + 1\n  if i > 3 {\n    break\n  }\n}\ni",
	"for 1 + \"a\" {\n  1\n}",
	"l := [1, 2, 3]\nr := []\nfor x in l {\n  r := add(r, x)\n  l[2] := 9\n}\nr",
	"l := [1, 2, 3]\nr := []\nfor x in l {\n  r := add(r, x)\n  l := del(l, 0)\n}\n[l, r]",
	"n := 0\nfunc lim() {\n  n := n + 1\n  return 2\n}\nr := []\nfor i in range(lim()) {\n  r := add(r, i)\n}\n[n, r]",
	"r := []\nfor i in range(1, 2) {\n  for j in range(1, 2) {\n    r := add(r, [i, j])\n  }\n}\nr",
	"break",
	"continue",
	"func f() {\n  break\n}\nfor i in [1, 2] {\n  f()\n}\n1",
	"for i in [1] {\n  x := range(2)\n}",
	// try
	"try {\n  1 + \"a\"\n} except {\n  r := 1\n}\nr",
	"try {\n  raise(\"A\", \"detail\", [1])\n} except \"B\" {\n  r := 1\n} except \"A\" as e {\n  r := [e.type, e.detail, e.data, len(e)]\n}\nr",
	"try {\n  raise(\"A\")\n} except \"B\" {\n  r := 1\n}",
	"try {\n  x := 1\n} except {\n  r := 1\n} otherwise {\n  r := 2\n} finally {\n  s := 3\n}\n[r, s, x]",
	"try {\n  raise()\n} except e {\n  r := [e.type, e.detail, e.data, len(e)]\n}\nr",
	"try {\n  1 + null\n} except e {\n  r := [e.type, len(e)]\n}\nr",
	"try {\n  q.b := 1\n} except e {\n  r := [e.type, len(e)]\n}\nr",
	"try {\n  raise(\"A\")\n} finally {\n  r := 1\n}",
	"try {\n  raise(\"A\")\n} except {\n  raise(\"B\")\n} finally {\n  1 + \"x\"\n}",
	"try {\n  raise(\"A\")\n} except {\n  raise(\"B\")\n}",
	"r := []\nfor i in [1, 2, 3] {\n  try {\n    if i == 2 {\n      continue\n    }\n    if i == 3 {\n      break\n    }\n    r := add(r, i)\n  } except {\n    r := add(r, \"caught\")\n  } finally {\n    r := add(r, \"f\")\n  }\n}\nr",
	"func f() {\n  try {\n    return 1\n  } except {\n    return 2\n  } finally {\n    x := 3\n  }\n  return 4\n}\nf()",
	"func f() {\n  try {\n    return 1\n  } finally {\n    return 5\n  }\n}\nf()",
	"try {\n  raise(1, 2, 3)\n} except \"1\" as e {\n  r := [e.type, e.detail, e.data]\n}\nr",
	"try {\n  raise([1, 2], null)\n} except e {\n  r := [e.type, e.detail]\n}\nr",
	"try {\n  5 % 0\n} except \"Runtime error\" {\n  r := 1\n}\nr",
	"try {\n  [1] == [1]\n} except \"Runtime error\" {\n  r := 1\n}\nr",
	"try {\n  try {\n    raise(\"A\")\n  } except \"B\" {\n    r := 1\n  }\n} except \"A\" {\n  r := 2\n}\nr",
	"try {\n  undefinedFunc()\n} except e {\n  r := e.type\n}\nr",
	"return 5",
	"if true {\n  return\n}\n2",
	"raise(\"X\")",
	// functions
	"func f(a, b=2) {\n  return [a, b]\n}\n[f(), f(1), f(1, 3), f(1, 3, 4)]",
	"func f(a) {\n  a := a + 1\n  return a\n}\na := 5\n[f(a), a]",
	"x := 1\nfunc f() {\n  x := x + 1\n}\nf()\nf()\nx",
	"func mk() {\n  c := 0\n  return func () {\n    c := c + 1\n    return c\n  }\n}\nf := mk()\ng := mk()\n[f(), f(), g()]",
	"func f() {\n  1\n  2\n}\nf()",
	"func f() {\n  return\n}\nf()",
	"func f(n) {\n  if n <= 0 {\n    return 0\n  }\n  return n + f(n - 1)\n}\nf(5)",
	"func f() {\n  return {\"a\" : [1, 2], \"g\" : func (x) {\n    return x * 2\n  }}\n}\n[f().a, f().a[1], f().g(4), f()[\"a\"][0]]",
	"func f() {\n  return 1 + \"a\"\n}\nf().x",
	"func f() {\n  return [func () {\n    return 7\n  }]\n}\nf()[0]()",
	"m := {\"f\" : func (x) {\n  return x + 1\n}}\n[m.f(1), m[\"f\"](2)]",
	"l := [func () {\n  return 1\n}]\nl[0]()",
	"len(5).x",
	// the error of an index expression is overwritten by the call signal when a call follows
	"func f() {\n  return 1 + \"a\"\n}\nl := [1]\nr := 0\ntry {\n  l[f()](2)\n} except e {\n  r := e.type\n}\nr",
	"l := [func (x) {\n  return x\n}]\nl[len(5)](3)",
	"m := {\"a\" : func () {\n  return 7\n}}\nm[undefinedFunc()]()",
	"k := 0\nl := []\nfunc f1(p) {\n  n := 2 % k\n  return p\n}\nr := 0\ntry {\n  k := l[f1(l)]\n  (\"1\" hasprefix \"a\")\n} except e {\n  r := e.type\n}\nr",
	"f := func (a) {\n  return a\n}\nmm := {f : 1}\n[f == f, f != null, f(1), mm[f]]",
	"func f(a, b=a) {\n  return b\n}\nf(1)",
	"d := 7\nfunc f(a=d) {\n  return a\n}\nfunc g() {\n  d := 8\n  return f()\n}\ng()",
	"func f() {\n  q.b := 1\n}\ntry {\n  f()\n} except e {\n  r := e.type\n}\nr",
	"func f(a) {\n  return a\n}\nf(1 + \"x\")",
	"func f() {\n  return 1\n}\nf() := 2",
	"func f() {\n  return 1\n}\nm := {}\nm[f()] := 2\nm",
	"mutex a {\n  x := 1\n}\nx",
	"a := 1\nmutex m1 {\n  a := a + 1\n  mutex m1 {\n    a := a + 1\n  }\n}\na",
	"if 0 {\n  1\n} elif \"\" {\n  2\n} else {\n  3\n}",
	"if null {\n  1\n} elif false {\n  2\n} else {\n  3\n}",
	"if [] {\n  1\n}",
	"if 1 + \"a\" {\n  1\n}",
}

// ------------------------------------------------------------------------------- generator

// Typed generation: variables n k (numbers), s (string), l u (lists), m (map), a b (anything);
// an operand is of the wrong kind with a small probability, so that most programs run deep
// and still every kind check is exercised.
type c06iGen struct {
	c      *Ctx
	nloop  int
	nfunc  int
	inLoop int
	inFunc int
	funcs  []string
	nomap  int // > 0 inside the head of if / for: a map literal cannot appear there
}

func (g *c06iGen) n(k int) int              { return g.c.Rng.Intn(k) }
func (g *c06iGen) pick(xs ...string) string { return xs[g.c.Rng.Intn(len(xs))] }
func (g *c06iGen) wrong() bool              { return g.c.Rng.Intn(12) == 0 }

var c06iScalars = []string{"0", "1", "2", "3", "5", "2.5", "0.5", "\"a\"", "\"b\"", "\"1\"", "\"\"", "\"x.y\"", "true", "false", "null", "1e+300"}
var c06iVars = []string{"a", "b", "n", "k", "s", "l", "u", "m"}

func (g *c06iGen) scalar() string { return c06iScalars[g.n(len(c06iScalars))] }

// fresh: a value that holds no reference to an existing container (safe to store: no cycles)
func (g *c06iGen) fresh(d int) string {
	c := g.n(6)
	if d <= 0 {
		c = 5
	}
	if c == 1 && g.nomap > 0 {
		c = 0
	}
	switch c {
	case 0:
		k := g.n(4)
		var a []string
		for i := 0; i < k; i++ {
			a = append(a, g.fresh(d-1))
		}
		return "[" + strings.Join(a, ", ") + "]"
	case 1:
		k := g.n(3)
		var a []string
		for i := 0; i < k; i++ {
			a = append(a, g.pick("\"a\"", "\"b\"", "1", "2", "\"1\"", "true", "null", "2.5")+" : "+g.fresh(d-1))
		}
		return "{" + strings.Join(a, ", ") + "}"
	}
	return g.scalar()
}

func (g *c06iGen) anyE(d int) string {
	switch g.n(7) {
	case 0:
		return g.numE(d)
	case 1:
		return g.boolE(d)
	case 2:
		return g.strE(d)
	case 3:
		return g.listE(d)
	case 4:
		return g.mapE(d)
	case 5:
		return g.pick(c06iVars...)
	}
	return g.accessE(d)
}

func (g *c06iGen) numE(d int) string {
	if g.wrong() {
		return g.anyE(d - 1)
	}
	if d <= 0 {
		return g.pick("0", "1", "2", "3", "5", "2.5", "0.5", "n", "k", "n", "k", "(-1)", "1e+300")
	}
	switch g.n(10) {
	case 0, 1, 2:
		return "(" + g.numE(d-1) + " " + g.pick("+", "-", "*", "/", "//", "%") + " " + g.numE(d-1) + ")"
	case 3:
		return "(" + g.pick("-", "+") + g.numE(d-1) + ")"
	case 4:
		return "len(" + g.pick(g.listE(d-1), g.mapE(d-1)) + ")"
	case 5:
		return "l[" + g.numE(d-1) + "]"
	case 6:
		if len(g.funcs) > 0 {
			return g.call(d - 1)
		}
	}
	return g.numE(0)
}

func (g *c06iGen) boolE(d int) string {
	if g.wrong() {
		return g.anyE(d - 1)
	}
	if d <= 0 {
		return g.pick("true", "false", "(n < 2)", "(k == 1)", "(s == \"a\")")
	}
	switch g.n(8) {
	case 0, 1:
		return "(" + g.numE(d-1) + " " + g.pick("<", "<=", ">", ">=", "==", "!=") + " " + g.numE(d-1) + ")"
	case 2:
		return "(" + g.boolE(d-1) + " " + g.pick("and", "or") + " " + g.boolE(d-1) + ")"
	case 3:
		return "(not " + g.boolE(d-1) + ")"
	case 4:
		return "(" + g.anyE(d-1) + " " + g.pick("in", "notin") + " " + g.listE(d-1) + ")"
	case 5:
		return "(" + g.strE(d-1) + " " + g.pick("hasprefix", "hassuffix", "<", ">=", "==") + " " + g.strE(d-1) + ")"
	case 6:
		return "(" + g.anyE(d-1) + " " + g.pick("==", "!=", "<", ">") + " " + g.anyE(d-1) + ")"
	}
	return g.boolE(0)
}

func (g *c06iGen) strE(d int) string {
	if g.wrong() {
		return g.anyE(d - 1)
	}
	return g.pick("\"a\"", "\"b\"", "\"ab\"", "\"1\"", "\"\"", "\"x.y\"", "s", "s", "m.k")
}

func (g *c06iGen) listE(d int) string {
	if g.wrong() {
		return g.anyE(d - 1)
	}
	if d <= 0 {
		return g.pick("l", "u", "l", "[1, 2]", "[]")
	}
	switch g.n(9) {
	case 0, 1:
		k := g.n(4)
		var a []string
		for i := 0; i < k; i++ {
			a = append(a, g.anyE(d-1))
		}
		return "[" + strings.Join(a, ", ") + "]"
	case 2:
		// add / del return a slice that shares its array with the argument
		return "add(" + g.listE(d-1) + ", " + g.fresh(1) + g.pick("", "", ", "+g.pick("0", "1", "3", "-1", "9", "\"1\"", "\"z\"", "null", "1.5", "n")) + ")"
	case 3:
		return "del(" + g.listE(d-1) + ", " + g.pick("0", "1", "2", "5", "-1", "\"1\"", "1.5", "n", "null") + ")"
	case 4:
		return "concat(" + g.listE(d-1) + ", " + g.listE(d-1) + g.pick("", "", ", [n]") + ")"
	case 5:
		return "m.a"
	}
	return g.listE(0)
}

func (g *c06iGen) mapE(d int) string {
	if g.wrong() {
		return g.anyE(d - 1)
	}
	if d <= 0 || g.nomap > 0 || g.n(2) == 0 {
		return g.pick("m", "m", "m.b")
	}
	k := g.n(3)
	var a []string
	for i := 0; i < k; i++ {
		a = append(a, g.pick("\"a\"", "\"b\"", "1", "\"1\"", "n", "s", "true", "null", "l")+" : "+g.anyE(d-1))
	}
	return "{" + strings.Join(a, ", ") + "}"
}

func (g *c06iGen) accessE(d int) string {
	switch g.n(6) {
	case 0:
		return g.pick("l", "u", "a") + "[" + g.numE(d-1) + "]" + g.pick("", "", "[0]", "[n]")
	case 1:
		return "m[" + g.pick(g.strE(0), g.numE(0), g.anyE(0)) + "]" + g.pick("", "", "[0]", ".x")
	case 2:
		return g.pick("m", "m", "l", "a", "zz") + "." + g.pick("a", "b", "k", "x") + g.pick("", "", ".x", "[0]", "[1]")
	case 3:
		if len(g.funcs) > 0 {
			return g.call(d-1) + g.pick("", ".a", "[0]", "[1]", ".a[0]")
		}
	case 4:
		if g.n(4) == 0 {
			// range only over small literal bounds: a huge bound is a loop that never ends in practice
			return "range(" + g.pick("", "2", "1, 3", "s", "null, 2", "l") + ")"
		}
		return g.pick("type(", "undefinedFunc(", "len(") + g.pick("", g.anyE(0), g.anyE(0)+", "+g.anyE(0)) + ")"
	}
	return g.pick(c06iVars...)
}

func (g *c06iGen) call(d int) string {
	k := g.n(4)
	var a []string
	for i := 0; i < k; i++ {
		a = append(a, g.anyE(d))
	}
	return g.funcs[g.n(len(g.funcs))] + "(" + strings.Join(a, ", ") + ")"
}

// head is an expression for the head of if / for (no map literal)
func (g *c06iGen) head(f func(int) string, d int) string {
	g.nomap++
	defer func() { g.nomap-- }()
	return f(d)
}

func (g *c06iGen) block(d int, ind string) string {
	k := 1 + g.n(3)
	var sb strings.Builder
	for i := 0; i < k; i++ {
		sb.WriteString(g.stmt(d, ind))
	}
	return sb.String()
}

func (g *c06iGen) assign(ind string) string {
	switch g.n(12) {
	case 0, 1:
		return ind + g.pick("n", "k") + " := " + g.numE(2) + "\n"
	case 2:
		return ind + g.pick("a", "b") + " := " + g.anyE(2) + "\n"
	case 3:
		return ind + "s := " + g.strE(1) + "\n"
	case 4:
		return ind + g.pick("l", "u") + " := " + g.listE(2) + "\n"
	case 5:
		return ind + g.pick("l", "u", "a") + "[" + g.numE(1) + "]" + g.pick("", "", "[0]") + " := " + g.fresh(1) + "\n"
	case 6:
		return ind + "m[" + g.pick(g.strE(0), g.numE(0), g.anyE(0)) + "] := " + g.fresh(1) + "\n"
	case 7:
		return ind + g.pick("m", "m", "l", "a", "zz") + "." + g.pick("a", "b", "k", "x") + g.pick("", "", ".c", "[0]") + " := " + g.fresh(1) + "\n"
	case 8:
		return ind + "[" + g.pick("a", "n") + ", " + g.pick("b", "k") + "] := " + g.pick(g.listE(1), "[1, 2]", "[n, k]", "[k, n, 1]", g.anyE(1)) + "\n"
	case 9:
		return ind + "let " + g.pick("n", "a", "s") + " := " + g.anyE(1) + "\n"
	case 10:
		if len(g.funcs) > 0 {
			return ind + g.pick("a", "b", "n") + " := " + g.call(1) + "\n"
		}
	}
	return ind + "r := add(r, " + g.pick("n", "k", "a", "s", "len(l)", g.numE(1)) + ")\n"
}

func (g *c06iGen) stmt(d int, ind string) string {
	if d <= 0 {
		if g.n(4) == 0 {
			return ind + g.anyE(1) + "\n"
		}
		return g.assign(ind)
	}
	switch g.n(20) {
	case 0, 1, 2, 3, 4:
		return g.assign(ind)
	case 5, 6:
		s := ind + "if " + g.head(g.boolE, 2) + " {\n" + g.block(d-1, ind+"  ") + ind + "}"
		if g.n(3) == 0 {
			s += " elif " + g.head(g.anyE, 1) + " {\n" + g.block(d-1, ind+"  ") + ind + "}"
		}
		if g.n(2) == 0 {
			s += " else {\n" + g.block(d-1, ind+"  ") + ind + "}"
		}
		return s + "\n"
	case 7, 8, 9:
		g.inLoop++
		defer func() { g.inLoop-- }()
		v := g.pick("a", "b", "i", "j")
		it := ""
		switch g.n(8) {
		case 0, 1:
			it = "range(" + g.pick("3", "1, 3", "0, 4, 2", "3, 1, -1", "2, 2", "1, 2, 0.5", "\"1\", 2", "len(l)", "0, len(u)", "null", "1, \"x\"") + ")"
		case 2, 3:
			it = g.pick("l", "u", "[1, 2, 3]", "[[1, 2], [3, 4]]")
		case 4:
			it = g.pick("m", "m", "m.b")
			if g.n(2) == 0 {
				v = "[" + g.pick("a", "i") + ", " + g.pick("b", "j") + "]"
			}
		case 5:
			v = "[" + g.pick("a", "i") + ", " + g.pick("b", "j") + "]"
			it = g.pick("[[1, 2], [3, 4]]", "l", "[[1], [2]]", "[1, 2]")
		case 6:
			it = g.head(g.anyE, 1)
		case 7:
			// counting guard loop: the counter is stepped first, nothing else assigns to it
			g.nloop++
			cn := fmt.Sprintf("c%d", g.nloop)
			return ind + cn + " := 0\n" + ind + "for " + cn + " < " + g.pick("2", "3") + " {\n" + ind + "  " + cn + " := " + cn + " + 1\n" + g.block(d-1, ind+"  ") + ind + "}\n"
		}
		return ind + "for " + v + " in " + it + " {\n" + g.block(d-1, ind+"  ") + ind + "}\n"
	case 10, 11, 12:
		s := ind + "try {\n" + g.block(d-1, ind+"  ") + ind + "}"
		switch g.n(6) {
		case 0:
			s += " except {\n" + g.block(d-1, ind+"  ") + ind + "}"
		case 1:
			s += " except e {\n" + ind + "  r := add(r, [e.type, len(e)])\n" + g.block(d-1, ind+"  ") + ind + "}"
		case 2:
			s += " except \"Runtime error\", \"A\" as e {\n" + ind + "  r := add(r, e.type)\n" + g.block(d-1, ind+"  ") + ind + "}"
		case 3:
			s += " except \"A\" {\n" + g.block(d-1, ind+"  ") + ind + "} except {\n" + g.block(d-1, ind+"  ") + ind + "}"
		case 4:
			s += " except \"Operand is not a number\" {\n" + g.block(d-1, ind+"  ") + ind + "} otherwise {\n" + g.block(d-1, ind+"  ") + ind + "}"
		}
		if g.n(3) == 0 || !strings.Contains(s, "except") {
			s += " finally {\n" + g.block(d-1, ind+"  ") + ind + "}"
		}
		return s + "\n"
	case 13, 14:
		// a fresh name per declaration, visible to calls only AFTER its body is generated: no
		// generated function can call itself (unbounded recursion is outside the guarantee)
		g.nfunc++
		name := fmt.Sprintf("f%d", g.nfunc)
		params := g.pick("", "p", "p, q", "p, q=1", "p=2, q=l", "p, q=p", "p=n")
		g.inFunc++
		saved := g.inLoop
		g.inLoop = 0
		body := g.block(d-1, ind+"  ")
		g.inLoop = saved
		g.inFunc--
		ret := ""
		if g.n(5) != 0 {
			// the templates name the parameters; without them the globals n / k stand in
			pn, qn := "p", "q"
			if !strings.Contains(params, "p") {
				pn = "n"
			}
			if !strings.Contains(params, "q") {
				qn = "k"
			}
			ret = ind + "  return " + g.pick(pn, "["+pn+", "+qn+"]", "n", pn+" + 1", g.anyE(1), "{\"a\" : ["+pn+"]}",
				"func (z) {\n"+ind+"    n := n + 1\n"+ind+"    return [z, "+pn+"]\n"+ind+"  }") + "\n"
		}
		g.funcs = append(g.funcs, name)
		return ind + "func " + name + "(" + params + ") {\n" + body + ret + ind + "}\n"
	case 15:
		switch {
		case g.inLoop > 0 && g.n(2) == 0:
			return ind + "if " + g.head(g.boolE, 1) + " {\n" + ind + "  " + g.pick("break", "continue") + "\n" + ind + "}\n"
		case g.inFunc > 0 && g.n(2) == 0:
			return ind + "if " + g.head(g.boolE, 1) + " {\n" + ind + "  return " + g.anyE(1) + "\n" + ind + "}\n"
		case g.n(4) == 0:
			return ind + g.pick("break", "continue", "return "+g.anyE(1)) + "\n"
		}
		return ind + "if " + g.head(g.boolE, 1) + " {\n" + ind + "  raise(" + g.pick("", "\"A\"", "\"A\", \"d\"", "\"B\", null, [1]", "1", "a", "\"Runtime error\"", "[1, 2]", "\"A\", n, m") + ")\n" + ind + "}\n"
	case 16:
		return ind + "mutex mx {\n" + g.block(d-1, ind+"  ") + ind + "}\n"
	case 17:
		if len(g.funcs) > 0 {
			return ind + g.call(1) + "\n"
		}
	}
	return g.assign(ind)
}

func c06iProgram(c *Ctx) string {
	g := &c06iGen{c: c}
	var sb strings.Builder
	sb.WriteString("a := " + g.scalar() + "\n")
	sb.WriteString("b := " + g.scalar() + "\n")
	sb.WriteString("n := " + g.pick("0", "1", "2", "3") + "\n")
	sb.WriteString("k := " + g.pick("1", "2", "0.5", "-1") + "\n")
	sb.WriteString("s := " + g.pick("\"a\"", "\"ab\"", "\"1\"") + "\n")
	sb.WriteString("l := " + g.pick("[1, 2, 3]", "[1, 2, 3, 4]", "[]", "[[1, 2], [3, 4]]", "[\"a\", 2]") + "\n")
	sb.WriteString("m := " + g.pick("{\"a\" : [1, 2], 1 : 2, \"b\" : {\"x\" : 1}, \"k\" : \"v\"}", "{}", "{\"a\" : [3], \"1\" : \"s\", \"k\" : \"a\"}") + "\n")
	sb.WriteString("u := " + g.pick("l", "add(l, 0)", "[5, 6]", "null") + "\n")
	sb.WriteString("r := []\n")
	k := 3 + g.n(4)
	for i := 0; i < k; i++ {
		st := g.stmt(2+g.n(2), "  ")
		if g.n(4) == 0 {
			sb.WriteString(strings.ReplaceAll(st, "\n  ", "\n")[2:])
		} else {
			// keep going after a failure: most statements run inside their own try
			sb.WriteString("try {\n" + st + "} except e {\n  r := add(r, e.type)\n}\n")
		}
	}
	sb.WriteString("[a, b, n, k, s, l, m, u, r]\n")
	return sb.String()
}

// ------------------------------------------------------------------------------- stream

func c06interpStream(c *Ctx) {
	c.flushShard()
	c.BeginCases(c06interpHeader, "case", 50)
	defer func() {
		c.flushShard()
	}()
	if c.Replay != "" {
		var d c06case
		if err := c.LoadReplay(&d); err == nil && d.Stream == "5" {
			c06iOne(c, "replay", d.Src)
		}
		return
	}
	for _, src := range c06iCorpus {
		if c.Enough() {
			return
		}
		c06iOne(c, "corpus", src)
	}
	n := c.Pick(220, 1500)
	for i := 0; i < n; i++ {
		if c.Enough() {
			return
		}
		c06iOne(c, "random", c06iProgram(c))
	}
	c.Rule += "  stream 5 (interpreter model, Model/Interp.v): a fixed corpus of whole programs (evaluation order, block scopes found again, slices sharing their array, access strings, iterator protocol, signals as errors, closures, try / finally) and seeded random programs (depth <= 3, ill-typed and boundary operands, nested control flow, functions with defaults and closures) -> real parse -> the real tree evaluated by the real runtime and by the model: value by content / error type / panic"
}
