//go:build c08

package main

// C08 — byte-level file contents (family "bytes").
//
// The property speaks about FILES ("the in-place format tool never changes what a file does and
// never replaces a file with text that no longer parses") and about string VALUES ("same node
// kinds, values, nesting").  The other families build their sources from "\n" and a string
// alphabet without CR, so no file ever held CR LF, a lone CR, a byte order mark, form feeds or
// trailing blanks INSIDE a multi-line raw string (the only literal form that can hold a literal
// line break) or inside a comment; and a file with an LF-only multi-line raw string shows the
// recorded deviation raw-multiline-string (raw flag only) as its FIRST difference, behind which
// every later difference of the same file stayed unseen.
//
// This file adds
//   * the generator: programs with multi-line raw strings / comments over a byte-level value pool
//     in expression, block, container, call and comment contexts, each program rendered as a
//     file in 18 line-ending / byte-order-mark / blank conventions (the convention is applied to
//     the WHOLE text, i.e. also inside the literals and comments, exactly as an editor saves it);
//   * c08diffTol: tree comparison that steps over the recorded raw-multiline-string shape
//     (raw flag differs, VALUE EQUAL) and reports what lies behind it;
//   * for FormatFiles: string value change as its own key, equal evaluation result of the file
//     before / after, and "a file the parser rejects is left byte-identical" for every generated
//     content that does not parse (generalising the single broken.ecal of the directory test).

import (
	"fmt"
	"strings"
	"time"

	"github.com/krotik/ecal/interpreter"
	"github.com/krotik/ecal/parser"
	"github.com/krotik/ecal/scope"
)

// c08diffTol is c08diff except that a raw string containing a newline which comes back as an
// interpolating string WITH THE SAME VALUE (known finding raw-multiline-string) counts as equal.
func c08diffTol(a, b *parser.ASTNode, path string) (string, *parser.ASTNode, *parser.ASTNode) {
	if a == nil || b == nil {
		if a == b {
			return "", nil, nil
		}
		return path + ": nil node", a, b
	}
	if a.Name != b.Name {
		return fmt.Sprintf("%s: node kind %q vs %q", path, a.Name, b.Name), a, b
	}
	if c08hasValue(a) {
		av, bv := "", ""
		ar, br := false, false
		if a.Token != nil {
			av, ar = a.Token.Val, a.Token.AllowEscapes
		}
		if b.Token != nil {
			bv, br = b.Token.Val, b.Token.AllowEscapes
		}
		if av != bv {
			return fmt.Sprintf("%s: value %q vs %q", path, av, bv), a, b
		}
		if a.Name == parser.NodeSTRING && ar != br && !(c08isRawMultiline(a) && br) {
			return fmt.Sprintf("%s: string %q raw=%v vs raw=%v", path, av, !ar, !br), a, b
		}
	}
	if len(a.Children) != len(b.Children) {
		return fmt.Sprintf("%s: %d vs %d children", path, len(a.Children), len(b.Children)), a, b
	}
	for i := range a.Children {
		if d, x, y := c08diffTol(a.Children[i], b.Children[i], path+">"+a.Children[i].Name); d != "" {
			return d, x, y
		}
	}
	return "", nil, nil
}

// c08isStringValueChange: the first difference is a string literal whose VALUE changed
func c08isStringValueChange(x, y *parser.ASTNode) bool {
	return x != nil && y != nil && x.Name == parser.NodeSTRING && y.Name == parser.NodeSTRING &&
		x.Token != nil && y.Token != nil && x.Token.Val != y.Token.Val
}

// a raw multi-line string whose value would be interpolated once it is read back as a quoted
// string: the recorded deviation changes its evaluation result
func c08isRawMultilineInterp(n *parser.ASTNode) bool {
	return c08isRawMultiline(n) && strings.Contains(n.Token.Val, "{{")
}

func c08evalT(src string, d time.Duration) string {
	vs := scope.NewScope(scope.GlobalScope)
	vs.SetValue("a", float64(7))
	vs.SetValue("b", float64(3))
	vs.SetValue("c", float64(2))
	// own runtime provider: its cron goroutine is stopped again (evalProgram's default provider
	// would leave one ticking goroutine behind per evaluation)
	erp := interpreter.NewECALRuntimeProvider("c08", nil, nil)
	defer erp.Cron.Stop()
	r := guarded(d, func() (interface{}, error) { return evalProgram("c08", src, vs, erp) })
	switch {
	case r.Panicked:
		return "<panic>"
	case r.TimedOut:
		return "<timeout>"
	case r.Err != nil:
		return "<error>"
	}
	return fmt.Sprintf("%T:%v", r.Val, r.Val)
}

// c08evalPair evaluates both texts like c08eval; when exactly one side ran into the time bound
// (a loaded machine, not a property of the program) both are evaluated once more with a bound
// ten times as long, so that a verdict never rests on scheduling.
func c08evalPair(src1, src2 string) (string, string) {
	v1, v2 := c08eval(src1), c08eval(src2)
	if v1 != v2 && (v1 == "<timeout>" || v2 == "<timeout>") {
		v1, v2 = c08evalT(src1, 30*time.Second), c08evalT(src2, 30*time.Second)
	}
	return v1, v2
}

// capped reports a violation, keeping at most 8 inputs per key (the rest is counted)
func (s *c08state) capped(key, what string, desc c08case) {
	s.c.Dist["violations_"+key]++
	if s.c.Dist["violations_"+key] > 8 {
		return
	}
	s.c.Violate(key, what, desc)
}

// behindRawMultiline runs the oracles that the recorded deviation raw-multiline-string used to
// cut off in one(): the rest of the tree, idempotence, evaluation result.
func (s *c08state) behindRawMultiline(desc c08case, t1, t2 *parser.ASTNode, p string) {
	s.c.Dist["behind_raw_multiline"]++
	if d, x, y := c08diffTol(t1, t2, t1.Name); d != "" {
		k := c08class(t1, x, y)
		if k == "" && c08innerPreComment(t1) {
			k = "precomment-inner-token"
		}
		s.violate("tree-differs", k, desc,
			fmt.Sprintf("re-parsing the pretty printed text gives a different tree (beyond the raw flag of a multi-line raw string): %s; printed: %q", d, p))
		return
	}
	p2, r3 := c08print(t2)
	if r3.Panicked || r3.TimedOut || r3.Err != nil {
		s.violate("second-print-fails", "", desc, "PrettyPrint of the re-parsed program failed: "+c08failure(r3))
	} else if p2 != p {
		k := ""
		if c08hasMeta(t1) && c08sameTokens(p, p2) {
			k = "not-idempotent-comments-only"
			if !c08commentsOnlyVanish(p, p2) {
				k = "not-idempotent-comment-text"
			}
		}
		s.violate("not-idempotent", k, desc,
			fmt.Sprintf("pretty printing the pretty printed text changes it: %q then %q", p, p2))
	}
	if desc.Eval && !c08contains(t1, c08isRawMultilineInterp) {
		v1, v2 := c08evalPair(desc.Source, p)
		s.c.Dist["evaluated"]++
		if v1 != v2 {
			k := ""
			if c08contains(t1, c08isTimesDiv) {
				k = "times-div-brackets"
			}
			s.violate("eval-differs", k, desc,
				fmt.Sprintf("evaluating the source gives %s, evaluating the pretty printed text %q gives %s", v1, p, v2))
		}
	}
}

// ---- file conventions ------------------------------------------------------------------

type c08conv struct {
	name string
	f    func(string) string
}

func c08repl(to string) func(string) string {
	return func(s string) string { return strings.ReplaceAll(s, "\n", to) }
}

// every n-th line break starting with break number first (0-based) gets the ending to
func c08some(first, every int, to string) func(string) string {
	return func(s string) string {
		var sb strings.Builder
		k := 0
		for i := 0; i < len(s); i++ {
			if s[i] == '\n' {
				if k >= first && (every == 0 && k == first || every > 0 && (k-first)%every == 0) {
					sb.WriteString(to)
				} else {
					sb.WriteByte('\n')
				}
				k++
				continue
			}
			sb.WriteByte(s[i])
		}
		return sb.String()
	}
}

func c08lastBreak(to string) func(string) string {
	return func(s string) string {
		i := strings.LastIndex(s, "\n")
		if i < 0 {
			return s
		}
		return s[:i] + to + s[i+1:]
	}
}

// the conventions a file may be stored in; each is applied to the whole text
var c08convs = []c08conv{
	{"lf", func(s string) string { return s }},
	{"crlf", c08repl("\r\n")},
	{"crlf-eof", func(s string) string { return strings.ReplaceAll(s, "\n", "\r\n") + "\r\n" }},
	{"mixed-even", c08some(0, 2, "\r\n")},
	{"mixed-odd", c08some(1, 2, "\r\n")},
	{"crlf-second", c08some(1, 0, "\r\n")},
	{"crlf-last", c08lastBreak("\r\n")},
	{"cr", c08repl("\r")},
	{"lfcr", c08repl("\n\r")},
	{"crcrlf", c08repl("\r\r\n")},
	{"bom", func(s string) string { return "\ufeff" + s }},
	{"bom-crlf", func(s string) string { return "\ufeff" + strings.ReplaceAll(s, "\n", "\r\n") }},
	{"trailing-blanks", c08repl(" \t\n")},
	{"trailing-blanks-crlf", c08repl("\t \r\n")},
	{"formfeed", c08repl("\f\n")},
	{"crlf-vtab", c08repl("\r\n\v")},
	{"nel", c08repl("\u0085\n")},
	{"linesep", c08repl("\u2028")},
}

// values of the multi-line raw strings, written with "\n"; the file convention turns the breaks
// into CR LF etc.  Some values carry an explicit CR / CR LF / BOM of their own (an LF file with
// one CR LF inside a literal).
var c08byteValues = []string{
	"a\nb", "\n", "a\n", "\na", "a\n\nb", "a \nb", "a\t\n\tb", " a\n b \n", "k: v\nlen: 0\n\n", "a\fb\nc",
	"\n\n\n", "a\rb", "a\r\nb", "a\r\nb\nc", "a\n\rb", "x{{1+2}}\ny", "a\\\nb", "a\\n\nb", "#\n# x", "/*\n*/ b",
	"a  ", "\ta\t", "a\f", "\ufeffa\nb", "ä\n€", " \n ", "a\n\tb\n\t\tc\n", "a;\nb := 666", "}\n{", "a,\n-1",
	"\r", "\r\n", "\r\r\n", "a\u2028b\n", "a\u0085\nb",
}

var c08bytePieces = []string{"\n", "\n", "\r\n", "\r", "a", "b", " ", "\t", "\f", "\v", "{{1+2}}", "\\", "#", "ä", "\ufeff", ";", "\u2028"}

type c08ctx struct {
	tmpl string
	eval bool
}

// contexts of a literal (%s, %[1]s): result of the program, assignment, length, concatenation,
// function result, container element, block with space / tab indentation, multi-line list,
// next to comments, call argument, several multi-line raw strings in one file, try / raise
var c08byteContexts = []c08ctx{
	{"%s", true},
	{"x := %s\nx", true},
	{"x := %s\nlen(x)", true},
	{"x := %s\n[x + \"|\" + x, len(x)]", true},
	{"func f() {\n    return %s\n}\nf()", true},
	{"m := {\"k\" : %s}\nm.k", true},
	{"l := [1, %s, 3]\nl[1]", true},
	{"x := %[1]s == %[1]s\ny := %[1]s == \"a\\nb\"\n[x, y]", true},
	{"p := r\"q\nr\"\nx := %s\ny := r's\n\tt'\n[p, x, y]", true},
	{"if a > 1 {\n    x := %s\n    y := [x, 1]\n}", false},
	{"for i in [1] {\n\tx := %s\n\tlog(x)\n}", false},
	{"x := [\n    %s,\n    2,\n    3,\n    4,\n    5,\n    6\n]", false},
	{"# before\nx := %s # after\n/* block\n   comment */\ny := 1", false},
	{"foo(%s, 1)\nbar(2)", false},
	{"try {\n    raise(%s)\n} except e {\n    log(e)\n}", false},
	{"x := %s\n\n\n# tail comment", false},
	{"sink s kindmatch [%s] {\n    a := %[1]s\n}", false},
}

// the same material inside comments (%s = the value; line comments get it line by line)
var c08commentContexts = []string{
	"/* %s */\nx := 1\nx",
	"x := 1\n/* %s */\nx",
	"x := 1\ny := 2\n/* %s */",
	"if a {\n    /* %s */\n    x := 1\n}",
	"%L\nx := 1\nx",
	"x := 1 %L\ny := 2",
	"if a {\n    x := 1 %L\n}\n%L",
	"x := [\n    1, %L\n    2\n]",
}

func c08rawForms(v string) []string {
	var res []string
	if !strings.Contains(v, "\"") {
		res = append(res, "r\""+v+"\"")
	}
	if !strings.Contains(v, "'") {
		res = append(res, "r'"+v+"'")
	}
	return res
}

func c08lineComments(v string) string {
	lines := strings.Split(v, "\n")
	for i := range lines {
		lines[i] = "# " + lines[i]
	}
	return strings.Join(lines, "\n")
}

// byteSource runs one file content through all oracles: the PrettyPrint round trip where the
// content parses, and always the FormatFiles directory (parseable: same tree / values / result;
// not parseable: left byte-identical).
func (s *c08state) byteSource(desc c08case, emitModel bool) {
	c := s.c
	c.Dist["bytes_sources"]++
	t1, _ := c08parse(desc.Source)
	if t1 == nil {
		c.Dist["bytes_unparsable"]++
		if len(s.untouched) < c.Pick(500, 6000) {
			s.untouched = append(s.untouched, desc)
		}
		return
	}
	c.Dist["bytes_parsable"]++
	if c08contains(t1, func(n *parser.ASTNode) bool {
		return c08isRawMultiline(n) && strings.Contains(n.Token.Val, "\r\n")
	}) {
		c.Dist["bytes_raw_string_with_crlf"]++
	}
	if c08contains(t1, func(n *parser.ASTNode) bool {
		return n.Name == parser.NodeSTRING && n.Token != nil && !n.Token.AllowEscapes && strings.ContainsAny(n.Token.Val, "\r\f\v\t\ufeff")
	}) {
		c.Dist["bytes_raw_string_with_cr_ff_vt_tab_bom"]++
	}
	s.one(desc, emitModel)
	if len(s.files) < c.Pick(400, 4000)+c.Pick(4000, 30000) {
		if p, r := c08print(t1); !(r.Panicked || r.TimedOut || r.Err != nil) {
			s.files = append(s.files, c08file{desc: desc, t1: t1, p: p, capped: true})
		}
	}
}

// byteLevel generates the family.  Quick tier: every literal in every file convention, the
// context rotating (a second context for the fixed values in every other convention); thorough: all contexts for the fixed
// values, more random values.
func (s *c08state) byteLevel() {
	c := s.c
	values := append([]string{}, c08byteValues...)
	for i := 0; i < c.Pick(20, 150); i++ {
		var sb strings.Builder
		for k := 0; k < 2+c.Rng.Intn(5); k++ {
			sb.WriteString(c08bytePieces[c.Rng.Intn(len(c08bytePieces))])
		}
		values = append(values, sb.String())
	}
	n := 0
	for vi, v := range values {
		fixed := vi < len(c08byteValues)
		for fi, lit := range c08rawForms(v) {
			for ti, conv := range c08convs {
				for xi, ctx := range c08byteContexts {
					if c.Enough() {
						return
					}
					pick := (vi + fi + ti) % len(c08byteContexts)
					switch {
					case c.Thorough() && fixed:
					case c.Thorough():
						if xi != pick && xi != (pick+7)%len(c08byteContexts) {
							continue
						}
					case fixed:
						if xi != pick && (ti%2 == 1 || xi != (pick+7)%len(c08byteContexts)) {
							continue
						}
					default:
						if xi != pick {
							continue
						}
					}
					src := conv.f(fmt.Sprintf(ctx.tmpl, lit))
					n++
					s.byteSource(c08case{"bytes", src, ctx.eval}, n%12 == 0 || c.Thorough() && n%6 == 0)
				}
			}
		}
		// inside comments
		if strings.Contains(v, "*/") {
			continue
		}
		for ti, conv := range c08convs {
			for xi, tmpl := range c08commentContexts {
				if c.Enough() {
					return
				}
				if !(c.Thorough() && fixed) && xi != (vi+ti)%len(c08commentContexts) && !(c.Thorough() && xi == (vi+ti+3)%len(c08commentContexts)) {
					continue
				}
				if !fixed && !c.Thorough() && ti%3 != vi%3 {
					continue
				}
				src := strings.ReplaceAll(tmpl, "%s", v)
				src = strings.ReplaceAll(src, "%L", c08lineComments(v))
				n++
				s.byteSource(c08case{"bytes", conv.f(src), strings.HasSuffix(tmpl, "\nx")}, n%12 == 0 || c.Thorough() && n%6 == 0)
			}
		}
	}
	// the base programs of the comment family and the repository's programs as CR LF / mixed /
	// BOM files (comments, blocks, containers in every convention)
	var bases []string
	bases = append(bases, c08commentBases...)
	for _, src := range c08corpus() {
		if len(src) < 3000 {
			bases = append(bases, src)
		}
	}
	for bi, base := range bases {
		for ti, conv := range c08convs {
			if c.Enough() {
				return
			}
			if conv.name == "lf" || !c.Thorough() && bi >= len(c08commentBases) && ti%6 != bi%6 {
				continue
			}
			n++
			s.byteSource(c08case{"bytes", conv.f(base), false}, false)
		}
	}
	c.Extra["byte_level_sources"] = n
	c.Extra["byte_level_conventions"] = len(c08convs)
}
