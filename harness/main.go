// Command verifharness runs the implementation side of the correspondence checks.
//
//	verifharness <property> -tier quick|thorough -seed N -out DIR [-replay FILE]
//
// Every sub-command writes into DIR: one or more cases_*.v files (inputs together with
// the implementation's observed, canonicalised outputs, evaluated against the Coq model
// by the driver), cases.json (case id -> replayable description) and result.json
// (counts, input distribution, samples, violations of the Spec oracle seen directly).
package main

import (
	"flag"
	"fmt"
	"os"
	"sort"
)

type subcommand func(c *Ctx) error

var commands = map[string]subcommand{}

func register(name string, f subcommand) { commands[name] = f }

func main() {
	if len(os.Args) < 2 {
		usage()
	}
	name := os.Args[1]
	f, ok := commands[name]
	if !ok {
		usage()
	}
	fs := flag.NewFlagSet(name, flag.ExitOnError)
	tier := fs.String("tier", "quick", "quick or thorough")
	seed := fs.Int64("seed", 1, "PRNG seed")
	out := fs.String("out", "", "output directory")
	replay := fs.String("replay", "", "replay file")
	fs.Parse(os.Args[2:])
	if *out == "" {
		fmt.Fprintln(os.Stderr, "missing -out")
		os.Exit(2)
	}
	if err := os.MkdirAll(*out, 0o755); err != nil {
		fmt.Fprintln(os.Stderr, err)
		os.Exit(2)
	}
	c := newCtx(name, *tier, *seed, *out, *replay)
	if err := f(c); err != nil {
		fmt.Fprintln(os.Stderr, "harness error:", err)
		os.Exit(2)
	}
	if err := c.finish(); err != nil {
		fmt.Fprintln(os.Stderr, "harness error:", err)
		os.Exit(2)
	}
}

func usage() {
	names := []string{}
	for n := range commands {
		names = append(names, n)
	}
	sort.Strings(names)
	fmt.Fprintln(os.Stderr, "usage: verifharness <property> -tier T -seed N -out DIR; properties:", names)
	os.Exit(2)
}
