//go:build c05

package main

// C05, stream S — the REAL scope API driven as a state machine: generated sequences of
// NewScope / NewScopeWithParent / NewChild / SetValue / SetLocalValue / GetValue with access
// paths over nested lists and maps; every returned value, ok flag, error (as a class: error
// or not) and panic is compared with coq/Model/Scope.v, call by call.

import (
	"fmt"
	"strings"
	"time"

	"github.com/krotik/ecal/parser"
	"github.com/krotik/ecal/scope"
)

type c05KV struct {
	Num *int64  `json:"n,omitempty"`
	Str *string `json:"s,omitempty"`
	V   *c05Lit `json:"v"`
}

// K: null bool num str fun list map
type c05Lit struct {
	K string    `json:"k"`
	B bool      `json:"b,omitempty"`
	Z int64     `json:"z,omitempty"`
	S string    `json:"s,omitempty"`
	L []*c05Lit `json:"l,omitempty"`
	M []c05KV   `json:"m,omitempty"`
}

// Op: newscope newchild set let setfrom get
type c05Op struct {
	Op     string  `json:"op"`
	S      int     `json:"s"`
	Name   string  `json:"name,omitempty"`
	Parent *int    `json:"parent,omitempty"`
	Path   string  `json:"path,omitempty"`
	V      *c05Lit `json:"v,omitempty"`
	S2     int     `json:"s2,omitempty"`
	Path2  string  `json:"path2,omitempty"`
}

type c05ScopeCase struct {
	Stream string  `json:"stream"`
	Ops    []c05Op `json:"ops"`
}

func (l *c05Lit) toGo() interface{} {
	switch l.K {
	case "null":
		return nil
	case "bool":
		return l.B
	case "num":
		return float64(l.Z)
	case "str":
		return l.S
	case "fun":
		return &goFunc{func(args []interface{}) (interface{}, error) { return nil, nil }}
	case "list":
		r := make([]interface{}, 0, len(l.L))
		for _, x := range l.L {
			r = append(r, x.toGo())
		}
		return r
	case "map":
		r := make(map[interface{}]interface{})
		for _, kv := range l.M {
			if kv.Num != nil {
				r[float64(*kv.Num)] = kv.V.toGo()
			} else {
				r[*kv.Str] = kv.V.toGo()
			}
		}
		return r
	}
	panic("c05: unknown literal kind " + l.K)
}

func (l *c05Lit) toCoq() string {
	switch l.K {
	case "null":
		return "LNull"
	case "bool":
		return "(LBool " + CoqBool(l.B) + ")"
	case "num":
		return "(LNum " + CoqZ(l.Z) + ")"
	case "str":
		return "(LStr " + CoqBytes(l.S) + ")"
	case "fun":
		return "LFun"
	case "list":
		var parts []string
		for _, x := range l.L {
			parts = append(parts, x.toCoq())
		}
		return "(LLst " + CoqList(parts) + ")"
	case "map":
		var parts []string
		for _, kv := range l.M {
			if kv.Num != nil {
				parts = append(parts, "(KNum "+CoqZ(*kv.Num)+", "+kv.V.toCoq()+")")
			} else {
				parts = append(parts, "(KStr "+CoqBytes(*kv.Str)+", "+kv.V.toCoq()+")")
			}
		}
		return "(LMp " + CoqList(parts) + ")"
	}
	panic("c05: unknown literal kind " + l.K)
}

func (o *c05Op) toCoq() string {
	switch o.Op {
	case "newscope":
		if o.Parent == nil {
			return "ANewScope " + CoqBytes(o.Name) + " None"
		}
		return "ANewScope " + CoqBytes(o.Name) + " (Some " + CoqNat(*o.Parent) + ")"
	case "newchild":
		return "ANewChild " + CoqNat(o.S) + " " + CoqBytes(o.Name)
	case "set":
		return "ASet " + CoqNat(o.S) + " " + CoqBytes(o.Path) + " " + o.V.toCoq()
	case "let":
		return "ALet " + CoqNat(o.S) + " " + CoqBytes(o.Path) + " " + o.V.toCoq()
	case "setfrom":
		return "ASetFrom " + CoqNat(o.S) + " " + CoqBytes(o.Path) + " " + CoqNat(o.S2) + " " + CoqBytes(o.Path2)
	case "get":
		return "AGet " + CoqNat(o.S) + " " + CoqBytes(o.Path)
	}
	panic("c05: unknown op " + o.Op)
}

// c05scopeRun executes the operations on the implementation; an operation that refers to a scope
// that does not exist ends the case (returns ok = false).
func c05scopeRun(d *c05ScopeCase) ([]string, bool) {
	var scopes []parser.Scope
	var obs []string
	find := func(s parser.Scope) int {
		for i, x := range scopes {
			if x == s {
				return i
			}
		}
		scopes = append(scopes, s)
		return len(scopes) - 1
	}
	for i := range d.Ops {
		o := &d.Ops[i]
		if o.Op != "newscope" && (o.S < 0 || o.S >= len(scopes)) {
			return nil, false
		}
		if o.Op == "setfrom" && (o.S2 < 0 || o.S2 >= len(scopes)) {
			return nil, false
		}
		if o.Op == "newscope" && o.Parent != nil && (*o.Parent < 0 || *o.Parent >= len(scopes)) {
			return nil, false
		}
		switch o.Op {
		case "newscope":
			var s parser.Scope
			if o.Parent == nil {
				s = scope.NewScope(o.Name)
			} else {
				s = scope.NewScopeWithParent(o.Name, scopes[*o.Parent])
			}
			obs = append(obs, "OScope "+CoqNat(find(s)))
		case "newchild":
			s := scopes[o.S].NewChild(o.Name)
			obs = append(obs, "OScope "+CoqNat(find(s)))
		case "set", "let":
			v := o.V.toGo()
			r := guarded(60*time.Second, func() (interface{}, error) {
				if o.Op == "set" {
					return nil, scopes[o.S].SetValue(o.Path, v)
				}
				return nil, scopes[o.S].SetLocalValue(o.Path, v)
			})
			switch {
			case r.Panicked || r.TimedOut:
				obs = append(obs, "OPanic")
			default:
				obs = append(obs, "ODone "+CoqBool(r.Err != nil))
			}
		case "setfrom":
			r := guarded(60*time.Second, func() (interface{}, error) {
				v, _, _ := scopes[o.S2].GetValue(o.Path2)
				return v, nil
			})
			if r.Panicked || r.TimedOut {
				obs = append(obs, "OPanic")
				break
			}
			r2 := guarded(60*time.Second, func() (interface{}, error) { return nil, scopes[o.S].SetValue(o.Path, r.Val) })
			if r2.Panicked || r2.TimedOut {
				obs = append(obs, "OPanic")
			} else {
				obs = append(obs, "ODone "+CoqBool(r2.Err != nil))
			}
		case "get":
			var ok bool
			r := guarded(60*time.Second, func() (interface{}, error) {
				v, k, err := scopes[o.S].GetValue(o.Path)
				ok = k
				return v, err
			})
			switch {
			case r.Panicked || r.TimedOut:
				obs = append(obs, "OPanic")
			case r.Err != nil:
				obs = append(obs, "OVal [] false true")
			default:
				obs = append(obs, "OVal "+CoqBytes(c05render(r.Val, c05Depth, true))+" "+CoqBool(ok)+" false")
			}
		}
	}
	return obs, true
}

func c05scopeCase(c *Ctx, d *c05ScopeCase) {
	obs, ok := c05scopeRun(d)
	if !ok {
		c.Dist["S_skipped_malformed"]++
		return
	}
	c.Dist["S_"+d.Stream]++
	for _, o := range obs {
		if o == "OPanic" {
			c.Dist["S_with_panic_observation"]++
			break
		}
	}
	var ops []string
	for i := range d.Ops {
		ops = append(ops, d.Ops[i].toCoq())
	}
	id := c.NewID()
	term := fmt.Sprintf("SCase %s %s %s", fmt.Sprintf("%d%%N", id), CoqList(ops), CoqList(obs))
	c.AddCase(id, term, d, strings.Join(ops, ";"), true)
}

// ---- literals and sequences -----------------------------------------------------------------------
func lNum(z int64) *c05Lit { return &c05Lit{K: "num", Z: z} }
func lStr(s string) *c05Lit { return &c05Lit{K: "str", S: s} }
func lList(l ...*c05Lit) *c05Lit { return &c05Lit{K: "list", L: l} }
func kvN(n int64, v *c05Lit) c05KV { return c05KV{Num: &n, V: v} }
func kvS(s string, v *c05Lit) c05KV { return c05KV{Str: &s, V: v} }
func lMap(m ...c05KV) *c05Lit { return &c05Lit{K: "map", M: m} }

func c05scopeCorpus() []*c05ScopeCase {
	g := c05Op{Op: "newscope", Name: "G"}
	set := func(s int, p string, v *c05Lit) c05Op { return c05Op{Op: "set", S: s, Path: p, V: v} }
	let := func(s int, p string, v *c05Lit) c05Op { return c05Op{Op: "let", S: s, Path: p, V: v} }
	get := func(s int, p string) c05Op { return c05Op{Op: "get", S: s, Path: p} }
	child := func(s int, n string) c05Op { return c05Op{Op: "newchild", S: s, Name: n} }
	return []*c05ScopeCase{
		// F08 at the API: number keys of a map
		{"scope-corpus", []c05Op{g, set(0, "m", lMap(kvN(1, lNum(2)))), set(0, "m.1", lNum(5)), get(0, "m.1"), get(0, "m")}},
		{"scope-corpus", []c05Op{g, set(0, "m", lMap(kvN(1, lMap(kvN(2, lNum(3)))))), set(0, "m.1.2", lNum(9)), get(0, "m.1.2"), get(0, "m")}},
		{"scope-corpus", []c05Op{g, set(0, "m", lMap(kvS("1", lNum(3)), kvN(1, lNum(2)))), get(0, "m.1"), set(0, "m.1", lNum(7)), get(0, "m")}},
		// a null container is not a container
		{"scope-corpus", []c05Op{g, set(0, "x", &c05Lit{K: "null"}), set(0, "x.a", lNum(1)), get(0, "x.a")}},
		// child scopes are re-used by name; nearest definition; let
		{"scope-corpus", []c05Op{g, set(0, "a", lNum(1)), child(0, "b"), child(0, "b"), child(0, "c"), set(1, "a", lNum(2)), set(1, "z", lNum(3)),
			get(0, "a"), get(0, "z"), get(1, "z"), let(2, "a", lNum(4)), get(2, "a"), get(0, "a"), child(1, "b"), get(3, "z"), get(3, "q")}},
		// lists: negative, out of range (errors since 07794bb, never panics), not a number
		{"scope-corpus", []c05Op{g, set(0, "l", lList(lNum(1), lNum(2), lNum(3))), get(0, "l.-1"), set(0, "l.-3", lNum(9)), get(0, "l.0"), get(0, "l.3"),
			get(0, "l.-4"), set(0, "l.-4", lNum(0)), set(0, "l.3", lNum(0)), get(0, "l.x"), set(0, "l.x", lNum(0)), get(0, "l.+1"), get(0, "l.01"), get(0, "l"), get(0, "l..0"), get(0, "")}},
		// aliasing through a second name
		{"scope-corpus", []c05Op{g, set(0, "a", lMap(kvS("x", lList(lNum(1))))), {Op: "setfrom", S: 0, Path: "b", S2: 0, Path2: "a.x"}, set(0, "b.0", lNum(5)), get(0, "a"), let(0, "c.0", lNum(1)), get(0, "c")}},
	}
}

func c05scopeLit(c *Ctx, d int) *c05Lit {
	r := c.Rng.Intn
	k := r(9)
	if d == 0 && k >= 6 {
		k = r(6)
	}
	switch k {
	case 0:
		return &c05Lit{K: "null"}
	case 1:
		return &c05Lit{K: "bool", B: r(2) == 0}
	case 2, 3:
		return lNum(int64(r(9) - 2))
	case 4:
		return lStr([]string{"s", "1", "x", ""}[r(4)])
	case 5:
		return &c05Lit{K: "fun"}
	case 6, 7:
		l := &c05Lit{K: "list"}
		for i := r(4); i > 0; i-- {
			l.L = append(l.L, c05scopeLit(c, d-1))
		}
		return l
	}
	m := &c05Lit{K: "map"}
	for i := r(4); i > 0; i-- {
		if r(2) == 0 {
			m.M = append(m.M, kvN(int64(r(3)), c05scopeLit(c, d-1)))
		} else {
			m.M = append(m.M, kvS([]string{"x", "y", "1", "0", "-1"}[r(5)], c05scopeLit(c, d-1)))
		}
	}
	return m
}

func c05scopePath(c *Ctx) string {
	r := c.Rng.Intn
	if r(40) == 0 {
		return []string{"", ".", "a.", ".a", "a..x", "a.x."}[r(6)]
	}
	p := []string{"a", "b", "c"}[r(3)]
	fields := []string{"x", "y", "0", "1", "2", "-1", "-2", "3", "-4", "+1", "01", "k", "1x"}
	n := 0
	switch r(8) {
	case 0, 1, 2:
		n = 1
	case 3, 4:
		n = 2
	case 5:
		n = 3
	}
	for i := 0; i < n; i++ {
		p += "." + fields[r(len(fields))]
	}
	return p
}

func c05scopeRandom(c *Ctx) *c05ScopeCase {
	r := c.Rng.Intn
	d := &c05ScopeCase{Stream: "scope-random", Ops: []c05Op{{Op: "newscope", Name: "G"}}}
	n := 1
	children := map[string]bool{}
	for i := 6 + r(20); i > 0; i-- {
		s := r(n)
		switch r(14) {
		case 0:
			// scopes are numbered in creation order: a child that already exists keeps its number
			nm := []string{"b1", "b2", "f"}[r(3)]
			d.Ops = append(d.Ops, c05Op{Op: "newchild", S: s, Name: nm})
			k := fmt.Sprintf("%d/%s", s, nm)
			if !children[k] {
				children[k] = true
				n++
			}
		case 1:
			if r(2) == 0 {
				d.Ops = append(d.Ops, c05Op{Op: "newscope", Name: "r"})
			} else {
				p := s
				d.Ops = append(d.Ops, c05Op{Op: "newscope", Name: "fn", Parent: &p})
			}
			n++
		case 2, 3, 4, 5:
			d.Ops = append(d.Ops, c05Op{Op: "set", S: s, Path: c05scopePath(c), V: c05scopeLit(c, 2)})
		case 6:
			d.Ops = append(d.Ops, c05Op{Op: "let", S: s, Path: c05scopePath(c), V: c05scopeLit(c, 2)})
		case 7:
			d.Ops = append(d.Ops, c05Op{Op: "setfrom", S: s, Path: c05scopePath(c), S2: r(n), Path2: c05scopePath(c)})
		default:
			d.Ops = append(d.Ops, c05Op{Op: "get", S: s, Path: c05scopePath(c)})
		}
	}
	return d
}
