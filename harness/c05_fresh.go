//go:build c05

package main

// C05 — stream "fresh": every evaluation of a container literal creates NEW containers, at
// every nesting level.
//
// The property says lists and maps are passed by reference, that a function call has fresh
// locals, and that `c[k] := v` is seen through `c` (and its aliases) only; the reference
// semantics (Spec/LexSpec.v: EList / EMap allocate a new cell, after evaluating their items,
// each time they are evaluated) therefore makes the results of two evaluations of the SAME
// literal — two calls of the function whose body holds it, two iterations of the loop whose body
// holds it, two calls that fall back to the same parameter default, two calls of a method or of
// a closure, two levels of a recursion — independent values: an in-place write through one
// result (x[i][j] := v, x.k[j] := v) must never show through another one.
//
// The family: a literal with nested containers (lists in lists, maps in lists, lists in maps;
// constants only, with strings, or with a computed item) placed at ONE program point that is
// evaluated several times; a write path of length >= 2 into a nested container of one result
// (also an increment of what is there, so that sharing accumulates); the other results are
// evaluated before and after the write; everything is read back (marker trace of all results,
// probes at the written path, the globals).  The oracle is the reference semantics, run inside
// Coq on the same program (Run/RunC05.v) — nothing here knows what the results should be.

// one step into a literal: position i of a list of n items, or a map key
type c05step struct {
	isList bool
	i, n   int
	key    *c05Expr
}

type c05lpath struct {
	steps []c05step
	num   bool // the item at the end is a number
	leaf  bool // the item at the end is not a container
}

// mostly paths that end at an item which is not a container (a write there leaves every other
// path usable)
func (g *c05gen) freshPath(paths []c05lpath) c05lpath {
	p := paths[g.n(len(paths))]
	for k := 0; k < 3 && !p.leaf; k++ {
		p = paths[g.n(len(paths))]
	}
	return p
}

type c05litGen struct {
	g        *c05gen
	maps     bool // maps as well as lists
	strs     bool // string items
	computed bool // some items are computed (1 + 2): the literal is not made of constants only
	paths    []c05lpath
}

func (lg *c05litGen) leaf() *c05Expr {
	g := lg.g
	switch g.n(7) {
	case 0:
		return eBool(g.n(2) == 0)
	case 1:
		return eNull()
	case 2:
		if lg.strs {
			return eStr(g.pick(c05strs))
		}
	case 3:
		if lg.computed {
			return eBin("+", eNum(int64(g.n(3))), eNum(int64(g.n(3))))
		}
	}
	return eNum(int64(g.n(5)))
}

// a container literal of nesting depth d (>= 1); every path of length >= 2 is recorded
func (lg *c05litGen) node(d int, prefix []c05step) *c05Expr {
	g := lg.g
	n := 1 + g.n(3)
	isMap := lg.maps && g.n(3) == 0
	forced := -1
	if d > 1 {
		forced = g.n(n)
	}
	keys := []*c05Expr{eNum(0), eNum(1), eNum(2), eStr("x"), eStr("y"), eStr("z")}
	g.rng().Shuffle(len(keys), func(i, j int) { keys[i], keys[j] = keys[j], keys[i] })
	r := &c05Expr{K: "list"}
	if isMap {
		r.K = "map"
	}
	for i := 0; i < n; i++ {
		st := c05step{isList: !isMap, i: i, n: n, key: keys[i]}
		p := append(append([]c05step{}, prefix...), st)
		var child *c05Expr
		if d > 1 && (i == forced || g.n(3) == 0) {
			child = lg.node(d-1, p)
		} else {
			child = lg.leaf()
		}
		if len(p) >= 2 {
			lg.paths = append(lg.paths, c05lpath{steps: p, num: child.K == "num" || child.K == "bin", leaf: child.K != "list" && child.K != "map"})
		}
		if isMap {
			r.Kvs = append(r.Kvs, [2]*c05Expr{c05copyKey(keys[i]), child})
		} else {
			r.Es = append(r.Es, child)
		}
	}
	return r
}

func c05copyKey(k *c05Expr) *c05Expr {
	if k.K == "str" {
		return eStr(k.S)
	}
	return eNum(k.Z)
}

// the accessors of a path: list positions from the front or from the end, string keys with dot
// or bracket
func (g *c05gen) freshAccs(pre []*c05Acc, p c05lpath) []*c05Acc {
	accs := append([]*c05Acc{}, pre...)
	for _, s := range p.steps {
		switch {
		case s.isList && g.n(3) == 0:
			accs = append(accs, idx(eNum(int64(s.i-s.n))))
		case s.isList:
			accs = append(accs, idx(eNum(int64(s.i))))
		case s.key.K == "str" && g.n(2) == 0:
			accs = append(accs, dot(s.key.S))
		default:
			accs = append(accs, idx(c05copyKey(s.key)))
		}
	}
	return accs
}

// x<pre><path> := v — a new scalar, or what is there plus something (so that a container shared
// between results accumulates)
func (g *c05gen) freshWrite(x string, pre []*c05Acc, p c05lpath) *c05Stmt {
	accs := g.freshAccs(pre, p)
	if p.num && g.n(2) == 0 {
		return sAssignP(x, accs, eBin("+", ePath(x, g.freshAccs(pre, p)...), eNum(int64(1+g.n(3)))))
	}
	switch g.n(6) {
	case 0:
		return sAssignP(x, accs, eStr(g.pick(c05strs)))
	case 1:
		return sAssignP(x, accs, eList(eNum(int64(50+g.n(9)))))
	}
	return sAssignP(x, accs, eNum(int64(100+g.n(50))))
}

func (g *c05gen) freshLiteral() (*c05Expr, []c05lpath) {
	lg := &c05litGen{g: g}
	switch g.n(3) {
	case 1:
		lg.maps, lg.strs = true, true
	case 2:
		lg.maps, lg.strs, lg.computed = true, g.n(2) == 0, true
	}
	d := 2
	if g.n(4) == 0 {
		d = 3
	}
	lit := lg.node(d, nil)
	return lit, lg.paths
}

// results a, b (, c) of an "evaluate the literal once more" expression, with writes through
// results that exist already in between, then all of them are read
func (g *c05gen) freshResults(ev func(i int) []*c05Stmt, pre []*c05Acc, paths []c05lpath) ([]*c05Stmt, []*c05Expr) {
	names := []string{"a", "b", "c"}[:2+g.n(2)]
	var ss []*c05Stmt
	var used []c05lpath
	writes := 0
	for i := range names {
		ss = append(ss, ev(i)...)
		last := i == len(names)-1
		for k := g.n(3); k > 0 || (last && writes == 0); k-- {
			p := g.freshPath(paths)
			ss = append(ss, g.freshWrite(names[g.n(i+1)], pre, p))
			used = append(used, p)
			writes++
			if k <= 0 {
				break
			}
		}
	}
	var all, probes []*c05Expr
	for _, n := range names {
		all = append(all, eVar(n))
	}
	ss = append(ss, sMark(eList(all...)))
	for _, p := range used {
		for _, n := range names {
			probes = append(probes, ePath(n, g.freshAccs(pre, p)...))
		}
		if len(probes) >= 4 {
			break
		}
	}
	return ss, probes
}

func (g *c05gen) freshProgram() *c05Prog {
	lit, paths := g.freshLiteral()
	path := func() c05lpath { return g.freshPath(paths) }
	var ss []*c05Stmt
	var probes []*c05Expr
	kind := g.n(12)
	switch kind {
	case 0, 1, 2:
		// the literal in a function body; sometimes the function writes into it before it
		// returns it
		var body []*c05Stmt
		switch g.n(4) {
		case 0:
			body = blk(sReturn(lit))
		case 1:
			body = blk(sLet("e", lit), sReturn(eVar("e")))
		case 2:
			body = blk(sLet("e", lit), g.freshWrite("e", nil, path()), sReturn(eVar("e")))
		default:
			body = blk(sLet("e", eList(lit)), sIf(eBool(true), blk(g.freshWrite("e", []*c05Acc{idx(eNum(0))}, path())), nil),
				sReturn(ePath("e", idx(eNum(0)))))
		}
		ss = blk(sFunc("d", nil, body...))
		rs, ps := g.freshResults(func(i int) []*c05Stmt {
			return blk(sAssign([]string{"a", "b", "c"}[i], eCall("d", nil)))
		}, nil, paths)
		ss, probes = append(ss, rs...), ps
	case 3, 4:
		// the literal as a parameter default
		var f *c05Stmt
		var args []*c05Expr
		if g.n(2) == 0 {
			f = sFunc("d", []c05Param{{Name: "e", Dflt: lit}}, sReturn(eVar("e")))
		} else {
			f = sFunc("d", []c05Param{{Name: "g"}, {Name: "e", Dflt: lit}}, sReturn(eVar("e")))
			args = []*c05Expr{eNum(1)}
		}
		ss = blk(f)
		rs, ps := g.freshResults(func(i int) []*c05Stmt {
			return blk(sAssign([]string{"a", "b", "c"}[i], eCall("d", nil, args...)))
		}, nil, paths)
		ss, probes = append(ss, rs...), ps
	case 5:
		// a returned closure evaluates the literal; a second closure of the same function too
		ss = blk(sFunc("d", nil, sReturn(eFunc(nil, sReturn(lit)))), sAssign("g", eCall("d", nil)))
		rs, ps := g.freshResults(func(i int) []*c05Stmt {
			if i == 2 {
				return blk(sAssign("e", eCall("d", nil)), sAssign("c", eCall("e", nil)))
			}
			return blk(sAssign([]string{"a", "b"}[i], eCall("g", nil)))
		}, nil, paths)
		ss, probes = append(ss, rs...), ps
	case 6:
		// a method of an object
		ss = blk(sAssign("g", eMap(eStr("x"), eNum(1), eStr("mk"), eFunc(nil, sReturn(lit)))),
			sAssign("e", eBuiltin("new", eVar("g"))))
		rs, ps := g.freshResults(func(i int) []*c05Stmt {
			if i == 2 {
				return blk(sAssign("d", eBuiltin("new", eVar("g"))), sAssign("c", eCall("d", []*c05Acc{dot("mk")})))
			}
			return blk(sAssign([]string{"a", "b"}[i], eCall("e", []*c05Acc{dot("mk")})))
		}, nil, paths)
		ss, probes = append(ss, rs...), ps
	case 7:
		// objects made from templates that a function builds: the property `y` of each object
		ss = blk(sFunc("d", nil, sReturn(eMap(eStr("x"), eNum(1), eStr("y"), lit))))
		pre := []*c05Acc{dot("y")}
		rs, ps := g.freshResults(func(i int) []*c05Stmt {
			return blk(sAssign([]string{"a", "b", "c"}[i], eBuiltin("new", eCall("d", nil))))
		}, pre, paths)
		ss, probes = append(ss, rs...), ps
	case 8, 9:
		// the literal in a loop body: every iteration changes its own container and keeps it
		body := blk(sLet("a", lit), g.freshWrite("a", nil, path()))
		if g.n(2) == 0 {
			p := path()
			body = append(body, sAssignP("a", g.freshAccs(nil, p), eVar("e")))
		}
		body = append(body, sAssign("g", eBuiltin("add", eVar("g"), eVar("a"))))
		ss = blk(sAssign("g", eList()), sFor("e", c05items(2+g.n(2)), body...),
			sMark(eVar("g")))
		probes = pv("g")
	case 10:
		// a loop collects the results of calls, then one of them is written
		ss = blk(sFunc("d", nil, sReturn(lit)), sAssign("g", eList()),
			sFor("e", eList(eNum(0), eNum(1), eNum(2)), sAssign("g", eBuiltin("add", eVar("g"), eCall("d", nil)))))
		for k := 1 + g.n(2); k > 0; k-- {
			p := path()
			pre := []*c05Acc{idx(eNum(int64(g.n(3))))}
			ss = append(ss, g.freshWrite("g", pre, p))
			probes = append(probes, ePath("g", g.freshAccs([]*c05Acc{idx(eNum(int64(g.n(3))))}, p)...))
		}
		ss = append(ss, sMark(eVar("g")))
	default:
		// every level of a recursion contributes its own evaluation
		ss = blk(sFunc("d", prm("e"),
			sIf(eBin("<", eVar("e"), eNum(1)), blk(sReturn(eList())), nil),
			sReturn(eBuiltin("add", eCall("d", nil, eBin("-", eVar("e"), eNum(1))), lit))),
			sAssign("g", eCall("d", nil, eNum(int64(2+g.n(2))))))
		for k := 1 + g.n(2); k > 0; k-- {
			p := path()
			pre := []*c05Acc{idx(eNum(int64(g.n(2))))}
			ss = append(ss, g.freshWrite("g", pre, p))
			probes = append(probes, ePath("g", g.freshAccs([]*c05Acc{idx(eNum(int64(g.n(2))))}, p)...))
		}
		ss = append(ss, sMark(eVar("g")))
	}
	return c05prog("fresh", probes, ss...)
}

// [0, 1, ..] with n items
func c05items(n int) *c05Expr {
	var es []*c05Expr
	for i := 0; i < n; i++ {
		es = append(es, eNum(int64(i)))
	}
	return eList(es...)
}

// fixed programs of the same family
func c05freshCorpus() []*c05Prog {
	n := eNum
	s := eStr
	v := eVar
	i := func(z int64) *c05Acc { return idx(eNum(z)) }
	return []*c05Prog{
		// two calls of a function that returns a board
		c05prog("corpus", []*c05Expr{ePath("a", i(0), i(1)), ePath("b", i(0), i(1))},
			sFunc("d", nil, sLet("e", eList(eList(n(0), n(0)), eList(n(0), n(0)))), sReturn(v("e"))),
			sAssign("a", eCall("d", nil)), sAssignP("a", []*c05Acc{i(0), i(1)}, n(7)),
			sAssign("b", eCall("d", nil)), sMark(eList(v("a"), v("b")))),
		// a counter per iteration
		c05prog("corpus", pv("g"),
			sAssign("g", eList()),
			sFor("e", eList(n(0), n(1), n(2)),
				sLet("a", eList(eList(n(0), eBool(false)), eNull())),
				sAssignP("a", []*c05Acc{i(0), i(0)}, eBin("+", ePath("a", i(0), i(0)), n(1))),
				sAssignP("a", []*c05Acc{i(1)}, v("e")),
				sAssign("g", eBuiltin("add", v("g"), v("a")))),
			sMark(v("g"))),
		// a parameter default with a map and a list in a list
		c05prog("corpus", []*c05Expr{ePath("c", i(0), dot("x")), ePath("c", i(1))},
			sFunc("d", []c05Param{{Name: "e", Dflt: eList(eMap(s("x"), eList(n(1), n(2))), eList(n(3)))}}, sReturn(v("e"))),
			sAssign("a", eCall("d", nil)), sAssign("b", eCall("d", nil)),
			sAssignP("a", []*c05Acc{i(0), dot("x"), i(1)}, n(9)), sAssignP("b", []*c05Acc{i(1), i(0)}, n(8)),
			sAssign("c", eCall("d", nil)), sMark(eList(v("a"), v("b"), v("c")))),
		// lists in a map, a map in a list in a map
		c05prog("corpus", []*c05Expr{ePath("b", dot("x"), i(0), dot("y")), ePath("b", i(0))},
			sFunc("d", nil, sReturn(eMap(s("x"), eList(eMap(s("y"), n(1))), n(0), eList(n(1), n(2))))),
			sAssign("a", eCall("d", nil)), sAssign("b", eCall("d", nil)),
			sAssignP("a", []*c05Acc{dot("x"), i(0), dot("y")}, n(5)), sAssignP("a", []*c05Acc{i(0), i(-1)}, n(6)),
			sMark(eList(v("a"), v("b")))),
		// a method, two objects
		c05prog("corpus", []*c05Expr{ePath("a", i(-1), i(0)), ePath("b", i(-1), i(0)), ePath("c", i(-1), i(0))},
			sAssign("g", eMap(s("mk"), eFunc(nil, sReturn(eList(n(1), eList(eNull(), eBool(true))))))),
			sAssign("e", eBuiltin("new", v("g"))), sAssign("d", eBuiltin("new", v("g"))),
			sAssign("a", eCall("e", []*c05Acc{dot("mk")})), sAssign("b", eCall("e", []*c05Acc{dot("mk")})),
			sAssignP("b", []*c05Acc{i(1), i(0)}, s("s")), sAssign("c", eCall("d", []*c05Acc{dot("mk")})),
			sMark(eList(v("a"), v("b"), v("c")))),
	}
}
