//go:build c18

package main

// C18 — tokens, errors and breakpoints carry the true source position.
//
// Implementation side: parser.LexToList on generated source texts; every token is written
// with all its fields into a Coq case.  The Coq side (Run/RunC18.v) recomputes line/column
// from Pos (the Spec), checks that the token's text is at Pos, and compares the whole list
// with the model's token list.  One table case per run carries the Go tables the model
// copies.  Checked on the Go side only: Line/Pos of parser errors and runtime errors for
// programs with a planted error against the line/column of the planted byte offset.

import (
	"encoding/hex"
	"fmt"
	"sort"
	"strings"
	"time"
	"unicode"

	"github.com/krotik/ecal/parser"
	"github.com/krotik/ecal/util"
)

func init() { register("C18", runC18) }

type c18case struct {
	Kind  string `json:"kind"`           // "lex" | "parse-error" | "runtime-error" | "tables"
	Hex   string `json:"hex"`            // the source text, hexadecimal (it need not be valid UTF-8)
	Text  string `json:"text"`           // the same, Go-quoted, for the reader
	Off   int    `json:"off"`            // planted byte offset (error kinds)
	From  string `json:"from"`           // generator
	Hex2  string `json:"hex2,omitempty"` // kind "separation": the same program without the comments
	Text2 string `json:"text2,omitempty"`
}

func c18mk(kind, src, from string, off int) c18case {
	return c18case{Kind: kind, Hex: hex.EncodeToString([]byte(src)), Text: fmt.Sprintf("%q", src), Off: off, From: from}
}

func c18hx(s string) string { return "(hx \"" + hex.EncodeToString([]byte(s)) + "\")" }

func c18z(n int) string {
	if n < 0 {
		return fmt.Sprintf("(%d)", n)
	}
	return fmt.Sprint(n)
}

// linecol is the Spec (Spec/PositionSpec.v linecol_walk) on the Go side, used for the
// planted-error checks only.
func c18linecol(src string, off int) (int, int) {
	line, col := 1, 1
	for i := 0; i < off && i < len(src); i++ {
		if src[i] == '\n' {
			line++
			col = 1
		} else {
			col++
		}
	}
	return line, col
}

// c18defectCol is the column the known line-comment defect predicts for byte offset off:
// counted from the last newline before off that did not end a # line comment (the lexer
// leaves lastnl alone there).  Which newlines end a line comment is taken from Pos/Val of
// the implementation's POSTCOMMENT tokens.  ok = the prediction differs from the true column.
func c18defectCol(src string, off int) (col int, ok bool) {
	term := map[int]bool{}
	r := guarded(3*time.Second, func() (interface{}, error) { return parser.LexToList("c18", src), nil })
	if r.TimedOut || r.Panicked {
		return 0, false
	}
	for _, t := range r.Val.([]parser.LexToken) {
		if t.ID == parser.TokenPOSTCOMMENT && strings.HasSuffix(t.Val, "\n") {
			term[t.Pos+len(t.Val)-1] = true
		}
	}
	lastnl, truenl := 0, 0
	for i := 0; i < off && i < len(src); i++ {
		if src[i] == '\n' {
			truenl = i + 1
			if !term[i] {
				lastnl = i + 1
			}
		}
	}
	return off - lastnl + 1, lastnl != truenl
}

// c18violate records a violation; of the known-finding keys only the first 20 each are kept
// as violations (the rest is counted), so that they cannot trigger the flood stop.
func c18violate(c *Ctx, key, desc string, replay interface{}) {
	if strings.HasPrefix(key, "line-comment-column") {
		c.Dist["known_"+key]++
		if c.Dist["known_"+key] > 20 {
			return
		}
	}
	c.Violate(key, desc, replay)
}

func c18lex(c *Ctx, src, from string) {
	desc := c18mk("lex", src, from, 0)
	r := guarded(3*time.Second, func() (interface{}, error) { return parser.LexToList("c18", src), nil })
	if r.TimedOut {
		c.Violate("lexer-nontermination", "LexToList did not return within 3s", desc)
		c.Count(desc.Hex, true, desc)
		return
	}
	if r.Panicked {
		c.Violate("lexer-panic", "LexToList panicked: "+r.PanicMsg, desc)
		c.Count(desc.Hex, true, desc)
		return
	}
	toks := r.Val.([]parser.LexToken)
	items := make([]string, 0, len(toks))
	lines := map[int]bool{}
	kinds := 0
	for _, t := range toks {
		val := t.Val
		if t.ID == parser.TokenError {
			val = "" // the message text is not an observable
			c.Dist["tokens_error"]++
		}
		switch t.ID {
		case parser.TokenPRECOMMENT:
			c.Dist["tokens_block_comment"]++
			kinds |= 1
		case parser.TokenPOSTCOMMENT:
			c.Dist["tokens_line_comment"]++
			kinds |= 2
		case parser.TokenSTRING:
			c.Dist["tokens_string"]++
			if strings.Contains(t.Val, "\n") {
				c.Dist["tokens_string_multiline"]++
			}
			kinds |= 4
		}
		lines[t.Lline] = true
		items = append(items, fmt.Sprintf("T %d %d %s %s %s %d %s %s", int(t.ID), t.Pos, c18hx(val),
			CoqBool(t.Identifier), CoqBool(t.AllowEscapes), t.PrefixNewlines, c18z(t.Lline), c18z(t.Lpos)))
	}
	c.Dist["tokens"] += len(toks)
	id := c.NewID()
	term := fmt.Sprintf("CLex %d%%N %s %s", id, c18hx(src), CoqList(items))
	nontrivial := len(lines) > 1 && kinds != 0
	if nontrivial {
		c.Dist["multi_line_with_comment_or_string"]++
	}
	c.Dist["from_"+from]++
	c.AddCase(id, term, desc, desc.Hex, nontrivial)
}

// ---- tables

func c18ranges(f func(rune) bool) string {
	var parts []string
	in := false
	lo := rune(0)
	for r := rune(0); r <= unicode.MaxRune+1; r++ {
		v := r <= unicode.MaxRune && f(r)
		if v && !in {
			in, lo = true, r
		}
		if !v && in {
			in = false
			parts = append(parts, fmt.Sprintf("(%d, %d)", lo, r-1))
		}
	}
	return "(" + CoqList(parts) + ")%Z"
}

func c18table(m map[string]parser.LexTokenID) string {
	var ks []string
	for k := range m {
		ks = append(ks, k)
	}
	sort.Strings(ks)
	var parts []string
	for _, k := range ks {
		parts = append(parts, fmt.Sprintf("(%s, %d%%nat)", CoqBytes(k), int(m[k])))
	}
	return CoqList(parts)
}

func c18tables(c *Ctx) {
	var lower []string
	for r := rune(128); r <= unicode.MaxRune; r++ {
		if l := unicode.ToLower(r); l < 128 {
			lower = append(lower, fmt.Sprintf("(%d, %d)", r, l))
		}
	}
	// ASCII: only A-Z change, by +32 (rune_lower of the model)
	for r := rune(0); r < 128; r++ {
		want := r
		if r >= 'A' && r <= 'Z' {
			want = r + 32
		}
		if unicode.ToLower(r) != want {
			lower = append(lower, fmt.Sprintf("(%d, %d)", r, unicode.ToLower(r)))
		}
	}
	id := c.NewID()
	desc := c18case{Kind: "tables", From: "tables"}
	term := fmt.Sprintf("CTables %d%%N %s %s %s %s %s %s", id, c18table(parser.KeywordMap), c18table(parser.SymbolMap),
		c18ranges(unicode.IsSpace), c18ranges(unicode.IsControl), c18ranges(unicode.IsNumber), "("+CoqList(lower)+")%Z")
	c.AddCase(id, term, desc, "tables", false)
}

// ---- planted errors (Go side only)

func c18planted(c *Ctx, prefix string, runtime bool, from string) {
	var src string
	off := len(prefix)
	if runtime {
		src = prefix + "noSuchFunc()\n"
	} else {
		src = prefix + ")\n"
	}
	kind := "parse-error"
	if runtime {
		kind = "runtime-error"
	}
	desc := c18mk(kind, src, from, off)
	wl, wc := c18linecol(src, off)
	// the prefix itself must be fine, so that the planted token is the first error
	pre := guarded(3*time.Second, func() (interface{}, error) { return parser.Parse("c18", prefix+"zz := 0\n") })
	if pre.TimedOut || pre.Panicked || pre.Err != nil {
		c.Dist["planted_prefix_did_not_parse"]++
		return
	}
	r := guarded(3*time.Second, func() (interface{}, error) {
		if !runtime {
			return parser.Parse("c18", src)
		}
		return evalProgram("c18", src, nil, nil)
	})
	c.Count(kind+desc.Hex, true, desc)
	c.Dist["planted_"+kind]++
	if r.TimedOut || r.Panicked {
		// totality is C07's / C06's business; the prefix generator only produces complete statements
		c.Dist["planted_not_returned"]++
		return
	}
	switch e := r.Err.(type) {
	case *parser.Error:
		if runtime {
			c.Dist["planted_prefix_did_not_parse"]++
			return
		}
		if e.Line != wl || e.Pos != wc {
			key := "position-parser-error"
			if dc, ok := c18defectCol(src, off); ok && e.Line == wl && e.Pos == dc {
				key = "line-comment-column-parser-error" // exactly the known defect
			}
			c18violate(c, key, fmt.Sprintf("parser error for the token planted at byte %d reports Line:%d Pos:%d, the text has it at line %d column %d", off, e.Line, e.Pos, wl, wc), desc)
		} else {
			c.Dist["planted_parse_error_position_true"]++
		}
	case *util.RuntimeError:
		c18runtime(c, e, src, off, wl, wc, desc)
	case *util.RuntimeErrorWithDetail:
		c18runtime(c, e.RuntimeError, src, off, wl, wc, desc)
	default:
		c.Dist["planted_no_positioned_error"]++
	}
}

func c18runtime(c *Ctx, e *util.RuntimeError, src string, off, wl, wc int, desc c18case) {
	if e.Node == nil || e.Node.Token == nil {
		c.Dist["planted_no_positioned_error"]++
		return
	}
	nl, nc := c18linecol(src, e.Node.Token.Pos)
	if e.Line != nl || e.Pos != nc {
		key := "position-runtime-error"
		if dc, ok := c18defectCol(src, e.Node.Token.Pos); ok && e.Line == nl && e.Pos == dc {
			key = "line-comment-column-runtime-error" // exactly the known defect
		}
		c18violate(c, key, fmt.Sprintf("runtime error reports Line:%d Pos:%d for the node whose token starts at byte %d = line %d column %d", e.Line, e.Pos, e.Node.Token.Pos, nl, nc), desc)
		return
	}
	if e.Node.Token.Pos == off {
		c.Dist["planted_runtime_error_position_true"]++
	} else {
		c.Dist["planted_runtime_error_other_node"]++
	}
}

// ---- statement separation is unaffected by comments (Go side only)

// c18shape is the AST without positions and meta data: names, token values, arity.
func c18shape(n *parser.ASTNode) string {
	if n == nil {
		return "<nil>"
	}
	var sb strings.Builder
	sb.WriteString(n.Name)
	if n.Token != nil {
		fmt.Fprintf(&sb, "%q", n.Token.Val)
	}
	fmt.Fprintf(&sb, "/%d(", len(n.Children))
	for _, ch := range n.Children {
		sb.WriteString(c18shape(ch))
		sb.WriteString(",")
	}
	sb.WriteString(")")
	return sb.String()
}

func c18parseShape(src string) (string, bool) {
	r := guarded(3*time.Second, func() (interface{}, error) { return parser.Parse("c18", src) })
	if r.TimedOut || r.Panicked {
		return "", false // totality is C07's business
	}
	if r.Err != nil {
		if pe, ok := r.Err.(*parser.Error); ok {
			return "ERROR:" + pe.Type.Error(), true // the class, not position or detail
		}
		return "ERROR", true
	}
	ast, _ := r.Val.(*parser.ASTNode)
	return c18shape(ast), true
}

// c18separation: the program with comments must parse to the same tree as the program in
// which every comment is replaced by nothing (a # comment: removed, its newline kept; a
// block comment: replaced by the newlines it contains).
func c18separation(c *Ctx, with, without, from string) {
	desc := c18mk("separation", with, from, 0)
	desc.Hex2 = hex.EncodeToString([]byte(without))
	desc.Text2 = fmt.Sprintf("%q", without)
	a, ok1 := c18parseShape(with)
	b, ok2 := c18parseShape(without)
	c.Count("sep"+desc.Hex, true, desc)
	c.Dist["separation_programs"]++
	if !ok1 || !ok2 {
		c.Dist["separation_not_returned"]++
		return
	}
	if strings.HasPrefix(b, "ERROR") {
		c.Dist["separation_plain_program_is_an_error"]++
	}
	if a != b {
		c.Violate("comment-changes-statement-separation", "the program with comments parses differently from the same program with every comment replaced by nothing: "+c18clip(a)+" vs "+c18clip(b), desc)
	}
}

func c18clip(s string) string {
	if len(s) > 300 {
		return s[:300] + "..."
	}
	return s
}

// statement lines; {: opens a block (the generator closes it)
var c18lines = []string{
	"a := 1", "b := a + 2", "c := foo", "d := a", "foo(a)", "x := [1, 2]", "return", "return a", "return a + 1", "return -a",
	"-a", "not a", "[1, 2]", "(a)", "[0]", "(1)", "a", "a.b", "a[0]", "foo", "m := {1 : 2}", "b := a -", "s := \"x\"", "s := r\"l1\nl2\"",
	"if a {", "if a == 1 {", "for a > 0 {", "for x in [1, 2] {", "func f() {", "g := func (p) {", "try {", "mutex m {",
}

// a comment is only recognised at a token start, so every comment is preceded by a blank or a newline
var c18seps = []struct{ with, without string }{
	{"\n", "\n"}, {"\n", "\n"}, {" # c\n", "\n"}, {" # return a\n", "\n"}, {" #\n", " \n"}, {" # c\\\n", "\n"},
	{" /* c */\n", " \n"}, {" /* c\n c */ ", " \n "}, {" /*\n*/", " \n"}, {" /* c */ # d\n", "  \n"}, {"\n# c\n", "\n\n"}, {"\n/* c\n*/\n", "\n\n\n"},
	{" /* a */ /* b\n\n */ ", "   \n\n "},
}

func c18program(c *Ctx, n int) (string, string) {
	var w, wo strings.Builder
	depth := 0
	sep := func() {
		sp := c18seps[c.Rng.Intn(len(c18seps))]
		w.WriteString(sp.with)
		wo.WriteString(sp.without)
	}
	emit := func(line string) {
		ind := strings.Repeat("  ", depth)
		w.WriteString(ind + line)
		wo.WriteString(ind + line)
		sep()
	}
	for i := 0; i < n; i++ {
		if depth > 0 && c.Rng.Intn(4) == 0 {
			depth--
			if c.Rng.Intn(3) == 0 {
				emit("} else {")
				depth++
			} else {
				emit("}")
			}
			continue
		}
		line := c18lines[c.Rng.Intn(len(c18lines))]
		emit(line)
		if strings.HasSuffix(line, "{") {
			depth++
		}
	}
	for depth > 0 {
		depth--
		emit("}")
	}
	return w.String(), wo.String()
}

// ---- generators

var c18alphabet = []string{"a", "1", "e", "+", ".", " ", "\n", "#", "/", "*", "\"", "'", "r", "\\"}

var c18fragments = []string{
	// identifiers, keywords, numbers
	"foo", "a", "b1", "If", "not", "in", "e5", "r", "x.y", "1", "42", "1.5", "1e5", "1e+5", "1.5e+2x", "1.5.2", "1e+", "1e+999", "9a",
	// symbols
	"+", "-", "*", "/", "//", ":=", "=", "==", "!=", ">=", "<", "(", ")", "[", "]", "{", "}", ",", ";", ":", ".", "%", "!", "$",
	// strings
	"\"s\"", "'s'", "\"a b\"", "\"a\\nb\"", "\"a\\\"b\"", "'a\"b'", "\"a\\\\\"", "\"\\x41\\u00e9\\t\"", "\"\\q\"", "\"a\nb\"", "'a\nb'",
	"r\"raw\"", "r'raw'", "r\"l1\nl2\"", "r\"l1\n\nl3\n\"", "r'a\n  b'", "r\"a\\\"", "r\"a\r\nb\"", "\"unclosed", "r\"unclosed\n",
	"r\"a\\\nb\"", "r'a\\\n\\\n'", "r\"a\n\\\"", "r\"a\r\n#b\n/*\"", "\"a\\\nb\"", "# c\\\n", "/* c\\\n */", "/* c \\*/",
	// comments
	"# c\n", "#\n", "# c # d\n", "#c", "# c\r\n", "/* c */", "/**/", "/* l1\nl2 */", "/*\n\n*/", "/* a * / b **/", "/* unclosed\n", "/*/",
	// white space
	" ", "  ", "\n", "\n\n", "\r\n", "\t", "\n  ", " \n", "\v", "\f", "\x00", "\u0085", "\u00a0", "\u2028",
	// multi-byte
	"é", "€", "中", "😀", "\u00b2", "\u0663", "İn", "\u212a", "\xff", "\xe2\x82", "\xc0\x80",
}

func c18random(c *Ctx, n int) string {
	var sb strings.Builder
	for i := 0; i < n; i++ {
		f := c18fragments[c.Rng.Intn(len(c18fragments))]
		sb.WriteString(f)
		// mostly separate fragments by a blank so that many tokens survive, sometimes glue them
		switch c.Rng.Intn(6) {
		case 0:
		case 1:
			sb.WriteString("\n")
		default:
			sb.WriteString(" ")
		}
	}
	return sb.String()
}

// statement-level prefixes for the planted errors: complete statements, comments, strings
var c18stmts = []string{
	"a := 1\n", "b := \"s\"\n", "c := r\"l1\nl2\"\n", "# comment\n", "  # indented comment\n", "a := 1 # trailing\n",
	"/* block */\n", "/* l1\nl2 */\n", "/* l1\nl2 */ d := 2\n", "\n", "\r\n", "  \n", "e := [1,\n  2]\n", "f := 1 +\n  2 # c\n",
	"s := r\"x\n\n\" # c\n", "g := \"中é\" # 😀 é\n", "a := 1; ", "  ", "\t", "/* c */ ", "/* l1\n   l2 */ ",
}

func c18prefix(c *Ctx, n int) string {
	var sb strings.Builder
	for i := 0; i < n; i++ {
		sb.WriteString(c18stmts[c.Rng.Intn(len(c18stmts))])
	}
	s := sb.String()
	// end at a statement boundary: the planted token must start a statement
	if k := strings.LastIndexAny(s, "\n;"); k >= 0 {
		tail := s[k+1:]
		if strings.TrimLeft(tail, " \t") != "" && !strings.HasPrefix(strings.TrimLeft(tail, " \t"), "/*") {
			s += "\n"
		}
	}
	return s
}

func runC18(c *Ctx) error {
	c.Rule = "source texts: a fixed corpus of tricky inputs (the witness of the repaired defect first), every byte string over the alphabet {a 1 e + . space LF # / * \" ' r \\} (quick tier: without . and ') up to length 3 (thorough: 4), seeded random interleavings of fragments (identifiers, keywords, numbers incl. 1e5 1e+5 1.5.2 1e+999, symbols, quoted/raw strings with embedded newlines and escapes, closed and unclosed # and /* */ comments, CR/LF, tabs, control and Unicode space characters, 2-4 byte characters, invalid UTF-8), separated by a blank (4/6), a newline (1/6) or nothing (1/6); all fields of all tokens compared; non-trivial = tokens on more than one line and at least one comment or string token; programs built from statement lines (assignments, bare and valued return, prefix operators, bracket / parenthesis at line start, blocks) with # and /* */ comments at line ends and multi-line block comments in place of newlines, AST shape compared with the same program without the comments; planted errors: a ')' (parser) or an unknown function call (runtime) after a random prefix of statements, comments and multi-line strings, Line/Pos against the line/column of the planted offset"
	c.BeginCases("From Coq Require Import ZArith String.\nFrom Ecal Require Import Common.Bytes Common.Hex Model.Lexer Run.RunC18.", "case", 400)

	if c.Replay != "" {
		var d c18case
		if err := c.LoadReplay(&d); err != nil {
			return err
		}
		b, err := hex.DecodeString(d.Hex)
		if err != nil {
			return err
		}
		switch d.Kind {
		case "lex":
			c18lex(c, string(b), d.From)
		case "parse-error":
			c18planted(c, string(b[:d.Off]), false, d.From)
		case "runtime-error":
			c18planted(c, string(b[:d.Off]), true, d.From)
		case "separation":
			b2, err := hex.DecodeString(d.Hex2)
			if err != nil {
				return err
			}
			c18separation(c, string(b), string(b2), d.From)
		default:
			c18tables(c)
		}
		return nil
	}

	c18tables(c)

	// corpus: witnesses first
	corpus := []string{
		"a # c\nfoo", // F22: foo was reported at line 2 column 7
		"a #x\n#y\nb", "# c\n  x", "a # c\r\n  b := 1", "#\n#\n\n  a", "a # c", "#",
		"a /* x\ny */ foo", "/* a\n\n b */\n  c /* d */ e", "/**/a", "/*/", "/* x", "a /* x\n",
		"a\n\"x\" r\"l1\nl2\" b", "r\"\n\"a", "r'\n\n' 'x' r\"\n\" b", "\"a\nb\" c", "'a\nb'\nc", "\"a\\\"\nb", "\"abc", "r\"ab\nc",
		"a\n\n", "a +\n\n", "", " ", "\n", "!", "! a", "a\r\nb\rc\n\rd", "\ta\n\t\tb", "a\x00b\n\x1fc", "a\u0085b\n\u2028c\u00a0d",
		"1e+5 1e5 1.5.2 1e+999 1. 1.e+5 1e+5e+3 00 1e+\u0663", "İn breaK aK éa a中 😀", "a:=b//c!=d>=e<=f==g", "a!b", "x := r\"a\\\" # c\ny",
		"'a\"b' \"\\'\" '\\'' \"\\x41\\101\\u00e9\\U0001F600\" \"\\xff\" \"\xff\" \"\\ud800\"", "if a { # c\n  b /* d\n */ c\n}\n",
	}
	// every string form with each of these bytes directly before / after an embedded newline,
	// and comments ending in them; a token on a later line follows
	for _, b := range []string{"\\", "\"", "'", "\r", "\t", "#", "/", "*", "{"} {
		for _, form := range [][2]string{{"r\"", "\""}, {"r'", "'"}, {"\"", "\""}, {"'", "'"}, {"/*", "*/"}} {
			if b == "\"" && form[1] == "\"" || b == "'" && form[1] == "'" {
				continue
			}
			corpus = append(corpus, form[0]+"a"+b+"\nb"+form[1]+" x\n  y", form[0]+"a\n"+b+"b"+form[1]+" x\n  y",
				form[0]+"a"+b+"\n"+b+"\n"+form[1]+"\nx y")
		}
		corpus = append(corpus, "a # c"+b+"\n  x\ny", "#"+b+"\nx")
	}
	corpus = append(corpus, "r\"a\\\n\\\nb\" x\ny", "r'\\\n' x", "x := r\"l1\\\nl2\"\nreturn x", "/* a\\\n*/ x", "/* a *\\/\n */ x")
	for _, s := range corpus {
		c18lex(c, s, "corpus")
	}
	for _, p := range [][2]string{
		{"func f() {\n  return # Done\n  a := 1\n}\n", "func f() {\n  return \n  a := 1\n}\n"},
		{"func f() {\n  return # c\n}\n", "func f() {\n  return \n}\n"},
		{"func f() {\n  return /* c\n */ a\n}\n", "func f() {\n  return \n a\n}\n"},
		{"b := a # c\n[0]\n", "b := a \n[0]\n"},
		{"c := foo /* c\n */ (1)\n", "c := foo \n (1)\n"},
		{"a := 1 # c\n-a\n", "a := 1 \n-a\n"},
	} {
		c18separation(c, p[0], p[1], "corpus")
	}
	c18planted(c, "a := 1 # c\n  ", false, "corpus")
	c18planted(c, "a := 1 # c\n  ", true, "corpus")
	c18planted(c, "# one\n# two\n\t", false, "corpus")
	c18planted(c, "a := r\"x\ny\" /* l1\nl2 */\n  ", true, "corpus")

	// exhaustive short strings
	maxLen := c.Pick(3, 4)
	alphabet := c18alphabet
	if !c.Thorough() {
		alphabet = nil
		for _, s := range c18alphabet {
			if s != "." && s != "'" { // quick tier: 12 symbols
				alphabet = append(alphabet, s)
			}
		}
	}
	nexh := 0
	var rec func(prefix string, n int)
	rec = func(prefix string, n int) {
		if n == 0 || c.Enough() {
			return
		}
		for _, s := range alphabet {
			v := prefix + s
			c18lex(c, v, "exhaustive")
			nexh++
			rec(v, n-1)
		}
	}
	rec("", maxLen)
	c.Extra["exhaustive_strings"] = nexh
	c.Extra["exhaustive_max_len"] = maxLen
	c.Extra["alphabet"] = strings.Join(alphabet, "")

	// random interleavings
	for i := 0; i < c.Pick(500, 9000) && !c.Enough(); i++ {
		c18lex(c, c18random(c, 2+c.Rng.Intn(c.Pick(12, 18))), "random")
	}
	// random short byte soup over the fragments' characters (glued, no separators)
	soup := "a1e+. \n\n#/*\"'r\\\r\t=:"
	for i := 0; i < c.Pick(250, 4000) && !c.Enough(); i++ {
		n := 5 + c.Rng.Intn(10)
		b := make([]byte, n)
		for k := range b {
			b[k] = soup[c.Rng.Intn(len(soup))]
		}
		c18lex(c, string(b), "soup")
	}
	// statement separation with and without comments
	for i := 0; i < c.Pick(600, 8000) && !c.Enough(); i++ {
		w, wo := c18program(c, 2+c.Rng.Intn(9))
		c18separation(c, w, wo, "random")
	}
	// planted errors
	for i := 0; i < c.Pick(300, 3000) && !c.Enough(); i++ {
		c18planted(c, c18prefix(c, 1+c.Rng.Intn(6)), i%2 == 1, "random")
	}
	c.Exhaustive = false
	return nil
}
