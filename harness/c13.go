//go:build c13

package main

// C13 — parsing is a pure, re-entrant function of its input.  Implementation side:
//
//  1. static: the shared-write scan (translator/sharedwrites) is run against the tree under
//     test (VERIF_REPO); every unprotected write / inconsistent guard is a violation whose
//     replay is the statement.
//  2. forced interleavings (child process, hook "parser.guard.block"): n parses advance one
//     at a time from hook point to hook point following a schedule; per thread "tree/error
//     differs from the parse alone" goes to Coq (Run/RunC13.v) together with the action
//     lists derived from the real token lists.  Corpus first: the two Coq witnesses.
//  3. free-running streams (child process): 2..16 goroutines parse / validate / evaluate
//     generated programs (if/for, map literals, string interpolation, imports, provider
//     attached or not) and compare with the results obtained alone; instance ids must be
//     pairwise distinct; a child that dies with "fatal error: concurrent map ..." is a
//     violation.  With -race available (thorough tier) the same stream runs in a
//     race-enabled child; reports with frames in parser/ or interpreter/ are violations,
//     absence of a race build is only noted.

//  4. shared-ast streams (child process): ONE parsed and validated runtime tree (quoted strings
//     with 1-3 interpolations at top level, in functions, loops, conditionals, try blocks; a
//     FRESH tree every round, so whatever a runtime component keeps is cold) is evaluated for the
//     first time by 2..16 goroutines released by a barrier, each with its own scope and thread
//     id; sinks with interpolated strings are fired by parallel events on 2..16 workers.  Expected
//     values come from a separate tree / a one-worker engine.  Oracles: the child is not dead
//     ('fatal error: concurrent map ...'), every result equals the sequential one.  Sink rounds
//     whose cascades do not finish in time are counted, never reported (not this property).

import (
	"bytes"
	"encoding/json"
	"fmt"
	"math/rand"
	"os"
	"os/exec"
	"path/filepath"
	"reflect"
	"sort"
	"strings"
	"sync"
	"time"

	"github.com/krotik/ecal/engine"
	"github.com/krotik/ecal/interpreter"
	"github.com/krotik/ecal/parser"
	"github.com/krotik/ecal/scope"
	"github.com/krotik/ecal/util"
	"github.com/krotik/ecal/verifhook"
)

func init() { register("C13", runC13) }

// ------------------------------------------------------------------------------ programs

type c13prog struct {
	Src  string `json:"src"`
	RP   bool   `json:"rp"`   // parse with the runtime provider attached
	Eval bool   `json:"eval"` // also validate and evaluate (implies RP)
}

var c13imports = map[string]string{
	"lib/a": "v := {\"k\" : [1, 2]}\nfunc f(x) {\n    if x > 1 {\n        return {\"big\" : x}\n    }\n    return {\"small\" : x}\n}\n",
	"lib/b": "t := 0\nfor i in range(1, 3) {\n    t := t + i\n}\nm := {\"t\" : t}\n",
}

// c13gen builds a syntactically valid program; guards never contain braces.
type c13gen struct {
	r        *rand.Rand
	evalable bool
}

func (g *c13gen) expr(d int) string {
	switch g.r.Intn(8) {
	case 0:
		return fmt.Sprint(g.r.Intn(10))
	case 1:
		return []string{"a", "b", "c"}[g.r.Intn(3)]
	case 2:
		if d > 0 {
			return "{\"k\" : " + g.expr(d-1) + ", \"l\" : " + g.expr(d-1) + "}"
		}
		return "{}"
	case 3:
		if d > 0 {
			return "[" + g.expr(d-1) + ", " + g.expr(d-1) + "]"
		}
		return "[]"
	case 4:
		return "\"s{{a}}-{{1 + " + fmt.Sprint(g.r.Intn(5)) + "}}\""
	case 5:
		if d > 0 {
			return "(" + g.expr(d-1) + " + " + g.expr(d-1) + ")"
		}
		return "1"
	case 6:
		return "{\"m\" : {\"n\" : " + fmt.Sprint(g.r.Intn(9)) + "}}"
	default:
		return "\"x\""
	}
}

func (g *c13gen) guard() string {
	v := []string{"a", "b", "c"}[g.r.Intn(3)]
	switch g.r.Intn(4) {
	case 0:
		return v + " == " + fmt.Sprint(g.r.Intn(4))
	case 1:
		return v + " > " + fmt.Sprint(g.r.Intn(4)) + " and " + v + " < 9"
	case 2:
		return "not " + v + " == 1"
	default:
		return v + " + 1 >= " + fmt.Sprint(g.r.Intn(6))
	}
}

func (g *c13gen) stmts(d int, ind string) string {
	var sb strings.Builder
	n := 1 + g.r.Intn(3)
	for i := 0; i < n; i++ {
		sb.WriteString(ind)
		sb.WriteString(g.stmt(d, ind))
		sb.WriteString("\n")
	}
	return sb.String()
}

func (g *c13gen) stmt(d int, ind string) string {
	k := g.r.Intn(9)
	if d <= 0 && k >= 3 && k <= 6 {
		k = 0
	}
	in := ind + "    "
	switch k {
	case 0, 1:
		return []string{"x", "y", "z"}[g.r.Intn(3)] + " := " + g.expr(2)
	case 2:
		return "w := {\"a\" : " + g.expr(1) + "}"
	case 3:
		s := "if " + g.guard() + " {\n" + g.stmts(d-1, in) + ind + "}"
		if g.r.Intn(2) == 0 {
			s += " elif " + g.guard() + " {\n" + g.stmts(d-1, in) + ind + "}"
		}
		if g.r.Intn(2) == 0 {
			s += " else {\n" + g.stmts(d-1, in) + ind + "}"
		}
		return s
	case 4:
		return "for i in range(1, " + fmt.Sprint(1+g.r.Intn(3)) + ") {\n" + g.stmts(d-1, in) + ind + "}"
	case 5:
		return "for a < " + fmt.Sprint(g.r.Intn(3)) + " {\n" + in + "a := a + 1\n" + g.stmts(d-1, in) + ind + "}"
	case 6:
		return "try {\n" + g.stmts(d-1, in) + ind + "} except e {\n" + in + "q := {\"e\" : 1}\n" + ind + "}"
	case 7:
		if g.evalable {
			return "import \"" + []string{"lib/a", "lib/b"}[g.r.Intn(2)] + "\" as lib" + fmt.Sprint(g.r.Intn(3))
		}
		return "# c\nv := [1, {\"k\" : 2}] # post"
	default:
		return "func f" + fmt.Sprint(g.r.Intn(3)) + "(p) {\n" + in + "return {\"p\" : p}\n" + ind + "}"
	}
}

func (g *c13gen) program() string {
	return "a := 1\nb := 2\nc := 3\n" + g.stmts(2, "")
}

// fixed corpus: the Coq witnesses first, then shapes around them
var c13corpus = []string{
	"if a { }",
	"x := { }",
	"for a in b { }",
	"x := {\"a\" : 1}",
	"if a == 1 {\n    b := {1 : 2}\n} elif a == 2 {\n    b := {}\n} else {\n    b := [{}]\n}",
	"for a > 0 {\n    if b {\n        c := {\"k\" : {\"l\" : 1}}\n    }\n}",
	"foo({\"a\" : 1}, [{}])",
	"x := \"{{ {\"a\" : 1} }}\"",
	"sink s kindmatch [\"a\"], priority 1 {\n    if a { x := {} }\n}",
	"func f() {\n    return {\"a\" : 1}\n}\nif f() {\n    f()\n}",
}

// ------------------------------------------------------------------------------ observation

type c13obs struct {
	Tree string `json:"tree"`
	Err  string `json:"err"` // error class and position, never the message text
	Val  string `json:"val"`
}

func c13errClass(err error) string {
	if err == nil {
		return ""
	}
	switch e := err.(type) {
	case *parser.Error:
		return fmt.Sprintf("parse:%v@%d:%d", e.Type, e.Line, e.Pos)
	case *util.RuntimeError:
		return fmt.Sprintf("runtime:%v@%d:%d", e.Type, e.Line, e.Pos)
	case *util.RuntimeErrorWithDetail:
		return fmt.Sprintf("runtime:%v@%d:%d", e.Type, e.Line, e.Pos)
	}
	return fmt.Sprintf("%T", err)
}

// c13run parses (and evaluates) one program and projects the observables.
func c13run(name string, p c13prog, erp *interpreter.ECALRuntimeProvider, ids *[]string) c13obs {
	var ast *parser.ASTNode
	var err error
	if p.RP || p.Eval {
		ast, err = parser.ParseWithRuntime(name, p.Src, erp)
	} else {
		ast, err = parser.Parse(name, p.Src)
	}
	o := c13obs{Err: c13errClass(err)}
	if ast != nil {
		o.Tree = CoqNode(ast)
		if ids != nil && (p.RP || p.Eval) {
			c13collectIDs(ast, ids)
		}
	}
	if err == nil && p.Eval {
		if err = ast.Runtime.Validate(); err == nil {
			var v interface{}
			vs := scope.NewScope(scope.GlobalScope)
			v, err = ast.Runtime.Eval(vs, make(map[string]interface{}), erp.NewThreadID())
			if err == nil {
				o.Val = fmt.Sprint(v) + "|" + c13scopeString(vs)
			}
		}
		if err != nil {
			o.Err = "eval:" + c13errClass(err)
		}
	}
	return o
}

func c13scopeString(vs parser.Scope) string {
	var parts []string
	for _, k := range []string{"x", "y", "z", "w", "v", "q", "a", "t"} {
		if v, ok, _ := vs.GetValue(k); ok {
			parts = append(parts, k+"="+c13valString(v))
		}
	}
	return strings.Join(parts, ";")
}

func c13valString(v interface{}) string {
	switch t := v.(type) {
	case map[interface{}]interface{}:
		var ks []string
		for k, e := range t {
			ks = append(ks, fmt.Sprint(k)+":"+c13valString(e))
		}
		sort.Strings(ks)
		return "{" + strings.Join(ks, ",") + "}"
	case []interface{}:
		var es []string
		for _, e := range t {
			es = append(es, c13valString(e))
		}
		return "[" + strings.Join(es, ",") + "]"
	}
	return fmt.Sprint(v)
}

// c13collectIDs reads the unexported instanceID of every runtime component of the tree.
func c13collectIDs(n *parser.ASTNode, ids *[]string) {
	if n == nil {
		return
	}
	if n.Runtime != nil {
		if id, ok := c13instanceID(reflect.ValueOf(n.Runtime), 0); ok {
			*ids = append(*ids, id)
		}
	}
	for _, c := range n.Children {
		c13collectIDs(c, ids)
	}
}

func c13instanceID(v reflect.Value, depth int) (string, bool) {
	for v.Kind() == reflect.Ptr || v.Kind() == reflect.Interface {
		if v.IsNil() {
			return "", false
		}
		v = v.Elem()
	}
	if v.Kind() != reflect.Struct || depth > 4 {
		return "", false
	}
	if f := v.FieldByName("instanceID"); f.IsValid() && f.Kind() == reflect.String {
		return f.String(), true
	}
	for i := 0; i < v.NumField(); i++ {
		if v.Type().Field(i).Anonymous {
			if id, ok := c13instanceID(v.Field(i), depth+1); ok {
				return id, true
			}
		}
	}
	return "", false
}

func c13newProvider(name string) *interpreter.ECALRuntimeProvider {
	return interpreter.NewECALRuntimeProvider(name, &util.MemoryImportLocator{Files: c13imports}, nil)
}

// ------------------------------------------------------------------------------ model side of a text

// c13actions derives the action list of the model from the real token list (see
// Model/ParseShared.v).  ok=false: the text is outside the shape for which the derivation is
// valid (guard expressions without braces, keyword followed by a non-brace token).
func c13actions(src string, rp bool) (acts []string, enters int, ok bool) {
	toks := parser.LexToList("c13", src)
	var ts []parser.LexToken
	for _, t := range toks {
		if t.ID == parser.TokenPRECOMMENT || t.ID == parser.TokenPOSTCOMMENT {
			continue
		}
		if t.ID == parser.TokenError {
			return nil, 0, false
		}
		ts = append(ts, t)
	}
	enterAfter := -1
	inGuard := false
	for i, t := range ts {
		lb := t.ID == parser.TokenLBRACE
		acts = append(acts, "Fetch "+CoqBool(lb))
		if rp {
			acts = append(acts, "Alloc")
		}
		if inGuard {
			if lb {
				acts = append(acts, "Leave")
				inGuard = false
			} else if t.ID == parser.TokenIF || t.ID == parser.TokenELIF || t.ID == parser.TokenFOR ||
				t.ID == parser.TokenFUNC || t.ID == parser.TokenEOF {
				return nil, 0, false
			}
		}
		if i == enterAfter {
			if lb {
				return nil, 0, false
			}
			acts = append(acts, "Enter")
			enters++
			inGuard = true
		}
		if t.ID == parser.TokenIF || t.ID == parser.TokenELIF || t.ID == parser.TokenFOR {
			if inGuard {
				return nil, 0, false
			}
			enterAfter = i + 1
		}
	}
	return acts, enters, !inGuard
}

// ------------------------------------------------------------------------------ child jobs

type c13forcedCase struct {
	Progs []c13prog `json:"progs"`
	Sched []int     `json:"sched"` // big steps
}

type c13forcedResult struct {
	Differs   []bool   `json:"differs"`
	Hooks     []int    `json:"hooks"`
	SeqOK     []bool   `json:"seq_ok"`
	Corrupted bool     `json:"corrupted"` // a probe parse after the case no longer gives its initial result
	Stuck     bool     `json:"stuck"`
	Detail    []string `json:"detail"`
}

type c13streamJob struct {
	Progs      []c13prog `json:"progs"`
	// texts that do not parse (every byte prefix of the corpus programs, damaged first tokens):
	// run once each AFTER the reference results of Progs were taken, then everything is run
	// again - a parse must not depend on which parses failed before it
	Failing []c13prog `json:"failing,omitempty"`
	Goroutines int       `json:"goroutines"`
	Iterations int       `json:"iterations"`
	Seed       int64     `json:"seed"`
}

type c13diff struct {
	Kind string  `json:"kind"`
	Prog c13prog `json:"prog"`
	Want c13obs  `json:"want"`
	Got  c13obs  `json:"got"`
}

type c13streamResult struct {
	Parses int       `json:"parses"`
	Diffs  []c13diff `json:"diffs"`
	DupIDs int       `json:"dup_ids"`
	IDs    int       `json:"ids"`
}

// shared-ast job: ONE validated runtime tree evaluated for the first time by several goroutines
// at once (fresh tree every round: whatever a runtime component keeps is cold), and sinks with
// interpolated strings fired by parallel events.
type c13sharedJob struct {
	Texts      []string `json:"texts"`
	Sinks      []string `json:"sinks"` // sink bodies (statements)
	Goroutines int      `json:"goroutines"`
	Rounds     int      `json:"rounds"`
	SinkRounds int      `json:"sink_rounds"`
}

type c13sharedDiff struct {
	Kind string `json:"kind"` // eval | sink
	Text string `json:"text"`
	Want string `json:"want"`
	Got  string `json:"got"`
}

type c13sharedResult struct {
	Evals       int             `json:"evals"`
	SinkEvents  int             `json:"sink_events"`
	SinkSkipped int             `json:"sink_skipped"` // rounds whose cascade did not finish in time (not this property)
	Diffs       []c13sharedDiff `json:"diffs"`
}

type c13job struct {
	Forced []c13forcedCase `json:"forced,omitempty"`
	Stream *c13streamJob   `json:"stream,omitempty"`
	Shared *c13sharedJob   `json:"shared,omitempty"`
}

type c13jobOut struct {
	Forced []c13forcedResult `json:"forced,omitempty"`
	Stream *c13streamResult  `json:"stream,omitempty"`
	Shared *c13sharedResult  `json:"shared,omitempty"`
}

// hook controller: controlled parses are identified by their source name
type c13thread struct {
	grant   chan struct{}
	reached chan bool // true: at a hook, false: finished
}

var c13ctl struct {
	sync.Mutex
	threads map[string]*c13thread
	counts  map[string]int
}

func c13handler(point string, args ...interface{}) {
	if point != "parser.guard.block" || len(args) == 0 {
		return
	}
	name, _ := args[0].(string)
	c13ctl.Lock()
	if c13ctl.counts != nil {
		c13ctl.counts[name]++
	}
	th := c13ctl.threads[name]
	c13ctl.Unlock()
	if th == nil {
		return
	}
	th.reached <- true
	<-th.grant
}

var c13probes = []c13prog{{Src: "x := {\"a\" : 1}"}, {Src: "if a == 1 {\n    b := {1 : 2}\n}"}, {Src: "for a in b {\n    c := {}\n}"}}

func c13forcedOne(fc c13forcedCase, caseNo int, probeBase []c13obs, erp *interpreter.ECALRuntimeProvider) c13forcedResult {
	n := len(fc.Progs)
	res := c13forcedResult{Differs: make([]bool, n), Hooks: make([]int, n), SeqOK: make([]bool, n)}
	// alone
	seq := make([]c13obs, n)
	c13ctl.Lock()
	c13ctl.counts = map[string]int{}
	c13ctl.threads = map[string]*c13thread{}
	c13ctl.Unlock()
	for i, p := range fc.Progs {
		name := fmt.Sprintf("seq-%d-%d", caseNo, i)
		seq[i] = c13run(name, p, erp, nil)
		c13ctl.Lock()
		res.Hooks[i] = c13ctl.counts[name]
		c13ctl.Unlock()
		res.SeqOK[i] = seq[i].Err == ""
	}
	// under the schedule
	ths := make([]*c13thread, n)
	got := make([]c13obs, n)
	finished := make([]bool, n)
	started := make([]bool, n)
	c13ctl.Lock()
	for i := range fc.Progs {
		ths[i] = &c13thread{grant: make(chan struct{}), reached: make(chan bool)}
		c13ctl.threads[fmt.Sprintf("par-%d-%d", caseNo, i)] = ths[i]
	}
	c13ctl.Unlock()
	step := func(t int) bool {
		if t < 0 || t >= n || finished[t] {
			return true
		}
		if !started[t] {
			started[t] = true
			go func(t int) {
				<-ths[t].grant
				got[t] = c13run(fmt.Sprintf("par-%d-%d", caseNo, t), fc.Progs[t], erp, nil)
				ths[t].reached <- false
			}(t)
		}
		ths[t].grant <- struct{}{}
		select {
		case atHook := <-ths[t].reached:
			if !atHook {
				finished[t] = true
			}
			return true
		case <-time.After(10 * time.Second):
			return false
		}
	}
	for _, t := range fc.Sched {
		if !step(t) {
			res.Stuck = true
			return res
		}
	}
	for t := 0; t < n; t++ { // whatever the schedule left unfinished
		for k := 0; !finished[t] && k < 10000; k++ {
			if !step(t) {
				res.Stuck = true
				return res
			}
		}
	}
	c13ctl.Lock()
	c13ctl.threads = map[string]*c13thread{}
	c13ctl.Unlock()
	for i := range fc.Progs {
		if got[i] != seq[i] {
			res.Differs[i] = true
			res.Detail = append(res.Detail, fmt.Sprintf("thread %d: alone err=%q, under the schedule err=%q", i, seq[i].Err, got[i].Err))
		}
	}
	for i, p := range c13probes {
		if o := c13run("probe", p, erp, nil); o != probeBase[i] {
			res.Corrupted = true
			res.Detail = append(res.Detail, fmt.Sprintf("after all parses ended, parsing %q alone gives err=%q (initially %q)", p.Src, o.Err, probeBase[i].Err))
		}
	}
	return res
}

func c13stream(job *c13streamJob) *c13streamResult {
	res := &c13streamResult{}
	shared := c13newProvider("c13-shared")
	seq := make([]c13obs, len(job.Progs))
	for i, p := range job.Progs {
		seq[i] = c13run("prog", p, shared, nil)
	}
	// history pass (one goroutine): the failing texts, then every text again
	ffirst := make([]c13obs, len(job.Failing))
	for i, p := range job.Failing {
		ffirst[i] = c13run("prog", p, shared, nil)
		res.Parses++
	}
	for round := 0; round < 2 && len(job.Failing) > 0; round++ {
		for i, p := range job.Progs {
			if o := c13run("prog", p, shared, nil); o != seq[i] && len(res.Diffs) < 5 {
				res.Diffs = append(res.Diffs, c13diff{"history", p, seq[i], o})
			}
			res.Parses++
		}
		for i, p := range job.Failing {
			if o := c13run("prog", p, shared, nil); o != ffirst[i] && len(res.Diffs) < 5 {
				res.Diffs = append(res.Diffs, c13diff{"history", p, ffirst[i], o})
			}
			res.Parses++
		}
	}
	// the failing texts take part in the concurrent phase as well
	all := append(append([]c13prog{}, job.Progs...), job.Failing...)
	seq = append(seq, ffirst...)
	job = &c13streamJob{Progs: all, Goroutines: job.Goroutines, Iterations: job.Iterations, Seed: job.Seed}
	var mu sync.Mutex
	var wg sync.WaitGroup
	allIDs := map[string]int{}
	for g := 0; g < job.Goroutines; g++ {
		wg.Add(1)
		go func(g int) {
			defer wg.Done()
			r := rand.New(rand.NewSource(job.Seed + int64(g)*7919))
			erp := shared
			if g%2 == 1 {
				erp = c13newProvider(fmt.Sprintf("c13-%d", g))
			}
			var ids []string
			var diffs []c13diff
			n := 0
			for it := 0; it < job.Iterations; it++ {
				k := r.Intn(len(job.Progs))
				o := c13run("prog", job.Progs[k], erp, &ids)
				n++
				if o != seq[k] && len(diffs) < 5 {
					diffs = append(diffs, c13diff{"result", job.Progs[k], seq[k], o})
				}
			}
			mu.Lock()
			res.Parses += n
			res.Diffs = append(res.Diffs, diffs...)
			for _, id := range ids {
				allIDs[id]++
			}
			mu.Unlock()
		}(g)
	}
	wg.Wait()
	for _, c := range allIDs {
		res.IDs += c
		if c > 1 {
			res.DupIDs += c - 1
		}
	}
	return res
}

// c13evalShared evaluates an already validated tree in a scope of its own.
func c13evalTree(ast *parser.ASTNode, erp *interpreter.ECALRuntimeProvider, a float64) string {
	vs := scope.NewScope(scope.GlobalScope)
	vs.SetValue("a", a)
	v, err := ast.Runtime.Eval(vs, make(map[string]interface{}), erp.NewThreadID())
	if err != nil {
		return "err:" + c13errClass(err)
	}
	return c13valString(v)
}

func c13parseValidate(text string, erp *interpreter.ECALRuntimeProvider) (*parser.ASTNode, error) {
	ast, err := parser.ParseWithRuntime("shared", text, erp)
	if err == nil {
		err = ast.Runtime.Validate()
	}
	return ast, err
}

type c13logger struct {
	sync.Mutex
	lines []string
}

func (l *c13logger) add(p string, v ...interface{}) {
	l.Lock()
	l.lines = append(l.lines, p+fmt.Sprint(v...))
	l.Unlock()
}
func (l *c13logger) LogError(v ...interface{}) { l.add("error: ", v...) }
func (l *c13logger) LogInfo(v ...interface{})  { l.add("", v...) }
func (l *c13logger) LogDebug(v ...interface{}) { l.add("debug: ", v...) }

// c13sinkRound declares one sink with the given body in a fresh interpreter with `workers` pool
// threads and fires n events at once (sequential: one after the other, waiting for each).
// Returns the sorted log lines; ok=false if the cascades did not finish in time.
func c13sinkRound(body string, workers, n int, sequential bool) ([]string, bool, error) {
	lg := &c13logger{}
	erp := interpreter.NewECALRuntimeProvider("c13-sink", &util.MemoryImportLocator{Files: c13imports}, lg)
	defer erp.Cron.Stop()
	erp.Processor = engine.NewProcessor(workers)
	erp.Processor.SetFailOnFirstErrorInTriggerSequence(true)
	script := "sink s1\n    kindmatch [ \"c13.a\" ]\n{\n" + body + "\n}\n"
	if _, err := evalProgram("c13-sink", script, nil, erp); err != nil {
		return nil, false, err
	}
	proc := erp.Processor
	proc.Start()
	var wg sync.WaitGroup
	start := make(chan struct{})
	finished := make(chan struct{}, n)
	for i := 0; i < n; i++ {
		ev := engine.NewEvent(fmt.Sprintf("e%d", i), []string{"c13", "a"}, map[interface{}]interface{}{"n": float64(i + 1)})
		if sequential {
			proc.AddEventAndWait(ev, nil)
			finished <- struct{}{}
			continue
		}
		rm := proc.NewRootMonitor(nil, nil)
		rm.SetFinishHandler(func(p engine.Processor) { finished <- struct{}{} })
		wg.Add(1)
		go func() {
			defer wg.Done()
			<-start
			proc.AddEvent(ev, rm)
		}()
	}
	close(start)
	wg.Wait()
	ok := true
	deadline := time.After(10 * time.Second)
	for i := 0; i < n && ok; i++ {
		select {
		case <-finished:
		case <-deadline:
			ok = false
		}
	}
	go proc.Finish()
	lg.Lock()
	lines := append([]string{}, lg.lines...)
	lg.Unlock()
	sort.Strings(lines)
	return lines, ok, nil
}

func c13shared(job *c13sharedJob) *c13sharedResult {
	res := &c13sharedResult{}
	erp := c13newProvider("c13-shared-ast")
	G := job.Goroutines
	addDiff := func(d c13sharedDiff) {
		if len(res.Diffs) < 8 {
			res.Diffs = append(res.Diffs, d)
		}
	}
	// expected values: a SEPARATE tree of the same text, evaluated by one goroutine
	want := make([][]string, len(job.Texts))
	for i, t := range job.Texts {
		ast, err := c13parseValidate(t, erp)
		want[i] = make([]string, G)
		for g := 0; g < G; g++ {
			if err != nil {
				want[i][g] = "parse:" + c13errClass(err)
			} else {
				want[i][g] = c13evalTree(ast, erp, float64(1000+g))
			}
		}
	}
	for r := 0; r < job.Rounds; r++ {
		i := r % len(job.Texts)
		ast, err := c13parseValidate(job.Texts[i], erp) // fresh tree: nothing has evaluated it yet
		if err != nil {
			continue
		}
		got := make([]string, G)
		var wg sync.WaitGroup
		start := make(chan struct{})
		for g := 0; g < G; g++ {
			wg.Add(1)
			go func(g int) {
				defer wg.Done()
				<-start
				got[g] = c13evalTree(ast, erp, float64(1000+g))
			}(g)
		}
		close(start)
		wg.Wait()
		res.Evals += G
		for g := 0; g < G; g++ {
			if got[g] != want[i][g] {
				addDiff(c13sharedDiff{"eval", job.Texts[i], want[i][g], got[g]})
				break
			}
		}
	}
	for r := 0; r < job.SinkRounds && len(job.Sinks) > 0; r++ {
		body := job.Sinks[r%len(job.Sinks)]
		n := 2 * G
		exp, ok1, err := c13sinkRound(body, 1, n, true)
		if err != nil {
			addDiff(c13sharedDiff{"sink", body, "the sink script evaluates", "error " + c13errClass(err)})
			continue
		}
		got, ok2, err := c13sinkRound(body, G, n, false)
		if err != nil || !ok1 || !ok2 {
			res.SinkSkipped++
			continue
		}
		res.SinkEvents += n
		if strings.Join(exp, "\n") != strings.Join(got, "\n") {
			addDiff(c13sharedDiff{"sink", body, strings.Join(exp, " / "), strings.Join(got, " / ")})
		}
	}
	return res
}

func c13child(jobFile string) error {
	b, err := os.ReadFile(jobFile)
	if err != nil {
		return err
	}
	var job c13job
	if err := json.Unmarshal(b, &job); err != nil {
		return err
	}
	var out c13jobOut
	flush := func() {
		ob, _ := json.Marshal(out)
		os.WriteFile(jobFile+".out", ob, 0o644)
	}
	if job.Stream != nil {
		out.Stream = c13stream(job.Stream)
		flush()
		return nil
	}
	if job.Shared != nil {
		out.Shared = c13shared(job.Shared)
		flush()
		return nil
	}
	verifhook.SetHandler(c13handler)
	erp := c13newProvider("c13-probe")
	base := make([]c13obs, len(c13probes))
	for i, p := range c13probes {
		base[i] = c13run("probe", p, erp, nil)
	}
	for i, fc := range job.Forced {
		r := c13forcedOne(fc, i, base, erp)
		out.Forced = append(out.Forced, r)
		flush()
		if r.Corrupted || r.Stuck {
			break // the process state is no longer trustworthy: the parent starts a fresh child
		}
	}
	flush()
	return nil
}

// c13spawn runs a job in a child process; returns the output, the exit error and stderr.
func c13spawn(c *Ctx, bin string, job c13job, tag string, timeout time.Duration) (c13jobOut, error, string) {
	var out c13jobOut
	jf := filepath.Join(c.Out, "child-"+tag+".json")
	b, _ := json.Marshal(job)
	if err := os.WriteFile(jf, b, 0o644); err != nil {
		return out, err, ""
	}
	defer os.Remove(jf)
	defer os.Remove(jf + ".out")
	cdir := filepath.Join(c.Out, "child")
	os.MkdirAll(cdir, 0o755)
	cmd := exec.Command(bin, "C13", "-out", cdir)
	cmd.Env = append(os.Environ(), "C13_CHILD_JOB="+jf, "GORACE=halt_on_error=0 log_path="+filepath.Join(cdir, "race-"+tag))
	var stderr bytes.Buffer
	cmd.Stderr = &stderr
	cmd.Stdout = &stderr
	if err := cmd.Start(); err != nil {
		return out, err, ""
	}
	done := make(chan error, 1)
	go func() { done <- cmd.Wait() }()
	var werr error
	select {
	case werr = <-done:
	case <-time.After(timeout):
		cmd.Process.Kill()
		werr = fmt.Errorf("child timed out after %v", timeout)
	}
	if ob, err := os.ReadFile(jf + ".out"); err == nil {
		json.Unmarshal(ob, &out)
	}
	return out, werr, stderr.String()
}

// ------------------------------------------------------------------------------ static scan

type c13site struct {
	Pkg, Func, Var, Kind, Text string
	Protected                  bool
	Guard                      string
	IsMap                      bool
}

func c13static(c *Ctx) {
	repo := os.Getenv("VERIF_REPO")
	if repo == "" {
		repo = "/repo"
	}
	tdir, _ := filepath.Abs(filepath.Join("..", "translator"))
	if _, err := os.Stat(filepath.Join(tdir, "sharedwrites", "main.go")); err != nil {
		c.Notes = append(c.Notes, "static scan not run by the harness: "+err.Error())
		return
	}
	odir := filepath.Join(c.Out, "scan")
	os.MkdirAll(odir, 0o755)
	jf := filepath.Join(odir, "sw.json")
	os.Remove(jf)
	cmd := exec.Command("go", "run", "./sharedwrites", "-repo", repo, "-out", odir, "-json", jf)
	cmd.Dir = tdir
	cmd.Env = append(os.Environ(), "GOFLAGS=-mod=mod")
	ob, err := cmd.CombinedOutput()
	if err != nil {
		c.Violate("static-scan-failed", "the shared-write scan does not run on the tree under test: "+string(ob), map[string]string{"repo": repo})
		return
	}
	var res struct {
		Writes, Reads []c13site
		Unscanned     []string
	}
	b, _ := os.ReadFile(jf)
	if err := json.Unmarshal(b, &res); err != nil {
		c.Violate("static-scan-failed", "unreadable scan result: "+err.Error(), map[string]string{"repo": repo})
		return
	}
	guard := map[string]string{}
	for _, w := range res.Writes {
		desc := map[string]interface{}{"static": true, "package": w.Pkg, "function": w.Func, "variable": w.Var, "statement": w.Text, "kind": w.Kind}
		if !w.Protected {
			c.Violate("unprotected-shared-write", fmt.Sprintf("%s.%s writes the package-level variable %s after init without mutex/atomic: %s", w.Pkg, w.Func, w.Var, w.Text), desc)
		} else if g, ok := guard[w.Var]; ok && g != w.Guard {
			c.Violate("inconsistent-guard", fmt.Sprintf("%s is written under %q here and under %q elsewhere: %s", w.Var, w.Guard, g, w.Text), desc)
		} else {
			guard[w.Var] = w.Guard
		}
		c.Count("static-write:"+w.Pkg+"."+w.Func+":"+w.Text, true, desc)
	}
	written := map[string]bool{}
	for _, w := range res.Writes {
		written[w.Var] = true
	}
	for _, r := range res.Reads {
		if !written[r.Var] {
			continue
		}
		if !r.Protected || r.Guard != guard[r.Var] {
			desc := map[string]interface{}{"static": true, "package": r.Pkg, "function": r.Func, "variable": r.Var, "statement": r.Text, "kind": r.Kind}
			c.Violate("unguarded-read-of-written-variable", fmt.Sprintf("%s.%s reads %s, which is written after init, without the guard of the write: %s", r.Pkg, r.Func, r.Var, r.Text), desc)
		}
	}
	for _, u := range res.Unscanned {
		c.Violate("unscanned-file", "a file of the scanned packages is compiled by no scanned build configuration: "+u, map[string]interface{}{"static": true, "file": u})
	}
	c.Dist["static_writes"] = len(res.Writes)
	c.Dist["static_reads_of_maps_or_written"] = len(res.Reads)
}

// ------------------------------------------------------------------------------ driver side

type c13desc struct {
	Mode   string         `json:"mode"` // forced | stream | race
	Forced *c13forcedCase `json:"forced,omitempty"`
	Stream *c13streamJob  `json:"stream,omitempty"`
	Shared *c13sharedJob  `json:"shared,omitempty"`
	Note   string         `json:"note,omitempty"`
}

func c13interleavings(counts []int, r *rand.Rand) []int {
	var pool []int
	for t, k := range counts {
		for i := 0; i < k; i++ {
			pool = append(pool, t)
		}
	}
	r.Shuffle(len(pool), func(i, j int) { pool[i], pool[j] = pool[j], pool[i] })
	return pool
}

func c13emitForced(c *Ctx, fc c13forcedCase, r c13forcedResult) {
	desc := c13desc{Mode: "forced", Forced: &fc}
	key := fmt.Sprint(fc)
	if r.Stuck {
		c.Violate("forced-schedule-stuck", "a parse did not reach its next hook point or its end within 10s", desc)
		return
	}
	var progs []string
	nontrivial := false
	for _, p := range fc.Progs {
		acts, enters, ok := c13actions(p.Src, p.RP || p.Eval)
		if !ok {
			c.Dist["forced_skipped_underivable"]++
			return
		}
		if enters > 0 {
			nontrivial = true
		}
		progs = append(progs, CoqList(acts))
	}
	var sched, hooks, seqok, differs []string
	for _, t := range fc.Sched {
		sched = append(sched, fmt.Sprint(t))
	}
	// the harness finishes every thread after the schedule: make that explicit for the model
	for t := range fc.Progs {
		_, enters, _ := c13actions(fc.Progs[t].Src, false)
		for k := 0; k <= enters; k++ {
			sched = append(sched, fmt.Sprint(t))
		}
	}
	for i := range fc.Progs {
		hooks = append(hooks, fmt.Sprint(r.Hooks[i]))
		seqok = append(seqok, CoqBool(r.SeqOK[i]))
		differs = append(differs, CoqBool(r.Differs[i]))
	}
	id := c.NewID()
	term := fmt.Sprintf("mkCase %d %s %s %s %s %s", id, CoqList(progs), CoqList(sched), CoqList(hooks), CoqList(seqok), CoqList(differs))
	desc.Note = strings.Join(r.Detail, "; ")
	c.Dist[fmt.Sprintf("forced_threads_%d", len(fc.Progs))]++
	c.AddCase(id, term, desc, key, nontrivial)
	if r.Corrupted {
		c.Violate("table-corrupted-after-parses", "after all parses of the schedule have ended a text no longer parses as it did before: "+strings.Join(r.Detail, "; "), desc)
	}
}

func c13runForced(c *Ctx, bin string, cases []c13forcedCase) {
	for len(cases) > 0 && !c.Enough() {
		out, err, stderr := c13spawn(c, bin, c13job{Forced: cases}, "forced", 120*time.Second)
		for i, r := range out.Forced {
			c13emitForced(c, cases[i], r)
		}
		done := len(out.Forced)
		if done == 0 {
			c.Violate("forced-child-failed", fmt.Sprintf("the child running the forced schedules produced nothing: %v %s", err, c13tail(stderr)), c13desc{Mode: "forced", Forced: &cases[0]})
			return
		}
		cases = cases[done:]
	}
}

func c13tail(s string) string {
	if len(s) > 1500 {
		return s[:1500]
	}
	return s
}

func c13runStream(c *Ctx, bin string, job c13streamJob, mode string) {
	desc := c13desc{Mode: mode, Stream: &c13streamJob{Goroutines: job.Goroutines, Iterations: job.Iterations, Seed: job.Seed, Progs: nil}}
	out, err, stderr := c13spawn(c, bin, c13job{Stream: &job}, mode, 300*time.Second)
	c.Dist[mode+"_streams"]++
	c.Count(fmt.Sprintf("%s-%d-%d-%d", mode, job.Goroutines, job.Iterations, len(job.Progs)), true, desc)
	if strings.Contains(stderr, "fatal error: concurrent map") {
		d := desc
		d.Note = "child output: " + c13tail(stderr[strings.Index(stderr, "fatal error: concurrent map"):])
		d.Stream = &job
		d.Stream.Progs = job.Progs[:min(len(job.Progs), 6)]
		c.Violate("fatal-concurrent-map", fmt.Sprintf("%d goroutines parsing concurrently: the process died with 'fatal error: concurrent map ...'", job.Goroutines), d)
		return
	}
	if mode == "race" {
		races := c13raceReports(filepath.Join(c.Out, "child"), "race-"+mode)
		if len(races) > 0 {
			d := desc
			d.Note = races[0]
			c.Violate("data-race", fmt.Sprintf("race detector: %d report(s) with frames in parser/ or interpreter/", len(races)), d)
		}
		c.Dist["race_reports_in_parser_or_interpreter"] += len(races)
	}
	if out.Stream == nil {
		if mode == "race" {
			c.Notes = append(c.Notes, fmt.Sprintf("race-enabled child gave no result (%v); supporting evidence only", err))
			return
		}
		c.Violate("stream-child-failed", fmt.Sprintf("the child running %d concurrent parsers died: %v %s", job.Goroutines, err, c13tail(stderr)), desc)
		return
	}
	c.Evals += out.Stream.Parses
	c.Dist[mode+"_parses"] += out.Stream.Parses
	c.Dist[mode+"_instance_ids"] += out.Stream.IDs
	for _, d := range out.Stream.Diffs {
		dd := desc
		dd.Stream = &c13streamJob{Goroutines: job.Goroutines, Iterations: job.Iterations, Seed: job.Seed, Progs: []c13prog{d.Prog}}
		if d.Kind == "history" {
			dd.Note = fmt.Sprintf("first err=%q, after other (failing) parses err=%q", d.Want.Err, d.Got.Err)
			c.Violate("history-result-differs", "one goroutine: a text gave a different tree/error/value after other texts had failed to parse than the first time", dd)
			continue
		}
		dd.Note = fmt.Sprintf("alone err=%q, concurrently err=%q", d.Want.Err, d.Got.Err)
		c.Violate("concurrent-result-differs", fmt.Sprintf("with %d goroutines a text gave a different tree/error/value than alone", job.Goroutines), dd)
	}
	if out.Stream.DupIDs > 0 {
		c.Violate("duplicate-instance-id", fmt.Sprintf("%d of %d runtime components built concurrently share an instance id", out.Stream.DupIDs, out.Stream.IDs), desc)
	}
}

func c13raceReports(dir, prefix string) []string {
	var res []string
	files, _ := filepath.Glob(filepath.Join(dir, prefix+"*"))
	for _, f := range files {
		b, _ := os.ReadFile(f)
		os.Remove(f)
		for _, rep := range strings.Split(string(b), "==================") {
			if strings.Contains(rep, "DATA RACE") && (strings.Contains(rep, "ecal/parser.") || strings.Contains(rep, "ecal/interpreter.")) {
				if len(rep) > 1800 {
					rep = rep[:1800]
				}
				res = append(res, rep)
			}
		}
	}
	return res
}

func c13buildRace(c *Ctx) (string, string) {
	bin := filepath.Join(c.Out, "harness-race.bin")
	args := []string{"build", "-race", "-tags", "verif c13", "-o", bin}
	if mf := filepath.Join(filepath.Dir(c.Out), "harness.mod"); os.Getenv("VERIF_REPO") != "" && os.Getenv("VERIF_REPO") != "/repo" {
		args = append(args, "-modfile="+mf)
	}
	args = append(args, ".")
	cmd := exec.Command("go", args...)
	cmd.Env = append(os.Environ(), "CGO_ENABLED=1", "GOFLAGS=-mod=mod")
	ob, err := cmd.CombinedOutput()
	if err != nil {
		return "", "race build not available: " + c13tail(string(ob))
	}
	return bin, ""
}

func runC13(c *Ctx) error {
	if jf := os.Getenv("C13_CHILD_JOB"); jf != "" {
		return c13child(jf)
	}
	if df := os.Getenv("C13_DUMP"); df != "" {
		return c13dump(c, df)
	}
	c.Rule = "static: every write of a package-level variable in parser/ and interpreter/ of the tree under test (translator/sharedwrites); forced: 2-4 texts (fixed corpus with the two Coq witnesses first, then generated programs with if/elif/else, for, try, func, map/list literals, interpolated strings, comments) advanced hook point by hook point along the witness schedules, all interleavings of small cases and seeded random interleavings, compared per thread with the parse alone; free: 2..16 goroutines parsing / validating / evaluating the generated programs (imports through a memory locator, provider shared or own or none), compared with the results alone, instance ids pairwise distinct, child death with 'fatal error: concurrent map'; non-trivial = at least one text of the case contains an if/elif/for guard; distinct by (texts, schedule)"
	c.BeginCases("From Coq Require Import List NArith.\nImport ListNotations.\nFrom Ecal Require Import Model.ParseShared Run.RunC13.", "case", 150)
	bin, err := os.Executable()
	if err != nil {
		return err
	}

	if c.Replay != "" {
		var raw map[string]interface{}
		if err := c.LoadReplay(&raw); err != nil {
			return err
		}
		if raw["static"] == true {
			c13static(c)
			return nil
		}
		var d c13desc
		if err := c.LoadReplay(&d); err != nil {
			return err
		}
		switch {
		case d.Forced != nil:
			c13runForced(c, bin, []c13forcedCase{*d.Forced})
		case d.Shared != nil:
			j := *d.Shared
			if len(j.Texts) == 0 && len(j.Sinks) == 0 {
				c13sharedStreams(c, bin)
			} else {
				c13runShared(c, bin, j, "shared")
			}
		case d.Stream != nil && len(d.Stream.Progs) > 0:
			c13runStream(c, bin, *d.Stream, "stream")
		default:
			c13replayStreams(c, bin)
		}
		return nil
	}

	c13static(c)

	// ---- forced interleavings
	var forced []c13forcedCase
	w := func(srcs []string, sched []int) {
		var ps []c13prog
		for _, s := range srcs {
			ps = append(ps, c13prog{Src: s})
		}
		forced = append(forced, c13forcedCase{ps, sched})
	}
	w([]string{"if a { }", "x := { }"}, []int{0, 1, 0})    // C13_old_table_swap_refuted
	w([]string{"if a { }", "if a { }"}, []int{0, 1, 0, 1}) // C13_old_table_swap_permanent_refuted
	w([]string{"for a in b { }", "x := {\"a\" : 1}"}, []int{0, 1, 0})
	w([]string{"x := {\"a\" : 1}", "if a == 1 {\n    b := {1 : 2}\n}"}, []int{1, 0, 1})
	// all interleavings of pairs from the corpus (hook granularity)
	derivable := []string{}
	for _, s := range c13corpus {
		if _, _, ok := c13actions(s, false); ok {
			derivable = append(derivable, s)
		}
	}
	for i, a := range derivable {
		for j, b := range derivable {
			if (i+j)%c.Pick(3, 1) != 0 {
				continue
			}
			_, ea, _ := c13actions(a, false)
			_, eb, _ := c13actions(b, false)
			c13allInterleavings(ea+1, eb+1, c.Pick(6, 40), func(s []int) { w([]string{a, b}, s) })
		}
	}
	g := &c13gen{r: c.Rng}
	var pool []c13prog
	for len(pool) < c.Pick(60, 400) {
		src := g.program()
		if _, _, ok := c13actions(src, false); ok {
			pool = append(pool, c13prog{Src: src, RP: c.Rng.Intn(2) == 0})
		}
	}
	for i := 0; i < c.Pick(90, 5000); i++ {
		n := 2 + c.Rng.Intn(3)
		var ps []c13prog
		var counts []int
		for k := 0; k < n; k++ {
			p := pool[c.Rng.Intn(len(pool))]
			if c.Rng.Intn(4) == 0 {
				p = c13prog{Src: c13corpus[c.Rng.Intn(4)]}
			}
			_, e, _ := c13actions(p.Src, false)
			ps = append(ps, p)
			counts = append(counts, e+1)
		}
		forced = append(forced, c13forcedCase{ps, c13interleavings(counts, c.Rng)})
	}
	c.Extra["forced_cases"] = len(forced)
	c13runForced(c, bin, forced)

	// ---- free-running streams
	if !c.Enough() {
		c13replayStreams(c, bin)
	}
	if !c.Enough() {
		c13sharedStreams(c, bin)
	}
	if c.Thorough() || os.Getenv("C13_RACE") != "" {
		if rbin, note := c13buildRace(c); rbin != "" {
			c13runStream(c, rbin, c13streamJob{Progs: c13streamPool(c.Seed, 40), Goroutines: 8, Iterations: c.Pick(60, 1000), Seed: c.Seed}, "race")
			c13runShared(c, rbin, c13sharedJob{Texts: c13sharedTexts(rand.New(rand.NewSource(c.Seed*13+5)), 24), Sinks: c13sinkBodies, Goroutines: 8, Rounds: c.Pick(100, 600), SinkRounds: c.Pick(3, 10)}, "race-shared")
			os.Remove(rbin)
		} else {
			c.Notes = append(c.Notes, note)
		}
	}
	c.Exhaustive = false
	return nil
}

func c13streamPool(seed int64, n int) []c13prog {
	r := rand.New(rand.NewSource(seed*31 + 7))
	var pool []c13prog
	for _, s := range c13corpus {
		pool = append(pool, c13prog{Src: s}, c13prog{Src: s, RP: true})
	}
	ge := &c13gen{r: r, evalable: true}
	gp := &c13gen{r: r}
	for len(pool) < n {
		switch r.Intn(3) {
		case 0:
			pool = append(pool, c13prog{Src: ge.program(), RP: true, Eval: true})
		case 1:
			pool = append(pool, c13prog{Src: gp.program(), RP: true})
		default:
			pool = append(pool, c13prog{Src: gp.program()})
		}
	}
	return pool
}

// c13failingPool: every proper byte prefix of the corpus programs that does not parse (texts ending
// inside a condition, a block, a literal, a string ..), texts whose FIRST token already fails, and
// one-token damages; deduplicated, parsed with and without provider alternately.
func c13failingPool(limit int) []c13prog {
	seen := map[string]bool{}
	var res []c13prog
	add := func(t string) {
		if seen[t] || len(res) >= limit {
			return
		}
		seen[t] = true
		if _, err := parser.Parse("probe", t); err == nil {
			return
		}
		res = append(res, c13prog{Src: t, RP: len(res)%2 == 1})
	}
	for _, t := range []string{"\"abc", "$a := 1", "# comment", "'", "/* open", "if a ==", "for a in", "if a == \"abc", "elif", "if a {", "for a > 0 { if b {", "x := {", "x := [", "foo(", "a := 1 +", ")", "if a == 1 { b := 1 } elif", "if a { } else", "sink s kindmatch", "func f(", "try {", "mutex m {"} {
		add(t)
	}
	for _, s := range c13corpus {
		step := 1
		if len(s) > 60 {
			step = 3
		}
		for i := 1; i < len(s); i += step {
			add(s[:i])
		}
	}
	return res
}

// texts whose value is built from quoted strings with 1-3 interpolations (top level, in
// functions, loops, conditionals, try blocks) and one wide literal; `a` comes from the scope.
func c13sharedTexts(r *rand.Rand, n int) []string {
	lit := func() string {
		k := 1 + r.Intn(3)
		var sb strings.Builder
		sb.WriteString("\"")
		for j := 0; j < k; j++ {
			switch r.Intn(4) {
			case 0:
				fmt.Fprintf(&sb, "<{{a + %d}}>", r.Intn(50))
			case 1:
				fmt.Fprintf(&sb, "[{{a * %d}}]", 1+r.Intn(9))
			case 2:
				fmt.Fprintf(&sb, "({{ [a, %d][1] }})", r.Intn(50))
			default:
				fmt.Fprintf(&sb, "-{{a > %d}}-", 990+r.Intn(30))
			}
		}
		sb.WriteString("\"")
		return sb.String()
	}
	var wide strings.Builder
	wide.WriteString("\"")
	for j := 0; j < 12; j++ {
		fmt.Fprintf(&wide, "<{{a + %d}}> ", j)
	}
	wide.WriteString("\"")
	res := []string{"\"<{{a + 0}}> <{{a + 1}}> <{{a + 2}}>\"", wide.String()}
	for len(res) < n {
		switch r.Intn(6) {
		case 0:
			res = append(res, lit())
		case 1:
			res = append(res, "func f(x) {\n    return "+lit()+" + \"|x={{x}}\"\n}\nf(a) + f(a + 1)")
		case 2:
			res = append(res, "r := \"\"\nfor i in range(1, 3) {\n    r := r + "+lit()+" + \"i={{i}};\"\n}\nr")
		case 3:
			res = append(res, "x := \"n\"\nif a > 0 {\n    x := "+lit()+"\n} else {\n    x := "+lit()+"\n}\nx")
		case 4:
			res = append(res, "x := \"\"\ntry {\n    x := "+lit()+"\n    raise(\"E\", "+lit()+")\n} except e {\n    x := x + \"!{{e.detail}}\"\n}\nx")
		default:
			res = append(res, "[ "+lit()+", {\"k\" : "+lit()+"}, "+lit()+" ]")
		}
	}
	return res
}

var c13sinkBodies = []string{
	"    log(\"s1 n={{event.state.n}} m={{event.state.n + 1}}\")",
	"    for i in range(1, 2) {\n        log(\"s1 {{event.name}} i={{i}} n={{event.state.n * 2}}\")\n    }",
	"    func fmtev(e) {\n        return \"<{{e.state.n}}|{{e.kind}}>\"\n    }\n    log(fmtev(event), \" {{event.state.n + 10}}\")",
}

func c13runShared(c *Ctx, bin string, job c13sharedJob, mode string) {
	desc := c13desc{Mode: mode, Shared: &c13sharedJob{Goroutines: job.Goroutines, Rounds: job.Rounds, SinkRounds: job.SinkRounds}}
	out, err, stderr := c13spawn(c, bin, c13job{Shared: &job}, mode, 300*time.Second)
	c.Dist[mode+"_streams"]++
	c.Count(fmt.Sprintf("%s-%d-%d", mode, job.Goroutines, job.Rounds), true, desc)
	if i := strings.Index(stderr, "fatal error: concurrent map"); i >= 0 {
		d := desc
		d.Note = "child output: " + c13tail(stderr[i:])
		c.Violate("fatal-concurrent-map-shared-ast", fmt.Sprintf("one validated runtime tree evaluated for the first time by %d goroutines at once (or a sink fired by parallel events on %d workers): the process died with 'fatal error: concurrent map ...'", job.Goroutines, job.Goroutines), d)
		return
	}
	if mode == "race-shared" {
		races := c13raceReports(filepath.Join(c.Out, "child"), "race-"+mode)
		if len(races) > 0 {
			d := desc
			d.Note = races[0]
			c.Violate("data-race-shared-ast", fmt.Sprintf("race detector: %d report(s) with frames in parser/ or interpreter/ while one runtime tree is evaluated by %d goroutines", len(races), job.Goroutines), d)
		}
		c.Dist["race_shared_reports_in_parser_or_interpreter"] += len(races)
	}
	if out.Shared == nil {
		if mode == "race-shared" {
			c.Notes = append(c.Notes, fmt.Sprintf("race-enabled shared-ast child gave no result (%v); supporting evidence only", err))
			return
		}
		c.Violate("shared-ast-child-failed", fmt.Sprintf("the child evaluating shared trees with %d goroutines died: %v %s", job.Goroutines, err, c13tail(stderr)), desc)
		return
	}
	c.Evals += out.Shared.Evals + out.Shared.SinkEvents
	c.Dist[mode+"_evals"] += out.Shared.Evals
	c.Dist[mode+"_sink_events"] += out.Shared.SinkEvents
	c.Dist[mode+"_sink_rounds_not_finished"] += out.Shared.SinkSkipped
	for _, d := range out.Shared.Diffs {
		dd := desc
		dd.Shared = &c13sharedJob{Goroutines: job.Goroutines, Rounds: job.Rounds, SinkRounds: job.SinkRounds}
		if d.Kind == "sink" {
			dd.Shared.Sinks = []string{d.Text}
			dd.Shared.Rounds = 0
		} else {
			dd.Shared.Texts = []string{d.Text}
			dd.Shared.SinkRounds = 0
		}
		dd.Note = fmt.Sprintf("alone: %.200s ; concurrently: %.200s", d.Want, d.Got)
		c.Violate("shared-ast-result-differs", fmt.Sprintf("a %s evaluated by %d goroutines at once gave a different result than alone", map[string]string{"eval": "validated runtime tree", "sink": "sink fired by parallel events"}[d.Kind], job.Goroutines), dd)
	}
}

func c13sharedStreams(c *Ctx, bin string) {
	texts := c13sharedTexts(rand.New(rand.NewSource(c.Seed*13+5)), c.Pick(24, 80))
	for _, g := range []int{2, 4, 8, 16} {
		if c.Enough() {
			return
		}
		c13runShared(c, bin, c13sharedJob{Texts: texts, Sinks: c13sinkBodies, Goroutines: g, Rounds: c.Pick(1500, 12000), SinkRounds: c.Pick(6, 40)}, "shared")
	}
}

func c13replayStreams(c *Ctx, bin string) {
	// a tight loop over short texts with and without guards: the most likely way to see the
	// Go runtime abort with "fatal error: concurrent map ..."
	var hot []c13prog
	for _, s := range c13corpus[:7] {
		hot = append(hot, c13prog{Src: s})
	}
	c13runStream(c, bin, c13streamJob{Progs: hot, Goroutines: 8, Iterations: c.Pick(4000, 40000), Seed: c.Seed}, "stream")
	pool := c13streamPool(c.Seed, c.Pick(60, 200))
	failing := c13failingPool(c.Pick(400, 2000))
	c.Extra["failing_texts_in_history_pass"] = len(failing)
	for _, g := range []int{2, 3, 4, 8, 16} {
		if c.Enough() {
			return
		}
		c13runStream(c, bin, c13streamJob{Progs: pool, Failing: failing, Goroutines: g, Iterations: c.Pick(100, 5000), Seed: c.Seed + int64(g)}, "stream")
	}
}

// c13allInterleavings enumerates the interleavings of a zeros and b ones (at most limit).
func c13allInterleavings(a, b, limit int, f func([]int)) {
	n := 0
	var rec func(cur []int, a, b int)
	rec = func(cur []int, a, b int) {
		if n >= limit {
			return
		}
		if a == 0 && b == 0 {
			n++
			f(append([]int{}, cur...))
			return
		}
		if a > 0 {
			rec(append(cur, 0), a-1, b)
		}
		if b > 0 {
			rec(append(cur, 1), a, b-1)
		}
	}
	rec(nil, a, b)
}

// c13dump (development aid, C13_DUMP=<file>): the observables of many texts parsed ALONE, one
// after the other, including damaged texts (tokens dropped / braces and keywords inserted);
// used to compare two trees: a repair must not change what a single parse returns.
func c13dump(c *Ctx, file string) error {
	r := rand.New(rand.NewSource(c.Seed))
	g := &c13gen{r: r}
	var srcs []string
	srcs = append(srcs, c13corpus...)
	for i := 0; i < 3000; i++ {
		src := g.program()
		srcs = append(srcs, src)
		toks := strings.Fields(src)
		for k := 0; k < 3; k++ {
			t := append([]string{}, toks...)
			switch r.Intn(3) {
			case 0:
				j := r.Intn(len(t))
				t = append(t[:j], t[j+1:]...)
			case 1:
				j := r.Intn(len(t))
				ins := []string{"{", "}", "if", "for", "elif", "else", "func", "(", ")", ":=", "{}", "\n"}[r.Intn(12)]
				t = append(t[:j], append([]string{ins}, t[j:]...)...)
			default:
				j, l := r.Intn(len(t)), r.Intn(len(t))
				t[j], t[l] = t[l], t[j]
			}
			var sb strings.Builder
			for _, w := range t {
				sb.WriteString(w)
				if r.Intn(5) == 0 {
					sb.WriteString("\n")
				} else {
					sb.WriteString(" ")
				}
			}
			srcs = append(srcs, sb.String())
		}
	}
	erp := c13newProvider("c13-dump")
	var out []string
	for i, s := range srcs {
		p := c13prog{Src: s, RP: i%2 == 0}
		res := guarded(5*time.Second, func() (interface{}, error) { return c13run("dump", p, erp, nil), nil })
		switch {
		case res.Panicked:
			out = append(out, "PANIC")
		case res.TimedOut:
			out = append(out, "TIMEOUT")
		default:
			o := res.Val.(c13obs)
			out = append(out, o.Err+"|"+o.Tree)
		}
	}
	b, _ := json.Marshal(map[string]interface{}{"srcs": srcs, "obs": out})
	return os.WriteFile(file, b, 0o644)
}
