//go:build c12

package main

// C12 — named mutex blocks: exclusive per name, re-entrant, released on every exit.
//
// Implementation side: generated ECAL programs are run on 2..16 threads that share one
// runtime provider (one mutex table) — either evaluated directly in goroutines with thread
// ids from erp.NewThreadID(), or as sinks on the provider's processor with several workers
// (one event per program instance).  The programs enter blocks of 1..3 names, nested up to
// depth 3, and leave them in every way (normal end, raise, return, break, continue).  Go
// functions put into the scope are called from inside the blocks: enter(n) as the first
// statement of a body, leave(n) as the last thing executed in it, inc() for a
// read-modify-write of a shared counter with a deliberate yield between read and write.
// They append to an occupancy trace under a harness lock.  No hooks into /repo.
//
// The Coq side (Run/RunC12.v) validates the trace against the Spec's occupancy automaton
// and replays it on the model.

import (
	"crypto/sha1"
	"encoding/json"
	"fmt"
	"runtime"
	"sort"
	"strings"
	"sync"
	"sync/atomic"
	"time"

	"github.com/krotik/ecal/config"
	"github.com/krotik/ecal/engine"
	"github.com/krotik/ecal/interpreter"
	"github.com/krotik/ecal/parser"
	"github.com/krotik/ecal/scope"
)

func init() { register("C12", runC12) }

// ---------------------------------------------------------------- programs

// c12node is a block `mutex n<Name> { ... }` (or, with Inc, the statement inc()).
type c12node struct {
	Inc    bool       `json:"inc,omitempty"`
	Name   int        `json:"name,omitempty"`
	Body   []*c12node `json:"body,omitempty"`
	Exit   string     `json:"exit,omitempty"`   // normal | error | return | break | continue
	StyleB bool       `json:"styleB,omitempty"` // leave(n) written before the abrupt statement instead of in a finally
	Prop   bool       `json:"prop,omitempty"`   // the abrupt completion is not caught between this block and its parent
}

type c12desc struct {
	Mode    string       `json:"mode"`    // direct | sinks
	Workers int          `json:"workers"` // sinks: workers of the processor
	Scripts [][]*c12node `json:"scripts"` // one program per thread (direct) / per sink (sinks)
	Events  []int        `json:"events"`  // sinks: the sink each event triggers
	Reps    int          `json:"reps,omitempty"`
	Spawn   int          `json:"spawn,omitempty"` // direct: workers a processor spawns while the threads fetch their ids
	// mode "ids": Goroutines threads fetch Rounds ids each at the same instant, up to Attempts times
	Goroutines int `json:"goroutines,omitempty"`
	Rounds     int `json:"rounds,omitempty"`
	Attempts   int `json:"attempts,omitempty"`

	forceTids []uint64 // (not part of the description) ids found duplicated by the "ids" mode
}

var c12exits = []string{"normal", "error", "return", "break", "continue"}

func c12exitCode(e string) int {
	for i, x := range c12exits {
		if x == e {
			return i
		}
	}
	return 0
}

type c12render struct {
	sb  strings.Builder
	ctr int
}

func (r *c12render) line(ind int, s string) {
	r.sb.WriteString(strings.Repeat("  ", ind))
	r.sb.WriteString(s)
	r.sb.WriteString("\n")
}

func c12lastProp(n *c12node) bool {
	if len(n.Body) == 0 {
		return false
	}
	l := n.Body[len(n.Body)-1]
	return !l.Inc && l.Prop
}

func (r *c12render) node(n *c12node, ind int) {
	if n.Inc {
		r.line(ind, "inc()")
		return
	}
	catch := n.Exit != "normal" && !n.Prop
	r.ctr++
	id := r.ctr
	if catch {
		switch n.Exit {
		case "error":
			r.line(ind, "try {")
		case "return":
			r.line(ind, fmt.Sprintf("func f%d() {", id))
		default:
			r.line(ind, fmt.Sprintf("for i%d in [1] {", id))
		}
		ind++
	}
	abrupt := ""
	if n.Exit != "normal" && !c12lastProp(n) {
		switch n.Exit {
		case "error":
			abrupt = "raise(\"c12\")"
		case "return":
			abrupt = "return 1"
		default:
			abrupt = n.Exit
		}
	}
	styleB := n.StyleB && !c12lastProp(n)
	if len(n.Body) == 0 && abrupt == "" {
		styleB = true
	}
	r.line(ind, fmt.Sprintf("mutex n%d {", n.Name))
	r.line(ind+1, fmt.Sprintf("enter(%d)", n.Name))
	if styleB {
		for _, c := range n.Body {
			r.node(c, ind+1)
		}
		r.line(ind+1, fmt.Sprintf("leave(%d)", n.Name))
		if abrupt != "" {
			r.line(ind+1, abrupt)
		}
	} else {
		r.line(ind+1, "try {")
		for _, c := range n.Body {
			r.node(c, ind+2)
		}
		if abrupt != "" {
			r.line(ind+2, abrupt)
		}
		r.line(ind+1, "} finally {")
		r.line(ind+2, fmt.Sprintf("leave(%d)", n.Name))
		r.line(ind+1, "}")
	}
	r.line(ind, "}")
	if catch {
		ind--
		switch n.Exit {
		case "error":
			r.line(ind, "} except {")
			r.line(ind, "}")
		case "return":
			r.line(ind, "}")
			r.line(ind, fmt.Sprintf("f%d()", id))
		default:
			r.line(ind, "}")
		}
	}
}

func c12source(script []*c12node, r *c12render, ind int) {
	for _, n := range script {
		r.node(n, ind)
	}
}

func c12flatten(script []*c12node, out *[]string) {
	for _, n := range script {
		if n.Inc {
			*out = append(*out, "0") // OInc
			continue
		}
		*out = append(*out, fmt.Sprint(4*n.Name+1)) // OEnter name
		c12flatten(n.Body, out)
		*out = append(*out, fmt.Sprint(4*c12exitCode(n.Exit)+2)) // OLeave kind
	}
}

func c12names(script []*c12node, set map[int]bool) {
	for _, n := range script {
		if !n.Inc {
			set[n.Name] = true
			c12names(n.Body, set)
		}
	}
}

// ---------------------------------------------------------------- generator

// c12genBlock: a block whose name is >= lo (names are nested in one global order so that
// the programs cannot deadlock among themselves), nesting up to depth.
func c12genBlock(c *Ctx, lo, nnames, depth int, inside1 bool, canProp string, top bool, lastTop bool) *c12node {
	n := &c12node{Name: lo + c.Rng.Intn(nnames-lo+1)}
	n.Exit = c12exits[c.Rng.Intn(len(c12exits))]
	if c.Rng.Intn(3) == 0 {
		n.Exit = "normal"
	}
	n.StyleB = c.Rng.Intn(2) == 0
	if canProp != "" && c.Rng.Intn(2) == 0 {
		n.Exit = canProp
		n.Prop = true
	}
	if top && lastTop && !n.Prop && (n.Exit == "error" || n.Exit == "return") && c.Rng.Intn(4) == 0 {
		n.Prop = true // leaves the whole program uncaught
	}
	in1 := inside1 || n.Name == 1
	k := c.Rng.Intn(3)
	for i := 0; i < k; i++ {
		last := i == k-1
		if depth > 1 && c.Rng.Intn(2) == 0 {
			cp := ""
			if last && n.Exit != "normal" {
				cp = n.Exit
			}
			ch := c12genBlock(c, n.Name, nnames, depth-1, in1, cp, false, false)
			if ch.Prop {
				n.StyleB = false
			}
			n.Body = append(n.Body, ch)
		} else if in1 {
			n.Body = append(n.Body, &c12node{Inc: true})
		}
	}
	return n
}

func c12genScript(c *Ctx, nnames, depth int) []*c12node {
	k := 1 + c.Rng.Intn(3)
	var s []*c12node
	for i := 0; i < k; i++ {
		s = append(s, c12genBlock(c, 1, nnames, depth, false, "", true, i == k-1))
	}
	return s
}

// small universe of single-block programs (exhaustive part): name, exit kind, style, with
// an optional nested block (same or larger name, every exit kind, propagating or caught)
func c12universe(depth2 bool) [][]*c12node {
	var u [][]*c12node
	for name := 1; name <= 2; name++ {
		for _, ex := range c12exits {
			for _, sb := range []bool{false, true} {
				b := &c12node{Name: name, Exit: ex, StyleB: sb}
				if name == 1 {
					b.Body = []*c12node{{Inc: true}}
				}
				u = append(u, []*c12node{b})
			}
		}
	}
	if !depth2 {
		return u
	}
	for outer := 1; outer <= 2; outer++ {
		for inner := outer; inner <= 2; inner++ {
			for _, exo := range c12exits {
				for _, exi := range c12exits {
					for _, prop := range []bool{false, true} {
						if prop && (exi != exo || exi == "normal") {
							continue
						}
						in := &c12node{Name: inner, Exit: exi, Prop: prop, StyleB: (len(u)%2 == 0)}
						if outer == 1 || inner == 1 {
							in.Body = []*c12node{{Inc: true}}
						}
						out := &c12node{Name: outer, Exit: exo, Body: []*c12node{in}}
						if outer == 1 {
							out.Body = []*c12node{{Inc: true}, in}
						}
						u = append(u, []*c12node{out})
					}
				}
			}
		}
	}
	return u
}

// ---------------------------------------------------------------- recorder

type c12ev struct {
	Kind int // 0 enter, 1 leave, 2 inc
	Tid  uint64
	Name int
}

type c12start struct {
	Tid    uint64
	Script int
	Goid   string // the goroutine (= pool worker) that ran the sink
}

type c12rec struct {
	mu      sync.Mutex
	trace   []c12ev
	inside  map[int]map[uint64]int
	maxocc  int
	starts  []c12start
	counter int64
	x       uint64
}

func (r *c12rec) rnd() uint64 { // under mu
	r.x ^= r.x << 13
	r.x ^= r.x >> 7
	r.x ^= r.x << 17
	return r.x
}

func c12pause(v uint64) {
	runtime.Gosched()
	switch v % 8 {
	case 0:
		time.Sleep(time.Duration(1+v%40) * time.Microsecond)
	case 1, 2:
		runtime.Gosched()
	}
}

type c12func struct {
	f func(tid uint64, args []interface{}) (interface{}, error)
}

func (g *c12func) Run(instanceID string, vs parser.Scope, is map[string]interface{}, tid uint64, args []interface{}) (interface{}, error) {
	return g.f(tid, args)
}
func (g *c12func) DocString() (string, error) { return "verif harness function (C12)", nil }
func (g *c12func) String() string             { return "c12func" }

func c12argInt(args []interface{}) int {
	if len(args) == 0 {
		return -1
	}
	if f, ok := args[0].(float64); ok {
		return int(f)
	}
	return -1
}

func (r *c12rec) scope() parser.Scope {
	vs := scope.NewScope(scope.GlobalScope)
	vs.SetValue("enter", &c12func{func(tid uint64, args []interface{}) (interface{}, error) {
		n := c12argInt(args)
		r.mu.Lock()
		r.trace = append(r.trace, c12ev{0, tid, n})
		m := r.inside[n]
		if m == nil {
			m = map[uint64]int{}
			r.inside[n] = m
		}
		m[tid]++
		occ := 0
		for _, d := range m {
			if d > 0 {
				occ++
			}
		}
		if occ > r.maxocc {
			r.maxocc = occ
		}
		v := r.rnd()
		r.mu.Unlock()
		c12pause(v)
		return nil, nil
	}})
	vs.SetValue("leave", &c12func{func(tid uint64, args []interface{}) (interface{}, error) {
		n := c12argInt(args)
		r.mu.Lock()
		v := r.rnd()
		r.mu.Unlock()
		c12pause(v)
		r.mu.Lock()
		r.trace = append(r.trace, c12ev{1, tid, n})
		if m := r.inside[n]; m != nil {
			m[tid]--
		}
		r.mu.Unlock()
		return nil, nil
	}})
	vs.SetValue("inc", &c12func{func(tid uint64, args []interface{}) (interface{}, error) {
		r.mu.Lock()
		r.trace = append(r.trace, c12ev{2, tid, 0})
		v := r.rnd()
		r.mu.Unlock()
		x := atomic.LoadInt64(&r.counter) // read
		c12pause(v | 1<<62)               // a lost update would happen here
		if v%3 == 0 {
			time.Sleep(time.Duration(1+v%20) * time.Microsecond)
		}
		atomic.StoreInt64(&r.counter, x+1) // write
		return nil, nil
	}})
	vs.SetValue("start", &c12func{func(tid uint64, args []interface{}) (interface{}, error) {
		goid := c12goid()
		r.mu.Lock()
		r.starts = append(r.starts, c12start{tid, c12argInt(args), goid})
		r.mu.Unlock()
		return nil, nil
	}})
	return vs
}

// ---------------------------------------------------------------- running

type c12result struct {
	rec       *c12rec
	completed bool
	panicMsg  string
	threads   []string // Coq terms (tid, ops)
	srcs      []string
	errs      []string
	skip      string   // not comparable (reason)
	ids       []uint64 // every thread id handed out during the run
}

// A run counts as not completed when the occupancy trace has not grown for c12stall (no
// thread makes progress: blocked on a mutex that nobody releases); a slow machine alone
// never produces that verdict.
const c12stall = 20 * time.Second

func (r *c12rec) progress() int {
	r.mu.Lock()
	defer r.mu.Unlock()
	return len(r.trace) + len(r.starts)
}

// c12await waits for done; false when the run stalled.
func c12await(rec *c12rec, done <-chan struct{}) bool {
	last := rec.progress()
	lastChange := time.Now()
	tick := time.NewTicker(200 * time.Millisecond)
	defer tick.Stop()
	for {
		select {
		case <-done:
			return true
		case <-tick.C:
			if p := rec.progress(); p != last {
				last = p
				lastChange = time.Now()
			} else if time.Since(lastChange) > c12stall {
				return false
			}
		}
	}
}

func c12runDirect(d c12desc) c12result {
	rec := &c12rec{inside: map[int]map[uint64]int{}, x: 88172645463325252}
	res := c12result{rec: rec}
	erp := interpreter.NewECALRuntimeProvider("c12", nil, nil)
	defer erp.Cron.Stop()
	vs := rec.scope()
	type th struct {
		ast *parser.ASTNode
		tid uint64
	}
	var ths []th
	for i, s := range d.Scripts {
		r := &c12render{}
		c12source(s, r, 0)
		src := r.sb.String()
		res.srcs = append(res.srcs, src)
		ast, err := parser.ParseWithRuntime(fmt.Sprintf("c12-%d", i), src, erp)
		if err == nil {
			err = ast.Runtime.Validate()
		}
		if err != nil {
			res.panicMsg = "generated program does not parse: " + err.Error() + "\n" + src
			return res
		}
		ths = append(ths, th{ast, 0})
	}
	tids := make([]uint64, len(ths))
	var start int32
	var wg sync.WaitGroup
	var pmu sync.Mutex
	tp := erp.Processor.ThreadPool()
	tp.TooManyThreshold = 1 << 30
	if d.Spawn > 0 {
		// a processor starts its workers (ids from the same counter) at the same instant
		wg.Add(1)
		go func() {
			defer wg.Done()
			c12spin(&start)
			for w := 1; w <= d.Spawn; w++ {
				tp.SetWorkerCount(w, false)
			}
		}()
		defer tp.JoinAll()
	}
	for i := range ths {
		wg.Add(1)
		i := i
		t := ths[i]
		tvs := vs.NewChild(fmt.Sprintf("t%d", i))
		expectErr := len(d.Scripts[i]) > 0 && d.Scripts[i][len(d.Scripts[i])-1].Prop
		go func() {
			defer wg.Done()
			defer func() {
				if p := recover(); p != nil {
					pmu.Lock()
					res.panicMsg = fmt.Sprint(p)
					pmu.Unlock()
				}
			}()
			c12spin(&start)
			// every thread fetches ITS OWN id, all at the same instant
			tid := erp.NewThreadID()
			if i < len(d.forceTids) {
				tid = d.forceTids[i]
			}
			tids[i] = tid
			_, err := t.ast.Runtime.Eval(tvs, make(map[string]interface{}), tid)
			if (err != nil) != expectErr {
				pmu.Lock()
				res.errs = append(res.errs, fmt.Sprintf("thread %d: unexpected result: %v", tid, err))
				pmu.Unlock()
			}
		}()
	}
	done := make(chan struct{})
	go func() { wg.Wait(); close(done) }()
	time.Sleep(50 * time.Microsecond) // let the goroutines reach the barrier
	atomic.StoreInt32(&start, 1)
	res.completed = c12await(rec, done)
	if !res.completed {
		for _, t := range tids { // the ids fetched so far (the threads are stuck)
			if t != 0 {
				res.ids = append(res.ids, t)
			}
		}
		return res
	}
	for i, s := range d.Scripts {
		var ops []string
		c12flatten(s, &ops)
		res.threads = append(res.threads, fmt.Sprintf("(%d, %s)", tids[i], CoqList(ops)))
	}
	res.ids = append(res.ids, tids...)
	if d.Spawn > 0 {
		res.ids = append(res.ids, c12workerIDs(tp)...)
	}
	return res
}

// c12spin: start barrier (busy wait so that all threads leave it at the same instant)
func c12spin(start *int32) {
	for n := 0; atomic.LoadInt32(start) == 0; n++ {
		if n%2000 == 1999 {
			runtime.Gosched()
		}
	}
}

func c12workerIDs(tp interface{ State() map[string]interface{} }) []uint64 {
	ids, _ := tp.State()["TotalWorkerThreads"].([]uint64)
	return ids
}

// c12badIDs: ids handed out more than once, or zero
func c12badIDs(ids []uint64) (dups []uint64, zero bool) {
	seen := map[uint64]bool{}
	for _, id := range ids {
		if id == 0 {
			zero = true
		}
		if seen[id] {
			dups = append(dups, id)
		}
		seen[id] = true
	}
	return
}

func c12goid() string {
	var buf [64]byte
	n := runtime.Stack(buf[:], false)
	f := strings.Fields(string(buf[:n]))
	if len(f) >= 2 {
		return f[1]
	}
	return ""
}

func c12runSinks(d c12desc) c12result {
	rec := &c12rec{inside: map[int]map[uint64]int{}, x: 88172645463325252}
	res := c12result{rec: rec}
	config.Config[config.WorkerCount] = d.Workers
	erp := interpreter.NewECALRuntimeProvider("c12", nil, nil)
	defer erp.Cron.Stop()
	vs := rec.scope()
	r := &c12render{}
	for i, s := range d.Scripts {
		r.line(0, fmt.Sprintf("sink s%d", i))
		r.line(1, fmt.Sprintf("kindmatch [ \"c12.s%d\" ],", i))
		r.line(1, "{")
		r.line(2, fmt.Sprintf("start(%d)", i))
		c12source(s, r, 2)
		r.line(1, "}")
	}
	src := r.sb.String()
	res.srcs = []string{src}
	ast, err := parser.ParseWithRuntime("c12-sinks", src, erp)
	if err == nil {
		err = ast.Runtime.Validate()
	}
	if err == nil {
		mainTid := erp.NewThreadID()
		res.ids = append(res.ids, mainTid)
		_, err = ast.Runtime.Eval(vs, make(map[string]interface{}), mainTid)
	}
	if err != nil {
		res.panicMsg = "generated program does not load: " + err.Error() + "\n" + src
		return res
	}
	erp.Processor.ThreadPool().TooManyThreshold = 1 << 30 // no "queue is filling up" warnings on stderr
	var g callResult
	var added int64
	gdone := make(chan struct{})
	go func() {
		defer close(gdone)
		defer func() {
			if p := recover(); p != nil {
				g.Panicked = true
				g.PanicMsg = fmt.Sprint(p)
			}
		}()
		g.Val, g.Err = func() (interface{}, error) {
			erp.Processor.Start()
			for k, s := range d.Events {
				ev := engine.NewEvent(fmt.Sprintf("e%d-%d", s, k), []string{"c12", fmt.Sprintf("s%d", s)}, map[interface{}]interface{}{})
				m, err := erp.Processor.AddEvent(ev, nil)
				if err != nil {
					return nil, err
				}
				if m != nil {
					atomic.AddInt64(&added, 1)
				}
			}
			erp.Processor.Finish()
			return nil, nil
		}()
	}()
	if !c12await(rec, gdone) {
		g = callResult{TimedOut: true}
	}
	if g.Panicked {
		res.panicMsg = g.PanicMsg
		return res
	}
	if g.Err != nil {
		res.panicMsg = "processor: " + g.Err.Error()
		return res
	}
	rec.mu.Lock()
	defer rec.mu.Unlock()
	res.completed = !g.TimedOut
	if !g.TimedOut && int64(len(rec.starts)) != atomic.LoadInt64(&added) {
		// the engine did not run every event it accepted: not a matter of the mutex blocks
		res.skip = fmt.Sprintf("processor ran %d of %d accepted events", len(rec.starts), atomic.LoadInt64(&added))
	}
	if g.TimedOut {
		// stalled: is a started program stuck in the middle (mutex never obtained), or did
		// the engine stop handing out events while every started program ran to its end?
		want := map[uint64]int{}
		for _, st := range rec.starts {
			if st.Script >= 0 && st.Script < len(d.Scripts) {
				var ops []string
				c12flatten(d.Scripts[st.Script], &ops)
				want[st.Tid] += len(ops)
			}
		}
		got := map[uint64]int{}
		for _, e := range rec.trace {
			got[e.Tid]++
		}
		stuck := false
		for tid, w := range want {
			if got[tid] < w {
				stuck = true
			}
		}
		if !stuck {
			res.skip = "processor stalled with every started program finished"
		}
	}
	// one id per worker goroutine that ran a sink
	byGo := map[string]uint64{}
	var goOrder []string
	for _, st := range rec.starts {
		if _, ok := byGo[st.Goid]; !ok {
			goOrder = append(goOrder, st.Goid)
		}
		byGo[st.Goid] = st.Tid
	}
	for _, g := range goOrder {
		res.ids = append(res.ids, byGo[g])
	}
	// the program of a worker = the programs of the events it processed, in order
	per := map[uint64][]string{}
	var order []uint64
	for _, st := range rec.starts {
		if _, ok := per[st.Tid]; !ok {
			order = append(order, st.Tid)
		}
		ops := per[st.Tid]
		if st.Script >= 0 && st.Script < len(d.Scripts) {
			c12flatten(d.Scripts[st.Script], &ops)
		}
		if ops == nil {
			ops = []string{}
		}
		per[st.Tid] = ops
	}
	sort.Slice(order, func(i, j int) bool { return order[i] < order[j] })
	for _, tid := range order {
		res.threads = append(res.threads, fmt.Sprintf("(%d, %s)", tid, CoqList(per[tid])))
	}
	return res
}

// c12ids: the guard of the theorems on the implementation.  Goroutines threads fetch Rounds
// ids each from erp.NewThreadID() at the same instant while the processor's pool spawns
// workers (ids from the same counter); every id handed out must be new and non-zero.
// When a duplicate shows, two threads carrying it run a mutex program (the exclusion
// violation that follows becomes visible as a case for the Coq side).
func c12ids(c *Ctx, d c12desc) bool {
	erp := interpreter.NewECALRuntimeProvider("c12", nil, nil)
	defer erp.Cron.Stop()
	tp := erp.Processor.ThreadPool()
	tp.TooManyThreshold = 1 << 30
	defer tp.JoinAll()
	seen := map[uint64]bool{}
	workers := map[uint64]bool{}
	var dups []uint64
	zero := false
	total := 0
	for a := 0; a < d.Attempts && len(dups) == 0 && !zero; a++ {
		ids := make([][]uint64, d.Goroutines)
		var start int32
		var wg sync.WaitGroup
		for g := 0; g < d.Goroutines; g++ {
			ids[g] = make([]uint64, 0, d.Rounds)
			wg.Add(1)
			go func(g int) {
				defer wg.Done()
				c12spin(&start)
				for i := 0; i < d.Rounds; i++ {
					ids[g] = append(ids[g], erp.NewThreadID())
				}
			}(g)
		}
		wg.Add(1)
		go func() {
			defer wg.Done()
			c12spin(&start)
			for w := 4*a + 1; w <= 4*a+4; w++ {
				tp.SetWorkerCount(w, false)
			}
		}()
		time.Sleep(50 * time.Microsecond)
		atomic.StoreInt32(&start, 1)
		wg.Wait()
		for _, l := range ids {
			for _, id := range l {
				total++
				if id == 0 {
					zero = true
				}
				if seen[id] {
					dups = append(dups, id)
				}
				seen[id] = true
			}
		}
		for _, id := range c12workerIDs(tp) {
			if workers[id] {
				continue
			}
			workers[id] = true
			total++
			if id == 0 {
				zero = true
			}
			if seen[id] {
				dups = append(dups, id)
			}
			seen[id] = true
		}
	}
	c.Dist["mode_ids"]++
	c.Dist["thread_ids_requested"] += total
	if len(dups) == 0 && !zero {
		c.Count(c12key(d), true, d)
		return true
	}
	what := fmt.Sprintf("%d of %d thread ids were handed out more than once", len(dups), total)
	if len(dups) > 0 {
		what += fmt.Sprintf(" (e.g. %d)", dups[0])
	}
	if zero {
		what += "; the id 0 was handed out"
	}
	c.Violate("duplicate-thread-id", what+": NewThreadID does not give every thread its own non-zero id (guard of the C12 theorems)", d)
	if len(dups) > 0 {
		// two threads that were handed the same id enter blocks of one name
		inc := func() *c12node { return &c12node{Inc: true} }
		prog := func() []*c12node {
			return []*c12node{c12blk(1, "normal", true, inc(), inc(), inc()), c12blk(1, "error", false, inc(), inc()), c12blk(1, "normal", true, inc(), inc(), inc())}
		}
		d2 := c12desc{Mode: "direct", Scripts: [][]*c12node{prog(), prog()}, forceTids: []uint64{dups[0], dups[0]}}
		res := c12runDirect(d2)
		if res.panicMsg == "" && res.completed {
			c12emit(c, d, res, true)
		}
	}
	return false
}

func c12key(d c12desc) string {
	d.Reps = 0
	b, _ := json.Marshal(d)
	return fmt.Sprintf("%x", sha1.Sum(b))[:16]
}

// c12one runs one description once and emits the case; returns false on a direct violation.
func c12one(c *Ctx, d c12desc) bool {
	var res c12result
	if d.Mode == "ids" {
		return c12ids(c, d)
	}
	if d.Mode == "sinks" {
		res = c12runSinks(d)
	} else {
		res = c12runDirect(d)
	}
	shared := false
	{
		cnt := map[int]int{}
		for _, s := range d.Scripts {
			set := map[int]bool{}
			c12names(s, set)
			for n := range set {
				cnt[n]++
			}
		}
		for _, k := range cnt {
			if k > 1 {
				shared = true
			}
		}
		if d.Mode == "sinks" && len(d.Events) > 1 {
			shared = true
		}
	}
	if res.skip != "" {
		c.Dist["skipped_engine"]++
		if len(c.Notes) < 20 {
			c.Notes = append(c.Notes, "not comparable: "+res.skip)
		}
		return true
	}
	if res.panicMsg != "" {
		c.Violate("panic", "running the programs panicked / failed: "+res.panicMsg, d)
		c.Count(c12key(d), shared, d)
		return false
	}
	if dups, _ := c12badIDs(res.ids); !res.completed && len(dups) > 0 {
		c.Violate("duplicate-thread-id", fmt.Sprintf("thread ids handed out during the run are not pairwise distinct: %v", res.ids), d)
		c.Count(c12key(d), shared, d)
		return false
	}
	if !res.completed {
		c.Violate("nontermination", fmt.Sprintf("not all threads completed: no progress for %v (a mutex was not released, or a deadlock)", c12stall), d)
		c.Count(c12key(d), shared, d)
		return false
	}
	for _, e := range res.errs {
		if len(c.Notes) < 20 {
			c.Notes = append(c.Notes, e)
		}
	}
	if dups, zero := c12badIDs(res.ids); len(dups) > 0 || zero {
		c.Violate("duplicate-thread-id", fmt.Sprintf("thread ids handed out during the run are not pairwise distinct and non-zero: %v", res.ids), d)
	}
	c12emit(c, d, res, shared)
	return true
}

func c12emit(c *Ctx, d c12desc, res c12result, shared bool) {
	rec := res.rec
	rec.mu.Lock()
	var tr []string
	for _, e := range rec.trace {
		// Run/RunC12.dec_ev: kind + 4 * (name + 8 * tid)
		tr = append(tr, fmt.Sprint(uint64(e.Kind)+4*(uint64(e.Name&7)+8*e.Tid)))
	}
	maxocc := rec.maxocc
	counter := atomic.LoadInt64(&rec.counter)
	rec.mu.Unlock()
	id := c.NewID()
	term := fmt.Sprintf("mkCase %d %s %s %d %s true", id, CoqList(res.threads), CoqList(tr), counter, CoqNat(maxocc))
	c.Dist["mode_"+d.Mode]++
	c.Dist[fmt.Sprintf("threads_%02d", len(res.threads))]++
	if len(tr) > 0 {
		c.Dist["trace_events"] += len(tr)
	}
	c.Dist["thread_ids_checked"] += len(res.ids)
	c.AddCase(id, term, d, c12key(d), shared)
}

// ---------------------------------------------------------------- the sweep

func c12blk(name int, exit string, styleB bool, body ...*c12node) *c12node {
	return &c12node{Name: name, Exit: exit, StyleB: styleB, Body: body}
}

func c12corpus() []c12desc {
	inc := func() *c12node { return &c12node{Inc: true} }
	nestedErr := func() []*c12node { // mutex 1 { mutex 1 { inc; raise } }  error leaves both
		in := c12blk(1, "error", false, inc())
		in.Prop = true
		return []*c12node{c12blk(1, "error", false, inc(), in), c12blk(1, "normal", true, inc())}
	}
	nestedRet := func() []*c12node {
		in := c12blk(1, "return", false, inc())
		in.Prop = true
		return []*c12node{c12blk(1, "return", false, in), c12blk(1, "normal", true, inc())}
	}
	uncaught := func() []*c12node {
		b := c12blk(1, "error", true, inc())
		b.Prop = true
		return []*c12node{c12blk(1, "normal", true, inc()), b}
	}
	reenter := func() []*c12node { // re-entered block left normally, outer continues
		return []*c12node{c12blk(1, "normal", true, c12blk(1, "normal", true, inc()), inc(), c12blk(1, "break", true, inc()), inc())}
	}
	twoNames := func(a, b int) []*c12node {
		return []*c12node{c12blk(a, "continue", true), c12blk(b, "error", true), c12blk(1, "normal", true, inc(), c12blk(2, "return", false))}
	}
	var ds []c12desc
	rep := func(s func() []*c12node, n int) [][]*c12node {
		var r [][]*c12node
		for i := 0; i < n; i++ {
			r = append(r, s())
		}
		return r
	}
	ds = append(ds,
		c12desc{Mode: "direct", Scripts: rep(nestedErr, 2)},
		c12desc{Mode: "direct", Scripts: rep(nestedErr, 8)},
		c12desc{Mode: "direct", Scripts: rep(nestedRet, 4)},
		c12desc{Mode: "direct", Scripts: rep(uncaught, 4)},
		c12desc{Mode: "direct", Scripts: rep(reenter, 6)},
		c12desc{Mode: "direct", Scripts: [][]*c12node{twoNames(1, 2), twoNames(2, 1), twoNames(3, 3), nestedErr()}},
		c12desc{Mode: "direct", Scripts: rep(reenter, 16)},
		c12desc{Mode: "sinks", Workers: 4, Scripts: rep(nestedErr, 1), Events: []int{0, 0, 0, 0, 0, 0, 0, 0}},
		c12desc{Mode: "sinks", Workers: 8, Scripts: [][]*c12node{nestedErr(), uncaught(), reenter(), nestedRet()}, Events: []int{0, 1, 2, 3, 0, 1, 2, 3, 3, 2, 1, 0}},
		c12desc{Mode: "sinks", Workers: 2, Scripts: [][]*c12node{uncaught(), twoNames(1, 2)}, Events: []int{0, 1, 0, 1, 0, 1}},
	)
	return ds
}

func runC12(c *Ctx) error {
	c.Rule = "ECAL programs of nested `mutex n1..n3 {}` blocks (names nested in one global order, depth <= 3, every block left by normal end / raise / return / break / continue, caught directly or after travelling through the enclosing blocks, leave() in a finally or before the abrupt statement, counter increments only inside n1) on 2..16 threads sharing one runtime provider: direct evaluation in goroutines that each fetch their own id from NewThreadID right after a common start barrier (in a third of the runs while a processor spawns workers), and sinks on a processor with 2..16 workers; all ids handed out in a run must be pairwise distinct and non-zero, checked first by 16 goroutines fetching 2000 ids each at the same instant (repeated) while workers are spawned; fixed corpus, then an exhaustive universe of one-block and two-block programs run pairwise, then seeded random programs; each description run several times (schedules come from the Go runtime); non-trivial = at least two threads use a common name; distinct by description"
	c.BeginCases("From Ecal Require Import Model.Mutex Run.RunC12.\nOpen Scope N_scope.", "ecase", 150)
	c.caseFiles = []string{} // "case_files": [] rather than null when every run is a direct violation

	if c.Replay != "" {
		var d c12desc
		if err := c.LoadReplay(&d); err != nil {
			return err
		}
		// the schedule is the Go runtime's: repeat until the failure shows again
		for i := 0; i < 60; i++ {
			if !c12one(c, d) {
				break
			}
		}
		return nil
	}

	reps := c.Pick(2, 4)
	run := func(d c12desc) {
		for i := 0; i < reps && !c.Enough(); i++ {
			if !c12one(c, d) {
				return
			}
		}
	}
	// the guard of the theorems first: every thread gets its own non-zero id, also when many
	// threads and a starting processor ask at the same instant
	c12one(c, c12desc{Mode: "ids", Goroutines: 16, Rounds: 2000, Attempts: c.Pick(20, 40)})
	for i, d := range c12corpus() {
		if d.Mode == "direct" && i%2 == 0 {
			d.Spawn = 4
		}
		run(d)
	}
	// exhaustive small universe
	u1 := c12universe(false)
	u2 := c12universe(true)
	c.Extra["universe_one_block"] = len(u1)
	c.Extra["universe_up_to_two_blocks"] = len(u2)
	pairs := 0
	for i, a := range u2 {
		if c.Enough() {
			break
		}
		// every program against itself (2 and 3 threads) ...
		run(c12desc{Mode: "direct", Scripts: [][]*c12node{a, a}})
		pairs++
		if c.Thorough() || i%4 == 0 {
			run(c12desc{Mode: "direct", Scripts: [][]*c12node{a, a, a}})
			pairs++
		}
		// ... and against the one-block programs (all of them in the thorough tier)
		for j, b := range u1 {
			if !c.Thorough() && (i >= len(u1) || (i+j)%5 != 0) {
				continue
			}
			if c.Thorough() && i >= len(u1) && (i+j)%4 != 0 {
				continue
			}
			run(c12desc{Mode: "direct", Scripts: [][]*c12node{a, b}})
			pairs++
		}
	}
	c.Extra["universe_combinations"] = pairs
	// sinks over the universe: a few programs per processor
	for i := 0; i+2 < len(u2) && !c.Enough(); i += c.Pick(9, 3) {
		w := 2 + i%7
		run(c12desc{Mode: "sinks", Workers: w, Scripts: [][]*c12node{u2[i], u2[i+1], u2[i+2]}, Events: []int{0, 1, 2, 2, 1, 0, 0, 1, 2}})
	}
	// seeded random
	for i := 0; i < c.Pick(100, 1000) && !c.Enough(); i++ {
		k := 2 + c.Rng.Intn(15)
		nn := 1 + c.Rng.Intn(3)
		depth := 1 + c.Rng.Intn(3)
		d := c12desc{Mode: "direct"}
		if c.Rng.Intn(3) == 0 {
			d.Spawn = 1 + c.Rng.Intn(8)
		}
		for t := 0; t < k; t++ {
			d.Scripts = append(d.Scripts, c12genScript(c, nn, depth))
		}
		run(d)
	}
	for i := 0; i < c.Pick(30, 300) && !c.Enough(); i++ {
		w := 2 + c.Rng.Intn(15)
		nn := 1 + c.Rng.Intn(3)
		depth := 1 + c.Rng.Intn(3)
		d := c12desc{Mode: "sinks", Workers: w}
		ns := 1 + c.Rng.Intn(4)
		for t := 0; t < ns; t++ {
			s := c12genScript(c, nn, depth)
			d.Scripts = append(d.Scripts, s)
		}
		ne := w + c.Rng.Intn(2*w)
		for e := 0; e < ne; e++ {
			d.Events = append(d.Events, c.Rng.Intn(ns))
		}
		run(d)
	}
	c.Exhaustive = false
	return nil
}
