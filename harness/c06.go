//go:build c06

package main

// C06 — no ECAL program, sink attribute or event can crash the host process.
//
// Streams (DESIGN.md 5 C06; recover lives in this harness only):
//  1. every modelled primitive x argument vectors over the value universe, rendered as ECAL
//     source, evaluated by the REAL interpreter; the outcome class {value kind, error class,
//     panic} is compared with Model/Prims.v inside Coq (Run/RunC06.v).  A panic is reported
//     directly (no model needed).
//  2. syntactically valid random programs with ill-typed / boundary operands: any panic is a
//     violation.
//  3. sinks with arbitrary attribute values and events with arbitrary state values processed
//     on REAL pool workers, in a CHILD PROCESS (sub-command C06-child of this binary): a
//     panic on a worker kills the process, which the parent observes as a non-zero exit.
//  4. (also in the child) an error raised inside try is catchable there; an error inside a
//     sink fails only that sink invocation.
//
// A panic is keyed `panic:<function>:<class>` (function of the innermost frame inside
// github.com/krotik/ecal, class of the runtime error) — no line numbers.

import (
	"encoding/json"
	"fmt"
	"math"
	"os"
	"os/exec"
	"path/filepath"
	"regexp"
	"runtime/debug"
	"strconv"
	"strings"
	"time"

	"github.com/krotik/ecal/config"
	"github.com/krotik/ecal/interpreter"
	"github.com/krotik/ecal/parser"
	"github.com/krotik/ecal/scope"
	"github.com/krotik/ecal/util"
)

func init() {
	register("C06", runC06)
	register("C06-child", runC06Child)
}

// ------------------------------------------------------------------------------- values

type c06val struct {
	Src string // ECAL source
	Coq string // term of type Prims.val
}

const c06prelude = "fn := func () {\n  return 1\n}\n"

func c06num(f float64) string {
	switch {
	case math.IsNaN(f):
		return "(VNum NNaN)"
	case math.IsInf(f, 1):
		return "(VNum (NInf false))"
	case math.IsInf(f, -1):
		return "(VNum (NInf true))"
	case f == 0:
		return "(VNum (NFin 0 0))"
	}
	fr, exp := math.Frexp(f) // f = fr * 2^exp, 0.5 <= |fr| < 1
	m := int64(fr * (1 << 53))
	e := exp - 53
	for m%2 == 0 {
		m /= 2
		e++
	}
	return fmt.Sprintf("(VNum (NFin %s %s))", CoqZ(m), CoqZ(int64(e)))
}

func c06str(s string) string { return "(VStr " + CoqString(s) + ")" }

var (
	vNull  = c06val{"null", "VNull"}
	vTrue  = c06val{"true", "(VBool true)"}
	vFalse = c06val{"false", "(VBool false)"}
	v0     = c06val{"0", c06num(0)}
	v1     = c06val{"1", c06num(1)}
	vM1    = c06val{"(-1)", c06num(-1)}
	v25    = c06val{"2.5", c06num(2.5)}
	vHuge  = c06val{"1e+300", c06num(1e300)}
	vS     = c06val{"\"s\"", c06str("s")}
	vE     = c06val{"\"\"", c06str("")}
	vL0    = c06val{"[]", "(VList [])"}
	vL12   = c06val{"[1, 2]", "(VList [" + c06num(1) + "; " + c06num(2) + "])"}
	vLL1   = c06val{"[[1]]", "(VList [VList [" + c06num(1) + "]])"}
	vM0    = c06val{"{}", "(VMap [])"}
	vMa1   = c06val{"{\"a\" : 1}", "(VMap [(" + c06str("a") + ", " + c06num(1) + ")])"}
	vFn    = c06val{"fn", "(VFun 1)"}

	v5      = c06val{"5", c06num(5)}
	vM5     = c06val{"(-5)", c06num(-5)}
	v3      = c06val{"3", c06num(3)}
	v2      = c06val{"2", c06num(2)}
	vM2     = c06val{"(-2)", c06num(-2)}
	vM3     = c06val{"(-3)", c06num(-3)}
	vHalf   = c06val{"0.5", c06num(0.5)}
	vNaN    = c06val{"(0/0)", c06num(math.NaN())}
	vInf    = c06val{"(1/0)", c06num(math.Inf(1))}
	vSNaN   = c06val{"\"NaN\"", c06str("NaN")}
	vS1     = c06val{"\"1\"", c06str("1")}
	vL123   = c06val{"[1, 2, 3]", "(VList [" + c06num(1) + "; " + c06num(2) + "; " + c06num(3) + "])"}
	vMsuper = c06val{"{\"super\" : 1}", "(VMap [(" + c06str("super") + ", " + c06num(1) + ")])"}
	vM12    = c06val{"{1 : 2}", "(VMap [(" + c06num(1) + ", " + c06num(2) + ")])"}
	vLa     = c06val{"[\"a\"]", "(VList [" + c06str("a") + "])"}
)

// the universe of the property text: null, bool, +-numbers incl. 0, fraction, huge, strings,
// lists, maps, a function
var c06U = []c06val{vNull, vTrue, v0, v1, vM1, v25, vHuge, vS, vE, vL0, vL12, vLL1, vM0, vMa1, vFn}

// boundary values added for index / divisor / argument positions
var c06X = []c06val{v5, vM5, v3, v2, vM2, vM3, vHalf, vNaN, vInf, vSNaN, vS1, vL123, vMsuper, vM12, vFalse, vLa}

// strings of the universe that strconv.ParseFloat accepts (AssertNumParam), as Coq table
const c06parse = "[(\"NaN\"%string, NNaN); (\"1\"%string, NFin 1 0)]"

// ------------------------------------------------------------------------------- running

type c06outcome struct {
	Class    string // "value", "error", "panic", "timeout"
	Kind     string // value: Coq kind constructor; error: class string
	PanicKey string
	PanicMsg string
	Detail   string
}

var c06frame = regexp.MustCompile(`^github\.com/krotik/ecal/([^\s(][^\n]*?)\(`)

// c06panicKey derives `panic:<function>:<class>` from the panic value and a stack trace.
func c06panicKey(msg, stack string) string {
	fn := "unknown"
	for _, l := range strings.Split(stack, "\n") {
		l = strings.TrimSpace(l)
		if !strings.HasPrefix(l, "github.com/krotik/ecal/") {
			continue
		}
		// function line: pkg/path.(*T).Method.func1(args...)
		if i := strings.LastIndex(l, "("); i > 0 {
			fn = strings.TrimPrefix(l[:i], "github.com/krotik/ecal/")
		}
		break
	}
	cls := "other"
	for _, p := range [][2]string{
		{"integer divide by zero", "intdiv"}, {"comparing uncomparable", "uncomparable"},
		{"hash of unhashable", "unhashable"}, {"index out of range", "index"},
		{"slice bounds out of range", "slice"}, {"nil pointer dereference", "nilptr"},
		{"interface conversion", "assert"}, {"nil map", "nilmap"},
	} {
		if strings.Contains(msg, p[0]) {
			cls = p[1]
			break
		}
	}
	return "panic:" + fn + ":" + cls
}

func c06kind(v interface{}) string {
	switch v.(type) {
	case nil:
		return "KNull"
	case bool:
		return "KBool"
	case float64:
		return "KNum"
	case string:
		return "KStr"
	case []interface{}:
		return "KList"
	case map[interface{}]interface{}:
		return "KMap"
	case util.ECALFunction:
		return "KFun"
	}
	return fmt.Sprintf("other:%T", v)
}

// c06errClass is the "type" an except clause would see.
func c06errClass(err error) string {
	switch e := err.(type) {
	case *util.RuntimeError:
		if e.Type == nil {
			return "<nil type>"
		}
		return e.Type.Error()
	case *util.RuntimeErrorWithDetail:
		return "<raised by the program>"
	}
	return "UnexpectedError"
}

// c06eval parses, validates and evaluates src on the calling goroutine's child with recover.
func c06eval(src string, timeout time.Duration) c06outcome {
	type result struct {
		val   interface{}
		err   error
		pmsg  string
		stack string
	}
	ch := make(chan result, 1)
	var erp *interpreter.ECALRuntimeProvider
	go func() {
		var r result
		defer func() {
			if p := recover(); p != nil {
				r.pmsg = fmt.Sprint(p)
				if r.pmsg == "" {
					r.pmsg = "panic"
				}
				r.stack = string(debug.Stack())
			}
			ch <- r
		}()
		erp = interpreter.NewECALRuntimeProvider("c06", nil, nil)
		erp.Cron.Stop()
		ast, err := parser.ParseWithRuntime("c06", src, erp)
		if err != nil {
			r.err = fmt.Errorf("parse: %w", err)
			return
		}
		if err = ast.Runtime.Validate(); err != nil {
			r.err = err
			return
		}
		vs := scope.NewScope(scope.GlobalScope)
		r.val, r.err = ast.Runtime.Eval(vs, make(map[string]interface{}), erp.NewThreadID())
	}()
	var r result
	select {
	case r = <-ch:
	case <-time.After(timeout):
		return c06outcome{Class: "timeout"}
	}
	if erp != nil && erp.Processor != nil && !erp.Processor.Stopped() {
		done := make(chan struct{})
		go func() { defer func() { recover(); close(done) }(); erp.Processor.Finish() }()
		select {
		case <-done:
		case <-time.After(2 * time.Second):
		}
	}
	switch {
	case r.pmsg != "":
		// skip the frames of the recover machinery: the trace starts at the panic
		st := r.stack
		if i := strings.Index(st, "panic("); i >= 0 {
			st = st[i:]
		}
		return c06outcome{Class: "panic", PanicKey: c06panicKey(r.pmsg, st), PanicMsg: r.pmsg}
	case r.err != nil:
		if strings.HasPrefix(r.err.Error(), "parse:") {
			return c06outcome{Class: "parse-error", Detail: r.err.Error()}
		}
		return c06outcome{Class: "error", Kind: c06errClass(r.err), Detail: r.err.Error()}
	}
	return c06outcome{Class: "value", Kind: c06kind(r.val)}
}

type c06case struct {
	Stream string `json:"stream"`
	Src    string `json:"src"`
	Call   string `json:"call,omitempty"` // Coq term of type Prims.call (stream 1)
}

// c06bulk is set while the large exhaustive families (element access, built-in vectors) are generated.
var c06bulk bool

// c06one runs one primitive case: panic -> violation; otherwise a Coq case when a model term exists.
func c06one(c *Ctx, d c06case) {
	o := c06eval(d.Src, 5*time.Second)
	c.Dist["s"+d.Stream+"_"+o.Class]++
	nontrivial := o.Class != "value"
	switch o.Class {
	case "panic":
		c.Violate(o.PanicKey, "evaluating the program panicked: "+o.PanicMsg, d)
		c.Count(d.Src, true, d)
		return
	case "timeout":
		c.Dist["timeouts"]++
		if len(c.Notes) < 12 {
			c.Notes = append(c.Notes, "timed out: "+tail(d.Src, 160))
		}
		c.Count(d.Src, true, d)
		return
	case "parse-error":
		// the generator is meant to produce syntactically valid programs only
		c.Dist["generator_parse_errors"]++
		if len(c.Notes) < 5 {
			c.Notes = append(c.Notes, "generated program did not parse: "+d.Src+" :: "+o.Detail)
		}
		return
	}
	if d.Call != "" && !c.Thorough() && c06bulk && c.Rng.Intn(4) != 0 {
		// quick tier: bulk families are compared with the model on a seeded quarter
		d.Call = ""
	}
	if d.Call == "" {
		c.Count(d.Src, nontrivial, d)
		return
	}
	if strings.HasPrefix(o.Kind, "other:") {
		c.Violate("unexpected-value-type", "value of a type outside the ECAL universe: "+o.Kind, d)
		return
	}
	obs := "(OValue " + o.Kind + ")"
	if o.Class == "error" {
		obs = "(OError " + CoqString(o.Kind) + ")"
	}
	id := c.NewID()
	c.AddCase(id, fmt.Sprintf("mkCase %d%%N %s %s %s", id, c06parse, d.Call, obs), d, d.Src, nontrivial)
}

// ------------------------------------------------------------------------------- stream 1

type c06binop struct{ Src, Coq string }

var c06binops = []c06binop{
	{"+", "OPlus"}, {"-", "OMinus"}, {"*", "OTimes"}, {"/", "ODiv"}, {"//", "ODivInt"}, {"%", "OMod"},
	{"<", "OLt"}, {"<=", "OLeq"}, {">", "OGt"}, {">=", "OGeq"}, {"==", "OEq"}, {"!=", "ONeq"},
	{"and", "OAnd"}, {"or", "OOr"}, {"in", "OIn"}, {"notin", "ONotIn"},
	{"hasprefix", "OHasPrefix"}, {"hassuffix", "OHasSuffix"},
}

func c06vals(vs []c06val) string {
	var t []string
	for _, v := range vs {
		t = append(t, v.Coq)
	}
	return CoqList(t)
}

func c06srcs(vs []c06val) string {
	var t []string
	for _, v := range vs {
		t = append(t, v.Src)
	}
	return strings.Join(t, ", ")
}

// c06fields mirrors how the interpreter turns an index value into access-string segments:
// fmt.Sprint of the value, split at ".", strconv.Atoi per segment (modelled-not-verified
// library calls; the theorems quantify over all segment lists).
func c06fields(rendered string) string {
	var t []string
	for _, seg := range strings.Split(rendered, ".") {
		n, err := strconv.Atoi(seg)
		t = append(t, fmt.Sprintf("(mkF %s %s)", CoqString(seg), CoqOpt(CoqZ(int64(n)), err == nil)))
	}
	return CoqList(t)
}

// rendering of an index value by fmt.Sprint (what buildAccessString does)
func c06render(v c06val) (string, bool) {
	switch v.Src {
	case "null":
		return "<nil>", true
	case "true", "false", "0", "1", "2.5", "1e+300", "5", "3", "2", "0.5":
		return v.Src, true
	case "(-1)", "(-5)", "(-2)", "(-3)":
		return strings.Trim(v.Src, "()"), true
	case "\"s\"":
		return "s", true
	case "\"\"":
		return "", true
	case "\"NaN\"":
		return "NaN", true
	case "\"1\"":
		return "1", true
	case "(0/0)":
		return "NaN", true
	case "(1/0)":
		return "+Inf", true
	case "[]":
		return "[]", true
	case "[1, 2]":
		return "[1 2]", true
	case "[[1]]":
		return "[[1]]", true
	case "{}":
		return "map[]", true
	case "{\"a\" : 1}":
		return "map[a:1]", true
	}
	return "", false // functions etc.: printable form not fixed
}

type c06builtin struct{ Src, Coq string }

var c06builtins = []c06builtin{
	{"len", "BLen"}, {"del", "BDel"}, {"add", "BAdd"}, {"concat", "BConcat"}, {"range", "BRange"},
	{"new", "BNew"}, {"type", "BType"}, {"raise", "BRaise"}, {"addEvent", "BAddEvent"},
	{"addEventAndWait", "BAddEventAndWait"},
}

func c06builtinSrc(name string, args []c06val) string {
	// arguments go through variables: a map literal cannot be written in a loop header
	var sb strings.Builder
	sb.WriteString(c06prelude)
	var names []string
	for i, a := range args {
		fmt.Fprintf(&sb, "p%d := %s\n", i, a.Src)
		names = append(names, fmt.Sprintf("p%d", i))
	}
	call := name + "(" + strings.Join(names, ", ") + ")"
	if name == "range" {
		return sb.String() + "for x in " + call + " {\n  break\n}"
	}
	return sb.String() + call
}

// builtins that are fuzzed for panics only (time, randomness, environment)
var c06unmodelled = []string{"doc", "timestamp", "dumpenv", "now", "rand", "setCronTrigger", "setPulseTrigger", "sleep", "log", "debug", "error"}

func c06skipUnmodelled(name string, args []c06val) bool {
	switch name {
	case "setPulseTrigger":
		// with three or more arguments and a number first it starts an endless pulse goroutine
		return len(args) >= 3
	case "sleep":
		if len(args) > 0 {
			switch args[0].Src {
			case "0", "(-1)", "1", "2.5", "1e+300", "null", "true", "\"s\"", "\"\"", "[]", "[1, 2]", "[[1]]", "{}", "{\"a\" : 1}", "fn":
				return false
			}
			return true
		}
	}
	return false
}

var c06attrs = []struct{ Src, Coq string }{
	{"kindmatch", "AKindMatch"}, {"scopematch", "AScopeMatch"}, {"statematch", "AStateMatch"},
	{"priority", "APriority"}, {"suppresses", "ASuppresses"},
}

func c06stream1(c *Ctx, emit func(c06case)) {
	// fixed corpus first: the witnesses of the repaired defects
	corpus := []c06case{
		{"1", "5 % 0", "(CBin OMod " + v5.Coq + " " + v0.Coq + ")"},
		{"1", "5 % 0.5", "(CBin OMod " + v5.Coq + " " + vHalf.Coq + ")"},
		{"1", "1e+300 % -1", "(CBin OMod " + vHuge.Coq + " " + vM1.Coq + ")"},
		{"1", "5 % (0/0)", "(CBin OMod " + v5.Coq + " " + vNaN.Coq + ")"},
		{"1", "[1] == [1]", "(CBin OEq (VList [" + c06num(1) + "]) (VList [" + c06num(1) + "]))"},
		{"1", "{} != {}", "(CBin ONeq (VMap []) (VMap []))"},
		{"1", "[1] in [[1]]", "(CBin OIn (VList [" + c06num(1) + "]) " + vLL1.Coq + ")"},
		{"1", "[1] notin [5, [1]]", "(CBin ONotIn (VList [" + c06num(1) + "]) (VList [" + c06num(5) + "; VList [" + c06num(1) + "]]))"},
		{"1", "1 in [1, [1]]", "(CBin OIn " + v1.Coq + " (VList [" + c06num(1) + "; VList [" + c06num(1) + "]]))"},
		{"1", "{[1] : 2}", "(CMapLit [EKvp (VList [" + c06num(1) + "]) " + c06num(2) + "])"},
		{"1", "{{} : 2}", "(CMapLit [EKvp (VMap []) " + c06num(2) + "])"},
		{"1", "{1}", "(CMapLit [EBare " + c06num(1) + "])"},
		{"1", "{1 : 2, 3}", "(CMapLit [EKvp " + c06num(1) + " " + c06num(2) + "; EBare " + c06num(3) + "])"},
		{"1", "{[1] : 2, 3}", "(CMapLit [EKvp (VList [" + c06num(1) + "]) " + c06num(2) + "; EBare " + c06num(3) + "])"},
		{"1", "a := [1, 2, 3]\na[-5]", "(CGet " + vL123.Coq + " " + c06fields("-5") + ")"},
		{"1", "a := [1, 2, 3]\na[-5] := 1", "(CAssign " + vL123.Coq + " " + c06fields("-5") + ")"},
		{"1", "a := [[1, 2, 3]]\na[0][-5]", "(CGet (VList [" + vL123.Coq + "]) " + c06fields("0.-5") + ")"},
		{"1", "a := [[1, 2, 3]]\na[0][-4] := 2", "(CAssign (VList [" + vL123.Coq + "]) " + c06fields("0.-4") + ")"},
		{"1", "a := [[[1, 2, 3]]]\na[-7][0][1] := 2", "(CAssign (VList [VList [" + vL123.Coq + "]]) " + c06fields("-7.0.1") + ")"},
		{"1", "del([1, 2, 3], 5)", "(CBuiltin BDel [" + vL123.Coq + "; " + v5.Coq + "])"},
		{"1", "del([1, 2, 3], 3)", "(CBuiltin BDel [" + vL123.Coq + "; " + v3.Coq + "])"},
		{"1", "del([1, 2, 3], -1)", "(CBuiltin BDel [" + vL123.Coq + "; " + vM1.Coq + "])"},
		{"1", "del([1, 2, 3], \"NaN\")", "(CBuiltin BDel [" + vL123.Coq + "; " + vSNaN.Coq + "])"},
		{"1", "add([1, 2], 2, 5)", "(CBuiltin BAdd [" + vL12.Coq + "; " + v2.Coq + "; " + v5.Coq + "])"},
		{"1", "add([1, 2], 2, -1)", "(CBuiltin BAdd [" + vL12.Coq + "; " + v2.Coq + "; " + vM1.Coq + "])"},
		{"1", "add([1, 2], 2, 2)", "(CBuiltin BAdd [" + vL12.Coq + "; " + v2.Coq + "; " + v2.Coq + "])"},
		{"1", "try {\n  raise()\n} except e {\n  1\n}\nnull", "(CTryRaise 0)"},
		{"1", "try {\n  raise()\n} except {\n  1\n}\nnull", "(CTryRaise 0)"},
		{"1", "try {\n  raise(\"a\")\n} except e {\n  1\n}\nnull", "(CTryRaise 1)"},
		// the same like node evaluated repeatedly with an invalid pattern
		{"1r", "for i in range(1, 3) {\n  try {\n    x := \"a\" like \"(\"\n  } except {\n  }\n}", ""},
		{"1r", "func f(p) {\n  return \"a\" like p\n}\ntry {\n  f(\"(\")\n} except {\n}\ntry {\n  f(\"(\")\n} except {\n}\nf(\"a\")", ""},
		// doc() with an argument whose first child is a constructed node (no token)
		{"1", "m := {}\ndoc(m[\"\"])", ""},
		{"1", "func g() {\n}\ndoc(g())", ""},
		{"1", "m := {}\ndoc(m.x, 1)", ""},
	}
	c.Extra["corpus"] = len(corpus)
	for _, d := range corpus {
		emit(d)
	}

	all := append(append([]c06val{}, c06U...), c06X...)

	// operators: exhaustive over U x U, plus the boundary values as right operand of % and in
	for _, op := range c06binops {
		for _, a := range c06U {
			for _, b := range c06U {
				emit(c06case{"1", c06prelude + a.Src + " " + op.Src + " " + b.Src,
					fmt.Sprintf("(CBin %s %s %s)", op.Coq, a.Coq, b.Coq)})
			}
		}
	}
	for _, a := range []c06val{v5, vHuge, vNaN} {
		for _, b := range all {
			emit(c06case{"1", c06prelude + a.Src + " % " + b.Src, fmt.Sprintf("(CBin OMod %s %s)", a.Coq, b.Coq)})
		}
	}
	for _, a := range all {
		for _, b := range c06X {
			emit(c06case{"1", c06prelude + a.Src + " == " + b.Src, fmt.Sprintf("(CBin OEq %s %s)", a.Coq, b.Coq)})
			emit(c06case{"1", c06prelude + b.Src + " in [" + a.Src + ", " + b.Src + "]",
				fmt.Sprintf("(CBin OIn %s (VList [%s; %s]))", b.Coq, a.Coq, b.Coq)})
		}
	}
	for _, u := range []c06binop{{"-", "UMinus"}, {"+", "UPlus"}, {"not", "UNot"}} {
		for _, a := range all {
			emit(c06case{"1", c06prelude + "(" + u.Src + " " + a.Src + ")", fmt.Sprintf("(CUn %s %s)", u.Coq, a.Coq)})
		}
	}
	// map literals: every key, key pairs, malformed entries
	for _, k := range all {
		emit(c06case{"1", c06prelude + "{" + k.Src + " : 1}", fmt.Sprintf("(CMapLit [EKvp %s %s])", k.Coq, v1.Coq)})
		emit(c06case{"1", c06prelude + "{1 : 2, " + k.Src + " : 1}",
			fmt.Sprintf("(CMapLit [EKvp %s %s; EKvp %s %s])", v1.Coq, v2.Coq, k.Coq, v1.Coq)})
		emit(c06case{"1", c06prelude + "{" + k.Src + "}", fmt.Sprintf("(CMapLit [EBare %s])", k.Coq)})
		emit(c06case{"1", c06prelude + "{" + k.Src + " : 1, " + k.Src + "}",
			fmt.Sprintf("(CMapLit [EKvp %s %s; EBare %s])", k.Coq, v1.Coq, k.Coq)})
	}
	// element access and assignment
	c06bulk = true
	containers := []c06val{vL0, vL12, vLL1, vL123, vM0, vMa1, vM12, v1, vS, vNull, vTrue, vFn}
	for _, cont := range containers {
		for _, ix := range all {
			r, ok := c06render(ix)
			if !ok {
				continue
			}
			emit(c06case{"1", c06prelude + "c := " + cont.Src + "\nc[" + ix.Src + "]",
				fmt.Sprintf("(CGet %s %s)", cont.Coq, c06fields(r))})
			emit(c06case{"1", c06prelude + "c := " + cont.Src + "\nc[" + ix.Src + "] := 1",
				fmt.Sprintf("(CAssign %s %s)", cont.Coq, c06fields(r))})
			for _, jx := range []c06val{v0, vM1, vM2, vM5, v5, vS} {
				r2, _ := c06render(jx)
				emit(c06case{"1", c06prelude + "c := " + cont.Src + "\nc[" + ix.Src + "][" + jx.Src + "]",
					fmt.Sprintf("(CGet %s %s)", cont.Coq, c06fields(r+"."+r2))})
				emit(c06case{"1", c06prelude + "c := " + cont.Src + "\nc[" + ix.Src + "][" + jx.Src + "] := 1",
					fmt.Sprintf("(CAssign %s %s)", cont.Coq, c06fields(r+"."+r2))})
			}
		}
	}
	// built-ins: all vectors of length 0..2 over U, boundary second/third arguments, sampled 3..4
	for _, b := range c06builtins {
		emit(c06case{"1", c06builtinSrc(b.Src, nil), fmt.Sprintf("(CBuiltin %s [])", b.Coq)})
		for _, a := range c06U {
			emit(c06case{"1", c06builtinSrc(b.Src, []c06val{a}), fmt.Sprintf("(CBuiltin %s %s)", b.Coq, c06vals([]c06val{a}))})
			for _, a2 := range all {
				args := []c06val{a, a2}
				emit(c06case{"1", c06builtinSrc(b.Src, args), fmt.Sprintf("(CBuiltin %s %s)", b.Coq, c06vals(args))})
			}
		}
		for _, l := range []c06val{vL0, vL12, vL123} {
			for _, ix := range all {
				args := []c06val{l, v1, ix}
				emit(c06case{"1", c06builtinSrc(b.Src, args), fmt.Sprintf("(CBuiltin %s %s)", b.Coq, c06vals(args))})
			}
		}
		for _, a := range c06X {
			emit(c06case{"1", c06builtinSrc(b.Src, []c06val{a}), fmt.Sprintf("(CBuiltin %s %s)", b.Coq, c06vals([]c06val{a}))})
		}
	}
	// vectors of length 3 and 4: all of them on the Go side (panic = violation), a seeded
	// sample into Coq
	n3 := 0
	for _, b := range c06builtins {
		for _, a := range c06U {
			for _, a2 := range c06U {
				for _, a3 := range c06U {
					args := []c06val{a, a2, a3}
					d := c06case{"1", c06builtinSrc(b.Src, args), ""}
					if c.Rng.Intn(c.Pick(40, 4)) == 0 {
						d.Call = fmt.Sprintf("(CBuiltin %s %s)", b.Coq, c06vals(args))
					}
					if c.Thorough() || d.Call != "" || c.Rng.Intn(4) == 0 {
						emit(d)
						n3++
					}
				}
			}
		}
		for i := 0; i < c.Pick(150, 3000); i++ {
			args := []c06val{all[c.Rng.Intn(len(all))], all[c.Rng.Intn(len(all))], all[c.Rng.Intn(len(all))], all[c.Rng.Intn(len(all))]}
			d := c06case{"1", c06builtinSrc(b.Src, args), ""}
			if i%5 == 0 {
				d.Call = fmt.Sprintf("(CBuiltin %s %s)", b.Coq, c06vals(args))
			}
			emit(d)
		}
	}
	c.Extra["builtin_vectors_len3"] = n3
	// unmodelled built-ins: panic search only
	for _, name := range c06unmodelled {
		emit(c06case{"1", c06prelude + name + "()", ""})
		for _, a := range all {
			if !c06skipUnmodelled(name, []c06val{a}) {
				emit(c06case{"1", c06prelude + name + "(" + a.Src + ")", ""})
			}
			for _, a2 := range c06U {
				args := []c06val{a, a2}
				if !c06skipUnmodelled(name, args) {
					emit(c06case{"1", c06prelude + name + "(" + c06srcs(args) + ")", ""})
				}
			}
		}
		for i := 0; i < c.Pick(100, 1500); i++ {
			args := []c06val{all[c.Rng.Intn(len(all))], all[c.Rng.Intn(len(all))], all[c.Rng.Intn(len(all))]}
			if c.Rng.Intn(2) == 0 {
				args = append(args, all[c.Rng.Intn(len(all))])
			}
			if !c06skipUnmodelled(name, args) {
				emit(c06case{"1", c06prelude + name + "(" + c06srcs(args) + ")", ""})
			}
		}
	}
	// sink attributes: every attribute x every value
	c06bulk = false
	for _, a := range c06attrs {
		for _, v := range all {
			src := c06prelude + "sink s1\n  "
			coq := ""
			if a.Src != "kindmatch" {
				src += "kindmatch [\"a\"],\n  "
				coq = "(AKindMatch, " + vLa.Coq + "); "
			}
			src += a.Src + " " + v.Src + ",\n  {\n    1\n  }"
			emit(c06case{"1", src, fmt.Sprintf("(CSink [%s(%s, %s)])", coq, a.Coq, v.Coq)})
		}
	}
	emit(c06case{"1", "sink s1\n  {\n    1\n  }", "(CSink [])"})
	emit(c06case{"1", "sink s1\n  kindmatch [\"a\"],\n  scopematch [],\n  {\n    1\n  }", "(CSink [(AKindMatch, " + vLa.Coq + "); (AScopeMatch, (VList []))])"})
	// destructuring (loop variables, assignment) with values of every shape: panic search only
	shapes := append(append([]c06val{}, all...), c06val{"[[1]]", ""}, c06val{"[[1, 2, 3]]", ""}, c06val{"[[1, 2], [3]]", ""},
		c06val{"[[1, 2], 3]", ""}, c06val{"[[]]", ""}, c06val{"{1 : [1]}", ""}, c06val{"[null, [1, 2]]", ""})
	for _, v := range shapes {
		emit(c06case{"1", c06prelude + "t := " + v.Src + "\nfor [p, q] in t {\n  1\n}", ""})
		emit(c06case{"1", c06prelude + "t := " + v.Src + "\nfor [p, q, r] in t {\n  1\n}", ""})
		emit(c06case{"1", c06prelude + "t := " + v.Src + "\nfor p in t {\n  1\n}", ""})
		emit(c06case{"1", c06prelude + "[p, q] := " + v.Src, ""})
		emit(c06case{"1", c06prelude + "[p, q, r] := " + v.Src, ""})
		emit(c06case{"1", c06prelude + "let [p, q] := " + v.Src, ""})
		emit(c06case{"1", c06prelude + "func g(p, q=1) {\n  return p\n}\nt := " + v.Src + "\ng(t, t, t)\ng()", ""})
	}
	// raise inside try
	for _, a := range all {
		emit(c06case{"1", c06prelude + "try {\n  raise(" + a.Src + ")\n} except e {\n  1\n}\nnull", "(CTryRaise 1)"})
		emit(c06case{"1", c06prelude + "try {\n  raise(" + a.Src + ", " + a.Src + ", " + a.Src + ")\n} except \"x\" {\n  1\n} except {\n  2\n}\nnull", "(CTryRaise 3)"})
	}
}

// ------------------------------------------------------------------------------- stream 1r: repeated evaluation

// A runtime node may keep state between evaluations (caches, iterator state): every
// primitive is therefore ALSO evaluated several times by the SAME node — inside a loop,
// inside a function called three times, and with alternating (valid / invalid) operands.
// No model is needed: any panic is a violation.

func c06indent(src, ind string) string {
	return ind + strings.ReplaceAll(src, "\n", "\n"+ind)
}

func c06wrapLoop(src string) string {
	return "for i in range(1, 3) {\n  try {\n" + c06indent(src, "    ") + "\n  } except {\n  }\n}"
}

func c06wrapFunc(src string) string {
	call := "try {\n  rep()\n} except {\n}\n"
	return "func rep() {\n" + c06indent(src, "  ") + "\n}\n" + call + call + call
}

// c06repeat runs the wrapped variants of one stream-1 case.
func c06repeat(c *Ctx, d c06case) {
	if strings.Contains(d.Src, "sink ") {
		return // a sink can only be declared once (covered by the child stream: events fire twice)
	}
	c06one(c, c06case{Stream: "1r", Src: c06wrapLoop(d.Src)})
	c06one(c, c06case{Stream: "1r", Src: c06wrapFunc(d.Src)})
}

func c06alternating(c *Ctx) []c06childProg {
	var ps []c06childProg
	emit := func(d c06case) { ps = append(ps, c06childProg{Kind: "fuzz", Src: d.Src}) }
	all := append(append([]c06val{}, c06U...), c06X...)
	// invalid / valid / changing regular expressions for `like`
	all = append(all, c06val{Src: "\"(\""}, c06val{Src: "\"[\""}, c06val{Src: "\"a*\""}, c06val{Src: "\"(\""})
	small := []c06val{vNull, v1, vM1, v25, vS, vL12, vL123, vMa1, vSNaN, c06val{Src: "\"(\""}}
	pre := c06prelude + "vals := [" + c06srcs(all) + "]\nsm := [" + c06srcs(small) + "]\n"
	try := func(body string) string { return "    try {\n      " + body + "\n    } except {\n    }\n" }
	two := func(body string) {
		// both nestings: the same right operand twice in a row, and the same left operand twice in a row
		emit(c06case{"1r", pre + "for q in vals {\n  for p in vals {\n" + try(body) + "  }\n}", ""})
		emit(c06case{"1r", pre + "for p in vals {\n  for q in vals {\n" + try(body) + "  }\n}", ""})
	}
	for _, op := range append(append([]c06binop{}, c06binops...), c06binop{"like", ""}) {
		two("x := p " + op.Src + " q")
	}
	for _, u := range []string{"-", "+", "not "} {
		emit(c06case{"1r", pre + "for i in range(1, 2) {\n  for p in vals {\n" + try("x := ("+u+"p)") + "  }\n}", ""})
	}
	two("x := {p : q}")
	two("x := p[q]")
	two("x := p[q][q]")
	two("p[q] := 1")
	two("x := [1, 2, 3]\n      x[q] := p\n      y := x[q]")
	for _, f := range append(append([]string{}, c06unmodelled...), "len", "del", "add", "concat", "new", "type", "raise", "addEvent", "addEventAndWait") {
		if f == "sleep" || f == "setPulseTrigger" {
			continue
		}
		asg := "x := "
		if f == "dumpenv" {
			asg = "" // storing the dump in the dumped scope doubles it every round
		}
		emit(c06case{"1r", pre + "for i in range(1, 2) {\n  for p in vals {\n" + try(asg+f+"(p)") + "  }\n}", ""})
		two(asg + f + "(p, q)")
		if f == "add" {
			// add(l, l, i) inserts a list into its own backing array: the cyclic-container
			// finding (fixes/C06-cyclic-container-print.finding.md), not generated here
			continue
		}
		emit(c06case{"1r", pre + "for p in sm {\n  for q in sm {\n    for r in sm {\n  " + try(asg+f+"(p, q, r)") + "    }\n  }\n}", ""})
	}
	two("for z in range(p, q) {\n        break\n      }")
	two("[y, z] := p\n      for [y, z] in q {\n        y\n      }")
	return ps
}

// ------------------------------------------------------------------------------- stream 2

type c06gen struct {
	c        *Ctx
	depth    int
	vars     []string
	allowRec bool // diagnostic only (VERIF_C06_ALLOW_RECURSION): generate calls inside function bodies too
	inFunc   bool // inside a generated function body: no calls of f0/f1 (unbounded recursion
	// written by the user is outside the guarantee and overflows the Go stack)
}

func (g *c06gen) pick(xs []string) string { return xs[g.c.Rng.Intn(len(xs))] }

func (g *c06gen) literal() string {
	all := append(append([]c06val{}, c06U...), c06X...)
	for {
		if v := all[g.c.Rng.Intn(len(all))]; v.Src != "fn" {
			return v.Src
		}
	}
}

func (g *c06gen) atom() string {
	all := append(append([]c06val{}, c06U...), c06X...)
	switch g.c.Rng.Intn(4) {
	case 0:
		return g.pick(g.vars)
	default:
		return all[g.c.Rng.Intn(len(all))].Src
	}
}

var c06fuzzOps = []string{"+", "-", "*", "/", "//", "%", "<", "<=", ">", ">=", "==", "!=", "and", "or", "in", "notin", "hasprefix", "hassuffix", "like"}
var c06fuzzFuncs = []string{"len", "del", "add", "concat", "new", "type", "raise", "doc", "timestamp", "dumpenv", "now", "rand", "addEvent", "addEventAndWait", "setCronTrigger", "fn", "undefinedFunc"}

func (g *c06gen) expr(d int) string {
	if d <= 0 {
		return g.atom()
	}
	switch g.c.Rng.Intn(12) {
	case 0, 1, 2:
		return "(" + g.expr(d-1) + " " + g.pick(c06fuzzOps) + " " + g.expr(d-1) + ")"
	case 3:
		return "(" + g.pick([]string{"-", "not ", "+"}) + g.expr(d-1) + ")"
	case 4:
		n := g.c.Rng.Intn(4)
		var a []string
		for i := 0; i < n; i++ {
			a = append(a, g.expr(d-1))
		}
		return "[" + strings.Join(a, ", ") + "]"
	case 5:
		n := g.c.Rng.Intn(3)
		var a []string
		for i := 0; i < n; i++ {
			if g.c.Rng.Intn(6) == 0 {
				a = append(a, g.expr(d-1)) // malformed entry
			} else {
				a = append(a, g.expr(d-1)+" : "+g.expr(d-1))
			}
		}
		return "{" + strings.Join(a, ", ") + "}"
	case 6, 7:
		n := g.c.Rng.Intn(5)
		var a []string
		for i := 0; i < n; i++ {
			a = append(a, g.expr(d-1))
		}
		return g.pick(c06fuzzFuncs) + "(" + strings.Join(a, ", ") + ")"
	case 8, 9:
		s := g.pick(g.vars) + "[" + g.expr(d-1) + "]"
		if g.c.Rng.Intn(3) == 0 {
			s += "[" + g.expr(d-1) + "]"
		}
		return s
	case 10:
		return g.pick(g.vars) + "." + g.pick([]string{"a", "b", "x"})
	}
	return g.atom()
}

func (g *c06gen) block(d int, ind string) string {
	n := 1 + g.c.Rng.Intn(3)
	var sb strings.Builder
	for i := 0; i < n; i++ {
		sb.WriteString(g.stmt(d, ind))
	}
	return sb.String()
}

func (g *c06gen) stmt(d int, ind string) string {
	if d <= 0 {
		return ind + g.expr(1) + "\n"
	}
	switch g.c.Rng.Intn(12) {
	case 0, 1:
		return ind + g.pick(g.vars) + " := " + g.expr(2) + "\n"
	case 2:
		lhs := g.pick(g.vars) + "[" + g.expr(1) + "]"
		if g.c.Rng.Intn(3) == 0 {
			lhs += "[" + g.expr(1) + "]"
		}
		// the stored value is a closed literal: storing a container variable into a container
		// can build a cyclic value, and printing one is a fatal (unrecoverable) stack overflow
		// (fixes/C06-cyclic-container-print.finding.md) that would kill this process
		return ind + lhs + " := " + g.literal() + "\n"
	case 3:
		return ind + "[" + g.pick(g.vars) + ", " + g.pick(g.vars) + "] := " + g.expr(2) + "\n"
	case 4:
		s := ind + "t := " + g.expr(2) + "\n" + ind + "if t {\n" + g.block(d-1, ind+"  ") + ind + "}"
		if g.c.Rng.Intn(2) == 0 {
			s += " else {\n" + g.block(d-1, ind+"  ") + ind + "}"
		}
		return s + "\n"
	case 5:
		v := g.pick(g.vars)
		if g.c.Rng.Intn(4) == 0 {
			v = "[" + v + ", " + g.pick(g.vars) + "]"
		}
		it := g.expr(2)
		if g.c.Rng.Intn(3) == 0 {
			return ind + "t := " + g.expr(1) + "\n" + ind + "for " + v + " in range(t, " + g.pick([]string{"3", "0", "-2", "\"s\"", "null"}) + ") {\n" + g.block(d-1, ind+"  ") + ind + "}\n"
		}
		return ind + "t := " + it + "\n" + ind + "for " + v + " in t {\n" + g.block(d-1, ind+"  ") + ind + "}\n"
	case 6:
		s := ind + "try {\n" + g.block(d-1, ind+"  ") + ind + "}"
		switch g.c.Rng.Intn(4) {
		case 0:
			s += " except {\n" + g.block(d-1, ind+"  ") + ind + "}"
		case 1:
			s += " except e {\n" + g.block(d-1, ind+"  ") + ind + "}"
		case 2:
			s += " except \"Runtime error\", \"x\" as e {\n" + g.block(d-1, ind+"  ") + ind + "}"
		case 3:
			s += " except \"x\" {\n" + g.block(d-1, ind+"  ") + ind + "} otherwise {\n" + g.block(d-1, ind+"  ") + ind + "}"
		}
		if g.c.Rng.Intn(3) == 0 {
			s += " finally {\n" + g.block(d-1, ind+"  ") + ind + "}"
		}
		return s + "\n"
	case 7:
		if g.inFunc && !g.allowRec {
			return ind + g.expr(2) + "\n"
		}
		g.inFunc = true
		body := g.block(d-1, ind+"  ")
		g.inFunc = false
		return ind + "func f" + fmt.Sprint(g.c.Rng.Intn(2)) + "(p, q=" + g.expr(1) + ") {\n" + body + ind + "  return " + g.expr(1) + "\n" + ind + "}\n"
	case 8:
		n := g.c.Rng.Intn(4)
		var a []string
		for i := 0; i < n; i++ {
			a = append(a, g.expr(1))
		}
		if g.inFunc && !g.allowRec {
			return ind + "fn(" + strings.Join(a, ", ") + ")\n"
		}
		return ind + "f" + fmt.Sprint(g.c.Rng.Intn(2)) + "(" + strings.Join(a, ", ") + ")\n"
	case 9:
		return ind + g.pick([]string{"break", "continue", "return " + g.expr(1), "raise(" + g.expr(1) + ")", "raise()"}) + "\n"
	case 10:
		return ind + "mutex m1 {\n" + g.block(d-1, ind+"  ") + ind + "}\n"
	}
	return ind + g.expr(2) + "\n"
}

// c06stream2 generates the random programs; they are executed in the CHILD process (kind
// "fuzz"): a Go fatal error (stack overflow, concurrent map access, ...) cannot be recovered
// and must kill the child, not this harness.
func c06stream2(c *Ctx) []c06childProg {
	n := c.Pick(2500, 60000)
	ps := make([]c06childProg, 0, n)
	for i := 0; i < n; i++ {
		g := &c06gen{c: c, vars: []string{"a", "b", "l", "m", "fn"}, allowRec: os.Getenv("VERIF_C06_ALLOW_RECURSION") != ""}
		src := c06prelude + "a := " + g.atom() + "\nb := " + g.atom() + "\nl := [1, 2, 3]\nm := {\"a\" : [1, 2], 1 : 2, \"b\" : {\"x\" : 1}}\n" + g.block(2+c.Rng.Intn(2), "")
		ps = append(ps, c06childProg{"fuzz", src, 0})
	}
	return ps
}

// ------------------------------------------------------------------------------- streams 3, 4 (child)

type c06childProg struct {
	Kind    string `json:"kind"` // "worker", "fuzz", "conc" (any panic / exit is the violation), "trycatch", "sinklocal"
	Src     string `json:"src"`
	Workers int    `json:"workers,omitempty"` // pool size (conc); 0 = the configured default
}

// c06concProgs: sinks running at the same time on several pool workers, and the main thread,
// all through ONE runtime provider: nested mutex blocks of one or two names, errors raised
// inside them, like, element access and list built-ins with erroring operands, many events in
// flight.  Shared interpreter state that is not synchronised shows up as a Go fatal error
// (concurrent map access) or a panic, which kills the child.
func c06concProgs(c *Ctx) []c06childProg {
	var ps []c06childProg
	rounds := c.Pick(4000, 20000)
	inner := []string{
		"a := i",
		"a := i + total", // (lock order is always shared -> own: no deadlock written into the program)
		"try {\n        raise(\"x\", i)\n      } except {\n        a := 1\n      }",
		"try {\n        a := \"a\" like \"(\"\n      } except {\n        a := l[i % 5]\n      }",
		"try {\n        a := del(l, i)\n      } except {\n        a := add(l, i, 0)\n      }",
		"mutex %s {\n        a := [i] in [[i]]\n      }",
	}
	for pi, workers := range []int{2, 4, 8, 3} {
		var sb strings.Builder
		sb.WriteString("total := 0\nl := [1, 2, 3]\n")
		for k := 1; k <= workers; k++ {
			own := fmt.Sprintf("m%d", k)
			if pi%2 == 1 {
				own = fmt.Sprintf("m%d", k%2) // only two names: the sinks really contend
			}
			body := inner[(k+pi)%len(inner)]
			if strings.Contains(body, "%s") {
				body = fmt.Sprintf(body, own)
			}
			fmt.Fprintf(&sb, "sink w%d\n  kindmatch [\"work.%d\", \"all\"],\n  {\n    for i in range(1, %d) {\n      mutex %s {\n      %s\n      }\n      mutex shared {\n        mutex %s {\n          total := total + 1\n        }\n      }\n      try {\n        mutex %s {\n          raise(\"inside\")\n        }\n      } except {\n      }\n    }\n  }\n",
				k, k, rounds, own, body, own, own)
		}
		for k := 1; k <= workers; k++ {
			fmt.Fprintf(&sb, "addEvent(\"e%d\", \"work.%d\", {\"x\" : %d})\n", k, k, k)
		}
		// the main thread enters mutex blocks at the same time, more events are added meanwhile
		fmt.Fprintf(&sb, "for i in range(1, %d) {\n  mutex m0 {\n    a := i\n  }\n  mutex shared {\n    mutex m1 {\n      total := total + 1\n    }\n  }\n  try {\n    mutex m1 {\n      x := l[-9]\n    }\n  } except {\n  }\n}\n", rounds/2)
		sb.WriteString("res := addEventAndWait(\"last\", \"all\", {})\ntotal")
		ps = append(ps, c06childProg{Kind: "conc", Src: sb.String(), Workers: workers})
	}
	// tight loops: nothing but entering and leaving mutex blocks, on 4 and 8 workers plus the main thread
	for _, workers := range []int{4, 8} {
		var sb strings.Builder
		sb.WriteString("total := 0\n")
		for k := 1; k <= workers; k++ {
			fmt.Fprintf(&sb, "sink t%d\n  kindmatch [\"work.%d\"],\n  {\n    for i in range(1, %d) {\n      mutex m%d {\n        a := i\n      }\n      mutex shared {\n        total := total + 1\n      }\n    }\n  }\n", k, k, 4*rounds, k)
		}
		for k := 1; k <= workers; k++ {
			fmt.Fprintf(&sb, "addEvent(\"e%d\", \"work.%d\", {})\n", k, k)
		}
		fmt.Fprintf(&sb, "for i in range(1, %d) {\n  mutex m0 {\n    a := i\n  }\n  mutex shared {\n    total := total + 1\n  }\n}\ntotal", 4*rounds)
		ps = append(ps, c06childProg{Kind: "conc", Src: sb.String(), Workers: workers})
	}
	return ps
}

func c06childProgs(c *Ctx) []c06childProg {
	var ps []c06childProg
	all := append(append([]c06val{}, c06U...), c06X...)
	bodies := []string{
		"x := event.state.x like \"(\"",
		"x := \"a\" like event.state.x",
		"x := event.state.x % 0",
		"x := 5 % event.state.x",
		"x := event.state.x == event.state.x",
		"x := event.state.x in [event.state.x]",
		"x := {event.state.x : 1}",
		"x := event.state.x[-5]",
		"y := [1, 2, 3]\n    x := y[event.state.x]",
		"y := [1, 2, 3]\n    y[event.state.x] := 1",
		"x := del([1, 2, 3], event.state.x)",
		"x := add([1], 2, event.state.x)",
		"raise()",
		"raise(event.state.x, event.state.x, event.state.x)",
		"x := len(event.state.x) + event.state.x",
		"try {\n      raise()\n    } except e {\n      x := e.type\n    }",
		"addEvent(\"e2\", \"b\", event.state.x)",
		"addEvent(\"e2\", \"b\", {\"x\" : event.state.x}, event.state.x)",
		"return event.state.x",
	}
	// known finding (fixes/C06-cyclic-container-print.finding.md): a container that contains itself
	ps = append(ps, c06childProg{"worker", "m := {\"a\" : 1}\nm.x := m\nm hasprefix \"a\"", 0})
	// corpus: the defect witnesses on a worker
	for _, b := range bodies {
		for _, v := range all {
			if c.Tier != "thorough" && len(ps) > 40 && c.Rng.Intn(3) != 0 {
				continue
			}
			ps = append(ps, c06childProg{"worker", c06prelude + "sink s1\n  kindmatch [\"a\"],\n  {\n    " + b + "\n  }\nsink s2\n  kindmatch [\"b\"],\n  {\n    x := event.state.x == event.state.x\n  }\n" +
				"res := addEventAndWait(\"e\", \"a\", {\"x\" : " + v.Src + "})\naddEvent(\"e\", \"a\", {\"x\" : " + v.Src + "})\nres", 0})
		}
	}
	// attribute values of every kind, statematch / event state values of every kind (F04 sites)
	for _, v := range all {
		for _, w := range []c06val{v1, vL12, vMa1, vNull, vS} {
			ps = append(ps, c06childProg{"worker", c06prelude + "sink s1\n  kindmatch [\"a\"],\n  statematch {\"x\" : " + v.Src + "},\n  priority 1,\n  {\n    x := 1\n  }\n" +
				"res := addEventAndWait(\"e\", \"a\", {\"x\" : " + w.Src + "})\nres := addEventAndWait(\"e\", \"a\", {\"x\" : " + v.Src + "})\nres", 0})
		}
		for _, a := range c06attrs {
			ps = append(ps, c06childProg{"worker", c06prelude + "sink s1\n  kindmatch [\"a\", \"*\"],\n  " + a.Src + " " + v.Src + ",\n  {\n    x := 1\n  }\n" +
				"res := addEventAndWait(\"e\", \"a\", {\"x\" : 1})\nres", 0})
		}
		ps = append(ps, c06childProg{"worker", c06prelude + "sink s1\n  kindmatch [" + v.Src + ", \"a\"],\n  scopematch [" + v.Src + "],\n  suppresses [" + v.Src + "],\n  {\n    x := 1\n  }\n" +
			"res := addEventAndWait(" + v.Src + ", " + v.Src + ", {" + "\"x\" : 1}, {" + "\"s\" : " + v.Src + "})\nres", 0})
	}
	// stream 4a: an error raised inside try is catchable there
	fails := []string{"5 % 0", "[1] == [1]", "[1] in [[1]]", "{[1] : 2}", "l[-5]", "l[7]", "l[-5] := 1", "del(l, 5)", "add(l, 2, 9)",
		"raise()", "raise(\"x\")", "1 + \"a\"", "not 1", "1 in 2", "len(1)", "del()", "add(1)", "concat([1])", "new(1)", "type()",
		"undefinedFunc()", "x.y.z := 1", "[p, q] := [1]", "addEvent(1)", "timestamp(\"x\")", "doc()", "range()", "1 and 2"}
	for _, f := range fails {
		ps = append(ps, c06childProg{"trycatch", c06prelude + "l := [1, 2, 3]\nr := 0\ntry {\n  " + f + "\n  r := 2\n} except e {\n  r := 1\n}\nr", 0})
		ps = append(ps, c06childProg{"trycatch", c06prelude + "l := [1, 2, 3]\nr := 0\ntry {\n  " + f + "\n  r := 2\n} except {\n  r := 1\n}\nr", 0})
		ps = append(ps, c06childProg{"trycatch", c06prelude + "l := [1, 2, 3]\nr := 0\nfunc g() {\n  " + f + "\n}\ntry {\n  g()\n  r := 2\n} except {\n  r := 1\n}\nr", 0})
	}
	// stream 4b: an error inside a sink fails only that sink invocation
	for _, f := range fails {
		ps = append(ps, c06childProg{"sinklocal", c06prelude + "l := [1, 2, 3]\nsink bad\n  kindmatch [\"a\"],\n  priority 1,\n  {\n    " + f + "\n  }\n" +
			"sink good\n  kindmatch [\"a\"],\n  priority 2,\n  {\n    mark(\"good\")\n  }\nsink other\n  kindmatch [\"b\"],\n  {\n    mark(\"other\")\n  }\n" +
			"res1 := addEventAndWait(\"e\", \"a\", {})\nres2 := addEventAndWait(\"e\", \"b\", {})\nres3 := addEventAndWait(\"e\", \"a\", {})\n[res1, res2, res3]", 0})
	}
	return ps
}

// runC06Child executes the programs of VERIF_C06_CHILD_IN one after the other with NO recover:
// a panic anywhere (main goroutine or pool worker) kills this process.  Progress goes to stdout.
func runC06Child(c *Ctx) error {
	b, err := os.ReadFile(os.Getenv("VERIF_C06_CHILD_IN"))
	if err != nil {
		return err
	}
	var ps []c06childProg
	if err := json.Unmarshal(b, &ps); err != nil {
		return err
	}
	// a runaway recursion reaches the stack limit quickly instead of filling 1 GB first (fmt on a cyclic value needs seconds per 10 MB of stack)
	debug.SetMaxStack(8 << 20)
	for i, p := range ps {
		fmt.Printf("@@START %d\n", i)
		os.Stdout.Sync()
		done := make(chan string, 1)
		go func() { done <- c06childRun(p) }()
		select {
		case msg := <-done:
			if msg != "" {
				fmt.Printf("@@VIOL %d %s\n", i, strings.ReplaceAll(msg, "\n", " "))
			}
		case <-time.After(20 * time.Second):
			// a cascade that never finishes is C02/C09's subject; the process is no longer
			// in a known state, so stop here and let the parent resume after this program
			fmt.Printf("@@TIMEOUT %d\n", i)
			os.Stdout.Sync()
			os.Exit(3)
		}
		fmt.Printf("@@DONE %d\n", i)
		os.Stdout.Sync()
	}
	return nil
}

func c06childRun(p c06childProg) string {
	if p.Workers > 0 {
		config.Config[config.WorkerCount] = p.Workers
	}
	erp := interpreter.NewECALRuntimeProvider("c06", nil, nil)
	erp.Cron.Stop()
	defer func() {
		if !erp.Processor.Stopped() {
			erp.Processor.Finish()
		}
	}()
	ast, err := parser.ParseWithRuntime("c06", p.Src, erp)
	if err != nil {
		return "generator: program did not parse: " + err.Error()
	}
	if err = ast.Runtime.Validate(); err != nil {
		if p.Kind == "worker" || p.Kind == "fuzz" {
			return ""
		}
		if p.Kind == "conc" {
			return "generator: concurrency program did not validate: " + err.Error()
		}
		return "generator: program did not validate: " + err.Error()
	}
	vs := scope.NewScope(scope.GlobalScope)
	marks := map[string]int{}
	vs.SetValue("mark", &goFunc{func(args []interface{}) (interface{}, error) {
		marks[fmt.Sprint(args...)]++
		return nil, nil
	}})
	val, err := ast.Runtime.Eval(vs, make(map[string]interface{}), erp.NewThreadID())
	switch p.Kind {
	case "trycatch":
		if err != nil {
			return "an error raised inside try escaped the catch-all except clause: " + err.Error()
		}
		if val != float64(1) {
			return fmt.Sprintf("the except clause did not run (r = %v)", val)
		}
	case "sinklocal":
		if err != nil {
			return "the error of a sink invocation failed the program that added the event: " + err.Error()
		}
		l, _ := val.([]interface{})
		if len(l) != 3 {
			return fmt.Sprintf("unexpected result %v", val)
		}
		// res1 / res3: exactly one event with an error, reported for sink "bad" only; res2: none
		for _, i := range []int{0, 2} {
			evs, _ := l[i].([]interface{})
			if len(evs) != 1 {
				return fmt.Sprintf("invocation %d: expected the error report of exactly one event, got %v", i, l[i])
			}
			em, _ := evs[0].(map[interface{}]interface{})
			errs, _ := em["errors"].(map[interface{}]interface{})
			if len(errs) != 1 || errs["bad"] == nil {
				return fmt.Sprintf("invocation %d: expected an error for sink bad only, got %v", i, errs)
			}
		}
		if evs, _ := l[1].([]interface{}); len(evs) != 0 {
			return fmt.Sprintf("the unrelated event reported errors: %v", l[1])
		}
		if marks["other"] != 1 {
			return fmt.Sprintf("the unrelated sink ran %d times", marks["other"])
		}
		// FailOnFirstErrorInTriggerSequence is on by default: "good" (lower priority) is
		// skipped for the failing event, but must not be broken for later events
		_ = marks["good"]
	}
	return ""
}

var c06goroutineHdr = regexp.MustCompile(`(?m)^goroutine \d+ \[running\]:`)

// c06runChild runs the child over the programs, resuming after a program that killed it.
func c06runChild(c *Ctx, ps []c06childProg) {
	self, err := os.Executable()
	if err != nil {
		c.Notes = append(c.Notes, "cannot locate own binary: "+err.Error())
		return
	}
	start := 0
	round := 0
	for start < len(ps) {
		round++
		in := filepath.Join(c.Out, fmt.Sprintf("c06_child_%d.json", round))
		b, _ := json.Marshal(ps[start:])
		os.WriteFile(in, b, 0o644)
		outDir := filepath.Join(c.Out, "c06_child_out")
		cmd := exec.Command(self, "C06-child", "-out", outDir)
		cmd.Env = append(os.Environ(), "VERIF_C06_CHILD_IN="+in)
		var stdout, stderr strings.Builder
		cmd.Stdout = &stdout
		cmd.Stderr = &stderr
		runErr := cmd.Run()
		os.Remove(in)
		lastStart, lastDone := -1, -1
		for _, l := range strings.Split(stdout.String(), "\n") {
			var i int
			if n, _ := fmt.Sscanf(l, "@@START %d", &i); n == 1 {
				lastStart = i
			} else if n, _ := fmt.Sscanf(l, "@@DONE %d", &i); n == 1 {
				lastDone = i
				if ps[start+i].Kind == "fuzz" {
					c.Dist["s2_child_programs_fuzz"]++
				} else {
					c.Dist["s3_child_programs_"+ps[start+i].Kind]++
				}
				c.Count(ps[start+i].Src, true, c06case{Stream: c06streamOf(ps[start+i]), Src: ps[start+i].Src})
			} else if strings.HasPrefix(l, "@@VIOL ") {
				rest := strings.TrimPrefix(l, "@@VIOL ")
				sp := strings.SplitN(rest, " ", 2)
				i, _ = strconv.Atoi(sp[0])
				p := ps[start+i]
				key := "try-not-catchable"
				if p.Kind == "sinklocal" {
					key = "sink-error-not-local"
				}
				if strings.HasPrefix(sp[1], "generator:") {
					c.Dist["generator_child_errors"]++
					if len(c.Notes) < 8 {
						c.Notes = append(c.Notes, sp[1]+" :: "+p.Src)
					}
					continue
				}
				c.Violate(key, sp[1], c06case{Stream: "4", Src: p.Src})
			} else if n, _ := fmt.Sscanf(l, "@@TIMEOUT %d", &i); n == 1 {
				c.Dist["s3_child_timeouts"]++
			}
		}
		if runErr == nil {
			break
		}
		// the child died: the program that was running is the culprit
		if lastStart < 0 || lastStart == lastDone {
			c.Notes = append(c.Notes, "child process failed outside a program: "+runErr.Error()+" "+tail(stderr.String(), 400))
			break
		}
		culprit := ps[start+lastStart]
		se := stderr.String()
		if strings.Contains(stdout.String(), fmt.Sprintf("@@TIMEOUT %d", lastStart)) {
			// not a crash: recorded as not comparable
		} else {
			msg := "process exited: " + runErr.Error()
			key := "process-exit"
			if i := strings.Index(se, "panic: "); i >= 0 {
				pm := se[i+7:]
				if j := strings.Index(pm, "\n"); j >= 0 {
					pm = pm[:j]
				}
				st := se[i:]
				if loc := c06goroutineHdr.FindStringIndex(st); loc != nil {
					st = st[loc[1]:]
				}
				// drop the runtime's own panic frames
				key = c06panicKey(pm, c06dropRuntimeFrames(st))
				msg = "the host process died: panic: " + pm
			} else if i := strings.Index(se, "fatal error: "); i >= 0 {
				line := se[i:]
				if j := strings.Index(line, "\n"); j >= 0 {
					line = line[:j]
				}
				msg = "the host process died: " + line
				key = "fatal:" + strings.Trim(regexp.MustCompile(`[^a-z0-9]+`).ReplaceAllString(strings.ToLower(strings.TrimPrefix(line, "fatal error: ")), "-"), "-")
				if len(key) > 60 {
					key = key[:60]
				}
			}
			c.Violate(key, msg, c06case{Stream: c06streamOf(culprit), Src: culprit.Src, Call: c06workersTag(culprit)})
			c.Count(culprit.Src, true, c06case{Stream: c06streamOf(culprit), Src: culprit.Src})
		}
		start += lastStart + 1
		if c.Enough() {
			break
		}
	}
	os.RemoveAll(filepath.Join(c.Out, "c06_child_out"))
}

// the pool size of a concurrency program travels in the Call field of its replay
func c06workersTag(p c06childProg) string {
	if p.Workers > 0 {
		return fmt.Sprintf("workers=%d", p.Workers)
	}
	return ""
}

func c06workersOf(tag string) int {
	n, _ := strconv.Atoi(strings.TrimPrefix(tag, "workers="))
	return n
}

func c06streamOf(p c06childProg) string {
	if p.Kind == "fuzz" {
		return "2"
	}
	if p.Kind == "conc" {
		return "3c"
	}
	return "3"
}

func c06dropRuntimeFrames(st string) string {
	var keep []string
	for _, l := range strings.Split(st, "\n") {
		t := strings.TrimSpace(l)
		if strings.HasPrefix(t, "panic(") || strings.HasPrefix(t, "runtime.") || strings.HasPrefix(t, "/usr/") || strings.Contains(t, "/src/runtime/") {
			continue
		}
		keep = append(keep, l)
	}
	return strings.Join(keep, "\n")
}

func tail(s string, n int) string {
	if len(s) > n {
		return s[len(s)-n:]
	}
	return s
}

// ------------------------------------------------------------------------------- main

func runC06(c *Ctx) error {
	c.Rule = "stream 1: every modelled primitive (18 binary and 3 unary operators, map literal incl. malformed entries, element read / assignment with one and two indices, 10 built-ins, 5 sink attributes, raise inside try) x argument vectors over the universe {null, true, 0, 1, -1, 2.5, 1e+300, \"s\", \"\", [], [1,2], [[1]], {}, {\"a\":1}, a function} extended by boundary values {5,-5,3,2,-2,-3,0.5,NaN,+Inf,\"NaN\",\"1\",[1,2,3],{\"super\":1},{1:2},false,[\"a\"]}: exhaustive for operators and for built-in vectors of length 0..2, all (thorough) or a seeded quarter (quick) of length 3, seeded samples of length 4; outcome class compared with the Coq model; unmodelled built-ins for panics only.  stream 2: seeded random syntactically valid programs (depth <= 3) with ill-typed and boundary operands, executed in the child process, any panic or fatal error is a violation (generated functions do not call each other: user-written recursion is excluded by the property).  stream 1r: every stream-1 corpus case and a seeded share of the others again inside a loop and inside a function called three times, plus one program per operator / access form / built-in whose single node sees all operand combinations in both nestings (same node, alternating valid and invalid operands), any panic is a violation.  stream 3c (child process): 2-8 sinks on as many pool workers and the main thread entering nested mutex blocks of one or two names with errors, like, element access and list built-ins inside, thousands of rounds; a dead child is a violation keyed by its class.  streams 3/4 (child process, real pool workers): sinks x event state values x panicking bodies, attribute values of every kind, errors inside try, errors inside one sink of several.  non-trivial = the outcome is not a plain value; distinct by program text"
	c.BeginCases("From Ecal Require Import Model.Prims Run.RunC06.\nFrom Coq Require Import ZArith String List.\nImport ListNotations.\nOpen Scope string_scope.", "case", 500)

	if c.Replay != "" {
		var d c06case
		if err := c.LoadReplay(&d); err != nil {
			return err
		}
		switch d.Stream {
		case "5":
			c06interpStream(c) // interpreter model stream (c06_interp.go)
		case "2":
			c06runChild(c, []c06childProg{{Kind: "fuzz", Src: d.Src}})
		case "3c":
			// depends on the interleaving: several attempts
			for i := 0; i < 5 && len(c.Violations) == 0; i++ {
				c06runChild(c, []c06childProg{{Kind: "conc", Src: d.Src, Workers: c06workersOf(d.Call)}})
			}
		case "3", "4":
			c06runChild(c, []c06childProg{{Kind: "worker", Src: d.Src}})
			if d.Stream == "4" {
				for _, p := range c06childProgs(c) {
					if p.Src == d.Src {
						c06runChild(c, []c06childProg{p})
					}
				}
			}
		default:
			c06one(c, d)
		}
		return nil
	}

	nEmitted := 0
	emit := func(d c06case) {
		if c.Enough() {
			return
		}
		c06one(c, d)
		nEmitted++
		// repeated evaluation of the same nodes: the corpus always, a seeded share of the rest
		if d.Stream == "1" && (nEmitted <= c.Extra["corpus"].(int) || c.Rng.Intn(c.Pick(8, 2)) == 0) {
			c06repeat(c, d)
		}
	}
	c.Extra["corpus"] = 0
	c06stream1(c, emit)
	if !c.Enough() {
		// known-finding witness and worker programs first, then the random programs of stream 2
		ps := append(c06childProgs(c), c06concProgs(c)...)
		ps = append(ps, c06alternating(c)...)
		c06runChild(c, append(ps, c06stream2(c)...))
	}
	if !c.Enough() {
		c06interpStream(c) // stream 5: whole programs against Model/Interp.v (c06_interp.go, own case files)
	}
	if c.Enough() {
		c.Notes = append(c.Notes, "sweep stopped early after repeated violations")
	}
	c.Exhaustive = false
	return nil
}
