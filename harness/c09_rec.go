//go:build c09

package main

// Recorder / schedule controller behind verifhook.At for the C09 check.
//
// Every hook of engine/pool/threadpool.go sits INSIDE the lock region whose state it
// reports, so appending to the trace (under the recorder's own mutex) inside the hook
// yields, for every lock, the events of that lock in their real order; each component of
// the model state is guarded by exactly one of the pool's locks.  Goroutines are identified
// by their goroutine id: a worker announces its id at "pool.worker.start".

import (
	"fmt"
	"math/rand"
	"runtime"
	"strconv"
	"strings"
	"sync"
	"sync/atomic"
	"time"
)

type c09Task struct {
	id       int
	rec      *c09Rec
	gate     chan struct{} // non-nil: the task keeps its worker busy until the gate is closed
	added    int32         // AddTask returned
	started  int32
	finished int32
}

func (t *c09Task) Run(tid uint64) error {
	atomic.AddInt32(&t.started, 1)
	if t.gate != nil {
		<-t.gate
	}
	t.rec.taskRun(t.id)
	atomic.AddInt32(&t.finished, 1)
	return nil
}

func (t *c09Task) HandleError(e error) {}

func newC09Rng(seed int64) *rand.Rand { return rand.New(rand.NewSource(seed)) }

func c09gid() uint64 {
	var buf [64]byte
	n := runtime.Stack(buf[:], false)
	// "goroutine 123 [running]:"
	s := strings.TrimPrefix(string(buf[:n]), "goroutine ")
	if i := strings.IndexByte(s, ' '); i > 0 {
		s = s[:i]
	}
	id, _ := strconv.ParseUint(s, 10, 64)
	return id
}

type c09Rec struct {
	mu             sync.Mutex
	labels         []string
	untranslatable []string
	widOf          map[uint64]uint64 // goroutine -> worker id
	adderOf        map[uint64]int    // goroutine -> id of its AddTask call in flight
	pendEnv        map[uint64]int    // goroutine -> env id that set workerKill and owes the Broadcast
	nextA, nextE   int

	holdPoint string        // goroutines arriving here are held ...
	holdLeft  int           // ... the next holdLeft of them
	held      int           // how many are being held
	release   chan struct{} // closed to release them
}

func newC09Rec() *c09Rec {
	return &c09Rec{widOf: map[uint64]uint64{}, adderOf: map[uint64]int{}, pendEnv: map[uint64]int{},
		release: make(chan struct{})}
}

func (r *c09Rec) setHold(point string, n int) {
	r.mu.Lock()
	r.holdPoint, r.holdLeft, r.held = point, n, 0
	r.release = make(chan struct{})
	r.mu.Unlock()
}

func (r *c09Rec) awaitHeld(point string, n int, d time.Duration) bool {
	return awaitPassive(d, func() bool {
		r.mu.Lock()
		defer r.mu.Unlock()
		return r.held >= n
	})
}

func (r *c09Rec) releaseAll() {
	r.mu.Lock()
	r.holdPoint, r.holdLeft = "", 0
	select {
	case <-r.release:
	default:
		close(r.release)
	}
	r.mu.Unlock()
}

// countLabels: how many recorded labels start with the prefix.
func (r *c09Rec) countLabels(prefix string) int {
	r.mu.Lock()
	defer r.mu.Unlock()
	n := 0
	for _, l := range r.labels {
		if strings.HasPrefix(l, prefix) {
			n++
		}
	}
	return n
}

func (r *c09Rec) copyTrace() ([]string, []string) {
	r.mu.Lock()
	defer r.mu.Unlock()
	return append([]string{}, r.labels...), append([]string{}, r.untranslatable...)
}

func z(k int) string {
	if k < 0 {
		return fmt.Sprintf("(%d)%%Z", k)
	}
	return fmt.Sprintf("%d%%Z", k)
}

func (r *c09Rec) taskRun(id int) {
	g := c09gid()
	r.mu.Lock()
	if w, ok := r.widOf[g]; ok {
		r.labels = append(r.labels, fmt.Sprintf("LDone %d %d", w, id))
	} else {
		r.untranslatable = append(r.untranslatable, fmt.Sprintf("task %d run by a goroutine that is not a pool worker", id))
	}
	r.mu.Unlock()
}

func (r *c09Rec) handle(point string, args ...interface{}) {
	g := c09gid()
	if point == "pool.wake" {
		// the polling loops of WaitAll / JoinAll / SetWorkerCount re-broadcast every few
		// nanoseconds; slowing them keeps the traces short (only a schedule perturbation)
		time.Sleep(100 * time.Microsecond)
	}
	r.mu.Lock()
	// hold points lie outside all lock regions of the pool
	if r.holdPoint == point && r.holdLeft > 0 {
		r.holdLeft--
		r.held++
		ch := r.release
		r.mu.Unlock()
		<-ch
		// the event is recorded after the release: the goroutine is still inside the same
		// lock region (if any), so the order of that lock's events is unaffected
		r.mu.Lock()
	}
	defer r.mu.Unlock()
	emit := func(f string, a ...interface{}) { r.labels = append(r.labels, fmt.Sprintf(f, a...)) }
	bad := func() {
		r.untranslatable = append(r.untranslatable, fmt.Sprintf("%s%v", point, args))
	}
	wid := func() (uint64, bool) {
		w, ok := r.widOf[g]
		if !ok {
			bad()
		}
		return w, ok
	}
	argInt := func(i int) (int, bool) {
		if i < len(args) {
			if v, ok := args[i].(int); ok {
				return v, true
			}
		}
		bad()
		return 0, false
	}
	switch point {
	case "pool.worker.start":
		if id, ok := args[0].(uint64); ok {
			r.widOf[g] = id
		} else {
			bad()
		}
	case "pool.swc.count":
		if n, ok := argInt(0); ok {
			emit("LObsCount 0 %d", n)
		}
	case "pool.swc.grow":
		emit("LGrow 0")
	case "pool.swc.spawn":
		if id, ok := args[0].(uint64); ok {
			emit("LSpawn 0 %d", id)
		} else {
			bad()
		}
	case "pool.kill.set":
		if k, ok := argInt(0); ok {
			r.nextE++
			r.pendEnv[g] = r.nextE
			emit("LSetKill %d %s", r.nextE, z(k))
		}
	case "pool.wake":
		e, ok := r.pendEnv[g]
		if ok {
			delete(r.pendEnv, g)
		} else {
			r.nextE++
			e = r.nextE
		}
		emit("LELock %d", e)
		emit("LEBcast %d", e)
		emit("LEUnlock %d", e)
	case "pool.waitall.obs":
		wc, ok1 := argInt(0)
		ic, ok2 := argInt(1)
		qs, ok3 := argInt(2)
		if ok1 && ok2 && ok3 {
			emit("LObsWait 0 %d %d %d", wc, ic, qs)
		}
	case "pool.joinall.obs":
		wc, ok1 := argInt(0)
		qs, ok2 := argInt(1)
		if ok1 && ok2 {
			emit("LObsJoin 0 %d %d", wc, qs)
		}
	case "pool.add.pushed":
		t, ok := args[0].(*c09Task)
		if !ok {
			bad()
			return
		}
		r.nextA++
		r.adderOf[g] = r.nextA
		emit("LPush %d %d", r.nextA, t.id)
	case "pool.add.signal":
		a, ok := r.adderOf[g]
		if !ok {
			// Signal without a preceding Push by this goroutine: not a run of the model;
			// let the Coq side say so (a fresh adder id has no enabled LALock)
			r.nextA++
			a = r.nextA
		}
		delete(r.adderOf, g)
		emit("LALock %d", a)
		emit("LSignal %d", a)
		emit("LAUnlock %d", a)
	case "pool.getTask.kill":
		if w, ok := wid(); ok {
			if k, ok := argInt(0); ok {
				emit("LKillCheck %d %s", w, z(k))
			}
		}
	case "pool.getTask.pop":
		if w, ok := wid(); ok {
			if len(args) == 0 || args[0] == nil {
				emit("LPop %d None", w)
			} else if t, ok := args[0].(*c09Task); ok && t != nil {
				emit("LPop %d (Some %d)", w, t.id)
			} else {
				// a nil Task interface travels as an untyped nil; anything else is foreign
				bad()
			}
		}
	case "pool.getTask.empty":
		// hold point only
	case "pool.worker.idle":
		if w, ok := wid(); ok {
			emit("LIdleReg %d", w)
		}
	case "pool.idle.locked":
		if w, ok := wid(); ok {
			emit("LWLock %d", w)
		}
	case "pool.idle.kill":
		if w, ok := wid(); ok {
			if k, ok := argInt(1); ok {
				emit("LKillRead %d %s", w, z(k))
				if k != 0 {
					emit("LWUnlock %d", w) // idleTask.Run returns, deferred Unlock
				}
			}
		}
	case "pool.idle.size":
		if w, ok := wid(); ok {
			if n, ok := argInt(1); ok {
				emit("LSizeRead %d %d", w, n)
				if n > 0 {
					emit("LWUnlock %d", w)
				}
			}
		}
	case "pool.idle.wait":
		if w, ok := wid(); ok {
			emit("LWait %d", w)
		}
	case "pool.idle.woken":
		// reported after Wait returned: the wake-up was consumed and L re-acquired
		if w, ok := wid(); ok {
			emit("LWake %d", w)
			emit("LRelock %d", w)
			emit("LWUnlock %d", w)
		}
	case "pool.worker.unidle":
		if w, ok := wid(); ok {
			emit("LIdleDereg %d", w)
		}
	case "pool.worker.exit":
		if w, ok := wid(); ok {
			emit("LExit %d", w)
		}
	default:
		if strings.HasPrefix(point, "pool.") {
			bad()
		}
	}
}
