//go:build c16

package main

// C16, the "threads running" state: commands arrive while OTHER threads run and make function
// calls (every call / return takes the debugger's write lock and writes the per-thread tables).
// One thread is suspended at top level (in a loop, so every continue re-suspends it at the same
// break point), one is suspended three calls deep, 2..6 runner threads loop over function calls
// (bounded).  The thread suspended in the calls computes a non-finite number (x / 0) and returns
// it up to its top level: from the second iteration on its scope and the scope snapshots of its
// call stack hold a value the JSON encoder rejects when it is not sanitised.  While the runners run, 1..2 command goroutines send bursts of describe / status /
// cont .. stepout|resume / extract / inject / break / rmbreak / lockstate.  Every command must
// answer within the bound, every result must be JSON-encodable, the runners must finish, and
// the debugger must still answer afterwards.
//
// The stream runs in a CHILD process (this binary, sub-command C16stream): a Go fatal error
// (concurrent map read and map write, unlock of unlocked mutex ..) or a wedged debugger then is
// a classified violation (fatal:<slug> / debugger-stops-answering) instead of the end of the
// harness.

import (
	"encoding/json"
	"fmt"
	"math/rand"
	"os"
	"os/exec"
	"path/filepath"
	"regexp"
	"runtime"
	"sort"
	"strings"
	"sync"
	"sync/atomic"
	"time"

	"github.com/krotik/ecal/interpreter"
	"github.com/krotik/ecal/parser"
	"github.com/krotik/ecal/scope"
)

func init() { register("C16stream", runC16StreamChild) }

type c16streamCfg struct {
	Seed     int64 `json:"seed"`
	Runners  int   `json:"runners"`  // threads looping over function calls
	Calls    int   `json:"calls"`    // calls per runner
	CmdProcs int   `json:"cmdprocs"` // goroutines sending commands
	// Mutex makes the runners execute their calls inside an ECAL mutex block and the commands
	// mostly lockstate: reproduces the known finding lockstate-live-owner-map (one such stream per run)
	Mutex bool `json:"mutex,omitempty"`
}

const (
	c16streamTop = `a := 0
for i in range(1, 10000000) {
  x := i
  a := x
}
`
	c16streamDeep = `func d3(x) {
  y := x / 0
  return y
}
func d2(x) {
  return d3(x)
}
func d1(x) {
  return d2(x)
}
for i in range(1, 10000000) {
  z := d1(i)
}
`
	c16streamRunner = `func work(x) {
  return x + 1
}
s := 0
for i in range(1, %d) {
  s := work(s)
}
`
	c16streamRunnerMutex = `func work(x) {
  return x + 1
}
s := 0
for i in range(1, %d) {
  mutex m%d {
    s := work(s)
  }
}
`
	c16streamBound = 5 * time.Second
)

// ---- parent side ------------------------------------------------------------------------------

var c16fatalRe = regexp.MustCompile(`(?m)^(fatal error|panic): (.*)$`)

func c16slug(s string) string {
	s = strings.ToLower(s)
	var sb strings.Builder
	for _, r := range s {
		switch {
		case r >= 'a' && r <= 'z' || r >= '0' && r <= '9':
			sb.WriteRune(r)
		default:
			if l := sb.Len(); l > 0 && sb.String()[l-1] != '-' {
				sb.WriteByte('-')
			}
		}
		if sb.Len() > 60 {
			break
		}
	}
	return strings.Trim(sb.String(), "-")
}

// c16isLockstateOwnerRace: the known finding and nothing else — the runtime detected a map read /
// iteration concurrent with a write, and the goroutine that died was encoding (encoding/json map
// encoder) the result of a lockstate command (frame sendLockstate).
func c16isLockstateOwnerRace(text string, m []string) bool {
	if m[1] != "fatal error" || (m[2] != "concurrent map iteration and map write" && m[2] != "concurrent map read and map write") {
		return false
	}
	i := strings.Index(text, m[0])
	rest := text[i+len(m[0]):]
	j := strings.Index(rest, "[running]:")
	if j < 0 {
		return false
	}
	stack := rest[j:]
	if k := strings.Index(stack, "\n\n"); k >= 0 {
		stack = stack[:k]
	}
	return strings.Contains(stack, "encoding/json.mapEncoder") && strings.Contains(stack, "(*c16streamState).sendLockstate")
}

// c16streamRun runs one stream in a child process and merges what it reports.
func c16streamRun(c *Ctx, cfg c16streamCfg, n int) { c16streamRunC(c, cfg, n, false) }

// c16buildRace builds this harness with the race detector (needs cgo; "" when not available).
func c16buildRace(c *Ctx) (string, string) {
	bin := filepath.Join(c.Out, "harness-race.bin")
	args := []string{"build", "-race", "-tags", "verif c16", "-o", bin}
	if mf := filepath.Join(filepath.Dir(c.Out), "harness.mod"); os.Getenv("VERIF_REPO") != "" && os.Getenv("VERIF_REPO") != "/repo" {
		args = append(args, "-modfile="+mf)
	}
	args = append(args, ".")
	cmd := exec.Command("go", args...)
	cmd.Env = append(os.Environ(), "CGO_ENABLED=1", "GOFLAGS=-mod=mod")
	ob, err := cmd.CombinedOutput()
	if err != nil {
		t := string(ob)
		if len(t) > 400 {
			t = t[len(t)-400:]
		}
		return "", "race build not available: " + t
	}
	return bin, ""
}

// c16raceOnMap: are BOTH accesses of a race report map operations of the Go runtime (runtime.mapaccess /
// mapassign / mapdelete / mapiter as the innermost frame) made directly by a debugger function?  Those
// are accesses to the debugger's own tables which the runtime turns into a fatal error when they
// collide.  (A result that is encoded by the caller while a thread runs on is a different matter:
// the maps in it were filled before they were published; such reports are counted, not judged.)
func c16raceOnMap(rep string) bool {
	lines := strings.Split(rep, "\n")
	stacks, good := 0, 0
	for i, l := range lines {
		t := strings.TrimSpace(l)
		if !(strings.HasPrefix(t, "Read at ") || strings.HasPrefix(t, "Write at ") || strings.HasPrefix(t, "Previous read at ") || strings.HasPrefix(t, "Previous write at ")) {
			continue
		}
		stacks++
		if i+1 >= len(lines) || !strings.HasPrefix(strings.TrimSpace(lines[i+1]), "runtime.map") {
			continue
		}
		for j := i + 1; j < len(lines) && strings.TrimSpace(lines[j]) != ""; j += 2 {
			fn := strings.TrimSpace(lines[j])
			if strings.HasPrefix(fn, "runtime.") {
				continue
			}
			if strings.Contains(fn, "ecal/interpreter.(*ecalDebugger)") {
				good++
			}
			break
		}
	}
	return stacks == 2 && good == 2
}

// c16raceSite names the innermost debugger function of a report (for the evidence only).
func c16raceSite(rep string) string {
	for _, l := range strings.Split(rep, "\n") {
		t := strings.TrimSpace(l)
		if i := strings.Index(t, "(*ecalDebugger)."); i >= 0 {
			t = t[i+len("(*ecalDebugger)."):]
			if j := strings.Index(t, "("); j >= 0 {
				t = t[:j]
			}
			return t
		}
	}
	return "?"
}

// c16streamRace runs one stream (no mutex blocks: the listed finding stays out of it) in a child built
// with the race detector.  The detector reports an unsynchronised access to the debugger's tables
// whenever both accesses HAPPEN in the run, they need not collide: that is what makes a narrowed
// or dropped lock visible in one short stream.  Only reports with a frame inside the debugger
// (interpreter.(*ecalDebugger)) count; time bounds are not judged in this mode.
func c16streamRace(c *Ctx, bin string, cfg c16streamCfg, n int) {
	desc := c16desc{Stream: &cfg}
	out := filepath.Join(c.Out, fmt.Sprintf("stream-race-%d", n))
	os.MkdirAll(out, 0o755)
	defer os.RemoveAll(out)
	b, _ := json.Marshal(cfg)
	cmd := exec.Command(bin, "C16stream", "-tier", c.Tier, "-seed", fmt.Sprint(cfg.Seed), "-out", out)
	cmd.Env = append(os.Environ(), "C16_STREAM_CFG="+string(b), "C16_STREAM_RACE=1",
		"GORACE=halt_on_error=0 log_path="+filepath.Join(out, "race"))
	var buf strings.Builder
	cmd.Stdout = &buf
	cmd.Stderr = &buf
	if err := cmd.Start(); err != nil {
		c.Notes = append(c.Notes, "race stream child did not start: "+err.Error())
		return
	}
	done := make(chan error, 1)
	go func() { done <- cmd.Wait() }()
	select {
	case <-done:
	case <-time.After(240 * time.Second):
		cmd.Process.Kill()
		<-done
		c.Notes = append(c.Notes, "race stream did not end within 240s (not judged)")
	}
	// a report counts when one of its two accesses is a MAP operation (runtime.mapaccess / mapassign /
	// mapdelete / mapiter as the innermost frame: these are the accesses the Go runtime turns into a
	// fatal error when they collide) made from inside the debugger.  Other reports (a plain word
	// written by several readers, e.g. the time stamp of the last visit) are counted, not judged.
	var races []string
	other := map[string]int{}
	files, _ := filepath.Glob(filepath.Join(out, "race*"))
	for _, f := range files {
		rb, _ := os.ReadFile(f)
		for _, rep := range strings.Split(string(rb), "==================") {
			if !strings.Contains(rep, "DATA RACE") || !strings.Contains(rep, "ecal/interpreter.(*ecalDebugger)") {
				continue
			}
			if c16raceOnMap(rep) {
				if len(rep) > 2400 {
					rep = rep[:2400]
				}
				races = append(races, rep)
			} else {
				other[c16raceSite(rep)]++
			}
		}
	}
	for k, v := range other {
		c.Dist["race_stream_other_reports|"+k] += v
	}
	c.Dist["race_stream_reports"] += len(races)
	c.Evals++
	c.distinct[fmt.Sprintf("stream-race|%+v", cfg)] = true
	if len(races) > 0 {
		desc.Race = races[0]
		c.Violate("data-race-debugger", fmt.Sprintf("race detector: %d report(s) with a frame inside the debugger while commands were handled with threads running (an unsynchronised access to the debugger's tables aborts the process when it collides with a write: fatal error: concurrent map read and map write)", len(races)), desc)
	}
}

func c16streamRunC(c *Ctx, cfg c16streamCfg, n int, confirming bool) {
	desc := c16desc{Stream: &cfg}
	out := filepath.Join(c.Out, fmt.Sprintf("stream-%d", n))
	b, _ := json.Marshal(cfg)
	cmd := exec.Command(os.Args[0], "C16stream", "-tier", c.Tier, "-seed", fmt.Sprint(cfg.Seed), "-out", out)
	cmd.Env = append(os.Environ(), "C16_STREAM_CFG="+string(b))
	var buf strings.Builder
	cmd.Stdout = &buf
	cmd.Stderr = &buf
	if err := cmd.Start(); err != nil {
		c.Notes = append(c.Notes, "stream child did not start: "+err.Error())
		return
	}
	done := make(chan error, 1)
	go func() { done <- cmd.Wait() }()
	var err error
	select {
	case err = <-done:
	case <-time.After(120 * time.Second):
		cmd.Process.Kill()
		<-done
		c.Violate("debugger-stops-answering", "the stream of commands against running threads did not end within 120s", desc)
		c.Count(fmt.Sprintf("stream|%+v", cfg), true, desc)
		return
	}
	defer os.RemoveAll(out)
	if err != nil {
		text := buf.String()
		key, what := "fatal:child-exit", "the child process running the stream ended abnormally: "+err.Error()
		if m := c16fatalRe.FindStringSubmatch(text); m != nil {
			key = "fatal:" + c16slug(m[2])
			what = "the process died while commands were handled with threads running: " + m[1] + ": " + m[2]
			if cfg.Mutex && c16isLockstateOwnerRace(text, m) {
				key = "lockstate-live-owner-map"
				what = "a lockstate result (the live mutex owner map) was JSON-encoded while a thread passed through an ECAL mutex block: " + m[1] + ": " + m[2]
			}
		}
		c.Violate(key, what, desc)
		c.Count(fmt.Sprintf("stream|%+v", cfg), true, desc)
		return
	}
	rb, rerr := os.ReadFile(filepath.Join(out, "result.json"))
	var res struct {
		Evaluations  int            `json:"evaluations"`
		Distribution map[string]int `json:"distribution"`
		Violations   []Violation    `json:"violations"`
		Notes        []string       `json:"notes"`
	}
	if rerr != nil || json.Unmarshal(rb, &res) != nil {
		c.Notes = append(c.Notes, "stream child left no result")
		return
	}
	for _, v := range res.Violations {
		if v.Key == "debugger-stops-answering" && !confirming {
			// an observation against a time bound: only reported when a second run of the same
			// stream ends in a violation as well (a wedged debugger does, a stalled machine does not)
			before := len(c.Violations)
			c16streamRunC(c, cfg, n+1000, true)
			if len(c.Violations) == before {
				c.Dist["stream_time_bound_exceeded_not_confirmed"]++
				c.Notes = append(c.Notes, "a stream exceeded a time bound once, the identical second run did not: "+v.Desc)
			}
			continue
		}
		c.Violate(v.Key, v.Desc, desc)
	}
	for k, v := range res.Distribution {
		c.Dist[k] += v
	}
	c.Notes = append(c.Notes, res.Notes...)
	c.Evals += res.Evaluations
	c.distinct[fmt.Sprintf("stream|%+v", cfg)] = true
}

func c16streams(c *Ctx) {
	n := c.Pick(3, 16)
	before := len(c.Violations)
	for i := 0; i < n && !c.Enough() && len(c.Violations) == before; i++ {
		// two command goroutines except in every third stream (one alone meets the map races
		// of seeded changes clearly less often)
		procs := 2
		if i%3 == 2 {
			procs = 1
		}
		cfg := c16streamCfg{Seed: c.Seed*1000 + int64(i), Runners: 2 + c.Rng.Intn(5),
			Calls: 20000 + c.Rng.Intn(30001), CmdProcs: procs}
		c16streamRun(c, cfg, i)
	}
	c.Extra["streams_with_running_threads"] = n
	// the same kind of stream under the race detector (short: the detector needs the accesses to
	// happen, not to collide)
	if !c.Enough() && len(c.Violations) == before {
		if rbin, why := c16buildRace(c); rbin != "" {
			nr := c.Pick(1, 4)
			for i := 0; i < nr && len(c.Violations) == before; i++ {
				c16streamRace(c, rbin, c16streamCfg{Seed: c.Seed*1000 + 500 + int64(i), Runners: 3, Calls: 1500 + 500*i, CmdProcs: 2}, i)
			}
			os.Remove(rbin)
			c.Extra["streams_under_race_detector"] = nr
		} else {
			c.Notes = append(c.Notes, why)
			c.Extra["streams_under_race_detector"] = 0
		}
	}
	// one stream with runners inside ECAL mutex blocks and mostly lockstate commands: reproduces
	// the listed finding lockstate-live-owner-map when the race is hit (reported under that key
	// only for exactly that death, see c16isLockstateOwnerRace); nothing is reported if it is not hit
	if !c.Enough() {
		c16streamRun(c, c16streamCfg{Seed: c.Seed*1000 + 999, Runners: 3, Calls: 30000, CmdProcs: 2, Mutex: true}, n)
		c.Extra["streams_with_mutex_blocks"] = 1
	}
}

// ---- child side -------------------------------------------------------------------------------

type c16streamState struct {
	c   *Ctx
	dbg interface {
		HandleInput(string) (interface{}, error)
	}
	failed  int32
	sent    int64
	violMu  sync.Mutex
	started time.Time
}

func (st *c16streamState) violate(key, what string) {
	st.violMu.Lock()
	defer st.violMu.Unlock()
	if atomic.CompareAndSwapInt32(&st.failed, 0, 1) {
		if key == "debugger-stops-answering" {
			what += " | blocked in: " + c16blockedIn()
		}
		st.c.Violate(key, what, nil)
	}
}

// c16blockedIn lists the debugger functions in which goroutines currently wait (diagnosis only).
func c16blockedIn() string {
	buf := make([]byte, 1<<20)
	buf = buf[:runtime.Stack(buf, true)]
	seen := map[string]int{}
	for _, g := range strings.Split(string(buf), "\n\n") {
		if !strings.Contains(g, "sync.") {
			continue
		}
		for _, l := range strings.Split(g, "\n") {
			if strings.HasPrefix(l, "github.com/krotik/ecal/interpreter.(*ecalDebugger).") {
				f := strings.TrimPrefix(l, "github.com/krotik/ecal/interpreter.(*ecalDebugger).")
				if i := strings.Index(f, "("); i > 0 {
					f = f[:i]
				}
				seen[f]++
				break
			}
		}
	}
	var parts []string
	for f, n := range seen {
		parts = append(parts, fmt.Sprintf("%s x%d", f, n))
	}
	sort.Strings(parts)
	return strings.Join(parts, ", ")
}

// send sends one line; false = stop the stream.
func (st *c16streamState) send(line string) (interface{}, bool) {
	if atomic.LoadInt32(&st.failed) != 0 {
		return nil, false
	}
	r := guarded(c16streamBound, func() (interface{}, error) { return st.dbg.HandleInput(line) })
	atomic.AddInt64(&st.sent, 1)
	switch {
	case r.TimedOut:
		st.violate("debugger-stops-answering", fmt.Sprintf("%q did not return within %v while other threads were running (command %d of the stream)", line, c16streamBound, atomic.LoadInt64(&st.sent)))
		return nil, false
	case r.Panicked:
		st.violate(c16panicKey(r.PanicMsg), fmt.Sprintf("%q panicked while other threads were running: %s", line, r.PanicMsg))
		return nil, false
	case r.Err != nil:
		return nil, true
	}
	if _, err := json.Marshal(r.Val); err != nil {
		st.violate("not-json-encodable", fmt.Sprintf("the result of %q cannot be encoded as JSON: %v", line, err))
		return nil, false
	}
	return r.Val, true
}

// sendLockstate sends "lockstate" and encodes the result inside THIS function: a fatal error of
// the runtime while the live mutex owner map is encoded shows this frame (known finding
// lockstate-live-owner-map; the parent classifies the child's death by it).
//
//go:noinline
func (st *c16streamState) sendLockstate() bool {
	if atomic.LoadInt32(&st.failed) != 0 {
		return false
	}
	r := guarded(c16streamBound, func() (interface{}, error) { return st.dbg.HandleInput("lockstate") })
	atomic.AddInt64(&st.sent, 1)
	switch {
	case r.TimedOut:
		st.violate("debugger-stops-answering", fmt.Sprintf("\"lockstate\" did not return within %v while other threads were running", c16streamBound))
		return false
	case r.Panicked:
		st.violate(c16panicKey(r.PanicMsg), "\"lockstate\" panicked while other threads were running: "+r.PanicMsg)
		return false
	case r.Err != nil:
		return true
	}
	if _, err := json.Marshal(r.Val); err != nil {
		st.violate("not-json-encodable", fmt.Sprintf("the result of \"lockstate\" cannot be encoded as JSON: %v", err))
		return false
	}
	return true
}

// suspended reports whether thread tid is suspended (read from a describe result).
func (st *c16streamState) waitSuspended(tid uint64) bool {
	deadline := time.Now().Add(c16streamBound)
	for {
		v, ok := st.send(fmt.Sprintf("describe %d", tid))
		if !ok {
			return false
		}
		if m, isMap := v.(map[string]interface{}); isMap && m != nil {
			if r, has := m["threadRunning"].(bool); has && !r {
				return true
			}
		}
		if time.Now().After(deadline) {
			st.violate("debugger-stops-answering", fmt.Sprintf("thread %d was not suspended at its break point again within %v after a continue command", tid, c16streamBound))
			return false
		}
		time.Sleep(200 * time.Microsecond)
	}
}

func runC16StreamChild(c *Ctx) error {
	var cfg c16streamCfg
	if err := json.Unmarshal([]byte(os.Getenv("C16_STREAM_CFG")), &cfg); err != nil {
		return fmt.Errorf("C16_STREAM_CFG: %v", err)
	}
	global := scope.NewScope(scope.GlobalScope)
	erp := interpreter.NewECALRuntimeProvider("c16stream", nil, nil)
	defer erp.Cron.Stop()
	dbg := interpreter.NewECALDebugger(global)
	dbg.BreakOnError(false)
	erp.Debugger = dbg
	st := &c16streamState{c: c, dbg: dbg, started: time.Now()}

	type prog struct {
		name, src string
		tid       uint64
		done      chan struct{}
	}
	mk := func(name, src string) (*prog, error) {
		ast, err := parser.ParseWithRuntime(name, src, erp)
		if err == nil {
			err = ast.Runtime.Validate()
		}
		if err != nil {
			return nil, err
		}
		p := &prog{name: name, src: src, tid: erp.NewThreadID(), done: make(chan struct{})}
		vs := scope.NewScopeWithParent(name, global)
		go func() {
			defer close(p.done)
			ast.Runtime.Eval(vs, make(map[string]interface{}), p.tid)
			dbg.RecordThreadFinished(p.tid)
		}()
		return p, nil
	}

	for _, l := range []string{"break top:3", "break deep:2"} {
		if _, ok := st.send(l); !ok {
			return nil
		}
	}
	top, err := mk("top", c16streamTop)
	if err != nil {
		return err
	}
	deepSrc := c16streamDeep
	if os.Getenv("C16_STREAM_RACE") != "" {
		// under the race detector the finite variant: the detector reports every distinct pair of
		// stacks, and the sanitiser's path for a rejected value only multiplies the (not judged)
		// reports about results encoded while their thread runs on
		deepSrc = strings.Replace(deepSrc, "y := x / 0", "y := x + 1", 1)
	}
	deep, err := mk("deep", deepSrc)
	if err != nil {
		return err
	}
	if !st.waitSuspended(top.tid) || !st.waitSuspended(deep.tid) {
		return nil
	}
	var runners []*prog
	for i := 0; i < cfg.Runners; i++ {
		src := fmt.Sprintf(c16streamRunner, cfg.Calls)
		if cfg.Mutex {
			src = fmt.Sprintf(c16streamRunnerMutex, cfg.Calls, i)
		}
		r, err := mk(fmt.Sprintf("runner%d", i), src)
		if err != nil {
			return err
		}
		runners = append(runners, r)
	}
	runnersDone := func() bool {
		for _, r := range runners {
			select {
			case <-r.done:
			default:
				return false
			}
		}
		return true
	}

	var wg sync.WaitGroup
	var contMu sync.Mutex // one continue / re-suspend cycle at a time
	for g := 0; g < cfg.CmdProcs; g++ {
		wg.Add(1)
		go func(g int) {
			defer wg.Done()
			rng := rand.New(rand.NewSource(cfg.Seed*10 + int64(g)))
			for n := 0; !runnersDone() && n < 200000; n++ {
				ok := true
				r := rng.Intn(100)
				if cfg.Mutex && rng.Intn(2) == 0 {
					r = 99 // every second command is lockstate
				}
				switch {
				case r < 40:
					_, ok = st.send(fmt.Sprintf("describe %d", deep.tid))
				case r < 52:
					_, ok = st.send(fmt.Sprintf("describe %d", top.tid))
				case r < 62:
					_, ok = st.send("status")
				case r < 72:
					contMu.Lock()
					if _, ok = st.send(fmt.Sprintf("cont %d stepout", deep.tid)); ok {
						ok = st.waitSuspended(deep.tid)
					}
					contMu.Unlock()
				case r < 77:
					contMu.Lock()
					if _, ok = st.send(fmt.Sprintf("cont %d %s", top.tid, []string{"resume", "stepout"}[rng.Intn(2)])); ok {
						ok = st.waitSuspended(top.tid)
					}
					contMu.Unlock()
				case r < 82:
					_, ok = st.send(fmt.Sprintf("extract %d %s zz%d", []uint64{top.tid, deep.tid}[rng.Intn(2)], []string{"x", "y", "i"}[rng.Intn(3)], g))
				case r < 85:
					_, ok = st.send(fmt.Sprintf("inject %d q%d 1 + %d", top.tid, g, n%7))
				case r < 90:
					_, ok = st.send(fmt.Sprintf("break other:%d", rng.Intn(40)))
				case r < 95:
					_, ok = st.send(fmt.Sprintf("rmbreak other:%d", rng.Intn(40)))
				default:
					ok = st.sendLockstate()
				}
				if !ok {
					return
				}
			}
		}(g)
	}
	wg.Wait()
	c.Dist["stream_commands_while_threads_run"] += int(atomic.LoadInt64(&st.sent))
	if atomic.LoadInt32(&st.failed) != 0 {
		os.Exit(c16streamExit(c, st))
	}
	// the runners must finish
	deadline := time.After(60 * time.Second)
	for _, r := range runners {
		select {
		case <-r.done:
		case <-deadline:
			st.violate("debugger-stops-answering", fmt.Sprintf("a runner thread (%d function calls) did not finish within 60s after the commands: threads are blocked on a debugger lock", cfg.Calls))
			os.Exit(c16streamExit(c, st))
		}
	}
	// and the debugger still answers; then stop the two suspended threads
	for _, l := range []string{"status", "rmbreak top", "describe " + fmt.Sprint(deep.tid), "lockstate"} {
		if _, ok := st.send(l); !ok {
			os.Exit(c16streamExit(c, st))
		}
	}
	for _, l := range []string{"rmbreak deep"} {
		st.send(l)
	}
	r := guarded(c16streamBound, func() (interface{}, error) { dbg.StopThreads(0); return nil, nil })
	if r.TimedOut {
		st.violate("debugger-stops-answering", "StopThreads at the end of the stream did not return within the bound")
		os.Exit(c16streamExit(c, st))
	}
	for _, p := range []*prog{top, deep} {
		for round := 0; round < 100; round++ {
			select {
			case <-p.done:
				round = 1000
			case <-time.After(20 * time.Millisecond):
				guarded(c16streamBound, func() (interface{}, error) { dbg.StopThreads(0); return nil, nil })
			}
		}
	}
	c.Evals += int(atomic.LoadInt64(&st.sent))
	return nil
}

// c16streamExit writes the result and ends the child although goroutines are stuck.
func c16streamExit(c *Ctx, st *c16streamState) int {
	c.Evals += int(atomic.LoadInt64(&st.sent))
	if err := c.finish(); err != nil {
		return 2
	}
	return 0
}
