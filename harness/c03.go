//go:build c03

package main

// C03 — expressions: precedence (parser) and operator semantics (interpreter).
// Implementation side: an expression source text is lexed with the real lexer, parsed with the
// real parser and evaluated through the public Parse/Validate/Eval API in a fixed scope.  The
// Coq side (Run/RunC03.v) parses the REAL tokens with the Pratt model, compares with the REAL
// tree and with the tree of the writing the text was printed from (Spec), evaluates the REAL
// tree with the expression model and compares value / error class + named operand + node.

import (
	"fmt"
	"math"
	"regexp"
	"strings"
	"time"

	"github.com/krotik/ecal/interpreter"
	"github.com/krotik/ecal/parser"
	"github.com/krotik/ecal/scope"
	"github.com/krotik/ecal/util"
)

func init() { register("C03", runC03) }

// ---- writings ---------------------------------------------------------------------

// c03w is a writing: an expression tree with explicit parenthesis nodes.
type c03w struct {
	K   string `json:"k"`             // atom | paren | pre | bin
	Op  string `json:"op,omitempty"`  // operator key / atom kind
	Src string `json:"src,omitempty"` // atom source text
	A   *c03w  `json:"a,omitempty"`
	B   *c03w  `json:"b,omitempty"`
}

type c03case struct {
	Src     string `json:"src"`
	Writing *c03w  `json:"writing,omitempty"`
	NoEval  bool   `json:"noeval,omitempty"`
	Re      *c03re `json:"reeval,omitempty"` // re-evaluation stream (c03reeval.go)
	Step    int    `json:"step,omitempty"`
}

type c03op struct {
	Key   string // Coq constructor suffix
	Text  string
	Level int
	L, R  string // wanted operand kinds: num str bool any list
	Res   string
}

var c03bin = []c03op{
	{"OTimes", "*", 6, "num", "num", "num"}, {"ODiv", "/", 6, "num", "num", "num"},
	{"ODivInt", "//", 6, "num", "num", "num"}, {"OModInt", "%", 6, "num", "num", "num"},
	{"OPlus", "+", 5, "num", "num", "num"}, {"OMinus", "-", 5, "num", "num", "num"},
	{"OGeq", ">=", 4, "cmp", "cmp", "bool"}, {"OLeq", "<=", 4, "cmp", "cmp", "bool"},
	{"ONeq", "!=", 4, "any", "any", "bool"}, {"OEq", "==", 4, "any", "any", "bool"},
	{"OGt", ">", 4, "cmp", "cmp", "bool"}, {"OLt", "<", 4, "cmp", "cmp", "bool"},
	{"OLike", "like", 4, "str", "str", "bool"}, {"OIn", "in", 4, "any", "list", "bool"},
	{"OHasPrefix", "hasprefix", 4, "str", "str", "bool"}, {"OHasSuffix", "hassuffix", 4, "str", "str", "bool"},
	{"ONotIn", "notin", 4, "any", "list", "bool"},
	{"OAnd", "and", 2, "bool", "bool", "bool"}, {"OOr", "or", 1, "bool", "bool", "bool"},
	{"OAssign", ":=", 0, "ident", "any", "null"},
}
var c03pre = []c03op{
	{"PNeg", "-", 7, "num", "", "num"}, {"PPos", "+", 7, "num", "", "num"}, {"PNot", "not", 3, "bool", "", "bool"},
}

func c03binOp(key string) *c03op {
	for i := range c03bin {
		if c03bin[i].Key == key {
			return &c03bin[i]
		}
	}
	return nil
}
func c03preOp(key string) *c03op {
	for i := range c03pre {
		if c03pre[i].Key == key {
			return &c03pre[i]
		}
	}
	return nil
}

// level of the outermost construct (Spec/ExprGrammarSpec.plev)
func (w *c03w) lev() int {
	switch w.K {
	case "pre":
		return c03preOp(w.Op).Level
	case "bin":
		return c03binOp(w.Op).Level
	}
	return 9
}

func c03atom(kind, src string) *c03w { return &c03w{K: "atom", Op: kind, Src: src} }
func c03paren(a *c03w) *c03w        { return &c03w{K: "paren", A: a} }

// minimal parentheses of the documented precedence (the harness' own unparse; the Coq side
// re-checks the result with wfp and against the real token sequence)
func c03mkBin(op string, a, b *c03w) *c03w {
	l := c03binOp(op).Level
	if a.lev() < l {
		a = c03paren(a)
	}
	if b.lev() <= l {
		b = c03paren(b)
	}
	return &c03w{K: "bin", Op: op, A: a, B: b}
}
func c03mkPre(op string, a *c03w) *c03w {
	if a.lev() < c03preOp(op).Level {
		a = c03paren(a)
	}
	return &c03w{K: "pre", Op: op, A: a}
}

// extra (redundant) parentheses at random places
func c03redundant(c *Ctx, w *c03w, p float64) *c03w {
	var r *c03w
	switch w.K {
	case "atom":
		r = w
	case "paren":
		r = c03paren(c03redundant(c, w.A, p))
	case "pre":
		r = &c03w{K: "pre", Op: w.Op, A: c03redundant(c, w.A, p)}
	default:
		r = &c03w{K: "bin", Op: w.Op, A: c03redundant(c, w.A, p), B: c03redundant(c, w.B, p)}
	}
	for c.Rng.Float64() < p {
		r = c03paren(r)
	}
	return r
}

func (w *c03w) hasAssign() bool {
	if w == nil {
		return false
	}
	if w.K == "bin" && w.Op == "OAssign" {
		return true
	}
	return w.A.hasAssign() || w.B.hasAssign()
}

// the token texts of a writing, in order
func (w *c03w) texts(out *[]string) {
	switch w.K {
	case "atom":
		*out = append(*out, w.Src)
	case "paren":
		*out = append(*out, "(")
		w.A.texts(out)
		*out = append(*out, ")")
	case "pre":
		*out = append(*out, c03preOp(w.Op).Text)
		w.A.texts(out)
	default:
		w.A.texts(out)
		*out = append(*out, c03binOp(w.Op).Text)
		w.B.texts(out)
	}
}

func c03startsWord(s string) bool {
	ch := s[0]
	return ch == '"' || ch == '\'' || (ch >= '0' && ch <= '9') || (ch >= 'a' && ch <= 'z') || (ch >= 'A' && ch <= 'Z')
}

// layout: spaces, tabs and newlines between tokens; nothing only next to a parenthesis or
// between a word and a symbol.  layout 0 = single spaces.
func c03layout(c *Ctx, texts []string, wild bool) string {
	var sb strings.Builder
	for i, t := range texts {
		if i > 0 {
			prev := texts[i-1]
			isParen := func(x string) bool { return x == "(" || x == ")" }
			isSym := func(x string) bool { return !isParen(x) && !c03startsWord(x) }
			tight := prev == "(" || t == ")" ||
				(isSym(prev) && (c03startsWord(t) || t == "(")) ||
				((c03startsWord(prev) || prev == ")") && isSym(t))
			if !wild {
				if !(prev == "(" || t == ")") {
					sb.WriteString(" ")
				}
			} else {
				switch k := c.Rng.Intn(10); {
				case k < 3 && tight:
				case k < 7:
					sb.WriteString(" ")
				case k < 8:
					sb.WriteString("  \t")
				case k < 9:
					sb.WriteString("\n")
				default:
					sb.WriteString(" \n  ")
				}
			}
		}
		sb.WriteString(t)
	}
	return sb.String()
}

// ---- scope ------------------------------------------------------------------------

type c03var struct {
	Name string
	Val  interface{}
	Kind string
}

var c03vars = []c03var{
	{"n0", 0.0, "num"}, {"n1", 1.0, "num"}, {"nm", -1.0, "num"}, {"nf", 2.5, "num"}, {"n7", 7.0, "num"},
	{"sa", "a", "str"}, {"sb", "b", "str"}, {"sab", "ab", "str"}, {"sre", "a.*", "str"}, {"srb", "^b", "str"}, {"bt", true, "bool"}, {"bf", false, "bool"},
	{"nu", nil, "null"}, {"l12", []interface{}{1.0, 2.0}, "list"},
	{"ls", []interface{}{"a", true, nil, 2.5}, "list"},
}

func c03scope() parser.Scope {
	vs := scope.NewScope(scope.GlobalScope)
	for _, v := range c03vars {
		val := v.Val
		if l, ok := val.([]interface{}); ok {
			val = append([]interface{}{}, l...)
		}
		vs.SetValue(v.Name, val)
	}
	return vs
}

func c03coqValue(v interface{}) string {
	switch x := v.(type) {
	case nil:
		return "ONull"
	case bool:
		return "(OBool " + CoqBool(x) + ")"
	case float64:
		b := math.Float64bits(x)
		if x != x {
			b = 0x7FF8000000000001
		}
		return fmt.Sprintf("(ONum %d%%Z)", b)
	case string:
		return "(OStr " + c03b(x) + ")"
	case []interface{}:
		items := []string{}
		for _, e := range x {
			items = append(items, c03coqValue(e))
		}
		return "(OList " + CoqList(items) + ")"
	}
	return "OOther"
}

func c03envTerm() string {
	items := []string{}
	for _, v := range c03vars {
		items = append(items, "("+c03b(v.Name)+", "+c03coqValue(v.Val)+")")
	}
	return CoqList(items)
}

// ---- operands ---------------------------------------------------------------------

var c03pool = map[string][][2]string{ // kind -> (atom kind, source)
	"num":  {{"ANum", "0"}, {"ANum", "1"}, {"ANum", "2.5"}, {"ANum", "7"}, {"ANum", "3"}, {"ANum", "10"}, {"ANum", "0.5"}, {"ANum", "1e+2"}, {"AIdent", "n0"}, {"AIdent", "n1"}, {"AIdent", "nm"}, {"AIdent", "nf"}, {"AIdent", "n7"}},
	"str":  {{"AStr", "\"a\""}, {"AStr", "\"b\""}, {"AStr", "'ab'"}, {"AStr", "\"a.*\""}, {"AStr", "\"\""}, {"AStr", "r\"b$\""}, {"AIdent", "sa"}, {"AIdent", "sb"}},
	"bool": {{"ATrue", "true"}, {"AFalse", "false"}, {"AIdent", "bt"}, {"AIdent", "bf"}},
	"null": {{"ANull", "null"}, {"AIdent", "nu"}, {"AIdent", "undef"}},
	"list": {{"AIdent", "l12"}, {"AIdent", "ls"}},
}
var c03kinds = []string{"num", "str", "bool", "null", "list"}

func c03operand(c *Ctx, want string, fit float64) *c03w {
	kind := want
	switch want {
	case "any", "":
		kind = c03kinds[c.Rng.Intn(4)]
	case "cmp":
		kind = []string{"num", "num", "str"}[c.Rng.Intn(3)]
	case "ident":
		return c03atom("AIdent", []string{"x", "y", "n1"}[c.Rng.Intn(3)])
	}
	if c.Rng.Float64() > fit {
		kind = c03kinds[c.Rng.Intn(len(c03kinds))]
	}
	p := c03pool[kind]
	e := p[c.Rng.Intn(len(p))]
	return c03atom(e[0], e[1])
}

// random tree of a wanted result kind
func c03tree(c *Ctx, depth int, want string, fit float64) *c03w {
	if depth == 0 || c.Rng.Intn(5) == 0 {
		return c03operand(c, want, fit)
	}
	// prefix operator?
	if c.Rng.Intn(5) == 0 {
		var cand []c03op
		for _, o := range c03pre {
			if o.Res == want || want == "any" || want == "cmp" || c.Rng.Float64() > fit {
				cand = append(cand, o)
			}
		}
		if len(cand) > 0 {
			o := cand[c.Rng.Intn(len(cand))]
			return c03mkPre(o.Key, c03tree(c, depth-1, o.L, fit))
		}
	}
	var cand []c03op
	for _, o := range c03bin[:19] {
		if o.Res == want || want == "any" || (want == "cmp" && o.Res == "num") || c.Rng.Float64() > fit {
			cand = append(cand, o)
		}
	}
	if len(cand) == 0 {
		return c03operand(c, want, fit)
	}
	o := cand[c.Rng.Intn(len(cand))]
	return c03mkBin(o.Key, c03tree(c, depth-1, o.L, fit), c03tree(c, depth-1, o.R, fit))
}

// ---- one case ---------------------------------------------------------------------

// c03b renders a byte string as a hexadecimal literal (Common/Hex.hx): far cheaper for coqc
// to read than a list of numerals.
func c03b(v string) string {
	if v == "" {
		return "[]"
	}
	return fmt.Sprintf("(hx \"%x\")", v)
}

// c03node serialises a real AST like CoqNode, with hexadecimal byte strings.
func c03node(sb *strings.Builder, n *parser.ASTNode) {
	if n == nil {
		sb.WriteString("(Nd \"<nil>\" [] 0 0 [])")
		return
	}
	flags, val, line := 0, "", 0
	if n.Token != nil {
		val, line = n.Token.Val, n.Token.Lline
		if n.Token.Identifier {
			flags |= 1
		}
		if n.Token.AllowEscapes {
			flags |= 2
		}
	}
	fmt.Fprintf(sb, "(Nd %s %s %d %d ", coqStr(n.Name), c03b(val), flags, line)
	if len(n.Children) == 0 {
		sb.WriteString("[])")
		return
	}
	sb.WriteString("[")
	for i, ch := range n.Children {
		if i > 0 {
			sb.WriteString("; ")
		}
		c03node(sb, ch)
	}
	sb.WriteString("])")
}

func c03tok(t parser.LexToken) string {
	flags := 0
	if t.Identifier {
		flags |= 1
	}
	if t.AllowEscapes {
		flags |= 2
	}
	return fmt.Sprintf("TK %d %s %d %d", t.ID, c03b(t.Val), flags, t.Lline)
}
func c03info(toks []parser.LexToken, i *int) string {
	if *i >= len(toks) {
		*i++
		return "(TI [] 0 0)"
	}
	t := toks[*i]
	*i++
	flags := 0
	if t.Identifier {
		flags |= 1
	}
	if t.AllowEscapes {
		flags |= 2
	}
	return fmt.Sprintf("(TI %s %d %d)", c03b(t.Val), flags, t.Lline)
}

// the writing as a Coq pexpr, token information taken from the real tokens in order
func c03writingTerm(w *c03w, toks []parser.LexToken, i *int) string {
	switch w.K {
	case "atom":
		return fmt.Sprintf("(PAtom %s %s)", w.Op, c03info(toks, i))
	case "paren":
		l := c03info(toks, i)
		in := c03writingTerm(w.A, toks, i)
		r := c03info(toks, i)
		return fmt.Sprintf("(PParen %s %s %s)", l, r, in)
	case "pre":
		o := c03info(toks, i)
		return fmt.Sprintf("(PPre %s %s %s)", w.Op, o, c03writingTerm(w.A, toks, i))
	}
	a := c03writingTerm(w.A, toks, i)
	o := c03info(toks, i)
	b := c03writingTerm(w.B, toks, i)
	return fmt.Sprintf("(PBin %s %s %s %s)", w.Op, o, a, b)
}

func c03findPath(n, target *parser.ASTNode, path []int) ([]int, bool) {
	if n == target {
		return path, true
	}
	for i, ch := range n.Children {
		if p, ok := c03findPath(ch, target, append(append([]int{}, path...), i)); ok {
			return p, true
		}
	}
	return nil, false
}

// regexp oracle: for every `like` node whose operands evaluate, (pattern, subject) -> match
func c03rxTable(n *parser.ASTNode, vs parser.Scope, erp *interpreter.ECALRuntimeProvider, seen map[string]bool, out *[]string) {
	if n == nil {
		return
	}
	for _, ch := range n.Children {
		c03rxTable(ch, vs, erp, seen, out)
	}
	if n.Name == parser.NodeLIKE && len(n.Children) == 2 {
		r0 := guarded(2*time.Second, func() (interface{}, error) {
			return n.Children[0].Runtime.Eval(vs, make(map[string]interface{}), erp.NewThreadID())
		})
		r1 := guarded(2*time.Second, func() (interface{}, error) {
			return n.Children[1].Runtime.Eval(vs, make(map[string]interface{}), erp.NewThreadID())
		})
		if r0.Err != nil || r1.Err != nil || r0.Panicked || r1.Panicked || r0.TimedOut || r1.TimedOut {
			return
		}
		subj, pat := fmt.Sprint(r0.Val), fmt.Sprint(r1.Val)
		key := pat + "\x00" + subj
		if seen[key] {
			return
		}
		seen[key] = true
		res := "None"
		if re, err := regexp.Compile(pat); err == nil {
			res = "(Some " + CoqBool(re.MatchString(subj)) + ")"
		}
		*out = append(*out, fmt.Sprintf("(%s, %s, %s)", c03b(pat), c03b(subj), res))
	}
}

// c03obsTerm renders the outcome of one evaluation of ast as a Run/RunC03.obs term.
func c03obsTerm(c *Ctx, ast *parser.ASTNode, er callResult) string {
	switch {
	case er.TimedOut:
		c.Dist["not_evaluated_timeout"]++
		return "ObsNone"
	case er.Panicked:
		c.Dist["eval_panic"]++
		return "ObsPanic"
	case er.Err != nil:
		cls := 3
		detail := ""
		var path []int
		if re, ok := er.Err.(*util.RuntimeError); ok {
			switch re.Type {
			case util.ErrNotANumber:
				cls = 0
			case util.ErrNotABoolean:
				cls = 1
			case util.ErrNotAList:
				cls = 2
			}
			detail = re.Detail
			if p, ok := c03findPath(ast, re.Node, nil); ok {
				path = p
			} else {
				path = []int{999}
			}
		}
		ps := []string{}
		for _, p := range path {
			ps = append(ps, fmt.Sprintf("%d%%nat", p))
		}
		c.Dist[fmt.Sprintf("eval_error_class_%d", cls)]++
		return fmt.Sprintf("(ObsErr %d %s %s)", cls, c03b(detail), CoqList(ps))
	}
	c.Dist["eval_value"]++
	return "(ObsVal " + c03coqValue(er.Val) + ")"
}

func c03one(c *Ctx, d c03case) {
	src := d.Src
	lr := guarded(3*time.Second, func() (interface{}, error) { return parser.LexToList("c03", src), nil })
	if lr.Panicked || lr.TimedOut {
		c.Dist["skipped_lexer_did_not_return"]++
		return
	}
	toks := lr.Val.([]parser.LexToken)
	tokTerms := []string{}
	for _, t := range toks {
		tokTerms = append(tokTerms, c03tok(t))
	}

	erp := interpreter.NewECALRuntimeProvider("c03", nil, nil)
	pr := guarded(3*time.Second, func() (interface{}, error) { return parser.ParseWithRuntime("c03", src, erp) })
	if pr.Panicked || pr.TimedOut {
		c.Dist["skipped_parser_did_not_return"]++ // totality of the parser is property C07
		return
	}
	id := c.NewID()
	treeTerm := "(PError 1)"
	obs := "ObsNone"
	rx := []string{}
	var ast *parser.ASTNode
	if pr.Err == nil {
		ast = pr.Val.(*parser.ASTNode)
		var nb strings.Builder
		c03node(&nb, ast)
		treeTerm = "(PTree " + nb.String() + ")"
	} else {
		c.Dist["parse_error"]++
	}
	if ast != nil && !d.NoEval {
		vs := c03scope()
		var verr error
		vr := guarded(3*time.Second, func() (interface{}, error) { return nil, ast.Runtime.Validate() })
		verr = vr.Err
		if vr.Panicked || vr.TimedOut || verr != nil {
			c.Dist["not_evaluated_validate"]++
		} else {
			c03rxTable(ast, c03scope(), erp, map[string]bool{}, &rx)
			er := guarded(3*time.Second, func() (interface{}, error) {
				return ast.Runtime.Eval(vs, make(map[string]interface{}), erp.NewThreadID())
			})
			obs = c03obsTerm(c, ast, er)
		}
	}
	writing := "None"
	if d.Writing != nil {
		i := 0
		writing = "(Some " + c03writingTerm(d.Writing, toks, &i) + ")"
		c.Dist["with_writing"]++
	}
	term := fmt.Sprintf("mkCase %d %s %s %s ENV %s %s", id, CoqList(tokTerms), treeTerm, writing, CoqList(rx), obs)
	c.AddCase(id, term, d, src, len(toks) > 3)
}

// ---- generators -------------------------------------------------------------------

var c03corpus = []string{
	// witnesses of the repaired defect first: `like` dropped operand / pattern errors
	"\"a\" like \"b\" * 1", "\"a\" like \"(\"", "(1 + sa) like \"a\"", "sa like (not 1)", "1 + (\"a\" like \"(\")",
	// second operand of and/or/in of the wrong kind (detail names it, node is the first operand's)
	"true and 5", "bf or \"a\"", "1 in 5", "false and (1 + 2)", "bt and sa",
	// precedence / associativity
	"not n1 == n7 and bt", "not bt and bf", "not bt or bt", "not not bt", "1 + 2 * 3", "2 * 3 + 1",
	"10 - 2 - 3", "10 - (2 - 3)", "2 / (3 * 4)", "2 / 3 * 4", "-2 * 3", "- - 2", "- -2", "-(2 + 3)", "2 - -3",
	"1 + 2 == 3 and 2 < 3 or false", "1 < 2 == true", "bt == 1 < 2", "((1 + 2)) * 3", "(1)", "1 +\n 2\n * 3",
	"x := 1 + 2 * 3", "x := bt and bf or bt", "1 + not bt", "1 + (not bt)", "not 1 + 2", "-not bt",
	// arithmetic
	"-7 // 2", "7 // -2", "7 // 2", "7.5 // 2", "7 % -2", "-7 % 2", "7.5 % 2", "-7.9 % 2.9", "1 // 0", "0 / 0", "1 / 0", "-1 / 0",
	"0 // 0", "2.5 * 2.5", "1 / 3", "1e+2 + 1", "0.5 - 1", "10 % 3", "n7 % nm", "nf // nm", "-0 // 1", "0 * -1",
	// comparison
	"\"a\" < \"b\"", "\"b\" < \"a\"", "\"a\" <= \"a\"", "\"ab\" > \"a\"", "1 < \"a\"", "\"10\" < 9", "2.5 >= \"2.5\"", "null < 1",
	"true > false", "l12 < 3", "null == null", "1 == \"1\"", "1 == 1", "nu != undef", "bt != 1", "0 == -0", "0 / 0 == 0 / 0",
	// strings, lists
	"\"a\" like \"a.*\"", "\"ba\" like \"^a\"", "7 like 7", "\"ab\" hasprefix \"a\"", "\"ab\" hassuffix \"b\"",
	"2.5 hasprefix 2", "null hasprefix \"<\"", "1 in l12", "nf notin l12", "\"a\" in ls", "null in ls", "2.5 in ls", "true notin ls",
	// wrong kinds
	"not 1", "-\"a\"", "+true", "n1 + sa", "sa + n1", "sa * sb", "null - 1", "1 and true", "true or null", "l12 + 1", "-l12",
	// parse errors
	"1 + (2", "1 +", "1 2", "n1 not bt", ")", "1 + * 2", "(1 + 2))", "",
}

func runC03(c *Ctx) error {
	c.Rule = "expression source texts: fixed corpus first; exhaustively all ordered pairs of the 20 binary operators in both groupings (minimal and redundant parentheses) and, for the 19 value operators, with each of the 3 prefix operators at a random position; every binary operator x operand-kind pair (5x5 kinds) and prefix operator x kind; re-evaluation stream: for each of the 19 binary and 3 prefix operators the expression over the variables va, vb is parsed and validated ONCE and the same runtime tree is evaluated 4 times under different bindings from the value pool (the last one returning to the first; for `like` the pattern variable changes), plus the same expression as the body of a function called 4 times and as the body of a loop over 4 bindings; seeded random trees up to depth 6 printed with minimal + random redundant parentheses and random space/tab/newline layout; operands from the pool {0,1,2.5,7,3,10,0.5,1e+2,\"a\",\"b\",'ab',\"a.*\",\"\",raw string,true,false,null, variables bound to 0,1,-1,2.5,7,\"a\",\"b\",true,false,null,[1,2],[\"a\",true,null,2.5], an unbound variable}; non-trivial = more than 2 tokens; distinct by source text"
	c.BeginCases("From Coq Require Import List ZArith.\nFrom Ecal Require Import Common.Bytes Common.Hex Common.Ast Model.Pratt Model.Expr Spec.ExprGrammarSpec Run.RunC03.\nImport ListNotations.\nDefinition ENV : list (bytes * ovalue) := "+c03envTerm()+".", "case", 300)

	if c.Replay != "" {
		var d c03case
		if err := c.LoadReplay(&d); err != nil {
			return err
		}
		var ic c03icase
		if err := c.LoadReplay(&ic); err == nil && ic.Stream == "interp" {
			c03interpStream(c, &ic) // three-way tie with the interpreter model (c03_interp.go)
			return nil
		}
		if d.Re != nil {
			c03reeval(c, *d.Re)
		} else {
			c03one(c, d)
		}
		return nil
	}
	emit := func(w *c03w, wild bool) {
		var texts []string
		w.texts(&texts)
		c03one(c, c03case{Src: c03layout(c, texts, wild), Writing: w, NoEval: w.hasAssign()})
	}

	for _, s := range c03corpus {
		c03one(c, c03case{Src: s, NoEval: strings.Contains(s, ":=")})
	}
	// boundary table of the comparison operators: equal / smaller / greater, numbers and strings
	ncmp := 0
	for _, op := range []string{">=", "<=", ">", "<", "==", "!="} {
		for _, pr := range [][2]string{{"1", "1"}, {"1", "2"}, {"2", "1"}, {"-1", "0"}, {"2.5", "2.5"}, {"10", "9"},
			{"\"a\"", "\"a\""}, {"\"a\"", "\"b\""}, {"\"b\"", "\"a\""}, {"\"a\"", "\"ab\""}, {"\"10\"", "\"9\""}, {"\"\"", "\"\""},
			{"true", "true"}, {"true", "false"}, {"null", "null"}} {
			c03one(c, c03case{Src: pr[0] + " " + op + " " + pr[1]})
			ncmp++
		}
	}
	c.Extra["corpus"] = len(c03corpus) + ncmp

	// exhaustive operator pairs, both groupings
	n := 0
	for _, o1 := range c03bin {
		for _, o2 := range c03bin {
			if c.Enough() {
				break
			}
			a, b, cc := c03operand(c, o1.L, 0.8), c03operand(c, o1.R, 0.8), c03operand(c, o2.R, 0.8)
			left := c03mkBin(o2.Key, c03mkBin(o1.Key, a, b), cc)
			right := c03mkBin(o1.Key, a, c03mkBin(o2.Key, b, cc))
			emit(left, false)
			emit(right, false)
			emit(c03redundant(c, left, 0.25), true)
			emit(c03redundant(c, right, 0.25), true)
			n += 4
		}
	}
	c.Extra["pair_cases"] = n
	// triples binary x binary x prefix
	n = 0
	reps := c.Pick(1, 4)
	for _, o1 := range c03bin[:19] {
		for _, o2 := range c03bin[:19] {
			for _, p := range c03pre {
				for r := 0; r < reps && !c.Enough(); r++ {
					a, b, cc := c03operand(c, o1.L, 0.8), c03operand(c, o1.R, 0.8), c03operand(c, o2.R, 0.8)
					var w *c03w
					switch c.Rng.Intn(6) {
					case 0:
						w = c03mkBin(o2.Key, c03mkBin(o1.Key, c03mkPre(p.Key, a), b), cc)
					case 1:
						w = c03mkBin(o2.Key, c03mkBin(o1.Key, a, c03mkPre(p.Key, b)), cc)
					case 2:
						w = c03mkBin(o2.Key, c03mkBin(o1.Key, a, b), c03mkPre(p.Key, cc))
					case 3:
						w = c03mkBin(o2.Key, c03mkPre(p.Key, c03mkBin(o1.Key, a, b)), cc)
					case 4:
						w = c03mkPre(p.Key, c03mkBin(o1.Key, a, c03mkBin(o2.Key, b, cc)))
					default:
						w = c03mkBin(o1.Key, a, c03mkPre(p.Key, c03mkBin(o2.Key, b, cc)))
					}
					if c.Rng.Intn(3) == 0 {
						w = c03redundant(c, w, 0.2)
					}
					emit(w, c.Rng.Intn(2) == 0)
					n++
				}
			}
		}
	}
	c.Extra["triple_cases"] = n
	// every operator x operand kinds
	n = 0
	for _, o := range c03bin[:19] {
		for _, k1 := range c03kinds {
			for _, k2 := range c03kinds {
				emit(c03mkBin(o.Key, c03operand(c, k1, 1), c03operand(c, k2, 1)), false)
				n++
			}
		}
	}
	for _, p := range c03pre {
		for _, k := range c03kinds {
			for r := 0; r < 2; r++ {
				emit(c03mkPre(p.Key, c03operand(c, k, 1)), false)
				n++
			}
		}
	}
	c.Extra["kind_cases"] = n
	// random deeper trees
	n = 0
	for i := 0; i < c.Pick(450, 25000) && !c.Enough(); i++ {
		want := []string{"num", "bool", "bool", "any"}[c.Rng.Intn(4)]
		w := c03tree(c, 2+c.Rng.Intn(5), want, 0.9)
		if c.Rng.Intn(2) == 0 {
			w = c03redundant(c, w, 0.15)
		}
		if c.Rng.Intn(12) == 0 {
			w = c03mkBin("OAssign", c03atom("AIdent", "x"), w)
		}
		emit(w, true)
		n++
	}
	c.Extra["random_cases"] = n
	c.Extra["reevaluation_cases"] = c03reevalStreams(c)
	c.Exhaustive = false
	c03interpStream(c, nil) // three-way tie with the interpreter model (c03_interp.go)
	return nil
}
