//go:build c01

package main

// C01 — exactly the matching, in-scope, unsuppressed rules fire once per event.
// Implementation side: a generated rule set and a history of events (each with the scope
// of its root monitor) are run through the public engine API:
//   engine.NewRuleIndex / AddRule / Match / IsTriggering          (index level)
//   engine.NewProcessor(w) / AddRule / Start / AddEventAndWait / Finish, w = 1, 2, 8
// Observables: Match name multiset, IsTriggering, AddEvent monitor nil / non-nil, and the
// rule actions that ran per event (counted after Finish, attributed by event identity).
// Everything else (order of Match, monitors, timing, error texts) is ignored.

import (
	"bufio"
	"context"
	"encoding/json"
	"fmt"
	"os"
	"os/exec"
	"path/filepath"
	"reflect"
	"regexp"
	"sort"
	"strings"
	"sync"
	"time"

	"github.com/krotik/ecal/engine"
	"github.com/krotik/ecal/interpreter"
)

func init() { register("C01", runC01) }

// ---- case description (also the replay format) --------------------------------------

type c01Val struct {
	K string `json:"k"` // null bool num str list map regex
	N int    `json:"n"`
}

type c01KV struct {
	Key int    `json:"key"` // state key "k<Key>"
	Val c01Val `json:"val"`
}

type c01Rule struct {
	Name     int      `json:"name"`
	Kinds    []string `json:"kinds"`
	Scopes   []string `json:"scopes"`
	HasState bool     `json:"has_state"`
	State    []c01KV  `json:"state"`
	Prio     int      `json:"prio"`
	Suppress []int    `json:"suppress"`
}

type c01Def struct {
	Path  string `json:"path"`
	Allow bool   `json:"allow"`
}

type c01Event struct {
	Name  int      `json:"name"`
	Kind  []string `json:"kind"`
	State []c01KV  `json:"state"`
	Defs  []c01Def `json:"defs"`
}

type c01Case struct {
	Stream string     `json:"stream"`
	Rules  []c01Rule  `json:"rules"`
	Hist   []c01Event `json:"hist"`
}

var c01Strs = []string{"", "x", "5", "true", "ab", "<nil>"}
var c01Regexes = []string{"^5$", "x", "^(true|1)$", ".*", "^<nil>$", "^\\[.*\\]$"}
var c01CompiledRegexes = func() []*regexp.Regexp {
	var res []*regexp.Regexp
	for _, s := range c01Regexes {
		res = append(res, regexp.MustCompile(s))
	}
	return res
}()

// segment ids: "*" is 0 (WILD of the Spec)
var c01SegIDs = map[string]int{"*": 0, "a": 1, "b": 2, "c": 3, "": 4, "x": 5, "y": 6, "z": 7, "w": 8}

func c01Seg(s string) int {
	if id, ok := c01SegIDs[s]; ok {
		return id
	}
	id := len(c01SegIDs) + 100
	c01SegIDs[s] = id
	return id
}

func c01GoVal(v c01Val) interface{} {
	switch v.K {
	case "null":
		return nil
	case "bool":
		return v.N != 0
	case "num":
		return float64(v.N)
	case "str":
		return c01Strs[v.N]
	case "list":
		return []interface{}{float64(v.N)}
	case "map":
		return map[interface{}]interface{}{"m": float64(v.N)}
	case "regex":
		return c01CompiledRegexes[v.N]
	}
	panic("bad value kind " + v.K)
}

func c01CoqVal(v c01Val) string {
	switch v.K {
	case "null":
		return "VNull"
	case "bool":
		return "VBool " + CoqBool(v.N != 0)
	case "num":
		if v.N < 0 {
			return fmt.Sprintf("vn (%d)", v.N)
		}
		return fmt.Sprintf("vn %d", v.N)
	case "str":
		return fmt.Sprintf("vs %d", v.N)
	case "list":
		return fmt.Sprintf("vl %d", v.N)
	case "map":
		return fmt.Sprintf("vm %d", v.N)
	}
	panic("bad value kind " + v.K)
}

func c01CoqReq(v c01Val) string {
	if v.K == "regex" {
		return fmt.Sprintf("qx %d", v.N)
	}
	return "qv (" + c01CoqVal(v) + ")"
}

func c01CoqPathSegs(segs []string) string {
	var items []string
	for _, s := range segs {
		items = append(items, fmt.Sprint(c01Seg(s)))
	}
	return "[" + strings.Join(items, ";") + "]"
}

// a dotted string as Go's strings.Split sees it
func c01CoqSplit(s string) string { return c01CoqPathSegs(strings.Split(s, ".")) }

func c01CoqInts(l []int) string {
	var items []string
	for _, n := range l {
		items = append(items, fmt.Sprint(n))
	}
	return "[" + strings.Join(items, ";") + "]"
}

func c01CoqRule(r c01Rule) string {
	var kinds, scopes, st []string
	for _, k := range r.Kinds {
		kinds = append(kinds, c01CoqSplit(k))
	}
	for _, s := range r.Scopes {
		scopes = append(scopes, c01CoqSplit(s))
	}
	state := "None"
	if r.HasState {
		for _, kv := range r.State {
			st = append(st, fmt.Sprintf("(%d,%s)", kv.Key, c01CoqReq(kv.Val)))
		}
		state = "(Some [" + strings.Join(st, ";") + "])"
	}
	return fmt.Sprintf("R %d [%s] [%s] %s %s %s", r.Name, strings.Join(kinds, ";"), strings.Join(scopes, ";"),
		state, CoqZ(int64(r.Prio)), c01CoqInts(r.Suppress))
}

func c01CoqEvent(e c01Event) string {
	var st, defs []string
	for _, kv := range e.State {
		st = append(st, fmt.Sprintf("(%d,%s)", kv.Key, c01CoqVal(kv.Val)))
	}
	for _, d := range e.Defs {
		p := "[]" // RuleScope.Add("") sets the root flag
		if d.Path != "" {
			p = c01CoqSplit(d.Path)
		}
		defs = append(defs, fmt.Sprintf("(%s,%s)", p, CoqBool(d.Allow)))
	}
	return fmt.Sprintf("([%s], E %d %s [%s])", strings.Join(defs, ";"), e.Name, c01CoqPathSegs(e.Kind), strings.Join(st, ";"))
}

// ---- running the implementation ------------------------------------------------------

type c01Obs struct {
	Match [][]int
	Trig  []bool
	Added [][]bool
	Fired [][][]int
}

type c01Recorder struct {
	mu    sync.Mutex
	index map[*engine.Event]int
	fired [][]int
}

func c01GoRule(r c01Rule, rec *c01Recorder) *engine.Rule {
	var sm map[string]interface{}
	if r.HasState {
		sm = make(map[string]interface{})
		for _, kv := range r.State {
			sm[fmt.Sprintf("k%d", kv.Key)] = c01GoVal(kv.Val)
		}
	}
	scopes := append([]string{}, r.Scopes...)
	var sup []string
	for _, s := range r.Suppress {
		sup = append(sup, fmt.Sprintf("r%d", s))
	}
	name := r.Name
	return &engine.Rule{
		Name: fmt.Sprintf("r%d", r.Name), KindMatch: append([]string{}, r.Kinds...), ScopeMatch: scopes,
		StateMatch: sm, Priority: r.Prio, SuppressionList: sup,
		Action: func(p engine.Processor, m engine.Monitor, e *engine.Event, tid uint64) error {
			if rec != nil {
				rec.mu.Lock()
				if i, ok := rec.index[e]; ok {
					rec.fired[i] = append(rec.fired[i], name)
				}
				rec.mu.Unlock()
			}
			return nil
		},
	}
}

func c01GoEvent(e c01Event) *engine.Event {
	st := make(map[interface{}]interface{})
	for _, kv := range e.State {
		st[fmt.Sprintf("k%d", kv.Key)] = c01GoVal(kv.Val)
	}
	return engine.NewEvent(fmt.Sprintf("e%d", e.Name), append([]string{}, e.Kind...), st)
}

func c01RuleID(name string) int {
	var n int
	fmt.Sscanf(name, "r%d", &n)
	return n
}

// c01Observe runs the case; ok = false when a violation was recorded that makes the case
// not comparable (panic, time-out, error).
func c01Observe(c *Ctx, d c01Case) (c01Obs, bool) {
	var obs c01Obs
	// index level
	idx := engine.NewRuleIndex()
	for _, r := range d.Rules {
		gr := c01GoRule(r, nil)
		res := guarded(5*time.Second, func() (interface{}, error) { return nil, idx.AddRule(gr) })
		switch {
		case res.TimedOut:
			c.Violate("nontermination", "RuleIndex.AddRule did not return", d)
			return obs, false
		case res.Panicked:
			c.Violate("panic", "RuleIndex.AddRule panicked: "+c01Class(res.PanicMsg), d)
			return obs, false
		case res.Err != nil:
			c.Violate("addrule-error", "RuleIndex.AddRule rejected a rule with a fresh name and a kind match", d)
			return obs, false
		}
	}
	for _, e := range d.Hist {
		ge := c01GoEvent(e)
		res := guarded(3*time.Second, func() (interface{}, error) { return idx.Match(ge), nil })
		switch {
		case res.TimedOut:
			c.Violate("nontermination", "RuleIndex.Match did not return within 3s", d)
			return obs, false
		case res.Panicked:
			c.Violate("panic", "RuleIndex.Match panicked: "+c01Class(res.PanicMsg), d)
			return obs, false
		}
		var names []int
		for _, r := range res.Val.([]*engine.Rule) {
			names = append(names, c01RuleID(r.Name))
		}
		sort.Ints(names)
		obs.Match = append(obs.Match, names)
		res = guarded(3*time.Second, func() (interface{}, error) { return idx.IsTriggering(ge), nil })
		if res.TimedOut || res.Panicked {
			c.Violate("panic", "RuleIndex.IsTriggering did not return normally", d)
			return obs, false
		}
		obs.Trig = append(obs.Trig, res.Val.(bool))
	}
	// processor level.  A run that does not come back is retried with a fresh processor:
	// the index-level Match above already returned for every event of the history, and the
	// rest of ProcessEvent has no loop, so a hang here is a liveness matter of the thread
	// pool / monitors (properties C02, C09), not of rule selection.
	for _, w := range []int{1, 2, 8} {
		for attempt := 0; ; attempt++ {
			added, fired, status := c01RunProc(c, d, w)
			if status == "fail" {
				return obs, false
			}
			if status == "ok" {
				obs.Added = append(obs.Added, added)
				obs.Fired = append(obs.Fired, fired)
				break
			}
			c.Dist["processor_run_hung_and_retried"]++
			if attempt == 3 {
				c.Dist["worker_config_not_comparable_liveness"]++
				break
			}
		}
	}
	return obs, true
}

// c01RunProc: one processor with w workers, the whole history; status ok / hang / fail
func c01RunProc(c *Ctx, d c01Case, w int) ([]bool, [][]int, string) {
	rec := &c01Recorder{index: map[*engine.Event]int{}, fired: make([][]int, len(d.Hist))}
	proc := engine.NewProcessor(w)
	for _, r := range d.Rules {
		if err := proc.AddRule(c01GoRule(r, rec)); err != nil {
			c.Violate("addrule-error", "Processor.AddRule rejected a rule with a fresh name and a kind match", d)
			return nil, nil, "fail"
		}
	}
	proc.Start()
	var added []bool
	for i, e := range d.Hist {
		ge := c01GoEvent(e)
		rec.mu.Lock()
		rec.index[ge] = i
		rec.mu.Unlock()
		defs := map[string]bool{}
		for _, df := range e.Defs {
			defs[df.Path] = df.Allow
		}
		rm := proc.NewRootMonitor(nil, engine.NewRuleScope(defs))
		res := guarded(2*time.Second, func() (interface{}, error) {
			m, err := proc.AddEventAndWait(ge, rm)
			return m != nil, err
		})
		switch {
		case res.TimedOut:
			return nil, nil, "hang"
		case res.Panicked:
			c.Violate("panic", "AddEventAndWait panicked: "+c01Class(res.PanicMsg), d)
			return nil, nil, "fail"
		case res.Err != nil:
			c.Violate("addevent-error", "AddEventAndWait returned an error on a running processor", d)
			return nil, nil, "fail"
		}
		added = append(added, res.Val.(bool))
	}
	res := guarded(3*time.Second, func() (interface{}, error) { proc.Finish(); return nil, nil })
	if res.TimedOut {
		return nil, nil, "hang"
	}
	if res.Panicked {
		c.Violate("panic", "Processor.Finish panicked: "+c01Class(res.PanicMsg), d)
		return nil, nil, "fail"
	}
	rec.mu.Lock()
	fired := make([][]int, len(d.Hist))
	for i := range rec.fired {
		fired[i] = append([]int{}, rec.fired[i]...)
		sort.Ints(fired[i])
	}
	rec.mu.Unlock()
	return added, fired, "ok"
}

// c01Class reduces a panic message to its class (no addresses, no values)
func c01Class(msg string) string {
	switch {
	case strings.Contains(msg, "unhashable"):
		return "hash of unhashable type"
	case strings.Contains(msg, "index out of range"):
		return "index out of range"
	case strings.Contains(msg, "nil pointer"):
		return "nil pointer dereference"
	}
	if len(msg) > 60 {
		msg = msg[:60]
	}
	return msg
}

// regex table of the case: every regex id used by a rule x every value of an event
func c01RxTable(d c01Case) string {
	ids := map[int]bool{}
	for _, r := range d.Rules {
		for _, kv := range r.State {
			if kv.Val.K == "regex" {
				ids[kv.Val.N] = true
			}
		}
	}
	if len(ids) == 0 {
		return "[]"
	}
	vals := map[c01Val]bool{}
	for _, e := range d.Hist {
		for _, kv := range e.State {
			vals[kv.Val] = true
		}
	}
	var idl []int
	for id := range ids {
		idl = append(idl, id)
	}
	sort.Ints(idl)
	var vl []c01Val
	for v := range vals {
		vl = append(vl, v)
	}
	sort.Slice(vl, func(i, j int) bool {
		if vl[i].K != vl[j].K {
			return vl[i].K < vl[j].K
		}
		return vl[i].N < vl[j].N
	})
	var items []string
	for _, id := range idl {
		for _, v := range vl {
			// the engine matches a regex against fmt.Sprint(value)
			if c01CompiledRegexes[id].MatchString(fmt.Sprint(c01GoVal(v))) {
				items = append(items, fmt.Sprintf("(%d,%s,true)", id, c01CoqVal(v)))
			}
		}
	}
	return "[" + strings.Join(items, ";") + "]"
}

func c01IntLists(ls [][]int) string {
	var items []string
	for _, l := range ls {
		items = append(items, c01CoqInts(l))
	}
	return "[" + strings.Join(items, ";") + "]"
}

func c01Bools(bs []bool) string {
	var items []string
	for _, b := range bs {
		items = append(items, CoqBool(b))
	}
	return "[" + strings.Join(items, ";") + "]"
}

func c01SelfSuppress(d c01Case) bool {
	for _, r := range d.Rules {
		for _, s := range r.Suppress {
			if s == r.Name {
				return true
			}
		}
	}
	return false
}

// c01One runs one case and emits it; histTerm, when non-empty, names a Coq definition of the
// header that equals the history (shared universes of the exhaustive streams).
func c01One(c *Ctx, d c01Case, histTerm string) {
	obs, ok := c01Observe(c, d)
	b, _ := json.Marshal(d)
	key := string(b)
	c.Dist["stream_"+d.Stream]++
	if !ok {
		c.Count(key, true, d)
		return
	}
	nontrivial := false
	for i := range d.Hist {
		if len(obs.Match[i]) > 0 {
			nontrivial = true
			c.Dist["events_with_a_match"]++
		}
		if len(obs.Fired) > 0 && len(obs.Fired[0][i]) > 0 {
			c.Dist["events_firing"]++
		}
		if len(obs.Added) > 0 && !obs.Added[0][i] {
			c.Dist["events_skipped"]++
		}
	}
	c.Dist["events"] += len(d.Hist)
	c.Dist["rules"] += len(d.Rules)
	if c01SelfSuppress(d) {
		// outside the domain of the property ("another such rule"): informational only
		for i := range d.Hist {
			for _, r := range d.Rules {
				if c01SelfSuppress(c01Case{Rules: []c01Rule{r}}) {
					hit := false
					for _, n := range obs.Match[i] {
						hit = hit || n == r.Name
					}
					fired := false
					if len(obs.Fired) > 0 {
						for _, n := range obs.Fired[0][i] {
							fired = fired || n == r.Name
						}
					}
					if hit && fired {
						c.Dist["self_suppressing_rule_matched_and_fired"]++
					} else if hit {
						c.Dist["self_suppressing_rule_matched_not_fired"]++
					}
				}
			}
		}
		c.Count(key, nontrivial, d)
		return
	}
	agree := true
	for w := 1; w < len(obs.Added); w++ {
		if fmt.Sprint(obs.Added[w]) != fmt.Sprint(obs.Added[0]) || fmt.Sprint(obs.Fired[w]) != fmt.Sprint(obs.Fired[0]) {
			agree = false
		}
	}
	added, fired := obs.Added, obs.Fired
	if agree && len(added) == 3 {
		added, fired = added[:1], fired[:1]
		c.Dist["worker_counts_agree"]++
	} else {
		c.Dist["worker_counts_differ"]++
	}
	var rules, hist, al, fl []string
	for _, r := range d.Rules {
		rules = append(rules, c01CoqRule(r))
	}
	if histTerm == "" {
		for _, e := range d.Hist {
			hist = append(hist, c01CoqEvent(e))
		}
		histTerm = "[" + strings.Join(hist, ";") + "]"
	}
	for i := range added {
		al = append(al, c01Bools(added[i]))
		fl = append(fl, c01IntLists(fired[i]))
	}
	id := c.NewID()
	term := fmt.Sprintf("mkCase %d [%s] %s %s %s %s [%s] [%s] false", id, strings.Join(rules, ";"), c01RxTable(d),
		histTerm, c01IntLists(obs.Match), c01Bools(obs.Trig), strings.Join(al, ";"), strings.Join(fl, ";"))
	c.AddCase(id, term, d, key, nontrivial)
}

// ---- sink declarations -> engine.Rule (interpreter/rt_sink.go createRule) ---------------

func c01EcalVal(v c01Val) string {
	switch v.K {
	case "null":
		return "NULL"
	case "bool":
		if v.N != 0 {
			return "true"
		}
		return "false"
	case "num":
		return fmt.Sprint(v.N)
	case "str":
		return fmt.Sprintf("%q", c01Strs[v.N])
	case "list":
		return fmt.Sprintf("[%d]", v.N)
	case "map":
		return fmt.Sprintf("{\"m\" : %d}", v.N)
	}
	return ""
}

func c01StrList(l []string) string {
	var items []string
	for _, x := range l {
		items = append(items, fmt.Sprintf("%q", x))
	}
	return "[" + strings.Join(items, ", ") + "]"
}

// c01Sinks declares the rules of the case as ECAL sinks and checks that the rules the
// interpreter registers carry exactly the declared attributes, so that what is established
// for engine rules holds for sinks.  Rules with a regex requirement cannot be written in ECAL.
func c01Sinks(c *Ctx, d c01Case) {
	var sb strings.Builder
	for _, r := range d.Rules {
		for _, kv := range r.State {
			if kv.Val.K == "regex" {
				return
			}
		}
		if r.Prio < 0 {
			return
		}
		fmt.Fprintf(&sb, "sink r%d\n  kindmatch %s,\n", r.Name, c01StrList(r.Kinds))
		if len(r.Scopes) > 0 {
			fmt.Fprintf(&sb, "  scopematch %s,\n", c01StrList(r.Scopes))
		}
		if r.HasState {
			var items []string
			for _, kv := range r.State {
				items = append(items, fmt.Sprintf("\"k%d\" : %s", kv.Key, c01EcalVal(kv.Val)))
			}
			fmt.Fprintf(&sb, "  statematch {%s},\n", strings.Join(items, ", "))
		}
		var sup []string
		for _, x := range r.Suppress {
			sup = append(sup, fmt.Sprintf("r%d", x))
		}
		if len(sup) > 0 {
			fmt.Fprintf(&sb, "  suppresses %s,\n", c01StrList(sup))
		}
		fmt.Fprintf(&sb, "  priority %d\n  {\n  }\n", r.Prio)
	}
	erp := interpreter.NewECALRuntimeProvider("c01", nil, nil)
	res := guarded(5*time.Second, func() (interface{}, error) { return evalProgram("c01", sb.String(), nil, erp) })
	c.Dist["sink_programs"]++
	if res.TimedOut || res.Panicked || res.Err != nil {
		c.Violate("sink-attributes", "declaring the rules of the case as sinks failed (error, panic or time-out)", d)
		return
	}
	got := erp.Processor.Rules()
	ok := len(got) == len(d.Rules)
	for _, r := range d.Rules {
		want := c01GoRule(r, nil)
		g := got[want.Name]
		if g == nil {
			ok = false
			break
		}
		wantState, gotState := want.StateMatch, g.StateMatch
		if len(wantState) == 0 && len(gotState) == 0 {
			ok = ok && (wantState == nil) == (gotState == nil)
		} else {
			ok = ok && reflect.DeepEqual(wantState, gotState)
		}
		ok = ok && fmt.Sprint(want.KindMatch) == fmt.Sprint(g.KindMatch) && len(want.KindMatch) == len(g.KindMatch) &&
			fmt.Sprint(want.ScopeMatch) == fmt.Sprint(g.ScopeMatch) && g.ScopeMatch != nil &&
			fmt.Sprint(want.SuppressionList) == fmt.Sprint(g.SuppressionList) && want.Priority == g.Priority
	}
	if !ok {
		c.Violate("sink-attributes", "the rules registered for sink declarations do not carry the declared kindmatch / scopematch / statematch / priority / suppresses", d)
	}
}

// ---- concurrent stream ------------------------------------------------------------------
// Many workers, events of mixed kinds in flight at once.  Runs in a child process (the same
// binary, C01_CONC_CHILD set) so that a Go fatal error of the implementation (concurrent map
// access ...) ends the child only.  Per case:
//   (a) RuleIndex.Match called in tight loops from several goroutines on one shared index,
//       every result compared with the sequential result for the same event
//   (b) processors with 4 / 8 / 16 workers; every event of the history is added `copies`
//       times from 4 goroutines with AddEvent (own root monitor, no waiting), then Finish;
//       per event the distinct observed (monitor returned, actions that ran) variants

type c01Variant struct {
	Added bool  `json:"added"`
	Fired []int `json:"fired"`
	Count int   `json:"count"`
}

type c01MatchDiff struct {
	Event int   `json:"event"`
	Got   []int `json:"got"`
	Want  []int `json:"want"`
}

type c01ConcObs struct {
	Idx        int            `json:"idx"`
	Status     string         `json:"status"` // ok | hang | seqfail
	MatchCalls int            `json:"match_calls"`
	MatchDiffs int            `json:"match_diffs"`
	MatchDiff  *c01MatchDiff  `json:"match_diff,omitempty"`
	Variants   [][]c01Variant `json:"variants"` // per event of the history
	Fired      int            `json:"events_fired"`
	Hangs      int            `json:"hangs"`
}

type c01ConcJob struct {
	Cases     []c01Case `json:"cases"`
	MatchIter int       `json:"match_iter"`
	Copies    int       `json:"copies"`
}

func c01Names(rs []*engine.Rule) []int {
	names := []int{}
	for _, r := range rs {
		names = append(names, c01RuleID(r.Name))
	}
	sort.Ints(names)
	return names
}

func c01ConcOne(d c01Case, idx, matchIter, copies int) c01ConcObs {
	obs := c01ConcObs{Idx: idx, Status: "ok"}
	// (a) shared index
	idxr := engine.NewRuleIndex()
	for _, r := range d.Rules {
		if err := idxr.AddRule(c01GoRule(r, nil)); err != nil {
			obs.Status = "seqfail"
			return obs
		}
	}
	var evs []*engine.Event
	var want []string
	var wantNames [][]int
	for _, e := range d.Hist {
		ge := c01GoEvent(e)
		res := guarded(3*time.Second, func() (interface{}, error) { return c01Names(idxr.Match(ge)), nil })
		if res.TimedOut || res.Panicked {
			obs.Status = "seqfail"
			return obs
		}
		evs = append(evs, ge)
		wantNames = append(wantNames, res.Val.([]int))
		want = append(want, fmt.Sprint(res.Val.([]int)))
	}
	if len(evs) == 0 {
		return obs
	}
	const G = 8
	var mu sync.Mutex
	var wg sync.WaitGroup
	for g := 0; g < G; g++ {
		wg.Add(1)
		go func(g int) {
			defer wg.Done()
			diffs := 0
			var first *c01MatchDiff
			for it := 0; it < matchIter; it++ {
				i := (it*(2*g+1) + g) % len(evs)
				got := c01Names(idxr.Match(evs[i]))
				if fmt.Sprint(got) != want[i] {
					diffs++
					if first == nil {
						first = &c01MatchDiff{i, got, wantNames[i]}
					}
				}
			}
			mu.Lock()
			obs.MatchCalls += matchIter
			obs.MatchDiffs += diffs
			if obs.MatchDiff == nil {
				obs.MatchDiff = first
			}
			mu.Unlock()
		}(g)
	}
	wg.Wait()

	// (b) processors
	type key struct {
		added bool
		fired string
	}
	seen := make([]map[key]*c01Variant, len(d.Hist))
	for i := range seen {
		seen[i] = map[key]*c01Variant{}
	}
	for _, w := range []int{4, 8, 16} {
		for attempt := 0; ; attempt++ {
			n := len(d.Hist) * copies
			rec := &c01Recorder{index: map[*engine.Event]int{}, fired: make([][]int, n)}
			proc := engine.NewProcessor(w)
			for _, r := range d.Rules {
				if err := proc.AddRule(c01GoRule(r, rec)); err != nil {
					obs.Status = "seqfail"
					return obs
				}
			}
			ges := make([]*engine.Event, n)
			scopes := make([]*engine.RuleScope, n)
			for j := 0; j < n; j++ {
				e := d.Hist[j%len(d.Hist)]
				ges[j] = c01GoEvent(e)
				rec.index[ges[j]] = j
				defs := map[string]bool{}
				for _, df := range e.Defs {
					defs[df.Path] = df.Allow
				}
				scopes[j] = engine.NewRuleScope(defs)
			}
			added := make([]bool, n)
			proc.Start()
			res := guarded(20*time.Second, func() (interface{}, error) {
				var wg sync.WaitGroup
				const F = 4
				for f := 0; f < F; f++ {
					wg.Add(1)
					go func(f int) {
						defer wg.Done()
						for j := f; j < n; j += F {
							m, _ := proc.AddEvent(ges[j], proc.NewRootMonitor(nil, scopes[j]))
							added[j] = m != nil
						}
					}(f)
				}
				wg.Wait()
				proc.Finish()
				return nil, nil
			})
			if res.TimedOut || res.Panicked {
				obs.Hangs++
				if attempt == 2 {
					obs.Status = "hang"
					break
				}
				continue
			}
			rec.mu.Lock()
			for j := 0; j < n; j++ {
				f := append([]int{}, rec.fired[j]...)
				sort.Ints(f)
				k := key{added[j], fmt.Sprint(f)}
				if v, ok := seen[j%len(d.Hist)][k]; ok {
					v.Count++
				} else {
					seen[j%len(d.Hist)][k] = &c01Variant{added[j], f, 1}
				}
			}
			rec.mu.Unlock()
			obs.Fired += n
			break
		}
	}
	for i := range seen {
		var vs []c01Variant
		for _, v := range seen[i] {
			vs = append(vs, *v)
		}
		sort.Slice(vs, func(a, b int) bool { return vs[a].Count > vs[b].Count })
		obs.Variants = append(obs.Variants, vs)
	}
	return obs
}

// child: C01_CONC_CHILD = job file, C01_CONC_START = first case, results appended as JSON lines
func c01ConcChild(jobFile string) error {
	b, err := os.ReadFile(jobFile)
	if err != nil {
		return err
	}
	var job c01ConcJob
	if err := json.Unmarshal(b, &job); err != nil {
		return err
	}
	start := 0
	fmt.Sscan(os.Getenv("C01_CONC_START"), &start)
	out, err := os.OpenFile(jobFile+".out", os.O_APPEND|os.O_CREATE|os.O_WRONLY, 0o644)
	if err != nil {
		return err
	}
	defer out.Close()
	for i := start; i < len(job.Cases); i++ {
		o := c01ConcOne(job.Cases[i], i, job.MatchIter, job.Copies)
		line, _ := json.Marshal(o)
		out.Write(append(line, '\n'))
		out.Sync()
	}
	return nil
}

// parent: run the job in child processes, restart after a crashed case
func c01RunConc(c *Ctx, cases []c01Case) {
	if len(cases) == 0 {
		return
	}
	job := c01ConcJob{cases, c.Pick(4000, 20000), c.Pick(50, 200)}
	jobFile := filepath.Join(c.Out, "conc_job.json")
	b, _ := json.Marshal(job)
	os.WriteFile(jobFile, b, 0o644)
	os.Remove(jobFile + ".out")
	results := map[int]c01ConcObs{}
	readResults := func() {
		f, err := os.Open(jobFile + ".out")
		if err != nil {
			return
		}
		defer f.Close()
		sc := bufio.NewScanner(f)
		sc.Buffer(make([]byte, 1<<20), 1<<26)
		for sc.Scan() {
			var o c01ConcObs
			if json.Unmarshal(sc.Bytes(), &o) == nil {
				results[o.Idx] = o
			}
		}
	}
	start := 0
	for start < len(cases) {
		ctx, cancel := context.WithTimeout(context.Background(), time.Duration(c.Pick(300, 1500))*time.Second)
		cmd := exec.CommandContext(ctx, os.Args[0], "C01", "-tier", c.Tier, "-seed", fmt.Sprint(c.Seed), "-out", filepath.Join(c.Out, "conc_child"))
		cmd.Env = append(os.Environ(), "C01_CONC_CHILD="+jobFile, fmt.Sprintf("C01_CONC_START=%d", start))
		outb, err := cmd.CombinedOutput()
		timedOut := ctx.Err() != nil
		cancel()
		readResults()
		done := start
		for {
			if _, ok := results[done]; !ok {
				break
			}
			done++
		}
		if err == nil && done >= len(cases) {
			break
		}
		if done >= len(cases) {
			break
		}
		// the child ended while running case `done`
		msg := string(outb)
		class := "the child process ended abnormally"
		if i := strings.Index(msg, "fatal error:"); i >= 0 {
			class = strings.SplitN(msg[i:], "\n", 2)[0]
		} else if i := strings.Index(msg, "panic:"); i >= 0 {
			class = c01Class(strings.SplitN(msg[i:], "\n", 2)[0])
		}
		if timedOut {
			c.Violate("nontermination", "the concurrent run of the case did not finish", cases[done])
		} else {
			c.Violate("crash-concurrent", "concurrent Match / AddEvent brought the process down: "+class, cases[done])
		}
		start = done + 1
	}
	for i, d := range cases {
		o, ok := results[i]
		if !ok {
			continue
		}
		c.Dist["concurrent_cases"]++
		c.Dist["concurrent_match_calls"] += o.MatchCalls
		c.Dist["concurrent_events_added"] += o.Fired
		c.Dist["concurrent_processor_hangs_retried"] += o.Hangs
		if o.Status != "ok" {
			c.Dist["concurrent_not_comparable_"+o.Status]++
			if o.Status == "seqfail" {
				continue
			}
		}
		if o.MatchDiff != nil {
			c.Violate("match-mismatch-concurrent", fmt.Sprintf("RuleIndex.Match called from 8 goroutines on one index returned, for event #%d of the history, rules %v instead of %v as it does sequentially (%d of %d calls differ)",
				o.MatchDiff.Event, o.MatchDiff.Got, o.MatchDiff.Want, o.MatchDiffs, o.MatchCalls), d)
		}
		if len(o.Variants) != len(d.Hist) || len(d.Hist) == 0 {
			continue
		}
		// sequential index-level observations for the same case (Match / IsTriggering columns)
		seq, sok := c01ObserveIndex(c, d)
		if !sok {
			continue
		}
		nv := 1
		for _, vs := range o.Variants {
			if len(vs) > nv {
				nv = len(vs)
			}
			if len(vs) == 0 {
				nv = 0
				break
			}
		}
		if nv == 0 {
			continue
		}
		if nv > 1 {
			c.Dist["concurrent_cases_with_diverging_copies"]++
		}
		var al, fl, rules, hist []string
		for v := 0; v < nv; v++ {
			var added []bool
			var fired [][]int
			for _, vs := range o.Variants {
				x := vs[0]
				if v < len(vs) {
					x = vs[v]
				}
				added = append(added, x.Added)
				fired = append(fired, x.Fired)
			}
			al = append(al, c01Bools(added))
			fl = append(fl, c01IntLists(fired))
		}
		for _, r := range d.Rules {
			rules = append(rules, c01CoqRule(r))
		}
		for _, e := range d.Hist {
			hist = append(hist, c01CoqEvent(e))
		}
		id := c.NewID()
		term := fmt.Sprintf("mkCase %d [%s] %s [%s] %s %s [%s] [%s] true", id, strings.Join(rules, ";"), c01RxTable(d),
			strings.Join(hist, ";"), c01IntLists(seq.Match), c01Bools(seq.Trig), strings.Join(al, ";"), strings.Join(fl, ";"))
		dd := d
		if !c01IsConc(dd) {
			dd.Stream = "concurrent-" + dd.Stream
		}
		kb, _ := json.Marshal(dd)
		c.AddCase(id, term, dd, "conc:"+string(kb), true)
	}
}

// c01ConcShapes: k wildcard rules on one pattern (k = 1..7: rule slices with and without spare
// capacity) followed by exact and state rules, events of mixed kinds
func c01ConcShapes() []c01Case {
	var cs []c01Case
	for _, prefix := range []string{"c.", ""} {
		for k := 1; k <= 7; k++ {
			var rules []c01Rule
			n := 0
			for i := 0; i < k; i++ {
				n++
				rules = append(rules, c01Rl(n, []string{prefix + "*"}, nil, false))
			}
			for _, leaf := range []string{"a", "b", "c", "x"} {
				n++
				rules = append(rules, c01Rl(n, []string{prefix + leaf}, nil, false))
			}
			n++
			rules = append(rules, c01Rl(n, []string{prefix + "a"}, []c01KV{{1, c01Num(1)}}, true))
			n++
			sup := c01Rl(n, []string{prefix + "b", prefix + "*"}, []c01KV{{1, c01Null()}}, true)
			sup.Suppress = []int{1}
			sup.Prio = 2
			rules = append(rules, sup)
			var hist []c01Event
			seg := func(s string) string { return prefix + s }
			for i, leaf := range []string{"a", "b", "c", "x", "y"} {
				hist = append(hist, c01Ev(1+i%2, seg(leaf), c01AllowAll))
			}
			hist = append(hist, c01Ev(1, seg("a"), c01AllowAll, c01KV{1, c01Num(1)}), c01Ev(2, seg("b"), c01AllowAll, c01KV{1, c01Num(2)}),
				c01Ev(1, "zz", c01AllowAll))
			cs = append(cs, c01Case{Stream: "concurrent-shapes", Rules: rules, Hist: hist})
		}
	}
	return cs
}

// a case of the concurrent stream is recognised by its stream name (replays)
func c01IsConc(d c01Case) bool { return strings.HasPrefix(d.Stream, "concurrent") }

// c01ObserveIndex: the index-level part of c01Observe only
func c01ObserveIndex(c *Ctx, d c01Case) (c01Obs, bool) {
	var obs c01Obs
	idx := engine.NewRuleIndex()
	for _, r := range d.Rules {
		gr := c01GoRule(r, nil)
		res := guarded(5*time.Second, func() (interface{}, error) { return nil, idx.AddRule(gr) })
		if res.TimedOut || res.Panicked || res.Err != nil {
			return obs, false
		}
	}
	for _, e := range d.Hist {
		ge := c01GoEvent(e)
		res := guarded(3*time.Second, func() (interface{}, error) { return c01Names(idx.Match(ge)), nil })
		if res.TimedOut || res.Panicked {
			return obs, false
		}
		obs.Match = append(obs.Match, res.Val.([]int))
		res = guarded(3*time.Second, func() (interface{}, error) { return idx.IsTriggering(ge), nil })
		if res.TimedOut || res.Panicked {
			return obs, false
		}
		obs.Trig = append(obs.Trig, res.Val.(bool))
	}
	return obs, true
}

// ---- generators -----------------------------------------------------------------------

func c01Num(n int) c01Val  { return c01Val{"num", n} }
func c01Null() c01Val      { return c01Val{"null", 0} }
func c01Rx(n int) c01Val   { return c01Val{"regex", n} }
func c01List(n int) c01Val { return c01Val{"list", n} }

var c01AllowAll = []c01Def{{"", true}}

func c01Ev(name int, kind string, defs []c01Def, st ...c01KV) c01Event {
	var k []string
	if kind != "-" {
		k = strings.Split(kind, ".")
	}
	return c01Event{Name: name, Kind: k, State: st, Defs: defs}
}

func c01Rl(name int, kinds []string, st []c01KV, hasState bool) c01Rule {
	return c01Rule{Name: name, Kinds: kinds, Scopes: []string{}, HasState: hasState, State: st}
}

func c01Corpus() []c01Case {
	var cs []c01Case
	// F01: trigger cache and events sharing a name
	cs = append(cs, c01Case{"corpus", []c01Rule{c01Rl(1, []string{"a.b"}, nil, false)},
		[]c01Event{c01Ev(1, "x.y", c01AllowAll), c01Ev(1, "a.b", c01AllowAll), c01Ev(1, "x.y", c01AllowAll), c01Ev(2, "a.b", c01AllowAll)}})
	// F02: two patterns of one rule match the same event
	cs = append(cs, c01Case{"corpus", []c01Rule{c01Rl(1, []string{"a.*", "a.b"}, nil, false), c01Rl(2, []string{"*.*", "*.b", "a.b"}, []c01KV{{1, c01Null()}}, true)},
		[]c01Event{c01Ev(1, "a.b", c01AllowAll), c01Ev(2, "a.b", c01AllowAll, c01KV{1, c01Num(1)}), c01Ev(3, "a.c", c01AllowAll)}})
	// F03: 64 and 65 state rules on one kind pattern, events for the last bits
	for _, n := range []int{64, 65} {
		cs = append(cs, c01Many(n, []int{0, 62, 63, 64}))
	}
	// F04: unhashable state values on either side
	cs = append(cs, c01Case{"corpus", []c01Rule{c01Rl(1, []string{"a"}, []c01KV{{1, c01Num(1)}}, true), c01Rl(2, []string{"a"}, []c01KV{{1, c01Null()}}, true), c01Rl(3, []string{"a"}, []c01KV{{1, c01Rx(5)}}, true)},
		[]c01Event{c01Ev(1, "a", c01AllowAll, c01KV{1, c01List(1)}), c01Ev(2, "a", c01AllowAll, c01KV{1, c01Val{"map", 1}}), c01Ev(3, "a", c01AllowAll, c01KV{1, c01Num(1)})}})
	cs = append(cs, c01Case{"corpus", []c01Rule{c01Rl(1, []string{"a"}, []c01KV{{1, c01List(1)}}, true), c01Rl(2, []string{"a"}, []c01KV{{1, c01Val{"map", 1}}, {2, c01Null()}}, true), c01Rl(3, []string{"a"}, []c01KV{{2, c01Null()}}, true)},
		[]c01Event{c01Ev(1, "a", c01AllowAll, c01KV{1, c01List(1)}, c01KV{2, c01Num(1)}), c01Ev(2, "a", c01AllowAll, c01KV{1, c01Num(1)}, c01KV{2, c01Num(1)}), c01Ev(3, "a", c01AllowAll)}})
	// NULL, missing key, nil event value, regexes, empty state map, empty kind, lengths
	cs = append(cs, c01Case{"corpus", []c01Rule{
		c01Rl(1, []string{"a.b"}, []c01KV{{1, c01Null()}}, true),
		c01Rl(2, []string{"a.b"}, []c01KV{{1, c01Rx(4)}}, true),
		c01Rl(3, []string{"a.b"}, []c01KV{}, true),
		c01Rl(4, []string{"a.b.c", "a", "*"}, nil, false),
		c01Rl(5, []string{"a.b"}, []c01KV{{1, c01Val{"str", 2}}}, true),
		c01Rl(6, []string{"a.b"}, []c01KV{{1, c01Rx(0)}, {2, c01Val{"bool", 1}}}, true)},
		[]c01Event{c01Ev(1, "a.b", c01AllowAll, c01KV{1, c01Null()}), c01Ev(2, "a.b", c01AllowAll), c01Ev(3, "a.b", c01AllowAll, c01KV{1, c01Num(5)}, c01KV{2, c01Val{"bool", 1}}),
			c01Ev(4, "a.b", c01AllowAll, c01KV{1, c01Val{"str", 2}}, c01KV{2, c01Val{"bool", 0}}), c01Ev(5, "-", c01AllowAll), c01Ev(6, "a", c01AllowAll), c01Ev(7, "a.b.c", c01AllowAll), c01Ev(8, "*", c01AllowAll)}})
	// scope: most specific defined prefix, default deny
	sc := c01Rl(1, []string{"a"}, nil, false)
	sc.Scopes = []string{"x.y"}
	sc2 := c01Rl(2, []string{"a"}, nil, false)
	sc2.Scopes = []string{"x", "z"}
	sc3 := c01Rl(3, []string{"a"}, nil, false)
	sc3.Scopes = []string{""}
	cs = append(cs, c01Case{"corpus", []c01Rule{sc, sc2, sc3}, []c01Event{
		c01Ev(1, "a", []c01Def{{"x", true}, {"x.y", false}}), c01Ev(1, "a", []c01Def{{"x", true}}), c01Ev(1, "a", nil),
		c01Ev(1, "a", []c01Def{{"", true}, {"x.y.w", false}}), c01Ev(1, "a", []c01Def{{"", true}, {"z", false}}),
		c01Ev(1, "a", []c01Def{{"x.y", true}}), c01Ev(1, "a", []c01Def{{"", false}, {"x", true}, {"z", true}}), c01Ev(1, "a", []c01Def{{".", true}})}})
	// suppression: a suppressed rule still suppresses; an out-of-scope or non-matching one does not
	s1 := c01Rl(1, []string{"a"}, nil, false)
	s1.Suppress = []int{2}
	s2 := c01Rl(2, []string{"a"}, nil, false)
	s2.Suppress = []int{3}
	s3 := c01Rl(3, []string{"*"}, nil, false)
	s4 := c01Rl(4, []string{"*"}, nil, false)
	s4.Scopes = []string{"x"}
	s4.Suppress = []int{1, 9}
	s5 := c01Rl(5, []string{"b"}, nil, false)
	s5.Suppress = []int{3}
	s5.Prio = -1
	cs = append(cs, c01Case{"corpus", []c01Rule{s1, s2, s3, s4, s5}, []c01Event{
		c01Ev(1, "a", c01AllowAll), c01Ev(2, "a", []c01Def{{"", true}, {"x", false}}), c01Ev(3, "b", c01AllowAll), c01Ev(4, "c", []c01Def{{"", true}, {"x", false}})}})
	return cs
}

// c01Many: n state rules on the kind pattern a.* (one leaf), plus two rules elsewhere
func c01Many(n int, probes []int) c01Case {
	var rules []c01Rule
	for i := 0; i < n; i++ {
		v := c01Num(i)
		if i%7 == 3 {
			v = c01Null()
		}
		rules = append(rules, c01Rl(i+1, []string{"a.*"}, []c01KV{{1, c01Num(i)}, {2, v}}, true))
	}
	rules = append(rules, c01Rl(n+1, []string{"a.b"}, []c01KV{{1, c01Null()}}, true))
	rules = append(rules, c01Rl(n+2, []string{"*.*"}, nil, false))
	var hist []c01Event
	for _, p := range probes {
		if p < n {
			hist = append(hist, c01Ev(1, "a.b", c01AllowAll, c01KV{1, c01Num(p)}, c01KV{2, c01Num(p)}))
		}
	}
	hist = append(hist, c01Ev(2, "a.b", c01AllowAll, c01KV{2, c01Num(0)}))
	return c01Case{"many-state-rules", rules, hist}
}

// c01StateHistoryCases: the answer for an event must not depend on the events matched before
// it on the same index.  Rule sets whose state leaf has a rule with a regex requirement on one
// key and plain requirements on other keys, plus a rule that keeps the leaf's candidate mask
// non-zero; histories are the ordered pairs and some triples of the events {value the regex
// matches / does not match} x {other keys as required / different}.  The engine visits the
// state keys in Go's map order, so every case is emitted several times (a fresh index each).
func c01StateHistoryCases(repeat int) []c01Case {
	var cs []c01Case
	type variant struct {
		rx       int // regex id
		hit, mis int // ids of strings the regex matches / does not match
	}
	for _, v := range []variant{{1, 1, 4}, {0, 2, 1}, {2, 3, 4}} {
		for shape := 0; shape < 3; shape++ {
			var rules []c01Rule
			switch shape {
			case 0:
				rules = []c01Rule{
					c01Rl(1, []string{"a.b"}, []c01KV{{1, c01Rx(v.rx)}, {2, c01Num(1)}, {3, c01Num(1)}}, true),
					c01Rl(2, []string{"a.b"}, []c01KV{{1, c01Null()}}, true)}
			case 1:
				rules = []c01Rule{
					c01Rl(1, []string{"a.b"}, []c01KV{{1, c01Rx(v.rx)}, {2, c01Num(1)}}, true),
					c01Rl(2, []string{"a.b"}, []c01KV{{2, c01Null()}}, true),
					c01Rl(3, []string{"a.b"}, []c01KV{{1, c01Rx(3)}, {3, c01Num(2)}}, true)}
			default:
				rules = []c01Rule{
					c01Rl(1, []string{"a.*"}, []c01KV{{1, c01Rx(v.rx)}, {2, c01Val{"str", v.hit}}}, true),
					c01Rl(2, []string{"a.*"}, []c01KV{{1, c01Null()}, {2, c01Null()}}, true)}
			}
			mkEv := func(name int, hit, same bool) c01Event {
				s := v.mis
				if hit {
					s = v.hit
				}
				if shape == 2 {
					o := c01Val{"str", v.hit}
					if !same {
						o = c01Val{"str", v.mis}
					}
					return c01Ev(name, "a.b", c01AllowAll, c01KV{1, c01Val{"str", s}}, c01KV{2, o})
				}
				o := 1
				if !same {
					o = 2
				}
				return c01Ev(name, "a.b", c01AllowAll, c01KV{1, c01Val{"str", s}}, c01KV{2, c01Num(o)}, c01KV{3, c01Num(o)})
			}
			var evs []c01Event
			for i, hs := range [][2]bool{{false, false}, {false, true}, {true, false}, {true, true}} {
				evs = append(evs, mkEv(i+1, hs[0], hs[1]))
			}
			var hists [][]c01Event
			for i := range evs {
				for j := range evs {
					hists = append(hists, []c01Event{evs[i], evs[j]})
				}
			}
			hists = append(hists, []c01Event{evs[0], evs[1], evs[3], evs[2]}, []c01Event{evs[3], evs[2], evs[1], evs[0]},
				[]c01Event{evs[2], evs[3], evs[0], evs[1]}, []c01Event{evs[0], evs[0], evs[1], evs[1], evs[3]})
			for _, h := range hists {
				for r := 0; r < repeat; r++ {
					cs = append(cs, c01Case{"state-history", rules, h})
				}
			}
		}
	}
	return cs
}

func c01RandomCase(c *Ctx) c01Case {
	rng := c.Rng
	segs := []string{"a", "b", "c", "*"}
	pat := func() string {
		n := 1 + rng.Intn(3)
		var p []string
		for i := 0; i < n; i++ {
			s := segs[rng.Intn(len(segs))]
			if rng.Intn(40) == 0 {
				s = ""
			}
			p = append(p, s)
		}
		return strings.Join(p, ".")
	}
	reqVal := func() c01Val {
		switch rng.Intn(10) {
		case 0, 1:
			return c01Null()
		case 2, 3:
			return c01Num(1 + rng.Intn(2))
		case 4:
			return c01Val{"str", rng.Intn(len(c01Strs))}
		case 5:
			return c01Val{"bool", rng.Intn(2)}
		case 6, 7:
			return c01Rx(rng.Intn(len(c01Regexes)))
		case 8:
			return c01List(1 + rng.Intn(2))
		}
		return c01Val{"map", 1}
	}
	evVal := func() c01Val {
		switch rng.Intn(10) {
		case 0:
			return c01Null()
		case 1, 2, 3:
			return c01Num(1 + rng.Intn(2))
		case 4:
			return c01Num(5)
		case 5, 6:
			return c01Val{"str", rng.Intn(len(c01Strs))}
		case 7:
			return c01Val{"bool", rng.Intn(2)}
		case 8:
			return c01List(1 + rng.Intn(2))
		}
		return c01Val{"map", 1}
	}
	scopePaths := []string{"x", "x.y", "z", "", "x.y.w"}
	nr := 1 + rng.Intn(6)
	var d c01Case
	d.Stream = "random"
	for i := 1; i <= nr; i++ {
		r := c01Rule{Name: i, Scopes: []string{}}
		for k := 1 + rng.Intn(3); k > 0; k-- {
			r.Kinds = append(r.Kinds, pat())
		}
		switch rng.Intn(4) {
		case 0: // no state match
		default:
			r.HasState = true
			r.State = []c01KV{}
			used := map[int]bool{}
			for k := rng.Intn(3); k > 0; k-- {
				key := 1 + rng.Intn(3)
				if !used[key] {
					used[key] = true
					r.State = append(r.State, c01KV{key, reqVal()})
				}
			}
		}
		for k := rng.Intn(3); k > 0 && rng.Intn(2) == 0; k-- {
			r.Scopes = append(r.Scopes, scopePaths[rng.Intn(len(scopePaths))])
		}
		r.Prio = rng.Intn(4)
		for k := rng.Intn(3); k > 0 && rng.Intn(2) == 0; k-- {
			s := 1 + rng.Intn(nr+1)
			if s != i {
				r.Suppress = append(r.Suppress, s)
			}
		}
		d.Rules = append(d.Rules, r)
	}
	evSegs := []string{"a", "b", "c", "a", "b", "*"}
	for n := 3 + rng.Intn(6); n > 0; n-- {
		e := c01Event{Name: 1 + rng.Intn(2)}
		for k := rng.Intn(4); k > 0; k-- {
			e.Kind = append(e.Kind, evSegs[rng.Intn(len(evSegs))])
		}
		if len(d.Hist) > 0 && rng.Intn(4) == 0 {
			e.Kind = append([]string{}, d.Hist[rng.Intn(len(d.Hist))].Kind...)
		}
		used := map[int]bool{}
		for k := rng.Intn(4); k > 0; k-- {
			key := 1 + rng.Intn(3)
			if !used[key] {
				used[key] = true
				e.State = append(e.State, c01KV{key, evVal()})
			}
		}
		usedp := map[string]bool{}
		if rng.Intn(3) > 0 {
			e.Defs = append(e.Defs, c01Def{"", rng.Intn(4) > 0})
			usedp[""] = true
		}
		for k := rng.Intn(3); k > 0; k-- {
			p := scopePaths[rng.Intn(len(scopePaths))]
			if !usedp[p] {
				usedp[p] = true
				e.Defs = append(e.Defs, c01Def{p, rng.Intn(2) == 0})
			}
		}
		d.Hist = append(d.Hist, e)
	}
	return d
}

func runC01(c *Ctx) error {
	if f := os.Getenv("C01_CONC_CHILD"); f != "" {
		return c01ConcChild(f)
	}
	c.Rule = "concurrent: rule sets with k = 1..7 wildcard rules on one pattern followed by exact / state / suppressing rules, and random rule sets, each with RuleIndex.Match called from 8 goroutines on one index (every result against the sequential one) and with 4, 8 and 16 workers while every event of the history is added many times from 4 goroutines without waiting (per event every distinct observed outcome is compared with Spec.fires); sequential: " + "rule sets x event histories. corpus: the witnesses of the repaired defects (shared event name, two patterns of one rule, 64/65 state rules on one pattern, list/map values) and tricky inputs (NULL, missing key, nil value, regexes, empty state map, empty kind, scope prefixes, suppression chains); exhaustive-1: every single rule with 1-2 kind patterns of depth <=2 over {a,*} and every state requirement over 2 keys x {absent,NULL,1} (210 rules) against all 54 events (kinds of depth <=2 over {a,b}, 2 keys x {absent,1,2}); exhaustive-2 (and -3 in the thorough tier): all ordered pairs (quick tier: one of two suppression/scope variants per pair; thorough: both, plus a third of all triples) of 24 small rule shapes, with and without suppression + scope, against 12 events under two scopes; many-state-rules: 60-70 state rules on one kind pattern; state-history: 3 regexes x 3 rule-set shapes (a rule with a regex requirement on one key and plain requirements on others, rules keeping the leaf's mask non-zero) x all ordered pairs and four longer histories of the events {regex matches / does not} x {other keys as required / different}, each several times on a fresh index (the engine visits state keys in map order); random: 1-6 rules, 1-3 patterns of depth 1-3 over {a,b,c,*,''}, state over {NULL,number,string,bool,regex,list,map}, scopes, suppression lists, priorities, histories of 3-8 events with shared names, every event under its own scope definitions; each history with 1, 2 and 8 workers; non-trivial = some event of the history is matched by some rule; distinct by the whole case"

	// shared event universes of the exhaustive streams
	kv := func(k, n int) c01KV { return c01KV{k, c01Num(n)} }
	var u1 []c01Event
	for ki, kind := range []string{"a", "b", "a.a", "a.b", "b.a", "b.b"} {
		for s1 := 0; s1 < 3; s1++ {
			for s2 := 0; s2 < 3; s2++ {
				var st []c01KV
				if s1 > 0 {
					st = append(st, kv(1, s1))
				}
				if s2 > 0 {
					st = append(st, kv(2, s2))
				}
				u1 = append(u1, c01Event{Name: 1 + (ki+s1)%2, Kind: strings.Split(kind, "."), State: st, Defs: c01AllowAll})
			}
		}
	}
	var u2 []c01Event
	denyX := []c01Def{{"", true}, {"x", false}}
	for i, kind := range []string{"a", "b", "a.a", "a.b"} {
		for s1 := 0; s1 < 3; s1++ {
			var st []c01KV
			if s1 > 0 {
				st = append(st, kv(1, s1))
			}
			defs := c01AllowAll
			if (i+s1)%2 == 1 {
				defs = denyX
			}
			u2 = append(u2, c01Event{Name: 1, Kind: strings.Split(kind, "."), State: st, Defs: defs})
		}
	}
	coqHist := func(es []c01Event) string {
		var items []string
		for _, e := range es {
			items = append(items, c01CoqEvent(e))
		}
		return "[" + strings.Join(items, ";\n  ") + "]"
	}
	header := "From Ecal Require Import Model.Processor Run.RunC01.\nOpen Scope N_scope.\n" +
		"Definition U1 : list (list (path * bool) * event) := " + coqHist(u1) + ".\nDefinition U2 : list (list (path * bool) * event) := " + coqHist(u2) + ".\n"
	c.BeginCases(header, "case", 150)

	if c.Replay != "" {
		var d c01Case
		if err := c.LoadReplay(&d); err != nil {
			return err
		}
		c01One(c, d, "")
		if c01IsConc(d) {
			c01RunConc(c, []c01Case{d})
		}
		return nil
	}

	stop := func() bool {
		if c.Enough() {
			c.Notes = append(c.Notes, "sweep stopped early after repeated violations")
			return true
		}
		return false
	}

	// 1. corpus
	for _, d := range c01Corpus() {
		if stop() {
			return nil
		}
		c01One(c, d, "")
		c01Sinks(c, d)
	}
	// informational: a rule naming itself in its suppression list (outside the domain)
	for _, kinds := range [][]string{{"a"}, {"a", "*"}} {
		r := c01Rl(1, kinds, nil, false)
		r.Suppress = []int{1}
		c01One(c, c01Case{"self-suppress-informational", []c01Rule{r, c01Rl(2, []string{"a"}, nil, false)}, []c01Event{c01Ev(1, "a", c01AllowAll)}}, "")
	}

	// 1b. concurrent stream (child process)
	if !stop() {
		conc := c01ConcShapes()
		for i := 0; i < c.Pick(10, 120); i++ {
			d := c01RandomCase(c)
			d.Stream = "concurrent-random"
			if !c01SelfSuppress(d) {
				conc = append(conc, d)
			}
		}
		for _, d := range conc {
			c01One(c, d, "")
		}
		if !stop() {
			c01RunConc(c, conc)
		}
	}

	// 2. many state rules on one kind pattern
	sizes := []int{63, 64, 65, 70}
	if c.Thorough() {
		sizes = []int{60, 61, 62, 63, 64, 65, 66, 67, 68, 69, 70, 129}
	}
	for _, n := range sizes {
		if stop() {
			return nil
		}
		c01One(c, c01Many(n, []int{0, 1, 31, 62, 63, 64, 65, n - 1}), "")
	}

	// 2b. state histories (regex requirements next to plain ones; the same value seen again
	// under other keys)
	shc := c01StateHistoryCases(c.Pick(2, 6))
	for i, d := range shc {
		if stop() {
			return nil
		}
		if !c.Thorough() && (i/2+int(c.Seed))%3 != 0 {
			continue // quick tier: a rotating third
		}
		c01One(c, d, "")
	}
	c.Extra["state_history_cases"] = len(shc)

	// 3. exhaustive-1
	pats := []string{"a", "*", "a.a", "a.*", "*.a", "*.*"}
	var patSets [][]string
	for i := range pats {
		patSets = append(patSets, []string{pats[i]})
		for j := i + 1; j < len(pats); j++ {
			patSets = append(patSets, []string{pats[i], pats[j]})
		}
	}
	reqOpts := []*c01Val{nil, {K: "null"}, {K: "num", N: 1}}
	n1 := 0
	for _, ps := range patSets {
		for s := -1; s < 9; s++ {
			if stop() {
				return nil
			}
			r := c01Rl(1, ps, nil, false)
			if s >= 0 {
				r.HasState = true
				r.State = []c01KV{}
				if o := reqOpts[s/3]; o != nil {
					r.State = append(r.State, c01KV{1, *o})
				}
				if o := reqOpts[s%3]; o != nil {
					r.State = append(r.State, c01KV{2, *o})
				}
			}
			c01One(c, c01Case{"exhaustive-1", []c01Rule{r}, u1}, "U1")
			n1++
		}
	}
	c.Extra["exhaustive_1_rule_sets"] = n1
	c.Extra["exhaustive_1_events"] = len(u1)

	// 4. exhaustive-2 / -3 over 24 small shapes
	type shape struct {
		pat      string
		hasState bool
		st       []c01KV
	}
	var shapes []shape
	for _, p := range pats {
		shapes = append(shapes, shape{p, false, nil}, shape{p, true, []c01KV{}}, shape{p, true, []c01KV{{1, c01Null()}}}, shape{p, true, []c01KV{{1, c01Num(1)}}})
	}
	mk := func(name int, s shape) c01Rule { return c01Rl(name, []string{s.pat}, s.st, s.hasState) }
	n2 := 0
	for i := range shapes {
		for j := range shapes {
			for variant := 0; variant < 2; variant++ {
				if stop() {
					return nil
				}
				if !c.Thorough() && variant != (i+j)%2 {
					continue // quick tier: every ordered pair once, the variant alternating
				}
				r1, r2 := mk(1, shapes[i]), mk(2, shapes[j])
				if variant == 1 {
					r1.Suppress = []int{2}
					r1.Scopes = []string{"x"}
					r2.Prio = -1
				}
				c01One(c, c01Case{"exhaustive-2", []c01Rule{r1, r2}, u2}, "U2")
				n2++
			}
		}
	}
	c.Extra["exhaustive_2_rule_sets"] = n2
	c.Extra["exhaustive_2_events"] = len(u2)
	if c.Thorough() {
		n3 := 0
		for i := range shapes {
			for j := range shapes {
				for k := range shapes {
					if stop() {
						return nil
					}
					if (i+2*j+k)%3 != 0 {
						continue // a third of the 13824 triples: every pair (i,j), (j,k), (i,k) still occurs
					}
					r1, r2, r3 := mk(1, shapes[i]), mk(2, shapes[j]), mk(3, shapes[k])
					if (i+j+k)%2 == 1 {
						r3.Suppress = []int{1}
						r2.Scopes = []string{"x"}
						r2.Suppress = []int{3}
					}
					c01One(c, c01Case{"exhaustive-3", []c01Rule{r1, r2, r3}, u2}, "U2")
					n3++
				}
			}
		}
		c.Extra["exhaustive_3_rule_sets"] = n3
	}

	// 5. seeded random
	for i := 0; i < c.Pick(300, 5000); i++ {
		if stop() {
			return nil
		}
		d := c01RandomCase(c)
		c01One(c, d, "")
		if i%4 == 0 {
			c01Sinks(c, d)
		}
	}
	c.Exhaustive = false
	return nil
}
