//go:build c05

package main

// C05 — lexical scoping, functions, containers, objects.
//
// Stream P (programs): generated programs of a mini-language (coq/Spec/LexSpec.v) are rendered
// to ECAL source, run by the REAL interpreter, and the observations (error / no error, marker
// trace, probe values, global variables) are written next to the program as a Coq term; the
// reference semantics is run on the same program inside Coq (coq/Run/RunC05.v).
// Stream S (scope API): see c05_scope.go.

import (
	"encoding/json"
	"fmt"
	"sort"
	"strconv"
	"strings"
	"time"

	"github.com/krotik/ecal/scope"
)

func init() { register("C05", runC05) }

// ---- the mini-language ---------------------------------------------------------------

type c05Acc struct {
	Dot string   `json:"dot,omitempty"`
	Idx *c05Expr `json:"idx,omitempty"`
}

type c05Param struct {
	Name string   `json:"n"`
	Dflt *c05Expr `json:"d,omitempty"`
}

// K: null bool num str list map path call builtin bin func
type c05Expr struct {
	K      string        `json:"k"`
	B      bool          `json:"b,omitempty"`
	Z      int64         `json:"z,omitempty"`
	S      string        `json:"s,omitempty"`
	Es     []*c05Expr    `json:"es,omitempty"`  // list items, call / builtin args
	Kvs    [][2]*c05Expr `json:"kvs,omitempty"` // map entries
	X      string        `json:"x,omitempty"`   // root name of path / call; builtin name; operator
	Accs   []*c05Acc     `json:"accs,omitempty"`
	A      *c05Expr      `json:"a,omitempty"`
	C      *c05Expr      `json:"c,omitempty"`
	Params []c05Param    `json:"ps,omitempty"`
	Body   []*c05Stmt    `json:"body,omitempty"`
}

// K: assign let func if for return expr mark
type c05Stmt struct {
	K      string     `json:"k"`
	X      string     `json:"x,omitempty"`
	Accs   []*c05Acc  `json:"accs,omitempty"`
	E      *c05Expr   `json:"e,omitempty"`
	Params []c05Param `json:"ps,omitempty"`
	Body   []*c05Stmt `json:"body,omitempty"`
	Else   []*c05Stmt `json:"else,omitempty"`
	ID     int        `json:"id,omitempty"`
}

type c05Prog struct {
	Stream string     `json:"stream"`
	Prog   []*c05Stmt `json:"prog"`
	Probes []*c05Expr `json:"probes"`
	Source string     `json:"source,omitempty"` // the ECAL text (for the reader of a replay)
}

var c05Names = []string{"a", "b", "c", "d", "e", "g"}

// ---- constructors ----------------------------------------------------------------------
func eNull() *c05Expr          { return &c05Expr{K: "null"} }
func eBool(b bool) *c05Expr    { return &c05Expr{K: "bool", B: b} }
func eNum(z int64) *c05Expr    { return &c05Expr{K: "num", Z: z} }
func eStr(s string) *c05Expr   { return &c05Expr{K: "str", S: s} }
func eList(es ...*c05Expr) *c05Expr { return &c05Expr{K: "list", Es: es} }
func eMap(kvs ...*c05Expr) *c05Expr {
	r := &c05Expr{K: "map"}
	for i := 0; i+1 < len(kvs); i += 2 {
		r.Kvs = append(r.Kvs, [2]*c05Expr{kvs[i], kvs[i+1]})
	}
	return r
}
func eVar(x string) *c05Expr                   { return &c05Expr{K: "path", X: x} }
func ePath(x string, accs ...*c05Acc) *c05Expr { return &c05Expr{K: "path", X: x, Accs: accs} }
func dot(f string) *c05Acc                     { return &c05Acc{Dot: f} }
func idx(e *c05Expr) *c05Acc                   { return &c05Acc{Idx: e} }
func eCall(x string, accs []*c05Acc, args ...*c05Expr) *c05Expr {
	return &c05Expr{K: "call", X: x, Accs: accs, Es: args}
}
func eBuiltin(b string, args ...*c05Expr) *c05Expr { return &c05Expr{K: "builtin", X: b, Es: args} }
func eBin(op string, a, b *c05Expr) *c05Expr       { return &c05Expr{K: "bin", X: op, A: a, C: b} }
func eFunc(ps []c05Param, body ...*c05Stmt) *c05Expr {
	return &c05Expr{K: "func", Params: ps, Body: body}
}
func prm(names ...string) []c05Param {
	var r []c05Param
	for _, n := range names {
		r = append(r, c05Param{Name: n})
	}
	return r
}
func sAssign(x string, e *c05Expr) *c05Stmt { return &c05Stmt{K: "assign", X: x, E: e} }
func sAssignP(x string, accs []*c05Acc, e *c05Expr) *c05Stmt {
	return &c05Stmt{K: "assign", X: x, Accs: accs, E: e}
}
func sLet(x string, e *c05Expr) *c05Stmt { return &c05Stmt{K: "let", X: x, E: e} }
func sFunc(x string, ps []c05Param, body ...*c05Stmt) *c05Stmt {
	return &c05Stmt{K: "func", X: x, Params: ps, Body: body}
}
func sIf(c *c05Expr, th []*c05Stmt, el []*c05Stmt) *c05Stmt {
	return &c05Stmt{K: "if", E: c, Body: th, Else: el}
}
func sFor(x string, e *c05Expr, body ...*c05Stmt) *c05Stmt {
	return &c05Stmt{K: "for", X: x, E: e, Body: body}
}
func sReturn(e *c05Expr) *c05Stmt { return &c05Stmt{K: "return", E: e} }
func sExpr(e *c05Expr) *c05Stmt   { return &c05Stmt{K: "expr", E: e} }
func sMark(e *c05Expr) *c05Stmt   { return &c05Stmt{K: "mark", E: e} }
func blk(ss ...*c05Stmt) []*c05Stmt { return ss }

// number the blocks (if / for) 1, 2, ... in program order
func c05number(ss []*c05Stmt, next *int) {
	var inExpr func(e *c05Expr)
	inExpr = func(e *c05Expr) {
		if e == nil {
			return
		}
		for _, x := range e.Es {
			inExpr(x)
		}
		for _, kv := range e.Kvs {
			inExpr(kv[0])
			inExpr(kv[1])
		}
		for _, a := range e.Accs {
			inExpr(a.Idx)
		}
		inExpr(e.A)
		inExpr(e.C)
		for _, p := range e.Params {
			inExpr(p.Dflt)
		}
		c05number(e.Body, next)
	}
	for _, s := range ss {
		if s.K == "if" || s.K == "for" {
			*next++
			s.ID = *next
		}
		inExpr(s.E)
		for _, a := range s.Accs {
			inExpr(a.Idx)
		}
		for _, p := range s.Params {
			inExpr(p.Dflt)
		}
		c05number(s.Body, next)
		c05number(s.Else, next)
	}
}

// ---- rendering to ECAL -------------------------------------------------------------------
func c05accsSrc(accs []*c05Acc) string {
	var sb strings.Builder
	for _, a := range accs {
		if a.Idx != nil {
			sb.WriteString("[" + c05exprSrc(a.Idx, "") + "]")
		} else {
			sb.WriteString("." + a.Dot)
		}
	}
	return sb.String()
}

func c05paramsSrc(ps []c05Param) string {
	var parts []string
	for _, p := range ps {
		if p.Dflt != nil {
			parts = append(parts, p.Name+"="+c05exprSrc(p.Dflt, ""))
		} else {
			parts = append(parts, p.Name)
		}
	}
	return strings.Join(parts, ", ")
}

func c05argsSrc(es []*c05Expr, ind string) string {
	var parts []string
	for _, e := range es {
		parts = append(parts, c05exprSrc(e, ind))
	}
	return strings.Join(parts, ", ")
}

func c05exprSrc(e *c05Expr, ind string) string {
	switch e.K {
	case "null":
		return "null"
	case "bool":
		if e.B {
			return "true"
		}
		return "false"
	case "num":
		return strconv.FormatInt(e.Z, 10)
	case "str":
		return "\"" + e.S + "\""
	case "list":
		return "[" + c05argsSrc(e.Es, ind) + "]"
	case "map":
		var parts []string
		for _, kv := range e.Kvs {
			parts = append(parts, c05exprSrc(kv[0], ind)+" : "+c05exprSrc(kv[1], ind))
		}
		return "{" + strings.Join(parts, ", ") + "}"
	case "path":
		return e.X + c05accsSrc(e.Accs)
	case "call":
		return e.X + c05accsSrc(e.Accs) + "(" + c05argsSrc(e.Es, ind) + ")"
	case "builtin":
		return e.X + "(" + c05argsSrc(e.Es, ind) + ")"
	case "bin":
		return "(" + c05exprSrc(e.A, ind) + " " + e.X + " " + c05exprSrc(e.C, ind) + ")"
	case "func":
		return "func (" + c05paramsSrc(e.Params) + ") {\n" + ind + "    tick()\n" + c05blockSrc(e.Body, ind+"    ") + ind + "}"
	}
	panic("c05: unknown expression kind " + e.K)
}

func c05blockSrc(ss []*c05Stmt, ind string) string {
	var sb strings.Builder
	for _, s := range ss {
		sb.WriteString(ind + c05stmtSrc(s, ind) + "\n")
	}
	return sb.String()
}

func c05stmtSrc(s *c05Stmt, ind string) string {
	switch s.K {
	case "assign":
		return s.X + c05accsSrc(s.Accs) + " := " + c05exprSrc(s.E, ind)
	case "let":
		return "let " + s.X + " := " + c05exprSrc(s.E, ind)
	case "func":
		return "func " + s.X + "(" + c05paramsSrc(s.Params) + ") {\n" + ind + "    tick()\n" + c05blockSrc(s.Body, ind+"    ") + ind + "}"
	case "if":
		r := "if " + c05exprSrc(s.E, ind) + " {\n" + c05blockSrc(s.Body, ind+"    ") + ind + "}"
		if len(s.Else) > 0 {
			r += " else {\n" + c05blockSrc(s.Else, ind+"    ") + ind + "}"
		}
		return r
	case "for":
		return "for " + s.X + " in " + c05exprSrc(s.E, ind) + " {\n" + c05blockSrc(s.Body, ind+"    ") + ind + "}"
	case "return":
		return "return " + c05exprSrc(s.E, ind)
	case "expr":
		return c05exprSrc(s.E, ind)
	case "mark":
		return "mark(" + c05exprSrc(s.E, ind) + ")"
	}
	panic("c05: unknown statement kind " + s.K)
}

// ---- rendering to Coq ----------------------------------------------------------------------
func c05B(s string) string { return CoqBytes(s) }

func c05accsCoq(accs []*c05Acc) string {
	var parts []string
	for _, a := range accs {
		if a.Idx != nil {
			parts = append(parts, "AIdx "+c05exprCoq(a.Idx))
		} else {
			parts = append(parts, "ADot "+c05B(a.Dot))
		}
	}
	return CoqList(parts)
}

func c05paramsCoq(ps []c05Param) string {
	var parts []string
	for _, p := range ps {
		if p.Dflt != nil {
			parts = append(parts, "("+c05B(p.Name)+", Some "+c05exprCoq(p.Dflt)+")")
		} else {
			parts = append(parts, "("+c05B(p.Name)+", None)")
		}
	}
	return CoqList(parts)
}

func c05exprsCoq(es []*c05Expr) string {
	var parts []string
	for _, e := range es {
		parts = append(parts, c05exprCoq(e))
	}
	return CoqList(parts)
}

func c05exprCoq(e *c05Expr) string {
	switch e.K {
	case "null":
		return "ENull"
	case "bool":
		return "(EBool " + CoqBool(e.B) + ")"
	case "num":
		return "(ENum " + CoqZ(e.Z) + ")"
	case "str":
		return "(EStr " + c05B(e.S) + ")"
	case "list":
		return "(EList " + c05exprsCoq(e.Es) + ")"
	case "map":
		var parts []string
		for _, kv := range e.Kvs {
			parts = append(parts, "("+c05exprCoq(kv[0])+", "+c05exprCoq(kv[1])+")")
		}
		return "(EMap " + CoqList(parts) + ")"
	case "path":
		return "(EPath " + c05B(e.X) + " " + c05accsCoq(e.Accs) + ")"
	case "call":
		return "(ECall " + c05B(e.X) + " " + c05accsCoq(e.Accs) + " " + c05exprsCoq(e.Es) + ")"
	case "builtin":
		b := map[string]string{"len": "BLen", "add": "BAdd", "del": "BDel", "concat": "BConcat", "new": "BNew"}[e.X]
		return "(EBuiltin " + b + " " + c05exprsCoq(e.Es) + ")"
	case "bin":
		op := map[string]string{"+": "OpAdd", "-": "OpSub", "==": "OpEq", "<": "OpLt"}[e.X]
		return "(EBin " + op + " " + c05exprCoq(e.A) + " " + c05exprCoq(e.C) + ")"
	case "func":
		return "(EFunc " + c05paramsCoq(e.Params) + " " + c05stmtsCoq(e.Body) + ")"
	}
	panic("c05: unknown expression kind " + e.K)
}

func c05stmtsCoq(ss []*c05Stmt) string {
	var parts []string
	for _, s := range ss {
		parts = append(parts, c05stmtCoq(s))
	}
	return CoqList(parts)
}

func c05stmtCoq(s *c05Stmt) string {
	switch s.K {
	case "assign":
		return "SAssign " + c05B(s.X) + " " + c05accsCoq(s.Accs) + " " + c05exprCoq(s.E)
	case "let":
		return "SLet " + c05B(s.X) + " " + c05exprCoq(s.E)
	case "func":
		return "SFunc " + c05B(s.X) + " " + c05paramsCoq(s.Params) + " " + c05stmtsCoq(s.Body)
	case "if":
		return "SIf " + CoqNat(s.ID) + " " + c05exprCoq(s.E) + " " + c05stmtsCoq(s.Body) + " " + c05stmtsCoq(s.Else)
	case "for":
		return "SFor " + CoqNat(s.ID) + " " + c05B(s.X) + " " + c05exprCoq(s.E) + " " + c05stmtsCoq(s.Body)
	case "return":
		return "SReturn " + c05exprCoq(s.E)
	case "expr":
		return "SExpr " + c05exprCoq(s.E)
	case "mark":
		return "SMark " + c05exprCoq(s.E)
	}
	panic("c05: unknown statement kind " + s.K)
}

// ---- canonical text of an implementation value ------------------------------------------------
func c05num(f float64) string {
	if f == float64(int64(f)) {
		return strconv.FormatInt(int64(f), 10)
	}
	return fmt.Sprint(f)
}

// quoteKeys: map keys that are strings are quoted (scope API stream) or bare (program stream,
// where the reference semantics has no numeric-looking string keys)
func c05render(v interface{}, depth int, quoteKeys bool) string {
	switch x := v.(type) {
	case nil:
		return "N"
	case bool:
		if x {
			return "T"
		}
		return "F"
	case float64:
		return c05num(x)
	case string:
		return "\"" + x + "\""
	case []interface{}:
		if depth == 0 {
			return "~"
		}
		parts := make([]string, 0, len(x))
		for _, i := range x {
			parts = append(parts, c05render(i, depth-1, quoteKeys))
		}
		return "[" + strings.Join(parts, ",") + "]"
	case map[interface{}]interface{}:
		if depth == 0 {
			return "~"
		}
		type ent struct{ k, v string }
		var es []ent
		for k, i := range x {
			var ks string
			switch kk := k.(type) {
			case float64:
				ks = c05num(kk)
			case string:
				if quoteKeys {
					ks = "\"" + kk + "\""
				} else {
					ks = kk
				}
			default:
				ks = fmt.Sprint(k)
			}
			es = append(es, ent{ks, c05render(i, depth-1, quoteKeys)})
		}
		sort.Slice(es, func(i, j int) bool { return es[i].k < es[j].k })
		parts := make([]string, 0, len(es))
		for _, e := range es {
			parts = append(parts, e.k+":"+e.v)
		}
		return "{" + strings.Join(parts, ",") + "}"
	}
	return "<f>"
}

const c05Depth = 5
const c05Budget = 60

// ---- running one program on the implementation ---------------------------------------------------
type c05run struct {
	Out      string // ok err panic timeout
	Msg      string
	Trace    []string
	ProbeObs []*string
	Globals  []string
	Exceeded bool
}

// The mini-language has no unbounded loop and calls are bounded by the tick budget, so a run that
// does not come back is either a defect or a machine that is too busy: it is tried once more with
// a much longer time bound before it is reported.
func c05execute(p *c05Prog) c05run {
	res := c05executeT(p, 20*time.Second)
	if res.Out == "timeout" {
		res = c05executeT(p, 180*time.Second)
	}
	return res
}

func c05executeT(p *c05Prog, limit time.Duration) c05run {
	var res c05run
	vs := scope.NewScope(scope.GlobalScope)
	calls := 0
	vs.SetValue("mark", &goFunc{func(args []interface{}) (interface{}, error) {
		var v interface{}
		if len(args) > 0 {
			v = args[0]
		}
		res.Trace = append(res.Trace, c05render(v, c05Depth, false))
		return nil, nil
	}})
	vs.SetValue("tick", &goFunc{func(args []interface{}) (interface{}, error) {
		calls++
		if calls > c05Budget {
			res.Exceeded = true
			return nil, fmt.Errorf("call budget exceeded")
		}
		return nil, nil
	}})
	src := c05blockSrc(p.Prog, "")
	p.Source = src
	r := guarded(limit, func() (interface{}, error) { return evalProgram("c05", src, vs, nil) })
	switch {
	case r.TimedOut:
		res.Out = "timeout"
		return res
	case r.Panicked:
		res.Out = "panic"
		res.Msg = r.PanicMsg
	case r.Err != nil:
		res.Out = "err"
		res.Msg = r.Err.Error()
	default:
		res.Out = "ok"
	}
	for _, n := range c05Names {
		n := n
		g := guarded(limit, func() (interface{}, error) {
			v, _, err := vs.GetValue(n)
			return v, err
		})
		if g.Panicked || g.TimedOut || g.Err != nil {
			res.Globals = append(res.Globals, "!")
		} else {
			res.Globals = append(res.Globals, c05render(g.Val, c05Depth, false))
		}
	}
	if res.Out == "panic" {
		return res
	}
	for _, pe := range p.Probes {
		before := len(res.Trace)
		psrc := "mark(" + c05exprSrc(pe, "") + ")"
		g := guarded(limit, func() (interface{}, error) { return evalProgram("c05probe", psrc, vs, nil) })
		if g.TimedOut {
			res.Out = "timeout"
			return res
		}
		if g.Panicked || g.Err != nil {
			res.Trace = res.Trace[:before]
			res.ProbeObs = append(res.ProbeObs, nil)
			continue
		}
		t := strings.Join(res.Trace[before:], "|")
		res.Trace = res.Trace[:before]
		res.ProbeObs = append(res.ProbeObs, &t)
	}
	return res
}

func c05programCase(c *Ctx, p *c05Prog) {
	n := 0
	c05number(p.Prog, &n)
	run := c05execute(p)
	key := p.Source
	for _, pe := range p.Probes {
		key += "|" + c05exprSrc(pe, "")
	}
	c.Dist["P_"+p.Stream]++
	if run.Out == "timeout" {
		c.Violate("nontermination", "the generated program did not finish within 180s:\n"+p.Source, p)
		c.Count(key, true, p)
		return
	}
	if run.Exceeded {
		c.Dist["P_skipped_call_budget"]++
		return
	}
	c.Dist["P_impl_"+run.Out]++
	id := c.NewID()
	out := map[string]string{"ok": "IOk", "err": "IErr", "panic": "IPanic"}[run.Out]
	var tr, pobs, gl, names []string
	for _, t := range run.Trace {
		tr = append(tr, c05B(t))
	}
	if run.Out == "panic" {
		// observations after a panic are not compared
		run.ProbeObs = nil
		for range p.Probes {
			run.ProbeObs = append(run.ProbeObs, nil)
		}
	}
	for _, o := range run.ProbeObs {
		if o == nil {
			pobs = append(pobs, "None")
		} else {
			pobs = append(pobs, "Some "+c05B(*o))
		}
	}
	for i, g := range run.Globals {
		gl = append(gl, c05B(g))
		names = append(names, c05B(c05Names[i]))
	}
	term := fmt.Sprintf("PCase %s %s %s %s %s %s %s %s", fmt.Sprintf("%d%%N", id), c05stmtsCoq(p.Prog), c05exprsCoq(p.Probes),
		CoqList(names), out, CoqList(tr), CoqList(pobs), CoqList(gl))
	c.AddCase(id, term, p, key, len(run.Trace)+len(p.Probes) > 0)
}

// ---- driver ------------------------------------------------------------------------------------------
func runC05(c *Ctx) error {
	c.Rule = "stream P: programs of the mini-language of coq/Spec/LexSpec.v over the names a,b,c,d,e,g — a fixed corpus (witnesses of the repaired defects first), all sequences of up to 2 statements and a fixed fraction of the sequences of 3 (thorough: all of 3, a fraction of 4) from a pool of short scoping statements and from a pool of list built-in statements (result independence of concat / add / del: literals of different capacity, empty arguments, two calls on the same first argument, writes through results and arguments), and seeded random programs mixing global/block/function scopes, let, closures, recursion, defaults, argument counts below/equal/above, list and map literals with number and string keys, nested paths, dot and bracket access, len/add/del/concat, templates with single and multiple inheritance; stream fresh (c05_fresh.go): one literal with nested containers (lists in lists, maps in lists, lists in maps; constants only / with strings / with a computed item; depth 2-3) at a program point that is evaluated repeatedly (function body, parameter default, returned closure, method, template-building function, loop body, recursion), in-place writes and increments through a path of length >= 2 into one result before and after the other evaluations, all results read back; non-trivial = at least one mark or probe; distinct by source text.  stream S: sequences of calls of the scope API (NewScope, NewChild, SetValue, SetLocalValue, GetValue with access paths over nested lists/maps incl. numeric and numeric-looking keys, negative and out-of-range indices); distinct by the sequence"
	c.BeginCases("From Coq Require Import ZArith.\nFrom Ecal Require Import Common.Bytes Model.Scope Spec.LexSpec Run.RunC05.\nOpen Scope N_scope.", "case", 150)

	if c.Replay != "" {
		var raw json.RawMessage
		if err := c.LoadReplay(&raw); err != nil {
			return err
		}
		var probe struct {
			Stream string `json:"stream"`
		}
		json.Unmarshal(raw, &probe)
		if probe.Stream == "interp" {
			return c05interpReplay(c, raw)
		}
		if strings.HasPrefix(probe.Stream, "scope") {
			var d c05ScopeCase
			if err := json.Unmarshal(raw, &d); err != nil {
				return err
			}
			c05scopeCase(c, &d)
			return nil
		}
		var p c05Prog
		if err := json.Unmarshal(raw, &p); err != nil {
			return err
		}
		c05programCase(c, &p)
		return nil
	}

	for _, p := range c05corpus() {
		c05programCase(c, p)
	}
	for _, p := range c05freshCorpus() {
		c05programCase(c, p)
	}
	for _, d := range c05scopeCorpus() {
		c05scopeCase(c, d)
	}
	nex := 0
	emit := func(p *c05Prog) {
		if !c.Enough() {
			c05programCase(c, p)
			nex++
		}
	}
	c05exhaustive(c05pool(), "exhaustive", []string{"a", "b"}, c.Pick(3, 4), c.Pick(14, 2), emit)
	c05exhaustive(c05listPool(), "exhaustive-lists", []string{"a", "b", "c"}, c.Pick(3, 4), c.Pick(9, 3), emit)
	c.Extra["exhaustive_programs"] = nex
	g := &c05gen{c: c}
	for i := 0; i < c.Pick(400, 12000) && !c.Enough(); i++ {
		c05programCase(c, g.program())
	}
	for i := 0; i < c.Pick(200, 5000) && !c.Enough(); i++ {
		c05scopeCase(c, c05scopeRandom(c))
	}
	// after the older streams, so that those see the same random numbers as before
	for i := 0; i < c.Pick(120, 2500) && !c.Enough(); i++ {
		c05programCase(c, g.freshProgram())
	}
	c05interpStream(c) // stream I: three-way tie with the interpreter model (c05_interp.go)
	c.Exhaustive = false
	return nil
}
