//go:build c09

package main

// C09 — thread pool.  Implementation side: the real pool (engine/pool) is run with the verif
// hooks switched on.  The hook handler (c09_rec.go) records every event, translated to a
// label of the Coq model (Model/Pool.v), and can hold goroutines at chosen points.
//
//   controlled scenarios (corpus, replayed first): the lost wake-up window is forced
//     deterministically - the worker is held after its empty Pop, AddTask (or a shrinking
//     SetWorkerCount) runs to completion, the worker is released; the task must run (the
//     worker must leave) within a bound WITHOUT any further call into the pool.
//   free-running scenarios: seeded scripts of bursts / single submissions / resizes /
//     WaitAll / JoinAll on 1..16 workers; oracles of the property on per-task counters and
//     on the return of WaitAll / JoinAll / SetWorkerCount; the recorded trace goes to Coq
//     and must be a run of the model with the same final projection.

import (
	"fmt"
	"os"
	"sort"
	"strings"
	"sync"
	"sync/atomic"
	"time"

	"github.com/krotik/ecal/engine/pool"
	"github.com/krotik/ecal/verifhook"
)

func init() { register("C09", runC09) }

const (
	c09Bound    = 3 * time.Second  // "must have started" bound (only ever trips on predicted non-progress)
	c09CallTime = 20 * time.Second // bound on one call into the pool
	c09MaxTrace = 12000            // longer traces are checked on the Go side only
)

type c09op struct {
	Op    string `json:"op"` // burst | single | resize | waitall | pause | joinall
	N     int    `json:"n,omitempty"`
	G     int    `json:"g,omitempty"`
	Wait  bool   `json:"wait,omitempty"`
	Async bool   `json:"async,omitempty"`
}

type c09desc struct {
	Scenario string   `json:"scenario"`
	Seed     int64    `json:"seed,omitempty"`
	Workers  int      `json:"workers,omitempty"`
	Script   []c09op  `json:"script,omitempty"`
	Shrinks  []int    `json:"shrinks,omitempty"`  // resize-busy: non-waiting shrink targets issued while all workers are busy
	N        int      `json:"n,omitempty"`        // resize-busy: the count requested last
	Wait     bool     `json:"wait,omitempty"`     // resize-busy: wait flag of the last request
	Schedule []string `json:"schedule,omitempty"` // controlled scenarios: the forced interleaving, for the reader
}

// set when goroutines of an earlier pool may still be running (a call hung): their hook
// events would be mixed into later traces, so no further trace is sent to Coq
var c09polluted bool

// one run of a scenario against a fresh pool
type c09run struct {
	c     *Ctx
	desc  c09desc
	rec   *c09Rec
	tp    *pool.ThreadPool
	tasks []*c09Task
	tmu   sync.Mutex
	bad   bool // a violation was reported for this run
}

func (r *c09run) violate(key, what string) {
	r.bad = true
	r.c.Violate(key, what, r.desc)
}

func (r *c09run) newTask() *c09Task {
	r.tmu.Lock()
	defer r.tmu.Unlock()
	t := &c09Task{id: len(r.tasks) + 1, rec: r.rec}
	r.tasks = append(r.tasks, t)
	return t
}

// call runs one call into the pool under recover and a generous time bound.
func (r *c09run) call(what string, f func()) bool {
	res := guarded(c09CallTime, func() (interface{}, error) { f(); return nil, nil })
	if res.Panicked {
		r.violate("pool-panic", what+" panicked: "+res.PanicMsg)
		return false
	}
	if res.TimedOut {
		r.violate("pool-call-hangs", fmt.Sprintf("%s did not return within %v", what, c09CallTime))
		return false
	}
	return true
}

// awaitPassive waits - without calling into the pool - until cond holds.
func awaitPassive(d time.Duration, cond func() bool) bool {
	deadline := time.Now().Add(d)
	for !cond() {
		if time.Now().After(deadline) {
			return false
		}
		time.Sleep(50 * time.Microsecond)
	}
	return true
}

func c09start(c *Ctx, desc c09desc) *c09run {
	r := &c09run{c: c, desc: desc, rec: newC09Rec()}
	verifhook.SetHandler(r.rec.handle)
	r.tp = pool.NewThreadPool()
	return r
}

// finish: tear the pool down (so that no goroutine of this run survives), then emit the
// case.  The projection was taken by the caller at a quiescent point (snapshot).
func (r *c09run) finish(snap *c09snap, drained bool) {
	// clean-up, not part of the checked trace: no goroutine of this pool may survive (its
	// events would end up in the next run's trace).  JoinAll on a pool without workers but
	// with queued tasks waits for ever by design, so give it a worker first.
	res := guarded(c09CallTime, func() (interface{}, error) {
		if r.tp.WorkerCount() == 0 {
			r.tp.SetWorkerCount(1, true)
		}
		r.tp.JoinAll()
		return nil, nil
	})
	verifhook.SetHandler(nil)
	c := r.c
	if res.TimedOut || res.Panicked {
		c09polluted = true
		c.Notes = append(c.Notes, "clean-up of a pool failed ("+r.desc.Scenario+"): later traces are not evaluated")
	}
	if c09polluted {
		snap = nil
	}
	key := fmt.Sprintf("%s/%d", r.desc.Scenario, r.desc.Seed)
	c.Dist["scenario_"+strings.SplitN(r.desc.Scenario, ":", 2)[0]]++
	if snap == nil {
		c.Count(key, true, r.desc)
		return
	}
	c.Dist["events"] += len(snap.labels)
	if len(snap.untranslatable) > 0 {
		c.Notes = append(c.Notes, "untranslatable hook events: "+strings.Join(snap.untranslatable, "; "))
		c.Violate("harness-untranslatable-event", snap.untranslatable[0], r.desc)
	}
	if len(snap.labels) > c09MaxTrace {
		c.Dist["trace_too_long_for_coq"]++
		c.Count(key, true, r.desc)
		return
	}
	id := c.NewID()
	done := make([]string, len(snap.done))
	for i, d := range snap.done {
		done[i] = fmt.Sprint(d)
	}
	term := fmt.Sprintf("mkCase %d %s %s %d %d %s", id, CoqList(snap.labels), CoqBool(drained && !r.bad),
		snap.qlen, snap.wcount, CoqList(done))
	c.AddCase(id, term, r.desc, key, true)
}

type c09snap struct {
	labels         []string
	untranslatable []string
	qlen, wcount   int
	done           []int
}

// snapshot at a quiescent point (after WaitAll / JoinAll with every AddTask returned): queue
// size, worker count and the executed tasks do not change any more, whatever the workers
// still do on their way to sleep.
func (r *c09run) snapshot() *c09snap {
	s := &c09snap{}
	st := r.tp.State()
	s.qlen = st["TaskQueueSize"].(int)
	s.wcount = r.tp.WorkerCount()
	s.labels, s.untranslatable = r.rec.copyTrace()
	r.tmu.Lock()
	for _, t := range r.tasks {
		for i := int32(0); i < atomic.LoadInt32(&t.finished); i++ {
			s.done = append(s.done, t.id)
		}
	}
	r.tmu.Unlock()
	sort.Ints(s.done)
	return s
}

// checkAllRanOnce: the exactly-once oracle on the per-task counters.
func (r *c09run) checkAllRanOnce(when string) {
	r.tmu.Lock()
	defer r.tmu.Unlock()
	for _, t := range r.tasks {
		n := atomic.LoadInt32(&t.started)
		if n > 1 {
			r.violate("task-run-twice", fmt.Sprintf("task %d was started %d times (%s)", t.id, n, when))
			return
		}
		if atomic.LoadInt32(&t.added) == 1 && atomic.LoadInt32(&t.finished) != 1 {
			r.violate("task-not-run", fmt.Sprintf("task %d was accepted by AddTask but not executed (%s)", t.id, when))
			return
		}
	}
}

// ---------------------------------------------------------------- controlled scenarios

var c09controlled = []string{"lost-wakeup-fresh", "lost-wakeup-after-task", "lost-wakeup-shrink", "lost-wakeup-two-workers", "lost-wakeup-at-wait"}

func c09Controlled(c *Ctx, name string) {
	desc := c09desc{Scenario: name}
	const hold = "pool.getTask.empty"
	switch name {
	case "lost-wakeup-fresh":
		desc.Schedule = []string{"worker: Pop=nil (held)", "AddTask: Push, Signal", "worker: idle, Wait", "task must run"}
	case "lost-wakeup-after-task":
		desc.Schedule = []string{"SetWorkerCount(1,true)", "AddTask(t1); worker 1 runs t1", "worker 1: getTask pops nil (held)",
			"AddTask(t2): Push, Signal - runs to completion", "worker 1 released", "no further call: t2 must be executed"}
	case "lost-wakeup-shrink":
		desc.Schedule = []string{"SetWorkerCount(1): worker 1 started", "worker 1: kill check reads 0, pops nil (held)",
			"SetWorkerCount(0,false): workerKill=1, Broadcast - runs to completion", "worker 1 released",
			"no further call: the worker must leave (WorkerCount 0)"}
	case "lost-wakeup-at-wait":
		desc.Schedule = []string{"worker: re-check done, about to Wait, holds L (held)", "AddTask: Push; its Signal needs L",
			"if AddTask returns although the worker holds L, the Signal was sent without L", "worker released: Wait", "task must run"}
	case "lost-wakeup-two-workers":
		desc.Schedule = []string{"SetWorkerCount(2): workers started", "both workers: getTask pops nil (held)",
			"AddTask(t1), AddTask(t2) run to completion", "workers released", "no further call: t1 and t2 must be executed"}
	}
	r := c09start(c, desc)
	rec := r.rec
	var snap *c09snap
	drained := false
	defer func() { r.finish(snap, drained) }()

	swcDone := make(chan struct{})
	startWorkers := func(n int) bool {
		rec.setHold(hold, n)
		go func() {
			defer close(swcDone)
			defer func() { recover() }()
			r.tp.SetWorkerCount(n, false) // returns once a worker is registered idle
		}()
		if !rec.awaitHeld(hold, n, c09CallTime) {
			c.Notes = append(c.Notes, name+": the worker did not reach the hold point (hooks missing?)")
			c.Violate("harness-hold-point-not-reached", "worker never reported "+hold, desc)
			rec.releaseAll()
			return false
		}
		return true
	}
	add := func() *c09Task {
		t := r.newTask()
		if !r.call("AddTask", func() { r.tp.AddTask(t); atomic.StoreInt32(&t.added, 1) }) {
			return nil
		}
		return t
	}
	ranAll := func() bool {
		r.tmu.Lock()
		defer r.tmu.Unlock()
		for _, t := range r.tasks {
			if atomic.LoadInt32(&t.finished) < 1 {
				return false
			}
		}
		return true
	}

	switch name {
	case "lost-wakeup-fresh", "lost-wakeup-two-workers":
		n := 1
		if name == "lost-wakeup-two-workers" {
			n = 2
		}
		if !startWorkers(n) {
			return
		}
		for i := 0; i < n; i++ {
			if add() == nil {
				rec.releaseAll()
				return
			}
		}
		rec.releaseAll()
		if !awaitPassive(c09Bound, ranAll) {
			r.violate("lost-wakeup", fmt.Sprintf("a task accepted by AddTask while the worker was between its empty Pop and its Wait was not executed within %v although the pool has %d worker(s) and no further call was made (lost wake-up)", c09Bound, n))
		}
		<-swcDone
	case "lost-wakeup-at-wait":
		// the hold point lies inside the L region between the worker's last check and its Wait:
		// a correct AddTask cannot finish before the worker is released (it needs L to signal)
		rec.setHold("pool.idle.wait", 1)
		go func() {
			defer close(swcDone)
			defer func() { recover() }()
			r.tp.SetWorkerCount(1, false)
		}()
		if !rec.awaitHeld("pool.idle.wait", 1, c09CallTime) {
			c.Violate("harness-hold-point-not-reached", "worker never reported pool.idle.wait", desc)
			rec.releaseAll()
			return
		}
		<-swcDone
		t := r.newTask()
		addDone := make(chan struct{})
		go func() {
			defer close(addDone)
			defer func() { recover() }()
			r.tp.AddTask(t)
			atomic.StoreInt32(&t.added, 1)
		}()
		select {
		case <-addDone: // Signal was sent while the worker holds L and is not yet waiting
		case <-time.After(300 * time.Millisecond): // blocked on L, as it must be
		}
		rec.releaseAll()
		select {
		case <-addDone:
		case <-time.After(c09CallTime):
			r.violate("pool-call-hangs", "AddTask did not return")
			return
		}
		if !awaitPassive(c09Bound, ranAll) {
			r.violate("lost-wakeup", fmt.Sprintf("a task was accepted by AddTask while the only worker was between its last queue check and its Wait (holding the condition's lock); it was not executed within %v, no further call made (the Signal was sent without the lock and lost)", c09Bound))
		}
	case "lost-wakeup-after-task":
		if !r.call("SetWorkerCount(1,true)", func() { r.tp.SetWorkerCount(1, true) }) {
			return
		}
		rec.setHold(hold, 1)
		if add() == nil {
			rec.releaseAll()
			return
		}
		// the worker runs t1 (if this very submission is lost the oracle below reports it too)
		if !rec.awaitHeld(hold, 1, c09Bound) {
			rec.releaseAll()
			if !ranAll() {
				r.violate("lost-wakeup", "the first task submitted to a one-worker pool was not executed within the bound, no further call made")
			}
			return
		}
		if add() == nil {
			rec.releaseAll()
			return
		}
		rec.releaseAll()
		if !awaitPassive(c09Bound, ranAll) {
			r.violate("lost-wakeup", fmt.Sprintf("a task accepted by AddTask while the only worker was between its empty Pop and its Wait was not executed within %v, no further call made (lost wake-up)", c09Bound))
		}
	case "lost-wakeup-shrink":
		if !startWorkers(1) {
			return
		}
		if !r.call("SetWorkerCount(0,false)", func() { r.tp.SetWorkerCount(0, false) }) {
			rec.releaseAll()
			return
		}
		rec.releaseAll()
		// WorkerCount only reads the map size under its lock: an observation, not a wake-up
		if !awaitPassive(c09Bound, func() bool { return r.tp.WorkerCount() == 0 }) {
			r.violate("lost-wakeup-kill", fmt.Sprintf("SetWorkerCount(0,false) was issued while the only worker was between its kill check and its Wait: the worker count is still %d after %v, no further call made (the Broadcast was lost)", r.tp.WorkerCount(), c09Bound))
		}
		if !r.bad {
			snap = r.snapshot()
		}
		// the first SetWorkerCount(1,false) polls for an idle worker; the worker may have come
		// and gone between two polls: give it one to see (clean-up, after the snapshot)
		select {
		case <-swcDone:
		case <-time.After(200 * time.Millisecond):
			guarded(c09CallTime, func() (interface{}, error) { r.tp.SetWorkerCount(1, true); return nil, nil })
			select {
			case <-swcDone:
			case <-time.After(c09CallTime):
			}
		}
		return
	}
	if r.bad {
		return
	}
	// quiesce and take the projection
	if !r.call("WaitAll", func() { r.tp.WaitAll() }) {
		return
	}
	r.checkAllRanOnce("after WaitAll")
	drained = true
	snap = r.snapshot()
}

// ---------------------------------------------------------------- free-running scenarios

func c09Script(c *Ctx, seed int64, maxWorkers int) c09desc {
	rng := newC09Rng(seed)
	d := c09desc{Scenario: "script", Seed: seed, Workers: 1 + rng.Intn(maxWorkers)}
	nops := 3 + rng.Intn(8)
	for i := 0; i < nops; i++ {
		switch k := rng.Intn(10); {
		case k < 3:
			d.Script = append(d.Script, c09op{Op: "burst", N: 1 + rng.Intn(40), G: 1 + rng.Intn(4), Async: rng.Intn(2) == 0})
		case k < 5:
			d.Script = append(d.Script, c09op{Op: "single"})
		case k < 7:
			d.Script = append(d.Script, c09op{Op: "resize", N: rng.Intn(maxWorkers + 1), Wait: rng.Intn(2) == 0})
		case k < 8:
			d.Script = append(d.Script, c09op{Op: "waitall"})
		default:
			d.Script = append(d.Script, c09op{Op: "pause", N: 20 + rng.Intn(400)})
		}
	}
	if rng.Intn(3) == 0 {
		d.Script = append(d.Script, c09op{Op: "joinall"})
	} else {
		d.Script = append(d.Script, c09op{Op: "waitall"})
	}
	return d
}

func c09RunScript(c *Ctx, desc c09desc) {
	if os.Getenv("C09_DEBUG") != "" {
		t0 := time.Now()
		defer func() { fmt.Fprintf(os.Stderr, "script %d: %v %+v\n", desc.Seed, time.Since(t0), desc.Script) }()
	}
	r := c09start(c, desc)
	var snap *c09snap
	drained := false
	defer func() { r.finish(snap, drained) }()

	var adders sync.WaitGroup
	workers := 0    // requested worker count (this goroutine is the only one resizing)
	settled := true // the last resize waited, so WorkerCount() == workers is already true
	addOne := func(t *c09Task) { r.tp.AddTask(t); atomic.StoreInt32(&t.added, 1) }
	joinAdders := func() bool {
		ch := make(chan struct{})
		go func() { adders.Wait(); close(ch) }()
		select {
		case <-ch:
			return true
		case <-time.After(c09CallTime):
			r.violate("pool-call-hangs", "AddTask did not return")
			return false
		}
	}
	resize := func(n int, wait bool) bool {
		if !settled {
			// never overlap an earlier non-waiting shrink (fixes/C09-resize-overlap.finding.md);
			// that shrink must complete on its own: its Broadcast may not be lost
			if !awaitPassive(c09Bound, func() bool { return r.tp.WorkerCount() == workers }) {
				r.violate("lost-wakeup-kill", fmt.Sprintf("SetWorkerCount(%d,false) did not reach its count within %v (still %d workers), no further call made", workers, c09Bound, r.tp.WorkerCount()))
				return false
			}
			settled = true
		}
		if !r.call(fmt.Sprintf("SetWorkerCount(%d,%v)", n, wait), func() { r.tp.SetWorkerCount(n, wait) }) {
			return false
		}
		if n < 0 {
			n = 0
		}
		if wait || n >= workers {
			// growing always completes inside the call; shrinking with wait returns at the count
			if got := r.tp.WorkerCount(); (wait || settled) && got != n {
				r.violate("setworkercount-wrong-count", fmt.Sprintf("SetWorkerCount(%d,%v) returned with %d workers", n, wait, got))
				return false
			}
		}
		settled = wait || (settled && n >= workers)
		workers = n
		return true
	}
	if !resize(desc.Workers, true) {
		return
	}
	for _, op := range desc.Script {
		if r.bad || c.Enough() {
			break
		}
		switch op.Op {
		case "burst":
			per := op.N/op.G + 1
			for g := 0; g < op.G; g++ {
				var ts []*c09Task
				for i := 0; i < per; i++ {
					ts = append(ts, r.newTask())
				}
				adders.Add(1)
				go func() {
					defer adders.Done()
					defer func() { recover() }()
					for _, t := range ts {
						addOne(t)
					}
				}()
			}
			if !op.Async && !joinAdders() {
				return
			}
		case "single":
			if !joinAdders() {
				return
			}
			t := r.newTask()
			if !r.call("AddTask", func() { addOne(t) }) {
				return
			}
			// "started ... without any further call being needed": nothing is called until it ran
			if workers > 0 && settled {
				if !awaitPassive(c09Bound, func() bool { return atomic.LoadInt32(&t.finished) >= 1 }) {
					r.violate("lost-wakeup", fmt.Sprintf("a single task added to a pool with %d workers was not executed within %v, no further call made", workers, c09Bound))
					return
				}
			}
		case "resize":
			if !resize(op.N, op.Wait) {
				return
			}
		case "pause":
			time.Sleep(time.Duration(op.N) * time.Microsecond)
		case "waitall":
			if !joinAdders() {
				return
			}
			if !r.call("WaitAll", func() { r.tp.WaitAll() }) {
				return
			}
			// every AddTask has returned before WaitAll was called and nobody adds meanwhile
			if r.tp.WorkerCount() > 0 {
				r.checkAllRanOnce("WaitAll returned while a task was queued or running")
			}
		case "joinall":
			if !joinAdders() {
				return
			}
			if workers == 0 && !resize(1, true) {
				// "while the pool has at least one worker": JoinAll on a pool without workers and
				// with queued tasks waits for ever by design
				return
			}
			if !r.call("JoinAll", func() { r.tp.JoinAll() }) {
				return
			}
			if n := r.tp.WorkerCount(); n != 0 {
				r.violate("joinall-workers-left", fmt.Sprintf("JoinAll returned with %d workers", n))
				return
			}
			r.checkAllRanOnce("JoinAll returned")
			workers, settled = 0, true
		}
	}
	if r.bad || !joinAdders() {
		return
	}
	// the script ends with waitall or joinall: a quiescent point
	last := desc.Script[len(desc.Script)-1].Op
	wc := r.tp.WorkerCount()
	drained = last == "joinall" || (last == "waitall" && wc > 0)
	if last == "waitall" && !settled {
		// a non-waiting shrink may still be in progress: worker count not stable, no projection
		snap = nil
		c.Dist["no_projection_resize_in_progress"]++
		// still validate the trace itself: take it with the current count after the count settles
		if awaitPassive(c09Bound, func() bool { return r.tp.WorkerCount() == workers }) {
			snap = r.snapshot()
		}
		return
	}
	snap = r.snapshot()
}

// ---------------------------------------------------------------- resizes while every worker is busy

// k workers, each kept busy by a task that blocks on a gate.  Sequential SetWorkerCount
// calls: non-waiting shrinks (nothing can consume the kill count while everybody is busy),
// then one last request N (a grow beyond k, or a shrink below k).  The tasks are released.
// "Changing the worker count converges to the requested number": after quiescence the pool
// has exactly N workers and every task ran once.  (N = k is excluded: that request is a
// no-op in SetWorkerCount and leaves the earlier kill count standing - resize-overlap finding.)
func c09ResizeBusy(c *Ctx, desc c09desc) {
	r := c09start(c, desc)
	var snap *c09snap
	drained := false
	defer func() { r.finish(snap, drained) }()
	k, n := desc.Workers, desc.N
	if k < 1 || n < 1 || n == k {
		return
	}
	gate := make(chan struct{})
	released := false
	release := func() {
		if !released {
			released = true
			close(gate)
		}
	}
	defer release() // runs before finish(): no task may keep a worker for ever
	if !r.call(fmt.Sprintf("SetWorkerCount(%d,true)", k), func() { r.tp.SetWorkerCount(k, true) }) {
		return
	}
	for i := 0; i < k; i++ {
		t := r.newTask()
		t.gate = gate
		if !r.call("AddTask", func() { r.tp.AddTask(t); atomic.StoreInt32(&t.added, 1) }) {
			return
		}
	}
	allStarted := func() bool {
		r.tmu.Lock()
		defer r.tmu.Unlock()
		for _, t := range r.tasks {
			if atomic.LoadInt32(&t.started) < 1 {
				return false
			}
		}
		return true
	}
	if !awaitPassive(c09Bound, allStarted) {
		r.violate("lost-wakeup", fmt.Sprintf("%d tasks added to %d idle workers were not all started within %v, no further call made", k, k, c09Bound))
		return
	}
	var calls sync.WaitGroup
	// a SetWorkerCount(m>0, ...) that shrinks polls for an idle worker / for the count before it
	// returns, which needs the tasks to be released: it runs on its own goroutine and the
	// next call is issued once its workerKill store and Broadcast are recorded
	resizeAsync := func(m int, wait bool) bool {
		kills, bcasts := r.rec.countLabels("LSetKill"), r.rec.countLabels("LEBcast")
		calls.Add(1)
		go func() {
			defer calls.Done()
			defer func() { recover() }()
			r.tp.SetWorkerCount(m, wait)
		}()
		if !awaitPassive(c09CallTime, func() bool {
			return r.rec.countLabels("LSetKill") > kills && r.rec.countLabels("LEBcast") > bcasts
		}) {
			r.violate("pool-call-hangs", fmt.Sprintf("SetWorkerCount(%d,%v) did not store workerKill and broadcast", m, wait))
			return false
		}
		return true
	}
	for _, m := range desc.Shrinks {
		if m < 0 || m >= k {
			continue
		}
		if m == 0 {
			if !r.call("SetWorkerCount(0,false)", func() { r.tp.SetWorkerCount(0, false) }) {
				return
			}
		} else if !resizeAsync(m, false) {
			return
		}
	}
	if n > k {
		// grow: returns once the new workers exist and one of them is idle
		if !r.call(fmt.Sprintf("SetWorkerCount(%d,%v)", n, desc.Wait), func() { r.tp.SetWorkerCount(n, desc.Wait) }) {
			return
		}
	} else if !resizeAsync(n, desc.Wait) {
		return
	}
	release()
	done := make(chan struct{})
	go func() { calls.Wait(); close(done) }()
	select {
	case <-done:
	case <-time.After(c09CallTime):
		r.violate("pool-call-hangs", "a SetWorkerCount call did not return after the tasks were released")
		return
	}
	if !r.call("WaitAll", func() { r.tp.WaitAll() }) {
		return
	}
	r.checkAllRanOnce("after WaitAll")
	if r.bad {
		return
	}
	// quiescence: the count is the requested one and stays there (a pending kill count would
	// still be consumed: every sleeper has its wake-up, see C09_no_lost_wakeup I2)
	deadline := time.Now().Add(2 * c09Bound)
	last, since := -1, time.Now()
	for {
		got := r.tp.WorkerCount()
		if got != last {
			last, since = got, time.Now()
		}
		if got == n && time.Since(since) > 300*time.Millisecond {
			break
		}
		if time.Now().After(deadline) {
			r.violate("resize-not-converged", fmt.Sprintf("%d busy workers; non-waiting shrinks to %v, then SetWorkerCount(%d,%v); tasks released: the pool settles at %d workers instead of the %d requested last", k, desc.Shrinks, n, desc.Wait, got, n))
			return
		}
		time.Sleep(2 * time.Millisecond)
	}
	drained = true
	snap = r.snapshot()
}

var c09busyCorpus = []c09desc{
	{Scenario: "resize-busy", Workers: 2, Shrinks: []int{0}, N: 6},
	{Scenario: "resize-busy", Workers: 2, Shrinks: []int{0}, N: 6, Wait: true},
	{Scenario: "resize-busy", Workers: 3, Shrinks: []int{1}, N: 5},
	{Scenario: "resize-busy", Workers: 4, Shrinks: []int{0}, N: 2},
	{Scenario: "resize-busy", Workers: 4, Shrinks: []int{2, 0, 1}, N: 3, Wait: true},
	{Scenario: "resize-busy", Workers: 1, Shrinks: []int{0}, N: 2},
}

func c09BusyRandom(seed int64) c09desc {
	rng := newC09Rng(seed)
	d := c09desc{Scenario: "resize-busy", Seed: seed, Workers: 1 + rng.Intn(5), Wait: rng.Intn(2) == 0}
	for i := rng.Intn(4); i > 0; i-- {
		d.Shrinks = append(d.Shrinks, rng.Intn(d.Workers))
	}
	if d.Workers > 1 && rng.Intn(3) == 0 {
		d.N = 1 + rng.Intn(d.Workers-1) // last request: a shrink below k
	} else {
		d.N = d.Workers + 1 + rng.Intn(5) // last request: a grow beyond k
	}
	return d
}

// ---------------------------------------------------------------- entry

func runC09(c *Ctx) error {
	c.Rule = "controlled: the lost wake-up window forced through the hooks (worker held after its empty Pop; AddTask / shrinking SetWorkerCount completed; worker released; bounded wait without any further call) in 4 variants, plus the worker held between its last check and Wait while holding L; free-running: seeded scripts of 3-10 operations (burst of 1-40 tasks from 1-4 goroutines, single submission with passive wait, resize to 0..max with/without wait, WaitAll, pause) on 1..max workers, ending in WaitAll or JoinAll; resize-busy: 1-5 workers all kept busy by gated tasks, 0-3 sequential non-waiting shrinks, then one last request (grow beyond k or shrink below k, wait true/false), tasks released, the pool must settle at the count requested last (6 fixed + seeded random instances); every recorded trace is evaluated against the model; distinct by (scenario, seed)"
	c.BeginCases("From Coq Require Import List ZArith.\nImport ListNotations.\nFrom Ecal Require Import Model.Pool Run.RunC09.", "case", 12)
	if c.caseFiles == nil {
		c.caseFiles = []string{} // a run that stops before any case is emitted must still write a list
	}
	if c.Replay != "" {
		var d c09desc
		if err := c.LoadReplay(&d); err != nil {
			return err
		}
		if d.Scenario == "script" {
			c09RunScript(c, d)
		} else if d.Scenario == "resize-busy" {
			c09ResizeBusy(c, d)
		} else {
			c09Controlled(c, d.Scenario)
		}
		return nil
	}
	for _, name := range c09controlled {
		c09Controlled(c, name)
	}
	reps := c.Pick(2, 25)
	for i := 0; i < reps && !c.Enough() && len(c.Violations) == 0; i++ {
		for _, name := range c09controlled {
			c09Controlled(c, name)
		}
	}
	for _, d := range c09busyCorpus {
		if !c.Enough() {
			c09ResizeBusy(c, d)
		}
	}
	for i := 0; i < c.Pick(14, 200) && !c.Enough() && c.vcount["resize-not-converged"] < 3; i++ {
		c09ResizeBusy(c, c09BusyRandom(c.Seed*7919+int64(i)))
	}
	n := c.Pick(70, 1500)
	maxW := 16
	for i := 0; i < n; i++ {
		if c.Enough() || c.vcount["lost-wakeup"]+c.vcount["pool-call-hangs"] >= 3 {
			c.Notes = append(c.Notes, "sweep stopped early after repeated violations")
			break
		}
		mw := maxW
		if i%3 == 0 {
			mw = 2 // small pools make the interesting windows likelier
		} else if i%3 == 1 {
			mw = 6
		}
		c09RunScript(c, c09Script(c, c.Seed*1000003+int64(i), mw))
	}
	c.Exhaustive = false
	return nil
}
