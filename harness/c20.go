//go:build c20

package main

// C20 — a packed executable always finds and runs its embedded program.
//
// Implementation side: a synthetic "interpreter binary" B (length and content swept) and
// a project tree are packed with CLIPacker.Pack; the produced file is checked to be
// B ++ marker ++ zip(tree); then RunPackedBinary is driven in-process on the produced file
// (osArgs / osExit / osStderr / handleError replaced through the verif-tagged export
// cli/tool/export_verif.go).  The entry program imports modules from nested directories
// and hands what it sees to the harness through a stdlib function registered by the
// harness (public stdlib.AddStdlibFunc API); while it runs, the file handle that
// RunPackedBinary positioned on the archive is still open, so the offset it determined is
// read from /proc/self/fdinfo (best effort: "not observable" is not a failure).
// marker, b1, b2 are read from the implementation on every run and go into every case.

import (
	"archive/zip"
	"bytes"
	"context"
	"crypto/sha256"
	"encoding/hex"
	"fmt"
	"io"
	"math/rand"
	"os"
	"os/exec"
	"path/filepath"
	"sort"
	"strconv"
	"strings"
	"time"

	"github.com/krotik/ecal/cli/tool"
	"github.com/krotik/ecal/interpreter"
	"github.com/krotik/ecal/parser"
	"github.com/krotik/ecal/scope"
	"github.com/krotik/ecal/stdlib"
	"github.com/krotik/ecal/util"
)

func init() { register("C20", runC20) }

type c20case struct {
	Len  int    `json:"len"`            // length of the source binary B
	Fill string `json:"fill"`           // zeros | hash | nl | partial | inside | lit
	Base int    `json:"base,omitempty"` // partial/inside: filler byte
	Part int    `json:"part,omitempty"` // partial: length of the marker prefix placed in B
	At   int    `json:"at,omitempty"`   // partial/inside: filler bytes between that text and the end of B
	Lit  string `json:"lit,omitempty"`  // lit: B in hex
	B1   int    `json:"b1,omitempty"`   // 0: the package's own buffer sizes
	B2   int    `json:"b2,omitempty"`
	Tree string `json:"tree"` // basic | tricky
	RC   int    `json:"rc"`   // return code the entry program must deliver
	// re-pack: before the pack under test, another project was packed into the SAME target file
	PrevTree string `json:"prev_tree,omitempty"` // tree of the earlier pack ("" = the target is a fresh file)
	PrevLen  int    `json:"prev_len,omitempty"`  // length of the earlier source binary (zeros)
	// end to end: the real command is built, packs a project and the result is started as a process
	E2E  bool     `json:"e2e,omitempty"`
	Args []string `json:"args,omitempty"` // e2e: arguments the packed executable is started with
}

// ---- what the packed program reports ------------------------------------------------

type c20probe struct {
	target  string
	reports []string
	pos     int64
	posOK   bool
	probed  bool
}

var c20cur *c20probe

type c20report struct{}

func (c20report) Run(instanceID string, vs parser.Scope, is map[string]interface{}, tid uint64, args []interface{}) (interface{}, error) {
	p := c20cur
	if p == nil {
		return nil, nil
	}
	parts := make([]string, len(args))
	for i, a := range args {
		parts[i] = c20digest(fmt.Sprint(a))
	}
	p.reports = append(p.reports, strings.Join(parts, "="))
	if !p.probed {
		p.probed = true
		p.pos, p.posOK = c20fdpos(p.target)
	}
	return nil, nil
}
func (c20report) DocString() (string, error) { return "verif harness: report a value", nil }

// c20digest: long values are compared by length and SHA-256 (on the Go side only).
func c20digest(v string) string {
	if len(v) <= 256 {
		return v
	}
	return fmt.Sprintf("sha256:%x len=%d", sha256.Sum256([]byte(v)), len(v))
}

// c20fdpos: the file offset of the single descriptor this process holds on path.
func c20fdpos(path string) (int64, bool) {
	ents, err := os.ReadDir("/proc/self/fd")
	if err != nil {
		return 0, false
	}
	var res int64
	n := 0
	for _, e := range ents {
		t, err := os.Readlink("/proc/self/fd/" + e.Name())
		if err != nil || t != path {
			continue
		}
		b, err := os.ReadFile("/proc/self/fdinfo/" + e.Name())
		if err != nil {
			continue
		}
		for _, line := range strings.Split(string(b), "\n") {
			if strings.HasPrefix(line, "pos:") {
				if v, err := strconv.ParseInt(strings.TrimSpace(line[4:]), 10, 64); err == nil {
					res = v
					n++
				}
			}
		}
	}
	return res, n == 1
}

// ---- project trees ------------------------------------------------------------------

type c20tree struct {
	dir     string
	files   map[string]string // relative slash path -> content
	expects []string          // reports the entry program must make
	ka, kb  int
	big     int               // > 0: tree "big-<size>-<kind>": entry file, one module and one data file of exactly this size
	bigFill string            // text the big entry file is padded with
	links   map[string]string // relative slash path -> symlink target (the file is a symbolic link to a regular file)
}

// c20filler: n bytes of text that can stand inside an ECAL raw string; "rep" compresses to
// almost nothing, "rnd" (seeded PRNG over 64 characters) hardly at all.
func c20filler(n int, kind string, seed int64) string {
	if n <= 0 {
		return ""
	}
	b := make([]byte, n)
	if kind == "rep" {
		pat := "0123456789abcdef ####ECALSRC#### "
		for i := range b {
			b[i] = pat[i%len(pat)]
		}
		return string(b)
	}
	const alpha = "ABCDEFGHIJKLMNOPQRSTUVWXYZabcdefghijklmnopqrstuvwxyz0123456789#+"
	r := rand.New(rand.NewSource(seed))
	for i := range b {
		b[i] = alpha[r.Intn(len(alpha))]
	}
	return string(b)
}

const c20payloadA = "A-payload #### \\n####ECALSRC#### {{x}} 'quoted' end"
const c20payloadB = "B payload with PK and #### 1234567890 ~"

func c20mktree(root, name string, marker string) (*c20tree, error) {
	t := &c20tree{dir: filepath.Join(root, "tree-"+name), files: map[string]string{}}
	t.ka, t.kb = 7, 30
	t.files["lib/a.ecal"] = "v := r\"" + c20payloadA + "\"\nk := 7\n"
	t.files["lib/deep/er/b.ecal"] = "import \"lib/a.ecal\" as a\nv := \"" + c20payloadB + "\"\nk := 30\nfunc f(x) {\n    return x * 2 + a.k\n}\n"
	t.files["empty.txt"] = ""
	var blob bytes.Buffer
	for r := 0; r < 2; r++ {
		for i := 0; i < 256; i++ {
			blob.WriteByte(byte(i))
		}
		blob.WriteString(marker)
	}
	t.files["data/blob.bin"] = blob.String()
	t.files["data/sub/empty.ecal"] = ""
	if name == "tricky" {
		// the marker text inside the archive (zip headers store names verbatim, the blob is
		// long enough to be visible too): the FIRST marker of the file is the separator
		t.files["x"+marker+"y/z.ecal"] = "k := 1\n"
		t.files["####ECALSRC####"] = marker + marker
		t.files["lib/\n"] = "#"
	}
	t.expects = []string{"a.v=" + c20payloadA, "b.v=" + c20payloadB, "b.f=13"}
	if strings.HasPrefix(name, "big-") {
		// files larger than one decompression window (32 KiB): as imported module, as data file
		// (true binary content; checked in the produced archive) and - in c20entry - as entry file
		f := strings.Split(name, "-")
		size, err := strconv.Atoi(f[1])
		if err != nil || len(f) != 3 || size < 1024 {
			return nil, fmt.Errorf("bad tree name %q", name)
		}
		kind := f[2]
		t.big = size
		head, tail := "v := r\"", "\"\nk := 5\n"
		fill := c20filler(size-len(head)-len(tail), kind, int64(size))
		t.files["big/mod.ecal"] = head + fill + tail
		t.expects = append(t.expects, "big.v="+c20digest(fill), "big.k=5")
		data := make([]byte, size)
		if kind == "rep" {
			for i := range data {
				data[i] = byte(i / 4096)
			}
		} else {
			rand.New(rand.NewSource(int64(size) + 1)).Read(data)
		}
		t.files["big/data.bin"] = string(data)
		t.files["big/empty.dat"] = ""
		t.files["big/small.ecal"] = "k := 2\n"
		t.bigFill = c20filler(size, kind, int64(size)+2)
	}
	// files of the project that are symbolic links to regular files: a module shared with
	// another project (target outside the project directory, relative link) and an alias inside
	// the project; a packed file is whatever the path holds when read (every project directory)
	shared := filepath.Join(root, "shared-"+name, "common")
	linkContent := "k := 11\nv := \"linked module\"\n"
	if err := os.MkdirAll(shared, 0o755); err == nil && os.WriteFile(filepath.Join(shared, "real.ecal"), []byte(linkContent), 0o644) == nil {
		t.links = map[string]string{
			"lib/link.ecal":   filepath.Join("..", "..", "shared-"+name, "common", "real.ecal"),
			"data/alias.ecal": filepath.Join("..", "lib", "a.ecal"),
		}
		t.files["lib/link.ecal"] = linkContent
		t.files["data/alias.ecal"] = t.files["lib/a.ecal"]
	}
	for rel, content := range t.files {
		p := filepath.Join(t.dir, filepath.FromSlash(rel))
		if err := os.MkdirAll(filepath.Dir(p), 0o755); err != nil {
			return nil, err
		}
		if target, ok := t.links[rel]; ok {
			if err := os.Symlink(target, p); err == nil {
				continue
			}
			// no symbolic links on this file system: a regular file with the same content
		}
		if err := os.WriteFile(p, []byte(content), 0o644); err != nil {
			return nil, err
		}
	}
	if t.links != nil {
		t.expects = append(t.expects[:3:3], append([]string{"lk.k=11", "al.k=7"}, t.expects[3:]...)...)
	}
	if err := os.MkdirAll(filepath.Join(t.dir, "emptydir"), 0o755); err != nil {
		return nil, err
	}
	return t, nil
}

func c20entry(t *c20tree, rc int) string {
	head := "import \"lib/a.ecal\" as a\nimport \"lib/deep/er/b.ecal\" as b\n" +
		"verifc20.report(\"a.v\", a.v)\nverifc20.report(\"b.v\", b.v)\nverifc20.report(\"b.f\", b.f(3))\n"
	if t.links != nil {
		head += "import \"lib/link.ecal\" as lk\nverifc20.report(\"lk.k\", lk.k)\nimport \"data/alias.ecal\" as al\nverifc20.report(\"al.k\", al.k)\n"
	}
	try := func(path, tag string) string {
		return "try {\n    import \"" + path + "\" as x" + tag + "\n    verifc20.report(\"" + tag + "\", \"imported\")\n} except e {\n    verifc20.report(\"" + tag + "\", e.error)\n}\n"
	}
	// empty, binary and absent files: whatever importing them does, it must be what it does
	// when the same files are served from memory (reference run, c20reference)
	tries := try("data/sub/empty.ecal", "empty") + try("data/blob.bin", "blob") + try("empty.txt", "emptytxt") + try("lib/absent.ecal", "absent")
	if t.big == 0 {
		return head + tries + fmt.Sprintf("a.k + b.k + 200 - %d\n", 200+t.ka+t.kb-rc)
	}
	// big tree: the entry file itself has exactly t.big bytes; what decides the reports and the
	// return code stands at its very end, behind a long raw string
	head += "import \"big/mod.ecal\" as big\nverifc20.report(\"big.v\", big.v)\nverifc20.report(\"big.k\", big.k)\n" +
		"import \"big/small.ecal\" as small\n" + tries + try("big/data.bin", "bigdata") + try("big/empty.dat", "bigempty") + "pad := r\""
	tail := "\"\nverifc20.report(\"pad\", pad)\n" + fmt.Sprintf("a.k + b.k + big.k + small.k + 200 - %d\n", 200+t.ka+t.kb+5+2-rc)
	n := t.big - len(head) - len(tail)
	if n < 0 {
		n = 0
	}
	return head + t.bigFill[:n] + tail
}

// c20reference runs the entry program directly, its imports served from memory with the
// project files as they are on disk: what the packed program must report and return.
func c20reference(t *c20tree, entry string, name string) ([]string, int, bool) {
	probe := &c20probe{probed: true}
	c20cur = probe
	defer func() { c20cur = nil }()
	il := &util.MemoryImportLocator{Files: map[string]string{".ecalsrc-entry": entry}}
	for k, v := range t.files {
		il.Files[k] = v
	}
	r := guarded(20*time.Second, func() (interface{}, error) {
		erp := interpreter.NewECALRuntimeProvider(name, il, nil)
		ast, err := parser.ParseWithRuntime(os.Args[0], entry, erp)
		if err != nil {
			return nil, err
		}
		if err = ast.Runtime.Validate(); err != nil {
			return nil, err
		}
		return ast.Runtime.Eval(scope.NewScope(scope.GlobalScope), make(map[string]interface{}), erp.NewThreadID())
	})
	if r.Panicked || r.TimedOut || r.Err != nil {
		return nil, 0, false
	}
	f, ok := r.Val.(float64)
	return probe.reports, int(f), ok
}

// ---- the source binary ----------------------------------------------------------------

func c20binary(d c20case, marker string) ([]byte, string, bool) {
	rep := func(n int, b int) string { return fmt.Sprintf("Rep %d %d", n, b) }
	switch d.Fill {
	case "zeros":
		return bytes.Repeat([]byte{0}, d.Len), CoqList([]string{rep(d.Len, 0)}), true
	case "hash":
		return bytes.Repeat([]byte{'#'}, d.Len), CoqList([]string{rep(d.Len, '#')}), true
	case "nl":
		return bytes.Repeat([]byte{'\n'}, d.Len), CoqList([]string{rep(d.Len, '\n')}), true
	case "partial", "inside":
		text := marker
		if d.Fill == "partial" {
			if d.Part < 0 || d.Part > len(marker) {
				return nil, "", false
			}
			text = marker[:d.Part]
		}
		head := d.Len - len(text) - d.At
		if head < 0 || d.At < 0 || d.Base < 0 || d.Base > 255 {
			return nil, "", false
		}
		b := append(bytes.Repeat([]byte{byte(d.Base)}, head), text...)
		b = append(b, bytes.Repeat([]byte{byte(d.Base)}, d.At)...)
		return b, CoqList([]string{rep(head, d.Base), "Lit " + CoqBytes(text), rep(d.At, d.Base)}), true
	case "lit":
		b, err := hex.DecodeString(d.Lit)
		if err != nil || len(b) != d.Len {
			return nil, "", false
		}
		return b, CoqList([]string{"Lit " + CoqBytes(string(b))}), true
	}
	return nil, "", false
}

// ---- one case -------------------------------------------------------------------------

type c20env struct {
	root  string
	trees map[string]*c20tree
	n     int
	mk    string // the marker bound to MK in the cases files
}

func c20key(d c20case) string {
	return fmt.Sprintf("%d/%s/%d/%d/%d/%s/%d/%d/%s/%s/%d/%v%v", d.Len, d.Fill, d.Base, d.Part, d.At, d.Lit, d.B1, d.B2, d.Tree, d.PrevTree, d.PrevLen, d.E2E, d.Args)
}

func c20one(c *Ctx, env *c20env, d c20case) {
	if d.Tree == "" {
		d.Tree = "basic"
	}
	if d.B1 != 0 {
		defer tool.VerifSetPackBuffers(d.B1, d.B2)()
	}
	marker, b1, b2 := tool.VerifPackConstants()
	t := env.trees[d.Tree]
	if t == nil {
		var err error
		if t, err = c20mktree(env.root, d.Tree, marker); err != nil {
			panic(err)
		}
		env.trees[d.Tree] = t
	}
	bin, segs, ok := c20binary(d, marker)
	if !ok {
		c.Dist["skipped_bad_description"]++
		return
	}
	env.n++
	src := filepath.Join(env.root, "source.bin")
	dst := filepath.Join(env.root, fmt.Sprintf("packed-%d", env.n%4))
	entryFile := filepath.Join(env.root, "entry.ecal")
	entry := c20entry(t, d.RC)
	if err := os.WriteFile(src, bin, 0o644); err != nil {
		panic(err)
	}
	if err := os.WriteFile(entryFile, []byte(entry), 0o644); err != nil {
		panic(err)
	}
	os.Remove(dst)

	// re-pack: the target already exists and holds an earlier pack of another project
	// (different entry, return code and files, possibly much longer than the new output)
	if d.PrevTree != "" {
		pt := env.trees[d.PrevTree]
		if pt == nil {
			var err error
			if pt, err = c20mktree(env.root, d.PrevTree, marker); err != nil {
				panic(err)
			}
			env.trees[d.PrevTree] = pt
		}
		psrc := filepath.Join(env.root, "prev-source.bin")
		pentry := filepath.Join(env.root, "prev-entry.ecal")
		if err := os.WriteFile(psrc, bytes.Repeat([]byte{0}, d.PrevLen), 0o644); err != nil {
			panic(err)
		}
		if err := os.WriteFile(pentry, []byte(c20entry(pt, d.RC%100+121)), 0o644); err != nil {
			panic(err)
		}
		pr := guarded(20*time.Second, func() (interface{}, error) {
			p := tool.NewCLIPacker()
			p.EntryFile = pentry
			p.Dir, p.SourceBinary, p.TargetBinary = &pt.dir, &psrc, &dst
			p.LogOut = io.Discard
			return nil, p.Pack()
		})
		if pr.TimedOut || pr.Panicked || pr.Err != nil {
			c.Violate("pack-error", fmt.Sprintf("the earlier Pack into the target failed: %+v", pr), d)
			c.Count(c20key(d), true, d)
			return
		}
		c.Dist["repack"]++
	}

	// what the program must do: reference run, cross-checked against the fixed expectations
	expects, refRC, refOK := c20reference(t, entry, dst)
	if !refOK || refRC != d.RC || len(expects) < len(t.expects) {
		panic(fmt.Sprintf("C20 harness: reference run of the entry program failed (%v %v %v)", refOK, refRC, expects))
	}
	for i := range t.expects {
		if expects[i] != t.expects[i] {
			panic(fmt.Sprintf("C20 harness: reference run reports %q, expected %q", expects[i], t.expects[i]))
		}
	}

	// pack
	r := guarded(20*time.Second, func() (interface{}, error) {
		p := tool.NewCLIPacker()
		p.EntryFile = entryFile
		p.Dir, p.SourceBinary, p.TargetBinary = &t.dir, &src, &dst
		p.LogOut = io.Discard
		return nil, p.Pack()
	})
	switch {
	case r.TimedOut:
		c.Violate("nontermination", "Pack did not finish within 20s", d)
		c.Count(c20key(d), true, d)
		return
	case r.Panicked:
		c.Violate("pack-panic", "Pack panicked: "+r.PanicMsg, d)
		c.Count(c20key(d), true, d)
		return
	case r.Err != nil:
		c.Violate("pack-error", "Pack returned an error: "+r.Err.Error(), d)
		c.Count(c20key(d), true, d)
		return
	}

	// the produced file
	out, err := os.ReadFile(dst)
	if err != nil {
		c.Violate("pack-error", "Pack produced no file: "+err.Error(), d)
		c.Count(c20key(d), true, d)
		return
	}
	layout := len(out) >= len(bin)+len(marker) && bytes.Equal(out[:len(bin)], bin) &&
		string(out[len(bin):len(bin)+len(marker)]) == marker
	var z []byte
	if layout {
		z = out[len(bin)+len(marker):]
		want := map[string]string{".ecalsrc-entry": entry}
		for k, v := range t.files {
			want[k] = v
		}
		layout = c20zipEquals(z, want)
	}
	zhead := z
	if len(zhead) > 4 {
		zhead = zhead[:4]
	}

	// run
	probe := &c20probe{target: dst}
	exitCalled, exitCode, exits := false, 0, 0
	var herr error
	herrCalled := false
	var stderr bytes.Buffer
	restore := tool.VerifSetProcessEnv([]string{dst},
		func(code int) { exitCalled, exitCode = true, code; exits++ },
		&stderr,
		func(e error) { herrCalled = true; herr = e })
	c20cur = probe
	r = guarded(20*time.Second, func() (interface{}, error) {
		tool.RunPackedBinary()
		return nil, nil
	})
	c20cur = nil
	restore()
	// a panic / a hang is reported at once; the case still goes to the Coq side (exit callback
	// not reached), so that a replay of it is evaluated like any other case
	aborted := r.TimedOut || r.Panicked
	switch {
	case r.TimedOut:
		c.Violate("nontermination", "RunPackedBinary did not finish within 20s", d)
	case r.Panicked:
		c.Violate("run-panic", "RunPackedBinary panicked: "+r.PanicMsg, d)
	}
	reached := !aborted && exitCalled && exits == 1 && herrCalled && herr == nil
	rcOK := reached && exitCode == d.RC
	filesOK := reached && stderr.Len() == 0 && len(probe.reports) == len(expects)
	if filesOK {
		for i := range expects {
			if probe.reports[i] != expects[i] {
				filesOK = false
			}
		}
	}
	off := "None"
	if probe.posOK {
		off = fmt.Sprintf("(Some %d)", probe.pos)
		c.Dist["offset_observed"]++
	}
	switch {
	case aborted:
		c.Dist["obs_panic_or_hang"]++
		probe.posOK = false
		off = "None"
	case !exitCalled && herr == nil:
		c.Dist["obs_fell_through"]++
	case herr != nil:
		c.Dist["obs_error"]++
	default:
		c.Dist["obs_exit_reached"]++
	}
	c.Dist["fill_"+d.Fill]++
	c.Dist[fmt.Sprintf("geometry_%d+%d", b1, b2)]++
	c.Dist["tree_"+d.Tree]++
	id := c.NewID()
	mterm := "MK"
	if marker != env.mk {
		mterm = CoqBytes(marker)
	}
	term := fmt.Sprintf("mkCase %d %s %d %d %s %s %d %s %s %s %s %s", id, mterm, b1, b2, segs,
		CoqBytes(string(zhead)), len(z), CoqBool(layout), CoqBool(reached), CoqBool(rcOK), CoqBool(filesOK), off)
	c.AddCase(id, term, d, c20key(d), d.Len > 0)
}

func c20zipEquals(z []byte, want map[string]string) bool {
	zr, err := zip.NewReader(bytes.NewReader(z), int64(len(z)))
	if err != nil {
		return false
	}
	got := map[string]string{}
	for _, f := range zr.File {
		rc, err := f.Open()
		if err != nil {
			return false
		}
		b, err := io.ReadAll(rc)
		rc.Close()
		if err != nil {
			return false
		}
		if _, dup := got[f.Name]; dup {
			return false
		}
		got[f.Name] = string(b)
	}
	if len(got) != len(want) {
		return false
	}
	for k, v := range want {
		if g, ok := got[k]; !ok || g != v {
			return false
		}
	}
	return true
}

// ---- sweep ----------------------------------------------------------------------------

func runC20(c *Ctx) error {
	c.Rule = "source binaries described by (length, filler): all zeros / all '#' / all newlines / filler + a prefix of the marker (every prefix length) ending 0.. bytes before the end / the whole marker inside / short literal byte strings over {0,'\\n','#','E','P'}; lengths over two periods of the real buffer geometry (b1, b1+b2) and, with the buffer sizes set through the verif export, exhaustively over small geometries; project trees with nested directories, empty and binary files, marker text in file names and contents, and - trees big-<size>-<rep|rnd> - entry file, imported module and data file of 32767..300000 bytes (compressible and PRNG content; long values compared by SHA-256 on the Go side); re-pack into an existing target (smaller after larger, same twice, larger after smaller); end to end: the real command built from the repository packs a project and the packed executable is started as a process with 9 argument lists (tool names as first argument included); non-trivial = non-empty binary; distinct by (length, filler, geometry, tree)"
	// the marker as read from the implementation, once per cases file (MK), used by every case
	mk0, _, _ := tool.VerifPackConstants()
	c.BeginCases("From Ecal Require Import Common.Bytes Run.RunC20.\nDefinition MK : bytes := "+CoqBytes(mk0)+".", "case", c.Pick(250, 1500))

	if err := stdlib.AddStdlibPkg("verifc20", "verif harness"); err != nil {
		return err
	}
	if err := stdlib.AddStdlibFunc("verifc20", "report", c20report{}); err != nil {
		return err
	}
	root, err := os.MkdirTemp("", "verif-c20-")
	if err != nil {
		return err
	}
	defer os.RemoveAll(root)
	if root, err = filepath.EvalSymlinks(root); err != nil {
		return err
	}
	env := &c20env{root: root, trees: map[string]*c20tree{}, mk: mk0}

	if c.Replay != "" {
		var d c20case
		if err := c.LoadReplay(&d); err != nil {
			return err
		}
		if d.E2E {
			return c20e2e(c, env, [][]string{d.Args})
		}
		c20one(c, env, d)
		return nil
	}

	// end to end with the real command: build, pack, start the packed executable as a process
	if err := c20e2e(c, env, [][]string{{}, {"foo"}, {"run"}, {"format"}, {"pack"}, {"console"}, {"debug"}, {"-x", "run"}, {"run", "-help"}}); err != nil {
		return err
	}

	marker, b1, b2 := tool.VerifPackConstants()
	c.Extra["packmarker"] = marker
	c.Extra["b1"] = b1
	c.Extra["b2"] = b2
	ml := len(marker)
	p1, p2 := b1, b1+b2 // periods of the block grid without / with the overlap read

	var cases []c20case
	seen := map[string]bool{}
	add := func(d c20case) {
		if d.Tree == "" {
			d.Tree = "basic"
			if (d.Len+d.Part)%5 == 3 {
				d.Tree = "tricky"
			}
		}
		d.RC = 1 + (d.Len*7+d.Part+d.At)%120
		k := c20key(d)
		if !seen[k] {
			seen[k] = true
			cases = append(cases, d)
		}
	}

	// corpus first: the witnesses of the repaired defect (F23) and the project's own test shape
	add(c20case{Len: p1 - 1, Fill: "zeros"})            // marker's '\n' ends a '#'-free block: missed
	add(c20case{Len: p2 - ml, Fill: "hash"})            // marker ends with the candidate window: index out of range
	add(c20case{Len: p2 - ml + 1, Fill: "hash"})        // marker straddles the candidate window: missed
	add(c20case{Len: p2 - 1, Fill: "hash"})             //
	add(c20case{Len: 2*p2 - 3, Fill: "hash"})           // second period
	add(c20case{Len: 2*p1 - 1, Fill: "nl"})             //
	add(c20case{Len: p1 - 1, Fill: "partial", Part: 1}) // block ends "\n\n"
	add(c20case{Len: 65, Fill: "hash", B1: 5, B2: ml + 11})
	add(c20case{Len: 4, Fill: "zeros", B1: 5, B2: ml + 11})
	add(c20case{Len: 0, Fill: "zeros"})
	add(c20case{Len: 0, Fill: "zeros", Tree: "tricky"})
	add(c20case{Len: 40, Fill: "inside", At: 3})
	add(c20case{Len: p1 + 5, Fill: "partial", Part: ml - 1}) // guard fails: binary ends with the marker minus its last byte

	// re-pack into an existing target: smaller after larger (the edit - pack - run cycle after
	// the project shrank), the same project twice, larger after smaller
	add(c20case{Len: 100, Fill: "hash", Tree: "basic", PrevTree: "big-40000-rnd", PrevLen: 5000})
	add(c20case{Len: 100, Fill: "hash", Tree: "basic", PrevTree: "tricky", PrevLen: 100})
	add(c20case{Len: 0, Fill: "zeros", Tree: "basic", PrevTree: "basic", PrevLen: 0})
	add(c20case{Len: p1 - 1, Fill: "zeros", Tree: "tricky", PrevTree: "tricky", PrevLen: p1 - 1})
	add(c20case{Len: 300, Fill: "nl", Tree: "big-40000-rnd", PrevTree: "basic", PrevLen: 10})
	add(c20case{Len: 10, Fill: "zeros", Tree: "tricky", PrevTree: "basic", PrevLen: 2 * p2})
	add(c20case{Len: 50, Fill: "hash", Tree: "big-32769-rep", PrevTree: "big-100000-rnd", PrevLen: 50})
	if c.Thorough() {
		for i, pt := range []string{"big-300000-rnd", "big-65536-rep", "tricky", "basic"} {
			for j, tr := range []string{"basic", "tricky", "big-33000-rnd"} {
				add(c20case{Len: 17*i + j, Fill: []string{"zeros", "hash", "nl"}[j], Tree: tr, PrevTree: pt, PrevLen: 4000 * (i + j)})
			}
		}
	}

	// project files larger than one decompression window (32 KiB), compressible and not:
	// entry file, imported module and data file of exactly that size, next to empty files
	bigSizes := []int{32767, 32768, 32769, 33000, 40000, 65536, 100000, 300000}
	for i, size := range bigSizes {
		for j, kind := range []string{"rep", "rnd"} {
			if !c.Thorough() && (i+j)%2 != 0 && size != 32769 && size != 100000 {
				continue
			}
			tree := fmt.Sprintf("big-%d-%s", size, kind)
			add(c20case{Len: 1000 + i, Fill: "hash", Tree: tree})
			if c.Thorough() || (i+j)%4 == 0 {
				add(c20case{Len: p1 - 1, Fill: "zeros", Tree: tree})
				add(c20case{Len: 0, Fill: "zeros", Tree: tree})
			}
			if c.Thorough() {
				add(c20case{Len: p2 - ml, Fill: "hash", Tree: tree})
				add(c20case{Len: 2*p2 + i, Fill: "nl", Tree: tree})
				add(c20case{Len: 7 + j, Fill: "hash", B1: 5, B2: ml + 11, Tree: tree})
			}
		}
	}

	// the real geometry
	maxLen := 2*p2 + 64
	var lens []int
	if c.Thorough() {
		for l := 0; l <= maxLen; l++ {
			lens = append(lens, l)
		}
	} else {
		for l := 0; l <= maxLen; l += 197 {
			lens = append(lens, l)
		}
		for _, per := range []int{p1, p2} {
			for k := 1; k*per <= maxLen+per; k++ {
				for l := k*per - ml - b2 - 2; l <= k*per+2; l++ {
					if l >= 0 && l <= maxLen && (l > k*per-ml-3 || l%5 == 0) {
						lens = append(lens, l)
					}
				}
			}
		}
	}
	for _, l := range lens {
		for _, f := range []string{"zeros", "hash", "nl"} {
			if f == "nl" && c.Thorough() && l%3 != 0 && (l+1)%p1 != 0 {
				continue
			}
			add(c20case{Len: l, Fill: f})
		}
	}
	// partial markers at every alignment near the block boundaries
	for _, per := range []int{p1, p2} {
		for k := 1; k <= 2; k++ {
			lo, hi := k*per-ml-2, k*per+ml+2
			for l := lo; l <= hi; l++ {
				for part := 1; part < ml; part++ {
					for _, base := range []int{0, '#'} {
						if !c.Thorough() && (l+part+base)%16 != 0 && (l != k*per-1 || part%2 == 0) {
							continue
						}
						add(c20case{Len: l, Fill: "partial", Base: base, Part: part})
						if (l+part)%3 == 0 {
							add(c20case{Len: l, Fill: "partial", Base: base, Part: part, At: 1 + (l+part)%(ml+3)})
						}
					}
				}
				if c.Thorough() || l%2 == 0 {
					add(c20case{Len: l, Fill: "inside", At: (l * 5) % 40})
				}
			}
		}
	}
	nreal := len(cases)

	// small geometries through the verif export: same code path, every alignment
	type geo struct{ b1, b2 int }
	// (block sizes from 5 = the one the project's own test uses; overlap sizes from the
	// marker length: smaller ones are not a configuration the code claims to support)
	geos := []geo{{5, ml + 11}, {ml, ml}, {7, 2 * ml}}
	if c.Thorough() {
		geos = append(geos, geo{6, ml + 11}, geo{ml + 1, ml + 11}, geo{64, ml + 11}, geo{ml - 1, ml})
	}
	alpha := []byte{0, '\n', '#', 'E', 'P'}
	for gi, g := range geos {
		span := 2*(g.b1+max(g.b2, ml-1)) + ml + 3
		for l := 0; l <= span; l++ {
			for _, f := range []string{"zeros", "hash", "nl"} {
				add(c20case{Len: l, Fill: f, B1: g.b1, B2: g.b2})
			}
			for part := 1; part < ml; part++ {
				if !c.Thorough() && (l+part+gi)%6 != 0 {
					continue
				}
				add(c20case{Len: l, Fill: "partial", Base: []int{0, '#', '\n'}[(l+part)%3], Part: part, At: []int{0, 0, 1, 5}[(l/2+part)%4], B1: g.b1, B2: g.b2})
			}
			if l%3 == 0 {
				add(c20case{Len: l, Fill: "inside", At: l % 7, B1: g.b1, B2: g.b2})
			}
			for r := 0; r < c.Pick(1, 2); r++ {
				b := make([]byte, l)
				for i := range b {
					b[i] = alpha[c.Rng.Intn(len(alpha))]
				}
				if l >= ml && c.Rng.Intn(3) == 0 { // most of a marker somewhere
					at := c.Rng.Intn(l - ml + 1)
					copy(b[at:], marker[:1+c.Rng.Intn(ml-1)])
				}
				add(c20case{Len: l, Fill: "lit", Lit: hex.EncodeToString(b), B1: g.b1, B2: g.b2})
			}
		}
	}
	c.Extra["cases_real_geometry"] = nreal
	c.Extra["cases_small_geometries"] = len(cases) - nreal
	c.Extra["lengths_real_geometry"] = fmt.Sprintf("0..%d (%d lengths)", maxLen, len(lens))
	gl := []string{}
	for _, g := range geos {
		gl = append(gl, fmt.Sprintf("%d+%d", g.b1, g.b2))
	}
	sort.Strings(gl)
	c.Extra["small_geometries"] = gl

	for _, d := range cases {
		if c.Enough() {
			c.Notes = append(c.Notes, "sweep stopped early after repeated violations")
			break
		}
		c20one(c, env, d)
	}
	c.Exhaustive = false
	return nil
}

// ---- end to end ------------------------------------------------------------------------

// c20repo: the repository the harness was built against (the driver's VERIF_REPO, else /repo).
func c20repo() string {
	if r := os.Getenv("VERIF_REPO"); r != "" {
		return r
	}
	return "/repo"
}

// c20e2e builds the real command (cli/ecal.go main) once, lets it pack a small project
// (`ecal pack -dir .. -target .. entry`) and starts the packed executable as a child process
// with each of the argument lists: every start must run the embedded program (the entry
// file's exit code and a line it logs), never the normal command line.
func c20e2e(c *Ctx, env *c20env, argLists [][]string) error {
	const rc = 42
	const mark = "VERIF-C20-E2E-EMBEDDED-PROGRAM-RAN"
	dir := filepath.Join(env.root, "e2e")
	proj := filepath.Join(dir, "proj")
	cwd := filepath.Join(dir, "cwd") // the children run here: a fall-through to pack/format writes into cwd
	for _, p := range []string{filepath.Join(proj, "lib"), cwd} {
		if err := os.MkdirAll(p, 0o755); err != nil {
			return err
		}
	}
	entry := "import \"lib/m.ecal\" as m\nlog(\"" + mark + " \", m.k)\nm.k + 2\n"
	if err := os.WriteFile(filepath.Join(proj, "entry.ecal"), []byte(entry), 0o644); err != nil {
		return err
	}
	if err := os.WriteFile(filepath.Join(proj, "lib", "m.ecal"), []byte("k := 40\n"), 0o644); err != nil {
		return err
	}
	ecal := filepath.Join(dir, "ecal")
	app := filepath.Join(dir, "app")
	t0 := time.Now()
	build := exec.Command("go", "build", "-o", ecal, "./cli")
	build.Dir = c20repo()
	if out, err := build.CombinedOutput(); err != nil {
		return fmt.Errorf("go build ./cli in %s: %v\n%s", build.Dir, err, out)
	}
	c.Extra["e2e_build_seconds"] = int(time.Since(t0).Seconds())
	marker, _, _ := tool.VerifPackConstants()
	if bin, err := os.ReadFile(ecal); err == nil {
		// the theorem's guard for the real interpreter binary
		c.Extra["e2e_binary_bytes"] = len(bin)
		c.Extra["e2e_binary_guard_unambiguous"] = len(marker) > 0 && !bytes.Contains(append(bin, marker[:len(marker)-1]...), []byte(marker))
	}
	run := func(timeout time.Duration, wd, name string, args ...string) (int, string, bool) {
		ctx, cancel := context.WithTimeout(context.Background(), timeout)
		defer cancel()
		cmd := exec.CommandContext(ctx, name, args...)
		cmd.Dir = wd
		cmd.Stdin = nil
		out, err := cmd.CombinedOutput()
		if ctx.Err() != nil {
			return -1, string(out), true
		}
		if err != nil {
			if ee, ok := err.(*exec.ExitError); ok {
				return ee.ExitCode(), string(out), false
			}
			return -1, string(out) + err.Error(), false
		}
		return 0, string(out), false
	}
	if code, out, to := run(60*time.Second, proj, ecal, "pack", "-dir", proj, "-target", app, "entry.ecal"); code != 0 || to {
		d := c20case{E2E: true, Fill: "e2e", Tree: "e2e", RC: rc}
		c.Violate("pack-error", fmt.Sprintf("`ecal pack` failed (exit %d, timed out %v): %s", code, to, c20tail(out)), d)
		c.Count("e2e/pack", true, d)
		return nil
	}
	for _, args := range argLists {
		if args == nil {
			args = []string{}
		}
		d := c20case{E2E: true, Args: args, Fill: "e2e", Tree: "e2e", RC: rc}
		code, out, to := run(20*time.Second, cwd, app, args...)
		c.Dist["e2e_starts"]++
		switch {
		case to:
			c.Violate("marker-missed", fmt.Sprintf("the packed executable started with arguments %q did not run the embedded program (no exit within 20s; it continued with the normal command line?): %s", args, c20tail(out)), d)
		case code != rc || !strings.Contains(out, mark):
			c.Violate("marker-missed", fmt.Sprintf("the packed executable started with arguments %q did not run the embedded program: exit code %d instead of %d, program output seen: %v; output: %s", args, code, rc, strings.Contains(out, mark), c20tail(out)), d)
		default:
			c.Dist["e2e_ran_embedded"]++
		}
		c.Count(c20key(d), true, d)
	}
	return nil
}

func c20tail(s string) string {
	if len(s) > 300 {
		return "..." + s[len(s)-300:]
	}
	return s
}
