//go:build c19

package main

// C19, history stream.  The property says a bridged call "returns the function's results".
// A value that ECAL received from the bridge and that is different a few calls later is not
// the function's result any more, so every result is looked at more than once:
//
//   * a deep snapshot (the canonical Coq term) is taken right after the call,
//   * the live value is rendered again after every later call of the same history and at its
//     end, and must still be the snapshot,
//   * the argument list handed to Run is the caller's and must be what it was before the call,
//   * a result that is not its snapshot any more is also handed to the Coq model as an
//     ordinary case (the live value against run / the Spec's numeric_results_ok).
//
// Histories: calls to the same and to different adapters (synthetic functions of every result
// arity 0..6, trailing errors, the generated stdlib incl. math.frexp / modf / sincos / lgamma),
// calls that fail in between (too many / too few arguments, wrong kind, NULL, panicking and
// error-returning functions), the same histories as ECAL programs, and several goroutines
// calling at the same time.  Nothing here depends on how the adapter is written.

import (
	"fmt"
	"math"
	"math/rand"
	"reflect"
	"runtime"
	"sort"
	"strconv"
	"strings"
	"sync"
	"time"

	"github.com/krotik/ecal/scope"
	"github.com/krotik/ecal/stdlib"
	"github.com/krotik/ecal/util"
)

type c19step struct {
	Fn   string   `json:"fn"`   // synthetic function name or "stdlib:math.frexp"
	Args []string `json:"args"` // as in c19case
}

func (s c19step) key() string { return s.Fn + "(" + strings.Join(s.Args, ",") + ")" }

// ---------------------------------------------------------------- further synthetic functions

// c19histFuncs: multi-result shapes of every arity 2..5 (the sweep's list already has 2, 3
// and 6), with and without a trailing error.  They are modelled like the others.
func c19histFuncs() []*c19fn {
	return []*c19fn{
		{Name: "h_r2", hist: true, F: func(a int, b int) (int, int) { c19enter(a, b); return b, a }, Beh: "(BRet [RArg 1; RArg 0])"},
		{Name: "h_r2f", hist: true, F: func(a float64) (float64, float64) { c19enter(a); return a, a }, Beh: "(BRet [RArg 0; RArg 0])"},
		{Name: "h_r3", hist: true, F: func(a int8, b string, c float64) (float64, int8, string) { c19enter(a, b, c); return c, a, b },
			Beh: "(BRet [RArg 2; RArg 0; RArg 1])"},
		{Name: "h_r4", hist: true, F: func(a uint16, b float64, c bool, d string) (string, bool, float64, uint16) {
			c19enter(a, b, c, d)
			return d, c, b, a
		}, Beh: "(BRet [RArg 3; RArg 2; RArg 1; RArg 0])"},
		{Name: "h_r4c", hist: true, F: func() (int, uint8, float32, string) { c19enter(); return -40000, 200, 1.25, "four" },
			Beh: "(BRet [RConst (GInt KInt (-40000)); RConst (GInt KUint8 200); RConst (GF32 " + c19num(1.25) + "); RConst (GStr " + c19bytes("four") + ")])"},
		{Name: "h_r5", hist: true, F: func(a, b, c, d, e int32) (int32, int32, int32, int32, int32) {
			c19enter(a, b, c, d, e)
			return e, d, c, b, a
		}, Beh: "(BRet [RArg 4; RArg 3; RArg 2; RArg 1; RArg 0])"},
		{Name: "h_r2l", hist: true, F: func(a []interface{}, b float64) (float64, []interface{}) { c19enter(a, b); return b, a },
			Beh: "(BRet [RArg 1; RArg 0])"},
		{Name: "h_r2e", hist: true, F: func(a int, b float64) (float64, int, error) { c19enter(a, b); return b, a, nil },
			Beh: "(BRet [RArg 1; RArg 0; RConst GNil])"},
		{Name: "h_r3e", hist: true, F: func(a uint8, b uint8, c uint8) (uint8, uint8, uint8, error) { c19enter(a, b, c); return c, a, b, nil },
			Beh: "(BRet [RArg 2; RArg 0; RArg 1; RConst GNil])"},
		{Name: "h_r3e_set", hist: true, F: func(a int, b float64, c string) (string, float64, int, error) {
			c19enter(a, b, c)
			return c, b, a, c19err
		}, Beh: "(BRet [RArg 2; RArg 1; RArg 0; RConst (GErr 1%N)])"},
		{Name: "h_r2_panic", hist: true, F: func(a int, b int) (int, int) { c19enter(a, b); panic("h_r2_panic") }, Beh: "BPanic"},
	}
}

// ---------------------------------------------------------------- targets: everything that can be called

type c19target struct {
	id   string // step name
	ad   util.ECALFunction
	typ  reflect.Type
	sig  string // Coq term ("" = no model)
	beh  string
	ecal string // how an ECAL program calls it
	syn  bool   // synthetic: the recorder tells what it received
	nres int    // results without the trailing error
}

func c19targets(fs []*c19fn, mathSig map[string]string) map[string]*c19target {
	ts := map[string]*c19target{}
	for _, f := range fs {
		t := reflect.TypeOf(f.F)
		ts[f.Name] = &c19target{id: f.Name, ad: f.ad, typ: t, sig: "s_" + f.Name, beh: "b_" + f.Name, ecal: "c19." + f.ecal, syn: true, nres: c19nres(t)}
	}
	for i := 0; i+1 < len(c19math); i += 2 {
		name := "math." + c19lowerFirst(c19math[i].(string))
		ad, ok := stdlib.GetStdlibFunc(name)
		if !ok {
			continue
		}
		t := reflect.TypeOf(c19math[i+1])
		sig := ""
		if mathSig[name] != "" {
			sig = c19mathSigName(name)
		}
		ts["stdlib:"+name] = &c19target{id: "stdlib:" + name, ad: ad, typ: t, sig: sig, beh: "BOpaque", ecal: name, nres: c19nres(t)}
	}
	return ts
}

// c19mathSigName: the name of the header definition holding the signature of math.<name>
func c19mathSigName(name string) string { return "sm_" + strings.TrimPrefix(name, "math.") }

func c19nres(t reflect.Type) int {
	n := t.NumOut()
	if n > 0 && t.Out(n-1) == c19errType {
		n--
	}
	return n
}

func c19targetNames(ts map[string]*c19target) []string {
	names := make([]string, 0, len(ts))
	for n := range ts {
		names = append(names, n)
	}
	sort.Strings(names)
	return names
}

// ---------------------------------------------------------------- argument vectors by signature

func c19bits(f float64) string { return "b" + strconv.FormatUint(math.Float64bits(f), 16) }

// c19argFor: an ECAL value of the kind the parameter type takes
func c19argFor(t reflect.Type, rng *rand.Rand) string {
	switch t.Kind() {
	case reflect.Int, reflect.Int8, reflect.Int16, reflect.Int32, reflect.Int64,
		reflect.Uint, reflect.Uint8, reflect.Uint16, reflect.Uint32, reflect.Uint64, reflect.Uintptr:
		return c19bits(float64(rng.Intn(100)))
	case reflect.Float32:
		return c19bits(float64(rng.Intn(200)-100) + 0.5)
	case reflect.Float64:
		return c19bits(float64(rng.Intn(4000)-2000) / 8)
	case reflect.String:
		return "p10"
	case reflect.Bool:
		return "p1"
	case reflect.Slice:
		return "p11"
	case reflect.Map:
		return "p12"
	case reflect.Interface:
		return []string{"p3", "p10", "p11"}[rng.Intn(3)]
	}
	return "p10"
}

func c19goodVector(t reflect.Type, rng *rand.Rand) []string {
	args := []string{}
	for i := 0; i < t.NumIn(); i++ {
		pt := t.In(i)
		if t.IsVariadic() && i == t.NumIn()-1 {
			pt = pt.Elem()
		}
		args = append(args, c19argFor(pt, rng))
	}
	return args
}

// c19variants: argument vectors for one target: ngood of the matching kinds (pairwise different
// where the signature allows it, so that a result overwritten by another call of the same
// function shows), then the ways a call fails: one argument too many, one too few, an argument
// of another kind, NULL
func c19variants(tg *c19target, rng *rand.Rand, ngood int) (good [][]string, bad [][]string) {
	seen := map[string]bool{}
	for tries := 0; len(good) < ngood; tries++ {
		g := c19goodVector(tg.typ, rng)
		k := strings.Join(g, ",")
		if seen[k] && tries < 20*ngood {
			continue
		}
		seen[k] = true
		good = append(good, g)
	}
	g1 := good[0]
	bad = append(bad, append(append([]string{}, g1...), "p3"))
	if len(g1) > 0 {
		bad = append(bad, append([]string{}, g1[:len(g1)-1]...))
		k := rng.Intn(len(g1))
		wrong := append([]string{}, g1...)
		if tg.typ.In(k).Kind() == reflect.String {
			wrong[k] = "p3"
		} else {
			wrong[k] = "p10"
		}
		null := append([]string{}, g1...)
		null[rng.Intn(len(g1))] = "p0"
		bad = append(bad, wrong, null)
	}
	return
}

// ---------------------------------------------------------------- deep snapshots

// c19snap: a deep copy of an ECAL value as far as the bridge can build one: lists are copied
// element by element; numbers, strings and booleans are immutable; maps and function objects
// are compared by identity (the bridge hands them through).
func c19snap(v interface{}) interface{} {
	if l, ok := v.([]interface{}); ok {
		if l == nil {
			return l
		}
		cp := make([]interface{}, len(l))
		for i, e := range l {
			cp[i] = c19snap(e)
		}
		return cp
	}
	return v
}

// c19same: the live value is (still) the snapshot; numbers by bit pattern
func c19same(live, snap interface{}) bool {
	switch a := live.(type) {
	case nil:
		return snap == nil
	case float64:
		b, ok := snap.(float64)
		return ok && math.Float64bits(a) == math.Float64bits(b)
	case float32:
		b, ok := snap.(float32)
		return ok && math.Float32bits(a) == math.Float32bits(b)
	case string:
		b, ok := snap.(string)
		return ok && a == b
	case bool:
		b, ok := snap.(bool)
		return ok && a == b
	case []interface{}:
		b, ok := snap.([]interface{})
		if !ok || len(a) != len(b) || (a == nil) != (b == nil) {
			return false
		}
		for i := range a {
			if !c19same(a[i], b[i]) {
				return false
			}
		}
		return true
	}
	if snap == nil {
		return false
	}
	ra, rb := reflect.ValueOf(live), reflect.ValueOf(snap)
	if ra.Type() != rb.Type() {
		return false
	}
	switch ra.Kind() {
	case reflect.Map, reflect.Func, reflect.Ptr, reflect.Chan, reflect.UnsafePointer:
		return ra.Pointer() == rb.Pointer()
	case reflect.Slice:
		if ra.Len() != rb.Len() {
			return false
		}
		for i := 0; i < ra.Len(); i++ {
			if !c19same(ra.Index(i).Interface(), rb.Index(i).Interface()) {
				return false
			}
		}
		return true
	}
	if ra.Type().Comparable() {
		return live == snap
	}
	return c19val(live) == c19val(snap)
}

// ---------------------------------------------------------------- one history on one goroutine

type c19held struct {
	idx     int
	st      c19step
	args    []interface{}
	argSnap string
	argCopy interface{}
	ok      bool
	live    interface{}
	snap    interface{}
	obs     c19obs
}

type c19finding struct {
	key  string
	text string
	upto int // the history up to and including this step shows it
	idx  int // the step whose result / arguments changed
}

// c19call: one call of Run with its own recover (a panic leaving Run is a finding, not a crash
// of the history)
func c19call(tg *c19target, args []interface{}) (r callResult) {
	defer func() {
		if p := recover(); p != nil {
			r = callResult{Panicked: true, PanicMsg: fmt.Sprint(p)}
		}
	}()
	v, err := tg.ad.Run("c19", scope.NewScope(scope.GlobalScope), make(map[string]interface{}), 1, args)
	return callResult{Val: v, Err: err}
}

func c19decodeArgs(st c19step) (args []interface{}, terms []string, lits []string, ok bool) {
	for _, a := range st.Args {
		v, t, l, good := c19decode(a)
		if !good {
			return nil, nil, nil, false
		}
		if l == "" {
			if f, isNum := v.(float64); isNum && !math.IsInf(f, 0) && !math.IsNaN(f) && math.Abs(f) < 1e15 {
				l = strconv.FormatFloat(f, 'f', -1, 64)
				if back, err := strconv.ParseFloat(l, 64); err != nil || back != f || (f == 0 && math.Signbit(f)) {
					l = ""
				}
			}
		}
		args, terms, lits = append(args, v), append(terms, t), append(lits, l)
	}
	return args, terms, lits, true
}

// c19checkHeld: every earlier result is still its snapshot, every argument list is what the
// caller handed in
func c19checkHeld(held []*c19held, upto int, when string) []c19finding {
	var fs []c19finding
	for _, h := range held {
		if h.ok && !c19same(h.live, h.snap) {
			now := c19val(h.live)
			fs = append(fs, c19finding{"result-changed-by-later-call",
				fmt.Sprintf("the value returned by call %d %s was %s and is %s %s", h.idx, h.st.key(), h.obs.res, now, when), upto, h.idx})
		}
		if !c19same(h.args, h.argCopy) {
			now := c19vals(h.args)
			fs = append(fs, c19finding{"arguments-modified",
				fmt.Sprintf("the argument list handed to call %d %s was %s and is %s %s", h.idx, h.st.key(), h.argSnap, now, when), upto, h.idx})
		}
	}
	return fs
}

// c19runSeq runs the calls one after the other on the calling goroutine.
func c19runSeq(ts map[string]*c19target, seq []c19step) (held []*c19held, findings []c19finding, note string) {
	for i, st := range seq {
		tg := ts[st.Fn]
		if tg == nil {
			return held, findings, "unknown function " + st.Fn
		}
		args, _, _, ok := c19decodeArgs(st)
		if !ok {
			return held, findings, "undecodable arguments in " + st.key()
		}
		h := &c19held{idx: i, st: st, args: args, argSnap: c19vals(args), argCopy: c19snap(args)}
		c19entered, c19recv = false, nil
		r := c19call(tg, args)
		h.obs = c19classify(r)
		if h.obs.bad != "" {
			findings = append(findings, c19finding{strings.SplitN(h.obs.bad, ":", 2)[0], "ECALFunctionAdapter.Run did not return in call " + fmt.Sprint(i) + " " + st.key() + ": " + h.obs.bad, i, i})
		} else if h.obs.cls == 0 {
			h.ok, h.live, h.snap = true, r.Val, c19snap(r.Val)
			if !c19same(h.live, h.snap) || c19val(h.snap) != h.obs.res {
				note = "harness: a snapshot is not the value it was taken of: " + st.key()
			}
		}
		held = append(held, h)
		if fs := c19checkHeld(held, i, fmt.Sprintf("after call %d %s", i, st.key())); len(fs) > 0 {
			findings = append(findings, fs...)
			return held, findings, ""
		}
	}
	runtime.Gosched()
	findings = append(findings, c19checkHeld(held, len(seq)-1, "at the end of the history")...)
	return held, findings, ""
}

// ---------------------------------------------------------------- emitting a history

type c19hist struct {
	c       *Ctx
	ts      map[string]*c19target
	emitted map[string]bool // step + observation already handed to the model
	nseq    int
	nsteps  int
	necal   int
}

func (h *c19hist) stepCase(tg *c19target, st c19step, o c19obs, desc c19hcase, always bool) {
	if tg.sig == "" {
		return
	}
	_, terms, _, _ := c19decodeArgs(st)
	recv := c19recvTerm(o)
	if !tg.syn {
		recv = "NoneL"
		if o.cls == 0 {
			recv = "(SomeL L0)" // a library function that returned was entered; what it received is not observable
		}
	}
	k := st.key() + "|" + c19ocls(o) + "|" + recv
	if h.emitted[k] && !always {
		return
	}
	h.emitted[k] = true
	id := h.c.NewID()
	term := fmt.Sprintf("mkCase %d %s %s %s %s %s", id, tg.sig, tg.beh, c19list(terms), c19ocls(o), recv)
	h.c.AddCase(id, term, desc, "history:"+st.key(), o.entered || (!tg.syn && o.cls == 0))
}

// run executes one history (direct calls, then the same calls as one ECAL program), reports
// what it finds and hands every new (call, observation) pair to the model.
func (h *c19hist) run(seq []c19step, viaEcal bool) {
	c := h.c
	desc := c19hcase{Fn: "history", Seq: seq}
	var held []*c19held
	var findings []c19finding
	var note string
	r := c19guarded(func() (interface{}, error) {
		held, findings, note = c19runSeq(h.ts, seq)
		return nil, nil
	})
	h.nseq++
	h.nsteps += len(seq)
	if r.TimedOut {
		c.Violate("nontermination", "a history of bridged calls did not return", desc)
		return
	}
	if note != "" {
		c.Notes = append(c.Notes, "history: "+note)
		return
	}
	c.Dist["history_sequences"]++
	c.Dist[fmt.Sprintf("history_length_%d", len(seq))]++
	for _, hd := range held {
		c.Dist[[]string{"history_call_ok", "history_call_callee_error", "history_call_other_error"}[hd.obs.cls]]++
		if hd.obs.bad == "" {
			one := c19hcase{Fn: "history", Seq: []c19step{hd.st}}
			h.stepCase(h.ts[hd.st.Fn], hd.st, hd.obs, one, false)
		}
	}
	for _, f := range findings {
		c.Violate(f.key, f.text, c19hcase{Fn: "history", Seq: seq[:f.upto+1]})
		if f.key == "result-changed-by-later-call" {
			// the value ECAL holds now, against the model of that call
			hd := held[f.idx]
			o := hd.obs
			o.res = c19val(hd.live)
			h.stepCase(h.ts[hd.st.Fn], hd.st, o, c19hcase{Fn: "history", Seq: seq[:f.upto+1]}, true)
		}
	}
	c.Count("history:"+c19seqKey(seq), len(held) > 1, desc)
	if len(findings) > 0 || !viaEcal {
		return
	}
	h.ecal(seq, held, desc)
}

func c19seqKey(seq []c19step) string {
	p := make([]string, len(seq))
	for i, s := range seq {
		p[i] = s.key()
	}
	return strings.Join(p, ";")
}

// c19ecalProgram: r<i> := <call i> (an error leaves the marker), the value of the program is
// the list of all r<i>: every result is kept over all later calls.
const c19failMark = "c19-call-failed"

func c19ecalProgram(ts map[string]*c19target, seq []c19step) (string, bool) {
	var sb strings.Builder
	sb.WriteString("func c19f() {\n return 1\n}\n")
	rs := make([]string, len(seq))
	for i, st := range seq {
		_, _, lits, ok := c19decodeArgs(st)
		if !ok {
			return "", false
		}
		for _, l := range lits {
			if l == "" {
				return "", false
			}
		}
		rs[i] = fmt.Sprintf("r%d", i)
		fmt.Fprintf(&sb, "r%d := \"%s\"\ntry {\n r%d := %s(%s)\n} except {\n r%d := \"%s\"\n}\n", i, c19failMark, i, ts[st.Fn].ecal, strings.Join(lits, ", "), i, c19failMark)
	}
	sb.WriteString("[" + strings.Join(rs, ", ") + "]")
	return sb.String(), true
}

func (h *c19hist) ecal(seq []c19step, held []*c19held, desc c19hcase) {
	c := h.c
	src, ok := c19ecalProgram(h.ts, seq)
	if !ok {
		return
	}
	r := c19guarded(func() (interface{}, error) { return evalProgram("c19", src, nil, nil) })
	h.necal++
	c.Dist["history_via_ecal"]++
	switch {
	case r.TimedOut:
		c.Violate("nontermination", "an ECAL program calling bridged functions did not return: "+src, desc)
		return
	case r.Panicked:
		c.Violate("panic-escapes", "an ECAL program calling bridged functions panicked: "+r.PanicMsg+" program: "+src, desc)
		return
	case c19isParseError(r.Err):
		c.Notes = append(c.Notes, "harness: generated ECAL program does not parse: "+src)
		c.Dist["harness_program_does_not_parse"]++
		return
	case r.Err != nil:
		c.Notes = append(c.Notes, fmt.Sprintf("harness: history program failed as a whole (%v): %s", r.Err, src))
		c.Dist["harness_history_program_failed"]++
		return
	}
	vals, isList := r.Val.([]interface{})
	if !isList || len(vals) != len(seq) {
		c.Notes = append(c.Notes, fmt.Sprintf("harness: history program returned %v: %s", r.Val, src))
		c.Dist["harness_history_program_failed"]++
		return
	}
	for i, hd := range held {
		want := hd.obs.res
		if hd.obs.cls != 0 {
			want = c19val(c19failMark)
		}
		if hd.st.Fn == "err_typed_nil" {
			continue
		}
		if got := c19val(vals[i]); got != want {
			c.Violate("result-changed-by-later-call", fmt.Sprintf("the ECAL program %q keeps the value of every call and returns them at its end: value %d is %s; the same call made alone returns %s",
				src, i, got, want), desc)
			return
		}
	}
}

// ---------------------------------------------------------------- several goroutines

type c19parFinding struct {
	key, text string
}

// c19runPar: every goroutine makes its calls `rounds` times over; each keeps its own results
// and checks them after each of its calls, and once more after all goroutines are done.
// expect: the observation of every step when the call is made alone (the functions are pure).
func c19runPar(ts map[string]*c19target, par [][]c19step, rounds int, expect map[string]c19obs) []c19parFinding {
	var mu sync.Mutex
	var out []c19parFinding
	report := func(k, t string) {
		mu.Lock()
		if len(out) < 20 {
			out = append(out, c19parFinding{k, t})
		}
		mu.Unlock()
	}
	type kept struct {
		st   c19step
		live interface{}
		snap string
		cp   interface{}
	}
	all := make([][]kept, len(par))
	var wg sync.WaitGroup
	start := make(chan struct{})
	for g := range par {
		wg.Add(1)
		go func(g int) {
			defer wg.Done()
			defer func() {
				if p := recover(); p != nil {
					report("panic-escapes", fmt.Sprintf("goroutine %d of a concurrent history panicked: %v", g, p))
				}
			}()
			<-start
			var window []kept
			n := 0
			for round := 0; round < rounds; round++ {
				for _, st := range par[g] {
					tg := ts[st.Fn]
					args, _, _, ok := c19decodeArgs(st)
					if tg == nil || !ok {
						return
					}
					argCopy := c19snap(args)
					r := c19call(tg, args)
					n++
					if r.Panicked {
						report("panic-escapes", "ECALFunctionAdapter.Run did not return in "+st.key()+": "+r.PanicMsg)
						return
					}
					if !c19same(args, argCopy) {
						report("arguments-modified", "the argument list handed to "+st.key()+" was "+c19val(argCopy)+" and is "+c19vals(args)+" after the call")
						return
					}
					cls, res := 0, ""
					switch {
					case r.Err != nil && c19isCalleeError(r.Err):
						cls = 1
					case r.Err != nil:
						cls = 2
					default:
						res = c19val(r.Val)
					}
					if e, have := expect[st.key()]; have && st.Fn != "err_typed_nil" && (e.cls != cls || e.res != res) {
						report("concurrent-call-differs", fmt.Sprintf("%s called while other goroutines call bridged functions: class %d result %s; called alone: class %d result %s", st.key(), cls, res, e.cls, e.res))
						return
					}
					if cls == 0 {
						k := kept{st, r.Val, res, c19snap(r.Val)}
						window = append(window, k)
						if len(window) > 8 {
							window = window[1:]
						}
						if n%5 == 0 && len(all[g]) < 400 {
							all[g] = append(all[g], k)
						}
					}
					for _, k := range window {
						if !c19same(k.live, k.cp) {
							now := c19val(k.live)
							report("result-changed-by-later-call", fmt.Sprintf("goroutine %d: the value returned by %s was %s and is %s after the call %s (other goroutines calling at the same time)", g, k.st.key(), k.snap, now, st.key()))
							return
						}
					}
					if n%3 == 0 {
						runtime.Gosched()
					}
				}
			}
		}(g)
	}
	close(start)
	wg.Wait()
	for g := range all {
		for _, k := range all[g] {
			if !c19same(k.live, k.cp) {
				now := c19val(k.live)
				report("result-changed-by-later-call", fmt.Sprintf("goroutine %d: the value returned by %s was %s and is %s after all goroutines finished", g, k.st.key(), k.snap, now))
				break
			}
		}
	}
	return out
}

func (h *c19hist) par(par [][]c19step, rounds int) {
	c := h.c
	desc := c19hcase{Fn: "history-par", Par: par}
	// every distinct call alone first (recorder on: these also go to the model)
	expect := map[string]c19obs{}
	for _, seq := range par {
		for _, st := range seq {
			if _, have := expect[st.key()]; have {
				continue
			}
			var held []*c19held
			r := c19guarded(func() (interface{}, error) {
				held, _, _ = c19runSeq(h.ts, []c19step{st})
				return nil, nil
			})
			if r.TimedOut || len(held) != 1 || held[0].obs.bad != "" {
				continue // reported by the sequential histories
			}
			expect[st.key()] = held[0].obs
			h.stepCase(h.ts[st.Fn], st, held[0].obs, c19hcase{Fn: "history", Seq: []c19step{st}}, false)
		}
	}
	var fs []c19parFinding
	c19recOff = true
	run := func() callResult {
		return guarded(120*time.Second, func() (interface{}, error) {
			fs = c19runPar(h.ts, par, rounds, expect)
			return nil, nil
		})
	}
	r := run()
	if r.TimedOut {
		time.Sleep(2 * time.Second)
		r = guarded(600*time.Second, func() (interface{}, error) {
			fs = c19runPar(h.ts, par, rounds, expect)
			return nil, nil
		})
	}
	c19recOff = false
	c.Dist["history_concurrent"]++
	c.Dist[fmt.Sprintf("history_concurrent_goroutines_%d", len(par))]++
	if r.TimedOut {
		c.Violate("nontermination", "goroutines calling bridged functions at the same time did not finish", desc)
		return
	}
	seen := map[string]bool{}
	for _, f := range fs {
		if !seen[f.key] {
			seen[f.key] = true
			c.Violate(f.key, f.text, desc)
		}
	}
	key := make([]string, len(par))
	for i, s := range par {
		key[i] = c19seqKey(s)
	}
	c.Count("history-par:"+strings.Join(key, "||"), true, desc)
}

// ---------------------------------------------------------------- the sweep's own history

// The exhaustive sweep (c19one) makes some hundred thousand calls one after the other.  Every
// list it gets back is kept; the last few are looked at again after every later call (so the
// calls in between are known and can be replayed), all of them once more at the end.
type c19sweepKept struct {
	st    c19step
	live  interface{}
	snap  string
	cp    interface{}
	since []c19step
}

var (
	c19sweepWindow []*c19sweepKept
	c19sweepAll    []*c19sweepKept
	c19sweepBad    int
)

const c19sweepWindowLen = 8

func c19isList(v interface{}) bool {
	return v != nil && reflect.ValueOf(v).Kind() == reflect.Slice
}

func c19sweepAfter(c *Ctx, st c19step, args []interface{}, argCopy interface{}, r callResult, o c19obs) {
	if args != nil {
		if !c19same(args, argCopy) {
			argSnap, now := c19val(argCopy), c19vals(args)
			c.Violate("arguments-modified", fmt.Sprintf("the argument list handed to %s was %s and is %s after the call", st.key(), argSnap, now),
				c19hcase{Fn: "history", Seq: []c19step{st}})
		}
	}
	keep := c19sweepWindow[:0]
	for _, k := range c19sweepWindow {
		k.since = append(k.since, st)
		if !c19same(k.live, k.cp) {
			now := c19val(k.live)
			if c19sweepBad < 50 {
				c19sweepBad++
				c.Violate("result-changed-by-later-call", fmt.Sprintf("the value returned by %s was %s and is %s after %d later call(s), the last one %s",
					k.st.key(), k.snap, now, len(k.since), st.key()), c19hcase{Fn: "history", Seq: append([]c19step{k.st}, k.since...)})
			}
			continue
		}
		keep = append(keep, k)
	}
	c19sweepWindow = keep
	if o.cls == 0 && r.Err == nil && c19isList(r.Val) {
		k := &c19sweepKept{st: st, live: r.Val, snap: o.res, cp: c19snap(r.Val)}
		c19sweepWindow = append(c19sweepWindow, k)
		if len(c19sweepWindow) > c19sweepWindowLen {
			c19sweepWindow[0].since = nil
			c19sweepWindow = c19sweepWindow[1:]
		}
		c19sweepAll = append(c19sweepAll, k)
	}
}

func c19sweepFinal(c *Ctx) {
	n := 0
	for _, k := range c19sweepAll {
		if !c19same(k.live, k.cp) {
			now := c19val(k.live)
			n++
			if n <= 5 {
				c.Violate("result-changed-by-later-call", fmt.Sprintf("the value returned by %s was %s and is %s at the end of the sweep", k.st.key(), k.snap, now),
					c19hcase{Fn: "history", Seq: append([]c19step{k.st}, k.since...)})
			}
		}
	}
	c.Extra["sweep_results_kept_and_checked_again"] = len(c19sweepAll)
	c19sweepAll, c19sweepWindow = nil, nil
}

// ---------------------------------------------------------------- driver

func c19history(c *Ctx, ts map[string]*c19target) {
	h := &c19hist{c: c, ts: ts, emitted: map[string]bool{}}
	c.Rule += "; HISTORIES (a value returned to ECAL is not changed by later bridge calls; the argument list handed in is not modified): every result is deep-copied right after the call and compared with the live value after every later call and at the end: (a) every multi-result adapter A (synthetic result arities 2..6, with / without trailing error, math.frexp / modf / sincos / lgamma) x every adapter B (all synthetic ones and the generated stdlib) x the ways of calling B (matching, too many, too few, wrong kind, NULL): A, B, A; (b) the same adapter 2 / 5 / 9 times; (c) random histories of 2..10 calls mixing multi-result, single-result, failing (arity / kind / NULL / panicking / error-returning) calls; each history also as ONE ECAL program that keeps every result in a variable and returns them all at its end (compared with the calls made alone); (d) 2 / 3 / 4 / 8 goroutines making such calls at the same time; every (call, observation) of a history goes to the model once; the sweep's own list results are kept and checked again after each of the next calls and at the end"
	names := c19targetNames(ts)
	rng := c.Rng

	type variant struct {
		good, bad [][]string
	}
	vs := map[string]variant{}
	var multi, single, failing []string
	for _, n := range names {
		g, b := c19variants(ts[n], rng, c.Pick(6, 24))
		vs[n] = variant{g, b}
		switch {
		case ts[n].nres >= 2 && !strings.Contains(n, "panic") && !strings.Contains(n, "_set"):
			multi = append(multi, n)
		case strings.Contains(n, "panic") || strings.Contains(n, "_set") || n == "err_typed_nil":
			failing = append(failing, n)
		default:
			single = append(single, n)
		}
	}
	c.Extra["history_multi_result_adapters"] = len(multi)
	c.Extra["history_adapters"] = len(names)
	// fresh: the next of the target's matching vectors (two calls of one function that follow
	// each other never get the same one)
	next := map[string]int{}
	fresh := func(n string) c19step {
		next[n]++
		return c19step{n, vs[n].good[next[n]%len(vs[n].good)]}
	}
	pick := func(l []string) string { return l[rng.Intn(len(l))] }

	// 5a. every multi-result adapter A, every adapter B, every way of calling B (matching, too
	// many, too few, wrong kind, NULL): A, B, A again with other arguments
	for ia, a := range multi {
		if c.Enough() {
			break
		}
		for ib, b := range names {
			calls := append(append([][]string{}, vs[b].good[:1]...), vs[b].bad...)
			if !c.Thorough() {
				// quick: the matching call and one of the failing ones (which one rotates with A and B);
				// single-result library functions are all alike for the bridge: the matching call only
				k := 1 + (ia+ib)%(len(calls))
				if k < len(calls) && (ts[b].syn || ts[b].nres >= 2) {
					calls = [][]string{calls[0], calls[k]}
				} else {
					calls = calls[:1]
				}
			}
			for iv, args := range calls {
				seq := []c19step{{a, vs[a].good[0]}, {b, args}, {a, vs[a].good[1]}}
				h.run(seq, c.Thorough() || (iv == 0 && (ia+ib)%2 == 0))
			}
		}
	}
	c.Extra["history_pair_sequences"] = h.nseq

	// 5b. the same adapter again and again, fresh arguments every time
	for _, a := range multi {
		for _, n := range []int{2, 5, 9} {
			seq := make([]c19step, n)
			for i := range seq {
				seq[i] = fresh(a)
			}
			h.run(seq, true)
		}
	}

	// 5c. random histories over all adapters: multi-result calls, single-result calls, failing
	// calls (arity / kind / NULL / panicking / error-returning functions) in between
	nrand := c.Pick(600, 12000)
	for i := 0; i < nrand && !c.Enough(); i++ {
		n := 2 + rng.Intn(9)
		seq := make([]c19step, n)
		for k := range seq {
			switch x := rng.Intn(10); {
			case x < 4:
				seq[k] = fresh(pick(multi))
			case x < 6:
				seq[k] = fresh(pick(single))
			case x < 8:
				seq[k] = fresh(pick(failing))
			default:
				b := pick(names)
				if bad := vs[b].bad; len(bad) > 0 {
					seq[k] = c19step{b, bad[rng.Intn(len(bad))]}
				} else {
					seq[k] = fresh(b)
				}
			}
		}
		h.run(seq, c.Thorough() || i%2 == 0)
	}
	c.Extra["history_sequences"] = h.nseq
	c.Extra["history_calls"] = h.nsteps
	c.Extra["history_ecal_programs"] = h.necal

	// 5d. several goroutines
	npar := c.Pick(24, 300)
	for i := 0; i < npar && !c.Enough(); i++ {
		g := []int{2, 3, 4, 8}[i%4]
		par := make([][]c19step, g)
		for k := range par {
			n := 2 + rng.Intn(5)
			par[k] = make([]c19step, n)
			for j := range par[k] {
				switch x := rng.Intn(10); {
				case x < 5:
					par[k][j] = fresh(pick(multi))
				case x < 7:
					par[k][j] = fresh(pick(single))
				case x < 9:
					par[k][j] = fresh(pick(failing))
				default:
					b := pick(names)
					if bad := vs[b].bad; len(bad) > 0 {
						par[k][j] = c19step{b, bad[rng.Intn(len(bad))]}
					} else {
						par[k][j] = fresh(b)
					}
				}
			}
		}
		h.par(par, c.Pick(40, 120))
	}
	c.Extra["history_concurrent_scenarios"] = npar
}

// c19historyReplay runs a recorded history again (several times: whether scratch memory of the
// bridge is handed out again depends on the scheduler).
func c19historyReplay(c *Ctx, ts map[string]*c19target, d c19hcase) {
	h := &c19hist{c: c, ts: ts, emitted: map[string]bool{}}
	if d.Fn == "history-par" {
		for i := 0; i < 10 && len(c.Violations) == 0; i++ {
			h.par(d.Par, 200)
		}
		return
	}
	for i := 0; i < 20 && len(c.Violations) == 0; i++ {
		h.run(d.Seq, true)
	}
}
