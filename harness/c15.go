//go:build c15

package main

// C15 — debugging only observes; every suspended thread can be resumed.
//
// Implementation side.  Every scenario runs a generated ECAL program twice without a debugger
// (the two plain runs must agree, otherwise the program is not a usable reference) and once
// under the real debugger, wrapped by a recorder that sees every VisitState /
// VisitStepInState / VisitStepOutState call per thread.  The hook point "debug.suspend"
// (thread marked itself suspended, has not yet locked its condition) is the driver: at every
// suspension it checks that Status() reports the thread as suspended, applies the scenario's
// breakpoint edits and issues the next continue command — either right there, to completion,
// BEFORE the thread goes on to wait (mode "window": the schedule of C15_old_protocol_refuted),
// or from another goroutine a little later (mode "late").
//
// Oracles: (1) bounded resume: a thread that was reported suspended and whose Continue has
// completed must pass "debug.resumed" (no further command is given) — the only conclusion
// ever drawn from time, bound 13 s; (2) transparency: result / error, memory-logger contents
// and global scope dump equal the plain run's; VisitState never returns an error;
// (3) decision: the recorded event trace of every thread, with the commands it was given,
// goes to the Coq model, which must predict the same suspension points (Run/RunC15.v).

import (
	"fmt"
	"math/rand"
	"sort"
	"strings"
	"sync"
	"time"

	"github.com/krotik/ecal/interpreter"
	"github.com/krotik/ecal/parser"
	"github.com/krotik/ecal/scope"
	"github.com/krotik/ecal/util"
	"github.com/krotik/ecal/verifhook"
)

func init() { register("C15", runC15) }

const c15src = "c15src"
const c15bound = 6 * time.Second

type c15edit struct {
	Line int    `json:"line"`
	Op   string `json:"op"` // set | disable | remove
}

type c15scn struct {
	Kind      string    `json:"kind"` // window | stop | run
	Site      string    `json:"site,omitempty"`
	Prog      []string  `json:"prog"`
	Edits0    []c15edit `json:"edits0"`
	Bos       bool      `json:"breakonstart"`
	Boe       bool      `json:"breakonerror"`
	Multi     bool      `json:"multi"`
	Seed      int64     `json:"seed"`
	Window    int       `json:"window_percent"`       // share of continues issued inside the window
	Steps     bool      `json:"steps"`                // use step commands (else resume only)
	EditLines []int     `json:"edit_lines,omitempty"` // small set of lines the edits at suspensions are drawn from (with repetition)
	Threads   int       `json:"threads,omitempty"`    // stopall / contall: programs debugged at the same time
	Script    []string  `json:"script,omitempty"`     // forced commands for the first suspensions
	Sched     []string  `json:"schedule,omitempty"`
}

type c15ev struct {
	K    byte // V I O
	Line int
	Err  bool
}

type c15susp struct {
	Tid       uint64
	Idx       int
	Line      int
	Cmd       util.ContType
	Edits     []c15edit
	Mode      string
	Reported  bool
	Continued bool
	Resumed   bool
	CmdPanic  string
}

// c15rec wraps the real debugger and records what the interpreter tells it.
type c15rec struct {
	util.ECALDebugger
	mu        sync.Mutex
	events    map[uint64][]c15ev
	depth     map[uint64]int
	visitErrs int
}

func (r *c15rec) add(tid uint64, e c15ev) {
	r.mu.Lock()
	r.events[tid] = append(r.events[tid], e)
	if e.K == 'I' {
		r.depth[tid]++
	} else if e.K == 'O' {
		r.depth[tid]--
	}
	r.mu.Unlock()
}

func (r *c15rec) VisitState(node *parser.ASTNode, vs parser.Scope, tid uint64) util.TraceableRuntimeError {
	if node.Token != nil {
		r.add(tid, c15ev{'V', node.Token.Lline, false})
	}
	err := r.ECALDebugger.VisitState(node, vs, tid)
	if err != nil {
		r.mu.Lock()
		r.visitErrs++
		r.mu.Unlock()
	}
	return err
}

func (r *c15rec) VisitStepInState(node *parser.ASTNode, vs parser.Scope, tid uint64) util.TraceableRuntimeError {
	r.add(tid, c15ev{'I', node.Token.Lline, false})
	return r.ECALDebugger.VisitStepInState(node, vs, tid)
}

func (r *c15rec) VisitStepOutState(node *parser.ASTNode, vs parser.Scope, tid uint64, soErr error) util.TraceableRuntimeError {
	r.add(tid, c15ev{'O', node.Token.Lline, soErr != nil})
	return r.ECALDebugger.VisitStepOutState(node, vs, tid, soErr)
}

type c15obs struct {
	Result, ErrS, Scope string
	Log                 []string
	TimedOut, Panicked  bool
	PanicMsg            string
	Events              map[uint64][]c15ev
	Susp                []*c15susp
	VisitErrs           int
	HookSeen            bool
}

func c15errString(err error) string {
	if err == nil {
		return ""
	}
	if re, ok := err.(*util.RuntimeError); ok {
		return fmt.Sprintf("%v|%v|%v:%v", re.Type, re.Detail, re.Line, re.Pos)
	}
	if re, ok := err.(*util.RuntimeErrorWithDetail); ok {
		return fmt.Sprintf("%v|%v|%v:%v|%v", re.Type, re.Detail, re.Line, re.Pos, re.Data)
	}
	return err.Error()
}

func c15apply(d util.ECALDebugger, e c15edit) {
	switch e.Op {
	case "set":
		d.SetBreakPoint(c15src, e.Line)
	case "disable":
		d.DisableBreakPoint(c15src, e.Line)
	default:
		d.RemoveBreakPoint(c15src, e.Line)
	}
}

func c15reported(d util.ECALDebugger, tid uint64) bool {
	st, _ := d.Status().(map[string]interface{})
	th, _ := st["threads"].(map[string]map[string]interface{})
	if t, ok := th[fmt.Sprint(tid)]; ok {
		if r, ok := t["threadRunning"].(bool); ok && !r {
			return true
		}
	}
	return false
}

// c15run executes the program of the scenario, with or without the debugger.
func c15run(scn c15scn, debug bool) c15obs {
	var obs c15obs
	logger := util.NewMemoryLogger(2000)
	erp := interpreter.NewECALRuntimeProvider("c15", nil, logger)
	vs := scope.NewScope(scope.GlobalScope)
	var rec *c15rec
	var real util.ECALDebugger
	var mu sync.Mutex
	lines := len(scn.Prog)
	if debug {
		real = interpreter.NewECALDebugger(vs)
		rec = &c15rec{ECALDebugger: real, events: map[uint64][]c15ev{}, depth: map[uint64]int{}}
		erp.Debugger = rec
		for _, e := range scn.Edits0 {
			c15apply(real, e)
		}
		real.BreakOnStart(scn.Bos)
		real.BreakOnError(scn.Boe)
		rngs := map[uint64]*rand.Rand{}
		verifhook.SetHandler(func(point string, args ...interface{}) {
			if len(args) == 0 {
				return
			}
			tid, ok := args[0].(uint64)
			if !ok {
				return
			}
			switch point {
			case "debug.resumed":
				mu.Lock()
				for i := len(obs.Susp) - 1; i >= 0; i-- {
					if obs.Susp[i].Tid == tid {
						obs.Susp[i].Resumed = true
						break
					}
				}
				mu.Unlock()
			case "debug.suspend":
				mu.Lock()
				obs.HookSeen = true
				rng := rngs[tid]
				if rng == nil {
					rng = rand.New(rand.NewSource(scn.Seed*7919 + int64(tid)))
					rngs[tid] = rng
				}
				rec.mu.Lock()
				evs := rec.events[tid]
				depth := rec.depth[tid]
				rec.mu.Unlock()
				s := &c15susp{Tid: tid, Idx: len(evs) - 1, Cmd: util.Resume, Mode: "late"}
				if len(evs) > 0 {
					s.Line = evs[len(evs)-1].Line
				}
				if scn.Steps {
					switch rng.Intn(7) {
					case 0, 1:
						s.Cmd = util.StepIn
					case 2, 3:
						s.Cmd = util.StepOver
					case 4:
						if depth >= 1 { // stepping out of the top level is property C16's subject
							s.Cmd = util.StepOut
						}
					}
				}
				if nth := len(obs.Susp); nth < len(scn.Script) {
					s.Cmd = map[string]util.ContType{"resume": util.Resume, "stepin": util.StepIn, "stepover": util.StepOver, "stepout": util.StepOut}[scn.Script[nth]]
				}
				if !scn.Multi && scn.Kind == "run" && len(scn.EditLines) > 0 {
					// 0-3 edits over the scenario's small set of lines: repeated edits, disable before
					// set, set after remove ... all occur
					for n := []int{0, 0, 1, 1, 2, 3}[rng.Intn(6)]; n > 0; n-- {
						e := c15edit{scn.EditLines[rng.Intn(len(scn.EditLines))], []string{"set", "disable", "remove"}[rng.Intn(3)]}
						s.Edits = append(s.Edits, e)
						if rng.Intn(4) == 0 {
							s.Edits = append(s.Edits, e)
						}
					}
				} else if !scn.Multi && scn.Kind == "run" && rng.Intn(10) < 3 && lines > 0 {
					s.Edits = append(s.Edits, c15edit{1 + rng.Intn(lines), []string{"set", "set", "disable", "remove"}[rng.Intn(4)]})
				}
				if rng.Intn(100) < scn.Window {
					s.Mode = "window"
				}
				obs.Susp = append(obs.Susp, s)
				mu.Unlock()
				act := func() {
					defer func() {
						// a panic inside a debugger command is property C16's subject; here it only
						// must not take the harness down (the thread then stays suspended: inconclusive)
						if p := recover(); p != nil {
							mu.Lock()
							s.CmdPanic = fmt.Sprint(p)
							mu.Unlock()
						}
					}()
					for i := 0; i < 2000 && !s.Reported; i++ {
						if c15reported(real, tid) {
							mu.Lock()
							s.Reported = true
							mu.Unlock()
						} else {
							time.Sleep(time.Millisecond)
						}
					}
					for _, e := range s.Edits {
						c15apply(real, e)
					}
					if scn.Kind == "stop" {
						real.StopThreads(0)
					} else {
						real.Continue(tid, s.Cmd)
					}
					mu.Lock()
					s.Continued = true
					mu.Unlock()
				}
				if s.Mode == "window" {
					act() // the thread is held inside the hook until the command has completed
				} else {
					go func() {
						time.Sleep(time.Duration(200+rng.Intn(1500)) * time.Microsecond)
						act()
					}()
				}
			}
		})
		defer verifhook.SetHandler(nil)
	}
	src := strings.Join(scn.Prog, "\n")
	r := guarded(c15bound+time.Second, func() (interface{}, error) {
		ast, err := parser.ParseWithRuntime(c15src, src, erp)
		if err != nil {
			return nil, err
		}
		if err = ast.Runtime.Validate(); err != nil {
			return nil, err
		}
		tid := erp.NewThreadID()
		v, err := ast.Runtime.Eval(vs, make(map[string]interface{}), tid)
		if rec != nil {
			rec.RecordThreadFinished(tid)
		}
		return v, err
	})
	obs.TimedOut, obs.Panicked, obs.PanicMsg = r.TimedOut, r.Panicked, r.PanicMsg
	if debug && r.TimedOut {
		time.Sleep(c15bound) // a second full bound before anything is concluded from the time-out
	}
	if debug {
		// let late continues finish, then release whatever is still suspended
		time.Sleep(3 * time.Millisecond)
		real.StopThreads(0)
	}
	if !r.TimedOut {
		guarded(2*time.Second, func() (interface{}, error) { erp.Processor.Finish(); return nil, nil })
	}
	erp.Cron.Stop()
	obs.Result = fmt.Sprint(r.Val)
	obs.ErrS = c15errString(r.Err)
	obs.Log = logger.Slice()
	if scn.Multi {
		sort.Strings(obs.Log)
	}
	obs.Scope = vs.String()
	if rec != nil {
		rec.mu.Lock()
		obs.Events = map[uint64][]c15ev{}
		for k, v := range rec.events {
			obs.Events[k] = append([]c15ev{}, v...)
		}
		obs.VisitErrs = rec.visitErrs
		rec.mu.Unlock()
		mu.Lock()
		cp := make([]*c15susp, len(obs.Susp))
		for i, s := range obs.Susp {
			c := *s
			cp[i] = &c
		}
		obs.Susp = cp
		mu.Unlock()
	}
	return obs
}

// ---- Coq emission -------------------------------------------------------------------

func c15coqEdit(e c15edit) string {
	b := "None"
	if e.Op == "set" {
		b = "(Some true)"
	} else if e.Op == "disable" {
		b = "(Some false)"
	}
	return fmt.Sprintf("(%d, %s)", e.Line, b)
}

func c15coqEdits(es []c15edit) string {
	var items []string
	for _, e := range es {
		items = append(items, c15coqEdit(e))
	}
	return CoqList(items)
}

func c15coqCmd(k util.ContType) string {
	switch k {
	case util.StepIn:
		return "KStepIn"
	case util.StepOver:
		return "KStepOver"
	case util.StepOut:
		return "KStepOut"
	}
	return "KResume"
}

func c15emitDecision(c *Ctx, scn c15scn, obs c15obs) {
	tids := []uint64{}
	for t := range obs.Events {
		tids = append(tids, t)
	}
	sort.Slice(tids, func(i, j int) bool { return tids[i] < tids[j] })
	for _, t := range tids {
		evs := obs.Events[t]
		if len(evs) > 1500 {
			c.Dist["decision_trace_too_long"]++
			continue
		}
		var ev, cmds, idx []string
		for _, e := range evs {
			switch e.K {
			case 'V':
				ev = append(ev, fmt.Sprintf("EVisit %d", e.Line))
			case 'I':
				ev = append(ev, fmt.Sprintf("EStepIn %d", e.Line))
			default:
				ev = append(ev, fmt.Sprintf("EStepOut %d %s", e.Line, CoqBool(e.Err)))
			}
		}
		n := 0
		for _, s := range obs.Susp {
			if s.Tid != t {
				continue
			}
			n++
			cmds = append(cmds, fmt.Sprintf("(%s, %s)", c15coqEdits(s.Edits), c15coqCmd(s.Cmd)))
			idx = append(idx, fmt.Sprint(s.Idx))
		}
		id := c.NewID()
		term := fmt.Sprintf("DecCase %d%%N %s %s %s %s %s %s", id, c15coqEdits(scn.Edits0), CoqBool(scn.Bos),
			CoqBool(scn.Boe), CoqList(ev), CoqList(cmds), CoqList(idx))
		c.Dist["decision_cases"]++
		if n > 0 {
			c.Dist["decision_cases_with_suspension"]++
		}
		c.AddCase(id, term, scn, fmt.Sprintf("%v|%v|%v", scn.Prog, scn.Edits0, scn.Seed), n > 0)
	}
}

// ---- one scenario -------------------------------------------------------------------

// returns false when the hook points are missing from the repository
func c15one(c *Ctx, scn c15scn) bool {
	if scn.Kind == "stopall" || scn.Kind == "contall" {
		c15group(c, scn)
		return true
	}
	var p1, p2 c15obs
	if scn.Kind == "run" {
		p1 = c15run(scn, false)
		p2 = c15run(scn, false)
		if p1.TimedOut || p1.Panicked || p2.TimedOut || p2.Panicked {
			c.Dist["skipped_plain_run_failed"]++ // C06's subject, not this property's
			return true
		}
		if p1.Result != p2.Result || p1.ErrS != p2.ErrS || p1.Scope != p2.Scope || strings.Join(p1.Log, "\n") != strings.Join(p2.Log, "\n") {
			c.Dist["skipped_plain_runs_differ"]++
			return true
		}
	}
	d := c15run(scn, true)
	c.Dist["scenario_"+scn.Kind]++
	if scn.Multi {
		c.Dist["multi_thread"]++
	}
	c.Dist["suspensions"] += len(d.Susp)
	lost := false
	for _, s := range d.Susp {
		c.Dist["continue_"+s.Mode]++
		c.Dist["cmd_"+c15coqCmd(s.Cmd)]++
		if s.Reported && s.Continued && !s.Resumed && d.TimedOut {
			lost = true
		}
		if !s.Reported {
			c.Dist["suspension_not_reported_by_status"]++
		}
		if s.CmdPanic != "" {
			c.Dist["command_panicked"]++
			c.Notes = append(c.Notes, "a debugger command panicked (C16): "+s.CmdPanic)
		}
	}
	key := fmt.Sprintf("%v|%v|%v|%v", scn.Kind, scn.Prog, scn.Edits0, scn.Seed)
	if scn.Kind != "run" {
		// forced schedule of the protocol: model prediction against what happened
		if !d.HookSeen {
			return false
		}
		resumed := !d.TimedOut
		cmd := "LContBegin 0 KResume; LContFinish 0"
		if scn.Kind == "stop" {
			cmd = "LStopOne 0"
		}
		line := 0
		if len(d.Susp) > 0 {
			line = d.Susp[len(d.Susp)-1].Line
		}
		if resumed || scn.Kind == "window" { // a failed StopThreads schedule is reported under its own key below
			id := c.NewID()
			term := fmt.Sprintf("ProtoCase %d%%N [LSuspend 0 %d; %s; LThread 0; LThread 0] 0 %s", id, line, cmd, CoqBool(resumed))
			c.AddCase(id, term, scn, key, true)
		}
	}
	if lost {
		what, vkey := "Continue", "lost-wakeup"
		if scn.Kind == "stop" {
			what, vkey = "StopThreads", "lost-wakeup-stop"
		}
		c.vcount["lost-wakeup"]++
		c.Violate(vkey, fmt.Sprintf("a thread that Status() reported as suspended was not released by %s: the command completed before the thread called cond.Wait, the thread then waited for more than %v and no further command can reach it", what, 2*c15bound), scn)
		c.Count(key, true, scn)
		return true
	}
	if d.TimedOut {
		c.Dist["inconclusive_timeout"]++
		c.Notes = append(c.Notes, "a debugged run did not finish within the bound without evidence of a lost wake-up (not counted as a violation)")
		return true
	}
	if d.VisitErrs > 0 {
		c.Violate("visit-error", "VisitState returned an error to the program", scn)
	}
	if scn.Kind == "run" {
		diff := ""
		switch {
		case d.Panicked:
			diff = "debugged run panicked: " + d.PanicMsg
		case d.Result != p1.Result || d.ErrS != p1.ErrS:
			diff = fmt.Sprintf("result/error: plain (%q, %q) debugged (%q, %q)", p1.Result, p1.ErrS, d.Result, d.ErrS)
		case strings.Join(d.Log, "\n") != strings.Join(p1.Log, "\n"):
			diff = fmt.Sprintf("log: plain %q debugged %q", p1.Log, d.Log)
		case d.Scope != p1.Scope:
			diff = fmt.Sprintf("global scope: plain %q debugged %q", p1.Scope, d.Scope)
		}
		if diff != "" {
			c.Violate("transparency", "the debugged run differs from the undebugged run — "+diff, scn)
		}
		c.Count(key, len(d.Susp) > 0, scn)
	}
	c15emitDecision(c, scn, d)
	return true
}

// ---- generator ------------------------------------------------------------------------

type c15gen struct {
	rng    *rand.Rand
	lines  []string
	ind    int
	funcs  map[string]bool
	budget int
}

func (g *c15gen) emit(s string) { g.lines = append(g.lines, strings.Repeat("  ", g.ind)+s) }

func (g *c15gen) v() string { return []string{"a", "b", "c"}[g.rng.Intn(3)] }

func (g *c15gen) expr() string {
	switch g.rng.Intn(9) {
	case 0:
		return fmt.Sprint(g.rng.Intn(9))
	case 1:
		return g.v()
	case 2:
		return g.v() + " + " + fmt.Sprint(1+g.rng.Intn(5))
	case 3:
		return g.v() + " * 2 - " + g.v()
	case 4:
		if g.funcs["f1"] {
			return "f1(" + g.v() + ")"
		}
	case 5:
		if g.funcs["f2"] {
			return "f2(f1(" + g.v() + ")) + f1(1)"
		}
	case 6:
		if g.funcs["rec"] {
			return "rec(" + fmt.Sprint(g.rng.Intn(4)) + ")"
		}
	case 7:
		return "len([1, 2, " + g.v() + "])"
	}
	return g.v() + " + 1"
}

func (g *c15gen) stmt(depth int) {
	g.budget--
	switch k := g.rng.Intn(12); {
	case k <= 2:
		g.emit(g.v() + " := " + g.expr())
	case k == 3:
		g.emit("log(\"v \", " + g.v() + ", \" \", " + g.v() + ")")
	case k == 4:
		g.emit(g.v() + " := " + g.v() + " + 1; " + g.v() + " := " + g.expr())
	case k == 5 && g.funcs["f1"]:
		x := g.v()
		g.emit(x + " := f1(")
		g.emit("  " + g.v() + ")")
	case k == 6 && depth < 2 && g.budget > 2:
		g.emit(fmt.Sprintf("for i in range(0, %d) {", g.rng.Intn(4)))
		g.block(depth + 1)
		g.emit("}")
	case k == 7 && depth < 2 && g.budget > 2:
		g.emit(fmt.Sprintf("if %s > %d {", g.v(), g.rng.Intn(6)))
		g.block(depth + 1)
		if g.rng.Intn(2) == 0 {
			g.emit("} else {")
			g.block(depth + 1)
		}
		g.emit("}")
	case k == 8 && depth < 2 && g.budget > 2:
		g.emit("try {")
		g.ind++
		g.stmt(depth + 1)
		switch g.rng.Intn(3) {
		case 0:
			g.emit("raise(\"E1\", \"detail\", " + g.v() + ")")
		case 1:
			if g.funcs["bad"] {
				g.emit(g.v() + " := bad(" + g.v() + ")")
			}
		}
		g.emit("log(\"after\")")
		g.ind--
		g.emit("} except e {")
		g.ind++
		g.emit("log(\"caught \", e.type)")
		g.ind--
		if g.rng.Intn(2) == 0 {
			g.emit("} finally {")
			g.ind++
			g.emit(g.v() + " := " + g.v() + " + 100")
			g.ind--
		}
		g.emit("}")
	case k == 9 && g.funcs["f2"]:
		g.emit("log(\"f \", f2(" + g.v() + "))")
	default:
		g.emit(g.v() + " := " + g.expr())
	}
}

func (g *c15gen) block(depth int) {
	g.ind++
	n := 1 + g.rng.Intn(3)
	for i := 0; i < n && g.budget > 0; i++ {
		g.stmt(depth)
	}
	g.ind--
}

func (g *c15gen) prelude() {
	if g.rng.Intn(4) > 0 {
		g.funcs["f1"] = true
		g.emit("func f1(p) {")
		g.emit("  q := p + 1")
		g.emit("  return q * 2")
		g.emit("}")
		if g.rng.Intn(2) == 0 {
			g.funcs["f2"] = true
			g.emit("func f2(p) {")
			g.emit("  r := f1(p) + 1")
			g.emit("  log(\"f2 \", r)")
			g.emit("  return r")
			g.emit("}")
		}
	}
	if g.rng.Intn(3) == 0 {
		g.funcs["bad"] = true
		g.emit("func bad(p) {")
		g.emit("  log(\"bad \", p)")
		g.emit("  raise(\"Boom\", \"detail\", p)")
		g.emit("}")
	}
	if g.rng.Intn(3) == 0 {
		g.funcs["rec"] = true
		g.emit("func rec(n) {")
		g.emit("  if n <= 0 {")
		g.emit("    return 0")
		g.emit("  }")
		g.emit("  return n + rec(n - 1)")
		g.emit("}")
	}
}

func c15genSingle(rng *rand.Rand) []string {
	g := &c15gen{rng: rng, funcs: map[string]bool{}, budget: 4 + rng.Intn(10)}
	g.prelude()
	g.emit("a := 1")
	g.emit("b := 2")
	g.emit("c := 0")
	for g.budget > 0 {
		g.stmt(0)
	}
	g.emit("log(\"end \", a, \" \", b, \" \", c)")
	g.emit("a + b + c")
	return g.lines
}

func c15genMulti(rng *rand.Rand) []string {
	g := &c15gen{rng: rng, funcs: map[string]bool{}, budget: 0}
	g.funcs["f1"] = true
	g.emit("func f1(p) {")
	g.emit("  q := p + 1")
	g.emit("  return q * 2")
	g.emit("}")
	nsinks := 2 + rng.Intn(3)
	for i := 1; i <= nsinks; i++ {
		kind := []string{"\"k.a\"", "\"k.*\"", "\"k.a\", \"k.c\""}[rng.Intn(3)]
		if i == nsinks {
			kind = "\"j.b\"" // only the last sink handles the cascaded events, and it adds none
		}
		g.emit(fmt.Sprintf("sink s%d", i))
		g.emit(fmt.Sprintf("  kindmatch [%s],", kind))
		g.emit("  {")
		g.emit(fmt.Sprintf("    log(\"s%d \", event.kind, \" \", event.state.v)", i))
		n := rng.Intn(3)
		for j := 0; j < n; j++ {
			switch rng.Intn(3) {
			case 0:
				g.emit("    x := f1(event.state.v)")
				g.emit(fmt.Sprintf("    log(\"s%dx \", x)", i))
			case 1:
				g.emit("    for i in range(0, 2) {")
				g.emit(fmt.Sprintf("      log(\"s%dl \", i + event.state.v)", i))
				g.emit("    }")
			default:
				g.emit("    y := event.state.v * 3")
			}
		}
		if i < nsinks && rng.Intn(2) == 0 {
			g.emit(fmt.Sprintf("    addEvent(\"e%d\", \"j.b\", {\"v\" : event.state.v + %d})", i, 10*i))
		}
		g.emit("  }")
	}
	nev := 1 + rng.Intn(3)
	for i := 1; i <= nev; i++ {
		g.emit(fmt.Sprintf("res := addEventAndWait(\"m%d\", \"k.a\", {\"v\" : %d})", i, i))
		g.emit(fmt.Sprintf("log(\"main \", %d, \" \", len(res))", i))
	}
	g.emit("f1(3)")
	return g.lines
}

func c15edits0(rng *rand.Rand, lines int, dense bool) []c15edit {
	var es []c15edit
	n := 1 + rng.Intn(4)
	if dense {
		n = lines/2 + 1
	}
	for i := 0; i < n; i++ {
		l := 1 + rng.Intn(lines)
		es = append(es, c15edit{l, "set"})
		switch rng.Intn(6) {
		case 0:
			es = append(es, c15edit{l, "disable"})
		case 1:
			es = append(es, c15edit{l, "remove"})
		case 2:
			es = append(es, c15edit{l, "disable"}, c15edit{l, "set"})
		}
	}
	return es
}

// c15history draws a breakpoint edit history from {set, disable, remove} over a small set of
// lines, with repetition: the same edit twice, disable before set, set after remove, disable of a
// line that never had a breakpoint.
func c15history(rng *rand.Rand, lines int) ([]int, []c15edit) {
	var set []int
	for n := 2 + rng.Intn(3); n > 0; n-- {
		set = append(set, 1+rng.Intn(lines))
	}
	var es []c15edit
	for n := 2 + rng.Intn(8); n > 0; n-- {
		e := c15edit{set[rng.Intn(len(set))], []string{"set", "set", "disable", "disable", "remove"}[rng.Intn(5)]}
		if len(es) > 0 && rng.Intn(4) == 0 {
			e = es[len(es)-1] // the same edit once more
		}
		es = append(es, e)
	}
	return set, es
}

// the fixed corpus: the witness schedule of the repaired defect at its three wait sites, the
// same for StopThreads, and hand-written programs around the suspend rule
func c15corpus() []c15scn {
	win := []string{"thread: registers / running=false, reaches debug.suspend (Status reports it suspended)",
		"debugger: Continue(tid, Resume) runs to completion", "thread: locks the condition and calls Wait"}
	errProg := []string{"func f() {", "  raise(\"E\", \"d\", 1)", "}", "try {", "  f()", "} except {", "  log(\"x\")", "}", "log(\"done\")"}
	stepProg := []string{"a := 1", "b := 2", "c := a + b", "log(c)"}
	funProg := []string{"func g(p) {", "  q := p + 1", "  return q", "}", "a := 1", "b := g(a) + g(2)", "log(b); log(a)", "c := g(", "  b)", "log(c)"}
	loopProg := []string{"a := 0", "for i in range(0, 3) {", "  a := a + i", "  log(a)", "}", "for i in range(0, 2) { log(i) }", "log(\"e\")"}
	sixProg := []string{"log(1)", "log(2)", "log(3)", "log(4)", "log(5)", "log(6)"}
	sinkProg := []string{"sink s1", "  kindmatch [\"k.a\"],", "  {", "    log(\"s1 \", event.state.v)", "    log(\"s1b \", event.state.v)", "  }",
		"addEvent(\"e1\", \"k.a\", {\"v\" : 1})", "addEvent(\"e2\", \"k.a\", {\"v\" : 2})", "addEvent(\"e3\", \"k.a\", {\"v\" : 3})", "addEvent(\"e4\", \"k.a\", {\"v\" : 4})", "log(\"main\")"}
	return []c15scn{
		{Kind: "window", Site: "breakpoint", Prog: []string{"log(1)", "log(2)", "log(3)"}, Edits0: []c15edit{{2, "set"}}, Seed: 1, Window: 100, Sched: win},
		{Kind: "window", Site: "step", Prog: stepProg, Edits0: []c15edit{{2, "set"}}, Seed: 5, Window: 100, Script: []string{"stepin", "stepover"}, Sched: win},
		{Kind: "window", Site: "error", Prog: errProg, Boe: true, Seed: 1, Window: 100, Sched: win},
		{Kind: "stop", Site: "breakpoint", Prog: []string{"log(1)", "log(2)", "log(3)"}, Edits0: []c15edit{{2, "set"}}, Seed: 1, Window: 100,
			Sched: []string{win[0], "debugger: StopThreads runs to completion", win[2]}},
		{Kind: "run", Prog: funProg, Edits0: []c15edit{{2, "set"}, {6, "set"}, {7, "set"}, {9, "set"}}, Seed: 2, Window: 50},
		{Kind: "run", Prog: funProg, Edits0: []c15edit{{6, "set"}, {2, "set"}, {3, "set"}, {3, "disable"}}, Seed: 3, Window: 50, Steps: true},
		{Kind: "run", Prog: funProg, Bos: true, Seed: 4, Window: 0, Steps: true},
		{Kind: "run", Prog: loopProg, Edits0: []c15edit{{3, "set"}, {6, "set"}, {4, "set"}, {4, "remove"}}, Seed: 5, Window: 100},
		{Kind: "run", Prog: errProg, Edits0: []c15edit{{2, "set"}, {7, "set"}}, Boe: true, Seed: 6, Window: 50, Steps: true},
		{Kind: "run", Prog: errProg, Edits0: []c15edit{{5, "set"}}, Boe: false, Seed: 7, Window: 50, Steps: true},
		// breakpoint histories with repeated edits
		{Kind: "run", Prog: sixProg, Edits0: []c15edit{{3, "set"}, {5, "set"}, {3, "disable"}, {3, "disable"}}, Seed: 8, Window: 50},
		{Kind: "run", Prog: sixProg, Edits0: []c15edit{{6, "disable"}, {6, "disable"}, {4, "set"}}, Seed: 9, Window: 50},
		{Kind: "run", Prog: sixProg, Edits0: []c15edit{{3, "set"}, {3, "disable"}, {3, "disable"}, {3, "remove"}, {3, "set"}}, Seed: 10, Window: 100},
		{Kind: "run", Prog: sixProg, Edits0: []c15edit{{2, "set"}, {2, "set"}, {2, "remove"}, {2, "remove"}, {4, "set"}, {2, "disable"}, {5, "set"}}, Seed: 11, Window: 0, EditLines: []int{2, 4, 5, 6}},
		{Kind: "run", Prog: sixProg, Edits0: []c15edit{{2, "set"}}, Seed: 12, Window: 100, EditLines: []int{3, 5}},
		// several threads suspended at the same time
		{Kind: "stopall", Prog: sixProg, Edits0: []c15edit{{3, "set"}}, Seed: 13, Threads: 3},
		{Kind: "contall", Prog: sixProg, Edits0: []c15edit{{3, "set"}, {5, "set"}}, Seed: 14, Threads: 3},
		{Kind: "stopall", Prog: sinkProg, Edits0: []c15edit{{4, "set"}}, Seed: 15, Multi: true, Threads: 4},
		{Kind: "contall", Prog: sinkProg, Edits0: []c15edit{{4, "set"}}, Seed: 16, Multi: true, Threads: 4},
	}
}

func runC15(c *Ctx) error {
	c.Rule = "scenario = generated ECAL program (one statement per line; functions incl. recursion and calls as arguments, loops, if/else, try/except/finally with raise, two statements on a line, a call spanning two lines; or 2-4 sinks on 4 workers with cascading events) x breakpoint edits before the run (set / set+disable / set+remove / set+disable+set over random lines) x break-on-start / break-on-error x a seeded stream of continue commands {resume, stepin, stepover, stepout} and further breakpoint edits given at every suspension, each either inside the window between 'marked suspended' and cond.Wait or a little later; corpus first (lost wake-up witness at the three wait sites and for StopThreads, hand-written step/loop/error programs); busy scenarios: one thread stepping (stepout / stepover / stepin / resume cycles) through a three-deep call while 2-6 other threads of the same debugger loop over function calls - every continue must return, release its thread, all threads must finish with the undebugged results; non-trivial = the debugged run suspended at least once; distinct by (program, edits, seed)"
	c.BeginCases("From Coq Require Import NArith List.\nImport ListNotations.\nFrom Ecal Require Import Common.Sched Model.Debugger Run.RunC15.", "case", 60)
	if c.Replay != "" {
		var d c15scn
		if err := c.LoadReplay(&d); err != nil {
			return err
		}
		if d.Kind == "busy" {
			var b c15busyScn
			if err := c.LoadReplay(&b); err != nil {
				return err
			}
			c15busy(c, b)
			return nil
		}
		if !c15one(c, d) {
			return fmt.Errorf("hook points debug.suspend / debug.resumed are not present in the repository (fixes/hooks-C15.patch)")
		}
		return nil
	}
	for _, scn := range c15corpus() {
		if scn.Kind == "run" && c.vcount["lost-wakeup"] > 0 {
			// the protocol itself is broken: the forced schedules above are the replay; running
			// programs under a debugger that loses continues only repeats them with more noise
			c.Notes = append(c.Notes, "sweep skipped: the forced lost-wake-up schedule already failed")
			c.Exhaustive = false
			return nil
		}
		if !c15one(c, scn) {
			return fmt.Errorf("hook points debug.suspend / debug.resumed are not present in the repository (fixes/hooks-C15.patch)")
		}
	}
	c.Extra["corpus"] = len(c15corpus())
	// continue commands for one thread while other threads of the same debugger run
	c15busyScenarios(c)
	n := c.Pick(260, 5000)
	for i := 0; i < n; i++ {
		if c.vcount["lost-wakeup"] >= 6 || c.Enough() {
			c.Notes = append(c.Notes, "sweep stopped early after repeated violations")
			break
		}
		scn := c15scn{Kind: "run", Seed: c.Rng.Int63n(1 << 30), Window: []int{0, 50, 50, 100}[c.Rng.Intn(4)], Steps: c.Rng.Intn(4) > 0}
		if i%6 == 5 {
			scn.Multi = true
			scn.Prog = c15genMulti(c.Rng)
		} else {
			scn.Prog = c15genSingle(c.Rng)
			scn.Bos = c.Rng.Intn(8) == 0
		}
		scn.Boe = c.Rng.Intn(3) == 0
		scn.Edits0 = c15edits0(c.Rng, len(scn.Prog), c.Rng.Intn(5) == 0)
		if !scn.Multi && i%2 == 0 {
			scn.EditLines, scn.Edits0 = c15history(c.Rng, len(scn.Prog))
			c.Dist["edit_history_with_repetition"]++
		}
		if i%20 == 7 {
			// several threads suspended at the same time, released by StopThreads or one by one
			g := c15scn{Kind: []string{"stopall", "contall"}[c.Rng.Intn(2)], Seed: scn.Seed, Threads: 2 + c.Rng.Intn(3)}
			n := 3 + c.Rng.Intn(4)
			for l := 1; l <= n; l++ {
				g.Prog = append(g.Prog, fmt.Sprintf("log(%d)", l))
			}
			g.Edits0 = []c15edit{{1 + c.Rng.Intn(n), "set"}}
			if g.Kind == "contall" && c.Rng.Intn(2) == 0 {
				g.Edits0 = append(g.Edits0, c15edit{1 + c.Rng.Intn(n), "set"})
			}
			c15one(c, g)
		}
		c15one(c, scn)
	}
	c.Exhaustive = false
	return nil
}

// ---- several threads suspended at the same time ----------------------------------------

// c15group debugs several threads at once (scn.Threads evaluations of the program, each with its
// own thread id and scope; or one program whose sink runs on the pool workers), lets them all
// suspend at the breakpoints, waits until Status() reports them suspended simultaneously and then
// either calls StopThreads once ("stopall": every one of them must leave its suspension) or
// gives each its own Continue ("contall": each must be released by the continue addressed to it).
func c15group(c *Ctx, scn c15scn) {
	logger := util.NewMemoryLogger(2000)
	erp := interpreter.NewECALRuntimeProvider("c15", nil, logger)
	real := interpreter.NewECALDebugger(scope.NewScope(scope.GlobalScope))
	erp.Debugger = real
	for _, e := range scn.Edits0 {
		c15apply(real, e)
	}
	real.BreakOnError(false)
	var mu sync.Mutex
	suspended := map[uint64]int{} // passes of debug.suspend
	resumed := map[uint64]int{}   // passes of debug.resumed
	released := false             // contall: later suspensions are continued at once
	verifhook.SetHandler(func(point string, args ...interface{}) {
		if len(args) == 0 {
			return
		}
		tid, ok := args[0].(uint64)
		if !ok {
			return
		}
		mu.Lock()
		defer mu.Unlock()
		switch point {
		case "debug.suspend":
			suspended[tid]++
			if released {
				go func() {
					for i := 0; i < 2000 && !c15reported(real, tid); i++ {
						time.Sleep(time.Millisecond)
					}
					real.Continue(tid, util.Resume)
				}()
			}
		case "debug.resumed":
			resumed[tid]++
		}
	})
	defer verifhook.SetHandler(nil)

	src := strings.Join(scn.Prog, "\n")
	n := scn.Threads
	if scn.Multi {
		n = 1
	}
	done := make(chan bool, n)
	for i := 0; i < n; i++ {
		ast, err := parser.ParseWithRuntime(c15src, src, erp) // one tree per thread, parsed one after the other
		if err == nil {
			err = ast.Runtime.Validate()
		}
		if err != nil {
			c.Dist["skipped_group_program_invalid"]++
			erp.Cron.Stop()
			return
		}
		tid := erp.NewThreadID()
		go func() {
			defer func() { recover(); done <- true }()
			ast.Runtime.Eval(scope.NewScope(scope.GlobalScope), make(map[string]interface{}), tid)
			real.RecordThreadFinished(tid)
		}()
	}
	// wait until the expected number of threads is suspended at the same time
	held := func() []uint64 {
		mu.Lock()
		defer mu.Unlock()
		var l []uint64
		for t, k := range suspended {
			if k > resumed[t] {
				l = append(l, t)
			}
		}
		sort.Slice(l, func(i, j int) bool { return l[i] < l[j] })
		return l
	}
	allReported := func(l []uint64) bool {
		for _, t := range l {
			if !c15reported(real, t) {
				return false
			}
		}
		return true
	}
	var set []uint64
	for i := 0; i < 3000; i++ {
		set = held()
		if (len(set) >= scn.Threads || (i > 1500 && len(set) >= 2)) && allReported(set) {
			break
		}
		time.Sleep(time.Millisecond)
	}
	cleanup := func() {
		mu.Lock()
		released = false
		mu.Unlock()
		for i := 0; i < 5; i++ {
			real.StopThreads(0)
			time.Sleep(2 * time.Millisecond)
		}
		guarded(2*time.Second, func() (interface{}, error) { erp.Processor.Finish(); return nil, nil })
		erp.Cron.Stop()
	}
	if len(set) < 2 || !allReported(set) {
		c.Dist["skipped_group_fewer_than_two_suspended"]++
		cleanup()
		return
	}
	before := map[uint64]int{}
	mu.Lock()
	for _, t := range set {
		before[t] = resumed[t]
	}
	if scn.Kind == "contall" {
		released = true
	}
	mu.Unlock()
	cmdOK := true
	func() {
		defer func() {
			if p := recover(); p != nil {
				cmdOK = false
				c.Notes = append(c.Notes, "a debugger command panicked (C16): "+fmt.Sprint(p))
			}
		}()
		if scn.Kind == "stopall" {
			real.StopThreads(0)
		} else {
			for _, t := range set {
				real.Continue(t, util.Resume)
			}
		}
	}()
	stuck := func() []uint64 {
		mu.Lock()
		defer mu.Unlock()
		var l []uint64
		for _, t := range set {
			if resumed[t] == before[t] {
				l = append(l, t)
			}
		}
		return l
	}
	var left []uint64
	for round := 0; round < 2; round++ { // a second full bound before anything is concluded
		deadline := time.Now().Add(c15bound)
		for left = stuck(); len(left) > 0 && time.Now().Before(deadline); left = stuck() {
			time.Sleep(2 * time.Millisecond)
		}
		if len(left) == 0 {
			break
		}
	}
	c.Dist["scenario_"+scn.Kind]++
	c.Dist[fmt.Sprintf("group_%d_suspended_together", len(set))]++
	key := fmt.Sprintf("%v|%v|%v|%v|%v", scn.Kind, scn.Prog, scn.Edits0, scn.Threads, scn.Multi)
	if cmdOK && len(left) > 0 {
		if scn.Kind == "stopall" {
			c.Violate("stop-leaves-suspended", fmt.Sprintf("%d threads were reported as suspended at the same time; after StopThreads returned %d of them did not leave their suspension within %v", len(set), len(left), 2*c15bound), scn)
		} else {
			c.Violate("lost-wakeup", fmt.Sprintf("%d threads were reported as suspended at the same time and each was given its own Continue; %d of them did not leave their suspension within %v", len(set), len(left), 2*c15bound), scn)
		}
	} else if cmdOK {
		// the model's prediction for the forced schedule: all suspend and wait, the command regions
		// run, every thread takes its own two steps
		var sched []string
		line := scn.Edits0[0].Line
		for i := range set {
			sched = append(sched, fmt.Sprintf("LSuspend %d %d; LThread %d; LThread %d", i, line, i, i))
		}
		for i := range set {
			if scn.Kind == "stopall" {
				sched = append(sched, fmt.Sprintf("LStopOne %d", i))
			} else {
				sched = append(sched, fmt.Sprintf("LContBegin %d KResume; LContFinish 0", i))
			}
		}
		for i := range set {
			sched = append(sched, fmt.Sprintf("LThread %d; LThread %d", i, i))
		}
		for i := range set {
			id := c.NewID()
			c.AddCase(id, fmt.Sprintf("ProtoCase %d%%N [%s] %d true", id, strings.Join(sched, "; "), i), scn, key, true)
		}
	}
	c.Count(key, true, scn)
	if scn.Kind == "contall" {
		// the programs must now run to their end (later suspensions are continued at once)
		for i := 0; i < n; i++ {
			select {
			case <-done:
			case <-time.After(c15bound):
				c.Dist["inconclusive_timeout"]++
				i = n
			}
		}
	}
	cleanup()
}
